import TracklibVerif.Lemmas.TextIOSci
/-! WKT export / parse (core only): `Track.toWKT` → `TrackReader.parseWkt`, and the vertex list shared with
`wktLineStringToObs`. Ordinates are printed by `str(float)` over its whole range (`reprFloat`: positional or exponent
notation); `parseWkt` upper-cases the text first, so it meets the marker `E` where the network reader meets `e`. -/
namespace TV.TextIO

theorem numChar_ne {c x : Char} (h : numChar c = true) (hx : numChar x = false) : c ≠ x := by
  intro e; rw [e, hx] at h; exact absurd h (by decide)

theorem not_mem_of_numChar (s : Str) (h : ∀ c ∈ s, numChar c = true) (x : Char) (hx : numChar x = false) : x ∉ s :=
  fun hm => numChar_ne (h x hm) hx rfl

theorem strip_numStr (s : Str) (hne : s ≠ []) (h : ∀ c ∈ s, numChar c = true) : strip s = s :=
  strip_eq_self s (fun c hc => (numChar_not_ws (h c (List.mem_of_mem_head? hc))).1)
    (fun c hc => (numChar_not_ws (h c (List.mem_of_getLast? hc))).1)

/-! ### the characters of an ordinate -/

theorem expChar_cases {ec : Char} (h : isExpChar ec = true) : ec = 'e' ∨ ec = 'E' := by
  unfold isExpChar at h
  simpa using h

theorem reprFloat_avoids (ec : Char) (d : Nat) (v : SNum) (x : Char) (hx : numChar x = false) (h1 : x ≠ ec) (h2 : x ≠ '+') :
    x ∉ reprFloat ec d v := by
  intro hm
  rcases reprFloat_chars ec d v x hm with h | h | h
  · rw [hx] at h; exact absurd h (by decide)
  · exact h1 h
  · exact h2 h

theorem reprFloat_not_ws (ec : Char) (hec : isExpChar ec = true) (d : Nat) (v : SNum) :
    ∀ c ∈ reprFloat ec d v, isWs c = false := by
  intro c hc
  rcases reprFloat_chars ec d v c hc with h | h | h
  · exact (numChar_not_ws h).1
  · subst h; rcases expChar_cases hec with rfl | rfl <;> decide
  · subst h; decide

/-! ### a vertex, the vertex list -/

def vertexStr (ec : Char) (d : Nat) (p : Pt) : Str := reprFloat ec d p.1 ++ [' '] ++ reprFloat ec d p.2

/-- the vertex as it is parsed back -/
def expVertex (d : Nat) (p : Pt) : Dec × Dec × Dec := (reprValF d p.1, reprValF d p.2, (0, 0))

theorem vertexStr_avoids (ec : Char) (d : Nat) (p : Pt) (x : Char) (hx : numChar x = false) (hx' : x ≠ ' ')
    (h1 : x ≠ ec) (h2 : x ≠ '+') : x ∉ vertexStr ec d p := by
  intro hm
  unfold vertexStr at hm
  simp only [List.mem_append, List.mem_singleton] at hm
  rcases hm with (hm | hm) | hm
  · exact reprFloat_avoids ec d p.1 x hx h1 h2 hm
  · exact hx' hm
  · exact reprFloat_avoids ec d p.2 x hx h1 h2 hm

theorem parseVertex_vertexStr (ec : Char) (hec : isExpChar ec = true) (d : Nat) (p : Pt) :
    parseVertex (vertexStr ec d p) = .ok (expVertex d p) := by
  unfold parseVertex
  have hsp : ' ' ≠ ec := by rcases expChar_cases hec with rfl | rfl <;> decide
  have hstrip : strip (vertexStr ec d p) = vertexStr ec d p := by
    apply strip_eq_self
    · intro c hc
      have hne := reprFloat_ne_nil ec d p.1
      unfold vertexStr at hc
      cases h : reprFloat ec d p.1 with
      | nil => exact absurd h hne
      | cons x xs =>
        rw [h] at hc; simp at hc; rw [← hc]
        exact reprFloat_not_ws ec hec d p.1 x (by rw [h]; simp)
    · intro c hc
      unfold vertexStr at hc
      rw [List.getLast?_append] at hc
      cases h : (reprFloat ec d p.2).getLast? with
      | none => simp at h; exact absurd h (reprFloat_ne_nil ec d p.2)
      | some y =>
        rw [h] at hc; simp at hc; rw [← hc]
        exact reprFloat_not_ws ec hec d p.2 _ (List.mem_of_getLast? h)
  have hsplit : splitOnChar ' ' (vertexStr ec d p) = [reprFloat ec d p.1, reprFloat ec d p.2] := by
    unfold vertexStr
    rw [List.append_assoc, List.singleton_append,
      splitOnChar_append _ _ _ (reprFloat_avoids ec d p.1 ' ' (by decide) hsp (by decide)),
      splitOnChar_of_not_mem _ _ (reprFloat_avoids ec d p.2 ' ' (by decide) hsp (by decide))]
  rw [hstrip, hsplit]
  simp [nth, parseDec_reprFloat ec hec, expVertex, bind, Except.bind, pure, Except.pure]

/-- the coordinate list of a LINESTRING text: `wkt.split("(")[1].split(")")[0].split(",")` -/
theorem wktCoords_eq (pre : Str) (vs : List Str) (hpre : '(' ∉ pre) (hne : vs ≠ [])
    (hv : ∀ v ∈ vs, '(' ∉ v ∧ ')' ∉ v ∧ ',' ∉ v) :
    wktCoords (pre ++ ['('] ++ joinChar ',' vs ++ [')']) = .ok vs := by
  unfold wktCoords
  have hb1 : '(' ∉ joinChar ',' vs ++ [')'] := by
    intro hm
    rcases List.mem_append.1 hm with hm | hm
    · rcases mem_joinChar hm with h | ⟨v, hv', hx⟩
      · exact absurd h (by decide)
      · exact (hv v hv').1 hx
    · simp at hm
  have hb2 : ')' ∉ joinChar ',' vs := by
    intro hm
    rcases mem_joinChar hm with h | ⟨v, hv', hx⟩
    · exact absurd h (by decide)
    · exact (hv v hv').2.1 hx
  have e1 : pre ++ ['('] ++ joinChar ',' vs ++ [')'] = pre ++ '(' :: (joinChar ',' vs ++ [')']) := by simp
  rw [e1, splitOnChar_append _ _ _ hpre, splitOnChar_of_not_mem _ _ hb1]
  have e2 : joinChar ',' vs ++ [')'] = joinChar ',' vs ++ ')' :: [] := rfl
  simp only [nth, List.getElem?_cons_succ, List.getElem?_cons_zero, bind, Except.bind, pure, Except.pure]
  rw [e2, splitOnChar_append _ _ _ hb2]
  simp only [List.getElem?_cons_zero]
  rw [splitOnChar_joinChar _ _ hne (fun v hv' => (hv v hv').2.2)]

theorem wktCoords_toWKT (ec : Char) (hec : isExpChar ec = true) (d : Nat) (pts : List Pt) (hne : pts ≠ []) :
    wktCoords (toWKTE ec d pts) = .ok (pts.map (vertexStr ec d)) := by
  unfold toWKTE
  have hc : '(' ≠ ec ∧ ')' ≠ ec ∧ ',' ≠ ec := by rcases expChar_cases hec with rfl | rfl <;> decide
  have := wktCoords_eq "LINESTRING".toList (pts.map (vertexStr ec d)) (by decide) (by simpa using hne)
    (by
      intro v hv
      simp only [List.mem_map] at hv
      obtain ⟨p, _, rfl⟩ := hv
      exact ⟨vertexStr_avoids ec d p _ (by decide) (by decide) hc.1 (by decide),
        vertexStr_avoids ec d p _ (by decide) (by decide) hc.2.1 (by decide),
        vertexStr_avoids ec d p _ (by decide) (by decide) hc.2.2 (by decide)⟩)
  have e : "LINESTRING(".toList = "LINESTRING".toList ++ ['('] := by decide
  rw [e]
  exact this

/-! ### `str.upper()` of the exported text -/

theorem map_joinChar (f : Char → Char) (c : Char) (l : List Str) :
    (joinChar c l).map f = joinChar (f c) (l.map (List.map f)) := by
  induction l with
  | nil => rfl
  | cons a r ih =>
    cases r with
    | nil => rfl
    | cons b r' =>
      simp only [joinChar, List.map_append, List.map_cons] at ih ⊢
      rw [ih]

theorem toUpper_num (s : Str) (h : ∀ c ∈ s, numChar c = true) : s.map Char.toUpper = s := by
  have hnum : ∀ c, numChar c = true → c.toUpper = c := by
    intro c h
    unfold numChar at h
    simp only [Bool.or_eq_true, decide_eq_true_eq] at h
    rcases h with (h | h) | h
    · exact (digit_of_digitVal h).2.2.2.2
    · subst h; decide
    · subst h; decide
  have : ∀ c ∈ s, Char.toUpper c = id c := fun c hc => hnum c (h c hc)
  rw [List.map_congr_left this, List.map_id]

/-- `str.upper()` of an ordinate only changes the exponent marker -/
theorem toUpper_reprFloat (d : Nat) (v : SNum) : (reprFloat 'e' d v).map Char.toUpper = reprFloat 'E' d v := by
  unfold reprFloat
  split
  · rw [show (if v.neg then ['-'] else []) ++ sciMant (stripZeros v.mag) = sciHead v.neg (stripZeros v.mag) from rfl]
    rw [List.map_append, toUpper_num _ (sciHead_numChar _ _)]
    congr 1
    unfold expText
    rw [List.map_append, toUpper_num (zpad 2 _) (fun c hc => by unfold numChar; simp [zpad_digits _ _ c hc])]
    congr 1
    split <;> decide
  · split
    · exact toUpper_num _ (reprDecS_numChar _ _)
    · exact toUpper_num _ (reprDecS_numChar _ _)

theorem toUpper_toWKT (d : Nat) (pts : List Pt) : toUpper (toWKT d pts) = toWKTE 'E' d pts := by
  unfold toUpper toWKT toWKTE
  rw [List.map_append, List.map_append, map_joinChar, List.map_map]
  have e1 : "LINESTRING(".toList.map Char.toUpper = "LINESTRING(".toList := by decide
  have e2 : [')'].map Char.toUpper = [')'] := by decide
  have e3 : Char.toUpper ',' = ',' := by decide
  rw [e1, e2, e3]
  congr 3
  apply List.map_congr_left
  intro p _
  simp only [Function.comp, List.map_append, toUpper_reprFloat]
  rfl

/-- **T4 `wkt_roundtrip`** (model level) -/
theorem wkt_roundtrip (d : Nat) (pts : List Pt) (hne : pts ≠ []) :
    parseWkt (toWKT d pts) = .ok (pts.map (expVertex d)) := by
  unfold parseWkt
  rw [toUpper_toWKT]
  have htake : ((toWKTE 'E' d pts).take 4 == "LINE".toList) = true := by
    unfold toWKTE
    have e : "LINESTRING(".toList = ['L', 'I', 'N', 'E'] ++ "STRING(".toList := by decide
    have e2 : "LINE".toList = ['L', 'I', 'N', 'E'] := by decide
    rw [e, e2]
    simp
  have hpoly : ((toWKTE 'E' d pts).take 4 == "POLY".toList) = false := by
    unfold toWKTE
    have e : "LINESTRING(".toList = ['L', 'I', 'N', 'E'] ++ "STRING(".toList := by decide
    rw [e]
    simp
  simp only [hpoly, Bool.false_eq_true, htake, ↓reduceIte, wktCoords_toWKT 'E' (by decide) d pts hne, bind, Except.bind]
  have h := mapM_ok (fun p : Pt => parseVertex (vertexStr 'E' d p)) (expVertex d) pts
    (fun p _ => parseVertex_vertexStr 'E' (by decide) d p)
  rw [List.mapM_map]
  exact h

/-! ### POLYGON texts -/

theorem splitOn2_of_not_mem (a b : Char) (s : Str) (h : a ∉ s) : splitOn2 a b s = [s] := by
  induction s using splitOn2.induct a b with
  | case1 => rfl
  | case2 x => rfl
  | case3 x y r hc ih =>
    exact absurd hc.1 (fun e => h (by simp [e]))
  | case4 x y r hc hnil ih =>
    have := ih (fun hm => h (by simp [hm]))
    rw [hnil] at this
    exact absurd this (by simp)
  | case5 x y r hc hd tl heq ih =>
    have := ih (fun hm => h (by simp [hm]))
    rw [heq] at this
    simp only [List.cons.injEq] at this
    unfold splitOn2
    simp only [hc, ↓reduceIte, heq]
    rw [this.1, this.2]

theorem splitOn2_append (a b : Char) (p r : Str) (h : a ∉ p) : splitOn2 a b (p ++ a :: b :: r) = p :: splitOn2 a b r := by
  induction p with
  | nil => simp [splitOn2]
  | cons x p' ih =>
    have hx : x ≠ a := fun e => h (by simp [e])
    have ih' := ih (fun hm => h (by simp [hm]))
    obtain ⟨y, rest, hy⟩ : ∃ y rest, p' ++ a :: b :: r = y :: rest := by
      cases p' with
      | nil => exact ⟨a, b :: r, rfl⟩
      | cons z zs => exact ⟨z, zs ++ a :: b :: r, rfl⟩
    rw [List.cons_append, hy]
    have hc : ¬ (x = a ∧ y = b) := fun c => hx c.1
    conv => lhs; unfold splitOn2
    simp only [hc, ↓reduceIte]
    rw [← hy, ih']

/-- a polygon in the canonical layout `POLYGON((x y,x y,…))` (one ring), as other tools write it -/
def toPolyWKT (ec : Char) (d : Nat) (pts : List Pt) : Str :=
  "POLYGON((".toList ++ joinChar ',' (pts.map (vertexStr ec d)) ++ "))".toList

theorem wktCoordsPoly_toPolyWKT (ec : Char) (hec : isExpChar ec = true) (d : Nat) (pts : List Pt) (hne : pts ≠ []) :
    wktCoordsPoly (toPolyWKT ec d pts) = .ok (pts.map (vertexStr ec d)) := by
  have hc : '(' ≠ ec ∧ ')' ≠ ec ∧ ',' ≠ ec := by rcases expChar_cases hec with rfl | rfl <;> decide
  have hv : ∀ v ∈ pts.map (vertexStr ec d), '(' ∉ v ∧ ')' ∉ v ∧ ',' ∉ v := by
    intro v hv
    simp only [List.mem_map] at hv
    obtain ⟨p, _, rfl⟩ := hv
    exact ⟨vertexStr_avoids ec d p _ (by decide) (by decide) hc.1 (by decide),
      vertexStr_avoids ec d p _ (by decide) (by decide) hc.2.1 (by decide),
      vertexStr_avoids ec d p _ (by decide) (by decide) hc.2.2 (by decide)⟩
  have hb1 : '(' ∉ joinChar ',' (pts.map (vertexStr ec d)) ++ "))".toList := by
    intro hm
    rcases List.mem_append.1 hm with hm | hm
    · rcases mem_joinChar hm with h | ⟨v, hv', hx⟩
      · exact absurd h (by decide)
      · exact (hv v hv').1 hx
    · revert hm; decide
  have hb2 : ')' ∉ joinChar ',' (pts.map (vertexStr ec d)) := by
    intro hm
    rcases mem_joinChar hm with h | ⟨v, hv', hx⟩
    · exact absurd h (by decide)
    · exact (hv v hv').2.1 hx
  unfold wktCoordsPoly toPolyWKT
  have e1 : "POLYGON((".toList ++ joinChar ',' (pts.map (vertexStr ec d)) ++ "))".toList
      = "POLYGON".toList ++ '(' :: '(' :: (joinChar ',' (pts.map (vertexStr ec d)) ++ "))".toList) := by
    have : "POLYGON((".toList = "POLYGON".toList ++ ['(', '('] := by decide
    rw [this]; simp
  rw [e1, splitOn2_append _ _ _ _ (by decide), splitOn2_of_not_mem _ _ _ hb1]
  simp only [nth, List.getElem?_cons_succ, List.getElem?_cons_zero, bind, Except.bind, pure, Except.pure]
  have e2 : joinChar ',' (pts.map (vertexStr ec d)) ++ "))".toList = joinChar ',' (pts.map (vertexStr ec d)) ++ ')' :: ')' :: [] := rfl
  rw [e2, splitOn2_append _ _ _ _ hb2]
  simp only [List.getElem?_cons_zero]
  rw [splitOnChar_joinChar _ _ (by simpa using hne) (fun v hv' => (hv v hv').2.2)]

theorem toUpper_toPolyWKT (d : Nat) (pts : List Pt) : toUpper (toPolyWKT 'e' d pts) = toPolyWKT 'E' d pts := by
  unfold toUpper toPolyWKT
  rw [List.map_append, List.map_append, map_joinChar, List.map_map]
  have e1 : "POLYGON((".toList.map Char.toUpper = "POLYGON((".toList := by decide
  have e2 : "))".toList.map Char.toUpper = "))".toList := by decide
  have e3 : Char.toUpper ',' = ',' := by decide
  rw [e1, e2, e3]
  congr 3
  apply List.map_congr_left
  intro p _
  simp only [Function.comp, vertexStr, List.map_append, toUpper_reprFloat]
  rfl

/-- a one-ring polygon text is parsed as the vertices of its ring -/
theorem polygon_parse (d : Nat) (pts : List Pt) (hne : pts ≠ []) :
    parseWkt (toPolyWKT 'e' d pts) = .ok (pts.map (expVertex d)) := by
  unfold parseWkt
  rw [toUpper_toPolyWKT]
  have htake : ((toPolyWKT 'E' d pts).take 4 == "POLY".toList) = true := by
    unfold toPolyWKT
    have e : "POLYGON((".toList = ['P', 'O', 'L', 'Y'] ++ "GON((".toList := by decide
    have e2 : "POLY".toList = ['P', 'O', 'L', 'Y'] := by decide
    rw [e, e2]
    simp
  simp only [htake, ↓reduceIte, wktCoordsPoly_toPolyWKT 'E' (by decide) d pts hne, bind, Except.bind]
  have h := mapM_ok (fun p : Pt => parseVertex (vertexStr 'E' d p)) (expVertex d) pts
    (fun p _ => parseVertex_vertexStr 'E' (by decide) d p)
  rw [List.mapM_map]
  exact h

end TV.TextIO
