import TracklibVerif.Lemmas.TextIOFile
/-! WKT export / parse (core only): `Track.toWKT` → `TrackReader.parseWkt`, and the vertex list shared with
`wktLineStringToObs`. -/
namespace TV.TextIO

/-! ### `repr` of a lattice float -/

theorem trimFrac_spec (d f : Nat) : (trimFrac d f).1 ≤ d ∧ f = (trimFrac d f).2 * 10 ^ (d - (trimFrac d f).1) := by
  induction d, f using trimFrac.induct with
  | case1 f => simp [trimFrac]
  | case2 f => simp [trimFrac]
  | case3 d f h ih =>
    unfold trimFrac
    simp only [h, ↓reduceIte]
    refine ⟨by omega, ?_⟩
    have e : d + 2 - (trimFrac (d + 1) (f / 10)).1 = (d + 1 - (trimFrac (d + 1) (f / 10)).1) + 1 := by omega
    rw [e, Nat.pow_succ, ← Nat.mul_assoc, ← ih.2]
    omega
  | case4 d f h =>
    unfold trimFrac
    simp [h]

theorem trimFrac_lt (d f : Nat) (h : f < 10 ^ d) : (trimFrac d f).2 < 10 ^ (trimFrac d f).1 := by
  have hs := trimFrac_spec d f
  have hp : 10 ^ d = 10 ^ (trimFrac d f).1 * 10 ^ (d - (trimFrac d f).1) := by
    rw [← Nat.pow_add]; congr 1; omega
  rw [hp] at h
  have hpos : 0 < 10 ^ (d - (trimFrac d f).1) := Nat.pow_pos (by decide)
  have : (trimFrac d f).2 * 10 ^ (d - (trimFrac d f).1) < 10 ^ (trimFrac d f).1 * 10 ^ (d - (trimFrac d f).1) := by
    rw [← hs.2]; exact h
  exact Nat.lt_of_mul_lt_mul_right this

/-- what `float()` returns for `str(n / 10^d)`: the mantissa without the trailing zeros of the decimals -/
def reprVal (d : Nat) (n : Int) : Dec :=
  let t := trimFrac d (n.natAbs % 10 ^ d)
  let m : Int := ((n.natAbs / 10 ^ d * 10 ^ t.1 + t.2 : Nat) : Int)
  (if n < 0 then -m else m, t.1)

/-- the value read back is the value written: `mantissa · 10^(d - decimals) = n` -/
theorem reprVal_value (d : Nat) (n : Int) : (reprVal d n).2 ≤ d ∧ (reprVal d n).1 * 10 ^ (d - (reprVal d n).2) = n := by
  have hs := trimFrac_spec d (n.natAbs % 10 ^ d)
  refine ⟨hs.1, ?_⟩
  unfold reprVal
  simp only
  generalize trimFrac d (n.natAbs % 10 ^ d) = t at hs
  have key : (n.natAbs / 10 ^ d * 10 ^ t.1 + t.2) * 10 ^ (d - t.1) = n.natAbs := by
    rw [Nat.add_mul, Nat.mul_assoc, ← Nat.pow_add, ← hs.2]
    have : t.1 + (d - t.1) = d := by omega
    rw [this, Nat.mul_comm]
    exact Nat.div_add_mod _ _
  by_cases hn : n < 0
  · simp only [hn, ↓reduceIte, Int.neg_mul]
    have : (((n.natAbs / 10 ^ d * 10 ^ t.1 + t.2 : Nat) : Int)) * 10 ^ (d - t.1) = (n.natAbs : Int) := by
      exact_mod_cast key
    rw [this]; omega
  · simp only [hn, ↓reduceIte]
    have : (((n.natAbs / 10 ^ d * 10 ^ t.1 + t.2 : Nat) : Int)) * 10 ^ (d - t.1) = (n.natAbs : Int) := by
      exact_mod_cast key
    rw [this]; omega

theorem parseDec_reprDec (d : Nat) (n : Int) : parseDec? (reprDec d n) = some (reprVal d n) := by
  unfold reprDec reprVal
  simp only
  have hlt := trimFrac_lt d (n.natAbs % 10 ^ d) (Nat.mod_lt _ (Nat.pow_pos (by decide)))
  generalize trimFrac d (n.natAbs % 10 ^ d) = t at hlt
  have h := parseDec_core (decide (n < 0)) (natStr (n.natAbs / 10 ^ d)) (padDigits t.1 t.2) (n.natAbs / 10 ^ d) t.2
    (natStr_digits _) (natStr_ne_nil _) (padDigits_digits _ _)
    (by rw [parseNatAux_natStr]; simp) (by rw [parseNatAux_padDigits, Nat.mod_eq_of_lt hlt]; simp)
  simp only [decide_eq_true_eq, padDigits_length] at h
  exact h

theorem reprDec_numChar (d : Nat) (n : Int) : ∀ c ∈ reprDec d n, numChar c = true := by
  intro c hc
  unfold reprDec at hc
  simp only [List.mem_append, List.mem_singleton] at hc
  unfold numChar
  rcases hc with ((hc | hc) | hc) | hc
  · have : c = '-' := by split at hc <;> simp at hc; exact hc
    subst this; decide
  · simp [natStr_digits _ c hc]
  · subst hc; decide
  · simp [padDigits_digits _ _ c hc]

theorem reprDec_ne_nil (d : Nat) (n : Int) : reprDec d n ≠ [] := by
  unfold reprDec
  have := natStr_ne_nil (n.natAbs / 10 ^ d)
  split <;> simp [this]

/-! ### a vertex, the vertex list -/

def vertexStr (d : Nat) (p : Pt) : Str := reprDec d p.1 ++ [' '] ++ reprDec d p.2

/-- the vertex as it is parsed back -/
def expVertex (d : Nat) (p : Pt) : Dec × Dec × Dec := (reprVal d p.1, reprVal d p.2, (0, 0))

theorem numChar_ne {c x : Char} (h : numChar c = true) (hx : numChar x = false) : c ≠ x := by
  intro e; rw [e, hx] at h; exact absurd h (by decide)

theorem not_mem_of_numChar (s : Str) (h : ∀ c ∈ s, numChar c = true) (x : Char) (hx : numChar x = false) : x ∉ s :=
  fun hm => numChar_ne (h x hm) hx rfl

theorem vertexStr_chars (d : Nat) (p : Pt) : ∀ c ∈ vertexStr d p, numChar c = true ∨ c = ' ' := by
  intro c hc
  unfold vertexStr at hc
  simp only [List.mem_append, List.mem_singleton] at hc
  rcases hc with (hc | hc) | hc
  · exact Or.inl (reprDec_numChar _ _ c hc)
  · exact Or.inr hc
  · exact Or.inl (reprDec_numChar _ _ c hc)

theorem strip_numStr (s : Str) (hne : s ≠ []) (h : ∀ c ∈ s, numChar c = true) : strip s = s :=
  strip_eq_self s (fun c hc => (numChar_not_ws (h c (List.mem_of_mem_head? hc))).1)
    (fun c hc => (numChar_not_ws (h c (List.mem_of_getLast? hc))).1)

theorem parseVertex_vertexStr (d : Nat) (p : Pt) : parseVertex (vertexStr d p) = .ok (expVertex d p) := by
  unfold parseVertex
  have hstrip : strip (vertexStr d p) = vertexStr d p := by
    apply strip_eq_self
    · intro c hc
      have hne := reprDec_ne_nil d p.1
      unfold vertexStr at hc
      cases h : reprDec d p.1 with
      | nil => exact absurd h hne
      | cons x xs =>
        rw [h] at hc; simp at hc; rw [← hc]
        exact (numChar_not_ws (reprDec_numChar d p.1 x (by rw [h]; simp))).1
    · intro c hc
      unfold vertexStr at hc
      rw [List.getLast?_append] at hc
      cases h : (reprDec d p.2).getLast? with
      | none => simp at h; exact absurd h (reprDec_ne_nil d p.2)
      | some y =>
        rw [h] at hc; simp at hc; rw [← hc]
        exact (numChar_not_ws (reprDec_numChar d p.2 _ (List.mem_of_getLast? h))).1
  have hsplit : splitOnChar ' ' (vertexStr d p) = [reprDec d p.1, reprDec d p.2] := by
    unfold vertexStr
    rw [List.append_assoc, List.singleton_append,
      splitOnChar_append _ _ _ (not_mem_of_numChar _ (reprDec_numChar d p.1) ' ' (by decide)),
      splitOnChar_of_not_mem _ _ (not_mem_of_numChar _ (reprDec_numChar d p.2) ' ' (by decide))]
  rw [hstrip, hsplit]
  simp [nth, parseDec_reprDec, expVertex, bind, Except.bind, pure, Except.pure]

/-- the coordinate list of a LINESTRING text: `wkt.split("(")[1].split(")")[0].split(",")` -/
theorem wktCoords_eq (pre : Str) (vs : List Str) (hpre : '(' ∉ pre) (hne : vs ≠ [])
    (hv : ∀ v ∈ vs, '(' ∉ v ∧ ')' ∉ v ∧ ',' ∉ v) :
    wktCoords (pre ++ ['('] ++ joinChar ',' vs ++ [')']) = .ok vs := by
  unfold wktCoords
  have hb1 : '(' ∉ joinChar ',' vs ++ [')'] := by
    intro hm
    rcases List.mem_append.1 hm with hm | hm
    · rcases mem_joinChar hm with h | ⟨v, hv', hx⟩
      · exact absurd h (by decide)
      · exact (hv v hv').1 hx
    · simp at hm
  have hb2 : ')' ∉ joinChar ',' vs := by
    intro hm
    rcases mem_joinChar hm with h | ⟨v, hv', hx⟩
    · exact absurd h (by decide)
    · exact (hv v hv').2.1 hx
  have e1 : pre ++ ['('] ++ joinChar ',' vs ++ [')'] = pre ++ '(' :: (joinChar ',' vs ++ [')']) := by simp
  rw [e1, splitOnChar_append _ _ _ hpre, splitOnChar_of_not_mem _ _ hb1]
  have e2 : joinChar ',' vs ++ [')'] = joinChar ',' vs ++ ')' :: [] := rfl
  simp only [nth, List.getElem?_cons_succ, List.getElem?_cons_zero, bind, Except.bind, pure, Except.pure]
  rw [e2, splitOnChar_append _ _ _ hb2]
  simp only [List.getElem?_cons_zero]
  rw [splitOnChar_joinChar _ _ hne (fun v hv' => (hv v hv').2.2)]

theorem vertexStr_avoids (d : Nat) (p : Pt) (x : Char) (hx : numChar x = false) (hx' : x ≠ ' ') : x ∉ vertexStr d p := by
  intro hm
  rcases vertexStr_chars d p x hm with h | h
  · rw [hx] at h; exact absurd h (by decide)
  · exact hx' h

theorem wktCoords_toWKT (d : Nat) (pts : List Pt) (hne : pts ≠ []) :
    wktCoords (toWKT d pts) = .ok (pts.map (vertexStr d)) := by
  unfold toWKT
  have := wktCoords_eq "LINESTRING".toList (pts.map (vertexStr d)) (by decide) (by simpa using hne)
    (by
      intro v hv
      simp only [List.mem_map] at hv
      obtain ⟨p, _, rfl⟩ := hv
      exact ⟨vertexStr_avoids d p _ (by decide) (by decide), vertexStr_avoids d p _ (by decide) (by decide),
        vertexStr_avoids d p _ (by decide) (by decide)⟩)
  have e : "LINESTRING(".toList = "LINESTRING".toList ++ ['('] := by decide
  rw [e]
  exact this

theorem toUpper_toWKT (d : Nat) (pts : List Pt) : toUpper (toWKT d pts) = toWKT d pts := by
  unfold toUpper
  suffices h : ∀ c ∈ toWKT d pts, Char.toUpper c = id c by rw [List.map_congr_left h, List.map_id]
  intro c hc
  show c.toUpper = c
  unfold toWKT at hc
  simp only [List.mem_append, List.mem_singleton] at hc
  have hnum : ∀ c, numChar c = true → c.toUpper = c := by
    intro c h
    unfold numChar at h
    simp only [Bool.or_eq_true, decide_eq_true_eq] at h
    rcases h with (h | h) | h
    · exact (digit_of_digitVal h).2.2.2.2
    · subst h; decide
    · subst h; decide
  rcases hc with (hc | hc) | hc
  · have : ∀ c ∈ "LINESTRING(".toList, c.toUpper = c := by decide
    exact this c hc
  · rcases mem_joinChar hc with h | ⟨v, hv, hx⟩
    · subst h; decide
    · simp only [List.mem_map] at hv
      obtain ⟨p, _, rfl⟩ := hv
      rcases vertexStr_chars d p c hx with h | h
      · exact hnum c h
      · subst h; decide
  · subst hc; decide

/-- **T4 `wkt_roundtrip`** (model level) -/
theorem wkt_roundtrip (d : Nat) (pts : List Pt) (hne : pts ≠ []) :
    parseWkt (toWKT d pts) = .ok (pts.map (expVertex d)) := by
  unfold parseWkt
  rw [toUpper_toWKT]
  have htake : ((toWKT d pts).take 4 == "LINE".toList) = true := by
    unfold toWKT
    have e : "LINESTRING(".toList = ['L', 'I', 'N', 'E'] ++ "STRING(".toList := by decide
    have e2 : "LINE".toList = ['L', 'I', 'N', 'E'] := by decide
    rw [e, e2]
    simp
  have hpoly : ((toWKT d pts).take 4 == "POLY".toList) = false := by
    unfold toWKT
    have e : "LINESTRING(".toList = ['L', 'I', 'N', 'E'] ++ "STRING(".toList := by decide
    rw [e]
    simp
  simp only [hpoly, Bool.false_eq_true, htake, ↓reduceIte, wktCoords_toWKT d pts hne, bind, Except.bind]
  have h := mapM_ok (fun p : Pt => parseVertex (vertexStr d p)) (expVertex d) pts (fun p _ => parseVertex_vertexStr d p)
  rw [List.mapM_map]
  exact h

end TV.TextIO
