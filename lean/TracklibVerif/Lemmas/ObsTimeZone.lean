import TracklibVerif.Model.ObsTimeZone
import TracklibVerif.Lemmas.ObsTimeG
/-! Helper lemmas for the zone part of C03 (`Model/ObsTimeZone.lean`): integer-millisecond facts about
`convertToZoneMs`, the `mapM` of the `Track` methods, and the frame facts of the program interpreter. -/
namespace TV.ObsTime

/-- the instant of `readUnixMs` is its argument (T2 of `Props/C03.lean`, restated here for the lemmas) -/
theorem toAbsMs_readUnixMs (t : Nat) : toAbsMs (readUnixMs t) = t := by
  have h := (readUnix_spec (t / 1000)).2
  unfold toAbsMs readUnixMs
  simp only [h]
  omega

theorem readUnixMs_toAbsMs (s : Stamp) (h : WFs s) : readUnixMs (toAbsMs s) = s := by
  obtain ⟨hd, hms⟩ := h
  cases s with | mk d ms =>
  unfold readUnixMs toAbsMs
  simp only at hms ⊢
  have e1 : (toAbsSec d * 1000 + ms) / 1000 = toAbsSec d := by omega
  have e2 : (toAbsSec d * 1000 + ms) % 1000 = ms := by omega
  rw [e1, e2, ObsTime.readUnix_toAbs d hd]

theorem WFs_readUnixMs (t : Nat) : WFs (readUnixMs t) :=
  ⟨(readUnix_spec (t / 1000)).1, Nat.mod_lt _ (by omega)⟩

/-- the instant of a converted stamp -/
theorem toAbsMs_convertToZoneMs (t : Stamp) (z0 z : Int) (hk : 0 ≤ (toAbsMs t : Int) + 3600000 * (z - z0)) :
    (toAbsMs (convertToZoneMs t z0 z) : Int) = (toAbsMs t : Int) + 3600000 * (z - z0) := by
  unfold convertToZoneMs
  rw [toAbsMs_readUnixMs]
  omega

/-- a whole number of hours leaves the millisecond field alone -/
theorem ms_convertToZoneMs (t : Stamp) (h : t.ms < 1000) (z0 z : Int) (hk : 0 ≤ (toAbsMs t : Int) + 3600000 * (z - z0)) :
    (convertToZoneMs t z0 z).ms = t.ms := by
  unfold convertToZoneMs readUnixMs
  simp only
  unfold toAbsMs at hk ⊢
  omega

section

/-- `Option.mapM` over a list when every element succeeds with a known value -/
theorem mapM_some_of_forall {β γ : Type} (f : β → Option γ) (g : β → γ) (l : List β)
    (h : ∀ x ∈ l, f x = some (g x)) : l.mapM f = some (l.map g) := by
  induction l with
  | nil => rfl
  | cons a r ih =>
    have ha := h a (List.mem_cons_self ..)
    have hr := ih (fun x hx => h x (List.mem_cons_of_mem _ hx))
    simp [List.mapM_cons, ha, hr]

end

theorem zone_of_map {o : Option StampZ} {z : Int} {r : ObsZ} (h : o.map (⟨·, z⟩) = some r) : r.zone = z := by
  cases o <;> simp at h; rw [← h]

/-! ### frame facts of the interpreter -/

section
variable {α : Type}

/-- case analysis on the operand of a statement -/
theorem withObj_ind (σ : State) (i : Nat) (kf : ObsZ → State × Out α) (P : State × Out α → Prop)
    (hnone : P (σ, .err "slot")) (hsome : ∀ o, σ.store[i]? = some o → P (kf o)) : P (withObj σ i kf) := by
  unfold withObj
  split
  · exact hsome _ ‹_›
  · exact hnone

/-- the statements that write into existing objects -/
def Op.writes : Op α → State → Nat → Prop
  | .set i _ _, _, k => k = i
  | .tset _, σ, k => k ∈ σ.track
  | _, _, _ => False

/-- statements that assign to attributes of existing objects -/
def assigns : Op α → Bool
  | .set _ _ _ => true
  | .tset _ => true
  | _ => false

theorem push_store (σ : State) (r : Option ObsZ) (k : Nat) (hk : k < σ.store.length) :
    (push (α := α) σ r).1.store[k]? = σ.store[k]? := by
  unfold push
  cases r with
  | none => rfl
  | some o => simp [List.getElem?_append_left hk]

theorem pushTrack_store (σ : State) (r : Option (List ObsZ)) (k : Nat) (hk : k < σ.store.length) :
    (pushTrack (α := α) σ r).1.store[k]? = σ.store[k]? := by
  unfold pushTrack
  cases r with
  | none => rfl
  | some o => simp [List.getElem?_append_left hk]

theorem foldl_set_zone_other (z : Int) (tr : List Nat) (s : List ObsZ) (k : Nat) (hk : k ∉ tr) :
    (tr.foldl (fun s i => match s[i]? with
                          | some o => s.set i { o with zone := z }
                          | none => s) s)[k]? = s[k]? := by
  induction tr generalizing s with
  | nil => rfl
  | cons i r ih =>
    simp only [List.foldl_cons]
    have hki : k ≠ i := fun e => hk (e ▸ List.mem_cons_self ..)
    rw [ih _ (fun h => hk (List.mem_cons_of_mem _ h))]
    cases hsi : s[i]? with
    | none => rfl
    | some o => simp [Ne.symm hki]

theorem foldl_set_zone_length (z : Int) (tr : List Nat) (s : List ObsZ) :
    (tr.foldl (fun s i => match s[i]? with
                          | some o => s.set i { o with zone := z }
                          | none => s) s).length = s.length := by
  induction tr generalizing s with
  | nil => rfl
  | cons i r ih =>
    simp only [List.foldl_cons]
    rw [ih]
    cases hsi : s[i]? with
    | none => rfl
    | some o => simp

end

section
variable {α : Type} [Add α] [Sub α] [Mul α] [Div α] [LT α] [DecidableLT α] [IntCast α]

/-- the store never shrinks -/
theorem step_length (trunc : α → Int) (σ : State) (op : Op α) :
    σ.store.length ≤ (step trunc σ op).1.store.length := by
  let P : State × Out α → Prop := fun r => σ.store.length ≤ r.1.store.length
  have hn : P (σ, .err "slot") := Nat.le_refl _
  have hp : ∀ r : Option ObsZ, P (push (α := α) σ r) := by
    intro r; cases r <;> simp [P, push]
  have hpt : ∀ r : Option (List ObsZ), P (pushTrack (α := α) σ r) := by
    intro r; cases r <;> simp [P, pushTrack]
  cases op with
  | new t z => exact hp _
  | read x => exact hp _
  | add i u nb => exact withObj_ind σ i _ P hn (fun _ _ => hp _)
  | conv i z => exact withObj_ind σ i _ P hn (fun _ _ => hp _)
  | copy i => exact withObj_ind σ i _ P hn (fun _ _ => hp _)
  | rt i =>
    refine withObj_ind σ i _ P hn (fun a _ => ?_)
    simp only [P]
    cases rtZ (α := α) trunc a <;> simp
  | set i f v => exact withObj_ind σ i _ P hn (fun _ _ => by simp [P])
  | abs i => exact withObj_ind σ i _ P hn (fun _ _ => hn)
  | cmp i j => exact withObj_ind σ i _ P hn (fun _ _ => withObj_ind σ j _ P hn (fun _ _ => hn))
  | sub i j => exact withObj_ind σ i _ P hn (fun _ _ => withObj_ind σ j _ P hn (fun _ _ => hn))
  | pz i => exact withObj_ind σ i _ P hn (fun _ _ => hn)
  | tz i => exact withObj_ind σ i _ P hn (fun _ _ => hn)
  | dow i => exact withObj_ind σ i _ P hn (fun _ _ => hn)
  | trk is => simp only [step]; split <;> exact hn
  | tget => simp only [step]; split <;> exact hn
  | tset z => exact Nat.le_of_eq (foldl_set_zone_length z σ.track σ.store).symm
  | tconv z => exact hpt _
  | tadd nb => exact hpt _

end

end TV.ObsTime
