import TracklibVerif.Lemmas.TextIODigits
/-! `float()` of what the writers print (core only): the common core of T1 (`fixed_roundtrip`) and of the
`repr` round trip used by WKT. -/
namespace TV.TextIO

theorem strip_eq_self (s : Str) (h1 : ∀ c, s.head? = some c → isWs c = false)
    (h2 : ∀ c, s.getLast? = some c → isWs c = false) : strip s = s := by
  unfold strip
  have hl : lstrip s = s := by
    cases s with
    | nil => rfl
    | cons c cs => exact lstrip_cons_of_not_ws _ (h1 c rfl)
  rw [hl]
  unfold rstrip
  cases hr : s.reverse with
  | nil => simp at hr; subst hr; rfl
  | cons c cs =>
    have hlast : s.getLast? = some c := by
      rw [List.getLast?_eq_head?_reverse, hr]; rfl
    have := h2 c hlast
    simp only [List.dropWhile, this]
    rw [← hr, List.reverse_reverse]

theorem takeWhile_ne_dot (a rest : Str) (ha : ∀ c ∈ a, (digitVal? c).isSome = true) :
    (a ++ '.' :: rest).takeWhile (· ≠ '.') = a ∧ (a ++ '.' :: rest).dropWhile (· ≠ '.') = '.' :: rest := by
  induction a with
  | nil => simp
  | cons c cs ih =>
    have hc : decide (c ≠ '.') = true := by simp [(digit_of_digitVal (ha c (by simp))).2.1]
    have ih' := ih (fun c h => ha c (by simp [h]))
    constructor
    · rw [List.cons_append, List.takeWhile_cons, if_pos hc, ih'.1]
    · rw [List.cons_append, List.dropWhile_cons, if_pos hc, ih'.2]

/-- `[-]digits.digits` is its own `strip()` -/
theorem strip_lit (neg : Bool) (i0 : Char) (irest fp : Str)
    (hi0 : (digitVal? i0).isSome = true) (hfp : ∀ c ∈ fp, (digitVal? c).isSome = true) :
    strip ((if neg then ['-'] else []) ++ (i0 :: irest) ++ ['.'] ++ fp)
      = (if neg then ['-'] else []) ++ (i0 :: irest) ++ ['.'] ++ fp := by
  have hi0 := digit_of_digitVal hi0
  apply strip_eq_self
  · intro c hc
    cases neg <;> simp at hc <;> subst hc
    · exact hi0.1
    · decide
  · intro c hc
    have e : (if neg then ['-'] else []) ++ (i0 :: irest) ++ ['.'] ++ fp
        = ((if neg then ['-'] else []) ++ (i0 :: irest) ++ ['.']) ++ fp := by simp
    rw [e, List.getLast?_append, List.getLast?_append] at hc
    cases hl : fp.getLast? with
    | none => rw [hl] at hc; simp at hc; subst hc; decide
    | some c' =>
      rw [hl] at hc; simp at hc; subst hc
      exact (digit_of_digitVal (hfp _ (List.mem_of_getLast? hl))).1

/-! ### literals without an exponent part -/

theorem digit_noexp {c : Char} (h : (digitVal? c).isSome = true) : isExpChar c = false := by
  unfold digitVal? at h
  repeat' split at h
  all_goals first | (subst_vars; decide) | simp at h

theorem numChar_noexp {c : Char} (h : numChar c = true) : isExpChar c = false := by
  unfold numChar at h
  simp only [Bool.or_eq_true, decide_eq_true_eq] at h
  rcases h with (h | h) | h
  · exact digit_noexp h
  · subst h; decide
  · subst h; decide

theorem mem_strip {s : Str} {c : Char} (h : c ∈ strip s) : c ∈ s := by
  unfold strip rstrip lstrip at h
  have h1 := List.mem_reverse.1 h
  have h2 := (List.dropWhile_sublist _).subset h1
  have h3 := List.mem_reverse.1 h2
  exact (List.dropWhile_sublist _).subset h3

theorem takeWhile_all (p : Char → Bool) (s : Str) (h : ∀ c ∈ s, p c = true) : s.takeWhile p = s ∧ s.dropWhile p = [] := by
  induction s with
  | nil => exact ⟨rfl, rfl⟩
  | cons a r ih =>
    have ha := h a (by simp)
    have := ih (fun c hc => h c (by simp [hc]))
    simp only [List.takeWhile, List.dropWhile, ha]
    exact ⟨by rw [this.1], this.2⟩

theorem takeWhile_stop (p : Char → Bool) (s : Str) (b : Char) (r : Str) (h : ∀ c ∈ s, p c = true) (hb : p b = false) :
    (s ++ b :: r).takeWhile p = s ∧ (s ++ b :: r).dropWhile p = b :: r := by
  induction s with
  | nil => simp [hb]
  | cons a t ih =>
    have ha := h a (by simp)
    have := ih (fun c hc => h c (by simp [hc]))
    simp only [List.cons_append, List.takeWhile, List.dropWhile, ha]
    exact ⟨by rw [this.1], this.2⟩

/-- a literal without `e` / `E` is read by its mantissa part alone -/
theorem parseDec_noexp (s0 : Str) (h : ∀ c ∈ s0, isExpChar c = false) : parseDec? s0 = parseMant? (strip s0) := by
  unfold parseDec?
  have := (takeWhile_all (fun c => !isExpChar c) (strip s0) (fun c hc => by simp [h c (mem_strip hc)])).2
  simp only [this]

/-- `[-]digits.digits` as a mantissa -/
theorem parseMant_core (neg : Bool) (ip fp : Str) (a b : Nat)
    (hip : ∀ c ∈ ip, (digitVal? c).isSome = true) (hne : ip ≠ [])
    (pa : parseNatAux ip 0 = some a) (pb : parseNatAux fp 0 = some b) :
    parseMant? ((if neg then ['-'] else []) ++ ip ++ ['.'] ++ fp)
      = some (if neg then -((a * 10 ^ fp.length + b : Nat) : Int) else ((a * 10 ^ fp.length + b : Nat) : Int), fp.length) := by
  obtain ⟨i0, irest, rfl⟩ : ∃ i0 irest, ip = i0 :: irest := by
    cases ip with
    | nil => exact absurd rfl hne
    | cons x xs => exact ⟨x, xs, rfl⟩
  have hi0 := digit_of_digitVal (hip i0 (by simp))
  unfold parseMant?
  have htw := takeWhile_ne_dot (i0 :: irest) fp hip
  cases neg with
  | false =>
    have h1 : ((i0 :: irest) ++ ['.'] ++ fp).head? = some i0 := rfl
    simp only [Bool.false_eq_true, ↓reduceIte, List.nil_append, h1]
    have e1 : (some i0 == some '-') = false := by simp [hi0.2.2.1]
    have e2 : (some i0 == some '+') = false := by simp [hi0.2.2.2.1]
    simp only [e1, e2, Bool.or_self, Bool.false_eq_true, ↓reduceIte]
    have : (i0 :: irest) ++ ['.'] ++ fp = (i0 :: irest) ++ '.' :: fp := by simp
    rw [this, htw.1, htw.2]
    simp [pa, pb]
  | true =>
    have h1 : (['-'] ++ (i0 :: irest) ++ ['.'] ++ fp).head? = some '-' := rfl
    simp only [↓reduceIte, h1]
    have : (['-'] ++ (i0 :: irest) ++ ['.'] ++ fp).drop 1 = (i0 :: irest) ++ '.' :: fp := by simp
    simp only [beq_self_eq_true, Bool.true_or, ↓reduceIte, this]
    rw [htw.1, htw.2]
    simp [pa, pb]

/-- `[-]digits` (no point) as a mantissa -/
theorem parseMant_nodot (neg : Bool) (ip : Str) (a : Nat)
    (hip : ∀ c ∈ ip, (digitVal? c).isSome = true) (hne : ip ≠ []) (pa : parseNatAux ip 0 = some a) :
    parseMant? ((if neg then ['-'] else []) ++ ip) = some (if neg then -(a : Int) else (a : Int), 0) := by
  obtain ⟨i0, irest, rfl⟩ : ∃ i0 irest, ip = i0 :: irest := by
    cases ip with
    | nil => exact absurd rfl hne
    | cons x xs => exact ⟨x, xs, rfl⟩
  have hi0 := digit_of_digitVal (hip i0 (by simp))
  unfold parseMant?
  have htw := takeWhile_all (fun c => decide (c ≠ '.')) (i0 :: irest)
    (fun c hc => by simp [(digit_of_digitVal (hip c hc)).2.1])
  cases neg with
  | false =>
    have h1 : (i0 :: irest).head? = some i0 := rfl
    simp only [Bool.false_eq_true, ↓reduceIte, List.nil_append, h1]
    have e1 : (some i0 == some '-') = false := by simp [hi0.2.2.1]
    have e2 : (some i0 == some '+') = false := by simp [hi0.2.2.2.1]
    simp only [e1, e2, Bool.or_self, Bool.false_eq_true, ↓reduceIte]
    rw [htw.1, htw.2, pa, List.drop_nil, show parseNatAux ([] : Str) 0 = some 0 from rfl]
    simp
  | true =>
    have h1 : (['-'] ++ (i0 :: irest)).head? = some '-' := rfl
    simp only [↓reduceIte, h1]
    have : (['-'] ++ (i0 :: irest)).drop 1 = i0 :: irest := by simp
    simp only [beq_self_eq_true, Bool.true_or, ↓reduceIte, this]
    rw [htw.1, htw.2, pa, List.drop_nil, show parseNatAux ([] : Str) 0 = some 0 from rfl]
    simp

theorem lit_noexp (neg : Bool) (ip fp : Str) (hip : ∀ c ∈ ip, (digitVal? c).isSome = true)
    (hfp : ∀ c ∈ fp, (digitVal? c).isSome = true) :
    ∀ c ∈ (if neg then ['-'] else []) ++ ip ++ ['.'] ++ fp, isExpChar c = false := by
  intro c hc
  simp only [List.mem_append, List.mem_singleton] at hc
  rcases hc with ((hc | hc) | hc) | hc
  · have : c = '-' := by cases neg <;> simp at hc; exact hc
    subst this; decide
  · exact digit_noexp (hip c hc)
  · subst hc; decide
  · exact digit_noexp (hfp c hc)

/-- `float()` of `[-]digits.digits` -/
theorem parseDec_core (neg : Bool) (ip fp : Str) (a b : Nat)
    (hip : ∀ c ∈ ip, (digitVal? c).isSome = true) (hne : ip ≠ [])
    (hfp : ∀ c ∈ fp, (digitVal? c).isSome = true)
    (pa : parseNatAux ip 0 = some a) (pb : parseNatAux fp 0 = some b) :
    parseDec? ((if neg then ['-'] else []) ++ ip ++ ['.'] ++ fp)
      = some (if neg then -((a * 10 ^ fp.length + b : Nat) : Int) else ((a * 10 ^ fp.length + b : Nat) : Int), fp.length) := by
  rw [parseDec_noexp _ (lit_noexp neg ip fp hip hfp)]
  obtain ⟨i0, irest, rfl⟩ : ∃ i0 irest, ip = i0 :: irest := by
    cases ip with
    | nil => exact absurd rfl hne
    | cons x xs => exact ⟨x, xs, rfl⟩
  rw [strip_lit neg i0 irest fp (hip i0 (by simp)) hfp]
  exact parseMant_core neg (i0 :: irest) fp a b hip hne pa pb

theorem natStr_digits (n : Nat) : ∀ c ∈ natStr n, (digitVal? c).isSome = true := padDigits_digits _ _

/-- T1 core: `float()` of the fixed-point body gives back the scaled integer and the number of decimals -/
theorem parseDec_fixedCoreS (d : Nat) (v : SNum) : parseDec? (fixedCoreS d v) = some (v.toInt, d) := by
  unfold fixedCoreS
  have h := parseDec_core v.neg (natStr (v.mag / 10 ^ d)) (padDigits d (v.mag % 10 ^ d)) (v.mag / 10 ^ d) (v.mag % 10 ^ d)
    (natStr_digits _) (natStr_ne_nil _) (padDigits_digits _ _)
    (by rw [parseNatAux_natStr]; simp) (by rw [parseNatAux_padDigits]; simp)
  rw [h, padDigits_length]
  have e : v.mag / 10 ^ d * 10 ^ d + v.mag % 10 ^ d = v.mag := by
    rw [Nat.mul_comm]
    exact Nat.div_add_mod _ _
  rw [e]
  unfold SNum.toInt
  cases v.neg <;> simp

theorem strip_fixedCoreS (d : Nat) (v : SNum) : strip (fixedCoreS d v) = fixedCoreS d v := by
  unfold fixedCoreS
  obtain ⟨i0, irest, hi⟩ : ∃ i0 irest, natStr (v.mag / 10 ^ d) = i0 :: irest := by
    cases h : natStr (v.mag / 10 ^ d) with
    | nil => exact absurd h (natStr_ne_nil _)
    | cons x xs => exact ⟨x, xs, rfl⟩
  rw [hi]
  exact strip_lit _ _ _ _ (natStr_digits (v.mag / 10 ^ d) i0 (by rw [hi]; simp)) (padDigits_digits _ _)

/-- what `__printInOrder` writes for a coordinate: the body without the padding -/
theorem renderFixedS_eq (w d : Nat) (v : SNum) : renderFixedS w d v = fixedCoreS d v := by
  unfold renderFixedS fixedWS
  have : strip (lpad w (fixedCoreS d v)) = strip (fixedCoreS d v) := by
    unfold strip lpad
    rw [lstrip_replicate_append]
  rw [this, strip_fixedCoreS]

/-- `float()` ignores the padding of `"{:w.df}"` -/
theorem parseDec_strip (s : Str) (h : strip (strip s) = strip s) : parseDec? (strip s) = parseDec? s := by
  unfold parseDec?
  rw [h]

theorem parseDec_fixedWS (w d : Nat) (v : SNum) : parseDec? (fixedWS w d v) = some (v.toInt, d) := by
  have h1 : parseDec? (fixedWS w d v) = parseDec? (renderFixedS w d v) := by
    unfold renderFixedS
    rw [parseDec_strip]
    have := renderFixedS_eq w d v
    unfold renderFixedS at this
    rw [this, strip_fixedCoreS]
  rw [h1, renderFixedS_eq, parseDec_fixedCoreS]

/-- all characters of a rendered number are digits, '-' or '.' -/
theorem fixedCoreS_numChar (d : Nat) (v : SNum) : ∀ c ∈ fixedCoreS d v, numChar c = true := by
  intro c hc
  unfold fixedCoreS at hc
  simp only [List.mem_append, List.mem_singleton] at hc
  unfold numChar
  rcases hc with ((hc | hc) | hc) | hc
  · have : c = '-' := by cases hn : v.neg <;> simp [hn] at hc; exact hc
    subst this; decide
  · simp [natStr_digits _ c hc]
  · subst hc; decide
  · simp [padDigits_digits _ _ c hc]

end TV.TextIO
