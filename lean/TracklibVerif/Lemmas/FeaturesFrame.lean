import TracklibVerif.Lemmas.FeaturesSpec
/-! Frame ("no other feature, coordinate or timestamp changes as a side effect"), on the specification table:
`Frame T P ma` says that running `ma` leaves untouched every name outside `T` — its presence, its column,
and, for the names `x y z t`, the coordinate — and that the returned value satisfies `P`. Structural proofs
for every operation; transported to the code's table through the simulation in `Props/C01.lean`. -/
set_option linter.unusedSectionVars false
namespace TV.Features
variable {V : Type} [Inhabited V]

def cname : Coord → String
  | .x => "x" | .y => "y" | .z => "z" | .t => "t"

theorem coord?_cname {m : String} {c : Coord} (h : coord? m = some c) : m = cname c := by
  unfold coord? at h
  cases hx : (m == "x") with
  | true => simp only [hx, if_true] at h; cases h; simpa [cname] using hx
  | false =>
    simp only [hx, Bool.false_eq_true, if_false] at h
    cases hy : (m == "y") with
    | true => simp only [hy, if_true] at h; cases h; simpa [cname] using hy
    | false =>
      simp only [hy, Bool.false_eq_true, if_false] at h
      cases hz : (m == "z") with
      | true => simp only [hz, if_true] at h; cases h; simpa [cname] using hz
      | false =>
        simp only [hz, Bool.false_eq_true, if_false] at h
        cases ht : (m == "t") with
        | true => simp only [ht, if_true] at h; cases h; simpa [cname] using ht
        | false => simp [ht] at h

/-- the part of the table a name designates -/
structure Same (T : String → Prop) (a a' : ATab V) : Prop where
  cols : ∀ m, ¬ T m → lookup a'.cols m = lookup a.cols m
  coord : ∀ c, ¬ T (cname c) → a'.coord c = a.coord c
  size : a'.xs.length = a.xs.length

theorem Same.refl (T : String → Prop) (a : ATab V) : Same T a a := ⟨fun _ _ => rfl, fun _ _ => rfl, rfl⟩

theorem Same.trans {T : String → Prop} {a b c : ATab V} (h1 : Same T a b) (h2 : Same T b c) : Same T a c :=
  ⟨fun m hm => (h2.cols m hm).trans (h1.cols m hm), fun k hk => (h2.coord k hk).trans (h1.coord k hk),
   h2.size.trans h1.size⟩

theorem Same.mono {T T' : String → Prop} {a b : ATab V} (h : Same T a b) (hT : ∀ m, T m → T' m) : Same T' a b :=
  ⟨fun m hm => h.cols m (fun t => hm (hT m t)), fun k hk => h.coord k (fun t => hk (hT _ t)), h.size⟩

def Frame {α : Type} (T : String → Prop) (P : α → Prop) (ma : M (ATab V) α) : Prop :=
  ∀ a, Same T a (ma a).2 ∧ ∀ x, (ma a).1 = .ok x → P x

section combinators
variable {α β : Type} {T : String → Prop}

theorem frame_pure {P : α → Prop} (x : α) (hx : P x) : Frame (V := V) T P (pure x) :=
  fun a => ⟨Same.refl T a, fun y hy => by cases hy; exact hx⟩

theorem frame_throw {P : α → Prop} (e : Err) : Frame (V := V) T P (M.throw e) :=
  fun a => ⟨Same.refl T a, fun y hy => by cases hy⟩

theorem frame_ofExcept {P : α → Prop} (r : Except Err α) (h : ∀ x, r = .ok x → P x) :
    Frame (V := V) T P (M.ofExcept r) :=
  fun a => ⟨Same.refl T a, fun y hy => h y hy⟩

theorem frame_weaken {T' : String → Prop} {P Q : α → Prop} {ma : M (ATab V) α} (h : Frame T P ma)
    (hT : ∀ m, T m → T' m) (hpq : ∀ x, P x → Q x) : Frame T' Q ma :=
  fun a => ⟨(h a).1.mono hT, fun x hx => hpq x ((h a).2 x hx)⟩

theorem frame_bind {P : α → Prop} {Q : β → Prop} {ma : M (ATab V) α} {fa : α → M (ATab V) β}
    (h1 : Frame T P ma) (h2 : ∀ x, P x → Frame T Q (fa x)) : Frame T Q (ma >>= fa) := by
  intro a
  obtain ⟨s1, p1⟩ := h1 a
  show Same T a (M.bind ma fa a).2 ∧ ∀ x, (M.bind ma fa a).1 = .ok x → Q x
  unfold M.bind
  cases hm : ma a with
  | mk r a1 =>
    rw [hm] at s1 p1
    cases r with
    | error e => exact ⟨s1, fun x hx => by cases hx⟩
    | ok x =>
      obtain ⟨s2, p2⟩ := h2 x (p1 x rfl) a1
      exact ⟨s1.trans s2, p2⟩

theorem frame_ite {P : α → Prop} (c : Prop) [Decidable c] {a b : M (ATab V) α}
    (h1 : c → Frame T P a) (h2 : ¬ c → Frame T P b) : Frame T P (if c then a else b) := by
  split
  · exact h1 ‹_›
  · exact h2 ‹_›

theorem frame_tryFinally {P : α → Prop} {ma : M (ATab V) α} {fin : M (ATab V) Unit}
    (h1 : Frame T P ma) (h2 : Frame T (fun _ => True) fin) : Frame T P (M.tryFinally ma fin) := by
  intro a
  obtain ⟨s1, p1⟩ := h1 a
  unfold M.tryFinally
  cases hm : ma a with
  | mk r a1 =>
    rw [hm] at s1 p1
    obtain ⟨s2, _⟩ := h2 a1
    simp only
    cases hf : fin a1 with
    | mk r2 a2 =>
      rw [hf] at s2
      cases r2 with
      | error e =>
        refine ⟨s1.trans s2, fun x hx => ?_⟩
        cases r with
        | ok y => cases hx
        | error e' => cases e' <;> cases hx
      | ok u => exact ⟨s1.trans s2, fun x hx => p1 x hx⟩

theorem frame_catchIndex {P : α → Prop} {ma : M (ATab V) α} (d : α) (h1 : Frame T P ma) (hd : P d) :
    Frame T P (M.catchIndex ma d) := by
  intro a
  obtain ⟨s1, p1⟩ := h1 a
  unfold M.catchIndex
  cases hm : ma a with
  | mk r a1 =>
    rw [hm] at s1 p1
    cases r with
    | ok x => exact ⟨s1, fun y hy => p1 y hy⟩
    | error e =>
      cases e <;> first
        | exact ⟨s1, fun y hy => by cases hy; exact hd⟩
        | exact ⟨s1, fun y hy => by cases hy⟩

theorem frame_forEach (l : List α) {fa : α → M (ATab V) Unit}
    (h : ∀ x, x ∈ l → Frame T (fun _ => True) (fa x)) : Frame T (fun _ => True) (M.forEach l fa) := by
  induction l with
  | nil => exact frame_pure () trivial
  | cons x t ih =>
    unfold M.forEach
    exact frame_bind (h x (by simp)) (fun _ _ => ih (fun y hy => h y (by simp [hy])))

theorem frame_mapL (l : List α) {fa : α → M (ATab V) β}
    (h : ∀ x, x ∈ l → Frame T (fun _ => True) (fa x)) : Frame T (fun _ => True) (M.mapL l fa) := by
  induction l with
  | nil => exact frame_pure [] trivial
  | cons x t ih =>
    unfold M.mapL
    refine frame_bind (h x (by simp)) (fun b _ => ?_)
    exact frame_bind (ih (fun y hy => h y (by simp [hy]))) (fun bs _ => frame_pure _ trivial)

theorem frame_foldL (l : List α) {fa : β → α → M (ATab V) β} (init : β)
    (h : ∀ b x, x ∈ l → Frame T (fun _ => True) (fa b x)) : Frame T (fun _ => True) (M.foldL l init fa) := by
  induction l generalizing init with
  | nil => exact frame_pure init trivial
  | cons x t ih =>
    unfold M.foldL
    exact frame_bind (h init x (by simp)) (fun b _ => ih b (fun b' y hy => h b' y (by simp [hy])))

end combinators

/-! ### primitives -/

/-- an operation that does not change the table -/
theorem frame_read {α : Type} {T : String → Prop} (ma : M (ATab V) α) (h : ∀ a, (ma a).2 = a) :
    Frame T (fun _ => True) ma :=
  fun a => ⟨by rw [h a]; exact Same.refl T a, fun _ _ => trivial⟩

theorem frame_size {T : String → Prop} : Frame T (fun _ => True) (tblATab.size : M (ATab V) Nat) :=
  frame_read _ (fun _ => rfl)
theorem frame_has {T : String → Prop} (nm : String) : Frame T (fun _ => True) (tblATab.has nm : M (ATab V) Bool) :=
  frame_read _ (fun _ => rfl)
theorem frame_names {T : String → Prop} : Frame T (fun _ => True) (tblATab.names : M (ATab V) (List String)) :=
  frame_read _ (fun _ => rfl)

theorem frame_get {T : String → Prop} (o : Ops V) (nm : String) : Frame T (fun _ => True) (getA o nm) := by
  apply frame_read
  intro a
  unfold getA
  split
  · rfl
  · split
    · rfl
    · split
      · rfl
      · split <;> rfl

theorem frame_getObs {T : String → Prop} (o : Ops V) (nm : String) (i : Nat) :
    Frame T (fun _ => True) (getObsA o nm i) := by
  apply frame_read
  intro a
  unfold getObsA
  split
  · split <;> rfl
  · split
    · rfl
    · split
      · rfl
      · split
        · rfl
        · split <;> rfl

theorem same_cols {T : String → Prop} (a : ATab V) (cols' : List (String × List V))
    (h : ∀ m, ¬ T m → lookup cols' m = lookup a.cols m) : Same T a { a with cols := cols' } :=
  ⟨h, fun c _ => by cases c <;> rfl, rfl⟩

theorem frame_create (nm : String) (init : Init V) : Frame (· = nm) (fun _ => True) (createA nm init) := by
  intro a
  refine ⟨?_, fun _ _ => trivial⟩
  unfold createA
  split
  · exact Same.refl _ a
  · split
    · exact Same.refl _ a
    · split
      · exact Same.refl _ a
      · rename_i hr hs hh
        have hl : lookup a.cols nm = none := by
          cases h : lookup a.cols nm with
          | none => rfl
          | some c => simp [hasA, h] at hh
        split
        · exact same_cols a _ (fun m hm => by rw [lookup_append_new _ _ _ _ hl]; simp [hm])
        · split
          · exact Same.refl _ a
          · exact same_cols a _ (fun m hm => by rw [lookup_append_new _ _ _ _ hl]; simp [hm])

theorem frame_update (nm : String) (init : Init V) : Frame (· = nm) (fun _ => True) (updateA nm init) := by
  intro a
  refine ⟨?_, fun _ _ => trivial⟩
  unfold updateA
  split
  · exact Same.refl _ a
  · split
    · exact Same.refl _ a
    · split
      · exact Same.refl _ a
      · split
        · exact same_cols a _ (fun m hm => by rw [lookup_replaceCol]; simp [hm])
        · exact same_cols a _ (fun m hm => by rw [lookup_replaceCol]; simp [hm])

theorem frame_remove (nm : String) : Frame (· = nm) (fun _ => True) (removeA (V := V) nm) := by
  intro a
  refine ⟨?_, fun _ _ => trivial⟩
  unfold removeA
  split
  · exact Same.refl _ a
  · split
    · exact Same.refl _ a
    · exact same_cols a _ (fun m hm => lookup_filter_ne _ _ _ hm)

theorem frame_setObs (nm : String) (i : Nat) (v : V) : Frame (· = nm) (fun _ => True) (setObsA nm i v) := by
  intro a
  refine ⟨?_, fun _ _ => trivial⟩
  unfold setObsA
  split
  · split
    · rename_i c hc
      have hn := coord?_cname hc
      split
      · refine ⟨fun _ _ => by cases c <;> rfl, ?_, ?_⟩
        · intro c' hc'
          have : c' ≠ c := fun e => hc' (by rw [e, hn])
          cases c <;> cases c' <;> first | rfl | exact absurd rfl this
        · cases c <;> simp [ATab.setCoord, ATab.coord]
      · exact Same.refl _ a
    · exact Same.refl _ a
  · split
    · exact Same.refl _ a
    · split
      · exact same_cols a _ (fun m hm => by rw [lookup_replaceCol]; simp [hm])
      · exact Same.refl _ a

/-! ### operations through the API -/
open Tbl

syntax "frame_leaf" : tactic
macro_rules | `(tactic| frame_leaf) => `(tactic| first
  | exact frame_pure _ trivial
  | exact frame_throw _
  | exact frame_ofExcept _ (fun _ _ => trivial)
  | exact frame_size
  | exact frame_has _
  | exact frame_names
  | exact frame_get _ _
  | exact frame_getObs _ _ _
  | exact frame_create _ _
  | exact frame_update _ _
  | exact frame_remove _
  | exact frame_setObs _ _ _)

macro "frame_auto" : tactic => `(tactic| repeat (first
  | frame_leaf
  | refine frame_bind (P := fun _ => True) ?_ (fun _ _ => ?_)
  | refine frame_ite _ (fun _ => ?_) (fun _ => ?_)
  | refine frame_forEach _ (fun _ _ => ?_)
  | refine frame_mapL _ (fun _ _ => ?_)
  | refine frame_foldL _ _ (fun _ _ _ => ?_)
  | refine frame_catchIndex _ ?_ trivial
  | refine frame_tryFinally ?_ ?_))

theorem frame_addListToAF (nm : String) (arr : List V) :
    Frame (· = nm) (fun _ => True) (addListToAF (σ := ATab V) nm arr) := by
  unfold addListToAF
  refine frame_bind (P := fun _ => True) frame_size (fun k _ => ?_)
  refine frame_forEach _ (fun i _ => ?_)
  cases arr[i]? <;> frame_auto
macro_rules | `(tactic| frame_leaf) => `(tactic| exact frame_addListToAF _ _)

theorem frame_setItem (nm : String) (init : Init V) :
    Frame (· = nm) (fun _ => True) (setItem (σ := ATab V) nm init) := by
  unfold setItem
  frame_auto

macro_rules | `(tactic| frame_leaf) => `(tactic| exact frame_setItem _ _)

theorem frame_readAll {T : String → Prop} (o : Ops V) (cols cells : List String) :
    Frame T (fun _ => True) (readAll (σ := ATab V) o cols cells) := by
  unfold readAll
  frame_auto
macro_rules | `(tactic| frame_leaf) => `(tactic| exact frame_readAll _ _ _)

theorem frame_opaqueVoid (o : Ops V) (cols cells : List String) (out : String) (vals : List V) :
    Frame (· = out) (fun _ => True) (opaqueVoid (σ := ATab V) o cols cells out vals) := by
  unfold opaqueVoid
  frame_auto

theorem frame_reverser (o : Ops V) (inp out : String) :
    Frame (· = out) (fun _ => True) (reverser (σ := ATab V) o inp out) := by
  unfold reverser
  frame_auto

theorem frame_setCoordFromAF (o : Ops V) (c nm : String) :
    Frame (· = c) (fun _ => True) (setCoordFromAF (σ := ATab V) o c nm) := by
  unfold setCoordFromAF
  frame_auto

theorem frame_dist2D {T : String → Prop} (o : Ops V) (i j : Nat) :
    Frame T (fun _ => True) (dist2DOp (σ := ATab V) o i j) := by
  unfold dist2DOp
  frame_auto
macro_rules | `(tactic| frame_leaf) => `(tactic| exact frame_dist2D _ _ _)

theorem frame_speedBetween {T : String → Prop} (o : Ops V) (i j : Nat) :
    Frame T (fun _ => True) (speedBetweenOp (σ := ATab V) o i j) := by
  unfold speedBetweenOp
  frame_auto
macro_rules | `(tactic| frame_leaf) => `(tactic| exact frame_speedBetween _ _ _)

theorem frame_evalAlgo {T : String → Prop} (o : Ops V) (alg : Algo V) (i : Nat) :
    Frame T (fun _ => True) (evalAlgo (σ := ATab V) o alg i) := by
  cases alg <;> (unfold evalAlgo; frame_auto)
macro_rules | `(tactic| frame_leaf) => `(tactic| exact frame_evalAlgo _ _ _)

theorem frame_addAF (o : Ops V) (alg : Algo V) (nm : String) :
    Frame (· = nm) (fun _ => True) (addAF (σ := ATab V) o alg nm) := by
  unfold addAF
  frame_auto

theorem frame_unaryTemp {T : String → Prop} (o : Ops V) (k : UOp) (inp : String) (m : Nat) :
    Frame T (fun _ => True) (unaryTemp (σ := ATab V) o k inp m) := by
  cases k <;> (unfold unaryTemp; frame_auto)
macro_rules | `(tactic| frame_leaf) => `(tactic| exact frame_unaryTemp _ _ _ _)

theorem frame_unaryVoid (o : Ops V) (k : UOp) (inp out : String) :
    Frame (· = out) (fun _ => True) (unaryVoid (σ := ATab V) o k inp out) := by
  unfold unaryVoid
  frame_auto

theorem frame_binaryVoid (o : Ops V) (k : BOp) (in1 in2 out : String) :
    Frame (· = out) (fun _ => True) (binaryVoid (σ := ATab V) o k in1 in2 out) := by
  unfold binaryVoid
  frame_auto

theorem frame_scalarVoid (o : Ops V) (k : SOp) (inp : String) (arg : V) (out : String) :
    Frame (· = out) (fun _ => True) (scalarVoid (σ := ATab V) o k inp arg out) := by
  unfold scalarVoid
  frame_auto

theorem frame_applyVoid (o : Ops V) (f : V → Except Err V) (inp out : String) :
    Frame (· = out) (fun _ => True) (applyVoid (σ := ATab V) o f inp out) := by
  unfold applyVoid
  frame_auto

theorem frame_scalarDivider (o : Ops V) (inp : String) (arg : V) (out : String) :
    Frame (· = out) (fun _ => True) (scalarDivider (σ := ATab V) o inp arg out) := by
  unfold scalarDivider
  exact frame_applyVoid o _ inp out

theorem frame_scalarRevDivider (o : Ops V) (inp : String) (arg : V) (out : String) :
    Frame (· = out) (fun _ => True) (scalarRevDivider (σ := ATab V) o inp arg out) := by
  unfold scalarRevDivider
  exact frame_applyVoid o _ inp out

theorem frame_shiftCircular (o : Ops V) (inp : String) (arg : V) (out : String) :
    Frame (· = out) (fun _ => True) (shiftCircular (σ := ATab V) o inp arg out) := by
  unfold shiftCircular
  frame_auto

theorem frame_scalarKind (o : Ops V) (k : SKind) (inp : String) (arg : V) (out : String) :
    Frame (· = out) (fun _ => True) (scalarKind (σ := ATab V) o k inp arg out) := by
  cases k with
  | plain s => exact frame_scalarVoid o s inp arg out
  | divider => exact frame_scalarDivider o inp arg out
  | revDivider => exact frame_scalarRevDivider o inp arg out
  | shift => exact frame_shiftCircular o inp arg out
  | shiftRev => exact frame_shiftCircular o inp _ out

theorem frame_logVoid (o : Ops V) (inp out : String) :
    Frame (· = out) (fun _ => True) (logVoid (σ := ATab V) o inp out) := by
  unfold logVoid
  frame_auto

theorem frame_aggOp {T : String → Prop} (o : Ops V) (f inp : String) :
    Frame T (fun _ => True) (aggOp (σ := ATab V) o f inp) := by
  unfold aggOp
  frame_auto

theorem frame_runVFn (o : Ops V) (f : VFn) (inp out : String) :
    Frame (· = out) (fun _ => True) (runVFn (σ := ATab V) o f inp out) := by
  cases f with
  | integrator => unfold runVFn; exact frame_bind (P := fun _ => True) (frame_unaryVoid o _ inp out) (fun _ _ => frame_pure _ trivial)
  | differentiator => unfold runVFn; exact frame_bind (P := fun _ => True) (frame_unaryVoid o _ inp out) (fun _ _ => frame_pure _ trivial)
  | log => unfold runVFn; exact frame_bind (P := fun _ => True) (frame_logVoid o inp out) (fun _ _ => frame_pure _ trivial)
  | apply name => unfold runVFn; exact frame_bind (P := fun _ => True) (frame_applyVoid o _ inp out) (fun _ _ => frame_pure _ trivial)

theorem frame_fnVoidOp (o : Ops V) (f inp out : String) :
    Frame (· = out) (fun _ => True) (fnVoidOp (σ := ATab V) o f inp out) := by
  unfold fnVoidOp
  cases vfn? f with
  | none => exact frame_throw _
  | some vf => exact frame_runVFn o vf inp out

theorem frame_absCurvOp (o : Ops V) :
    Frame (fun m => m = "ds" ∨ m = "abs_curv") (fun _ => True) (absCurvOp (σ := ATab V) o) := by
  unfold absCurvOp
  refine frame_bind (P := fun _ => True) (frame_has _) (fun b1 _ => ?_)
  refine frame_bind (V := V) (P := fun _ => True) ?_ (fun _ _ => ?_)
  · refine frame_ite _ (fun _ => frame_pure _ trivial) (fun _ => ?_)
    exact frame_bind (P := fun _ => True) (frame_weaken (frame_addAF o .ds "ds") (fun m hm => Or.inl hm) (fun _ _ => trivial))
      (fun _ _ => frame_pure _ trivial)
  refine frame_bind (P := fun _ => True) (frame_has _) (fun b2 _ => ?_)
  refine frame_bind (V := V) (P := fun _ => True) ?_ (fun _ _ => ?_)
  · refine frame_ite _ (fun _ => frame_pure _ trivial) (fun _ => ?_)
    exact frame_bind (P := fun _ => True)
      (frame_weaken (frame_unaryVoid o .integrator "ds" "abs_curv") (fun m hm => Or.inr hm) (fun _ _ => trivial))
      (fun _ _ => frame_pure _ trivial)
  refine frame_bind (P := fun _ => True) (frame_weaken (frame_remove "ds") (fun m hm => Or.inl hm) (fun _ _ => trivial)) (fun _ _ => ?_)
  exact frame_get o _

theorem frame_estSpeedOp (o : Ops V) :
    Frame (· = "speed") (fun _ => True) (estSpeedOp (σ := ATab V) o) := by
  unfold estSpeedOp
  refine frame_bind (P := fun _ => True) (frame_has _) (fun b _ => ?_)
  exact frame_ite _ (fun _ => frame_get o _) (fun _ => frame_addAF o .speed "speed")

theorem frame_segmentOp (o : Ops V) (inp out : String) (thr : V) :
    Frame (· = out) (fun _ => True) (segmentOp (σ := ATab V) o inp out thr) := by
  unfold segmentOp
  frame_auto

theorem frame_sumOp {T : String → Prop} (o : Ops V) (inp : String) :
    Frame T (fun _ => True) (sumOp (σ := ATab V) o inp) := by
  unfold sumOp
  frame_auto

theorem frame_hasSV {T : String → Prop} (sv : SV V) : Frame T (fun _ => True) (hasSV (σ := ATab V) sv) := by
  cases sv <;> (unfold hasSV; frame_auto)
macro_rules | `(tactic| frame_leaf) => `(tactic| exact frame_hasSV _)

theorem frame_toFloat {T : String → Prop} (o : Ops V) (sv : SV V) :
    Frame T (fun _ => True) (toFloat (σ := ATab V) o sv) := by
  cases sv with
  | tok s => unfold toFloat; simp only; cases o.parse s <;> frame_auto
  | num v => unfold toFloat; frame_auto
  | none => unfold toFloat; frame_auto
macro_rules | `(tactic| frame_leaf) => `(tactic| exact frame_toFloat _ _)

theorem frame_isFloat {T : String → Prop} (o : Ops V) (sv : SV V) :
    Frame T (fun _ => True) (isFloat (σ := ATab V) o sv) := by
  cases sv <;> (unfold isFloat; frame_auto)
macro_rules | `(tactic| frame_leaf) => `(tactic| exact frame_isFloat _ _)

theorem isHash_temp (s : String) : isHash ("#" ++ s) = true := by
  unfold isHash
  rw [String.front_eq, String.front?_eq, String.toList_append]
  simp

/-- names an assignment `op1 = op2` may touch: its left-hand side, and `#` names -/
def assignT (op1 : SV V) (m : String) : Prop := op1 = .tok m ∨ isHash m = true

theorem coordTarget_eq {op1 : SV V} {c : String} (h : coordTarget op1 = some c) : op1 = .tok c := by
  cases op1 with
  | tok s =>
    simp only [coordTarget] at h
    split at h
    · cases h; rfl
    · cases h
  | num v => simp [coordTarget] at h
  | none => simp [coordTarget] at h

theorem frame_assignOp (o : Ops V) (op1 op2 : SV V) :
    Frame (assignT op1) (fun _ => True) (assignOp (σ := ATab V) o op1 op2) := by
  unfold assignOp
  refine frame_bind (P := fun _ => True) (frame_hasSV op2) (fun b2 _ => ?_)
  refine frame_ite _ (fun _ => ?_) (fun _ => ?_)
  · cases op2 with
    | tok s2 =>
      simp only
      refine frame_bind (P := fun _ => True) (frame_hasSV op1) (fun b1 _ => ?_)
      refine frame_ite _ (fun _ => ?_) (fun _ => ?_)
      · cases op1 with
        | tok s1 =>
          have hs1 : ∀ m, m = s1 → assignT (SV.tok s1 : SV V) m := fun m hm => Or.inl (by rw [hm])
          simp only
          refine frame_ite _ (fun _ => ?_) (fun _ => ?_)
          · refine frame_bind (P := fun _ => True)
              (frame_weaken (frame_setCoordFromAF o s1 s2) hs1 (fun _ _ => trivial)) (fun _ _ => ?_)
            refine frame_ite _ (fun hc => ?_) (fun _ => frame_pure _ trivial)
            exact frame_weaken (frame_remove s2) (fun m hm => Or.inr (by rw [hm]; exact hc)) (fun _ _ => trivial)
          · refine frame_bind (P := fun _ => True) (frame_get o s2) (fun af _ => ?_)
            refine frame_bind (P := fun _ => True)
              (frame_weaken (frame_remove s1) hs1 (fun _ _ => trivial)) (fun _ _ => ?_)
            exact frame_weaken (frame_create s1 _) hs1 (fun _ _ => trivial)
        | num v => frame_auto
        | none => frame_auto
      · refine frame_bind (P := fun _ => True) (frame_get o s2) (fun af _ => ?_)
        cases op1 with
        | tok s1 => exact frame_weaken (frame_create s1 _) (fun m hm => Or.inl (by rw [hm])) (fun _ _ => trivial)
        | num v => frame_auto
        | none => frame_auto
    | num v => frame_auto
    | none => frame_auto
  · cases hct : coordTarget op1 with
    | some c =>
      have hc := coordTarget_eq hct
      simp only
      refine frame_bind (P := fun _ => True) frame_size (fun k _ => ?_)
      refine frame_forEach _ (fun i _ => ?_)
      refine frame_bind (P := fun _ => True) (frame_toFloat o op2) (fun v _ => ?_)
      exact frame_weaken (frame_setObs c i v) (fun m hm => Or.inl (by rw [hm, hc])) (fun _ _ => trivial)
    | none =>
      simp only
      refine frame_bind (P := fun _ => True) (frame_hasSV op1) (fun b1 _ => ?_)
      refine frame_ite _ (fun _ => ?_) (fun _ => ?_)
      · refine frame_bind (P := fun _ => True) (frame_toFloat o op2) (fun v _ => ?_)
        cases op1 with
        | tok s1 => exact frame_weaken (frame_update s1 _) (fun m hm => Or.inl (by rw [hm])) (fun _ _ => trivial)
        | num v => frame_auto
        | none => frame_auto
      · refine frame_bind (P := fun _ => True) (frame_toFloat o op2) (fun v _ => ?_)
        cases op1 with
        | tok s1 => exact frame_weaken (frame_create s1 _) (fun m hm => Or.inl (by rw [hm])) (fun _ _ => trivial)
        | num v => frame_auto
        | none => frame_auto

/-- a value pushed back on the evaluator's stack is never a user name: a number, `None`, or a `#k` temporary -/
def TempRes (r : SV V) : Prop := ∀ m, r = .tok m → isHash m = true

theorem frame_funcOp (o : Ops V) (op1 op2 : SV V) (out : String) (hout : isHash out = true) :
    Frame (fun m => isHash m = true) TempRes (funcOp (σ := ATab V) o op1 op2 out) := by
  have hk : ∀ m, m = out → isHash m = true := fun m hm => by rw [hm]; exact hout
  have hres : TempRes (SV.tok out : SV V) := fun m hm => by cases hm; exact hout
  unfold funcOp
  cases op1 with
  | tok f =>
    simp only
    cases vfn? f with
    | some vf =>
      cases op2 with
      | tok s2 =>
        exact frame_bind (P := fun _ => True) (frame_weaken (frame_runVFn o vf s2 out) hk (fun _ _ => trivial))
          (fun _ _ => frame_pure _ hres)
      | num v => exact frame_throw _
      | none => exact frame_throw _
    | none =>
      simp only
      refine frame_ite _ (fun _ => ?_) (fun _ => ?_)
      · cases op2 with
        | tok s2 =>
          simp only
          refine frame_bind (P := fun _ => True) (frame_aggOp o f s2) (fun v _ => ?_)
          refine frame_bind (P := fun _ => True) frame_size (fun k _ => ?_)
          exact frame_bind (P := fun _ => True) (frame_weaken (frame_create out _) hk (fun _ _ => trivial))
            (fun _ _ => frame_pure _ hres)
        | num v => exact frame_throw _
        | none => exact frame_throw _
      · exact frame_ite _ (fun _ => frame_throw _) (fun _ => frame_throw _)
  | num v => exact frame_throw _
  | none => exact frame_throw _

theorem frame_dispatchOp (o : Ops V) (op1 op2 : SV V) (operator : String) (k : Nat) :
    Frame (fun m => isHash m = true) TempRes (dispatchOp (σ := ATab V) o op1 op2 operator k) := by
  have hk : ∀ m, m = "#" ++ toString k → isHash m = true := fun m hm => by rw [hm]; exact isHash_temp _
  have hres : TempRes (SV.tok ("#" ++ toString k) : SV V) := fun m hm => by
    cases hm; exact isHash_temp _
  unfold dispatchOp
  refine frame_ite _ (fun _ => frame_funcOp o op1 op2 _ (isHash_temp _)) (fun _ => ?_)
  refine frame_bind (P := fun _ => True) (frame_hasSV op1) (fun a1 _ => ?_)
  refine frame_bind (P := fun _ => True) (frame_hasSV op2) (fun a2 _ => ?_)
  cases a1 <;> cases a2 <;> cases op1 <;> cases op2 <;> simp only <;>
    first
    | exact frame_throw _
    | (cases bKind? operator with
       | none => exact frame_throw _
       | some b =>
         cases b with
         | none => exact frame_throw _
         | some b =>
           exact frame_bind (P := fun _ => True)
             (frame_weaken (frame_binaryVoid o b _ _ _) hk (fun _ _ => trivial)) (fun _ _ => frame_pure _ hres))
    | (cases sKind? operator with
       | none => exact frame_throw _
       | some sk =>
         exact frame_bind (P := fun _ => True) (frame_toFloat o _) (fun _ _ =>
           frame_bind (P := fun _ => True)
             (frame_weaken (frame_scalarKind o sk _ _ _) hk (fun _ _ => trivial)) (fun _ _ => frame_pure _ hres)))
    | (cases srKind? operator with
       | none => exact frame_throw _
       | some sk =>
         exact frame_bind (P := fun _ => True) (frame_toFloat o _) (fun _ _ =>
           frame_bind (P := fun _ => True)
             (frame_weaken (frame_scalarKind o sk _ _ _) hk (fun _ _ => trivial)) (fun _ _ => frame_pure _ hres)))

theorem frame_arithOp (o : Ops V) (operator : String) (op1 op2 : SV V) (k : Nat) :
    Frame (fun m => isHash m = true) TempRes (arithOp (σ := ATab V) o operator op1 op2 k) := by
  unfold arithOp
  refine frame_bind (P := fun _ => True) (frame_isFloat o op1) (fun f1 _ => ?_)
  refine frame_bind (P := fun _ => True) ?_ (fun f2 _ => ?_)
  · frame_auto
  refine frame_ite _ (fun _ => ?_) (fun _ => frame_dispatchOp o op1 op2 operator k)
  refine frame_bind (P := fun _ => True) (frame_toFloat o op1) (fun a _ => ?_)
  refine frame_bind (P := fun _ => True) (frame_toFloat o op2) (fun c _ => ?_)
  cases litOp o operator a c with
  | none => exact frame_dispatchOp o _ _ operator k
  | some r =>
    exact frame_bind (P := fun _ => True) (frame_ofExcept _ (fun _ _ => trivial))
      (fun _ _ => frame_pure _ (fun m hm => by cases hm))

theorem frame_applyOperation (o : Ops V) (op1 op2 : SV V) (operator : String) (k : Nat) :
    Frame (assignT op1) TempRes (applyOperation (σ := ATab V) o op1 op2 operator k) := by
  unfold applyOperation
  refine frame_ite _ (fun _ => ?_) (fun _ => ?_)
  · exact frame_bind (P := fun _ => True) (frame_assignOp o op1 op2)
      (fun _ _ => frame_pure _ (fun m hm => by cases hm))
  · exact frame_weaken (frame_arithOp o operator op1 op2 k) (fun m hm => Or.inr hm) (fun _ h => h)

/-- names the stack machine may touch: the non-operator tokens still to be read, the tokens on the stack, `#` names -/
def rpnT (rpn : List String) (stack : List (SV V)) (m : String) : Prop :=
  ((m ∈ rpn ∧ isOperator m = false) ∨ SV.tok m ∈ stack) ∨ isHash m = true

theorem frame_evaluateRPN (o : Ops V) (rpn : List String) (stack : List (SV V)) (k : Nat) :
    Frame (rpnT rpn stack) (fun _ => True) (evaluateRPN (σ := ATab V) o rpn stack k) := by
  induction rpn generalizing stack k with
  | nil => unfold evaluateRPN; exact frame_pure _ trivial
  | cons e rest ih =>
    unfold evaluateRPN
    refine frame_ite _ (fun hop => ?_) (fun hop => ?_)
    · match stack with
      | [] => exact frame_throw _
      | [_] => exact frame_throw _
      | op2 :: op1 :: stack' =>
        simp only
        refine frame_bind (P := TempRes)
          (frame_weaken (frame_applyOperation o op1 op2 e k) ?_ (fun _ h => h)) (fun r hr => ?_)
        · intro m hm
          rcases hm with hm | hm
          · exact Or.inl (Or.inr (by rw [hm]; simp))
          · exact Or.inr hm
        · refine frame_weaken (ih (r :: stack') (k + 1)) ?_ (fun _ _ => trivial)
          intro m hm
          rcases hm with (⟨h1, h2⟩ | hm) | hm
          · exact Or.inl (Or.inl ⟨by simp [h1], h2⟩)
          · rcases List.mem_cons.mp hm with hm | hm
            · exact Or.inr (hr m hm.symm)
            · exact Or.inl (Or.inr (by simp [hm]))
          · exact Or.inr hm
    · refine frame_weaken (ih (SV.tok e :: stack) k) ?_ (fun _ _ => trivial)
      intro m hm
      rcases hm with (⟨h1, h2⟩ | hm) | hm
      · exact Or.inl (Or.inl ⟨by simp [h1], h2⟩)
      · rcases List.mem_cons.mp hm with hm | hm
        · have : m = e := by injection hm
          subst this
          exact Or.inl (Or.inl ⟨by simp, by simpa using hop⟩)
        · exact Or.inl (Or.inr hm)
      · exact Or.inr hm

/-- names `operate(str)` may touch: the non-operator tokens of the expression, and `#` names -/
def exprT (rpn : List String) (m : String) : Prop := (m ∈ rpn ∧ isOperator m = false) ∨ isHash m = true

theorem frame_evaluate (o : Ops V) (rpn : List String) :
    Frame (exprT rpn) (fun _ => True) (evaluate (σ := ATab V) o rpn) := by
  have hout : isHash "#output" = true := by decide +kernel
  have heq : isOperator "=" = true := by decide +kernel
  unfold evaluate
  simp only
  refine frame_ite _ (fun _ => ?_) (fun _ => ?_)
  · refine frame_bind (P := fun _ => True) (frame_weaken (frame_evaluateRPN o rpn [] 0) ?_ (fun _ _ => trivial))
      (fun _ _ => frame_pure _ trivial)
    intro m hm
    rcases hm with (hm | hm) | hm
    · exact Or.inl hm
    · simp at hm
    · exact Or.inr hm
  · refine frame_bind (P := fun _ => True)
      (frame_weaken (frame_evaluateRPN o ("#output" :: rpn ++ ["="]) [] 0) ?_ (fun _ _ => trivial)) (fun _ _ => ?_)
    · intro m hm
      rcases hm with (⟨h1, h2⟩ | hm) | hm
      · simp only [List.cons_append, List.mem_cons, List.mem_append, List.not_mem_nil, or_false] at h1
        rcases h1 with h1 | h1 | h1
        · exact Or.inr (by rw [h1]; exact hout)
        · exact Or.inl ⟨h1, h2⟩
        · rw [h1, heq] at h2; cases h2
      · simp at hm
      · exact Or.inr hm
    · refine frame_bind (P := fun _ => True) (frame_get o _) (fun out _ => ?_)
      refine frame_bind (P := fun _ => True)
        (frame_weaken (frame_remove "#output") (fun m hm => Or.inr (by rw [hm]; exact hout)) (fun _ _ => trivial))
        (fun _ _ => frame_pure _ trivial)

theorem frame_purge : Frame (fun m => isHash m = true) (fun _ => True) (purge (σ := ATab V)) := by
  unfold purge
  refine frame_bind (P := fun _ => True) frame_names (fun l _ => ?_)
  refine frame_forEach _ (fun af _ => ?_)
  refine frame_ite _ (fun hc => ?_) (fun _ => frame_pure _ trivial)
  exact frame_weaken (frame_remove af) (fun m hm => by rw [hm]; exact hc) (fun _ _ => trivial)

theorem frame_operateStr (o : Ops V) (rpn : List String) :
    Frame (exprT rpn) (fun _ => True) (operateStr (σ := ATab V) o rpn) := by
  unfold operateStr
  exact frame_tryFinally (frame_evaluate o rpn) (frame_weaken frame_purge (fun m hm => Or.inr hm) (fun _ _ => trivial))

/-- the names one API call may touch -/
def touched : Op V → String → Prop
  | .create nm _, m => m = nm
  | .update nm _, m => m = nm
  | .remove nm, m => m = nm
  | .setItem nm _, m => m = nm
  | .setObs nm _ _, m => m = nm
  | .addAF _ nm, m => m = nm
  | .unaryVoid _ inp out, m => m = out.getD inp
  | .binaryVoid _ in1 _ out, m => m = out.getD in1
  | .scalarVoid _ inp _ out, m => m = out.getD inp
  | .sum _, _ => False
  | .opaqueVoid _ _ out _, m => m = out
  | .reverser inp out, m => m = out.getD inp
  | .probe _ _, _ => False
  | .fnVoid _ inp out, m => m = out.getD inp
  | .scalarK _ inp _ out, m => m = out.getD inp
  | .aggFn _ _, _ => False
  | .absCurv, m => m = "ds" ∨ m = "abs_curv"
  | .estSpeed, m => m = "speed"
  | .segment _ out _, m => m = out
  | .expr rpn, m => exprT rpn m

theorem frame_step (o : Ops V) (op : Op V) : Frame (touched op) (fun _ => True) (step (σ := ATab V) o op) := by
  cases op with
  | create nm init => unfold step; exact frame_bind (P := fun _ => True) (frame_create nm init) (fun _ _ => frame_pure _ trivial)
  | update nm init => unfold step; exact frame_bind (P := fun _ => True) (frame_update nm init) (fun _ _ => frame_pure _ trivial)
  | remove nm => unfold step; exact frame_bind (P := fun _ => True) (frame_remove nm) (fun _ _ => frame_pure _ trivial)
  | setItem nm init => unfold step; exact frame_bind (P := fun _ => True) (frame_setItem nm init) (fun _ _ => frame_pure _ trivial)
  | setObs nm i v => unfold step; exact frame_bind (P := fun _ => True) (frame_setObs nm i v) (fun _ _ => frame_pure _ trivial)
  | addAF alg nm => unfold step; exact frame_bind (P := fun _ => True) (frame_addAF o alg nm) (fun _ _ => frame_pure _ trivial)
  | unaryVoid k inp out => unfold step; exact frame_bind (P := fun _ => True) (frame_unaryVoid o k inp _) (fun _ _ => frame_pure _ trivial)
  | binaryVoid k in1 in2 out => unfold step; exact frame_bind (P := fun _ => True) (frame_binaryVoid o k in1 in2 _) (fun _ _ => frame_pure _ trivial)
  | scalarVoid k inp arg out => unfold step; exact frame_bind (P := fun _ => True) (frame_scalarVoid o k inp arg _) (fun _ _ => frame_pure _ trivial)
  | sum inp => unfold step; exact frame_bind (P := fun _ => True) (frame_sumOp o inp) (fun _ _ => frame_pure _ trivial)
  | opaqueVoid cols cells out vals => unfold step; exact frame_bind (P := fun _ => True) (frame_opaqueVoid o cols cells out vals) (fun _ _ => frame_pure _ trivial)
  | reverser inp out => unfold step; exact frame_bind (P := fun _ => True) (frame_reverser o inp _) (fun _ _ => frame_pure _ trivial)
  | probe cols cells => unfold step; exact frame_bind (P := fun _ => True) (frame_readAll o cols cells) (fun _ _ => frame_pure _ trivial)
  | fnVoid f inp out => unfold step; exact frame_fnVoidOp o f inp _
  | scalarK k inp arg out => unfold step; exact frame_bind (P := fun _ => True) (frame_scalarKind o k inp arg _) (fun _ _ => frame_pure _ trivial)
  | aggFn f inp => unfold step; exact frame_bind (P := fun _ => True) (frame_aggOp o f inp) (fun _ _ => frame_pure _ trivial)
  | absCurv => unfold step; exact frame_bind (P := fun _ => True) (frame_absCurvOp o) (fun _ _ => frame_pure _ trivial)
  | estSpeed => unfold step; exact frame_bind (P := fun _ => True) (frame_estSpeedOp o) (fun _ _ => frame_pure _ trivial)
  | segment inp out thr => unfold step; exact frame_bind (P := fun _ => True) (frame_segmentOp o inp out thr) (fun _ _ => frame_pure _ trivial)
  | expr rpn => unfold step; exact frame_operateStr o rpn

theorem aread_same (o : Ops V) {T : String → Prop} {a a' : ATab V} (h : Same T a a') (m : String) (hm : ¬ T m) :
    aread o a' m = aread o a m := by
  unfold aread getA
  cases hc : coord? m with
  | some c =>
    have := coord?_cname hc
    simp only [h.coord c (by rw [← this]; exact hm)]
  | none =>
    simp only [ATab.size, h.size, h.cols m hm]
    split <;> (try split) <;> (try split) <;> rfl

theorem lookup_isSome_iff (cols : List (String × List V)) (m : String) :
    (lookup cols m).isSome = true ↔ m ∈ cols.map Prod.fst := by
  constructor
  · intro h
    induction cols with
    | nil => simp [lookup] at h
    | cons p t ih =>
      unfold lookup at ih h
      simp only [List.find?_cons] at h
      by_cases hp : (p.1 == m) = true
      · have : p.1 = m := by simpa using hp
        simp [this]
      · simp only [hp] at h
        simp [ih h]
  · exact lookup_isSome_of_mem cols m

end TV.Features
