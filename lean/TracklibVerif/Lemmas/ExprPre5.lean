import TracklibVerif.Lemmas.ExprPre4
/-! # `makeRPN` on `#output = …` (with its two spaces) and `operate` on source strings, end to end -/
namespace TV.Expr
open TV.Rpn

/-! ## a leading space is invisible to `makeRPN` -/

theorem splitRC_space (g : Str) (hg : g.contains ' ' = false) (s : Str) :
    splitRC g (' ' :: s) = (splitRC g s).map (fun x => (' ' :: x.1, x.2.1, x.2.2)) := by
  simp only [splitRC]
  cases splitRC g s with
  | some x => rfl
  | none =>
    have : ' ' ∉ g := by simpa using hg
    simp [this]

theorem firstSplitC_space : ∀ (grps : List Str), (∀ g ∈ grps, g.contains ' ' = false) → ∀ s,
    firstSplitC grps (' ' :: s) = (firstSplitC grps s).map (fun x => (' ' :: x.1, x.2.1, x.2.2))
  | [], _, _ => rfl
  | g :: gs, h, s => by
    simp only [firstSplitC, splitRC_space g (h g (by simp)) s]
    cases splitRC g s with
    | some x => rfl
    | none => exact firstSplitC_space gs (fun g' hg' => h g' (by simp [hg'])) s

theorem strip_space (s : Str) : strip (' ' :: s) = strip s := by
  simp [strip, List.dropWhile, isWs]

theorem makeRPNg_space (grps : List Str) (h : ∀ g ∈ grps, g.contains ' ' = false) :
    ∀ (f : Nat) (s : Str), makeRPNg grps f (' ' :: s) = makeRPNg grps f s
  | 0, _ => rfl
  | f+1, s => by
    simp only [makeRPNg, firstSplitC_space grps h s, strip_space]
    cases firstSplitC grps s with
    | some x =>
      obtain ⟨l, c, r⟩ := x
      simp only [Option.map_some, makeRPNg_space grps h f l]
    | none => rfl

theorem groups_no_space : ∀ g ∈ groups, g.contains ' ' = false := by decide

/-! ## the only `=` of `#output = …` -/

theorem splitRC_none (g : Str) : ∀ (s : Str), (∀ c ∈ s, g.contains c = false) → splitRC g s = none
  | [], _ => rfl
  | c :: cs, h => by
    simp only [splitRC, splitRC_none g cs (fun d hd => h d (by simp [hd])), h c (by simp), Bool.and_false,
      Bool.false_eq_true, if_false]

theorem splitRC_hit (g : Str) (c : Char) (r : Str) (hr : splitRC g r = none) (hb : balC r = 0)
    (hc : g.contains c = true) (h1 : c ≠ '(') (h2 : c ≠ ')') :
    ∀ (p : Str), splitRC g (p ++ c :: r) = some (p, c, r)
  | [] => by
    simp only [List.nil_append, splitRC, hr, balC_plain c r h2 h1, hb, hc]
    rfl
  | x :: p => by
    simp only [List.cons_append, splitRC, splitRC_hit g c r hr hb hc h1 h2 p]

theorem makeRPNg_split (grps : List Str) (f : Nat) (s l r : Str) (c : Char) (h : firstSplitC grps s = some (l, c, r)) :
    makeRPNg grps (f + 1) s = (do
      let a ← makeRPNg grps f l
      let b ← makeRPNg grps f r
      pure (a ++ b ++ [[c]])) := by
  simp only [makeRPNg, h]

theorem makeRPNg_outname (f : Nat) : makeRPNg groups (f + 1) ['#', 'o', 'u', 't', 'p', 'u', 't', ' '] = .ok [outputName] := by
  rfl

/-- **the value form as the parser sees it**: `#output = ` (with its two spaces) followed by a printed tree
    without `=` -/
theorem makeRPN_output_spaces (t : E) (hwf : Rpn.WF pyLvl 9 t) (hok : AtomsOK t)
    (hne : '=' ∉ flat (shw pyLvl 9 t)) :
    makeRPN ("#output = ".toList ++ flat (shw pyLvl 9 t))
      = .ok (outputName :: ((Rpn.post t).map String.toList ++ [['=']])) := by
  have hP : "#output = ".toList ++ flat (shw pyLvl 9 t)
      = ['#', 'o', 'u', 't', 'p', 'u', 't', ' '] ++ '=' :: (' ' :: flat (shw pyLvl 9 t)) := rfl
  have hlen : ("#output = ".toList ++ flat (shw pyLvl 9 t)).length + 1 = ((flat (shw pyLvl 9 t)).length + 9) + 1 + 1 := by
    rw [hP]; simp only [List.length_append, List.length_cons, List.length_nil]; omega
  have hbal : balC (' ' :: flat (shw pyLvl 9 t)) = 0 := by
    rw [balC_plain _ _ (by decide) (by decide), balC_flat _ (tokOK_shw t hwf hok)]
    exact (shw_bal_SN pyLvl 9 t).1
  have hnone : splitRC ['='] (' ' :: flat (shw pyLvl 9 t)) = none := by
    apply splitRC_none
    intro c hc
    simp only [List.mem_cons] at hc
    rcases hc with rfl | hc
    · decide
    · have : c ≠ '=' := fun e => hne (e ▸ hc)
      simp [this]
  have hsplit : firstSplitC groups (['#', 'o', 'u', 't', 'p', 'u', 't', ' '] ++ '=' :: (' ' :: flat (shw pyLvl 9 t)))
      = some (['#', 'o', 'u', 't', 'p', 'u', 't', ' '], '=', ' ' :: flat (shw pyLvl 9 t)) := by
    simp only [groups, firstSplitC, splitRC_hit ['='] '=' _ hnone hbal (by decide) (by decide) (by decide)]
  have hbody := makeRPNg_shw t hwf hok ((flat (shw pyLvl 9 t)).length + 9 + 1)
    (by have := size_le_length t hok; omega)
  unfold makeRPN
  rw [hlen, hP]
  rw [makeRPNg_split _ _ _ _ _ _ hsplit, makeRPNg_outname, makeRPNg_space groups groups_no_space, hbody]
  simp [bind, Except.bind, pure, Except.pure]

/-! ## `operate` on source strings -/

variable {α : Type} [Scalar α]

theorem operate_of (tr : Tr α) (s s' : Str) (void : Bool) (rpn0 rpn : List Str)
    (h1 : preprocess s = .ok (s', void)) (h2 : makeRPN s' = .ok rpn0) (h3 : doublePrime rpn0 = .ok rpn) :
    operate tr s = operateTokens tr rpn void := by
  unfold operate evaluate
  rw [h1]
  dsimp only
  unfold evaluateRewritten
  rw [h2]
  dsimp only
  rw [h3]
  rfl

theorem goodTok_op {o : Char} (h : pyLvl o < 9) : GoodTok [o] :=
  ⟨o, rfl, by intro e; subst e; exact absurd h (by decide)⟩

theorem goodTok_post' (e : Sx) (h : SrcOK e) (hq : NoQuote (desugar e)) : ∀ t ∈ Expr.post (desugar e), GoodTok t := by
  induction e with
  | num s => intro t ht; simp only [desugar, Expr.post, List.mem_singleton] at ht; subst ht; exact hq
  | var s => intro t ht; simp only [desugar, Expr.post, List.mem_singleton] at ht; subst ht; exact hq
  | bin o l r ihl ihr =>
    intro t ht
    simp only [desugar, Expr.post, List.mem_append, List.mem_singleton] at ht
    rcases ht with (ht | ht) | rfl
    · exact ihl h.2.1 hq.1 t ht
    · exact ihr h.2.2 hq.2 t ht
    · exact goodTok_op h.1.1
  | call f e ih =>
    intro t ht
    simp only [desugar, Expr.post, List.mem_append, List.mem_cons, List.mem_nil_iff, or_false] at ht
    rcases ht with (rfl | ht) | rfl
    · exact hq.1
    · exact ih h.2 hq.2 t ht
    · exact ⟨'@', rfl, by decide⟩
  | neg e ih =>
    intro t ht
    simp only [desugar, Expr.post, List.mem_append, List.mem_singleton] at ht
    rcases ht with (rfl | ht) | rfl
    · exact ⟨'0', rfl, by decide⟩
    · exact ih h hq.2 t ht
    · exact ⟨'-', rfl, by decide⟩
  | par e ih => exact ih h hq

/-- **source string → tokens, `lhs=e`**: on the string the user types, `operate` (the whole rewriting chain,
    character-level `makeRPN`, `__double_prime`, stack machine, purge) does what it does on the postfix token
    list `lhs, postfix(desugar e), =` -/
theorem operate_source_tokens (tr : Tr α) (lhs : Str) (e : Sx)
    (hl : NameOK lhs) (hg : GoodTok lhs) (h : SrcOK e) (hq : NoQuote (desugar e)) :
    operate tr (lhs ++ '=' :: src e) = operateTokens tr (lhs :: (Expr.post (desugar e) ++ [['=']])) true := by
  have hgood : ∀ t ∈ lhs :: (Expr.post (desugar e) ++ [['=']]), GoodTok t := by
    intro t ht
    simp only [List.mem_cons, List.mem_append, List.mem_nil_iff, or_false] at ht
    rcases ht with rfl | ht | rfl
    · exact hg
    · exact goodTok_post' e h hq t ht
    · exact ⟨'=', rfl, by decide⟩
  have hm := makeRPN_flat_shw (.bin '=' (.atom (String.ofList lhs)) (toE' e)) ⟨by decide, trivial, wf_toE' e h⟩
    ⟨hl.atomOK, atomsOK_toE' e h⟩
  have hp : (Rpn.post (.bin '=' (.atom (String.ofList lhs)) (toE' e))).map String.toList
      = lhs :: (Expr.post (desugar e) ++ [['=']]) := by
    simp [Rpn.post, post_toE']
  rw [hp] at hm
  exact operate_of tr _ _ true _ _ (preprocess_assign lhs e hl h) hm (doublePrime_id _ hgood)

/-- **source string → tokens, no `=`** -/
theorem operate_source_value_tokens (tr : Tr α) (e : Sx) (h : SrcOK e) (hq : NoQuote (desugar e)) :
    operate tr (src e) = operateTokens tr (outputName :: (Expr.post (desugar e) ++ [['=']])) false := by
  have hgood : ∀ t ∈ outputName :: (Expr.post (desugar e) ++ [['=']]), GoodTok t := by
    intro t ht
    simp only [List.mem_cons, List.mem_append, List.mem_nil_iff, or_false] at ht
    rcases ht with rfl | ht | rfl
    · exact ⟨'t', rfl, by decide⟩
    · exact goodTok_post' e h hq t ht
    · exact ⟨'=', rfl, by decide⟩
  have hm := makeRPN_output_spaces (toE' e) (wf_toE' e h) (atomsOK_toE' e h) (by rw [← tgt_eq]; exact tgt_no_eq e h)
  rw [post_toE'] at hm
  exact operate_of tr _ _ false _ _ (preprocess_value e h) hm (doublePrime_id _ hgood)

/-- **source string → value**: for the expression the user types (no `=`), `operate` returns the tree
    semantics of the desugared tree at every observation and leaves the track exactly as it was -/
theorem operate_source_value (tr : Tr α) (e : Sx) (v : Val α) (h : SrcOK e) (hq : NoQuote (desugar e))
    (hw : WFx (desugar e)) (hn : tr.n ≠ 0) (hnt : NoTemps tr) (hl : NoLitNames tr)
    (hd : denoteM tr (desugar e) = .ok v) :
    operate tr (src e) = (.ok (some (v.toVec tr.n)), tr) := by
  rw [operate_source_value_tokens tr e h hq]
  exact operateTokens_value tr (desugar e) v hw hn hnt hl hd

/-- **source string, `lhs=e` with a new name**: nothing is returned, the value is stored under `lhs` -/
theorem operate_source_assign_new (tr : Tr α) (lhs : Str) (e : Sx) (v : Val α)
    (hl : NameOK lhs) (hg : GoodTok lhs) (h : SrcOK e) (hq : NoQuote (desugar e))
    (hop : isOperatorTok lhs = none) (hr : isReserved lhs = false) (ht : isTemp lhs = false)
    (hlk : lookup lhs tr.feats = none)
    (hw : WFx (desugar e)) (hn : tr.n ≠ 0) (hnt : NoTemps tr) (hlit : NoLitNames tr)
    (hd : denoteM tr (desugar e) = .ok v) :
    operate tr (lhs ++ '=' :: src e) = (.ok none, ext tr [(lhs, v.toVec tr.n)]) := by
  rw [operate_source_tokens tr lhs e hl hg h hq]
  exact operateTokens_assign_new tr lhs (desugar e) v hop hr ht hlk hw hn hnt hlit hd

end TV.Expr
