import TracklibVerif.Lemmas.Rpn
import TracklibVerif.Model.Expr
/-! The character-level `makeRPN` of `Model/Expr.lean` (what the driver runs and what is compared with
`utils.makeRPN` on every run) refines the token-level parser of `Model/Rpn.lean` on printed trees. -/
namespace TV.Expr
open TV.Rpn

/-- characters that may not occur inside a name or a number: parentheses, the operator characters of
    `makeRPN`'s table, white space -/
def special (c : Char) : Bool := c == '(' || c == ')' || decide (pyLvl c < 9) || isWs c

def AtomOK (s : String) : Prop := s.toList ≠ [] ∧ ∀ c ∈ s.toList, special c = false

def TokOK : Tok → Prop
  | .atom s => AtomOK s
  | .op c => pyLvl c < 9
  | _ => True

/-- the string a token list stands for -/
def flat : List Tok → Str
  | [] => []
  | .atom s :: ts => s.toList ++ flat ts
  | .op c :: ts => c :: flat ts
  | .lp :: ts => '(' :: flat ts
  | .rp :: ts => ')' :: flat ts

theorem flat_append (xs ys : List Tok) : flat (xs ++ ys) = flat xs ++ flat ys := by
  induction xs with
  | nil => rfl
  | cons t ts ih => cases t <;> simp [flat, ih]

theorem special_op {c : Char} (h : pyLvl c < 9) : c ≠ '(' ∧ c ≠ ')' ∧ isWs c = false := by
  refine ⟨?_, ?_, ?_⟩
  · intro hc; subst hc; revert h; decide
  · intro hc; subst hc; revert h; decide
  · cases hw : isWs c with
    | false => rfl
    | true =>
      exfalso
      simp only [isWs, Bool.or_eq_true, beq_iff_eq] at hw
      rcases hw with ((hw | hw) | hw) | hw <;> (subst hw; revert h; decide)

theorem balC_plain (c : Char) (cs : Str) (h1 : c ≠ ')') (h2 : c ≠ '(') : balC (c :: cs) = balC cs := by
  simp [balC, h1, h2]

theorem balC_append_plain (cs rest : Str) (h : ∀ c ∈ cs, special c = false) : balC (cs ++ rest) = balC rest := by
  induction cs with
  | nil => rfl
  | cons c cs ih =>
    have hc := h c (by simp)
    simp only [special, Bool.or_eq_false_iff, beq_eq_false_iff_ne, ne_eq] at hc
    rw [List.cons_append, balC_plain _ _ hc.1.1.2 hc.1.1.1]
    exact ih (fun d hd => h d (by simp [hd]))

theorem balC_flat (ts : List Tok) (h : ∀ t ∈ ts, TokOK t) : balC (flat ts) = bal ts := by
  induction ts with
  | nil => rfl
  | cons t ts ih =>
    have ih' := ih (fun u hu => h u (by simp [hu]))
    have ht := h t (by simp)
    cases t with
    | atom s => simp only [flat, bal]; rw [balC_append_plain _ _ ht.2, ih']
    | op c =>
      obtain ⟨h1, h2, _⟩ := special_op ht
      simp only [flat, bal]; rw [balC_plain _ _ h2 h1, ih']
    | lp => simp [flat, bal, balC, ih']
    | rp => simp [flat, bal, balC, ih']

/-- the `g`-th group of `makeRPN`'s table -/
def grp (g : Nat) : Str := groups.getD g []

def opsList : List Char := ['=', '<', '>', '+', '-', '!', '*', '/', '%', '^', '@', '&', '$']

theorem mem_opsList_of_lvl {c : Char} (h : pyLvl c < 9) : c ∈ opsList := by
  unfold pyLvl at h
  repeat' split at h
  all_goals first
    | (exfalso; omega)
    | (rename_i hc; first | (subst hc; decide) | (rcases hc with hc | hc <;> (subst hc; decide)))

theorem mem_opsList_of_grp {g : Nat} (hg : g < 9) {c : Char} (h : (grp g).contains c = true) : c ∈ opsList := by
  have h9 : g = 0 ∨ g = 1 ∨ g = 2 ∨ g = 3 ∨ g = 4 ∨ g = 5 ∨ g = 6 ∨ g = 7 ∨ g = 8 := by omega
  rcases h9 with rfl | rfl | rfl | rfl | rfl | rfl | rfl | rfl | rfl <;>
    (simp only [grp, groups, List.getD_cons_zero, List.getD_cons_succ, List.contains_cons, List.contains_nil,
      Bool.or_false, Bool.or_eq_true, beq_iff_eq] at h
     first | (subst h; decide) | (rcases h with h | h <;> (subst h; decide)))

theorem grp_table : ∀ c ∈ opsList, ∀ g, g < 9 → ((grp g).contains c = true ↔ pyLvl c = g) := by decide

theorem grp_contains (g : Nat) (hg : g < 9) (c : Char) : (grp g).contains c = true ↔ pyLvl c = g := by
  constructor
  · intro h; exact (grp_table c (mem_opsList_of_grp hg h) g hg).mp h
  · intro h; exact (grp_table c (mem_opsList_of_lvl (by omega)) g hg).mpr h


def flat3 (x : List Tok × Char × List Tok) : Str × Char × Str := (flat x.1, x.2.1, flat x.2.2)

theorem grp_not_lvl9 {g : Nat} (hg : g < 9) {c : Char} (h : pyLvl c = 9) : ¬ c ∈ grp g := by
  intro hm
  have hc : (grp g).contains c = true := by simpa using hm
  have := (grp_contains g hg c).mp hc
  omega

theorem grp_not_special {g : Nat} (hg : g < 9) {c : Char} (h : special c = false) : ¬ c ∈ grp g := by
  intro hm
  have hc : (grp g).contains c = true := by simpa using hm
  have := (grp_contains g hg c).mp hc
  simp only [special, Bool.or_eq_false_iff, decide_eq_false_iff_not] at h
  omega

theorem grp_mem {g : Nat} (hg : g < 9) (c : Char) : c ∈ grp g ↔ pyLvl c = g := by
  rw [← grp_contains g hg c]; simp

theorem splitRC_plain (g : Nat) (hg : g < 9) (cs rest : Str) (h : ∀ c ∈ cs, special c = false) :
    splitRC (grp g) (cs ++ rest) = (splitRC (grp g) rest).map (fun x => (cs ++ x.1, x.2.1, x.2.2)) := by
  induction cs with
  | nil => cases h' : splitRC (grp g) rest <;> simp [h']
  | cons c cs ih =>
    have ih' := ih (fun d hd => h d (by simp [hd]))
    simp only [List.cons_append, splitRC, ih']
    cases hr : splitRC (grp g) rest with
    | some x => simp
    | none => simp [grp_not_special hg (h c (by simp))]

/-- the scan of one precedence group on the string is the scan on the tokens -/
theorem splitRC_flat (g : Nat) (hg : g < 9) (ts : List Tok) (h : ∀ t ∈ ts, TokOK t) :
    splitRC (grp g) (flat ts) = (splitR pyLvl g ts).map flat3 := by
  induction ts with
  | nil => rfl
  | cons t ts ih =>
    have hts : ∀ u ∈ ts, TokOK u := fun u hu => h u (by simp [hu])
    have ih' := ih hts
    have ht := h t (by simp)
    cases t with
    | atom s =>
      simp only [flat, splitR]
      rw [splitRC_plain g hg _ _ ht.2, ih']
      cases splitR pyLvl g ts with
      | none => rfl
      | some x => obtain ⟨l, c, r⟩ := x; simp [flat3, flat]
    | op c =>
      obtain ⟨h1, h2, _⟩ := special_op ht
      simp only [flat, splitR, splitRC, ih']
      cases hs : splitR pyLvl g ts with
      | some x => obtain ⟨l, c', r⟩ := x; simp [flat3, flat]
      | none =>
        simp only [Option.map_none, balC_plain _ _ h2 h1, balC_flat ts hts]
        by_cases hc : pyLvl c = g ∧ bal ts = 0
        · have := (grp_mem hg c).mpr hc.1
          simp [hc, this, flat3, flat]
        · simp only [hc, if_false]
          by_cases hb : bal ts = 0
          · have : ¬ c ∈ grp g := fun hm => hc ⟨(grp_mem hg c).mp hm, hb⟩
            simp [this]
          · simp [hb]
    | lp =>
      have : ¬ '(' ∈ grp g := grp_not_lvl9 hg (by decide)
      simp only [flat, splitR, splitRC, ih']
      cases hs : splitR pyLvl g ts with
      | some x => obtain ⟨l, c', r⟩ := x; simp [flat3, flat]
      | none => simp [this]
    | rp =>
      have : ¬ ')' ∈ grp g := grp_not_lvl9 hg (by decide)
      simp only [flat, splitR, splitRC, ih']
      cases hs : splitR pyLvl g ts with
      | some x => obtain ⟨l, c', r⟩ := x; simp [flat3, flat]
      | none => simp [this]

theorem firstSplitC_drop (ts : List Tok) (h : ∀ t ∈ ts, TokOK t) :
    ∀ k g, g + k = 9 → firstSplitC (groups.drop g) (flat ts) = (firstSplit pyLvl k g ts).map flat3 := by
  intro k
  induction k with
  | zero => intro g hg; have : g = 9 := by omega
            subst this; rfl
  | succ k ih =>
    intro g hg
    have hg9 : g < 9 := by omega
    have hd : groups.drop g = grp g :: groups.drop (g + 1) := by
      have h9 : g = 0 ∨ g = 1 ∨ g = 2 ∨ g = 3 ∨ g = 4 ∨ g = 5 ∨ g = 6 ∨ g = 7 ∨ g = 8 := by omega
      rcases h9 with rfl | rfl | rfl | rfl | rfl | rfl | rfl | rfl | rfl <;> rfl
    rw [hd]
    simp only [firstSplitC, firstSplit, splitRC_flat g hg9 ts h]
    cases hs : splitR pyLvl g ts with
    | some x => simp
    | none => simpa using ih (g + 1) (by omega)

/-- the whole precedence loop of `makeRPN` on the string is the loop on the tokens -/
theorem firstSplitC_flat (ts : List Tok) (h : ∀ t ∈ ts, TokOK t) :
    firstSplitC groups (flat ts) = (firstSplit pyLvl 9 0 ts).map flat3 :=
  firstSplitC_drop ts h 9 0 rfl


/-! ### `strip`, parenthesis stripping and the induction on the tree -/

theorem dropWhile_noWs (s : Str) (h : ∀ c ∈ s, isWs c = false) : s.dropWhile isWs = s := by
  cases s with
  | nil => rfl
  | cons c cs => simp [List.dropWhile, h c (by simp)]

theorem strip_noWs (s : Str) (h : ∀ c ∈ s, isWs c = false) : strip s = s := by
  unfold strip
  rw [dropWhile_noWs s h, dropWhile_noWs s.reverse (fun c hc => h c (by simpa using hc))]
  simp

theorem noWs_flat (ts : List Tok) (h : ∀ t ∈ ts, TokOK t) : ∀ c ∈ flat ts, isWs c = false := by
  induction ts with
  | nil => intro c hc; simp [flat] at hc
  | cons t ts ih =>
    have ih' := ih (fun u hu => h u (by simp [hu]))
    have ht := h t (by simp)
    intro c hc
    cases t with
    | atom s =>
      simp only [flat, List.mem_append] at hc
      rcases hc with hc | hc
      · have := ht.2 c hc
        simp only [special, Bool.or_eq_false_iff] at this
        exact this.2
      · exact ih' c hc
    | op o =>
      simp only [flat, List.mem_cons] at hc
      rcases hc with hc | hc
      · subst hc; exact (special_op ht).2.2
      · exact ih' c hc
    | lp =>
      simp only [flat, List.mem_cons] at hc
      rcases hc with hc | hc
      · subst hc; decide
      · exact ih' c hc
    | rp =>
      simp only [flat, List.mem_cons] at hc
      rcases hc with hc | hc
      · subst hc; decide
      · exact ih' c hc

def AtomsOK : E → Prop
  | .atom s => AtomOK s
  | .par e => AtomsOK e
  | .bin _ l r => AtomsOK l ∧ AtomsOK r

theorem tokOK_wrap (b : Bool) (ts : List Tok) (h : ∀ t ∈ ts, TokOK t) : ∀ t ∈ wrap b ts, TokOK t := by
  intro t ht
  unfold wrap at ht
  split at ht
  · simp only [List.mem_cons, List.mem_append, List.mem_nil_iff, or_false] at ht
    rcases ht with rfl | ht | rfl
    · trivial
    · exact h t ht
    · trivial
  · exact h t ht

theorem tokOK_shw (e : E) (hwf : Rpn.WF pyLvl 9 e) (hok : AtomsOK e) : ∀ t ∈ shw pyLvl 9 e, TokOK t := by
  induction e with
  | atom s => intro t ht; simp only [shw, List.mem_singleton] at ht; subst ht; exact hok
  | par e ih => exact tokOK_wrap true _ (ih hwf hok)
  | bin c l r ihl ihr =>
    intro t ht
    simp only [shw, List.mem_append, List.mem_cons] at ht
    rcases ht with ht | rfl | ht
    · exact tokOK_wrap _ _ (ihl hwf.2.1 hok.1) t ht
    · exact hwf.1
    · exact tokOK_wrap _ _ (ihr hwf.2.2 hok.2) t ht

/-- a parenthesised string without a depth-0 operator: `makeRPN` strips the parentheses -/
theorem makeRPNg_paren (f : Nat) (body : Str) (hns : firstSplitC groups ('(' :: (body ++ [')'])) = none)
    (hws : ∀ c ∈ body, isWs c = false) :
    makeRPNg groups (f + 1) ('(' :: (body ++ [')'])) = makeRPNg groups f body := by
  have hst : strip ('(' :: (body ++ [')'])) = '(' :: (body ++ [')']) := by
    apply strip_noWs
    intro c hc
    simp only [List.mem_cons, List.mem_append, List.mem_nil_iff, or_false] at hc
    rcases hc with rfl | hc | rfl
    · decide
    · exact hws c hc
    · decide
  simp only [makeRPNg, hns, hst, List.dropLast_concat]

theorem makeRPNg_wrap (b : Bool) (e : E) (pe : List Str) (f : Nat)
    (hwf : Rpn.WF pyLvl 9 e) (hok : AtomsOK e)
    (h : ∀ f', f ≤ f' → makeRPNg groups f' (flat (shw pyLvl 9 e)) = .ok pe) :
    ∀ f', f + 1 ≤ f' → makeRPNg groups f' (flat (wrap b (shw pyLvl 9 e))) = .ok pe := by
  intro f' hf
  cases b with
  | false => simpa [wrap] using h f' (by omega)
  | true =>
    obtain ⟨f'', rfl⟩ : ∃ f'', f' = f'' + 1 := ⟨f' - 1, by omega⟩
    have htok := tokOK_wrap true _ (tokOK_shw e hwf hok)
    have hn := firstSplit_none pyLvl (wrap true (shw pyLvl 9 e))
      (fun g => by simpa [wrap] using splitR_wrapped pyLvl g _ (shw_bal_SN pyLvl 9 e).2) 9 0
    have hns := firstSplitC_flat _ htok
    rw [hn] at hns
    simp only [wrap, if_true, flat, flat_append, List.append_nil, Option.map_none] at hns ⊢
    rw [makeRPNg_paren f'' _ hns (noWs_flat _ (tokOK_shw e hwf hok))]
    exact h f'' (by omega)

/-- **character level**: `makeRPN` (as the driver runs it, on the string) returns the postfix form of
    every printed tree -/
theorem makeRPNg_shw (e : E) (hwf : Rpn.WF pyLvl 9 e) (hok : AtomsOK e) :
    ∀ f, Rpn.size e ≤ f → makeRPNg groups f (flat (shw pyLvl 9 e)) = .ok ((Rpn.post e).map String.toList) := by
  induction e with
  | atom s =>
    intro f hf
    obtain ⟨f', rfl⟩ : ∃ f', f = f' + 1 := ⟨f - 1, by simp [Rpn.size] at hf; omega⟩
    have hn := firstSplit_none pyLvl [Tok.atom s] (fun g => by simp [splitR]) 9 0
    have hns := firstSplitC_flat [Tok.atom s] (by intro t ht; simp at ht; subst ht; exact hok)
    rw [hn] at hns
    have hst : strip s.toList = s.toList := strip_noWs _ (fun c hc => by
      have := hok.2 c hc
      simp only [special, Bool.or_eq_false_iff] at this
      exact this.2)
    simp only [shw, flat, List.append_nil, Option.map_none] at hns ⊢
    simp only [makeRPNg, hns, hst]
    cases hs : s.toList with
    | nil => exact absurd hs hok.1
    | cons c cs =>
      have hc : c ≠ '(' := by
        have := hok.2 c (by rw [hs]; simp)
        simp only [special, Bool.or_eq_false_iff, beq_eq_false_iff_ne, ne_eq] at this
        exact this.1.1.1
      split
      · rename_i heq; cases heq
      · rename_i heq; simp only [List.cons.injEq] at heq; exact absurd heq.1 hc
      · simp [Rpn.post, hs, pure, Except.pure]
  | par e ih =>
    intro f hf
    have := makeRPNg_wrap true e _ (Rpn.size e) hwf hok (ih hwf hok) f (by simp [Rpn.size] at hf; omega)
    simpa [wrap, shw, Rpn.post] using this
  | bin c l r ihl ihr =>
    intro f hf
    obtain ⟨hc, hwl, hwr⟩ := hwf
    obtain ⟨hol, hor⟩ := hok
    obtain ⟨f', rfl⟩ : ∃ f', f = f' + 1 := ⟨f - 1, by simp [Rpn.size] at hf; omega⟩
    have hsl := size_pos l
    have hsr := size_pos r
    simp only [Rpn.size] at hf
    have hfs := firstSplit_some pyLvl (shw pyLvl 9 (E.bin c l r)) _ (pyLvl c) (split_root pyLvl 9 c l r)
      (fun g hg => no_split_below pyLvl 9 (E.bin c l r) g (by simpa [lv] using hg)) 9 0 (by omega) (by omega)
    have hns := firstSplitC_flat _ (tokOK_shw (E.bin c l r) ⟨hc, hwl, hwr⟩ ⟨hol, hor⟩)
    rw [hfs] at hns
    simp only [Option.map_some, flat3] at hns
    simp only [makeRPNg, hns]
    rw [makeRPNg_wrap _ l _ (Rpn.size l) hwl hol (ihl hwl hol) f' (by omega),
        makeRPNg_wrap _ r _ (Rpn.size r) hwr hor (ihr hwr hor) f' (by omega)]
    simp [Rpn.post, bind, Except.bind, pure, Except.pure]


theorem length_flat_wrap (b : Bool) (ts : List Tok) : (flat ts).length ≤ (flat (wrap b ts)).length := by
  cases b with
  | false => simp [wrap]
  | true => simp [wrap, flat, flat_append]; omega

theorem size_le_length (e : E) (hok : AtomsOK e) : Rpn.size e ≤ (flat (shw pyLvl 9 e)).length := by
  induction e with
  | atom s =>
    have : s.toList.length ≠ 0 := fun h => hok.1 (List.length_eq_zero_iff.mp h)
    simp [Rpn.size, shw, flat]; omega
  | par e ih =>
    have := ih hok
    simp [Rpn.size, shw, flat, flat_append]; omega
  | bin c l r ihl ihr =>
    have h1 := ihl hok.1
    have h2 := ihr hok.2
    have w1 := length_flat_wrap (decide (lv pyLvl 9 l < pyLvl c)) (shw pyLvl 9 l)
    have w2 := length_flat_wrap (decide (lv pyLvl 9 r ≤ pyLvl c)) (shw pyLvl 9 r)
    simp only [Rpn.size, shw, flat_append, flat, List.length_append, List.length_cons]
    omega

/-- `utils.makeRPN(s)` with its own fuel (the length of the string) -/
theorem makeRPN_flat_shw (e : E) (hwf : Rpn.WF pyLvl 9 e) (hok : AtomsOK e) :
    makeRPN (flat (shw pyLvl 9 e)) = .ok ((Rpn.post e).map String.toList) :=
  makeRPNg_shw e hwf hok _ (by have := size_le_length e hok; omega)

end TV.Expr
