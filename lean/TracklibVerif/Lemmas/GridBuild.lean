import TracklibVerif.Lemmas.GridIndex
/-! The constructor of `Model/Grid.lean`: what `mkIndex` produces (extent, cell size, shape), the bounding box
contains every vertex, every vertex is inside the extent when `margin ≥ 0`, cell sizes are positive. -/
namespace TV.Grid
variable {α : Type} [Field α] [LinearOrder α] [IsStrictOrderedRing α]

omit [Field α] [IsStrictOrderedRing α] in
theorem pyMin_eq (a b : α) : pyMin a b = min a b := by
  unfold pyMin
  split_ifs with h
  · exact (min_eq_right (le_of_lt h)).symm
  · exact (min_eq_left (le_of_not_gt h)).symm

omit [Field α] [IsStrictOrderedRing α] in
theorem pyMax_eq (a b : α) : pyMax a b = max a b := by
  unfold pyMax
  split_ifs with h
  · exact (max_eq_right (le_of_lt h)).symm
  · exact (max_eq_left (le_of_not_gt h)).symm

omit [IsStrictOrderedRing α] in
theorem isZero_false_iff (x : α) : isZero x = false ↔ x ≠ 0 := by
  unfold isZero
  constructor
  · intro h hx
    subst hx
    simp at h
  · intro h
    rcases lt_or_gt_of_ne h with h' | h'
    · simp [h']
    · simp [h']

/-- invariant of the bbox fold -/
theorem bbox_fold (rest : List (α × α)) (bb0 : α × α × α × α) :
    let bb := rest.foldl (fun (bb : α × α × α × α) q =>
      (pyMin bb.1 q.1, pyMax bb.2.1 q.1, pyMin bb.2.2.1 q.2, pyMax bb.2.2.2 q.2)) bb0
    (bb.1 ≤ bb0.1 ∧ bb0.2.1 ≤ bb.2.1 ∧ bb.2.2.1 ≤ bb0.2.2.1 ∧ bb0.2.2.2 ≤ bb.2.2.2) ∧
    ∀ q ∈ rest, bb.1 ≤ q.1 ∧ q.1 ≤ bb.2.1 ∧ bb.2.2.1 ≤ q.2 ∧ q.2 ≤ bb.2.2.2 := by
  induction rest generalizing bb0 with
  | nil => simp
  | cons q rest ih =>
    simp only [List.foldl_cons]
    obtain ⟨⟨a1, a2, a3, a4⟩, hq⟩ := ih (pyMin bb0.1 q.1, pyMax bb0.2.1 q.1, pyMin bb0.2.2.1 q.2, pyMax bb0.2.2.2 q.2)
    simp only [pyMin_eq, pyMax_eq] at a1 a2 a3 a4 hq ⊢
    refine ⟨⟨le_trans a1 (min_le_left _ _), le_trans (le_max_left _ _) a2, le_trans a3 (min_le_left _ _),
      le_trans (le_max_left _ _) a4⟩, ?_⟩
    intro p hp
    rcases List.mem_cons.mp hp with rfl | hp
    · exact ⟨le_trans a1 (min_le_right _ _), le_trans (le_max_right _ _) a2, le_trans a3 (min_le_right _ _),
        le_trans (le_max_right _ _) a4⟩
    · exact hq p hp

/-- the bounding box contains every vertex -/
theorem bboxOf_bounds (pts : List (α × α)) (bb : α × α × α × α) (h : bboxOf pts = some bb) :
    ∀ p ∈ pts, bb.1 ≤ p.1 ∧ p.1 ≤ bb.2.1 ∧ bb.2.2.1 ≤ p.2 ∧ p.2 ≤ bb.2.2.2 := by
  cases pts with
  | nil => simp [bboxOf] at h
  | cons p0 rest =>
    simp only [bboxOf, Option.some.injEq] at h
    have := bbox_fold rest (p0.1, p0.1, p0.2, p0.2)
    simp only at this
    rw [h] at this
    obtain ⟨⟨a1, a2, a3, a4⟩, hq⟩ := this
    intro p hp
    rcases List.mem_cons.mp hp with rfl | hp
    · exact ⟨a1, a2, a3, a4⟩
    · exact hq p hp

/-- what `mkIndex` returns -/
theorem mkIndex_ok (fl : α → Int) (bb : α × α × α × α) (res : Option (α × α)) (m : α) (ix : Index α)
    (h : mkIndex fl bb res m = .ok ix) :
    let xmin := bb.1 - m * (bb.2.1 - bb.1)
    let xmax := bb.2.1 + m * (bb.2.1 - bb.1)
    let ymin := bb.2.2.1 - m * (bb.2.2.2 - bb.2.2.1)
    let ymax := bb.2.2.2 + m * (bb.2.2.2 - bb.2.2.1)
    let ax := xmax - xmin
    let ay := ymax - ymin
    ix.xmin = xmin ∧ ix.xmax = xmax ∧ ix.ymin = ymin ∧ ix.ymax = ymax ∧ ix.csize ≠ 0 ∧ ix.lsize ≠ 0 ∧
    ix.dX = ax / ((ix.csize : Int) : α) ∧ ix.dY = ay / ((ix.lsize : Int) : α) ∧
    ix.grid = List.replicate ix.csize.toNat (List.replicate ix.lsize.toNat []) ∧ ix.inv = [] ∧
    ∃ rx ry : α, rx ≠ 0 ∧ ry ≠ 0 ∧ ix.csize = pyInt fl (ax / rx) ∧ ix.lsize = pyInt fl (ay / ry) ∧
      (res = none → rx = max ax ay / ((100 : Int) : α) ∧ ry = max ax ay / ((100 : Int) : α)) ∧ (∀ r, res = some r → rx = r.1 ∧ ry = r.2) := by
  intro xmin xmax ymin ymax ax ay
  unfold mkIndex at h
  simp only at h
  cases res with
  | none =>
    simp only at h
    split_ifs at h with hz
    · have hz' := hz
      simp only [Bool.not_eq_true] at hz'
      simp only at h
      split_ifs at h with c1 c2
      simp only [Except.ok.injEq] at h
      subst h
      simp only [beq_iff_eq] at c1 c2
      refine ⟨rfl, rfl, rfl, rfl, c1, c2, rfl, rfl, rfl, rfl, max ax ay / ((100 : Int) : α), max ax ay / ((100 : Int) : α), ?_, ?_, ?_, ?_, ?_, ?_⟩
      · have := (isZero_false_iff _).mp hz'
        rw [pyMax_eq] at this
        simpa [xmin, xmax, ymin, ymax, ax, ay] using this
      · have := (isZero_false_iff _).mp hz'
        rw [pyMax_eq] at this
        simpa [xmin, xmax, ymin, ymax, ax, ay] using this
      · simp [pyMax_eq, xmin, xmax, ymin, ymax, ax, ay]
      · simp [pyMax_eq, xmin, xmax, ymin, ymax, ax, ay]
      · intro _; exact ⟨rfl, rfl⟩
      · intro r hr; cases hr
  | some r =>
    simp only at h
    by_cases hz1 : isZero r.1 = true
    · simp [hz1] at h
    have hz1' : isZero r.1 = false := by simpa using hz1
    by_cases hz2 : isZero r.2 = true
    · simp [hz1', hz2] at h
    have hz2' : isZero r.2 = false := by simpa using hz2
    simp only [hz1', hz2', Bool.false_eq_true, ↓reduceIte] at h
    split_ifs at h with c1 c2
    simp only [Except.ok.injEq] at h
    subst h
    simp only [beq_iff_eq] at c1 c2
    refine ⟨rfl, rfl, rfl, rfl, c1, c2, rfl, rfl, rfl, rfl, r.1, r.2, (isZero_false_iff _).mp hz1',
      (isZero_false_iff _).mp hz2', rfl, rfl, ?_, ?_⟩
    · intro hr; cases hr
    · intro r' hr; cases hr; exact ⟨rfl, rfl⟩

theorem mkIndex_wf (fl : α → Int) (bb : α × α × α × α) (res : Option (α × α)) (m : α) (ix : Index α)
    (h : mkIndex fl bb res m = .ok ix) : WF ix := by
  obtain ⟨_, _, _, _, _, _, _, _, hg, hi, _⟩ := mkIndex_ok fl bb res m ix h
  refine ⟨?_, ?_, ?_⟩
  · intro i j d hm; rw [hi] at hm; simp at hm
  · rw [hg]; simp
  · intro row hr; rw [hg] at hr
    rw [(List.mem_replicate.mp hr).2]; simp

theorem IsFloor.zero {fl : α → Int} (hf : IsFloor fl) : fl 0 = 0 :=
  hf.eq_of (by simp) (by simp)

/-- one axis of the constructor: with a non-negative extent `a`, a positive cell size `r` and a non-zero
count `int(a / r)`, the count and the resulting cell size `a / count` are positive -/
theorem axis_pos {fl : α → Int} (hf : IsFloor fl) (a r : α) (ha : 0 ≤ a) (hr : 0 < r)
    (hn : pyInt fl (a / r) ≠ 0) : 0 < pyInt fl (a / r) ∧ 0 < a / ((pyInt fl (a / r) : Int) : α) := by
  have hq : 0 ≤ a / r := div_nonneg ha (le_of_lt hr)
  have e : pyInt fl (a / r) = fl (a / r) := by
    unfold pyInt; rw [if_neg (not_lt.mpr hq)]
  rw [e] at hn ⊢
  have h0 : 0 ≤ fl (a / r) := by
    have := hf.mono hq
    rwa [hf.zero] at this
  have hpos : 0 < fl (a / r) := lt_of_le_of_ne h0 (Ne.symm hn)
  refine ⟨hpos, ?_⟩
  have hc : (0 : α) < ((fl (a / r) : Int) : α) := by exact_mod_cast hpos
  have h1 : (1 : α) ≤ ((fl (a / r) : Int) : α) := by exact_mod_cast (by omega : (1 : Int) ≤ fl (a / r))
  have h2 : (1 : α) ≤ a / r := le_trans h1 (hf _).1
  have h3 : r ≤ a := by
    rw [le_div_iff₀ hr] at h2; linarith
  exact div_pos (lt_of_lt_of_le hr h3) hc

/-- positivity of the grid dimensions and of the cell size, for a non-degenerate constructor call -/
theorem mkIndex_pos {fl : α → Int} (hf : IsFloor fl) (bb : α × α × α × α) (res : Option (α × α)) (m : α) (ix : Index α)
    (h : mkIndex fl bb res m = .ok ix) (hm : 0 ≤ m) (hbx : bb.1 ≤ bb.2.1) (hby : bb.2.2.1 ≤ bb.2.2.2)
    (hres : ∀ r, res = some r → 0 < r.1 ∧ 0 < r.2) :
    0 < ix.csize ∧ 0 < ix.lsize ∧ 0 < ix.dX ∧ 0 < ix.dY := by
  obtain ⟨_, _, _, _, c1, c2, e7, e8, _, _, rx, ry, hrx, hry, ecs, els, hnone, hsome⟩ := mkIndex_ok fl bb res m ix h
  have hax : 0 ≤ (bb.2.1 + m * (bb.2.1 - bb.1)) - (bb.1 - m * (bb.2.1 - bb.1)) := by
    have := mul_nonneg hm (sub_nonneg.mpr hbx); linarith
  have hay : 0 ≤ (bb.2.2.2 + m * (bb.2.2.2 - bb.2.2.1)) - (bb.2.2.1 - m * (bb.2.2.2 - bb.2.2.1)) := by
    have := mul_nonneg hm (sub_nonneg.mpr hby); linarith
  have hpos : 0 < rx ∧ 0 < ry := by
    cases res with
    | none =>
      obtain ⟨r1, r2⟩ := hnone rfl
      have hmx := le_trans hax (le_max_left _
        ((bb.2.2.2 + m * (bb.2.2.2 - bb.2.2.1)) - (bb.2.2.1 - m * (bb.2.2.2 - bb.2.2.1))))
      have : 0 ≤ rx := by rw [r1]; exact div_nonneg hmx (by norm_num)
      have h1 : 0 < rx := lt_of_le_of_ne this (Ne.symm hrx)
      have : 0 ≤ ry := by rw [r2]; exact div_nonneg hmx (by norm_num)
      exact ⟨h1, lt_of_le_of_ne this (Ne.symm hry)⟩
    | some r =>
      obtain ⟨r1, r2⟩ := hsome r rfl
      rw [r1, r2]; exact hres r rfl
  rw [ecs] at c1 e7
  rw [els] at c2 e8
  obtain ⟨p1, p2⟩ := axis_pos hf _ rx hax hpos.1 c1
  obtain ⟨q1, q2⟩ := axis_pos hf _ ry hay hpos.2 c2
  exact ⟨by rw [ecs]; exact p1, by rw [els]; exact q1, by rw [e7]; exact p2, by rw [e8]; exact q2⟩

/-- with `margin ≥ 0` every point of the bounding box is inside the extent, so `__getCell` answers -/
theorem getCell_of_bbox (fl : α → Int) (bb : α × α × α × α) (res : Option (α × α)) (m : α) (ix : Index α)
    (h : mkIndex fl bb res m = .ok ix) (hm : 0 ≤ m) (p : α × α)
    (hp : bb.1 ≤ p.1 ∧ p.1 ≤ bb.2.1 ∧ bb.2.2.1 ≤ p.2 ∧ p.2 ≤ bb.2.2.2) : getCell ix p ≠ none := by
  obtain ⟨e1, e2, e3, e4, _⟩ := mkIndex_ok fl bb res m ix h
  obtain ⟨p1, p2, p3, p4⟩ := hp
  have hx := mul_nonneg hm (sub_nonneg.mpr (le_trans p1 p2))
  have hy := mul_nonneg hm (sub_nonneg.mpr (le_trans p3 p4))
  unfold getCell
  rw [e1, e2, e3, e4]
  rw [if_neg (by push Not; constructor <;> linarith), if_neg (by push Not; constructor <;> linarith)]
  simp

end TV.Grid
