import TracklibVerif.Lemmas.GridIndex
/-! The constructor of `Model/Grid.lean`: what `mkIndex` produces (extent, cell size, shape), the bounding box
contains every vertex, every vertex is inside the extent when `margin ≥ 0`, cell sizes are positive. -/
namespace TV.Grid
variable {α : Type} [Field α] [LinearOrder α] [IsStrictOrderedRing α]

omit [Field α] [IsStrictOrderedRing α] in
theorem pyMin_eq (a b : α) : pyMin a b = min a b := by
  unfold pyMin
  split_ifs with h
  · exact (min_eq_right (le_of_lt h)).symm
  · exact (min_eq_left (le_of_not_gt h)).symm

omit [Field α] [IsStrictOrderedRing α] in
theorem pyMax_eq (a b : α) : pyMax a b = max a b := by
  unfold pyMax
  split_ifs with h
  · exact (max_eq_right (le_of_lt h)).symm
  · exact (max_eq_left (le_of_not_gt h)).symm

omit [IsStrictOrderedRing α] in
theorem isZero_false_iff (x : α) : isZero x = false ↔ x ≠ 0 := by
  unfold isZero
  constructor
  · intro h hx
    subst hx
    simp at h
  · intro h
    rcases lt_or_gt_of_ne h with h' | h'
    · simp [h']
    · simp [h']

/-- invariant of the bbox fold -/
theorem bbox_fold (rest : List (α × α)) (bb0 : α × α × α × α) :
    let bb := rest.foldl (fun (bb : α × α × α × α) q =>
      (pyMin bb.1 q.1, pyMax bb.2.1 q.1, pyMin bb.2.2.1 q.2, pyMax bb.2.2.2 q.2)) bb0
    (bb.1 ≤ bb0.1 ∧ bb0.2.1 ≤ bb.2.1 ∧ bb.2.2.1 ≤ bb0.2.2.1 ∧ bb0.2.2.2 ≤ bb.2.2.2) ∧
    ∀ q ∈ rest, bb.1 ≤ q.1 ∧ q.1 ≤ bb.2.1 ∧ bb.2.2.1 ≤ q.2 ∧ q.2 ≤ bb.2.2.2 := by
  induction rest generalizing bb0 with
  | nil => simp
  | cons q rest ih =>
    simp only [List.foldl_cons]
    obtain ⟨⟨a1, a2, a3, a4⟩, hq⟩ := ih (pyMin bb0.1 q.1, pyMax bb0.2.1 q.1, pyMin bb0.2.2.1 q.2, pyMax bb0.2.2.2 q.2)
    simp only [pyMin_eq, pyMax_eq] at a1 a2 a3 a4 hq ⊢
    refine ⟨⟨le_trans a1 (min_le_left _ _), le_trans (le_max_left _ _) a2, le_trans a3 (min_le_left _ _),
      le_trans (le_max_left _ _) a4⟩, ?_⟩
    intro p hp
    rcases List.mem_cons.mp hp with rfl | hp
    · exact ⟨le_trans a1 (min_le_right _ _), le_trans (le_max_right _ _) a2, le_trans a3 (min_le_right _ _),
        le_trans (le_max_right _ _) a4⟩
    · exact hq p hp

/-- the bounding box contains every vertex -/
theorem bboxOf_bounds (pts : List (α × α)) (bb : α × α × α × α) (h : bboxOf pts = some bb) :
    ∀ p ∈ pts, bb.1 ≤ p.1 ∧ p.1 ≤ bb.2.1 ∧ bb.2.2.1 ≤ p.2 ∧ p.2 ≤ bb.2.2.2 := by
  cases pts with
  | nil => simp [bboxOf] at h
  | cons p0 rest =>
    simp only [bboxOf, Option.some.injEq] at h
    have := bbox_fold rest (p0.1, p0.1, p0.2, p0.2)
    simp only at this
    rw [h] at this
    obtain ⟨⟨a1, a2, a3, a4⟩, hq⟩ := this
    intro p hp
    rcases List.mem_cons.mp hp with rfl | hp
    · exact ⟨a1, a2, a3, a4⟩
    · exact hq p hp

/-- what `mkIndex` returns -/
theorem mkIndex_ok (fl : α → Int) (bb : α × α × α × α) (res : Option (α × α)) (m : α) (ix : Index α)
    (h : mkIndex fl bb res m = .ok ix) :
    let xmin := bb.1 - m * (bb.2.1 - bb.1)
    let xmax := bb.2.1 + m * (bb.2.1 - bb.1)
    let ymin := bb.2.2.1 - m * (bb.2.2.2 - bb.2.2.1)
    let ymax := bb.2.2.2 + m * (bb.2.2.2 - bb.2.2.1)
    let ax := xmax - xmin
    let ay := ymax - ymin
    ix.xmin = xmin ∧ ix.xmax = xmax ∧ ix.ymin = ymin ∧ ix.ymax = ymax ∧ ix.csize ≠ 0 ∧ ix.lsize ≠ 0 ∧
    ix.dX = ax / ((ix.csize : Int) : α) ∧ ix.dY = ay / ((ix.lsize : Int) : α) ∧
    ix.grid = List.replicate ix.csize.toNat (List.replicate ix.lsize.toNat []) ∧ ix.inv = [] ∧
    (res = none → max ax ay / ((100 : Int) : α) ≠ 0 ∧
      ix.csize = max 1 (pyInt fl (ax / (max ax ay / ((100 : Int) : α)))) ∧
      ix.lsize = max 1 (pyInt fl (ay / (max ax ay / ((100 : Int) : α))))) ∧
    (∀ r, res = some r → r.1 ≠ 0 ∧ r.2 ≠ 0 ∧ ix.csize = pyInt fl (ax / r.1) ∧ ix.lsize = pyInt fl (ay / r.2)) := by
  intro xmin xmax ymin ymax ax ay
  unfold mkIndex at h
  simp only at h
  cases res with
  | none =>
    simp only at h
    split_ifs at h with hz
    · have hz' := hz
      simp only [Bool.not_eq_true] at hz'
      simp only at h
      split_ifs at h with c1 c2
      simp only [Except.ok.injEq] at h
      subst h
      simp only [beq_iff_eq] at c1 c2
      refine ⟨rfl, rfl, rfl, rfl, c1, c2, rfl, rfl, rfl, rfl, ?_, ?_⟩
      · intro _
        refine ⟨?_, ?_, ?_⟩
        · have := (isZero_false_iff _).mp hz'
          rw [pyMax_eq] at this
          simpa [xmin, xmax, ymin, ymax, ax, ay] using this
        · simp [pyMax_eq, xmin, xmax, ymin, ymax, ax, ay]
        · simp [pyMax_eq, xmin, xmax, ymin, ymax, ax, ay]
      · intro r hr; cases hr
  | some r =>
    simp only at h
    by_cases hz1 : isZero r.1 = true
    · simp [hz1] at h
    have hz1' : isZero r.1 = false := by simpa using hz1
    by_cases hz2 : isZero r.2 = true
    · simp [hz1', hz2] at h
    have hz2' : isZero r.2 = false := by simpa using hz2
    simp only [hz1', hz2', Bool.false_eq_true, ↓reduceIte] at h
    split_ifs at h with c1 c2
    simp only [Except.ok.injEq] at h
    subst h
    simp only [beq_iff_eq] at c1 c2
    refine ⟨rfl, rfl, rfl, rfl, c1, c2, rfl, rfl, rfl, rfl, ?_, ?_⟩
    · intro hr; cases hr
    · intro r' hr; cases hr
      exact ⟨(isZero_false_iff _).mp hz1', (isZero_false_iff _).mp hz2', rfl, rfl⟩

theorem mkIndex_wf (fl : α → Int) (bb : α × α × α × α) (res : Option (α × α)) (m : α) (ix : Index α)
    (h : mkIndex fl bb res m = .ok ix) : WF ix := by
  obtain ⟨_, _, _, _, _, _, _, _, hg, hi, _⟩ := mkIndex_ok fl bb res m ix h
  refine ⟨?_, ?_, ?_⟩
  · intro i j d hm; rw [hi] at hm; simp at hm
  · rw [hg]; simp
  · intro row hr; rw [hg] at hr
    rw [(List.mem_replicate.mp hr).2]; simp

theorem IsFloor.zero {fl : α → Int} (hf : IsFloor fl) : fl 0 = 0 :=
  hf.eq_of (by simp) (by simp)

/-- one axis of the constructor: with a non-negative extent `a`, a positive cell size `r` and a non-zero
count `int(a / r)`, the count and the resulting cell size `a / count` are positive -/
theorem axis_pos {fl : α → Int} (hf : IsFloor fl) (a r : α) (ha : 0 ≤ a) (hr : 0 < r)
    (hn : pyInt fl (a / r) ≠ 0) : 0 < pyInt fl (a / r) ∧ 0 < a / ((pyInt fl (a / r) : Int) : α) := by
  have hq : 0 ≤ a / r := div_nonneg ha (le_of_lt hr)
  have e : pyInt fl (a / r) = fl (a / r) := by
    unfold pyInt; rw [if_neg (not_lt.mpr hq)]
  rw [e] at hn ⊢
  have h0 : 0 ≤ fl (a / r) := by
    have := hf.mono hq
    rwa [hf.zero] at this
  have hpos : 0 < fl (a / r) := lt_of_le_of_ne h0 (Ne.symm hn)
  refine ⟨hpos, ?_⟩
  have hc : (0 : α) < ((fl (a / r) : Int) : α) := by exact_mod_cast hpos
  have h1 : (1 : α) ≤ ((fl (a / r) : Int) : α) := by exact_mod_cast (by omega : (1 : Int) ≤ fl (a / r))
  have h2 : (1 : α) ≤ a / r := le_trans h1 (hf _).1
  have h3 : r ≤ a := by
    rw [le_div_iff₀ hr] at h2; linarith
  exact div_pos (lt_of_lt_of_le hr h3) hc

/-- positivity of the grid dimensions, for a non-degenerate constructor call: with the default resolution both
are at least 1 (fix 9a44198), with an explicit positive cell size a non-zero count is positive -/
theorem mkIndex_pos {fl : α → Int} (hf : IsFloor fl) (bb : α × α × α × α) (res : Option (α × α)) (m : α) (ix : Index α)
    (h : mkIndex fl bb res m = .ok ix) (hm : 0 ≤ m) (hbx : bb.1 ≤ bb.2.1) (hby : bb.2.2.1 ≤ bb.2.2.2)
    (hres : ∀ r, res = some r → 0 < r.1 ∧ 0 < r.2) :
    0 < ix.csize ∧ 0 < ix.lsize := by
  obtain ⟨_, _, _, _, c1, c2, _, _, _, _, hnone, hsome⟩ := mkIndex_ok fl bb res m ix h
  have hax : 0 ≤ (bb.2.1 + m * (bb.2.1 - bb.1)) - (bb.1 - m * (bb.2.1 - bb.1)) := by
    have := mul_nonneg hm (sub_nonneg.mpr hbx); linarith
  have hay : 0 ≤ (bb.2.2.2 + m * (bb.2.2.2 - bb.2.2.1)) - (bb.2.2.1 - m * (bb.2.2.2 - bb.2.2.1)) := by
    have := mul_nonneg hm (sub_nonneg.mpr hby); linarith
  cases res with
  | none =>
    obtain ⟨_, ecs, els⟩ := hnone rfl
    rw [ecs, els]
    exact ⟨lt_of_lt_of_le Int.one_pos (le_max_left _ _), lt_of_lt_of_le Int.one_pos (le_max_left _ _)⟩
  | some r =>
    obtain ⟨_, _, ecs, els⟩ := hsome r rfl
    obtain ⟨hr1, hr2⟩ := hres r rfl
    rw [ecs] at c1
    rw [els] at c2
    obtain ⟨p1, _⟩ := axis_pos hf _ r.1 hax hr1 c1
    obtain ⟨q1, _⟩ := axis_pos hf _ r.2 hay hr2 c2
    exact ⟨by rw [ecs]; exact p1, by rw [els]; exact q1⟩

omit [IsStrictOrderedRing α] in
theorem isZero_true_iff (x : α) : isZero x = true ↔ x = 0 := by
  constructor
  · intro h
    by_contra hx
    rw [(isZero_false_iff x).mpr hx] at h
    cases h
  · intro h
    cases hz : isZero x with
    | true => rfl
    | false => exact absurd h ((isZero_false_iff x).mp hz)

/-- the default resolution after fix 9a44198: for `margin ≥ 0` and a bounding box that is not a single point,
`__init__` (up to the registration loop) does not raise, the grid has at least one column and one row, and a cell
side is positive on every axis along which the bounding box has a positive length. (Before the fix an extent
more than 100 times wider than tall, or the converse, raised ZeroDivisionError.) -/
theorem mkIndex_default (fl : α → Int) (bb : α × α × α × α) (m : α) (hm : 0 ≤ m)
    (hbx : bb.1 ≤ bb.2.1) (hby : bb.2.2.1 ≤ bb.2.2.2) (hne : bb.1 < bb.2.1 ∨ bb.2.2.1 < bb.2.2.2) :
    ∃ ix, mkIndex fl bb none m = .ok ix ∧ 1 ≤ ix.csize ∧ 1 ≤ ix.lsize ∧
      (bb.1 < bb.2.1 → 0 < ix.dX) ∧ (bb.2.2.1 < bb.2.2.2 → 0 < ix.dY) := by
  have hax : 0 ≤ (bb.2.1 + m * (bb.2.1 - bb.1)) - (bb.1 - m * (bb.2.1 - bb.1)) := by
    have := mul_nonneg hm (sub_nonneg.mpr hbx); linarith
  have hay : 0 ≤ (bb.2.2.2 + m * (bb.2.2.2 - bb.2.2.1)) - (bb.2.2.1 - m * (bb.2.2.2 - bb.2.2.1)) := by
    have := mul_nonneg hm (sub_nonneg.mpr hby); linarith
  have hax' : bb.1 < bb.2.1 → 0 < (bb.2.1 + m * (bb.2.1 - bb.1)) - (bb.1 - m * (bb.2.1 - bb.1)) := by
    intro h; have := mul_nonneg hm (sub_nonneg.mpr hbx); linarith
  have hay' : bb.2.2.1 < bb.2.2.2 → 0 < (bb.2.2.2 + m * (bb.2.2.2 - bb.2.2.1)) - (bb.2.2.1 - m * (bb.2.2.2 - bb.2.2.1)) := by
    intro h; have := mul_nonneg hm (sub_nonneg.mpr hby); linarith
  have hmax : 0 < max ((bb.2.1 + m * (bb.2.1 - bb.1)) - (bb.1 - m * (bb.2.1 - bb.1)))
      ((bb.2.2.2 + m * (bb.2.2.2 - bb.2.2.1)) - (bb.2.2.1 - m * (bb.2.2.2 - bb.2.2.1))) := by
    rcases hne with h | h
    · exact lt_of_lt_of_le (hax' h) (le_max_left _ _)
    · exact lt_of_lt_of_le (hay' h) (le_max_right _ _)
  cases h : mkIndex fl bb none m with
  | error e =>
    exfalso
    unfold mkIndex at h
    simp only at h
    split_ifs at h with hz
    · rw [isZero_true_iff, pyMax_eq] at hz
      have h100 : (((100 : Int) : α)) ≠ 0 := by norm_num
      rcases div_eq_zero_iff.mp hz with h0 | h0
      · exact absurd h0 (ne_of_gt hmax)
      · exact h100 h0
    · simp only at h
      split_ifs at h with c1 c2
      · simp only [beq_iff_eq] at c1; omega
      · simp only [beq_iff_eq] at c2; omega
  | ok ix =>
    obtain ⟨_, _, _, _, _, _, e7, e8, _, _, hnone, _⟩ := mkIndex_ok fl bb none m ix h
    obtain ⟨_, ecs, els⟩ := hnone rfl
    have h1 : 1 ≤ ix.csize := by rw [ecs]; exact le_max_left _ _
    have h2 : 1 ≤ ix.lsize := by rw [els]; exact le_max_left _ _
    refine ⟨ix, rfl, h1, h2, ?_, ?_⟩
    · intro hx
      rw [e7]
      exact div_pos (hax' hx) (by exact_mod_cast (by omega : 0 < ix.csize))
    · intro hy
      rw [e8]
      exact div_pos (hay' hy) (by exact_mod_cast (by omega : 0 < ix.lsize))

/-- with `margin ≥ 0` every point of the bounding box is inside the extent, so `__getCell` answers -/
theorem getCell_of_bbox (fl : α → Int) (bb : α × α × α × α) (res : Option (α × α)) (m : α) (ix : Index α)
    (h : mkIndex fl bb res m = .ok ix) (hm : 0 ≤ m) (p : α × α)
    (hp : bb.1 ≤ p.1 ∧ p.1 ≤ bb.2.1 ∧ bb.2.2.1 ≤ p.2 ∧ p.2 ≤ bb.2.2.2) : getCell ix p ≠ none := by
  obtain ⟨e1, e2, e3, e4, _⟩ := mkIndex_ok fl bb res m ix h
  obtain ⟨p1, p2, p3, p4⟩ := hp
  have hx := mul_nonneg hm (sub_nonneg.mpr (le_trans p1 p2))
  have hy := mul_nonneg hm (sub_nonneg.mpr (le_trans p3 p4))
  unfold getCell
  rw [e1, e2, e3, e4]
  rw [if_neg (by push Not; constructor <;> linarith), if_neg (by push Not; constructor <;> linarith)]
  simp

end TV.Grid
