import TracklibVerif.Lemmas.GridIndex
/-! The constructor of `Model/Grid.lean`: what `mkIndex` produces (extent, cell size, shape), the bounding box
contains every vertex, every vertex is inside the extent when `margin ≥ 0`, cell sizes are positive. -/
namespace TV.Grid
variable {α : Type} [Field α] [LinearOrder α] [IsStrictOrderedRing α]

omit [Field α] [IsStrictOrderedRing α] in
theorem pyMin_eq (a b : α) : pyMin a b = min a b := by
  unfold pyMin
  split_ifs with h
  · exact (min_eq_right (le_of_lt h)).symm
  · exact (min_eq_left (le_of_not_gt h)).symm

omit [Field α] [IsStrictOrderedRing α] in
theorem pyMax_eq (a b : α) : pyMax a b = max a b := by
  unfold pyMax
  split_ifs with h
  · exact (max_eq_right (le_of_lt h)).symm
  · exact (max_eq_left (le_of_not_gt h)).symm

omit [IsStrictOrderedRing α] in
theorem isZero_false_iff (x : α) : isZero x = false ↔ x ≠ 0 := by
  unfold isZero
  constructor
  · intro h hx
    subst hx
    simp at h
  · intro h
    rcases lt_or_gt_of_ne h with h' | h'
    · simp [h']
    · simp [h']

/-- invariant of the bbox fold -/
theorem bbox_fold (rest : List (α × α)) (bb0 : α × α × α × α) :
    let bb := rest.foldl (fun (bb : α × α × α × α) q =>
      (pyMin bb.1 q.1, pyMax bb.2.1 q.1, pyMin bb.2.2.1 q.2, pyMax bb.2.2.2 q.2)) bb0
    (bb.1 ≤ bb0.1 ∧ bb0.2.1 ≤ bb.2.1 ∧ bb.2.2.1 ≤ bb0.2.2.1 ∧ bb0.2.2.2 ≤ bb.2.2.2) ∧
    ∀ q ∈ rest, bb.1 ≤ q.1 ∧ q.1 ≤ bb.2.1 ∧ bb.2.2.1 ≤ q.2 ∧ q.2 ≤ bb.2.2.2 := by
  induction rest generalizing bb0 with
  | nil => simp
  | cons q rest ih =>
    simp only [List.foldl_cons]
    obtain ⟨⟨a1, a2, a3, a4⟩, hq⟩ := ih (pyMin bb0.1 q.1, pyMax bb0.2.1 q.1, pyMin bb0.2.2.1 q.2, pyMax bb0.2.2.2 q.2)
    simp only [pyMin_eq, pyMax_eq] at a1 a2 a3 a4 hq ⊢
    refine ⟨⟨le_trans a1 (min_le_left _ _), le_trans (le_max_left _ _) a2, le_trans a3 (min_le_left _ _),
      le_trans (le_max_left _ _) a4⟩, ?_⟩
    intro p hp
    rcases List.mem_cons.mp hp with rfl | hp
    · exact ⟨le_trans a1 (min_le_right _ _), le_trans (le_max_right _ _) a2, le_trans a3 (min_le_right _ _),
        le_trans (le_max_right _ _) a4⟩
    · exact hq p hp

/-- the bounding box contains every vertex -/
theorem bboxOf_bounds (pts : List (α × α)) (bb : α × α × α × α) (h : bboxOf pts = some bb) :
    ∀ p ∈ pts, bb.1 ≤ p.1 ∧ p.1 ≤ bb.2.1 ∧ bb.2.2.1 ≤ p.2 ∧ p.2 ≤ bb.2.2.2 := by
  cases pts with
  | nil => simp [bboxOf] at h
  | cons p0 rest =>
    simp only [bboxOf, Option.some.injEq] at h
    have := bbox_fold rest (p0.1, p0.1, p0.2, p0.2)
    simp only at this
    rw [h] at this
    obtain ⟨⟨a1, a2, a3, a4⟩, hq⟩ := this
    intro p hp
    rcases List.mem_cons.mp hp with rfl | hp
    · exact ⟨a1, a2, a3, a4⟩
    · exact hq p hp

omit [IsStrictOrderedRing α] in
theorem isZero_true_iff (x : α) : isZero x = true ↔ x = 0 := by
  constructor
  · intro h
    by_contra hx
    rw [(isZero_false_iff x).mpr hx] at h
    cases h
  · intro h
    cases hz : isZero x with
    | true => rfl
    | false => exact absurd h ((isZero_false_iff x).mp hz)

/-- what `mkIndex` returns -/
theorem mkIndex_ok (fl : α → Int) (bb : α × α × α × α) (res : Option (α × α)) (m : α) (ix : Index α)
    (h : mkIndex fl bb res m = .ok ix) :
    let xmin := bb.1 - m * (bb.2.1 - bb.1)
    let xmax := bb.2.1 + m * (bb.2.1 - bb.1)
    let ymin := bb.2.2.1 - m * (bb.2.2.2 - bb.2.2.1)
    let ymax := bb.2.2.2 + m * (bb.2.2.2 - bb.2.2.1)
    let ax := xmax - xmin
    let ay := ymax - ymin
    let r := reqSide ax ay res
    ix.xmin = xmin ∧ ix.xmax = xmax ∧ ix.ymin = ymin ∧ ix.ymax = ymax ∧ r.1 ≠ 0 ∧ r.2 ≠ 0 ∧
    ix.csize = max 1 (pyInt fl (ax / r.1)) ∧ ix.lsize = max 1 (pyInt fl (ay / r.2)) ∧
    ix.dX = (if 0 < ax then ax / ((ix.csize : Int) : α) else r.1) ∧
    ix.dY = (if 0 < ay then ay / ((ix.lsize : Int) : α) else r.2) ∧
    ix.grid = List.replicate ix.csize.toNat (List.replicate ix.lsize.toNat []) ∧ ix.inv = [] := by
  intro xmin xmax ymin ymax ax ay r
  unfold mkIndex at h
  simp only at h
  by_cases hz1 : isZero r.1 = true
  · simp [r, ax, ay, xmin, xmax, ymin, ymax] at hz1
    simp [hz1] at h
  have hz1' : isZero r.1 = false := by simpa using hz1
  by_cases hz2 : isZero r.2 = true
  · simp [r, ax, ay, xmin, xmax, ymin, ymax] at hz1' hz2
    simp [hz1', hz2] at h
  have hz2' : isZero r.2 = false := by simpa using hz2
  have k1 := hz1'
  have k2 := hz2'
  simp only [r, ax, ay, xmin, xmax, ymin, ymax] at k1 k2
  simp only [k1, k2, Bool.false_eq_true, ↓reduceIte, Except.ok.injEq] at h
  subst h
  exact ⟨rfl, rfl, rfl, rfl, (isZero_false_iff _).mp hz1', (isZero_false_iff _).mp hz2', rfl, rfl, rfl, rfl, rfl, rfl⟩

theorem mkIndex_wf (fl : α → Int) (bb : α × α × α × α) (res : Option (α × α)) (m : α) (ix : Index α)
    (h : mkIndex fl bb res m = .ok ix) : WF ix := by
  obtain ⟨_, _, _, _, _, _, _, _, _, _, hg, hi⟩ := mkIndex_ok fl bb res m ix h
  refine ⟨?_, ?_, ?_⟩
  · intro i j d hm; rw [hi] at hm; simp at hm
  · rw [hg]; simp
  · intro row hr; rw [hg] at hr
    rw [(List.mem_replicate.mp hr).2]; simp

theorem IsFloor.zero {fl : α → Int} (hf : IsFloor fl) : fl 0 = 0 :=
  hf.eq_of (by simp) (by simp)

/-- the cell size the constructor works with is positive: the explicit one by hypothesis, the default one because
it is `max(ax, ay) / 100` when that is positive and `1` otherwise -/
theorem reqSide_pos (ax ay : α) (res : Option (α × α)) (hres : ∀ r, res = some r → 0 < r.1 ∧ 0 < r.2) :
    0 < (reqSide ax ay res).1 ∧ 0 < (reqSide ax ay res).2 := by
  cases res with
  | some r => exact hres r rfl
  | none =>
    have h100 : (0 : α) < ((100 : Int) : α) := by norm_num
    have : 0 < (if 0 < pyMax ax ay then pyMax ax ay / ((100 : Int) : α) else ((1 : Int) : α)) := by
      split_ifs with h
      · exact div_pos h h100
      · norm_num
    exact ⟨this, this⟩

/-- one axis of the constructor, extent `a`, cell size `r > 0`, `n = max(1, int(a / r))` cells of side
`a / n` (or `r` when `a = 0`): the side is positive, the cells tile the axis exactly when it has a positive length,
and a zero-length axis has one cell -/
theorem axis_spec {fl : α → Int} (hf : IsFloor fl) (a r : α) (hr : 0 < r) :
    let n := max 1 (pyInt fl (a / r))
    let side := if 0 < a then a / ((n : Int) : α) else r
    0 < side ∧ (0 < a → side * ((n : Int) : α) = a) ∧ (a = 0 → n = 1) := by
  intro n side
  have hn1 : 1 ≤ n := le_max_left _ _
  have hn : (0 : α) < ((n : Int) : α) := by exact_mod_cast (by omega : 0 < n)
  refine ⟨?_, ?_, ?_⟩
  · simp only [side]
    split_ifs with h
    · exact div_pos h hn
    · exact hr
  · intro h
    simp only [side, if_pos h]
    exact div_mul_cancel₀ _ (ne_of_gt hn)
  · intro h
    simp only [n, h, zero_div]
    have : pyInt fl (0 : α) = 0 := by
      unfold pyInt; rw [if_neg (lt_irrefl _), hf.zero]
    rw [this]; rfl

/-- the constructor up to the registration loop never raises when the cell size is the default one or positive
(any bounding box — a single point, a flat one, one shorter than the cell size included): the grid has at least one
column and one row, both cell sides are positive, the cells tile every axis of positive length exactly and an axis
of zero length has one column / row. -/
theorem mkIndex_builds {fl : α → Int} (hf : IsFloor fl) (bb : α × α × α × α) (res : Option (α × α)) (m : α)
    (hres : ∀ r, res = some r → 0 < r.1 ∧ 0 < r.2) :
    ∃ ix, mkIndex fl bb res m = .ok ix ∧ 1 ≤ ix.csize ∧ 1 ≤ ix.lsize ∧ 0 < ix.dX ∧ 0 < ix.dY ∧
      (ix.xmin < ix.xmax → ix.dX * ((ix.csize : Int) : α) = ix.xmax - ix.xmin) ∧
      (ix.ymin < ix.ymax → ix.dY * ((ix.lsize : Int) : α) = ix.ymax - ix.ymin) ∧
      (ix.xmin = ix.xmax → ix.csize = 1) ∧ (ix.ymin = ix.ymax → ix.lsize = 1) := by
  obtain ⟨hr1, hr2⟩ := reqSide_pos ((bb.2.1 + m * (bb.2.1 - bb.1)) - (bb.1 - m * (bb.2.1 - bb.1)))
    ((bb.2.2.2 + m * (bb.2.2.2 - bb.2.2.1)) - (bb.2.2.1 - m * (bb.2.2.2 - bb.2.2.1))) res hres
  cases h : mkIndex fl bb res m with
  | error e =>
    exfalso
    unfold mkIndex at h
    simp only at h
    rw [(isZero_false_iff _).mpr (ne_of_gt hr1), (isZero_false_iff _).mpr (ne_of_gt hr2)] at h
    simp at h
  | ok ix =>
    obtain ⟨e1, e2, e3, e4, _, _, ecs, els, edx, edy, _, _⟩ := mkIndex_ok fl bb res m ix h
    obtain ⟨px, tx, ox⟩ := axis_spec hf _ _ hr1
    obtain ⟨py, ty, oy⟩ := axis_spec hf _ _ hr2
    rw [← ecs, ← edx] at px tx
    rw [← ecs] at ox
    rw [← els, ← edy] at py ty
    rw [← els] at oy
    refine ⟨ix, rfl, by rw [ecs]; exact le_max_left _ _, by rw [els]; exact le_max_left _ _, px, py, ?_, ?_, ?_, ?_⟩
    · intro hlt; rw [e1, e2] at hlt ⊢; exact tx (by linarith)
    · intro hlt; rw [e3, e4] at hlt ⊢; exact ty (by linarith)
    · intro heq; rw [e1, e2] at heq; exact ox (by rw [heq]; ring)
    · intro heq; rw [e3, e4] at heq; exact oy (by rw [heq]; ring)

/-- with `margin ≥ 0` every point of the bounding box is inside the extent, so `__getCell` answers -/
theorem getCell_of_bbox (fl : α → Int) (bb : α × α × α × α) (res : Option (α × α)) (m : α) (ix : Index α)
    (h : mkIndex fl bb res m = .ok ix) (hm : 0 ≤ m) (p : α × α)
    (hp : bb.1 ≤ p.1 ∧ p.1 ≤ bb.2.1 ∧ bb.2.2.1 ≤ p.2 ∧ p.2 ≤ bb.2.2.2) : getCell ix p ≠ none := by
  obtain ⟨e1, e2, e3, e4, _⟩ := mkIndex_ok fl bb res m ix h
  obtain ⟨p1, p2, p3, p4⟩ := hp
  have hx := mul_nonneg hm (sub_nonneg.mpr (le_trans p1 p2))
  have hy := mul_nonneg hm (sub_nonneg.mpr (le_trans p3 p4))
  unfold getCell
  rw [e1, e2, e3, e4]
  rw [if_neg (by push Not; constructor <;> linarith), if_neg (by push Not; constructor <;> linarith)]
  simp

end TV.Grid
