import TracklibVerif.Lemmas.ObsTimeG
import TracklibVerif.Lemmas.ObsTimeZone
/-! `ObsTime.readUnixTime` on a NEGATIVE number of seconds (an instant before 1970), in exact arithmetic.

The statement of C03 is about seconds since 1970; what this tree does before 1970 is nevertheless a definite
function, and the lemmas of this file say which one: the year loop and the month loop stop at once (1970, January),
and every `int()` of the function rounds TOWARD ZERO, so that the day, hour, minute, second and millisecond fields
are the *negated* day/hour/minute/second/millisecond decomposition of `|x|`.
`TruncNeg` is the contract of Python's `int()` on non-positive reals, the counterpart of `TruncZ`. -/

namespace TV.ObsTime

section
variable {α : Type} [Field α] [LinearOrder α] [IsStrictOrderedRing α]

/-- contract of Python's `int()` on non-positive reals: it rounds toward zero (`int(-0.5) = 0`, `int(-1.5) = -1`) -/
def TruncNeg (trunc : α → Int) : Prop :=
  ∀ x : α, x ≤ 0 → trunc x ≤ 0 ∧ x ≤ ((trunc x : Int) : α) ∧ ((trunc x : Int) : α) - 1 < x

/-- `y ↦ -int(-y)`: on non-negative reals it is the integer part when `int()` rounds toward zero -/
def mirror (trunc : α → Int) : α → Int := fun y => - trunc (-y)

theorem TruncNeg.mirrorZ {trunc : α → Int} (h : TruncNeg trunc) : TruncZ (mirror trunc) := by
  intro x hx
  obtain ⟨a, b, c⟩ := h (-x) (by linarith)
  refine ⟨by unfold mirror; omega, ?_, ?_⟩
  · simp only [mirror, Int.cast_neg]; linarith
  · simp only [mirror, Int.cast_neg]; linarith

omit [LinearOrder α] [IsStrictOrderedRing α] in
theorem trunc_neg (trunc : α → Int) (y : α) : trunc (-y) = -(mirror trunc y) := by simp [mirror]

/-- `int(0) = 0` -/
theorem TruncNeg.zero {trunc : α → Int} (h : TruncNeg trunc) : trunc 0 = 0 := by
  obtain ⟨a, b, -⟩ := h 0 (le_refl _)
  have : (0 : Int) ≤ trunc 0 := by exact_mod_cast b
  omega

/-- one "divide, truncate, subtract" step of `readUnixTime` on a non-positive remainder `-(r + f)`:
`k = int(e / c) = -(r // c)`, `e -= k * c` leaves `-(r mod c + f)` -/
theorem step_div_neg (trunc : α → Int) (htn : TruncNeg trunc) (r c : Nat) (hc : 0 < c) (f : α)
    (hf0 : 0 ≤ f) (hf1 : f < 1) :
    trunc ((-((r : α) + f)) / (((c : Nat) : Int) : α)) = -((r / c : Nat) : Int)
    ∧ (-((r : α) + f)) - ((((-((r / c : Nat) : Int)) * ((c : Nat) : Int)) : Int) : α)
        = -(((r - r / c * c : Nat) : α) + f) := by
  obtain ⟨a, -⟩ := step_div (mirror trunc) htn.mirrorZ r c hc f hf0 hf1
  constructor
  · rw [neg_div, trunc_neg trunc, a]
  · have hle : r / c * c ≤ r := Nat.div_mul_le_self r c
    rw [Nat.cast_sub hle]
    simp only [Int.cast_mul, Int.cast_neg, Int.cast_natCast, Nat.cast_mul]
    ring

end

section
variable {α : Type} [Add α] [Sub α] [Mul α] [Div α] [LT α] [DecidableLT α] [IntCast α]

omit [Add α] [Mul α] [Div α] in
/-- the year loop breaks in its first iteration when the test `elapsed_seconds - sec < sec_on_year` holds -/
theorem yearLoopG_break (e : α) (k y sec : Nat)
    (h : e - (((sec : Nat) : Int) : α) < (((yearDays y * 86400 : Nat) : Int) : α)) :
    yearLoopG e (k + 1) y sec = some (y, sec) := by
  unfold yearLoopG
  simp only [h, ↓reduceIte]

omit [Add α] [Mul α] [Div α] in
/-- the month loop breaks in its first iteration when `elapsed_seconds < sec_on_month` holds -/
theorem monthLoopG_break (y k m : Nat) (e : α)
    (h : e < (((monthDays y m * 86400 : Nat) : Int) : α)) :
    monthLoopG y (k + 1) m e = (m, e) := by
  unfold monthLoopG
  simp only [h, ↓reduceIte]
end

section
variable {α : Type} [Field α] [LinearOrder α] [IsStrictOrderedRing α]

/-- **`readUnixTime` before 1970, operation for operation, in exact arithmetic**: on `-(n + f)` (`n` whole, `0 ≤ f < 1`)
the function returns year 1970, month 1, `day = 1 − n div 86400` and the NEGATED hour / minute / second / millisecond
of `n + f`. -/
theorem readUnixG_neg_nat_add_frac (trunc : α → Int) (htn : TruncNeg trunc) (n : Nat) (f : α)
    (hf0 : 0 ≤ f) (hf1 : f < 1) :
    readUnixG trunc (-((n : α) + f))
      = some ⟨1970, 1, 1 - ((n / 86400 : Nat) : Int), -((n % 86400 / 3600 : Nat) : Int),
              -((n % 3600 / 60 : Nat) : Int), -((n % 60 : Nat) : Int), trunc (-(f * 1000))⟩ := by
  have hn : (0 : α) ≤ (n : α) := Nat.cast_nonneg n
  unfold readUnixG
  rw [yearLoopG_break (-((n : α) + f)) _ 1970 0 (by
    have : yearDays 1970 * 86400 = 31536000 := by decide
    rw [this]; simp only [Nat.cast_zero, Int.cast_zero, Nat.cast_ofNat, Int.cast_ofNat]
    have : (0 : α) < 31536000 := by norm_num
    linarith)]
  simp only [Nat.cast_zero, Int.cast_zero, sub_zero]
  rw [show (12 : Nat) = 11 + 1 from rfl, monthLoopG_break 1970 11 0 (-((n : α) + f)) (by
    have : monthDays 1970 0 * 86400 = 2678400 := by decide
    rw [this]; simp only [Nat.cast_ofNat, Int.cast_ofNat]
    have : (0 : α) < 2678400 := by norm_num
    linarith)]
  simp only
  -- day
  obtain ⟨d1, d2⟩ := step_div_neg trunc htn n 86400 (by decide) f hf0 hf1
  simp only [Nat.cast_ofNat] at d1 d2
  rw [d1]
  have ed : (-((n / 86400 : Nat) : Int) + 1 - 1) = -((n / 86400 : Nat) : Int) := by omega
  rw [ed, d2]
  -- hour
  obtain ⟨h1, h2⟩ := step_div_neg trunc htn (n - n / 86400 * 86400) 3600 (by decide) f hf0 hf1
  simp only [Nat.cast_ofNat] at h1 h2
  rw [h1, h2]
  -- minute
  obtain ⟨m1, m2⟩ := step_div_neg trunc htn
    (n - n / 86400 * 86400 - (n - n / 86400 * 86400) / 3600 * 3600) 60 (by decide) f hf0 hf1
  simp only [Nat.cast_ofNat] at m1 m2
  rw [m1, m2]
  -- second
  generalize hr : n - n / 86400 * 86400 - (n - n / 86400 * 86400) / 3600 * 3600
      - (n - n / 86400 * 86400 - (n - n / 86400 * 86400) / 3600 * 3600) / 60 * 60 = r
  have s1 : trunc (-((r : α) + f)) = -((r : Nat) : Int) := by
    rw [trunc_neg trunc, trunc_nat_add_frac (mirror trunc) htn.mirrorZ r f hf0 hf1]
  rw [s1]
  have es : -((r : α) + f) - (((-((r : Nat) : Int)) : Int) : α) = -f := by
    simp only [Int.cast_neg, Int.cast_natCast]; ring
  rw [es]
  -- millisecond, and the fields in `mod` form
  have e1 : (-((n / 86400 : Nat) : Int) + 1) = 1 - ((n / 86400 : Nat) : Int) := by omega
  have e2 : (n - n / 86400 * 86400) / 3600 = n % 86400 / 3600 := by omega
  have e3 : (n - n / 86400 * 86400 - (n - n / 86400 * 86400) / 3600 * 3600) / 60 = n % 3600 / 60 := by omega
  have e4 : r = n % 60 := by omega
  have e5 : -f * ((1000 : Int) : α) = -(f * 1000) := by simp only [Int.cast_ofNat]; ring
  rw [e1, e3, e2, e4, e5]

/-- the stamp this tree returns for an instant `n` whole seconds (and some milliseconds) before 1970 -/
def negStamp (n : Nat) (ms : Int) : StampZ :=
  ⟨1970, 1, 1 - ((n / 86400 : Nat) : Int), -((n % 86400 / 3600 : Nat) : Int),
   -((n % 3600 / 60 : Nat) : Int), -((n % 60 : Nat) : Int), ms⟩

/-- `toAbsTime()` of such a stamp, before the millisecond is added: exactly `-n` -/
theorem secondsZ_negStamp (n : Nat) (ms : Int) : secondsZ (negStamp n ms) = -(n : Int) := by
  simp only [secondsZ, negStamp, Nat.sub_self, daysBeforeYear, daysBeforeMonth]
  omega

/-- what `readUnixTime(x)` returns for `x ≤ 0` in exact arithmetic (specification of the reader before 1970):
with `n = -int(x)` whole seconds and `f = -x - n`, the stamp `negStamp n (int(-(1000 f)))` -/
def readUnixNegSpec (trunc : α → Int) (x : α) : StampZ :=
  negStamp (-(trunc x)).toNat (trunc (-((-x - (((-(trunc x)).toNat : Nat) : α)) * 1000)))

/-- whole seconds and fraction of `-x` for `x ≤ 0`, as `int()` delivers them -/
theorem neg_frac_bounds (trunc : α → Int) (htn : TruncNeg trunc) (x : α) (hx : x ≤ 0) :
    0 ≤ -x - (((-(trunc x)).toNat : Nat) : α) ∧ -x - (((-(trunc x)).toNat : Nat) : α) < 1 := by
  obtain ⟨h0, h1, h2⟩ := htn x hx
  have e : (((-(trunc x)).toNat : Nat) : α) = -((trunc x : Int) : α) := by
    rw [← Int.cast_natCast, Int.toNat_of_nonneg (by omega)]; simp
  rw [e]
  constructor <;> linarith

/-- the millisecond field before 1970: `ms = int(-(1000 f)) = -m` with `0 ≤ m ≤ 999`, `m ≤ 1000 f < m + 1` -/
theorem ms_neg_bounds (trunc : α → Int) (htn : TruncNeg trunc) (f : α) (hf0 : 0 ≤ f) (hf1 : f < 1) :
    ∃ m : Nat, trunc (-(f * 1000)) = -(m : Int) ∧ m < 1000 ∧ (m : α) ≤ f * 1000 ∧ f * 1000 < (m : α) + 1 := by
  obtain ⟨a, b, c⟩ := ms_bounds (mirror trunc) htn.mirrorZ f hf0 hf1
  have h0 : 0 ≤ mirror trunc (f * 1000) := (htn.mirrorZ (f * 1000) (by positivity)).1
  refine ⟨(mirror trunc (f * 1000)).toNat, ?_, a, b, c⟩
  rw [trunc_neg trunc, Int.toNat_of_nonneg h0]

end

/-- the stamp this tree returns for "the well-formed stamp `t` moved by `d` milliseconds" (`d` a whole number of seconds
in milliseconds), on BOTH sides of 1970: the integer model's stamp when the target is not before 1970, the negated
decomposition (`negStamp`) when it is -/
def shiftMsZ (t : Stamp) (d : Int) : StampZ :=
  if 0 ≤ (toAbsMs t : Int) + d then (readUnixMs ((toAbsMs t : Int) + d).toNat).toZ
  else negStamp ((-((toAbsMs t : Int) + d)).toNat / 1000) (-(((-((toAbsMs t : Int) + d)).toNat % 1000 : Nat) : Int))

end TV.ObsTime
