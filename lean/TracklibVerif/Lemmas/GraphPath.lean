import TracklibVerif.Lemmas.GraphTable
/-! Lemmas for C07: the predecessor structure (`antecedent`, `antecedent_edge`) left by the forward pass is
tight and well-founded; `run_routing_backward` walks it to the source and chains the edge polylines. -/
namespace TV.Graph
variable {W : Type} [LinearOrder W] [Add W] [Zero W] [WalkAdd W]

/-! ### what relaxation does to the predecessor pointers -/

theorem relaxOne_cases (u : Nat) (du : W) (st : St W) (e : Edge W) :
    relaxOne u du st e = st ∨
    (st.vis (other e u) = false ∧ (∀ y0, st.d (other e u) = some y0 → du + e.w < y0) ∧
      relaxOne u du st e = { st with d := fun z => if z = other e u then some (du + e.w) else st.d z,
                                     pred := fun z => if z = other e u then some (u, e.id) else st.pred z }) := by
  by_cases hv : st.vis (other e u) = true
  · left; simp [relaxOne, hv]
  · have hv' : st.vis (other e u) = false := by cases h : st.vis (other e u) <;> simp_all
    cases hd : st.d (other e u) with
    | none =>
      right
      refine ⟨hv', ?_, ?_⟩
      · intro y0 h; cases h
      · simp [relaxOne, hv', hd]
    | some y0 =>
      by_cases hlt : du + e.w < y0
      · right
        refine ⟨hv', ?_, ?_⟩
        · intro y1 h; cases h; exact hlt
        · simp [relaxOne, hv', hd, hlt]
      · left; simp [relaxOne, hv', hd, hlt]

theorem relaxOne_pred (u : Nat) (du : W) (st : St W) (e : Edge W) :
    (∀ z a i, (relaxOne u du st e).pred z = some (a, i) →
        (st.pred z = some (a, i) ∧ (relaxOne u du st e).d z = st.d z) ∨
        (a = u ∧ e.id = i ∧ other e u = z ∧ st.vis z = false ∧ (relaxOne u du st e).d z = some (du + e.w) ∧
          ∀ y0, st.d z = some y0 → du + e.w < y0)) ∧
    (∀ z, ((relaxOne u du st e).pred z).isSome = true ∨
        ((relaxOne u du st e).d z = st.d z ∧ (relaxOne u du st e).pred z = st.pred z)) ∧
    (∀ z, st.vis z = true → (relaxOne u du st e).pred z = st.pred z) := by
  rcases relaxOne_cases u du st e with h | ⟨hv, hlt, h⟩
  · rw [h]
    exact ⟨fun z a i hp => Or.inl ⟨hp, rfl⟩, fun z => Or.inr ⟨rfl, rfl⟩, fun _ _ => rfl⟩
  · rw [h]
    refine ⟨?_, ?_, ?_⟩
    · intro z a i hp
      by_cases hz : z = other e u
      · right
        simp only [hz, if_true, Option.some.injEq, Prod.mk.injEq] at hp
        obtain ⟨rfl, rfl⟩ := hp
        subst hz
        exact ⟨rfl, rfl, rfl, hv, by simp, hlt⟩
      · left
        simp only [hz, if_false] at hp
        exact ⟨hp, by simp [hz]⟩
    · intro z
      by_cases hz : z = other e u
      · left; simp [hz]
      · right; simp [hz]
    · intro z hzv
      have : z ≠ other e u := by intro h'; rw [h', hv] at hzv; cases hzv
      simp [this]

theorem relaxAll_pred (u : Nat) (du : W) (es : List (Edge W)) (st : St W) :
    (∀ z a i, (es.foldl (relaxOne u du) st).pred z = some (a, i) →
        (st.pred z = some (a, i) ∧ (es.foldl (relaxOne u du) st).d z = st.d z) ∨
        (a = u ∧ ∃ e ∈ es, e.id = i ∧ other e u = z ∧ st.vis z = false ∧
          (es.foldl (relaxOne u du) st).d z = some (du + e.w) ∧ ∀ y0, st.d z = some y0 → du + e.w < y0)) ∧
    (∀ z, ((es.foldl (relaxOne u du) st).pred z).isSome = true ∨
        ((es.foldl (relaxOne u du) st).d z = st.d z ∧ (es.foldl (relaxOne u du) st).pred z = st.pred z)) ∧
    (∀ z, st.vis z = true → (es.foldl (relaxOne u du) st).pred z = st.pred z) := by
  induction es generalizing st with
  | nil =>
    exact ⟨fun z a i hp => Or.inl ⟨hp, rfl⟩, fun z => Or.inr ⟨rfl, rfl⟩, fun _ _ => rfl⟩
  | cons e es ih =>
    simp only [List.foldl_cons]
    obtain ⟨a1, _, a3, _, _⟩ := relaxOne_spec u du st e
    obtain ⟨s2, s3, s4⟩ := relaxOne_pred u du st e
    obtain ⟨f2, f3, f4⟩ := ih (relaxOne u du st e)
    refine ⟨?_, ?_, ?_⟩
    · intro z a i hp
      rcases f2 z a i hp with ⟨h1, h2⟩ | ⟨rfl, e', he', h1, h2, h3, h4, h5⟩
      · rcases s2 z a i h1 with ⟨g1, g2⟩ | ⟨rfl, g1, g2, g3, g4, g5⟩
        · exact Or.inl ⟨g1, by rw [h2, g2]⟩
        · exact Or.inr ⟨rfl, e, List.mem_cons_self, g1, g2, g3, by rw [h2, g4], g5⟩
      · refine Or.inr ⟨rfl, e', List.mem_cons_of_mem _ he', h1, h2, by rw [← a1]; exact h3, h4, ?_⟩
        intro y0 hy0
        obtain ⟨y1, hy1, hle⟩ := a3 z y0 hy0
        exact lt_of_lt_of_le (h5 y1 hy1) hle
    · intro z
      rcases f3 z with h | ⟨h1, h2⟩
      · exact Or.inl h
      · rcases s3 z with g | ⟨g1, g2⟩
        · left; rw [h2]; exact g
        · right; exact ⟨by rw [h1, g1], by rw [h2, g2]⟩
    · intro z hz
      rw [f4 z (by rw [a1]; exact hz), s4 z hz]

/-- what settling `u` does to the predecessor pointers -/
theorem settle_pred (net : Net W) (st : St W) (u : Nat) (du : W) :
    (∀ z a i, (settle net st u du).pred z = some (a, i) →
        (st.pred z = some (a, i) ∧ (settle net st u du).d z = st.d z) ∨
        (a = u ∧ z ≠ u ∧ ∃ e ∈ nextEdges net u, e.id = i ∧ other e u = z ∧ st.vis z = false ∧
          (settle net st u du).d z = some (du + e.w) ∧ ∀ y0, st.d z = some y0 → du + e.w < y0)) ∧
    (∀ z, ((settle net st u du).pred z).isSome = true ∨
        ((settle net st u du).d z = st.d z ∧ (settle net st u du).pred z = st.pred z)) ∧
    (∀ z, (z = u ∨ st.vis z = true) → (settle net st u du).pred z = st.pred z) := by
  obtain ⟨f2, f3, f4⟩ := relaxAll_pred u du (nextEdges net u)
    { st with vis := fun z => if z = u then true else st.vis z }
  refine ⟨?_, ?_, ?_⟩
  · intro z a i hp
    rcases f2 z a i hp with h | ⟨rfl, e, he, h1, h2, h3, h4, h5⟩
    · exact Or.inl h
    · have hzu : z ≠ a := by
        intro h; simp [h] at h3
      refine Or.inr ⟨rfl, hzu, e, he, h1, h2, ?_, h4, h5⟩
      simpa [hzu] using h3
  · exact f3
  · intro z hz
    exact f4 z (by rcases hz with h | h <;> simp [h])

/-! ### the invariant on predecessors -/

/-- `rk` = settle order of the settled nodes, `K` = how many have been settled -/
structure PInv (net : Net W) (s : Nat) (st : St W) (rk : Nat → Nat) (K : Nat) : Prop where
  /-- the source has no predecessor -/
  p1 : st.pred s = none
  /-- a predecessor is a settled node, joined to `v` by the recorded edge in a permitted direction, and tight -/
  p2 : ∀ v a i, st.pred v = some (a, i) → a ≠ v ∧ st.vis a = true ∧ ∃ e ∈ nextEdges net a, e.id = i ∧ other e a = v ∧
        ∃ x, st.d a = some x ∧ st.d v = some (x + e.w)
  /-- every labelled node other than the source has a predecessor -/
  p3 : ∀ v y, v ≠ s → st.d v = some y → (st.pred v).isSome = true
  p4 : ∀ a, st.vis a = true → rk a < K
  p5 : ∀ v a i, st.pred v = some (a, i) → st.vis v = true → rk a < rk v
  p6 : K + cnt st net.n = net.n

theorem cnt_init (s : Nat) (k : Nat) : cnt (St.init s : St W) k = k := by
  induction k with
  | zero => rfl
  | succ k ih =>
    show cnt (St.init s : St W) k + (if (St.init s : St W).vis k then 0 else 1) = k + 1
    rw [ih]; simp [St.init]

theorem pinv_init (net : Net W) (s : Nat) : PInv net s (St.init s) (fun _ => 0) 0 := by
  refine ⟨rfl, ?_, ?_, ?_, ?_, ?_⟩
  · intro v a i h; simp [St.init] at h
  · intro v y hv h
    simp only [St.init] at h
    split at h
    · rename_i h'; exact absurd h' hv
    · cases h
  · intro a h; simp [St.init] at h
  · intro v a i h; simp [St.init] at h
  · rw [cnt_init]; omega

theorem settle_pinv (net : Net W) (hnet : WFNet net) (s : Nat) (st : St W) (rk : Nat → Nat) (K : Nat)
    (hinv : Inv net s st) (hp : PInv net s st rk K) (u : Nat) (du : W)
    (hpop : popMinAux st net.n = some (u, du)) :
    PInv net s (settle net st u du) (fun z => if z = u then K else rk z) (K + 1) := by
  obtain ⟨hu, huv, hud, _⟩ := popMin_facts hpop
  obtain ⟨s1, s2, _, _⟩ := settle_spec net st u du
  obtain ⟨q2, q3, q4⟩ := settle_pred net st u du
  have hinv' := settle_inv net hnet s st hinv u du hpop
  refine ⟨?_, ?_, ?_, ?_, ?_, ?_⟩
  · -- p1
    cases hps : (settle net st u du).pred s with
    | none => rfl
    | some p =>
      obtain ⟨a, i⟩ := p
      rcases q2 s a i hps with ⟨h, _⟩ | ⟨_, _, e, he, _, _, _, _, h5⟩
      · rw [hp.p1] at h; cases h
      · have hw : 0 ≤ e.w := by
          have : e ∈ net.edges := by simp only [nextEdges, List.mem_filter] at he; exact he.1
          exact (hnet e this).2.2
        have := h5 0 hinv.j1
        exact absurd (lt_of_le_of_lt (le_trans (hinv.j7 u du hud) (WalkAdd.le_add_right _ _ hw)) this) (lt_irrefl _)
  · -- p2
    intro v a i hpv
    rcases q2 v a i hpv with ⟨h, hd⟩ | ⟨rfl, hva, e, he, h1, h2, h3, h4, _⟩
    · obtain ⟨g0, g1, e, he, g2, g3, x, g4, g5⟩ := hp.p2 v a i h
      refine ⟨g0, by rw [s1]; split <;> simp [g1], e, he, g2, g3, x, ?_, ?_⟩
      · rw [s2 a (Or.inr g1)]; exact g4
      · rw [hd]; exact g5
    · refine ⟨fun h => hva h.symm, by rw [s1]; simp, e, he, h1, h2, du, ?_, h4⟩
      rw [s2 a (Or.inl rfl)]; exact hud
  · -- p3
    intro v y hvs hd
    rcases q3 v with h | ⟨h1, h2⟩
    · exact h
    · rw [h2]; rw [h1] at hd; exact hp.p3 v y hvs hd
  · -- p4
    intro a ha
    rw [s1] at ha
    by_cases hau : a = u
    · simp [hau]
    · simp only [hau, if_false] at ha ⊢
      have := hp.p4 a ha; omega
  · -- p5
    intro v a i hpv hvv
    rw [s1] at hvv
    by_cases hvu : v = u
    · subst hvu
      rw [q4 v (Or.inl rfl)] at hpv
      obtain ⟨g0, g1, _⟩ := hp.p2 v a i hpv
      have := hp.p4 a g1
      simp [g0, this]
    · simp only [hvu, if_false] at hvv
      rw [q4 v (Or.inr hvv)] at hpv
      obtain ⟨_, g1, _⟩ := hp.p2 v a i hpv
      have hau : a ≠ u := by intro h; rw [h, huv] at g1; cases g1
      simp only [hau, hvu, if_false]
      exact hp.p5 v a i hpv hvv
  · -- p6
    have := settle_cnt net st u du hpop
    have := hp.p6
    omega

/-- both invariants together, with the ranks hidden -/
def Good (net : Net W) (s : Nat) (st : St W) : Prop := Inv net s st ∧ ∃ rk K, PInv net s st rk K

theorem good_init (net : Net W) (s : Nat) (hs : s < net.n) : Good net s (St.init s) :=
  ⟨inv_init net s hs, _, _, pinv_init net s⟩

theorem forward_good (net : Net W) (hnet : WFNet net) (s : Nat) (tgt : Option Nat) (cut : Option W)
    (f : Nat) (st : St W) (out : List (Nat × W)) (h : Good net s st) : Good net s (forward net tgt cut f st out).1 :=
  forward_preserves net (Good net s)
    (fun st u du hg hpop => by
      obtain ⟨hi, rk, K, hpi⟩ := hg
      exact ⟨settle_inv net hnet s st hi u du hpop, _, _, settle_pinv net hnet s st rk K hi hpi u du hpop⟩)
    tgt cut f st out h
end TV.Graph
