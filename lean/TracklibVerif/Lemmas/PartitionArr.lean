import TracklibVerif.Model.PartitionArr
import TracklibVerif.Lemmas.PartitionTable
/-! The array form of `optimalPartition` equals the function-table form (core Lean only). -/
namespace TV.Partition
variable {α : Type}

/-- an `N × N` array -/
def WF {β : Type} (N : Nat) (T : Array (Array β)) : Prop :=
  T.size = N ∧ ∀ (i : Nat) (r : Array β), T[i]? = some r → r.size = N

theorem wf_mset {β : Type} (N : Nat) (T : Array (Array β)) (i j : Nat) (v : β) (h : WF N T) : WF N (mset T i j v) := by
  obtain ⟨h1, h2⟩ := h
  refine ⟨by simp [mset, h1], ?_⟩
  intro a r hr
  simp only [mset, Array.getElem?_modify] at hr
  by_cases hia : i = a
  · rw [if_pos hia] at hr
    cases hT : T[a]? with
    | none => rw [hT] at hr; cases hr
    | some r0 =>
      rw [hT] at hr
      simp only [Option.map_some, Option.some.injEq] at hr
      rw [← hr, Array.size_setIfInBounds]
      exact h2 a r0 hT
  · rw [if_neg hia] at hr; exact h2 a r hr

theorem mget_mset {β : Type} (d : β) (N : Nat) (T : Array (Array β)) (i j : Nat) (v : β) (h : WF N T)
    (hi : i < N) (hj : j < N) (a b : Nat) :
    mget d (mset T i j v) a b = if a = i ∧ b = j then v else mget d T a b := by
  obtain ⟨h1, h2⟩ := h
  simp only [mget, mset, Array.getElem?_modify]
  by_cases hia : i = a
  · subst hia
    have hlt : i < T.size := by omega
    rw [if_pos rfl, Array.getElem?_eq_getElem hlt]
    have hr : T[i].size = N := h2 i T[i] (Array.getElem?_eq_getElem hlt)
    simp only [Option.map_some, Array.getElem?_setIfInBounds]
    by_cases hjb : j = b
    · subst hjb
      simp [hr, hj]
    · have : ¬ (b = j) := fun h => hjb h.symm
      simp [hjb, this]
  · have : ¬ (a = i) := fun h => hia h.symm
    simp [hia, this]

theorem abs_mset {β : Type} (d : β) (N : Nat) (T : Array (Array β)) (i j : Nat) (v : β) (h : WF N T)
    (hi : i < N) (hj : j < N) : mget d (mset T i j v) = upd (mget d T) i j v := by
  funext a b
  exact mget_mset d N T i j v h hi hj a b

/-- abstraction: the arrays seen as functions of their two indices -/
def absT (zero : α) (t : TabsA α) : Tabs α := ⟨mget zero t.D, mget 0 t.M⟩

def WFt (N : Nat) (t : TabsA α) : Prop := WF N t.D ∧ WF N t.M

theorem loop_refine {σ τ : Type} (abs : σ → τ) (P : σ → Prop) (fA : Nat → σ → σ) (f : Nat → τ → τ) (lo n : Nat)
    (h : ∀ x s, lo ≤ x → x < lo + n → P s → abs (fA x s) = f x (abs s) ∧ P (fA x s)) (s : σ) (hs : P s) :
    abs (loop lo n fA s) = loop lo n f (abs s) ∧ P (loop lo n fA s) := by
  induction n with
  | zero => exact ⟨rfl, hs⟩
  | succ n ih =>
    obtain ⟨e, p⟩ := ih (fun x s h1 h2 => h x s h1 (by omega))
    simp only [loop]
    obtain ⟨e2, p2⟩ := h (lo + n) _ (by omega) (by omega) p
    exact ⟨by rw [e2, e], p2⟩

theorem init_refine (zero : α) (N : Nat) (C : Nat → Nat → α) :
    absT zero (initA zero N C) = init zero N C ∧ WFt N (initA zero N C) := by
  constructor
  · unfold absT initA init
    congr 1
    · funext a b
      simp only [mget, Array.getElem?_map, Array.getElem?_range]
      by_cases ha : a < N
      · by_cases hb : b < N
        · by_cases hab : a ≤ b <;> simp [ha, hb, hab]
        · simp [ha, hb]
      · have : ¬ (a ≤ b ∧ b < N) := by omega
        simp [ha, this]
    · funext a b
      simp only [mget, Array.getElem?_map, Array.getElem?_range]
      by_cases ha : a < N
      · by_cases hb : b < N
        · by_cases hab : a ≤ b <;> simp [ha, hb, hab]
        · simp [ha, hb]
      · have : ¬ (a ≤ b ∧ b < N) := by omega
        simp [ha, this]
  · constructor
    · refine ⟨by simp [initA], ?_⟩
      intro i r hr
      simp only [initA, Array.getElem?_map, Array.getElem?_range] at hr
      by_cases hi : i < N
      · simp [hi] at hr; rw [← hr]; simp
      · simp [hi] at hr
    · refine ⟨by simp [initA], ?_⟩
      intro i r hr
      simp only [initA, Array.getElem?_map, Array.getElem?_range] at hr
      by_cases hi : i < N
      · simp [hi] at hr; rw [← hr]; simp
      · simp [hi] at hr

variable [Add α] [LT α] [DecidableLT α]

theorem half_refine (zero : α) (N i j : Nat) (kk : Int) (v : α) (c : Prop) [Decidable c] (s : TabsA α)
    (h : WFt N s) (hi : i < N) (hj : j < N) :
    absT zero (if c then (⟨mset s.D i j v, mset s.M i j kk⟩ : TabsA α) else s) =
      (if c then (⟨upd (absT zero s).D i j v, upd (absT zero s).M i j kk⟩ : Tabs α) else absT zero s) ∧
    WFt N (if c then (⟨mset s.D i j v, mset s.M i j kk⟩ : TabsA α) else s) := by
  obtain ⟨hD, hM⟩ := h
  by_cases hc : c
  · simp only [if_pos hc]
    refine ⟨?_, wf_mset N _ i j _ hD, wf_mset N _ i j _ hM⟩
    simp only [absT, abs_mset zero N s.D i j v hD hi hj, abs_mset 0 N s.M i j kk hM hi hj]
  · constructor
    · rw [if_neg hc, if_neg hc]
    · rw [if_neg hc]; exact ⟨hD, hM⟩

/-- as for `stepK`: the two tests amount to the single strict test `better mode` -/
theorem stepKA_eq (zero : α) (mode i j k : Nat) (t : TabsA α) :
    stepKA zero mode i j k t =
      if better mode (mget zero t.D i k + mget zero t.D k j) (mget zero t.D i j) = true
      then ⟨mset t.D i j (mget zero t.D i k + mget zero t.D k j), mset t.M i j (k : Int)⟩ else t := by
  unfold stepKA better
  by_cases h0 : mode = 0
  · subst h0
    by_cases hlt : mget zero t.D i k + mget zero t.D k j < mget zero t.D i j <;> simp [hlt]
  · by_cases h1 : mode = 1
    · subst h1
      by_cases hgt : mget zero t.D i k + mget zero t.D k j > mget zero t.D i j <;> simp [hgt]
    · simp [h0, h1]

theorem stepK_refine (zero : α) (N mode i j k : Nat) (t : TabsA α) (h : WFt N t) (hi : i < N) (hj : j < N) :
    absT zero (stepKA zero mode i j k t) = stepK mode i j k (absT zero t) ∧ WFt N (stepKA zero mode i j k t) := by
  rw [stepKA_eq, stepK_eq]
  exact half_refine zero N i j (k : Int) (mget zero t.D i k + mget zero t.D k j)
    (better mode (mget zero t.D i k + mget zero t.D k j) (mget zero t.D i j) = true) t h hi hj

theorem fill_refine (zero : α) (mode N : Nat) (t : TabsA α) (h : WFt N t) :
    absT zero (fillA zero mode N t) = fill mode N (absT zero t) ∧ WFt N (fillA zero mode N t) := by
  unfold fillA fill
  apply loop_refine (absT zero) (WFt N)
  · intro diag s hd1 hd2 hs
    unfold diagLoopA diagLoop
    apply loop_refine (absT zero) (WFt N)
    · intro i s' _ hi2 hs'
      unfold cellLoopA cellLoop
      apply loop_refine (absT zero) (WFt N)
      · intro k s'' _ _ hs''
        exact stepK_refine zero N mode i (i + diag) k s'' hs'' (by omega) (by omega)
      · exact hs'
    · exact hs
  · exact h

/-- **array form = function-table form** -/
theorem tablesA_eq (zero : α) (rows : Nat) (C : Nat → Nat → α) (mode : Nat) :
    absT zero (tablesA zero rows C mode) = tables zero rows C mode := by
  unfold tablesA tables
  obtain ⟨e, w⟩ := init_refine zero (rows - 1) C
  rw [(fill_refine zero mode (rows - 1) _ w).1, e]

theorem optimalPartitionA_eq (zero : α) (rows : Nat) (C : Nat → Nat → α) (mode : Nat) :
    optimalPartitionA zero rows C mode = optimalPartition zero rows C mode := by
  unfold optimalPartitionA optimalPartition
  rw [← tablesA_eq zero rows C mode]
  rfl
end TV.Partition
