import TracklibVerif.Lemmas.ExprPre3
/-! # The rewriting chain of `Track.__evaluate` on printed source strings

`preprocess (lhs ++ '=' :: src e)` and `preprocess (src e)`, as exact equalities. -/
namespace TV.Expr
open TV.Rpn

/-- the middle string: calls already `f@(…)`, unary minus still `(-…)` -/
def mid (e : Sx) : Str := pr ['@', '('] [')'] ['(', '-'] e

/-- the rewriting chain, before the `#output = ` prefix -/
def rewr (e : Str) : Except Err Str := do
  let e := replace e [' '] []
  let e := specialOpChar e
  let e := convertReflexOperator e
  let e ← unaryOp e
  pure (funcAt e)

def outPrefix : Str := ['#', 'o', 'u', 't', 'p', 'u', 't', ' ', '=', ' ']

theorem preprocess_of_rewr {s r : Str} (h : rewr s = .ok r) :
    preprocess s = .ok (if contains ['='] r then r else outPrefix ++ r, contains ['='] r) := by
  simp only [rewr] at h
  simp only [preprocess]
  generalize unaryOp (convertReflexOperator (specialOpChar (replace s [' '] []))) = u at h ⊢
  cases u with
  | error x => cases h
  | ok v =>
    simp only [bind, Except.bind, pure, Except.pure] at h ⊢
    have hr := Except.ok.inj h
    subst hr
    rfl

theorem foldl_fix {β : Type} (g : Str → β → Str) (e : Str) : ∀ (L : List β), (∀ x ∈ L, g e x = e) → L.foldl g e = e
  | [], _ => rfl
  | x :: xs, h => by
    rw [List.foldl_cons, h x (by simp)]
    exact foldl_fix g e xs (fun y hy => h y (by simp [hy]))

theorem reflex_bad : ∀ op ∈ reflexOps, chn okp (op ++ ['=']) = false := by decide

theorem convertReflex_id {s : Str} (hs : chn okp s = true) : convertReflexOperator s = s := by
  unfold convertReflexOperator
  apply foldl_fix
  intro op hop
  have : contains (op ++ ['=']) s = false := contains_false_of_chn hs (reflex_bad op hop)
  simp only [this, Bool.false_eq_true, if_false]

theorem void_bad : ∀ f ∈ namesVoid, lastIn f ['+', '-', '*', '/', '^', '!', '>', '<', '%', '&', '$'] = false →
    chn okp (f ++ ['(']) = false := by decide

theorem nonvoid_bad : ∀ f ∈ namesNonVoid, lastIn f ['+', '-', '*', '/', '^'] = false →
    chn okp (f ++ ['(']) = false := by decide

theorem funcAt_id {s : Str} (hs : chn okp s = true) : funcAt s = s := by
  have h1 : namesVoid.foldl (fun e f =>
      if lastIn f ['+', '-', '*', '/', '^', '!', '>', '<', '%', '&', '$'] then e
      else replace e (f ++ ['(']) (f ++ ['@', '('])) s = s := by
    apply foldl_fix
    intro f hf
    cases hl : lastIn f ['+', '-', '*', '/', '^', '!', '>', '<', '%', '&', '$'] with
    | true => simp
    | false =>
      simp only [Bool.false_eq_true, if_false]
      exact replace_chn _ _ hs (void_bad f hf hl)
  have h2 : namesNonVoid.foldl (fun e f =>
      if lastIn f ['+', '-', '*', '/', '^'] then e else replace e (f ++ ['(']) (f ++ ['@', '('])) s = s := by
    apply foldl_fix
    intro f hf
    cases hl : lastIn f ['+', '-', '*', '/', '^'] with
    | true => simp
    | false =>
      simp only [Bool.false_eq_true, if_false]
      exact replace_chn _ _ hs (nonvoid_bad f hf hl)
  simp only [funcAt, h1, h2]

/-- what may stand in front of the printed expression: nothing, or `lhs=` -/
structure PreOK (pre : Str) : Prop where
  chn : ∀ X, Inv X → chn okp (pre ++ X) = true
  nosp : ' ' ∉ pre
  nolb : '{' ∉ pre
  norb : '}' ∉ pre
  nolp : '(' ∉ pre
  first : ∀ X, Inv X → ∃ c r, pre ++ X = c :: r ∧ c ≠ '-' ∧ c ≠ '+'

theorem preOK_nil : PreOK [] where
  chn := fun X h => h.chn
  nosp := by simp
  nolb := by simp
  norb := by simp
  nolp := by simp
  first := fun X h => by
    obtain ⟨c, hc, h1, h2⟩ := h.head
    cases X with
    | nil => simp at hc
    | cons d ds =>
      simp only [List.head?_cons, Option.some.injEq] at hc
      subst hc
      exact ⟨d, ds, rfl, h1, h2⟩

theorem okp_A_eq {x : Char} (hx : cls x = .A) : okp x '=' = true := by
  have : cls '=' = .O := by decide
  simp [okp, this, hx]

theorem name_not_mem {lhs : Str} (hl : NameOK lhs) {c : Char} (hc : achar c = false) : c ∉ lhs := by
  intro hm
  rw [hl.2 c hm] at hc
  cases hc

theorem preOK_lhs {lhs : Str} (hl : NameOK lhs) : PreOK (lhs ++ ['=']) where
  chn := fun X h => by
    obtain ⟨a, z, hseg, ha, hz⟩ := seg_atom lhs hl.1 (fun c hc => cls_achar (hl.2 c hc))
    obtain ⟨ax, zx, hx, hax, _⟩ := h
    rw [List.append_assoc]
    exact (Seg.append hseg (Seg.cons hx (okp_op_start (by decide) hax)) (okp_A_eq hz)).1
  nosp := by
    simp only [List.mem_append, List.mem_singleton, not_or]
    exact ⟨name_not_mem hl (by decide), by decide⟩
  nolb := by
    simp only [List.mem_append, List.mem_singleton, not_or]
    exact ⟨name_not_mem hl (by decide), by decide⟩
  norb := by
    simp only [List.mem_append, List.mem_singleton, not_or]
    exact ⟨name_not_mem hl (by decide), by decide⟩
  nolp := by
    simp only [List.mem_append, List.mem_singleton, not_or]
    exact ⟨name_not_mem hl (by decide), by decide⟩
  first := fun X _ => by
    cases lhs with
    | nil => exact absurd rfl hl.1
    | cons c r =>
      refine ⟨c, r ++ ['='] ++ X, by simp, ?_⟩
      exact startC_ne (Or.inl (cls_achar (hl.2 c (by simp))))

theorem src_no_space (e : Sx) (h : SrcOK e) : ' ' ∉ src e := by
  intro hm
  refine pr_all (fun c => c ≠ ' ') ⟨by decide, by decide⟩ (by decide) (by decide) (by decide) ?_ ?_ e h ' ' hm rfl
  · intro c hc e; subst e; revert hc; decide
  · intro o ho _ e; subst e; revert ho; decide

theorem tgt_no_eq (e : Sx) (h : SrcOK e) : '=' ∉ tgt e := by
  intro hm
  refine pr_all (fun c => c ≠ '=') ⟨by decide, by decide⟩ (by decide) (by decide) (by decide) ?_ ?_ e h '=' hm rfl
  · intro c hc e; subst e; revert hc; decide
  · intro o _ ho; exact ho

theorem special_src (pre : Str) (hp : PreOK pre) (e : Sx) (h : SrcOK e) :
    specialOpChar (pre ++ src e) = pre ++ mid e := by
  have c0 : chn okp (pre ++ src e) = true := hp.chn _ (pr_inv (Or.inl rfl) (Or.inl rfl) (Or.inl rfl) e h)
  have c1 : chn okp (pre ++ mid e) = true := hp.chn _ (pr_inv (Or.inr rfl) (Or.inr rfl) (Or.inl rfl) e h)
  have f1 : (pre ++ src e).flatMap (fm '{' ['@', '(']) = pre ++ pr ['@', '('] ['}'] ['(', '-'] e := by
    rw [List.flatMap_append, flatMap_fm_absent hp.nolb, src,
      pr_flatMap '{' _ (Or.inl rfl) _ _ _ (by decide) e h]
    rfl
  have f2 : (pre ++ pr ['@', '('] ['}'] ['(', '-'] e).flatMap (fm '}' [')']) = pre ++ mid e := by
    rw [List.flatMap_append, flatMap_fm_absent hp.norb,
      pr_flatMap '}' _ (Or.inr rfl) _ _ _ (by decide) e h]
    rfl
  simp only [specialOpChar]
  rw [replace_chn ['*', '*'] _ c0 (by decide), replace_chn ['.', '*'] _ c0 (by decide), replace_one (pre ++ src e), f1,
    replace_one, f2, replace_chn ['>', '>'] _ c1 (by decide), replace_chn ['<', '<'] _ c1 (by decide)]

theorem unary_mid (pre : Str) (hp : PreOK pre) (e : Sx) (h : SrcOK e) :
    unaryOp (pre ++ mid e) = .ok (pre ++ tgt e) := by
  have i1 := pr_inv (Or.inr rfl) (Or.inr rfl) (Or.inl rfl) e h
  have c1 : chn okp (pre ++ mid e) = true := hp.chn _ i1
  have c2 : chn okp (pre ++ tgt e) = true := hp.chn _ (pr_inv (Or.inr rfl) (Or.inr rfl) (Or.inr rfl) e h)
  have hr : rep2 '(' '-' ['(', '0', '-'] (pre ++ mid e) = pre ++ tgt e := by
    have hl : pre.getLast? ≠ some '(' := fun hl => hp.nolp (List.mem_of_getLast? hl)
    have := r2_app pre (mid e) (Or.inl hl)
    simp only [r2] at this
    rw [this, rep2_absent_left hp.nolp]
    exact congrArg _ (r2_mid e h)
  obtain ⟨c, r, hcr, h1, h2⟩ := hp.first _ i1
  have hb : (c == '-' || c == '+') = false := by simp [h1, h2]
  have hu : unaryOp (c :: r) = .ok (replace (replace (replace (replace (replace (replace (replace (replace (c :: r)
      ['=', '-'] ['=', '0', '-']) ['=', '+'] ['=', '0', '+']) ['(', '-'] ['(', '0', '-']) ['(', '+'] ['(', '0', '+'])
      ['-', '-'] ['+']) ['+', '+'] ['+']) ['+', '-'] ['-']) ['-', '+'] ['-']) := by
    simp only [unaryOp, hb, Bool.false_eq_true, if_false]
  show unaryOp (pre ++ pr ['@', '('] [')'] ['(', '-'] e) = _
  rw [show pre ++ pr ['@', '('] [')'] ['(', '-'] e = c :: r from hcr, hu, ← hcr]
  show Except.ok (replace (replace (replace (replace (replace (replace (replace (replace (pre ++ mid e)
      ['=', '-'] ['=', '0', '-']) ['=', '+'] ['=', '0', '+']) ['(', '-'] ['(', '0', '-']) ['(', '+'] ['(', '0', '+'])
      ['-', '-'] ['+']) ['+', '+'] ['+']) ['+', '-'] ['-']) ['-', '+'] ['-']) = _
  rw [replace_chn ['=', '-'] _ c1 (by decide), replace_chn ['=', '+'] _ c1 (by decide), replace_two (pre ++ mid e), hr,
    replace_chn ['(', '+'] _ c2 (by decide), replace_chn ['-', '-'] _ c2 (by decide),
    replace_chn ['+', '+'] _ c2 (by decide), replace_chn ['+', '-'] _ c2 (by decide),
    replace_chn ['-', '+'] _ c2 (by decide)]

/-- the whole chain on `pre ++ src e` -/
theorem rewr_src (pre : Str) (hp : PreOK pre) (e : Sx) (h : SrcOK e) : rewr (pre ++ src e) = .ok (pre ++ tgt e) := by
  have i1 := pr_inv (Or.inr rfl) (Or.inr rfl) (Or.inl rfl) e h
  have c1 : chn okp (pre ++ mid e) = true := hp.chn _ i1
  have c2 : chn okp (pre ++ tgt e) = true := hp.chn _ (pr_inv (Or.inr rfl) (Or.inr rfl) (Or.inr rfl) e h)
  have s1 : replace (pre ++ src e) [' '] [] = pre ++ src e := by
    apply replace_absent
    apply contains_single_false
    simp only [List.mem_append, not_or]
    exact ⟨hp.nosp, src_no_space e h⟩
  simp only [rewr, s1, special_src pre hp e h, convertReflex_id c1, unary_mid pre hp e h, bind, Except.bind,
    funcAt_id c2, pure, Except.pure]

theorem pyLvl_eq0 : pyLvl '=' = 0 := by decide

theorem pyLvl_zero {o : Char} (h : pyLvl o = 0) : o = '=' := by
  by_cases ho : o = '='
  · exact ho
  · exfalso
    simp only [pyLvl, ho, if_false] at h
    repeat' split at h
    all_goals omega

theorem slv_ne_zero (e : Sx) (h : SrcOK e) : slv e ≠ 0 := by
  cases e with
  | bin o l r => exact fun h0 => h.1.2 (pyLvl_zero h0)
  | _ => simp [slv]

/-- **`lhs=e`**: the rewriting chain maps the source string exactly to the printed parser tree -/
theorem preprocess_assign (lhs : Str) (e : Sx) (hl : NameOK lhs) (h : SrcOK e) :
    preprocess (lhs ++ '=' :: src e)
      = .ok (flat (shw pyLvl 9 (.bin '=' (.atom (String.ofList lhs)) (toE' e))), true) := by
  have hr := rewr_src (lhs ++ ['=']) (preOK_lhs hl) e h
  have hc : contains ['='] (lhs ++ ['='] ++ tgt e) = true := contains_single_true (by simp)
  have hs : lhs ++ '=' :: src e = lhs ++ ['='] ++ src e := by simp
  rw [hs, preprocess_of_rewr hr, hc]
  have hz : decide (slv e ≤ pyLvl '=') = false := by
    rw [pyLvl_eq0]; simp only [Nat.le_zero_eq, decide_eq_false_iff_not]; exact slv_ne_zero e h
  simp only [if_true, shw, lv_toE', hz]
  simp only [lv, pyLvl_eq0, wrap, flat_append, flat, tgt_eq]
  simp [flat]

/-- **no `=`**: the rewritten string is the printed parser tree behind the prefix `#output = ` -/
theorem preprocess_value (e : Sx) (h : SrcOK e) :
    preprocess (src e) = .ok ("#output = ".toList ++ flat (shw pyLvl 9 (toE' e)), false) := by
  have hr := rewr_src [] preOK_nil e h
  simp only [List.nil_append] at hr
  have hc : contains ['='] (tgt e) = false := contains_single_false (tgt_no_eq e h)
  rw [preprocess_of_rewr hr, hc, tgt_eq]
  rfl

end TV.Expr
