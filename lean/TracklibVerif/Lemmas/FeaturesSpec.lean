import TracklibVerif.Lemmas.FeaturesEval
/-! Facts about the specification table (`ATab`): what is read after each primitive write, and the purge of
the evaluator's temporaries. They are transported to the code's table through the simulation. -/
set_option linter.unusedSectionVars false
namespace TV.Features
variable {V : Type} [Inhabited V] {n : Nat}

def anames (a : ATab V) : List String := a.cols.map Prod.fst

theorem names_abs (st : St V) : anames (abs st) = names st := by simp [anames, abs, names]

theorem lookup_isSome_of_mem (cols : List (String × List V)) (nm : String) (h : nm ∈ cols.map Prod.fst) :
    (lookup cols nm).isSome = true := by
  induction cols with
  | nil => simp at h
  | cons p t ih =>
    unfold lookup at ih ⊢
    simp only [List.find?_cons]
    by_cases hp : (p.1 == nm) = true
    · simp [hp]
    · simp only [hp]
      apply ih
      simp only [List.map_cons, List.mem_cons] at h
      rcases h with h | h
      · exact absurd (by simp [h]) hp
      · exact h

theorem lookup_filter_ne (cols : List (String × List V)) (nm m : String) (hne : m ≠ nm) :
    lookup (cols.filter (fun p => !(p.1 == nm))) m = lookup cols m := by
  induction cols with
  | nil => rfl
  | cons p t ih =>
    unfold lookup at ih ⊢
    by_cases hp : (p.1 == nm) = true
    · have hm : (p.1 == m) = false := by
        have : p.1 = nm := by simpa using hp
        simp [this, Ne.symm hne]
      simp only [List.filter_cons, hp, Bool.not_true, Bool.false_eq_true, if_false, List.find?_cons, hm]
      exact ih
    · simp only [List.filter_cons, hp, Bool.not_false, if_true, List.find?_cons]
      by_cases hm : (p.1 == m) = true
      · simp [hm]
      · simp only [hm]; exact ih

theorem lookup_filter_self (cols : List (String × List V)) (nm : String) :
    lookup (cols.filter (fun p => !(p.1 == nm))) nm = none := by
  induction cols with
  | nil => rfl
  | cons p t ih =>
    unfold lookup at ih ⊢
    by_cases hp : (p.1 == nm) = true
    · simp only [List.filter_cons, hp, Bool.not_true, Bool.false_eq_true, if_false]; exact ih
    · simp only [List.filter_cons, hp, Bool.not_false, if_true, List.find?_cons]; exact ih

theorem lookup_append_new (cols : List (String × List V)) (nm m : String) (c : List V)
    (hnew : lookup cols nm = none) :
    lookup (cols ++ [(nm, c)]) m = if m = nm then some c else lookup cols m := by
  induction cols with
  | nil =>
    unfold lookup
    by_cases h : m = nm
    · simp [h]
    · have : (nm == m) = false := by simp [Ne.symm h]
      simp [h, this]
  | cons p t ih =>
    unfold lookup at ih hnew ⊢
    simp only [List.cons_append, List.find?_cons] at hnew ⊢
    by_cases hp : (p.1 == nm) = true
    · simp [hp] at hnew
    · simp only [hp] at hnew
      by_cases hm : (p.1 == m) = true
      · have : ¬ m = nm := by
          intro e; subst e; exact hp hm
        simp [hm, this]
      · simp only [hm]
        exact ih hnew

theorem lookup_replaceCol (cols : List (String × List V)) (nm m : String) (c : List V) :
    lookup (replaceCol cols nm c) m = if m = nm then (lookup cols nm).map (fun _ => c) else lookup cols m := by
  induction cols with
  | nil => unfold lookup replaceCol; simp
  | cons p t ih =>
    unfold lookup replaceCol at ih ⊢
    simp only [List.map_cons, List.find?_cons]
    by_cases hp : (p.1 == nm) = true
    · have e : p.1 = nm := by simpa using hp
      by_cases hm : m = nm
      · subst hm; simp [hp]
      · have : (p.1 == m) = false := by simp [e, Ne.symm hm]
        simp only [hp, if_true, this, hm, if_false]
        simp only [hm, if_false] at ih
        exact ih
    · by_cases hm : m = nm
      · subst hm
        simp only [hp, Bool.false_eq_true, if_false, if_true]
        simp only [if_true] at ih
        exact ih
      · simp only [hp, Bool.false_eq_true, if_false, hm]
        simp only [hm, if_false] at ih
        by_cases hq : (p.1 == m) = true
        · simp [hq]
        · simp only [hq]; exact ih

/-! ### the purge of `operate(str)` on the specification table -/

theorem removeA_mem (a : ATab V) (nm : String) (h : nm ∈ anames a) :
    removeA nm a = (.ok (), { a with cols := a.cols.filter (fun p => !(p.1 == nm)) }) := by
  have hs := lookup_isSome_of_mem a.cols nm h
  unfold removeA hasA
  simp only [hs, Bool.true_or, Bool.not_true, Bool.false_eq_true, if_false]
  cases hl : lookup a.cols nm with
  | none => rw [hl] at hs; cases hs
  | some c => rfl

theorem purge_loop (l : List String) (a : ATab V) (hnd : l.Nodup)
    (hmem : ∀ x ∈ l, isHash x = true → x ∈ anames a) :
    M.forEach l (fun af => if isHash af = true then removeA af else (pure () : M (ATab V) Unit)) a
      = (.ok (), { a with cols := a.cols.filter (fun p => !(isHash p.1 && l.contains p.1)) }) := by
  induction l generalizing a with
  | nil =>
    have : a.cols.filter (fun p => !(isHash p.1 && ([] : List String).contains p.1)) = a.cols := by
      apply List.filter_eq_self.mpr; intro p _; simp
    simp only [M.forEach, this]; rfl
  | cons x t ih =>
    have hnd' := List.nodup_cons.mp hnd
    unfold M.forEach
    show M.bind _ _ a = _
    unfold M.bind
    by_cases hx : isHash x = true
    · simp only [hx, if_true]
      rw [removeA_mem a x (hmem x (by simp) hx)]
      simp only
      rw [ih _ hnd'.2]
      · congr 2
        rw [List.filter_filter]
        apply List.filter_congr
        intro p _
        by_cases hp : (p.1 == x) = true
        · have : p.1 = x := by simpa using hp
          simp [this, hx]
        · have : ¬ p.1 = x := by simpa using hp
          simp [hp, this]
      · intro y hy hhy
        have := hmem y (by simp [hy]) hhy
        have hne : y ≠ x := fun e => hnd'.1 (e ▸ hy)
        simp only [anames, List.mem_map] at this ⊢
        obtain ⟨p, hp, rfl⟩ := this
        exact ⟨p, List.mem_filter.mpr ⟨hp, by simpa using hne⟩, rfl⟩
    · simp only [hx, Bool.false_eq_true, if_false]
      show (match (M.pure () : M (ATab V) Unit) a with
        | (.ok u, s') => M.forEach t _ s'
        | (.error e, s') => (.error e, s')) = _
      simp only [M.pure]
      rw [ih _ hnd'.2 (fun y hy => hmem y (by simp [hy]))]
      congr 2
      apply List.filter_congr
      intro p _
      by_cases hp : p.1 = x
      · have hxf : isHash x = false := by simpa using hx
        simp [hp, hxf]
      · simp [hp]

/-- on a table whose names are distinct the purge never fails and removes exactly the `#` names -/
theorem purge_spec (a : ATab V) (hnd : (anames a).Nodup) :
    purge (σ := ATab V) a = (.ok (), { a with cols := a.cols.filter (fun p => !isHash p.1) }) := by
  unfold purge
  show M.bind (fun a => (Except.ok (a.cols.map Prod.fst), a)) _ a = _
  unfold M.bind
  simp only
  have := purge_loop (anames a) a hnd (fun x hx _ => hx)
  unfold anames at this
  refine Eq.trans this ?_
  congr 2
  apply List.filter_congr
  intro p hp
  have : (List.map Prod.fst a.cols).contains p.1 = true := by
    simp only [List.contains_iff_mem]; exact List.mem_map_of_mem hp
  rw [this, Bool.and_true]

theorem tryFinally_snd {σ α : Type} (m : M σ α) (fin : M σ Unit) (s : σ) :
    (M.tryFinally m fin s).2 = (fin (m s).2).2 := by
  unfold M.tryFinally
  cases m s with
  | mk r s' =>
    simp only
    cases fin s' with
    | mk r2 s'' => cases r2 <;> rfl

/-! ### reading the specification table after a write -/

/-- what `getAnalyticalFeature(m)` returns (outcome and column) -/
def aread (o : Ops V) (a : ATab V) (m : String) : Except Err (List V) := (getA o m a).1
def read (o : Ops V) (st : St V) (m : String) : Except Err (List V) := (getC o m st).1

theorem read_abs (o : Ops V) {st : St V} (h : Inv n st) (m : String) : read o st m = aread o (abs st) m := by
  have := (sim_get o m st h).2.1
  unfold read aread
  rw [this]

theorem aread_congr (o : Ops V) (a a' : ATab V) (m : String) (hx : a'.xs = a.xs) (hy : a'.ys = a.ys)
    (hz : a'.zs = a.zs) (ht : a'.ts = a.ts) (hl : lookup a'.cols m = lookup a.cols m) :
    aread o a' m = aread o a m := by
  unfold aread getA
  cases hc : coord? m with
  | some c => cases c <;> simp [ATab.coord, hx, hy, hz, ht]
  | none => simp only [ATab.size, hx, hl]; split <;> (try split) <;> (try split) <;> rfl

theorem coord?_of_not_reserved {m : String} (h : reserved m = false) :
    coord? m = none ∧ (m == "timestamp") = false ∧ (m == "idx") = false := by
  unfold reserved at h
  simp only [Bool.or_eq_false_iff] at h
  obtain ⟨⟨⟨⟨⟨hx, hy⟩, hz⟩, ht⟩, hts⟩, hi⟩ := h
  unfold coord?
  simp [hx, hy, hz, ht, hts, hi]

/-- for a name that is not one of the virtual features, reading is the lookup -/
theorem aread_feature (o : Ops V) (a : ATab V) {m : String} (h : reserved m = false) :
    aread o a m = match lookup a.cols m with
      | none => .error .unknown
      | some c => .ok c := by
  obtain ⟨h1, h2, h3⟩ := coord?_of_not_reserved h
  unfold aread getA
  simp only [h1, h2, h3, Bool.false_eq_true, if_false]
  cases lookup a.cols m <;> rfl

/-- the column a successful create / bracket assignment writes -/
def initCol (k : Nat) : Init V → List V
  | .scalar v => List.replicate k v
  | .list l => l.take k

theorem createA_new (a : ATab V) (nm : String) (init : Init V) (hr : reserved nm = false) (hs : a.size ≠ 0)
    (hnew : lookup a.cols nm = none)
    (hok : match init with | .scalar _ => True | .list l => a.size ≤ l.length) :
    createA nm init a = (.ok (), { a with cols := a.cols ++ [(nm, initCol a.size init)] }) := by
  unfold createA hasA
  have hs' : (a.size == 0) = false := by simpa using hs
  simp only [hr, hs', hnew, Option.isSome_none, Bool.or_false, Bool.false_eq_true, if_false]
  cases init with
  | scalar v => rfl
  | list l =>
    simp only at hok
    have : ¬ l.length < a.size := by omega
    simp only [this, if_false, initCol]

theorem createA_existing (a : ATab V) (nm : String) (init : Init V) (hr : reserved nm = false) (hs : a.size ≠ 0)
    (hex : (lookup a.cols nm).isSome = true) : createA nm init a = (.ok (), a) := by
  unfold createA hasA
  have hs' : (a.size == 0) = false := by simpa using hs
  simp only [hr, hs', hex, Bool.or_false, Bool.false_eq_true, if_false, if_true]

/-- the column a successful update leaves -/
def updCol (init : Init V) (col : List V) : List V :=
  match init with
  | .scalar v => List.replicate col.length v
  | .list l => overwrite l col

theorem updateA_ok (a : ATab V) (nm : String) (init : Init V) (col : List V) (hs : a.size ≠ 0)
    (hl : lookup a.cols nm = some col)
    (hok : match init with | .scalar _ => True | .list l => a.size ≤ l.length) :
    updateA nm init a = (.ok (), { a with cols := replaceCol a.cols nm (updCol init col) }) := by
  unfold updateA hasA
  have hs' : (a.size == 0) = false := by simpa using hs
  simp only [hl, Option.isSome_some, Bool.true_or, Bool.not_true, Bool.false_eq_true, if_false, hs']
  cases init with
  | scalar v => rfl
  | list l =>
    simp only at hok
    have : ¬ l.length < a.size := by omega
    simp only [this, if_false]
    rfl

theorem setObsA_ok (a : ATab V) (nm : String) (i : Nat) (v : V) (col : List V) (hr : reserved nm = false)
    (hl : lookup a.cols nm = some col) (hi : i < col.length) :
    setObsA nm i v a = (.ok (), { a with cols := replaceCol a.cols nm (col.set i v) }) := by
  unfold reserved at hr
  simp only [Bool.or_eq_false_iff] at hr
  obtain ⟨⟨⟨⟨⟨hx, hy⟩, hz⟩, _⟩, _⟩, _⟩ := hr
  unfold setObsA
  simp only [hx, hy, hz, Bool.or_false, Bool.false_eq_true, if_false, hl, hi, if_true]

theorem removeA_ok (a : ATab V) (nm : String) (h : (lookup a.cols nm).isSome = true) :
    removeA nm a = (.ok (), { a with cols := a.cols.filter (fun p => !(p.1 == nm)) }) := by
  unfold removeA hasA
  simp only [h, Bool.true_or, Bool.not_true, Bool.false_eq_true, if_false]
  cases hl : lookup a.cols nm with
  | none => rw [hl] at h; cases h
  | some c => rfl

theorem find_none_of_not_mem (d : List (String × Nat)) (nm : String) (h : nm ∉ d.map Prod.fst) : find d nm = none := by
  induction d with
  | nil => rfl
  | cons p t ih =>
    unfold find at ih ⊢
    simp only [List.map_cons, List.mem_cons, not_or] at h
    have : (p.1 == nm) = false := by
      have := h.1
      simp [Ne.symm this]
    simp only [List.find?_cons, this]
    exact ih h.2

theorem find_isSome_of_mem (d : List (String × Nat)) (nm : String) (h : nm ∈ d.map Prod.fst) : (find d nm).isSome = true := by
  induction d with
  | nil => simp at h
  | cons p t ih =>
    unfold find at ih ⊢
    simp only [List.find?_cons]
    by_cases hp : (p.1 == nm) = true
    · simp [hp]
    · simp only [hp]
      apply ih
      simp only [List.map_cons, List.mem_cons] at h
      rcases h with h | h
      · exact absurd (by simp [h]) hp
      · exact h

/-- the second component of a simulation step, as an equation between tables -/
theorem sim_snd {α : Type} {P : α → Prop} {m : M (St V) α} {ma : M (ATab V) α} (hs : Sim n P m ma)
    {st : St V} (h : Inv n st) : (ma (abs st)).1 = (m st).1 ∧ (ma (abs st)).2 = abs (m st).2 := by
  have := (hs st h).2.1
  rw [this]; exact ⟨rfl, rfl⟩

end TV.Features
