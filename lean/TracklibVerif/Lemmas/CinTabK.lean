import TracklibVerif.Model.CinematicsTabK
import TracklibVerif.Lemmas.CinTabProg
import TracklibVerif.Lemmas.CinTabGeom
import TracklibVerif.Lemmas.CinTabZone
/-! The class-dispatching programs of `Model/CinematicsTabK.lean` proved from the laws of a feature table
(`CinTab.Laws`), once for every representation and every kernel; and, on the world of shared observations, that they
write no position / stamp (`Keeps`) and do not read the zone fields (`Blind`). -/
namespace TV.CinTabK
open TV.Features TV.CinTab

section laws
variable {σ V : Type} [Tbl σ V]
variable {I : σ → Prop} {n : σ → Nat} {rd : σ → String → Option (List V)} {co : σ → Coord → List V}

/-- the coordinates of fixes `i` and `j` as a function of the coordinate columns -/
def ptsF (X Y Z : List V) (i j : Nat) : Option (V × V × V × V × V × V) :=
  match X[i]?, Y[i]?, Z[i]?, X[j]?, Y[j]?, Z[j]? with
  | some xi, some yi, some zi, some xj, some yj, some zj => some (xi, yi, zi, xj, yj, zj)
  | _, _, _, _, _, _ => none

theorem fetch2_read (L : Laws I n rd co) (g : GOps V) (s : σ) (hI : I s) (i j : Nat) (hi : i < n s) (hj : j < n s) :
    ∃ p, ptsF (co s .x) (co s .y) (co s .z) i j = some p ∧ (fetch2 g i j : M σ _) s = (.ok p, s) := by
  obtain ⟨xi, h1, e1⟩ := getObs_co L g.toOps s hI .x i hi
  obtain ⟨yi, h2, e2⟩ := getObs_co L g.toOps s hI .y i hi
  obtain ⟨zi, h3, e3⟩ := getObs_co L g.toOps s hI .z i hi
  obtain ⟨xj, h4, e4⟩ := getObs_co L g.toOps s hI .x j hj
  obtain ⟨yj, h5, e5⟩ := getObs_co L g.toOps s hI .y j hj
  obtain ⟨zj, h6, e6⟩ := getObs_co L g.toOps s hI .z j hj
  refine ⟨(xi, yi, zi, xj, yj, zj), by simp only [ptsF, h1, h2, h3, h4, h5, h6], ?_⟩
  unfold fetch2
  rw [bind_ok_eq (show (Tbl.getObs g.toOps "x" i : M σ V) s = _ from e1),
    bind_ok_eq (show (Tbl.getObs g.toOps "y" i : M σ V) s = _ from e2),
    bind_ok_eq (show (Tbl.getObs g.toOps "z" i : M σ V) s = _ from e3),
    bind_ok_eq (show (Tbl.getObs g.toOps "x" j : M σ V) s = _ from e4),
    bind_ok_eq (show (Tbl.getObs g.toOps "y" j : M σ V) s = _ from e5),
    bind_ok_eq (show (Tbl.getObs g.toOps "z" j : M σ V) s = _ from e6)]
  rfl

/-- the outcome of the class method at fixes `(i, j)` of the coordinate columns -/
def posF (K : Kernel V) (X Y Z : List V) (i j : Nat) : Except Err V :=
  match ptsF X Y Z i j with
  | some p => K.pos p.1 p.2.1 p.2.2.1 p.2.2.2.1 p.2.2.2.2.1 p.2.2.2.2.2
  | none => .error .index

/-- the outcome of `Obs.distance2DTo` at fixes `(i, j)` of the coordinate columns -/
def obsF (K : Kernel V) (X Y Z : List V) (i j : Nat) : Except Err V :=
  match ptsF X Y Z i j with
  | some p => K.obs p.1 p.2.1 p.2.2.1 p.2.2.2.1 p.2.2.2.2.1 p.2.2.2.2.2
  | none => .error .index

/-- `position.distance2DTo` between two fixes of the track only reads: outcome (value or exception) of the class method
on the CURRENT coordinates, state unchanged -/
theorem posDistT_read (L : Laws I n rd co) (g : GOps V) (K : Kernel V) (s : σ) (hI : I s) (i j : Nat) (hi : i < n s) (hj : j < n s) :
    (posDistT g K i j : M σ V) s = (posF K (co s .x) (co s .y) (co s .z) i j, s) := by
  obtain ⟨p, hp, e⟩ := fetch2_read L g s hI i j hi hj
  unfold posDistT posF
  rw [bind_ok_eq e, hp]
  rfl

theorem obsDistT_read (L : Laws I n rd co) (g : GOps V) (K : Kernel V) (s : σ) (hI : I s) (i j : Nat) (hi : i < n s) (hj : j < n s) :
    (obsDistT g K i j : M σ V) s = (obsF K (co s .x) (co s .y) (co s .z) i j, s) := by
  obtain ⟨p, hp, e⟩ := fetch2_read L g s hI i j hi hj
  unfold obsDistT obsF
  rw [bind_ok_eq e, hp]
  rfl

/-- the class of the positions DEFINES a planimetric distance `D` (ENU, Geo): no refusal, the method never raises -/
structure Defines (K : Kernel V) (D : V → V → V → V → V → V → V) : Prop where
  refuse : K.refuse = none
  pos : ∀ a b c d e f, K.pos a b c d e f = .ok (D a b c d e f)

/-- the distance `D` between fixes `i` and `j` of the coordinate columns -/
def distF (g : GOps V) (D : V → V → V → V → V → V → V) (X Y Z : List V) (i j : Nat) : V :=
  match ptsF X Y Z i j with
  | some p => D p.1 p.2.1 p.2.2.1 p.2.2.2.1 p.2.2.2.2.1 p.2.2.2.2.2
  | none => g.nan

/-- `ds(track, i)` as a function of the coordinate columns -/
def dsFK (g : GOps V) (D : V → V → V → V → V → V → V) (X Y Z : List V) (i : Nat) : V :=
  if i = 0 then g.zero else distF g D X Y Z i (i - 1)

/-- the speed between a later fix `a` and an earlier fix `b` -/
def betweenFK (g : GOps V) (D : V → V → V → V → V → V → V) (X Y Z T : List V) (a b : Nat) : V :=
  match T[a]?, T[b]? with
  | some ta, some tb => if g.isZero (g.sub ta tb) then g.nan else g.div (distF g D X Y Z a b) (g.sub ta tb)
  | _, _ => g.nan

/-- `speed(track, i)` on a track of `N` fixes -/
def speedFK (g : GOps V) (D : V → V → V → V → V → V → V) (X Y Z T : List V) (N i : Nat) : V :=
  if i = 0 then betweenFK g D X Y Z T 1 0
  else if i = N - 1 then betweenFK g D X Y Z T (N - 1) (N - 2)
  else betweenFK g D X Y Z T (i + 1) (i - 1)

/-- `computeCurvAbsBetweenTwoPoints(track)` after `k` legs -/
def curvFK (g : GOps V) (D : V → V → V → V → V → V → V) (X Y Z : List V) : Nat → V
  | 0 => g.zero
  | k + 1 => g.add (curvFK g D X Y Z k) (distF g D X Y Z k (k + 1))

variable {K : Kernel V} {D : V → V → V → V → V → V → V}

theorem posF_defines (hK : Defines K D) (g : GOps V) (X Y Z : List V) (i j : Nat) (p : V × V × V × V × V × V)
    (hp : ptsF X Y Z i j = some p) : posF K X Y Z i j = .ok (distF g D X Y Z i j) := by
  unfold posF distF
  rw [hp]
  exact hK.pos _ _ _ _ _ _

theorem obsF_defines (hK : Defines K D) (g : GOps V) (X Y Z : List V) (i j : Nat) (p : V × V × V × V × V × V)
    (hp : ptsF X Y Z i j = some p) : obsF K X Y Z i j = .ok (distF g D X Y Z i j) := by
  unfold obsF distF Kernel.obs
  rw [hp, hK.refuse]
  exact hK.pos _ _ _ _ _ _

theorem dsAlgK_read (L : Laws I n rd co) (g : GOps V) (hK : Defines K D) (s : σ) (hI : I s) (i : Nat) (hi : i < n s) :
    (dsAlgK g K i : M σ V) s = (.ok (dsFK g D (co s .x) (co s .y) (co s .z) i), s) := by
  unfold dsAlgK dsFK
  by_cases h0 : i = 0
  · simp only [h0, if_true]; rfl
  · simp only [h0, if_false]
    obtain ⟨p, hp, _⟩ := fetch2_read L g s hI i (i - 1) hi (by omega)
    rw [obsDistT_read L g K s hI i (i - 1) hi (by omega), obsF_defines hK g _ _ _ _ _ p hp]

theorem speedBetweenK_read (L : Laws I n rd co) (g : GOps V) (hK : Defines K D) (s : σ) (hI : I s) (a b : Nat)
    (ha : a < n s) (hb : b < n s) :
    (speedBetweenK g K a b : M σ V) s = (.ok (betweenFK g D (co s .x) (co s .y) (co s .z) (co s .t) a b), s) := by
  obtain ⟨p, hp, _⟩ := fetch2_read L g s hI a b ha hb
  have e := posDistT_read L g K s hI a b ha hb
  rw [posF_defines hK g _ _ _ _ _ p hp] at e
  obtain ⟨ta, h5, e5⟩ := getObs_co L g.toOps s hI .t a ha
  obtain ⟨tb, h6, e6⟩ := getObs_co L g.toOps s hI .t b hb
  unfold speedBetweenK betweenFK
  rw [bind_ok_eq e, bind_ok_eq (show (Tbl.getObs g.toOps "t" a : M σ V) s = _ from e5),
    bind_ok_eq (show (Tbl.getObs g.toOps "t" b : M σ V) s = _ from e6), h5, h6]
  rfl

theorem speedAlgK_read (L : Laws I n rd co) (g : GOps V) (hK : Defines K D) (s : σ) (hI : I s) (hN : 2 ≤ n s) (i : Nat)
    (hi : i < n s) :
    (speedAlgK g K i : M σ V) s = (.ok (speedFK g D (co s .x) (co s .y) (co s .z) (co s .t) (n s) i), s) := by
  unfold speedAlgK speedFK
  by_cases h0 : i = 0
  · simp only [h0, if_true]
    exact speedBetweenK_read L g hK s hI 1 0 (by omega) (by omega)
  · simp only [h0, if_false]
    rw [bind_ok_eq (L.size s)]
    by_cases h1 : i = n s - 1
    · simp only [h1, if_true]
      exact speedBetweenK_read L g hK s hI _ _ (by omega) (by omega)
    · simp only [h1, if_false]
      exact speedBetweenK_read L g hK s hI _ _ (by omega) (by omega)

/-- `computeCurvAbsBetweenTwoPoints` only reads, and returns the accumulated legs of the current coordinates -/
theorem curvAbsK_read (L : Laws I n rd co) (g : GOps V) (hK : Defines K D) (s : σ) (hI : I s) :
    (curvAbsK g K : M σ V) s = (.ok (curvFK g D (co s .x) (co s .y) (co s .z) (n s - 1)), s) := by
  unfold curvAbsK
  rw [bind_ok_eq (L.size s)]
  have key := triple_foldL_aux
    (fun (acc : V) i => (posDistT g K i (i + 1) : M σ V) >>= fun d => pure (g.add acc d))
    (fun k (acc : V) s' => s' = s ∧ acc = curvFK g D (co s .x) (co s .y) (co s .z) k)
    (List.range (n s - 1)) 0 g.zero
    (by
      intro i hi acc s' ⟨hs, hacc⟩
      subst hs
      have hi' : i < n s' - 1 := by simpa using hi
      have hel : (List.range (n s' - 1))[i] = i := by simp
      rw [hel]
      obtain ⟨p, hp, _⟩ := fetch2_read L g s' hI i (i + 1) (by omega) (by omega)
      have e := posDistT_read L g K s' hI i (i + 1) (by omega) (by omega)
      rw [posF_defines hK g _ _ _ _ _ p hp] at e
      refine ⟨_, s', bind_ok_eq e, rfl, ?_⟩
      simp only [Nat.zero_add, curvFK, hacc])
  obtain ⟨x, s', e, hs, hx⟩ := key s ⟨rfl, rfl⟩
  subst hs
  rw [e, hx]
  simp

/-! ### computeAbsCurv and estimate_speed for an arbitrary algorithm that only reads -/

/-- `computeAbsCurv` (with `alg` in the place of `analytics.ds`) on a table that lists neither `ds` nor `abs_curv`, when
`alg i` only reads and returns `F i`: the value returned is the integral of the column `[F 0, …, F (N-1)]`, it is what
`abs_curv` reads afterwards, `ds` is gone again, every other name, the coordinates and the times are as before -/
theorem computeAbsCurvG_fresh (L : Laws I n rd co) (g : GOps V) (N : Nat) (hN : 0 < N) (C : Coord → List V)
    (R : String → Option (List V)) (hds : R "ds" = none) (hac : R "abs_curv" = none) (alg : Nat → M σ V) (F : Nat → V)
    (halg : ∀ i, i < N → ∀ s, Ctx I n rd co N C R "ds" s → alg i s = (.ok (F i), s)) :
    Triple (fun s => I s ∧ n s = N ∧ co s = C ∧ ∀ m, rd s m = R m) (computeAbsCurvG g alg : M σ (List V))
      (fun r s => r = integG g.toOps ((List.range N).map F) ∧ I s ∧ n s = N ∧ co s = C
        ∧ rd s "abs_curv" = some r ∧ ∀ m, m ≠ "abs_curv" → rd s m = R m) := by
  have rds : reserved "ds" = false := by decide
  have rac : reserved "abs_curv" = false := by decide
  let DS := (List.range N).map F
  let R' : String → Option (List V) := fun m => if m = "ds" then some DS else R m
  unfold computeAbsCurvG
  -- ensure ds
  refine triple_bind (Q := fun _ s => Ctx I n rd co N C R "ds" s ∧ rd s "ds" = some DS) ?_ (fun _ => ?_)
  · unfold ensureDsG
    refine triple_bind (Q := fun b s => b = false ∧ Ctx I n rd co N C R "ds" s) ?_ (fun b => ?_)
    · intro s ⟨hI, hn, hco, hrd⟩
      refine ⟨_, s, L.has s "ds" hI rds, ?_, hI, hn, hco, fun m _ => hrd m⟩
      rw [hrd "ds", hds]; rfl
    · intro s ⟨hb, hc⟩
      subst hb
      simp only [Bool.not_false, if_true]
      refine triple_bind (Q := fun r s => r = DS ∧ Ctx I n rd co N C R "ds" s ∧ rd s "ds" = some r) ?_ (fun r => ?_) s hc
      · exact addAFfn_spec L g.toOps "ds" rds N hN C R alg F halg
      · exact triple_pure () (fun s ⟨hr, hc, hrd⟩ => ⟨hc, by rw [hrd, hr]⟩)
  -- ensure abs_curv
  refine triple_bind (Q := fun _ s => Ctx I n rd co N C R' "abs_curv" s ∧ rd s "abs_curv" = some (integG g.toOps DS)) ?_ (fun _ => ?_)
  · unfold ensureAbsCurvT
    refine triple_bind (Q := fun b s => b = false ∧ Ctx I n rd co N C R' "abs_curv" s) ?_ (fun b => ?_)
    · intro s ⟨⟨hI, hn, hco, hoth⟩, hrd⟩
      refine ⟨_, s, L.has s "abs_curv" hI rac, ?_, hI, hn, hco, fun m _ => ?_⟩
      · rw [hoth "abs_curv" (by decide), hac]; rfl
      · by_cases hm : m = "ds"
        · subst hm; simp [R', hrd]
        · simp [R', hm, hoth m hm]
    · intro s ⟨hb, hc⟩
      subst hb
      simp only [Bool.not_false, if_true]
      refine triple_bind (Q := fun t s => t = integG g.toOps DS ∧ Ctx I n rd co N C R' "abs_curv" s ∧ rd s "abs_curv" = some t) ?_ (fun r => ?_) s hc
      · exact unaryVoid_integ_spec L g.toOps "ds" "abs_curv" rds rac (by decide) N hN C R' DS (by simp [R'])
      · exact triple_pure () (fun s ⟨hr, hc, hrd⟩ => ⟨hc, by rw [hrd, hr]⟩)
  -- remove ds
  refine triple_bind (Q := fun _ s => I s ∧ n s = N ∧ co s = C ∧ rd s "abs_curv" = some (integG g.toOps DS)
      ∧ ∀ m, m ≠ "abs_curv" → rd s m = R m) ?_ (fun _ => ?_)
  · intro s ⟨⟨hI, hn, hco, hoth⟩, hrd⟩
    have hdsrd : rd s "ds" = some DS := by rw [hoth "ds" (by decide)]; simp [R']
    obtain ⟨s', e, hI', hrd', hn', hoth', hco'⟩ := L.remove s "ds" DS hI rds hdsrd
    refine ⟨(), s', e, hI', by rw [hn', hn], by rw [hco', hco], by rw [hoth' "abs_curv" (by decide), hrd], fun m hm => ?_⟩
    by_cases hmd : m = "ds"
    · subst hmd; rw [hrd', hds]
    · rw [hoth' m hmd, hoth m hm]; simp [R', hmd]
  -- read
  intro s ⟨hI, hn, hco, hrd, hoth⟩
  exact ⟨_, s, L.get_feat g.toOps s "abs_curv" _ hI rac hrd, rfl, hI, hn, hco, hrd, hoth⟩

/-- `computeAbsCurv` on a table that already lists `abs_curv` (and no `ds`): the listed column is returned as it is,
every name reads what it read before (the temporary `ds` is created from `alg` and removed again) -/
theorem computeAbsCurvG_again (L : Laws I n rd co) (g : GOps V) (N : Nat) (hN : 0 < N) (C : Coord → List V)
    (R : String → Option (List V)) (hds : R "ds" = none) (col : List V) (hac : R "abs_curv" = some col)
    (alg : Nat → M σ V) (F : Nat → V)
    (halg : ∀ i, i < N → ∀ s, Ctx I n rd co N C R "ds" s → alg i s = (.ok (F i), s)) :
    Triple (fun s => I s ∧ n s = N ∧ co s = C ∧ ∀ m, rd s m = R m) (computeAbsCurvG g alg : M σ (List V))
      (fun r s => r = col ∧ I s ∧ n s = N ∧ co s = C ∧ ∀ m, rd s m = R m) := by
  have rds : reserved "ds" = false := by decide
  have rac : reserved "abs_curv" = false := by decide
  let DS := (List.range N).map F
  unfold computeAbsCurvG
  refine triple_bind (Q := fun _ s => Ctx I n rd co N C R "ds" s ∧ rd s "ds" = some DS) ?_ (fun _ => ?_)
  · unfold ensureDsG
    refine triple_bind (Q := fun b s => b = false ∧ Ctx I n rd co N C R "ds" s) ?_ (fun b => ?_)
    · intro s ⟨hI, hn, hco, hrd⟩
      refine ⟨_, s, L.has s "ds" hI rds, ?_, hI, hn, hco, fun m _ => hrd m⟩
      rw [hrd "ds", hds]; rfl
    · intro s ⟨hb, hc⟩
      subst hb
      simp only [Bool.not_false, if_true]
      refine triple_bind (Q := fun r s => r = DS ∧ Ctx I n rd co N C R "ds" s ∧ rd s "ds" = some r) ?_ (fun r => ?_) s hc
      · exact addAFfn_spec L g.toOps "ds" rds N hN C R alg F halg
      · exact triple_pure () (fun s ⟨hr, hc, hrd⟩ => ⟨hc, by rw [hrd, hr]⟩)
  refine triple_bind (Q := fun _ s => Ctx I n rd co N C R "ds" s ∧ rd s "ds" = some DS) ?_ (fun _ => ?_)
  · unfold ensureAbsCurvT
    refine triple_bind (Q := fun b s => b = true ∧ Ctx I n rd co N C R "ds" s ∧ rd s "ds" = some DS) ?_ (fun b => ?_)
    · intro s ⟨⟨hI, hn, hco, hoth⟩, hrd⟩
      refine ⟨_, s, L.has s "abs_curv" hI rac, ?_, ⟨hI, hn, hco, hoth⟩, hrd⟩
      rw [hoth "abs_curv" (by decide), hac]; rfl
    · intro s ⟨hb, hc⟩
      subst hb
      exact ⟨(), s, rfl, hc⟩
  refine triple_bind (Q := fun _ s => I s ∧ n s = N ∧ co s = C ∧ ∀ m, rd s m = R m) ?_ (fun _ => ?_)
  · intro s ⟨⟨hI, hn, hco, hoth⟩, hrd⟩
    obtain ⟨s', e, hI', hrd', hn', hoth', hco'⟩ := L.remove s "ds" DS hI rds hrd
    refine ⟨(), s', e, hI', by rw [hn', hn], by rw [hco', hco], fun m => ?_⟩
    by_cases hmd : m = "ds"
    · subst hmd; rw [hrd', hds]
    · rw [hoth' m hmd, hoth m hmd]
  intro s ⟨hI, hn, hco, hrd⟩
  exact ⟨_, s, L.get_feat g.toOps s "abs_curv" col hI rac (by rw [hrd, hac]), rfl, hI, hn, hco, hrd⟩

/-- `estimate_speed` (with `alg` in the place of `analytics.speed`) on a table that does not list `speed` -/
theorem estimateSpeedG_fresh (L : Laws I n rd co) (g : GOps V) (N : Nat) (hN : 0 < N) (C : Coord → List V)
    (R : String → Option (List V)) (hsp : R "speed" = none) (alg : Nat → M σ V) (F : Nat → V)
    (halg : ∀ i, i < N → ∀ s, Ctx I n rd co N C R "speed" s → alg i s = (.ok (F i), s)) :
    Triple (fun s => I s ∧ n s = N ∧ co s = C ∧ ∀ m, rd s m = R m) (estimateSpeedG g alg : M σ (List V))
      (fun r s => r = (List.range N).map F ∧ I s ∧ n s = N ∧ co s = C
        ∧ rd s "speed" = some r ∧ ∀ m, m ≠ "speed" → rd s m = R m) := by
  have rsp : reserved "speed" = false := by decide
  unfold estimateSpeedG
  refine triple_bind (Q := fun b s => b = false ∧ Ctx I n rd co N C R "speed" s) ?_ (fun b => ?_)
  · intro s ⟨hI, hn, hco, hrd⟩
    refine ⟨_, s, L.has s "speed" hI rsp, ?_, hI, hn, hco, fun m _ => hrd m⟩
    rw [hrd "speed", hsp]; rfl
  intro s ⟨hb, hc⟩
  subst hb
  simp only [Bool.false_eq_true, if_false]
  obtain ⟨r, s', e, hr, hc', hrd'⟩ := addAFfn_spec L g.toOps "speed" rsp N hN C R alg F halg s hc
  exact ⟨r, s', e, hr, hc'.1, hc'.2.1, hc'.2.2.1, hrd', hc'.2.2.2⟩

/-- `estimate_speed` on a table that lists `speed`: the listed column is returned, the state is untouched -/
theorem estimateSpeedG_again (L : Laws I n rd co) (g : GOps V) (alg : Nat → M σ V) (s : σ) (hI : I s) (col : List V)
    (hsp : rd s "speed" = some col) : (estimateSpeedG g alg : M σ (List V)) s = (.ok col, s) := by
  have rsp : reserved "speed" = false := by decide
  unfold estimateSpeedG
  rw [bind_ok_eq (L.has s "speed" hI rsp), hsp]
  simp only [Option.isSome_some, if_true]
  exact L.get_feat g.toOps s "speed" col hI rsp hsp

/-! ### a class without a planimetric distance: the exception leaves the column behind -/

theorem bind_err_eq {α β : Type} {m : M σ α} {f : α → M σ β} {s s' : σ} {e : Err} (h : m s = (.error e, s')) :
    (m >>= f) s = (.error e, s') := by
  show M.bind m f s = _
  unfold M.bind
  rw [h]

end laws

/-! ### on the world of shared observations: nothing writes a position or a stamp, nothing reads a zone -/

section world
variable {V : Type}

theorem keeps_liftE {α : Type} (r : Except Err α) : Keeps (liftE r : M (World V) α) := fun _ => rfl
theorem blind_liftE {α : Type} (r : Except Err α) : Blind (liftE r : M (World V) α) := fun _ _ => rfl

variable [AbsTime V]

theorem keeps_fetch2 (g : GOps V) (i j : Nat) : Keeps (fetch2 g i j : M (World V) _) := by
  unfold fetch2
  exact keeps_bind (keeps_getObs _ _ _) (fun _ => keeps_bind (keeps_getObs _ _ _) (fun _ => keeps_bind (keeps_getObs _ _ _)
    (fun _ => keeps_bind (keeps_getObs _ _ _) (fun _ => keeps_bind (keeps_getObs _ _ _) (fun _ => keeps_bind (keeps_getObs _ _ _)
    (fun _ => keeps_pure _))))))

theorem blind_fetch2 (g : GOps V) (i j : Nat) : Blind (fetch2 g i j : M (World V) _) := by
  unfold fetch2
  exact blind_bind (blind_getObs _ _ _) (fun _ => blind_bind (blind_getObs _ _ _) (fun _ => blind_bind (blind_getObs _ _ _)
    (fun _ => blind_bind (blind_getObs _ _ _) (fun _ => blind_bind (blind_getObs _ _ _) (fun _ => blind_bind (blind_getObs _ _ _)
    (fun _ => blind_pure _))))))

theorem keeps_posDistT (g : GOps V) (K : Kernel V) (i j : Nat) : Keeps (posDistT g K i j : M (World V) V) :=
  keeps_bind (keeps_fetch2 g i j) (fun _ => keeps_liftE _)
theorem keeps_obsDistT (g : GOps V) (K : Kernel V) (i j : Nat) : Keeps (obsDistT g K i j : M (World V) V) :=
  keeps_bind (keeps_fetch2 g i j) (fun _ => keeps_liftE _)
theorem blind_posDistT (g : GOps V) (K : Kernel V) (i j : Nat) : Blind (posDistT g K i j : M (World V) V) :=
  blind_bind (blind_fetch2 g i j) (fun _ => blind_liftE _)
theorem blind_obsDistT (g : GOps V) (K : Kernel V) (i j : Nat) : Blind (obsDistT g K i j : M (World V) V) :=
  blind_bind (blind_fetch2 g i j) (fun _ => blind_liftE _)

theorem keeps_dsAlgK (g : GOps V) (K : Kernel V) (i : Nat) : Keeps (dsAlgK g K i : M (World V) V) := by
  unfold dsAlgK
  split
  · exact keeps_pure _
  · exact keeps_obsDistT g K _ _

theorem blind_dsAlgK (g : GOps V) (K : Kernel V) (i : Nat) : Blind (dsAlgK g K i : M (World V) V) := by
  unfold dsAlgK
  split
  · exact blind_pure _
  · exact blind_obsDistT g K _ _

theorem keeps_speedBetweenK (g : GOps V) (K : Kernel V) (a b : Nat) : Keeps (speedBetweenK g K a b : M (World V) V) := by
  unfold speedBetweenK
  exact keeps_bind (keeps_posDistT g K a b) (fun _ => keeps_bind (keeps_getObs _ _ _) (fun _ => keeps_bind (keeps_getObs _ _ _)
    (fun _ => keeps_pure _)))

theorem blind_speedBetweenK (g : GOps V) (K : Kernel V) (a b : Nat) : Blind (speedBetweenK g K a b : M (World V) V) := by
  unfold speedBetweenK
  exact blind_bind (blind_posDistT g K a b) (fun _ => blind_bind (blind_getObs _ _ _) (fun _ => blind_bind (blind_getObs _ _ _)
    (fun _ => blind_pure _)))

theorem keeps_speedAlgK (g : GOps V) (K : Kernel V) (i : Nat) : Keeps (speedAlgK g K i : M (World V) V) := by
  unfold speedAlgK
  split
  · exact keeps_speedBetweenK g K _ _
  · refine keeps_bind keeps_size (fun n => ?_)
    split
    · exact keeps_speedBetweenK g K _ _
    · exact keeps_speedBetweenK g K _ _

theorem blind_speedAlgK (g : GOps V) (K : Kernel V) (i : Nat) : Blind (speedAlgK g K i : M (World V) V) := by
  unfold speedAlgK
  split
  · exact blind_speedBetweenK g K _ _
  · refine blind_bind blind_size (fun n => ?_)
    split
    · exact blind_speedBetweenK g K _ _
    · exact blind_speedBetweenK g K _ _

theorem keeps_computeAbsCurvG (g : GOps V) (alg : Nat → M (World V) V) (halg : ∀ i, Keeps (alg i)) :
    Keeps (computeAbsCurvG g alg : M (World V) (List V)) := by
  unfold computeAbsCurvG ensureDsG ensureAbsCurvT
  refine keeps_bind (keeps_bind (keeps_has _) (fun b => ?_)) (fun _ => keeps_bind (keeps_bind (keeps_has _) (fun b => ?_))
    (fun _ => keeps_bind (keeps_remove _) (fun _ => keeps_get _ _)))
  · split
    · exact keeps_bind (keeps_addAFfn _ _ halg _) (fun _ => keeps_pure _)
    · exact keeps_pure _
  · split
    · exact keeps_bind (keeps_unaryVoid _ _ _ _ (by decide)) (fun _ => keeps_pure _)
    · exact keeps_pure _

theorem blind_computeAbsCurvG (g : GOps V) (alg : Nat → M (World V) V) (halg : ∀ i, Blind (alg i)) :
    Blind (computeAbsCurvG g alg : M (World V) (List V)) := by
  unfold computeAbsCurvG ensureDsG ensureAbsCurvT
  refine blind_bind (blind_bind (blind_has _) (fun b => ?_)) (fun _ => blind_bind (blind_bind (blind_has _) (fun b => ?_))
    (fun _ => blind_bind (blind_remove _) (fun _ => blind_get _ _)))
  · split
    · exact blind_bind (blind_addAFfn _ _ halg _) (fun _ => blind_pure _)
    · exact blind_pure _
  · split
    · exact blind_bind (blind_unaryVoid _ _ _ _ (by decide)) (fun _ => blind_pure _)
    · exact blind_pure _

theorem keeps_estimateSpeedG (g : GOps V) (alg : Nat → M (World V) V) (halg : ∀ i, Keeps (alg i)) :
    Keeps (estimateSpeedG g alg : M (World V) (List V)) := by
  unfold estimateSpeedG
  refine keeps_bind (keeps_has _) (fun b => ?_)
  split
  · exact keeps_get _ _
  · exact keeps_addAFfn _ _ halg _

theorem blind_estimateSpeedG (g : GOps V) (alg : Nat → M (World V) V) (halg : ∀ i, Blind (alg i)) :
    Blind (estimateSpeedG g alg : M (World V) (List V)) := by
  unfold estimateSpeedG
  refine blind_bind (blind_has _) (fun b => ?_)
  split
  · exact blind_get _ _
  · exact blind_addAFfn _ _ halg _

theorem keeps_curvAbsK (g : GOps V) (K : Kernel V) : Keeps (curvAbsK g K : M (World V) V) := by
  unfold curvAbsK
  exact keeps_bind keeps_size (fun n => keeps_foldL _ (fun s i => keeps_bind (keeps_posDistT g K _ _) (fun _ => keeps_pure _)) _ _)

theorem blind_curvAbsK (g : GOps V) (K : Kernel V) : Blind (curvAbsK g K : M (World V) V) := by
  unfold curvAbsK
  exact blind_bind blind_size (fun n => blind_foldL _ (fun s i => blind_bind (blind_posDistT g K _ _) (fun _ => blind_pure _)) _ _)

theorem runCol_ok (k : Nat) (m : M (World V) (List V)) (w w' : World V) (r : List V) (hk : k < w.trks.length)
    (e : m { w with cur := k } = (.ok r, w')) : runCol k m w = (.ok (.col r), w') := by
  unfold runCol
  rw [if_neg (Nat.not_le.mpr hk), e]
  rfl

theorem runCol_frame (k : Nat) (m : M (World V) (List V)) (hm : Keeps m) (w : World V) :
    geom (runCol k m w).2 = geom w ∧ (runCol k m w).2.trks.map (·.ids) = w.trks.map (·.ids) := by
  unfold runCol
  split
  · exact ⟨rfl, rfl⟩
  · have := hm { w with cur := k }
    unfold frameOf at this
    simp only [Prod.mk.injEq] at this
    exact ⟨this.1, this.2.1⟩

theorem runNum_frame (k : Nat) (m : M (World V) V) (hm : Keeps m) (w : World V) :
    geom (runNum k m w).2 = geom w ∧ (runNum k m w).2.trks.map (·.ids) = w.trks.map (·.ids) := by
  unfold runNum
  split
  · exact ⟨rfl, rfl⟩
  · have := hm { w with cur := k }
    unfold frameOf at this
    simp only [Prod.mk.injEq] at this
    exact ⟨this.1, this.2.1⟩

theorem runCol_blind (k : Nat) (m : M (World V) (List V)) (hm : Blind m) (f : Int → Int) (w : World V) :
    runCol k m (w.zmap f) = ((runCol k m w).1, (runCol k m w).2.zmap f) := by
  unfold runCol
  by_cases hk : k ≥ w.trks.length
  · have hk' : k ≥ (w.zmap f).trks.length := hk
    rw [if_pos hk, if_pos hk']
  · have hk' : ¬ k ≥ (w.zmap f).trks.length := hk
    rw [if_neg hk, if_neg hk']
    have := hm f { w with cur := k }
    show (match m (World.zmap f { w with cur := k }) with | (r, w') => (r.map WRet.col, w')) = _
    rw [this]

theorem runNum_blind (k : Nat) (m : M (World V) V) (hm : Blind m) (f : Int → Int) (w : World V) :
    runNum k m (w.zmap f) = ((runNum k m w).1, (runNum k m w).2.zmap f) := by
  unfold runNum
  by_cases hk : k ≥ w.trks.length
  · have hk' : k ≥ (w.zmap f).trks.length := hk
    rw [if_pos hk, if_pos hk']
  · have hk' : ¬ k ≥ (w.zmap f).trks.length := hk
    rw [if_neg hk, if_neg hk']
    have := hm f { w with cur := k }
    show (match m (World.zmap f { w with cur := k }) with | (r, w') => (r.map WRet.num, w')) = _
    rw [this]

/-- positions, stamps (zone included) and reference lists after an operation on features are those before it — for
the kernel of EVERY coordinate class, refusals and `AttributeError`s included -/
theorem stepK_frame (g : GOps V) (K : Kernel V) (op : WOp V) (hop : op.onFeatures = true) (w : World V) :
    geom (stepK g K op w).2 = geom w ∧ (stepK g K op w).2.trks.map (·.ids) = w.trks.map (·.ids) := by
  cases op with
  | absCurv k => exact runCol_frame k _ (keeps_computeAbsCurvG g _ (keeps_dsAlgK g K)) w
  | speed k => exact runCol_frame k _ (keeps_estimateSpeedG g _ (keeps_speedAlgK g K)) w
  | speedMethod k => exact runCol_frame k _ (keeps_estimateSpeedG g _ (keeps_speedAlgK g K)) w
  | speedAF k => exact runCol_frame k _ (keeps_addAFfn g.toOps (speedAlgK g K) (keeps_speedAlgK g K) "speed") w
  | dsAF k => exact runCol_frame k _ (keeps_addAFfn g.toOps (dsAlgK g K) (keeps_dsAlgK g K) "ds") w
  | curvAbs k => exact runNum_frame k _ (keeps_curvAbsK g K) w
  | length k => exact ⟨rfl, rfl⟩
  | integ k => exact stepW_frame g _ hop w
  | integExpr k => exact stepW_frame g _ hop w
  | diff k => exact stepW_frame g _ hop w
  | read k name => exact stepW_frame g _ hop w
  | remove k name => exact stepW_frame g _ hop w
  | write k name vals => exact stepW_frame g _ hop w
  | sorted k => exact stepW_frame g _ hop w
  | duration k => exact stepW_frame g _ hop w
  | times k => exact stepW_frame g _ hop w
  | setZone _ _ => cases hop
  | add _ _ => cases hop
  | extract _ _ _ => cases hop
  | slice _ _ _ => cases hop
  | copy _ => cases hop
  | setPos _ _ _ _ => cases hop
  | setTime _ _ _ _ => cases hop

/-- no operation on features reads the zone field of a stamp, for the kernel of every coordinate class -/
theorem stepK_blind (g : GOps V) (K : Kernel V) (op : WOp V) (hop : op.onFeatures = true) (f : Int → Int) (w : World V) :
    stepK g K op (w.zmap f) = ((stepK g K op w).1, (stepK g K op w).2.zmap f) := by
  cases op with
  | absCurv k => exact runCol_blind k _ (blind_computeAbsCurvG g _ (blind_dsAlgK g K)) f w
  | speed k => exact runCol_blind k _ (blind_estimateSpeedG g _ (blind_speedAlgK g K)) f w
  | speedMethod k => exact runCol_blind k _ (blind_estimateSpeedG g _ (blind_speedAlgK g K)) f w
  | speedAF k => exact runCol_blind k _ (blind_addAFfn g.toOps (speedAlgK g K) (blind_speedAlgK g K) "speed") f w
  | dsAF k => exact runCol_blind k _ (blind_addAFfn g.toOps (dsAlgK g K) (blind_dsAlgK g K) "ds") f w
  | curvAbs k => exact runNum_blind k _ (blind_curvAbsK g K) f w
  | length k => rfl
  | integ k => exact stepW_blind g _ hop f w
  | integExpr k => exact stepW_blind g _ hop f w
  | diff k => exact stepW_blind g _ hop f w
  | read k name => exact stepW_blind g _ hop f w
  | remove k name => exact stepW_blind g _ hop f w
  | write k name vals => exact stepW_blind g _ hop f w
  | sorted k => exact stepW_blind g _ hop f w
  | duration k => exact stepW_blind g _ hop f w
  | times k => exact stepW_blind g _ hop f w
  | setZone _ _ => cases hop
  | add _ _ => cases hop
  | extract _ _ _ => cases hop
  | slice _ _ _ => cases hop
  | copy _ => cases hop
  | setPos _ _ _ _ => cases hop
  | setTime _ _ _ _ => cases hop

end world
end TV.CinTabK
