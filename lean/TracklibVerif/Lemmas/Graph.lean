import TracklibVerif.Model.Graph
import Mathlib.Algebra.Order.Monoid.Defs
namespace TV.Graph
/-- All that the proofs about `run_routing_forward` use of `+` and `0` (on top of `≤` being a linear order): adding a
non-negative weight does not decrease a label, and addition on the right is monotone. Neither associativity,
commutativity, cancellation nor `a + 0 = a` is needed, because the code and `Walk` both add the weights of a walk from the
source outwards, `((0 + w₁) + w₂) + …`. Every linearly ordered additive commutative monoid (`ℕ ℤ ℚ ℝ`, …) is an instance;
so is IEEE-754 round-to-nearest addition on the non-NaN doubles (rounding is monotone), which is *not* associative. -/
class WalkAdd (W : Type) [LinearOrder W] [Add W] [Zero W] : Prop where
  le_add_right : ∀ (a w : W), 0 ≤ w → a ≤ a + w
  add_le_add : ∀ (a b w : W), a ≤ b → a + w ≤ b + w

instance instWalkAddOfMonoid {W : Type} [AddCommMonoid W] [LinearOrder W] [IsOrderedAddMonoid W] : WalkAdd W where
  le_add_right := fun _ _ h => le_add_of_nonneg_right h
  add_le_add := fun _ _ w h => add_le_add_left h w

variable {W : Type} [LinearOrder W] [Add W] [Zero W] [WalkAdd W]

/-- a permitted arc u → v of weight w -/
def Arc (net : Net W) (u v : Nat) (w : W) : Prop :=
  ∃ e ∈ net.edges, e.w = w ∧ ((0 ≤ e.ori ∧ e.src = u ∧ e.tgt = v) ∨ (e.ori ≤ 0 ∧ e.tgt = u ∧ e.src = v))

inductive Walk (net : Net W) (s : Nat) : Nat → W → Prop
  | nil : Walk net s s 0
  | snoc {v t : Nat} {c w : W} : Walk net s v c → Arc net v t w → Walk net s t (c + w)

theorem arc_iff_next (net : Net W) (u v : Nat) (w : W) :
    Arc net u v w ↔ ∃ e ∈ nextEdges net u, other e u = v ∧ e.w = w := by
  constructor
  · rintro ⟨e, he, hw, h⟩
    refine ⟨e, ?_, ?_, hw⟩
    · simp only [nextEdges, List.mem_filter, he, true_and, Bool.or_eq_true, Bool.and_eq_true, decide_eq_true_eq]
      rcases h with ⟨h1, h2, _⟩ | ⟨h1, h2, _⟩
      · exact Or.inl ⟨h1, h2⟩
      · exact Or.inr ⟨h1, h2⟩
    · rcases h with ⟨_, h2, h3⟩ | ⟨_, h2, h3⟩
      · unfold other; split
        · rename_i h; rw [h2]; rw [← h3]; exact h.symm
        · exact h3
      · unfold other; simp [h2, h3]
  · rintro ⟨e, he, ho, hw⟩
    simp only [nextEdges, List.mem_filter, Bool.or_eq_true, Bool.and_eq_true, decide_eq_true_eq] at he
    refine ⟨e, he.1, hw, ?_⟩
    rcases he.2 with ⟨h1, h2⟩ | ⟨h1, h2⟩
    · left
      refine ⟨h1, h2, ?_⟩
      unfold other at ho; split at ho
      · rename_i h; rw [h, ← ho, h2]
      · exact ho
    · right
      refine ⟨h1, h2, ?_⟩
      unfold other at ho; simpa [h2] using ho

/-! ### popMin -/
theorem popMinAux_spec (st : St W) (k : Nat) :
    (popMinAux st k = none → ∀ v, v < k → st.vis v = false → st.d v = none) ∧
    (∀ u x, popMinAux st k = some (u, x) → u < k ∧ st.vis u = false ∧ st.d u = some x ∧
        ∀ v y, v < k → st.vis v = false → st.d v = some y → x ≤ y) := by
  induction k with
  | zero => exact ⟨fun _ v hv => by omega, fun u x h => by simp [popMinAux] at h⟩
  | succ k ih =>
    obtain ⟨ih1, ih2⟩ := ih
    unfold popMinAux
    by_cases hv : st.vis k = true
    · simp only [hv, if_true]
      constructor
      · intro h v hvk hvis
        rcases Nat.lt_succ_iff_lt_or_eq.mp hvk with h' | h'
        · exact ih1 h v h' hvis
        · subst h'; rw [hv] at hvis; cases hvis
      · intro u x h
        obtain ⟨a, b, c, d⟩ := ih2 u x h
        refine ⟨by omega, b, c, ?_⟩
        intro v y hvk hvis hd
        rcases Nat.lt_succ_iff_lt_or_eq.mp hvk with h' | h'
        · exact d v y h' hvis hd
        · subst h'; rw [hv] at hvis; cases hvis
    · have hv' : st.vis k = false := by cases h : st.vis k <;> simp_all
      simp only [hv', Bool.false_eq_true, if_false]
      cases hd : st.d k with
      | none =>
        simp only []
        constructor
        · intro h v hvk hvis
          rcases Nat.lt_succ_iff_lt_or_eq.mp hvk with h' | h'
          · exact ih1 h v h' hvis
          · subst h'; exact hd
        · intro u x h
          obtain ⟨a, b, c, d⟩ := ih2 u x h
          refine ⟨by omega, b, c, ?_⟩
          intro v y hvk hvis hdv
          rcases Nat.lt_succ_iff_lt_or_eq.mp hvk with h' | h'
          · exact d v y h' hvis hdv
          · subst h'; rw [hd] at hdv; cases hdv
      | some xk =>
        simp only []
        cases hb : popMinAux st k with
        | none =>
          simp only []
          constructor
          · intro h; cases h
          · intro u x h
            simp only [Option.some.injEq, Prod.mk.injEq] at h
            obtain ⟨rfl, rfl⟩ := h
            refine ⟨by omega, hv', hd, ?_⟩
            intro v y hvk hvis hdv
            rcases Nat.lt_succ_iff_lt_or_eq.mp hvk with h' | h'
            · have := ih1 hb v h' hvis; rw [this] at hdv; cases hdv
            · subst h'; rw [hd] at hdv; cases hdv; exact le_refl _
        | some p =>
          obtain ⟨ub, yb⟩ := p
          obtain ⟨a, b, c, d⟩ := ih2 ub yb hb
          simp only []
          by_cases hlt : xk < yb
          · simp only [hlt, if_true]
            constructor
            · intro h; cases h
            · intro u x h
              simp only [Option.some.injEq, Prod.mk.injEq] at h
              obtain ⟨rfl, rfl⟩ := h
              refine ⟨by omega, hv', hd, ?_⟩
              intro v y hvk hvis hdv
              rcases Nat.lt_succ_iff_lt_or_eq.mp hvk with h' | h'
              · exact le_trans (le_of_lt hlt) (d v y h' hvis hdv)
              · subst h'; rw [hd] at hdv; cases hdv; exact le_refl _
          · simp only [hlt, if_false]
            constructor
            · intro h; cases h
            · intro u x h
              simp only [Option.some.injEq, Prod.mk.injEq] at h
              obtain ⟨rfl, rfl⟩ := h
              refine ⟨by omega, b, c, ?_⟩
              intro v y hvk hvis hdv
              rcases Nat.lt_succ_iff_lt_or_eq.mp hvk with h' | h'
              · exact d v y h' hvis hdv
              · subst h'; rw [hd] at hdv; cases hdv; exact not_lt.mp hlt
end TV.Graph

namespace TV.Graph
variable {W : Type} [LinearOrder W] [Add W] [Zero W] [WalkAdd W]

/-- what one relaxation does -/
theorem relaxOne_spec (u : Nat) (du : W) (st : St W) (e : Edge W) :
    let R := relaxOne u du st e
    R.vis = st.vis ∧
    (∀ z, st.vis z = true → R.d z = st.d z) ∧
    (∀ z y, st.d z = some y → ∃ y', R.d z = some y' ∧ y' ≤ y) ∧
    (∀ z y', R.d z = some y' → st.d z = some y' ∨ (z = other e u ∧ y' = du + e.w ∧ st.vis z = false)) ∧
    (st.vis (other e u) = false → ∃ y, R.d (other e u) = some y ∧ y ≤ du + e.w) := by
  intro R
  by_cases hv : st.vis (other e u) = true
  · have hR : R = st := by simp [R, relaxOne, hv]
    rw [hR]
    refine ⟨rfl, fun _ _ => rfl, fun z y h => ⟨y, h, le_refl _⟩, fun z y' h => Or.inl h, ?_⟩
    intro h; rw [hv] at h; cases h
  · have hv' : st.vis (other e u) = false := by cases h : st.vis (other e u) <;> simp_all
    cases hd : st.d (other e u) with
    | none =>
      have hR : R = { st with d := fun z => if z = other e u then some (du + e.w) else st.d z,
                              pred := fun z => if z = other e u then some (u, e.id) else st.pred z } := by
        simp [R, relaxOne, hv', hd]
      rw [hR]
      refine ⟨rfl, ?_, ?_, ?_, ?_⟩
      · intro z hz
        have : z ≠ other e u := by intro h; rw [h, hv'] at hz; cases hz
        simp [this]
      · intro z y h
        by_cases hz : z = other e u
        · rw [hz, hd] at h; cases h
        · exact ⟨y, by simp [hz, h], le_refl _⟩
      · intro z y' h
        by_cases hz : z = other e u
        · right; simp only [hz, if_true, Option.some.injEq] at h; exact ⟨hz, h.symm, by rw [hz]; exact hv'⟩
        · left; simpa [hz] using h
      · intro _; exact ⟨du + e.w, by simp, le_refl _⟩
    | some y0 =>
      by_cases hlt : du + e.w < y0
      · have hR : R = { st with d := fun z => if z = other e u then some (du + e.w) else st.d z,
                                pred := fun z => if z = other e u then some (u, e.id) else st.pred z } := by
          simp [R, relaxOne, hv', hd, hlt]
        rw [hR]
        refine ⟨rfl, ?_, ?_, ?_, ?_⟩
        · intro z hz
          have : z ≠ other e u := by intro h; rw [h, hv'] at hz; cases hz
          simp [this]
        · intro z y h
          by_cases hz : z = other e u
          · rw [hz, hd] at h; cases h
            exact ⟨du + e.w, by simp [hz], le_of_lt hlt⟩
          · exact ⟨y, by simp [hz, h], le_refl _⟩
        · intro z y' h
          by_cases hz : z = other e u
          · right; simp only [hz, if_true, Option.some.injEq] at h; exact ⟨hz, h.symm, by rw [hz]; exact hv'⟩
          · left; simpa [hz] using h
        · intro _; exact ⟨du + e.w, by simp, le_refl _⟩
      · have hR : R = st := by simp [R, relaxOne, hv', hd, hlt]
        rw [hR]
        refine ⟨rfl, fun _ _ => rfl, fun z y h => ⟨y, h, le_refl _⟩, fun z y' h => Or.inl h, ?_⟩
        intro _; exact ⟨y0, hd, not_lt.mp hlt⟩

/-- what the whole relaxation loop over `es` does -/
theorem relaxAll_spec (u : Nat) (du : W) (es : List (Edge W)) (st : St W) :
    let R := es.foldl (relaxOne u du) st
    R.vis = st.vis ∧
    (∀ z, st.vis z = true → R.d z = st.d z) ∧
    (∀ z y, st.d z = some y → ∃ y', R.d z = some y' ∧ y' ≤ y) ∧
    (∀ z y', R.d z = some y' → st.d z = some y' ∨ (∃ e ∈ es, z = other e u ∧ y' = du + e.w ∧ st.vis z = false)) ∧
    (∀ e ∈ es, st.vis (other e u) = false → ∃ y, R.d (other e u) = some y ∧ y ≤ du + e.w) := by
  induction es generalizing st with
  | nil =>
    intro R
    exact ⟨rfl, fun _ _ => rfl, fun z y h => ⟨y, h, le_refl _⟩, fun z y' h => Or.inl h, fun e he => by simp at he⟩
  | cons e es ih =>
    intro R
    obtain ⟨a1, a2, a3, a4, a5⟩ := relaxOne_spec u du st e
    obtain ⟨b1, b2, b3, b4, b5⟩ := ih (relaxOne u du st e)
    have hR : R = es.foldl (relaxOne u du) (relaxOne u du st e) := by simp [R, List.foldl_cons]
    rw [hR]
    refine ⟨by rw [b1, a1], ?_, ?_, ?_, ?_⟩
    · intro z hz
      rw [b2 z (by rw [a1]; exact hz), a2 z hz]
    · intro z y h
      obtain ⟨y1, h1, l1⟩ := a3 z y h
      obtain ⟨y2, h2, l2⟩ := b3 z y1 h1
      exact ⟨y2, h2, le_trans l2 l1⟩
    · intro z y' h
      rcases b4 z y' h with h' | ⟨e', he', h1, h2, h3⟩
      · rcases a4 z y' h' with h'' | ⟨h1, h2, h3⟩
        · exact Or.inl h''
        · exact Or.inr ⟨e, by simp, h1, h2, h3⟩
      · exact Or.inr ⟨e', by simp [he'], h1, h2, by rw [← a1]; exact h3⟩
    · intro e' he' hv
      rcases List.mem_cons.mp he' with h | h
      · subst h
        obtain ⟨y, hy, ly⟩ := a5 hv
        obtain ⟨y2, h2, l2⟩ := b3 _ y hy
        exact ⟨y2, h2, le_trans l2 ly⟩
      · exact b5 e' h (by rw [a1]; exact hv)
end TV.Graph

namespace TV.Graph
variable {W : Type} [LinearOrder W] [Add W] [Zero W] [WalkAdd W]

structure Inv (net : Net W) (s : Nat) (st : St W) : Prop where
  j1 : st.d s = some 0
  j2 : ∀ u, st.vis u = true → ∀ v w, Arc net u v w → ∃ x y, st.d u = some x ∧ st.d v = some y ∧ y ≤ x + w
  j3 : ∀ v y, st.d v = some y → Walk net s v y
  j4 : ∀ u x, st.vis u = true → st.d u = some x → ∀ v y, st.vis v = false → st.d v = some y → x ≤ y
  j5 : ∀ u, st.vis u = true → ∃ x, st.d u = some x
  j6 : ∀ v y, st.d v = some y → v < net.n
  j7 : ∀ v y, st.d v = some y → 0 ≤ y

def WFNet (net : Net W) : Prop := ∀ e ∈ net.edges, e.src < net.n ∧ e.tgt < net.n ∧ 0 ≤ e.w

theorem arc_wf {net : Net W} (h : WFNet net) {u v : Nat} {w : W} (ha : Arc net u v w) : v < net.n ∧ 0 ≤ w := by
  obtain ⟨e, he, hw, hh⟩ := ha
  obtain ⟨a, b, c⟩ := h e he
  rcases hh with ⟨_, _, h3⟩ | ⟨_, _, h3⟩
  · exact ⟨by rw [← h3]; exact b, by rw [← hw]; exact c⟩
  · exact ⟨by rw [← h3]; exact a, by rw [← hw]; exact c⟩

theorem inv_init (net : Net W) (s : Nat) (hs : s < net.n) : Inv net s (St.init s) := by
  refine ⟨by simp [St.init], ?_, ?_, ?_, ?_, ?_, ?_⟩
  · intro u h; simp [St.init] at h
  · intro v y h
    simp only [St.init] at h
    split at h
    · rename_i hv; subst hv; cases h; exact Walk.nil
    · cases h
  · intro u x h; simp [St.init] at h
  · intro u h; simp [St.init] at h
  · intro v y h
    simp only [St.init] at h
    split at h
    · rename_i hv; rw [hv]; exact hs
    · cases h
  · intro v y h
    simp only [St.init] at h
    split at h
    · cases h; exact le_refl _
    · cases h

theorem inv_step (net : Net W) (hnet : WFNet net) (s : Nat) (st st' : St W)
    (hinv : Inv net s st) (hstep : step net st = some st') : Inv net s st' := by
  unfold step at hstep
  cases hp : popMinAux st net.n with
  | none => rw [hp] at hstep; cases hstep
  | some p =>
    obtain ⟨u, du⟩ := p
    rw [hp] at hstep
    simp only [Option.some.injEq] at hstep
    obtain ⟨hu_lt, hu_vis, hu_d, hu_min⟩ := (popMinAux_spec st net.n).2 u du hp
    let st1 : St W := { st with vis := fun z => if z = u then true else st.vis z }
    obtain ⟨r1, r2, r3, r4, r5⟩ := relaxAll_spec u du (nextEdges net u) st1
    have hst' : st' = (nextEdges net u).foldl (relaxOne u du) st1 := hstep.symm
    rw [← hst'] at r1 r2 r3 r4 r5
    have vis' : ∀ z, st'.vis z = if z = u then true else st.vis z := by intro z; rw [r1]
    have hu' : st'.d u = some du := by rw [r2 u (by simp [st1])]; exact hu_d
    have hdu0 : 0 ≤ du := hinv.j7 u du hu_d
    -- labels of nodes visited in st are unchanged
    have old_vis : ∀ z, st.vis z = true → st'.d z = st.d z := by
      intro z hz; exact r2 z (by simp [st1, hz])
    -- every label in st' is either an old label or du + w along an arc out of u to a node unvisited in st'
    have lab : ∀ z y', st'.d z = some y' → st.d z = some y' ∨ (∃ w, Arc net u z w ∧ y' = du + w ∧ st'.vis z = false) := by
      intro z y' hd
      rcases r4 z y' hd with h | ⟨e, he, h1, h2, h3⟩
      · exact Or.inl h
      · refine Or.inr ⟨e.w, (arc_iff_next net u z e.w).2 ⟨e, he, h1.symm, rfl⟩, h2, ?_⟩
        rw [r1]; exact h3
    have lab_ge : ∀ z y', st'.vis z = false → st'.d z = some y' → du ≤ y' := by
      intro z y' hz hd
      have hzu : z ≠ u := by intro h; rw [vis' z] at hz; simp [h] at hz
      have hzv : st.vis z = false := by rw [vis' z] at hz; simpa [hzu] using hz
      rcases lab z y' hd with h | ⟨w, ha, h2, _⟩
      · exact hu_min z y' (hinv.j6 z y' h) hzv h
      · rw [h2]; exact WalkAdd.le_add_right _ _ (arc_wf hnet ha).2
    have j7' : ∀ v y, st'.d v = some y → 0 ≤ y := by
      intro v y hd
      rcases lab v y hd with h | ⟨w, ha, h2, _⟩
      · exact hinv.j7 v y h
      · rw [h2]; exact le_trans hdu0 (WalkAdd.le_add_right _ _ (arc_wf hnet ha).2)
    refine ⟨?_, ?_, ?_, ?_, ?_, ?_, j7'⟩
    · -- j1
      obtain ⟨y', h1, h2⟩ := r3 s 0 hinv.j1
      rw [h1]; congr 1; exact le_antisymm h2 (j7' s y' h1)
    · -- j2
      intro x hx v w ha
      by_cases hxu : x = u
      · subst hxu
        by_cases hvv : st'.vis v = true
        · -- v visited in st' : its label is ≤ du
          by_cases hvu : v = x
          · subst hvu
            exact ⟨du, du, hu', hu', WalkAdd.le_add_right _ _ (arc_wf hnet ha).2⟩
          · have hv_old : st.vis v = true := by rw [vis' v] at hvv; simpa [hvu] using hvv
            obtain ⟨yv, hyv⟩ := hinv.j5 v hv_old
            have : yv ≤ du := hinv.j4 v yv hv_old hyv x du hu_vis hu_d
            refine ⟨du, yv, hu', by rw [old_vis v hv_old]; exact hyv, ?_⟩
            exact le_trans this (WalkAdd.le_add_right _ _ (arc_wf hnet ha).2)
        · have hvv' : st'.vis v = false := by cases h : st'.vis v <;> simp_all
          obtain ⟨e, he, ho, hw⟩ := (arc_iff_next net x v w).1 ha
          have hv1 : st1.vis (other e x) = false := by
            rw [ho]; have := hvv'; rw [r1] at this; exact this
          obtain ⟨y, hy, ly⟩ := r5 e he hv1
          rw [ho] at hy; rw [hw] at ly
          exact ⟨du, y, hu', hy, ly⟩
      · have hx_old : st.vis x = true := by rw [vis' x] at hx; simpa [hxu] using hx
        obtain ⟨a, b, ha1, hb1, hab⟩ := hinv.j2 x hx_old v w ha
        obtain ⟨b', hb', lb'⟩ := r3 v b hb1
        exact ⟨a, b', by rw [old_vis x hx_old]; exact ha1, hb', le_trans lb' hab⟩
    · -- j3
      intro v y hd
      rcases lab v y hd with h | ⟨w, ha, h2, _⟩
      · exact hinv.j3 v y h
      · rw [h2]; exact Walk.snoc (hinv.j3 u du hu_d) ha
    · -- j4
      intro x a hx hxa v y hv hvy
      have hge := lab_ge v y hv hvy
      by_cases hxu : x = u
      · subst hxu; rw [hu'] at hxa; cases hxa; exact hge
      · have hx_old : st.vis x = true := by rw [vis' x] at hx; simpa [hxu] using hx
        rw [old_vis x hx_old] at hxa
        exact le_trans (hinv.j4 x a hx_old hxa u du hu_vis hu_d) hge
    · -- j5
      intro x hx
      by_cases hxu : x = u
      · subst hxu; exact ⟨du, hu'⟩
      · have hx_old : st.vis x = true := by rw [vis' x] at hx; simpa [hxu] using hx
        obtain ⟨a, ha⟩ := hinv.j5 x hx_old
        exact ⟨a, by rw [old_vis x hx_old]; exact ha⟩
    · -- j6
      intro v y hd
      rcases lab v y hd with h | ⟨w, ha, _, _⟩
      · exact hinv.j6 v y h
      · exact (arc_wf hnet ha).1
end TV.Graph

namespace TV.Graph
variable {W : Type} [LinearOrder W] [Add W] [Zero W] [WalkAdd W]

theorem run_inv (net : Net W) (hnet : WFNet net) (s : Nat) (f : Nat) (st : St W)
    (hinv : Inv net s st) : Inv net s (run net f st) := by
  induction f generalizing st with
  | zero => exact hinv
  | succ f ih =>
    unfold run
    cases h : step net st with
    | none => exact hinv
    | some st' => exact ih st' (inv_step net hnet s st st' hinv h)

/-- at a fixpoint of the loop every labelled node is settled -/
theorem settled_of_done (net : Net W) (st : St W) (hdone : step net st = none)
    (v : Nat) (hv : v < net.n) (y : W) (hd : st.d v = some y) : st.vis v = true := by
  unfold step at hdone
  cases hp : popMinAux st net.n with
  | some p => rw [hp] at hdone; obtain ⟨u, du⟩ := p; cases hdone
  | none =>
    by_contra hvis
    have hvis' : st.vis v = false := by cases h : st.vis v <;> simp_all
    have := (popMinAux_spec st net.n).1 hp v hv hvis'
    rw [this] at hd; cases hd

/-- C06 core: at a fixpoint the labels are the true shortest distances -/
theorem labels_are_distances (net : Net W) (s : Nat) (st : St W)
    (hinv : Inv net s st) (hdone : step net st = none) :
    (∀ v c, Walk net s v c → ∃ y, st.d v = some y ∧ y ≤ c) ∧
    (∀ v y, st.d v = some y → Walk net s v y) := by
  refine ⟨?_, hinv.j3⟩
  intro v c hw
  induction hw with
  | nil => exact ⟨0, hinv.j1, le_refl _⟩
  | snoc hw' ha ih =>
    rename_i v t c w
    obtain ⟨y, hy, hyc⟩ := ih
    have hvis := settled_of_done net st hdone v (hinv.j6 v y hy) y hy
    obtain ⟨x, y', hx, hy', hle⟩ := hinv.j2 v hvis t w ha
    rw [hy] at hx; cases hx
    exact ⟨y', hy', le_trans hle (WalkAdd.add_le_add _ _ w hyc)⟩

/-- unreachable ⇔ sentinel -/
theorem unlabelled_iff_unreachable (net : Net W) (s : Nat) (st : St W)
    (hinv : Inv net s st) (hdone : step net st = none) (v : Nat) :
    st.d v = none ↔ ¬ ∃ c, Walk net s v c := by
  obtain ⟨h1, h2⟩ := labels_are_distances net s st hinv hdone
  constructor
  · intro hn ⟨c, hc⟩
    obtain ⟨y, hy, _⟩ := h1 v c hc
    rw [hn] at hy; cases hy
  · intro hn
    cases hd : st.d v with
    | none => rfl
    | some y => exact absurd ⟨y, h2 v y hd⟩ hn
end TV.Graph

namespace TV.Graph
variable {W : Type} [LinearOrder W] [Add W] [Zero W] [WalkAdd W]

/-- number of unsettled nodes below k -/
def cnt (st : St W) : Nat → Nat
  | 0 => 0
  | k+1 => cnt st k + (if st.vis k then 0 else 1)

theorem cnt_le (st : St W) (k : Nat) : cnt st k ≤ k := by
  induction k with
  | zero => simp [cnt]
  | succ k ih => simp only [cnt]; split <;> omega

theorem cnt_zero_all (st : St W) (k : Nat) (h : cnt st k = 0) : ∀ v, v < k → st.vis v = true := by
  induction k with
  | zero => intro v hv; omega
  | succ k ih =>
    simp only [cnt] at h
    intro v hv
    by_cases hk : st.vis k = true
    · simp only [hk, if_true] at h
      rcases Nat.lt_succ_iff_lt_or_eq.mp hv with h' | h'
      · exact ih (by omega) v h'
      · subst h'; exact hk
    · simp [hk] at h

theorem cnt_mark (st st' : St W) (u : Nat) (hu : st.vis u = false)
    (hv : ∀ z, st'.vis z = if z = u then true else st.vis z) (k : Nat) :
    cnt st' k + (if u < k then 1 else 0) = cnt st k := by
  induction k with
  | zero => simp [cnt]
  | succ k ih =>
    simp only [cnt, hv k]
    by_cases hku : k = u
    · subst hku; simp [hu]; have : ¬ (k < k) := by omega
      simp [this] at ih; omega
    · have h1 : (u < k + 1) = (u < k) := by apply propext; constructor <;> intro h <;> omega
      simp only [hku, if_false, h1]; omega

theorem step_vis (net : Net W) (st st' : St W) (h : step net st = some st') :
    ∃ u, u < net.n ∧ st.vis u = false ∧ ∀ z, st'.vis z = if z = u then true else st.vis z := by
  unfold step at h
  cases hp : popMinAux st net.n with
  | none => rw [hp] at h; cases h
  | some p =>
    obtain ⟨u, du⟩ := p
    rw [hp] at h
    simp only [Option.some.injEq] at h
    obtain ⟨a, b, _, _⟩ := (popMinAux_spec st net.n).2 u du hp
    refine ⟨u, a, b, ?_⟩
    intro z
    have := (relaxAll_spec u du (nextEdges net u) { st with vis := fun z => if z = u then true else st.vis z }).1
    rw [← h, this]

/-- `n` iterations always suffice: the Python `while len(fil) != 0` loop terminates -/
theorem run_done (net : Net W) (f : Nat) (st : St W) (hf : cnt st net.n ≤ f) :
    step net (run net f st) = none := by
  induction f generalizing st with
  | zero =>
    have h0 : cnt st net.n = 0 := by omega
    simp only [run]
    unfold step
    cases hp : popMinAux st net.n with
    | none => rfl
    | some p =>
      obtain ⟨u, du⟩ := p
      obtain ⟨a, b, _, _⟩ := (popMinAux_spec st net.n).2 u du hp
      have := cnt_zero_all st net.n h0 u a
      rw [this] at b; cases b
  | succ f ih =>
    unfold run
    cases h : step net st with
    | none => exact h
    | some st' =>
      obtain ⟨u, hu, hvu, hvis⟩ := step_vis net st st' h
      have := cnt_mark st st' u hvu hvis net.n
      simp only [hu, if_true] at this
      exact ih st' (by omega)

/-- C06-T3: the forward pass from `s` computes exactly the shortest distances -/
theorem forward_correct (net : Net W) (hnet : WFNet net) (s : Nat) (hs : s < net.n) :
    let st := run net net.n (St.init s)
    (∀ v c, Walk net s v c → ∃ y, st.d v = some y ∧ y ≤ c) ∧
    (∀ v y, st.d v = some y → Walk net s v y) ∧
    (∀ v, st.d v = none ↔ ¬ ∃ c, Walk net s v c) := by
  intro st
  have hinv : Inv net s st := run_inv net hnet s net.n _ (inv_init net s hs)
  have hdone : step net st = none := run_done net net.n _ (cnt_le _ _)
  obtain ⟨h1, h2⟩ := labels_are_distances net s st hinv hdone
  exact ⟨h1, h2, unlabelled_iff_unreachable net s st hinv hdone⟩
end TV.Graph
