import TracklibVerif.Lemmas.Filter
import TracklibVerif.Lemmas.FilterNp
import Mathlib.Tactic.Positivity
/-! Helper lemmas for C15: the kernel functions of `CubicKernel`, `SphericKernel` (polynomials in
`u = |x|/sigma`), `GaussianKernel` and `ExponentialKernel` (`math.exp` a parameter). -/
set_option linter.unusedSectionVars false
namespace TV.Filter
section kernels2
variable {α : Type} [Field α] [LinearOrder α] [IsStrictOrderedRing α]

/-- the cubic kernel as a product: `1 - (7u² - 35/4·u³ + 7/2·u⁵ - 3/4·u⁷) = (1-u)⁴·(3u³+12u²+16u+4)/4` -/
theorem cubic_factor (u : α) :
    1 - (((7 : Nat) : α) * powN u 2 - ((35 : Nat) : α) / ((4 : Nat) : α) * powN u 3
      + ((7 : Nat) : α) / ((2 : Nat) : α) * powN u 5 - ((3 : Nat) : α) / ((4 : Nat) : α) * powN u 7)
    = (1 - u) ^ 4 * (3 * u ^ 3 + 12 * u ^ 2 + 16 * u + 4) / 4 := by
  simp only [powN]
  push_cast
  ring

/-- the spheric kernel as a product: `1 - (3/2·u - 1/2·u³) = (1-u)²·(2+u)/2` -/
theorem spheric_factor (a s : α) :
    1 - (((3 : Nat) : α) / ((2 : Nat) : α) * a / s - (1 : α) / ((2 : Nat) : α) * powN (a / s) 3)
    = (1 - a / s) ^ 2 * (2 + a / s) / 2 := by
  simp only [powN]
  push_cast
  ring

theorem cubicF_even (sigma y : α) : cubicF sigma (-y) = cubicF sigma y := by
  unfold cubicF; rw [absv_neg]

theorem sphericF_even (sigma y : α) : sphericF sigma (-y) = sphericF sigma y := by
  unfold sphericF; rw [absv_neg]

theorem absv_zero : absv (0 : α) = 0 := by simp [absv]

theorem cubicF_zero (sigma : α) : cubicF sigma 0 = 1 := by
  unfold cubicF
  rw [absv_zero, zero_div]
  simp [powN]

theorem sphericF_zero (sigma : α) : sphericF sigma 0 = 1 := by
  unfold sphericF
  rw [absv_zero, zero_div]
  simp [powN]

/-- non-negative for every `x` (the second factor is positive for `u = |x|/sigma ≥ 0`) -/
theorem cubicF_nonneg (sigma x : α) (h : 0 < sigma) : 0 ≤ cubicF sigma x := by
  unfold cubicF
  rw [cubic_factor]
  have hu : 0 ≤ absv x / sigma := div_nonneg (absv_nonneg x) (le_of_lt h)
  have h4 : 0 ≤ (1 - absv x / sigma) ^ 4 := by
    have e : (1 - absv x / sigma) ^ 4 = ((1 - absv x / sigma) ^ 2) ^ 2 := by ring
    rw [e]; exact sq_nonneg _
  have hq : 0 ≤ 3 * (absv x / sigma) ^ 3 + 12 * (absv x / sigma) ^ 2 + 16 * (absv x / sigma) + 4 := by positivity
  exact div_nonneg (mul_nonneg h4 hq) (by norm_num)

theorem sphericF_nonneg (sigma x : α) (h : 0 < sigma) : 0 ≤ sphericF sigma x := by
  unfold sphericF
  rw [spheric_factor]
  have hu : 0 ≤ absv x / sigma := div_nonneg (absv_nonneg x) (le_of_lt h)
  exact div_nonneg (mul_nonneg (sq_nonneg _) (by linarith)) (by norm_num)

/-- `GaussianKernel`: even, and positive as soon as `math.exp` returns positive numbers -/
theorem gaussianF_even (expF : α → α) (c sigma y : α) : gaussianF expF c sigma (-y) = gaussianF expF c sigma y := by
  unfold gaussianF
  have e : (-y / sigma) * (-y / sigma) = (y / sigma) * (y / sigma) := by ring
  rw [e]

theorem gaussianF_pos (expF : α → α) (hexp : ∀ y, 0 < expF y) (c sigma x : α) (hc : 0 < c) (h : 0 < sigma) :
    0 < gaussianF expF c sigma x := by
  unfold gaussianF
  exact div_pos (hexp _) (mul_pos h hc)

theorem exponentialF_even (expF : α → α) (sigma y : α) : exponentialF expF sigma (-y) = exponentialF expF sigma y := by
  unfold exponentialF; rw [absv_neg]

theorem exponentialF_pos (expF : α → α) (hexp : ∀ y, 0 < expF y) (sigma x : α) (h : 0 < sigma) :
    0 < exponentialF expF sigma x := by
  unfold exponentialF
  exact div_pos (hexp _) (mul_pos (by norm_num) h)
end kernels2
end TV.Filter
