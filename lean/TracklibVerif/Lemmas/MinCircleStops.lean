import TracklibVerif.Lemmas.MinCircleAcute
import TracklibVerif.Lemmas.PartitionStops
set_option linter.unusedSectionVars false
/-! `findStopsGlobal`'s size test fed by the MODEL of `minCircle`: `circOfMinCircle` is the table `circ2` of
`findStopsGlobalPy` computed by `minCircleOfPoints` on the fixes of each segment, each call with its own draw sequence. -/
namespace TV.MinCircle
open TV.Partition
variable {K : Type} [Field K] [LinearOrder K] [IsStrictOrderedRing K]

/-- the positions of `track.extract(i, e)` -/
def segPts (tr : Nat → Fix K) (i e : Nat) : List (Pt K) :=
  (List.range (e + 1 - i)).map (fun d => ⟨(tr (i + d)).x, (tr (i + d)).y, (tr (i + d)).z⟩)

/-- `C = minCircle(track.extract(i, e))`, kept as the squared `2 * C.radius` (`None` stays `None`); `draw i e` is the draw
sequence of that call -/
def circOfMinCircle (eps : K) (draw : Nat → Nat → Nat → Nat) (tr : Nat → Fix K) (size i e : Nat) : Option K :=
  if i ≤ e ∧ e < size then
    match (minCircleOfPoints eps (draw i e) (segPts tr i e)).1 with
    | .circ c => some (4 * c.r2)
    | _ => none
  else none

theorem mem_segPts (tr : Nat → Fix K) {i e k : Nat} (h1 : i ≤ k) (h2 : k ≤ e) :
    (⟨(tr k).x, (tr k).y, (tr k).z⟩ : Pt K) ∈ segPts tr i e := by
  unfold segPts
  refine List.mem_map.mpr ⟨k - i, List.mem_range.mpr (by omega), ?_⟩
  have : i + (k - i) = k := by omega
  rw [this]

theorem enclosed_of_enc (tr : Nat → Fix K) (c : Circ K) (i e : Nat) (h : ∀ p ∈ segPts tr i e, Enc c p) :
    Enclosed tr c.cx c.cy c.r2 i e := by
  intro k h1 h2
  have := h _ (mem_segPts tr h1 h2)
  simp only [Enc, d2] at this
  have e' : ((tr k).x - c.cx) * ((tr k).x - c.cx) + ((tr k).y - c.cy) * ((tr k).y - c.cy)
      = (c.cx - (tr k).x) * (c.cx - (tr k).x) + (c.cy - (tr k).y) * (c.cy - (tr k).y) := by ring
  rw [e']; exact this

theorem enc_of_enclosed (tr : Nat → Fix K) (cx cy r2 : K) (i e : Nat) (h : Enclosed tr cx cy r2 i e) :
    ∀ p ∈ segPts tr i e, Enc (⟨cx, cy, r2⟩ : Circ K) p := by
  intro p hp
  unfold segPts at hp
  obtain ⟨d, hd, rfl⟩ := List.mem_map.mp hp
  have hd' := List.mem_range.mp hd
  have := h (i + d) (by omega) (by omega)
  simp only [Enc, d2]
  have e' : (cx - (tr (i + d)).x) * (cx - (tr (i + d)).x) + (cy - (tr (i + d)).y) * (cy - (tr (i + d)).y)
      = ((tr (i + d)).x - cx) * ((tr (i + d)).x - cx) + ((tr (i + d)).y - cy) * ((tr (i + d)).y - cy) := by ring
  rw [e']; exact this

end TV.MinCircle
