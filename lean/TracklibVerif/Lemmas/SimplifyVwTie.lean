import TracklibVerif.Model.SimplifyTie
import TracklibVerif.Lemmas.SimplifyVwAny
import TracklibVerif.Lemmas.SimplifyVw
/-! Visvalingam with **any** choice among equally small triangles (`Model/SimplifyTie.lean`): every pass removes one observation;
under T6's hypothesis (areas below ARGMIN's initial minimum) it removes an *interior* one and keeps the invariant and the consistency
of the column; the code's own run is one of these runs; the driver's level-by-level enumeration only returns such runs.
No property of the scalar type is used. -/
namespace TV.Simplify
set_option linter.unusedSectionVars false
variable {α : Type} [Add α] [Sub α] [Mul α] [Div α] [Neg α] [LT α] [DecidableLT α] [BEq α]
  [OfNat α 0] [OfNat α 1] [OfNat α 2]

/-- the model's `vwBody` is the `bodyL` of the earlier lemma files -/
theorem vwBody_eq_bodyL (S : VState α) (id : Nat) : vwBody S id = bodyL S id := rfl

/-- `vwNext` with the same test as `vwStep_eq` -/
theorem vwNext_eq (big eps2 : α) (A : VState α) :
    vwNext big eps2 A =
      if A.length > 2 then
        (if stopOf eps2 ((A[argmin big (A.map (·.2))]?).map (·.2)) = true then []
         else (tieIds big (A.map (·.2))).map (vwBody A))
      else [] := by
  unfold vwNext
  split
  · generalize argmin big (A.map (·.2)) = id
    refine congrArg (fun b : Bool => if b = true then [] else (_ : List (VState α))) ?_
    split
    · rename_i h; simp [h, stopOf]
    · rename_i h
      cases hA : A[id]? with
      | none => simp [stopOf]
      | some e =>
        obtain ⟨p, c⟩ := e
        cases c with
        | none => simp [stopOf]
        | some v => exact absurd hA (h p v)
  · rfl

/-- an index ARGMIN may answer under another tie-break is ARGMIN's own answer or designates a number -/
theorem mem_tieIds (big : α) (col : List (Option α)) (j : Nat) (h : j ∈ tieIds big col) :
    j = argmin big col ∨ ∃ w, col[j]? = some (some w) := by
  unfold tieIds at h
  simp only at h
  split at h
  · split at h
    · rcases List.mem_cons.mp h with e | hm
      · exact Or.inl e
      · right
        have h2 := (List.mem_filter.mp hm).2
        simp only [Bool.and_eq_true] at h2
        have ht := h2.2
        unfold isTie at ht
        split at ht
        · rename_i w hw; exact ⟨w, hw⟩
        · cases ht
    · exact Or.inl (List.mem_singleton.mp h)
  · exact Or.inl (List.mem_singleton.mp h)

/-- ARGMIN's own answer is always among them -/
theorem argmin_mem_tieIds (big : α) (col : List (Option α)) : argmin big col ∈ tieIds big col := by
  unfold tieIds
  simp only
  split
  · split
    · exact List.mem_cons_self
    · exact List.mem_singleton.mpr rfl
  · exact List.mem_singleton.mpr rfl

theorem vwBody_map_fst (S : VState α) (id : Nat) : (vwBody S id).map (·.1) = (S.map (·.1)).eraseIdx id := by
  have m2 : (if id > 1 then setAire (S.eraseIdx id) (id - 1) else S.eraseIdx id).map (·.1) = (S.map (·.1)).eraseIdx id := by
    split
    · rw [setAire_map_fst, map_eraseIdx']
    · rw [map_eraseIdx']
  rw [vwBody_eq_bodyL]
  unfold bodyL
  generalize (if id > 1 then setAire (S.eraseIdx id) (id - 1) else S.eraseIdx id) = S2 at m2 ⊢
  split
  · rw [setAire_map_fst]; exact m2
  · exact m2

/-- every possible next state is the body run on some index -/
theorem vwNext_body (big eps2 : α) (S S' : VState α) (hs : S' ∈ vwNext big eps2 S) :
    ∃ id, id ∈ tieIds big (S.map (·.2)) ∧ S' = vwBody S id ∧ S.length > 2 := by
  rw [vwNext_eq] at hs
  split at hs
  · rename_i hl
    split at hs
    · cases hs
    · obtain ⟨j, hj, e⟩ := List.mem_map.mp hs
      exact ⟨j, hj, e.symm, hl⟩
  · cases hs

/-- the code's own pass is one of the possible passes -/
theorem vwStep_mem_next (big eps2 : α) (S S1 : VState α) (hs : vwStep big eps2 S = some S1) : S1 ∈ vwNext big eps2 S := by
  rw [vwStep_eq] at hs
  rw [vwNext_eq]
  split at hs
  · rename_i hl
    rw [if_pos hl]
    split at hs
    · cases hs
    · rename_i hst
      rw [if_neg hst]
      cases hs
      exact List.mem_map.mpr ⟨_, argmin_mem_tieIds _ _, (vwBody_eq_bodyL _ _)⟩
  · cases hs

/-- no pass is possible exactly when the code's loop stops -/
theorem vwNext_nil_iff (big eps2 : α) (S : VState α) : vwNext big eps2 S = [] ↔ vwStep big eps2 S = none := by
  rw [vwNext_eq, vwStep_eq]
  split
  · split
    · exact ⟨fun _ => rfl, fun _ => rfl⟩
    · constructor
      · intro h
        have hm := argmin_mem_tieIds big (S.map (·.2))
        rw [List.map_eq_nil_iff] at h
        rw [h] at hm
        cases hm
      · intro h; cases h
  · exact ⟨fun _ => rfl, fun _ => rfl⟩

/-- the code's own run is a run -/
theorem vwLoop_reach (big eps2 : α) (fuel : Nat) : ∀ S : VState α, VReach big eps2 S (vwLoop big eps2 fuel S) := by
  induction fuel with
  | zero => intro S; exact VReach.refl S
  | succ fuel ih =>
    intro S
    rw [vwLoop]
    cases hs : vwStep big eps2 S with
    | none => exact VReach.refl S
    | some S1 => exact VReach.step (vwStep_mem_next big eps2 S S1 hs) (ih S1)

/-- a run followed by one more pass is a run -/
theorem VReach.tail {big eps2 : α} {S0 S : VState α} (r : VReach big eps2 S0 S) :
    ∀ S1, S1 ∈ vwNext big eps2 S → VReach big eps2 S0 S1 := by
  induction r with
  | refl S => intro S1 hm; exact VReach.step hm (VReach.refl _)
  | step hm' _ ih => intro S1 hm; exact VReach.step hm' (ih S1 hm)

/-- whatever the areas: a run only drops observations -/
theorem VReach.sublist {big eps2 : α} {S S' : VState α} (r : VReach big eps2 S S') :
    (S'.map (·.1)).Sublist (S.map (·.1)) := by
  induction r with
  | refl S => exact List.Sublist.refl _
  | step hm _ ih =>
    obtain ⟨id, _, e, _⟩ := vwNext_body _ _ _ _ hm
    subst e
    exact ih.trans (by rw [vwBody_map_fst]; exact List.eraseIdx_sublist _ _)

/-! ### under T6's hypothesis -/

theorem map_snd_num (S : VState α) (j : Nat) (w : α) (h : (S.map (·.2))[j]? = some (some w)) :
    ∃ p, S[j]? = some (p, some w) := by
  rw [List.getElem?_map] at h
  cases hx : S[j]? with
  | none => rw [hx] at h; cases h
  | some e =>
    obtain ⟨p, c⟩ := e
    rw [hx] at h
    simp only [Option.map_some, Option.some.injEq] at h
    subst h
    exact ⟨p, rfl⟩

/-- under the invariant, an entry that is a number belongs to an interior observation -/
theorem VInv.interior {big : α} {L : List (Fix α)} {S : VState α} (h : VInv big L S) (j : Nat) (p : Fix α) (v : α)
    (hj : S[j]? = some (p, some v)) : 0 < j ∧ j + 1 < S.length := by
  have hjlt : j < S.length := (List.getElem?_eq_some_iff.mp hj).1
  constructor
  · cases j with
    | zero => obtain ⟨q, hq⟩ := h.first; rw [hq] at hj; simp at hj
    | succ j => omega
  · by_cases hc : j = S.length - 1
    · obtain ⟨q, hq⟩ := h.last; rw [← hc] at hq; rw [hq] at hj; simp at hj
    · omega

/-- under the invariant ARGMIN designates a number -/
theorem VInv.argmin_num {big : α} {L : List (Fix α)} {S : VState α} (h : VInv big L S) (hl : S.length > 2) :
    ∃ p v, S[argmin big (S.map (·.2))]? = some (p, some v) := by
  obtain ⟨p1, v1, hp1, hv1⟩ := h.mid 1 (by omega) (by omega)
  obtain ⟨j, v, eid, hj⟩ := argmin_hit big (S.map (·.2)) ⟨1, v1, by simp [hp1], Or.inl hv1⟩
  rw [eid]
  obtain ⟨p, hp⟩ := map_snd_num S j v hj
  exact ⟨p, v, hp⟩

/-- the body on an interior index keeps the invariant -/
theorem vwBody_inv (big : α) (L : List (Fix α)) (hbig : ∀ a b c, a ∈ L → b ∈ L → c ∈ L → areaFix a b c < big)
    (S : VState α) (h : VInv big L S) (j : Nat) (hj0 : 0 < j) (hj1 : j + 1 < S.length) : VInv big L (vwBody S j) := by
  have hjlt : j < S.length := by omega
  have hl1 : (S.eraseIdx j).length = S.length - 1 := List.length_eraseIdx_of_lt hjlt
  have i1 : VInv big L (S.eraseIdx j) := h.erase j hj0 hj1
  have i2 : VInv big L (if j > 1 then setAire (S.eraseIdx j) (j - 1) else S.eraseIdx j) := by
    split
    · exact i1.setAire hbig (j - 1) (by omega) (by omega)
    · exact i1
  have l2 : (if j > 1 then setAire (S.eraseIdx j) (j - 1) else S.eraseIdx j).length = S.length - 1 := by
    split
    · rw [setAire_length]; exact hl1
    · exact hl1
  rw [vwBody_eq_bodyL]
  unfold bodyL
  generalize (if j > 1 then setAire (S.eraseIdx j) (j - 1) else S.eraseIdx j) = S2 at i2 l2 ⊢
  split
  · exact i2.setAire hbig j hj0 (by omega)
  · exact i2

/-- … and the consistency of the column -/
theorem vwBody_cons (S : VState α) (id : Nat) (hc : VCons S) (hid0 : 0 < id) (hid1 : id + 1 < S.length) :
    VCons (vwBody S id) :=
  bodyCons S id hc hid0 hid1

/-- under the invariant every possible pass removes an interior observation -/
theorem vwNext_interior (big eps2 : α) (L : List (Fix α)) (S S' : VState α) (h : VInv big L S)
    (hs : S' ∈ vwNext big eps2 S) : ∃ id, 0 < id ∧ id + 1 < S.length ∧ S' = vwBody S id := by
  obtain ⟨j, hj, e, hl⟩ := vwNext_body big eps2 S S' hs
  have hnum : ∃ p v, S[j]? = some (p, some v) := by
    rcases mem_tieIds _ _ _ hj with e1 | ⟨w, hw⟩
    · rw [e1]; exact h.argmin_num hl
    · obtain ⟨p, hp⟩ := map_snd_num S j w hw
      exact ⟨p, w, hp⟩
  obtain ⟨p, v, hpv⟩ := hnum
  obtain ⟨a, b⟩ := h.interior j p v hpv
  exact ⟨j, a, b, e⟩

/-- a run under T6's hypothesis: invariant and consistency kept, both end observations kept -/
theorem VReach.spec {big eps2 : α} (L : List (Fix α)) (hbig : ∀ a b c, a ∈ L → b ∈ L → c ∈ L → areaFix a b c < big)
    {S S' : VState α} (r : VReach big eps2 S S') :
    VInv big L S → VCons S →
      VInv big L S' ∧ VCons S' ∧ (S'.map (·.1)).head? = (S.map (·.1)).head? ∧
      (S'.map (·.1)).getLast? = (S.map (·.1)).getLast? := by
  induction r with
  | refl S => intro h hc; exact ⟨h, hc, rfl, rfl⟩
  | step hm _ ih =>
    intro h hc
    obtain ⟨id, h0, h1, e⟩ := vwNext_interior _ _ L _ _ h hm
    subst e
    obtain ⟨r1, r2, r3, r4⟩ := ih (vwBody_inv _ L hbig _ h id h0 h1) (vwBody_cons _ id hc h0 h1)
    refine ⟨r1, r2, ?_, ?_⟩
    · rw [r3, vwBody_map_fst, head?_eraseIdx_pos _ _ h0]
    · rw [r4, vwBody_map_fst, getLast?_eraseIdx_interior _ _ (by rw [List.length_map]; exact h1)]

/-! ### no hypothesis on the areas: the last observation stays -/

/-- whatever the areas: no index that a tie-break may answer is the last one (its entry is NaN) while more than one observation remains -/
theorem tieIds_not_last (big : α) (S : VState α) (hl : 1 < S.length) (h : LastNaN S) (j : Nat)
    (hj : j ∈ tieIds big (S.map (·.2))) : j + 1 < S.length := by
  rcases mem_tieIds _ _ _ hj with e | ⟨w, hw⟩
  · rw [e]; exact argmin_not_last big S hl h
  · obtain ⟨p, hp⟩ := map_snd_num S j w hw
    have hjlt : j < S.length := (List.getElem?_eq_some_iff.mp hp).1
    by_cases hc : j = S.length - 1
    · obtain ⟨q, hq⟩ := h; rw [← hc] at hq; rw [hq] at hp; simp at hp
    · omega

/-- a run with any tie-break, **no hypothesis on the areas**: the last observation stays, two or more observations stay two or more -/
theorem VReach.any {big eps2 : α} {S S' : VState α} (r : VReach big eps2 S S') :
    LastNaN S → LastNaN S' ∧ (S'.map (·.1)).getLast? = (S.map (·.1)).getLast? ∧ (2 ≤ S.length → 2 ≤ S'.length) := by
  induction r with
  | refl S => intro h; exact ⟨h, rfl, fun h => h⟩
  | step hm _ ih =>
    intro h
    obtain ⟨id, hid, e, hl⟩ := vwNext_body _ _ _ _ hm
    subst e
    have h1 := tieIds_not_last big _ (by omega) h id hid
    rw [vwBody_eq_bodyL] at ih
    obtain ⟨a, b, c⟩ := bodyL_any _ id h h1
    obtain ⟨r1, r2, r3⟩ := ih a
    refine ⟨r1, ?_, fun _ => r3 (by omega)⟩
    rw [r2, c, getLast?_eraseIdx_interior _ _ (by rw [List.length_map]; exact h1)]

/-! ### the driver's enumeration is sound -/

theorem mem_dedupTags (l : List (VState α)) (S : VState α) (h : S ∈ dedupTags l) : S ∈ l := by
  have gen : ∀ (l acc : List (VState α)),
      S ∈ l.foldl (fun acc S => if acc.any (fun T => tagsOf T == tagsOf S) then acc else acc ++ [S]) acc → S ∈ acc ∨ S ∈ l := by
    intro l
    induction l with
    | nil => intro acc h; exact Or.inl h
    | cons a l ih =>
      intro acc h
      rw [List.foldl_cons] at h
      rcases ih _ h with h1 | h1
      · split at h1
        · exact Or.inl h1
        · rcases List.mem_append.mp h1 with h2 | h2
          · exact Or.inl h2
          · right; rw [List.mem_singleton.mp h2]; exact List.mem_cons_self
      · exact Or.inr (List.mem_cons_of_mem _ h1)
  rcases gen l [] h with h1 | h1
  · cases h1
  · exact h1

/-- everything the level-by-level enumeration returns is a state reached by a run, in which the loop stops -/
theorem vwAllLevels_sound (big eps2 : α) (cap : Nat) (S0 : VState α) (fuel : Nat) :
    ∀ (frontier finals R : List (VState α)),
      (∀ S ∈ frontier, VReach big eps2 S0 S) → (∀ S ∈ finals, VReach big eps2 S0 S ∧ vwNext big eps2 S = []) →
      vwAllLevels big eps2 cap fuel frontier finals = some R →
      ∀ S ∈ R, VReach big eps2 S0 S ∧ vwNext big eps2 S = [] := by
  induction fuel with
  | zero =>
    intro frontier finals R _ hf h
    rw [vwAllLevels] at h
    split at h
    · cases h; exact hf
    · cases h
  | succ fuel ih =>
    intro frontier finals R hfr hf h
    rw [vwAllLevels] at h
    split at h
    · cases h; exact hf
    · split at h
      · cases h
      · refine ih _ _ R ?_ ?_ h
        · intro S hS
          obtain ⟨T, hT, hST⟩ := List.mem_flatMap.mp (mem_dedupTags _ S hS)
          exact (hfr T hT).tail S hST
        · intro S hS
          rcases List.mem_append.mp hS with h1 | h1
          · exact hf S h1
          · obtain ⟨a, b⟩ := List.mem_filter.mp h1
            exact ⟨hfr S a, List.isEmpty_iff.mp b⟩

end TV.Simplify
