import TracklibVerif.Lemmas.Split
/-! Helper lemmas for C11: `split` with a limit, `extract`, index-list split, collections. -/
namespace TV.Split
variable {β : Type}

/-- the loop with the `limit` filter emits the pieces of the plain loop that are not `short`; the current piece and
the `begin != 0` flag are the same -/
theorem goL_go (short : List β → Bool) (obs : List (β × Bool)) (cur : List β) (acc : List (List β)) (st : Bool) :
    goL short obs cur (acc.filter (fun p => !short p)) st =
      (((go obs cur acc st).1).filter (fun p => !short p), (go obs cur acc st).2.1, (go obs cur acc st).2.2) := by
  induction obs generalizing cur acc st with
  | nil => rfl
  | cons p rest ih =>
    obtain ⟨o, m⟩ := p
    cases m with
    | true =>
      simp only [goL, go, if_true]
      have h := ih [] (acc ++ [cur ++ [o]]) true
      cases hs : short (cur ++ [o]) with
      | true =>
        simp only [List.filter_append, List.filter_cons, hs, Bool.not_true, Bool.false_eq_true, if_false,
          List.filter_nil, List.append_nil] at h
        simpa using h
      | false =>
        simp only [List.filter_append, List.filter_cons, hs, Bool.not_false, if_true, List.filter_nil] at h
        simpa using h
    | false =>
      simp only [goL, go, Bool.false_eq_true, if_false]
      exact ih (cur ++ [o]) acc st

theorem dropLast_append_getLast? (l : List β) : l.dropLast ++ l.getLast?.toList = l := by
  induction l with
  | nil => rfl
  | cons a t ih =>
    cases t with
    | nil => rfl
    | cons b t => rw [List.dropLast_cons_cons, List.getLast?_cons_cons, List.cons_append, ih]

/-- `split` in terms of its loop, with or without a marker -/
theorem split_eq_go (obs : List (β × Bool)) :
    split obs = (go obs [] [] false).1 ++ (if (go obs [] [] false).2.2 then [(go obs [] [] false).2.1] else []) := by
  unfold split
  generalize go obs [] [] false = r
  obtain ⟨acc, cur, started⟩ := r
  cases started <;> simp

/-- the collection returned with a limit: the pieces of the plain split that pass their filter, in order -/
theorem splitL_eq_filter (short keepTail : List β → Bool) (obs : List (β × Bool)) :
    splitL short keepTail obs =
      (split obs).dropLast.filter (fun p => !short p) ++ ((split obs).getLast?.toList).filter keepTail := by
  have h := goL_go short obs [] [] false
  simp only [List.filter_nil] at h
  rw [split_eq_go]
  unfold splitL
  rw [h]
  cases hst : (go obs [] [] false).2.2 with
  | true =>
    simp only [if_true, List.dropLast_concat, List.getLast?_concat, Option.toList_some, List.filter_cons,
      List.filter_nil]
    cases keepTail (go obs [] [] false).2.1 <;> simp
  | false =>
    have hacc : (go obs [] [] false).1 = [] := by
      have h2 := (go_spec obs [] [] false).2
      simp only [Bool.false_or] at h2
      rw [hst] at h2
      have := split_none obs h2.symm
      rw [split_eq_go, hst] at this
      simpa using this
    simp [hacc]

theorem sublist_flatten {l₁ l₂ : List (List β)} (h : l₁.Sublist l₂) : l₁.flatten.Sublist l₂.flatten := by
  induction h with
  | slnil => exact List.Sublist.refl _
  | cons a _ ih =>
    rw [List.flatten_cons]
    exact ih.trans (List.sublist_append_right _ _)
  | cons_cons a _ ih =>
    rw [List.flatten_cons, List.flatten_cons]
    exact List.Sublist.append_left ih a

theorem splitL_sublist (short keepTail : List β → Bool) (obs : List (β × Bool)) :
    (splitL short keepTail obs).Sublist (split obs) := by
  rw [splitL_eq_filter]
  conv => rhs; rw [← dropLast_append_getLast? (split obs)]
  exact List.Sublist.append List.filter_sublist List.filter_sublist

/-- the flattened plain split is the track, or nothing -/
theorem split_flatten_sublist (obs : List (β × Bool)) : (split obs).flatten.Sublist (obs.map Prod.fst) := by
  cases h : obs.any Prod.snd with
  | true => rw [split_partition obs h]; exact List.Sublist.refl _
  | false => rw [split_none obs h]; simp

/-! ### `extract` -/

theorem pyIndex_nat (l : List β) (k : Nat) : pyIndex l (k : Int) = l[k]? := by
  simp [pyIndex]

theorem pyRange_nat (a n : Nat) : pyRange (a : Int) ((a : Int) + n) = (List.range' a n).map (fun (k : Nat) => (k : Int)) := by
  unfold pyRange
  have : ((a : Int) + n - a).toNat = n := by omega
  rw [this]
  apply List.ext_getElem
  · simp
  · intro i h1 h2
    simp [List.getElem_range']

theorem mapM_getElem?_range' (l : List β) (a n : Nat) (h : a + n ≤ l.length) :
    (List.range' a n).mapM (fun k => l[k]?) = some ((l.drop a).take n) := by
  induction n generalizing a with
  | zero => simp
  | succ n ih =>
    have ha : a < l.length := by omega
    rw [List.range'_succ, List.mapM_cons, List.getElem?_eq_getElem ha]
    have := ih (a + 1) (by omega)
    simp only [Option.pure_def, Option.bind_eq_bind, Option.bind_some]
    rw [this]
    simp only [Option.bind_some]
    congr 1
    rw [List.drop_eq_getElem_cons ha, List.take_succ_cons]

/-- `extract(a, b)` with `0 ≤ a ≤ b < size`: the observations `a..b`, both ends included -/
theorem extract_range (l : List β) (a b : Nat) (hab : a ≤ b) (hb : b < l.length) :
    extract l (a : Int) (b : Int) = some ((l.drop a).take (b + 1 - a)) := by
  unfold extract
  have e : ((b : Int) + 1) = (a : Int) + ((b + 1 - a : Nat) : Int) := by omega
  rw [e, pyRange_nat, List.mapM_map]
  simp only [Function.comp_def, pyIndex_nat]
  exact mapM_getElem?_range' l a (b + 1 - a) (by omega)

/-- `extract(a, b)` with `a > b` is the empty track (this is what closes `split` when the last observation is marked) -/
theorem extract_empty (l : List β) (a b : Int) (h : b < a) : extract l a b = some [] := by
  unfold extract pyRange
  have : (b + 1 - a).toNat = 0 := by omega
  rw [this]; rfl

/-! ### collections -/
theorem splitColl_flatten (tracks : List (List (β × Bool))) :
    (splitColl tracks).flatten = ((tracks.filter (fun t => t.any Prod.snd)).map (List.map Prod.fst)).flatten := by
  induction tracks with
  | nil => rfl
  | cons t ts ih =>
    simp only [splitColl, List.flatMap_cons, List.flatten_append] at ih ⊢
    rw [ih]
    cases h : t.any Prod.snd with
    | true => simp [h, split_partition t h]
    | false => simp [h, split_none t h]
end TV.Split
