import TracklibVerif.Lemmas.ViterbiLik
import Mathlib.Tactic.Ring
import Mathlib.Tactic.Linarith
import Mathlib.Tactic.Positivity
/-! Likelihood 0 and the `1e-300` guard (C09), over the reals.

`HMM.Plog` / `HMM.Qlog` add a guard `eps > 0` to every likelihood before taking the logarithm, so a likelihood 0
costs `-log eps` (690.78 for `eps = 1e-300`) instead of `+∞`. What is maximised is `Π (v + eps)` over the
`2N+1` factors of a sequence. When the non-zero likelihoods lie in `[a, b]` and `eps` is small against them
(`eps · (b+eps)^(2N) < a^(2N+1)`), a sequence with fewer zero factors always has the larger guarded product:
the decoder first minimises the number of zero factors. -/
namespace TV.Viterbi
open Classical

variable (p : Nat → Nat → ℝ) (q : Nat → Nat → Nat → ℝ)

/-- number of factors equal to 0 among the `2k+1` likelihoods of `σ` up to epoch `k` -/
noncomputable def nzero (σ : Nat → Nat) : Nat → Nat
  | 0 => if p 0 (σ 0) = 0 then 1 else 0
  | k+1 => (if q k (σ k) (σ (k+1)) = 0 then 1 else 0) + nzero σ k + (if p (k+1) (σ (k+1)) = 0 then 1 else 0)

/-- number of non-zero factors -/
noncomputable def npos (σ : Nat → Nat) : Nat → Nat
  | 0 => if p 0 (σ 0) = 0 then 0 else 1
  | k+1 => (if q k (σ k) (σ (k+1)) = 0 then 0 else 1) + npos σ k + (if p (k+1) (σ (k+1)) = 0 then 0 else 1)

theorem nzero_add_npos (σ : Nat → Nat) (k : Nat) : nzero p q σ k + npos p q σ k = 2 * k + 1 := by
  induction k with
  | zero => simp only [nzero, npos]; split <;> rfl
  | succ k ih =>
    simp only [nzero, npos]
    split <;> split <;> omega

/-- one guarded factor between the two bounds -/
theorem factor_bounds (eps a b v : ℝ) (he : 0 < eps) (ha : 0 < a) (hv : v = 0 ∨ (a ≤ v ∧ v ≤ b)) (z n : Nat)
    (hz : z = (if v = 0 then 1 else 0)) (hn : n = (if v = 0 then 0 else 1)) :
    eps ^ z * a ^ n ≤ v + eps ∧ v + eps ≤ eps ^ z * (b + eps) ^ n := by
  rcases hv with h0 | ⟨h1, h2⟩
  · subst h0
    simp at hz hn
    subst hz hn
    simp
  · have hne : v ≠ 0 := by intro h; rw [h] at h1; linarith
    simp [hne] at hz hn
    subst hz hn
    simp
    constructor <;> linarith

variable (n : Nat → Nat) (eps a b : ℝ) (N : Nat)

/-- `eps^z · a^m ≤ Π (v + eps) ≤ eps^z · (b+eps)^m` with `z` zero and `m` non-zero factors -/
theorem lik_bounds (he : 0 < eps) (ha : 0 < a)
    (hp : ∀ k l, k ≤ N → l < n k → p k l = 0 ∨ (a ≤ p k l ∧ p k l ≤ b))
    (hq : ∀ k m l, k < N → m < n k → l < n (k+1) → q k m l = 0 ∨ (a ≤ q k m l ∧ q k m l ≤ b))
    (σ : Nat → Nat) (hσ : ∀ k, k ≤ N → σ k < n k) (k : Nat) (hk : k ≤ N) :
    eps ^ nzero p q σ k * a ^ npos p q σ k ≤ lik p q eps σ k ∧
    lik p q eps σ k ≤ eps ^ nzero p q σ k * (b + eps) ^ npos p q σ k := by
  induction k with
  | zero =>
    simp only [nzero, npos, lik]
    exact factor_bounds eps a b _ he ha (hp 0 (σ 0) hk (hσ 0 hk)) _ _ rfl rfl
  | succ k ih =>
    obtain ⟨l1, u1⟩ := ih (by omega)
    obtain ⟨l2, u2⟩ := factor_bounds eps a b (q k (σ k) (σ (k+1))) he ha
      (hq k (σ k) (σ (k+1)) (by omega) (hσ k (by omega)) (hσ (k+1) hk)) _ _ rfl rfl
    obtain ⟨l3, u3⟩ := factor_bounds eps a b (p (k+1) (σ (k+1))) he ha
      (hp (k+1) (σ (k+1)) hk (hσ (k+1) hk)) _ _ rfl rfl
    simp only [nzero, npos, lik]
    have p1 : 0 ≤ eps ^ (if q k (σ k) (σ (k+1)) = 0 then 1 else 0) * a ^ (if q k (σ k) (σ (k+1)) = 0 then 0 else 1) := by positivity
    have p2 : 0 ≤ eps ^ nzero p q σ k * a ^ npos p q σ k := by positivity
    have p3 : 0 ≤ eps ^ (if p (k+1) (σ (k+1)) = 0 then 1 else 0) * a ^ (if p (k+1) (σ (k+1)) = 0 then 0 else 1) := by positivity
    have q1 : 0 ≤ q k (σ k) (σ (k+1)) + eps := le_trans p1 l2
    have q2 : 0 ≤ lik p q eps σ k := le_trans p2 l1
    have q3 : 0 ≤ p (k+1) (σ (k+1)) + eps := le_trans p3 l3
    constructor
    · calc eps ^ ((if q k (σ k) (σ (k+1)) = 0 then 1 else 0) + nzero p q σ k + (if p (k+1) (σ (k+1)) = 0 then 1 else 0))
            * a ^ ((if q k (σ k) (σ (k+1)) = 0 then 0 else 1) + npos p q σ k + (if p (k+1) (σ (k+1)) = 0 then 0 else 1))
          = (eps ^ (if q k (σ k) (σ (k+1)) = 0 then 1 else 0) * a ^ (if q k (σ k) (σ (k+1)) = 0 then 0 else 1))
            * (eps ^ nzero p q σ k * a ^ npos p q σ k)
            * (eps ^ (if p (k+1) (σ (k+1)) = 0 then 1 else 0) * a ^ (if p (k+1) (σ (k+1)) = 0 then 0 else 1)) := by
              rw [pow_add, pow_add, pow_add, pow_add]; ring
        _ ≤ (q k (σ k) (σ (k+1)) + eps) * lik p q eps σ k * (p (k+1) (σ (k+1)) + eps) :=
              mul_le_mul (mul_le_mul l2 l1 p2 q1) l3 p3 (mul_nonneg q1 q2)
    · calc (q k (σ k) (σ (k+1)) + eps) * lik p q eps σ k * (p (k+1) (σ (k+1)) + eps)
          ≤ (eps ^ (if q k (σ k) (σ (k+1)) = 0 then 1 else 0) * (b + eps) ^ (if q k (σ k) (σ (k+1)) = 0 then 0 else 1))
            * (eps ^ nzero p q σ k * (b + eps) ^ npos p q σ k)
            * (eps ^ (if p (k+1) (σ (k+1)) = 0 then 1 else 0) * (b + eps) ^ (if p (k+1) (σ (k+1)) = 0 then 0 else 1)) := by
              apply mul_le_mul (mul_le_mul u2 u1 q2 (le_trans q1 u2)) u3 q3
              exact mul_nonneg (le_trans q1 u2) (le_trans q2 u1)
        _ = _ := by rw [pow_add, pow_add, pow_add, pow_add]; ring

/-- the separation hypothesis goes down: fewer non-zero factors on the larger side only help -/
theorem sep_down (eps a B : ℝ) (ha : 0 < a) (haB : a ≤ B) (M : Nat)
    (h : eps * B ^ M < a ^ (M + 1)) : ∀ e, e ≤ M → eps * B ^ e < a ^ (e + 1) := by
  induction M with
  | zero => intro e he'; have : e = 0 := by omega
            subst this; exact h
  | succ M ih =>
    intro e he'
    by_cases hM : e = M + 1
    · subst hM; exact h
    · apply ih _ e (by omega)
      have hB : 0 < B := lt_of_lt_of_le ha haB
      have h1 : eps * B ^ M * B < a ^ (M + 1) * B := by
        calc eps * B ^ M * B = eps * B ^ (M + 1) := by rw [pow_succ]; ring
          _ < a ^ (M + 1 + 1) := h
          _ = a ^ (M + 1) * a := by rw [pow_succ]
          _ ≤ a ^ (M + 1) * B := by
              apply mul_le_mul_of_nonneg_left haB
              positivity
      exact lt_of_mul_lt_mul_right h1 (le_of_lt hB)

/-- a candidate sequence with fewer zero factors has the strictly larger guarded product -/
theorem lik_lt_of_nzero_lt (he : 0 < eps) (ha : 0 < a) (hea : eps ≤ a) (hab : a ≤ b)
    (hsep : eps * (b + eps) ^ (2 * N) < a ^ (2 * N + 1))
    (hp : ∀ k l, k ≤ N → l < n k → p k l = 0 ∨ (a ≤ p k l ∧ p k l ≤ b))
    (hq : ∀ k m l, k < N → m < n k → l < n (k+1) → q k m l = 0 ∨ (a ≤ q k m l ∧ q k m l ≤ b))
    (σ τ : Nat → Nat) (hσ : ∀ k, k ≤ N → σ k < n k) (hτ : ∀ k, k ≤ N → τ k < n k)
    (hlt : nzero p q σ N < nzero p q τ N) : lik p q eps τ N < lik p q eps σ N := by
  obtain ⟨lo, _⟩ := lik_bounds p q n eps a b N he ha hp hq σ hσ N (Nat.le_refl _)
  obtain ⟨_, up⟩ := lik_bounds p q n eps a b N he ha hp hq τ hτ N (Nat.le_refl _)
  have sσ := nzero_add_npos p q σ N
  have sτ := nzero_add_npos p q τ N
  -- zτ = zσ + d, d ≥ 1, nσ = nτ + d, nτ ≤ 2N
  obtain ⟨d, hd⟩ : ∃ d, nzero p q τ N = nzero p q σ N + (d + 1) := ⟨nzero p q τ N - nzero p q σ N - 1, by omega⟩
  have hn : npos p q σ N = npos p q τ N + (d + 1) := by omega
  have hle : npos p q τ N ≤ 2 * N := by omega
  have haB : a ≤ b + eps := by linarith
  have key := sep_down eps a (b + eps) ha haB (2 * N) hsep (npos p q τ N) hle
  have hz : 0 < eps ^ nzero p q σ N := by positivity
  have hd1 : eps ^ d ≤ a ^ d := pow_le_pow_left₀ (le_of_lt he) hea d
  have had : 0 < a ^ d := by positivity
  have hB : 0 ≤ (b + eps) ^ npos p q τ N := by
    have : 0 ≤ b + eps := by linarith
    positivity
  calc lik p q eps τ N ≤ eps ^ nzero p q τ N * (b + eps) ^ npos p q τ N := up
    _ = eps ^ nzero p q σ N * (eps ^ d * (eps * (b + eps) ^ npos p q τ N)) := by
        rw [hd, pow_add, pow_succ]; ring
    _ ≤ eps ^ nzero p q σ N * (a ^ d * (eps * (b + eps) ^ npos p q τ N)) := by
        apply mul_le_mul_of_nonneg_left _ (le_of_lt hz)
        apply mul_le_mul_of_nonneg_right hd1
        exact mul_nonneg (le_of_lt he) hB
    _ < eps ^ nzero p q σ N * (a ^ d * a ^ (npos p q τ N + 1)) := by
        apply mul_lt_mul_of_pos_left _ hz
        exact mul_lt_mul_of_pos_left key had
    _ = eps ^ nzero p q σ N * a ^ npos p q σ N := by
        rw [hn, pow_add, pow_add, pow_succ, pow_succ]; ring
    _ ≤ lik p q eps σ N := lo
end TV.Viterbi
