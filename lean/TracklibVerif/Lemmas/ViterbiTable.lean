import TracklibVerif.Lemmas.Viterbi
/-! Refinement: the table-building executable form of `Model/Viterbi.lean` (`forward`, `argmin?`, `walk`,
`decode` — what the driver runs) equals the function-style form (`val`, `mrk`, `back`) the optimality
lemmas of `Lemmas/Viterbi.lean` are about. -/
namespace TV.Viterbi
variable {α : Type} [LinearOrder α]

theorem scanMin_congr (big : α) (f g : Nat → α) (n : Nat) (h : ∀ m, m < n → f m = g m) :
    scanMin big f n = scanMin big g n := by
  induction n with
  | zero => rfl
  | succ n ih =>
    simp only [scanMin]
    rw [ih (fun m hm => h m (by omega)), h n (by omega)]

/-- the index returned by the scan is in range as soon as there is one candidate (no sentinel hypothesis) -/
theorem scanMin_idx_lt (big : α) (f : Nat → α) (n : Nat) : (scanMin big f (n+1)).2 < n + 1 := by
  induction n with
  | zero =>
    simp only [scanMin]
    by_cases h : f 0 < big <;> simp [h]
  | succ n ih =>
    rw [scanMin]
    split
    rename_i bv ba heq
    rw [heq] at ih
    simp only at ih
    split
    · simp
    · simp only; omega

theorem mrk_lt (t : Tables α) (k l : Nat) (hk : 0 < t.n k) : mrk t k l < t.n k := by
  unfold mrk
  obtain ⟨n, hn⟩ : ∃ n, t.n k = n + 1 := ⟨t.n k - 1, by omega⟩
  rw [hn]
  exact scanMin_idx_lt _ _ n

/-- the back-pointer path is valid (needs only that every epoch has a state) -/
theorem back_lt_n (t : Tables α) (k l : Nat) (hpos : ∀ j, j ≤ k → 0 < t.n j) (hl : l < t.n k) :
    ∀ j, j ≤ k → back t k l j < t.n j := by
  induction k generalizing l with
  | zero =>
    intro j hj
    have : j = 0 := by omega
    subst this; simpa [back] using hl
  | succ k ih =>
    intro j hj
    by_cases h : j = k + 1
    · subst h; rw [back_self]; exact hl
    · rw [back_lt t k l j (by omega)]
      exact ih (mrk t k l) (fun i hi => hpos i (by omega)) (mrk_lt t k l (hpos k (by omega))) j (by omega)

/-- the path through `(j, back N l j)` is the path from `(N, l)` cut at `j` -/
theorem back_back (t : Tables α) (N l : Nat) : ∀ j i, j ≤ N → i ≤ j →
    back t j (back t N l j) i = back t N l i := by
  induction N generalizing l with
  | zero =>
    intro j i hj hi
    have : j = 0 := by omega
    subst this
    have : i = 0 := by omega
    subst this
    simp [back]
  | succ N ih =>
    intro j i hj hi
    by_cases h : j = N + 1
    · subst h; rw [back_self]
    · rw [back_lt t N l j (by omega), back_lt t N l i (by omega)]
      exact ih (mrk t N l) j i (by omega) hi

/-! ### numpy.argmin -/

theorem argminFrom_spec (xs : List α) : ∀ (best : α) (bi i : Nat), ∃ v,
    ((argminFrom best bi i xs = bi ∧ v = best) ∨
      (i ≤ argminFrom best bi i xs ∧ xs[argminFrom best bi i xs - i]? = some v)) ∧
    v ≤ best ∧ ∀ x ∈ xs, v ≤ x := by
  induction xs with
  | nil => intro best bi i; exact ⟨best, Or.inl ⟨rfl, rfl⟩, le_refl _, by simp⟩
  | cons x xs ih =>
    intro best bi i
    by_cases hlt : x < best
    · obtain ⟨v, h1, h2, h3⟩ := ih x i (i+1)
      have e : argminFrom best bi i (x :: xs) = argminFrom x i (i+1) xs := by simp [argminFrom, isNaN, hlt]
      rw [e]
      refine ⟨v, Or.inr ?_, le_trans h2 (le_of_lt hlt), ?_⟩
      · rcases h1 with ⟨h, hv⟩ | ⟨h, hv⟩
        · rw [h]; subst hv; simp
        · refine ⟨by omega, ?_⟩
          have : argminFrom x i (i+1) xs - i = (argminFrom x i (i+1) xs - (i+1)) + 1 := by omega
          rw [this]; simpa using hv
      · intro y hy
        rcases List.mem_cons.mp hy with h | h
        · subst h; exact h2
        · exact h3 y h
    · obtain ⟨v, h1, h2, h3⟩ := ih best bi (i+1)
      have e : argminFrom best bi i (x :: xs) = argminFrom best bi (i+1) xs := by simp [argminFrom, isNaN, hlt]
      rw [e]
      refine ⟨v, ?_, h2, ?_⟩
      · rcases h1 with ⟨h, hv⟩ | ⟨h, hv⟩
        · exact Or.inl ⟨h, hv⟩
        · refine Or.inr ⟨by omega, ?_⟩
          have : argminFrom best bi (i+1) xs - i = (argminFrom best bi (i+1) xs - (i+1)) + 1 := by omega
          rw [this]; simpa using hv
      · intro y hy
        rcases List.mem_cons.mp hy with h | h
        · subst h; exact le_trans h2 (not_lt.mp hlt)
        · exact h3 y h

/-- `numpy.argmin` of a non-empty list returns a valid index of a minimal element (in a linear order nothing is a NaN) -/
theorem argmin?_spec (xs : List α) (hne : xs ≠ []) :
    ∃ r v, argmin? xs = some r ∧ xs[r]? = some v ∧ ∀ x ∈ xs, v ≤ x := by
  cases xs with
  | nil => exact absurd rfl hne
  | cons x xs =>
    obtain ⟨v, h1, h2, h3⟩ := argminFrom_spec xs x 0 1
    refine ⟨argminFrom x 0 1 xs, v, by simp [argmin?, isNaN], ?_, ?_⟩
    · rcases h1 with ⟨h, hv⟩ | ⟨h, hv⟩
      · rw [h]; subst hv; simp
      · have : argminFrom x 0 1 xs = (argminFrom x 0 1 xs - 1) + 1 := by omega
        rw [this]; simpa using hv
    · intro y hy
      rcases List.mem_cons.mp hy with h | h
      · subst h; exact h2
      · exact h3 y h

/-! ### the columns -/

/-- the columns `(TAB_VAL[k], TAB_MRK[k])` in function style -/
def colOf (t : Tables α) : Nat → List α × List Nat
  | 0 => firstCol t
  | k+1 => ((List.range (t.n (k+1))).map (val t (k+1)), (List.range (t.n (k+1))).map (mrk t k))

theorem colOf_fst (t : Tables α) (k : Nat) : (colOf t k).1 = (List.range (t.n k)).map (val t k) := by
  cases k with
  | zero => simp [colOf, firstCol, val]
  | succ k => rfl

theorem colOf_snd_length (t : Tables α) (k : Nat) : (colOf t k).2.length = t.n k := by
  cases k <;> simp [colOf, firstCol]

theorem nextCol_colOf (t : Tables α) (k : Nat) : nextCol t k (colOf t k).1 = colOf t (k+1) := by
  rw [colOf_fst]
  have key : ∀ l, scanMin t.big (fun m => t.add (t.trans k m l)
        (((List.range (t.n k)).map (val t k)).getD m t.big)) ((List.range (t.n k)).map (val t k)).length
      = scanMin t.big (fun m => t.add (t.trans k m l) (val t k m)) (t.n k) := by
    intro l
    rw [List.length_map, List.length_range]
    apply scanMin_congr
    intro m hm
    simp [List.getD_eq_getElem?_getD, hm]
  simp only [nextCol, colOf, List.map_map, key]
  refine Prod.ext ?_ ?_
  · exact List.map_congr_left (fun l _ => by simp [Function.comp, val])
  · exact List.map_congr_left (fun l _ => by simp [Function.comp, mrk])

theorem forward_head (t : Tables α) (k : Nat) : ∃ rest, forward t k = colOf t k :: rest := by
  induction k with
  | zero => exact ⟨[], rfl⟩
  | succ k ih =>
    obtain ⟨rest, h⟩ := ih
    refine ⟨colOf t k :: rest, ?_⟩
    simp only [forward, h, nextCol_colOf]

theorem forward_succ (t : Tables α) (k : Nat) : forward t (k+1) = colOf t (k+1) :: forward t k := by
  obtain ⟨rest, h⟩ := forward_head t k
  simp only [forward, h, nextCol_colOf]

/-- walking the back-pointers of the table from `(k, l)` records the function-style path and its values -/
theorem walk_forward (t : Tables α) (k l : Nat) (hpos : ∀ j, j ≤ k → 0 < t.n j) (hl : l < t.n k) :
    walk (forward t k) l =
      some ((List.range (k+1)).reverse.map (fun j => (back t k l j, val t j (back t k l j)))) := by
  induction k generalizing l with
  | zero =>
    have h1 : (firstCol t).1[l]? = some (t.obs 0 l) := by simp [firstCol, hl]
    have h2 : (firstCol t).2[l]? = some 0 := by simp [firstCol, hl]
    simp [forward, walk, h1, h2, back, val]
  | succ k ih =>
    rw [forward_succ]
    have h1 : (colOf t (k+1)).1[l]? = some (val t (k+1) l) := by simp [colOf, hl]
    have h2 : (colOf t (k+1)).2[l]? = some (mrk t k l) := by simp [colOf, hl]
    simp only [walk, h1, h2]
    rw [ih (mrk t k l) (fun i hi => hpos i (by omega)) (mrk_lt t k l (hpos k (by omega)))]
    rw [List.range_succ (n := k+1), List.reverse_append]
    simp only [List.reverse_cons, List.reverse_nil, List.nil_append, List.cons_append, List.map_cons,
      Option.map_some, back_self]
    congr 2
    apply List.map_congr_left
    intro j hj
    have hj' : j < k + 1 := by simpa using hj
    rw [back_lt t k l j hj']

/-- **Refinement theorem.** On a track of `N+1` epochs, each with at least one state, the table-building
`decode` does not fail and returns, for epochs `0..N`, the back-pointer path from a minimal state `idk` of
the last column together with the function-style values along it. -/
theorem decode_eq (t : Tables α) (N : Nat) (hpos : ∀ k, k ≤ N → 0 < t.n k) :
    ∃ idk, idk < t.n N ∧ (∀ l', l' < t.n N → val t N idk ≤ val t N l') ∧
      decode t (N+1) = .ok ((List.range (N+1)).map (fun j => (back t N idk j, val t j (back t N idk j)))) := by
  obtain ⟨rest, hf⟩ := forward_head t N
  have hne : (colOf t N).1 ≠ [] := by
    rw [colOf_fst]
    intro h
    have := congrArg List.length h
    simp at this
    have := hpos N (Nat.le_refl _); omega
  obtain ⟨r, v, hr, hv, hmin⟩ := argmin?_spec (colOf t N).1 hne
  rw [colOf_fst] at hv hmin
  have hrn : r < t.n N := by
    by_cases h : r < t.n N
    · exact h
    · simp [h] at hv
  have hv' : v = val t N r := by simp [hrn] at hv; exact hv.symm
  refine ⟨r, hrn, ?_, ?_⟩
  · intro l' hl'
    rw [← hv']
    exact hmin _ (List.mem_map.mpr ⟨l', List.mem_range.mpr hl', rfl⟩)
  · have hw := walk_forward t N r hpos hrn
    rw [hf] at hw
    simp only [decode, hf, hr, hw]
    rw [← List.map_reverse, List.reverse_reverse]

/-! ### the sentinel hypothesis, restricted to the entries the code reads (epochs `0..N`) -/

/-- every candidate value compared with `best_val` while decoding epochs `0..N` is below the sentinel -/
def Sentinel (t : Tables α) (N : Nat) : Prop :=
  ∀ k m l, k < N → m < t.n k → l < t.n (k+1) → t.add (t.trans k m l) (val t k m) < t.big

/-- the running cost of every candidate sequence of epochs `0..N`, at the moment it is compared with
`best_val` (`q + TAB_VAL[k-1][m]`), stays below the sentinel -/
def PathsBelow (t : Tables α) (N : Nat) : Prop :=
  ∀ σ : Nat → Nat, (∀ k, k ≤ N → σ k < t.n k) →
    ∀ k, k < N → t.add (t.trans k (σ k) (σ (k+1))) (cost t σ k) < t.big

theorem scan_spec (t : Tables α) (k l : Nat) (hk : 0 < t.n k)
    (hb : ∀ m, m < t.n k → t.add (t.trans k m l) (val t k m) < t.big) :
    mrk t k l < t.n k ∧
    (scanMin t.big (fun m => t.add (t.trans k m l) (val t k m)) (t.n k)).1
      = t.add (t.trans k (mrk t k l) l) (val t k (mrk t k l)) ∧
    ∀ m, m < t.n k → (scanMin t.big (fun m => t.add (t.trans k m l) (val t k m)) (t.n k)).1
      ≤ t.add (t.trans k m l) (val t k m) :=
  scanMin_spec t.big (fun m => t.add (t.trans k m l) (val t k m)) (t.n k) hk hb

/-- the back-pointer path realises the table value (hypotheses only below epoch `k`) -/
theorem cost_back_upto (t : Tables α) (k : Nat) :
    (∀ j, j < k → 0 < t.n j) →
    (∀ k' m l', k' < k → m < t.n k' → l' < t.n (k'+1) → t.add (t.trans k' m l') (val t k' m) < t.big) →
    ∀ l, l < t.n k → cost t (back t k l) k = val t k l := by
  induction k with
  | zero => intro _ _ l _; simp [cost, val, back]
  | succ k ih =>
    intro hpos hbig l hl
    have hs := scan_spec t k l (hpos k (by omega)) (fun m hm => hbig k m l (by omega) hm hl)
    simp only [cost, val]
    rw [back_self]
    have e1 : back t (k+1) l k = mrk t k l := by rw [back_lt t k l k (by omega), back_self]
    have e2 : cost t (back t (k+1) l) k = cost t (back t k (mrk t k l)) k :=
      cost_congr t _ _ k (fun j hj => back_lt t k l j (by omega))
    rw [e1, e2, ih (fun j hj => hpos j (by omega)) (fun k' m l' hk' => hbig k' m l' (by omega))
      (mrk t k l) hs.1]
    congr 1
    exact hs.2.1.symm

theorem cost_back' (t : Tables α) (N : Nat) (hpos : ∀ k, k ≤ N → 0 < t.n k) (hbig : Sentinel t N)
    (k l : Nat) (hk : k ≤ N) (hl : l < t.n k) : cost t (back t k l) k = val t k l :=
  cost_back_upto t k (fun j hj => hpos j (by omega))
    (fun k' m l' hk' hm hl' => hbig k' m l' (by omega) hm hl') l hl

/-- every path ending in `σ k` at epoch `k` costs at least `val k (σ k)` -/
theorem val_le_cost' (t : Tables α) (hm : Mono t) (N : Nat) (hpos : ∀ k, k ≤ N → 0 < t.n k)
    (hbig : Sentinel t N) (σ : Nat → Nat) (hσ : ∀ k, k ≤ N → σ k < t.n k) (k : Nat) (hk : k ≤ N) :
    val t k (σ k) ≤ cost t σ k := by
  induction k with
  | zero => exact le_refl _
  | succ k ih =>
    unfold val cost
    apply hm.left
    have hs := scan_spec t k (σ (k+1)) (hpos k (by omega))
      (fun m hm' => hbig k m _ (by omega) hm' (hσ (k+1) hk))
    exact le_trans (hs.2.2 (σ k) (hσ k (by omega))) (hm.right _ _ _ (ih (by omega)))

/-- the value recorded along the decoded path is the cost of the decoded prefix -/
theorem val_back' (t : Tables α) (N : Nat) (hpos : ∀ k, k ≤ N → 0 < t.n k) (hbig : Sentinel t N)
    (l j : Nat) (hl : l < t.n N) (hj : j ≤ N) : val t j (back t N l j) = cost t (back t N l) j := by
  rw [← cost_back' t N hpos hbig j (back t N l j) hj (back_lt_n t N l hpos hl j hj)]
  exact cost_congr t _ _ j (fun i hi => back_back t N l j i hj hi)

/-- "all path costs stay below the sentinel" implies the sentinel hypothesis on the table -/
theorem sentinel_of_paths (t : Tables α) (N : Nat) (hpos : ∀ k, k ≤ N → 0 < t.n k)
    (hp : PathsBelow t N) : Sentinel t N := by
  have main : ∀ K, K ≤ N → ∀ k m l, k < K → m < t.n k → l < t.n (k+1) →
      t.add (t.trans k m l) (val t k m) < t.big := by
    intro K
    induction K with
    | zero => intro _ k m l hk; omega
    | succ K ih =>
      intro hKN k m l hk hm hl
      by_cases hlt : k < K
      · exact ih (by omega) k m l hlt hm hl
      · have hkK : k = K := by omega
        subst hkK
        have hv : cost t (back t k m) k = val t k m :=
          cost_back_upto t k (fun j hj => hpos j (by omega))
            (fun k' m' l' hk' => ih (by omega) k' m' l' hk') m hm
        let σ : Nat → Nat := fun j => if j ≤ k then back t k m j else if j = k + 1 then l else 0
        have hσ : ∀ j, j ≤ N → σ j < t.n j := by
          intro j hjN
          by_cases h1 : j ≤ k
          · simp only [σ, h1, ↓reduceIte]
            exact back_lt_n t k m (fun i hi => hpos i (by omega)) hm j h1
          · by_cases h2 : j = k + 1
            · subst h2; simp only [σ, h1, ↓reduceIte]; exact hl
            · simp only [σ, h1, h2, ↓reduceIte]; exact hpos j hjN
        have e0 : σ k = m := by simp [σ, back_self]
        have e1 : σ (k+1) = l := by
          have : ¬ (k + 1 ≤ k) := by omega
          simp [σ, this]
        have e2 : cost t σ k = cost t (back t k m) k :=
          cost_congr t _ _ k (fun j hj => by simp [σ, hj])
        have := hp σ hσ k (by omega)
        rw [e0, e1, e2, hv] at this
        exact this
  intro k m l hk hm hl
  exact main N (Nat.le_refl _) k m l hk hm hl

/-! ### reading the result of `decode` -/

/-- index of the state inferred at epoch `j` (`hmm_inference`); `0` beyond the last epoch -/
def seqOf (r : List (Nat × α)) (j : Nat) : Nat := (r[j]?.map Prod.fst).getD 0
/-- cost recorded at epoch `j` (`hmm_cost`) -/
def costAt (r : List (Nat × α)) (j : Nat) : Option α := r[j]?.map Prod.snd

theorem decode_ok (t : Tables α) (N : Nat) (hpos : ∀ k, k ≤ N → 0 < t.n k) (r : List (Nat × α))
    (h : decode t (N+1) = .ok r) :
    ∃ idk, idk < t.n N ∧ (∀ l', l' < t.n N → val t N idk ≤ val t N l') ∧
      r.length = N + 1 ∧
      (∀ j, j ≤ N → seqOf r j = back t N idk j) ∧
      (∀ j, j ≤ N → costAt r j = some (val t j (back t N idk j))) := by
  obtain ⟨idk, h1, h2, h3⟩ := decode_eq t N hpos
  rw [h3] at h
  injection h with h
  subst h
  refine ⟨idk, h1, h2, by simp, ?_, ?_⟩
  · intro j hj
    have : j < N + 1 := by omega
    simp [seqOf, this]
  · intro j hj
    have : j < N + 1 := by omega
    simp [costAt, this]
end TV.Viterbi
