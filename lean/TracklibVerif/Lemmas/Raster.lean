import TracklibVerif.Model.Raster
import Mathlib.Algebra.Order.Field.Basic
import Mathlib.Algebra.Order.Floor.Ring
import Mathlib.Tactic.Ring
import Mathlib.Tactic.Linarith
import Mathlib.Tactic.Push
import Mathlib.Algebra.BigOperators.Group.Finset.Basic
import Mathlib.Algebra.BigOperators.Group.Finset.Piecewise
import Mathlib.Algebra.BigOperators.Group.List.Basic
/-! Helper lemmas for C19 (model: `Model/Raster.lean`): cell geometry over a floor ring. -/
namespace TV.Raster

section geometry
variable {α : Type} [Field α] [LinearOrder α] [IsStrictOrderedRing α] [FloorRing α]

/-- `max 1 ⌈A⌉` is positive and bounds `A` -/
theorem max_one_ceil (A : α) : 0 < max 1 ⌈A⌉ ∧ A ≤ ((max 1 ⌈A⌉ : ℤ) : α) :=
  ⟨lt_of_lt_of_le Int.one_pos (le_max_left _ _),
   (Int.le_ceil A).trans (by exact_mod_cast le_max_right (1 : ℤ) ⌈A⌉)⟩

/-- the column rule on the normalised abscissa `u = (x - xmin)/rx ∈ [0, A]`, `ncol = max 1 ⌈A⌉`
    (`A = 0`: the extent has no width, one column) -/
theorem col_spec (ncol : ℤ) (u A : α) (hu0 : 0 ≤ u) (huA : u ≤ A) (hn : ncol = max 1 ⌈A⌉) :
    ∀ c : ℤ, c = (if u = (ncol : α) then ⌊u⌋ - 1 else ⌊u⌋) →
      0 ≤ c ∧ c < ncol ∧ (c : α) ≤ u ∧ (u < (c : α) + 1 ∨ (c = ncol - 1 ∧ u = (ncol : α))) := by
  intro c hc
  have hAn : A ≤ (ncol : α) := hn ▸ (max_one_ceil A).2
  have hnpos : 0 < ncol := hn ▸ (max_one_ceil A).1
  by_cases h : u = (ncol : α)
  · have hf : ⌊u⌋ = ncol := by rw [h, Int.floor_intCast]
    rw [if_pos h, hf] at hc
    subst hc
    refine ⟨by omega, by omega, ?_, Or.inr ⟨rfl, h⟩⟩
    push_cast; rw [h]; linarith
  · rw [if_neg h] at hc
    subst hc
    refine ⟨Int.floor_nonneg.2 hu0, Int.floor_lt.2 (lt_of_le_of_ne (huA.trans hAn) h), Int.floor_le u,
      Or.inl (Int.lt_floor_add_one u)⟩

/-- the line rule on the normalised ordinate `v = (y - ymin)/ry ∈ [0, B]`, `nrow = max 1 ⌈B⌉`,
    `idy = (nrow-1) - v` -/
theorem line_spec (nrow : ℤ) (v B : α) (hv0 : 0 ≤ v) (hvB : v ≤ B) (hn : nrow = max 1 ⌈B⌉) :
    ∀ (idy : α) (l : ℤ), idy = ((nrow - 1 : ℤ) : α) - v →
      l = (if ((⌊idy⌋ : α) = idy ∧ ⌊idy⌋ > -1) then ⌊idy⌋
           else if ((⌊idy⌋ : α) = idy ∧ ⌊idy⌋ = -1) then ⌊idy⌋ + 1 else ⌊idy⌋ + 1) →
      0 ≤ l ∧ l < nrow ∧ ((nrow - 1 - l : ℤ) : α) ≤ v ∧
        (v < ((nrow - l : ℤ) : α) ∨ (l = 0 ∧ v = (nrow : α))) := by
  intro idy l hidy hl
  have hBn : B ≤ (nrow : α) := hn ▸ (max_one_ceil B).2
  have hnpos : 0 < nrow := hn ▸ (max_one_ceil B).1
  have hvn : v ≤ (nrow : α) := hvB.trans hBn
  have hv : v = ((nrow - 1 : ℤ) : α) - idy := by rw [hidy]; ring
  have hidy_ge : (-1 : α) ≤ idy := by rw [hidy]; push_cast; linarith
  have hidy_le : idy ≤ ((nrow - 1 : ℤ) : α) := by rw [hidy]; linarith
  have hf_ge : -1 ≤ ⌊idy⌋ := Int.le_floor.2 (by push_cast; exact hidy_ge)
  have hf_le : ⌊idy⌋ ≤ nrow - 1 := by
    have : (⌊idy⌋ : α) ≤ ((nrow - 1 : ℤ) : α) := (Int.floor_le idy).trans hidy_le
    exact_mod_cast this
  by_cases hint : (⌊idy⌋ : α) = idy
  · by_cases hpos : ⌊idy⌋ > -1
    · rw [if_pos ⟨hint, hpos⟩] at hl
      subst hl
      refine ⟨by omega, by omega, ?_, Or.inl ?_⟩
      · rw [hv]; push_cast; rw [hint]
      · rw [hv]; push_cast; rw [hint]; linarith
    · have hm1 : ⌊idy⌋ = -1 := by omega
      rw [if_neg (fun h => hpos h.2), if_pos ⟨hint, hm1⟩, hm1] at hl
      have hl0 : l = 0 := by omega
      have hidy1 : idy = -1 := by rw [← hint, hm1]; push_cast; ring
      refine ⟨by omega, by omega, ?_, Or.inr ⟨hl0, ?_⟩⟩
      · rw [hv, hidy1, hl0]; push_cast; linarith
      · rw [hv, hidy1]; push_cast; ring
  · have hl' : l = ⌊idy⌋ + 1 := by
      rw [if_neg (fun h => hint h.1), if_neg (fun h => hint h.1)] at hl; exact hl
    have hlt : (⌊idy⌋ : α) < idy := lt_of_le_of_ne (Int.floor_le idy) hint
    have hlt2 : idy < (⌊idy⌋ : α) + 1 := Int.lt_floor_add_one idy
    have hf_lt : ⌊idy⌋ < nrow - 1 := by
      have : (⌊idy⌋ : α) < ((nrow - 1 : ℤ) : α) := lt_of_lt_of_le hlt hidy_le
      exact_mod_cast this
    subst hl'
    refine ⟨by omega, by omega, ?_, Or.inl ?_⟩
    · rw [hv]; push_cast; linarith
    · rw [hv]; push_cast; linarith

/-- `getCell` inside the extent, in terms of the two rules -/
theorem getCell_inside (g : Grid α) (x y : α) (hx : g.xmin ≤ x ∧ x ≤ g.xmax) (hy : g.ymin ≤ y ∧ y ≤ g.ymax) :
    getCell Int.floor g x y = some
      ((if (x - g.xmin) / g.rx = (g.ncol : α) then ⌊(x - g.xmin) / g.rx⌋ - 1 else ⌊(x - g.xmin) / g.rx⌋),
       (if ((⌊((g.nrow - 1 : ℤ) : α) - (y - g.ymin) / g.ry⌋ : α) = ((g.nrow - 1 : ℤ) : α) - (y - g.ymin) / g.ry
              ∧ ⌊((g.nrow - 1 : ℤ) : α) - (y - g.ymin) / g.ry⌋ > -1)
          then ⌊((g.nrow - 1 : ℤ) : α) - (y - g.ymin) / g.ry⌋
        else if ((⌊((g.nrow - 1 : ℤ) : α) - (y - g.ymin) / g.ry⌋ : α) = ((g.nrow - 1 : ℤ) : α) - (y - g.ymin) / g.ry
              ∧ ⌊((g.nrow - 1 : ℤ) : α) - (y - g.ymin) / g.ry⌋ = -1)
          then ⌊((g.nrow - 1 : ℤ) : α) - (y - g.ymin) / g.ry⌋ + 1
        else ⌊((g.nrow - 1 : ℤ) : α) - (y - g.ymin) / g.ry⌋ + 1)) := by
  unfold getCell
  have h1 : ¬ (x < g.xmin ∨ g.xmax < x) := by push Not; exact ⟨hx.1, hx.2⟩
  have h2 : ¬ (y < g.ymin ∨ g.ymax < y) := by push Not; exact ⟨hy.1, hy.2⟩
  simp only [h1, h2, ↓reduceIte, beq_iff_eq, Bool.and_eq_true, decide_eq_true_eq]

/-- a well-formed grid: positive resolution, an extent that may have zero width or zero height (all the points on
    one vertical / horizontal line, or a single point), `ncol`/`nrow` as computed by the constructor
    (at least one column and one row) -/
structure WF (g : Grid α) : Prop where
  rx : 0 < g.rx
  ry : 0 < g.ry
  wx : g.xmin ≤ g.xmax
  wy : g.ymin ≤ g.ymax
  ncol : g.ncol = max 1 ⌈(g.xmax - g.xmin) / g.rx⌉
  nrow : g.nrow = max 1 ⌈(g.ymax - g.ymin) / g.ry⌉

theorem WF.ncol_pos {g : Grid α} (hg : WF g) : 0 < g.ncol := hg.ncol ▸ (max_one_ceil _).1
theorem WF.nrow_pos {g : Grid α} (hg : WF g) : 0 < g.nrow := hg.nrow ▸ (max_one_ceil _).1

/-- footprint of the cell (column `c`, line `r` counted from the top): half-open, closed on the outer right /
    top border -/
def InCell (g : Grid α) (c r : ℤ) (x y : α) : Prop :=
  g.xmin + (c : α) * g.rx ≤ x ∧ (x < g.xmin + ((c : α) + 1) * g.rx ∨ (c = g.ncol - 1 ∧ x = g.xmin + (g.ncol : α) * g.rx)) ∧
  g.ymin + ((g.nrow - 1 - r : ℤ) : α) * g.ry ≤ y ∧
    (y < g.ymin + ((g.nrow - r : ℤ) : α) * g.ry ∨ (r = 0 ∧ y = g.ymin + (g.nrow : α) * g.ry))

theorem getCell_footprint (g : Grid α) (hg : WF g) (x y : α)
    (hx : g.xmin ≤ x ∧ x ≤ g.xmax) (hy : g.ymin ≤ y ∧ y ≤ g.ymax) :
    ∃ c r : ℤ, getCell Int.floor g x y = some (c, r) ∧ 0 ≤ c ∧ c < g.ncol ∧ 0 ≤ r ∧ r < g.nrow ∧ InCell g c r x y := by
  have hrx := hg.rx
  have hry := hg.ry
  refine ⟨_, _, getCell_inside g x y hx hy, ?_⟩
  have hu0 : 0 ≤ (x - g.xmin) / g.rx := div_nonneg (by linarith [hx.1]) hrx.le
  have huA : (x - g.xmin) / g.rx ≤ (g.xmax - g.xmin) / g.rx := div_le_div_of_nonneg_right (by linarith [hx.2]) hrx.le
  have hv0 : 0 ≤ (y - g.ymin) / g.ry := div_nonneg (by linarith [hy.1]) hry.le
  have hvB : (y - g.ymin) / g.ry ≤ (g.ymax - g.ymin) / g.ry := div_le_div_of_nonneg_right (by linarith [hy.2]) hry.le
  obtain ⟨c0, c1, c2, c3⟩ := col_spec g.ncol _ _ hu0 huA hg.ncol _ rfl
  obtain ⟨r0, r1, r2, r3⟩ := line_spec g.nrow _ _ hv0 hvB hg.nrow _ _ rfl rfl
  refine ⟨c0, c1, r0, r1, ?_, ?_, ?_, ?_⟩
  · have := (le_div_iff₀ hrx).1 c2; linarith
  · rcases c3 with h | ⟨h, h'⟩
    · left; have := (div_lt_iff₀ hrx).1 h; linarith
    · right; refine ⟨h, ?_⟩
      have := (div_eq_iff hrx.ne').1 h'; linarith
  · have := (le_div_iff₀ hry).1 r2; linarith
  · rcases r3 with h | ⟨h, h'⟩
    · left; have := (div_lt_iff₀ hry).1 h; linarith
    · right; refine ⟨h, ?_⟩
      have := (div_eq_iff hry.ne').1 h'; linarith

/-- footprints of distinct cells of the grid are disjoint -/
theorem inCell_unique (g : Grid α) (hrx : 0 < g.rx) (hry : 0 < g.ry) (x y : α) (c r c' r' : ℤ)
    (hc : c < g.ncol) (hc' : c' < g.ncol) (hr : 0 ≤ r) (hr' : 0 ≤ r')
    (h : InCell g c r x y) (h' : InCell g c' r' x y) : c = c' ∧ r = r' := by
  obtain ⟨a1, a2, a3, a4⟩ := h
  obtain ⟨b1, b2, b3, b4⟩ := h'
  constructor
  · -- columns
    by_contra hne
    rcases lt_or_gt_of_ne hne with hlt | hlt
    · have hcc : (c : α) + 1 ≤ (c' : α) := by exact_mod_cast hlt
      rcases a2 with a2 | ⟨a2, _⟩
      · have : g.xmin + ((c : α) + 1) * g.rx ≤ g.xmin + (c' : α) * g.rx := by nlinarith
        linarith
      · omega
    · have hcc : (c' : α) + 1 ≤ (c : α) := by exact_mod_cast hlt
      rcases b2 with b2 | ⟨b2, _⟩
      · have : g.xmin + ((c' : α) + 1) * g.rx ≤ g.xmin + (c : α) * g.rx := by nlinarith
        linarith
      · omega
  · by_contra hne
    rcases lt_or_gt_of_ne hne with hlt | hlt
    · -- r < r' : cell r is above cell r'
      have hcc : ((g.nrow - r' : ℤ) : α) ≤ ((g.nrow - 1 - r : ℤ) : α) := by exact_mod_cast (by omega : g.nrow - r' ≤ g.nrow - 1 - r)
      rcases b4 with b4 | ⟨b4, _⟩
      · have : g.ymin + ((g.nrow - r' : ℤ) : α) * g.ry ≤ g.ymin + ((g.nrow - 1 - r : ℤ) : α) * g.ry := by nlinarith
        linarith
      · omega
    · have hcc : ((g.nrow - r : ℤ) : α) ≤ ((g.nrow - 1 - r' : ℤ) : α) := by exact_mod_cast (by omega : g.nrow - r ≤ g.nrow - 1 - r')
      rcases a4 with a4 | ⟨a4, _⟩
      · have : g.ymin + ((g.nrow - r : ℤ) : α) * g.ry ≤ g.ymin + ((g.nrow - 1 - r' : ℤ) : α) * g.ry := by nlinarith
        linarith
      · omega

end geometry
/-! ### the scatter -/
section scatter
variable {O V : Type}

/-- `scatter` with the cell assignment abstracted -/
def scatterBy (cell : O → Option (Int × Int)) (val : O → V) : Cells V → List O → Option (Cells V)
  | c, [] => some c
  | c, o :: rest =>
    match cell o with
    | none => none
    | some (column, line) =>
      match put c line column (val o) with
      | none => none
      | some c' => scatterBy cell val c' rest

/-- content of the cell in line `i`, column `j` -/
def cellAt (c : Cells V) (i j : Nat) : List V := ((c[i]?.getD [])[j]?).getD []

def Rect (c : Cells V) (nrow ncol : Nat) : Prop := c.length = nrow ∧ ∀ row ∈ c, row.length = ncol

/-- the values of the observations located in (column `j`, line `i`), in scatter order -/
def located (cell : O → Option (Int × Int)) (val : O → V) (j i : Nat) (obs : List O) : List V :=
  obs.filterMap (fun o => if cell o = some ((j : Int), (i : Int)) then some (val o) else none)

theorem pyIdx_inrange (len : Nat) (i : Int) (h0 : 0 ≤ i) (h1 : i < len) : pyIdx len i = some i.toNat := by
  unfold pyIdx; simp [h0, h1]

theorem rect_empty (nrow ncol : Nat) : Rect (emptyCells nrow ncol : Cells V) nrow ncol := by
  unfold Rect emptyCells
  refine ⟨by simp, ?_⟩
  intro row hrow
  rw [List.mem_replicate] at hrow
  rw [hrow.2]; simp

theorem cellAt_empty (nrow ncol i j : Nat) : cellAt (emptyCells nrow ncol : Cells V) i j = [] := by
  unfold cellAt emptyCells
  by_cases hi : i < nrow
  · by_cases hj : j < ncol
    · simp [hi, hj]
    · simp [hi, hj]
  · simp [hi]

theorem put_spec (c : Cells V) (nrow ncol : Nat) (hR : Rect c nrow ncol) (line col : Int)
    (hl0 : 0 ≤ line) (hl1 : line < nrow) (hc0 : 0 ≤ col) (hc1 : col < ncol) (v : V) :
    ∃ c', put c line col v = some c' ∧ Rect c' nrow ncol ∧
      ∀ i j, cellAt c' i j = if i = line.toNat ∧ j = col.toNat then cellAt c i j ++ [v] else cellAt c i j := by
  obtain ⟨hlen, hrows⟩ := hR
  have hl : line.toNat < c.length := by omega
  have hrow : (c[line.toNat]'hl).length = ncol := hrows _ (List.getElem_mem hl)
  have hk : col.toNat < (c[line.toNat]'hl).length := by omega
  refine ⟨c.set line.toNat ((c[line.toNat]'hl).set col.toNat (((c[line.toNat]'hl)[col.toNat]?).getD [] ++ [v])), ?_, ?_, ?_⟩
  · unfold put
    rw [pyIdx_inrange c.length line hl0 (by omega)]
    simp only [List.getElem?_eq_getElem hl]
    rw [pyIdx_inrange _ col hc0 (by omega)]
  · refine ⟨by simp [hlen], ?_⟩
    intro row hmem
    rcases List.mem_or_eq_of_mem_set hmem with h | h
    · exact hrows row h
    · rw [h]; simp [hrow]
  · intro i j
    unfold cellAt
    by_cases hi : i = line.toNat
    · subst hi
      by_cases hj : j = col.toNat
      · subst hj
        simp [hl, hk]
      · have hj' : ¬ (col.toNat = j) := fun e => hj e.symm
        simp [hl, hj, hj']
    · have hi' : ¬ (line.toNat = i) := fun e => hi e.symm
      simp [hi, hi']

theorem located_cons (cell : O → Option (Int × Int)) (val : O → V) (j i : Nat) (o : O) (rest : List O) :
    located cell val j i (o :: rest)
      = (if cell o = some ((j : Int), (i : Int)) then [val o] else []) ++ located cell val j i rest := by
  unfold located
  by_cases h : cell o = some ((j : Int), (i : Int)) <;> simp [List.filterMap_cons, h]

/-- the scatter never fails on observations whose cells are inside the grid, keeps the grid rectangular, and
    appends to every cell exactly the values of the observations located in it, in order -/
theorem scatterBy_spec (cell : O → Option (Int × Int)) (val : O → V) (nrow ncol : Nat) :
    ∀ (obs : List O) (c : Cells V), Rect c nrow ncol →
      (∀ o ∈ obs, ∃ col line : Int, cell o = some (col, line) ∧ 0 ≤ col ∧ col < ncol ∧ 0 ≤ line ∧ line < nrow) →
      ∃ c', scatterBy cell val c obs = some c' ∧ Rect c' nrow ncol ∧
        ∀ i j, cellAt c' i j = cellAt c i j ++ located cell val j i obs := by
  intro obs
  induction obs with
  | nil => intro c hR _; exact ⟨c, rfl, hR, fun i j => by simp [located]⟩
  | cons o rest ih =>
    intro c hR hin
    obtain ⟨col, line, hcell, hc0, hc1, hl0, hl1⟩ := hin o (List.mem_cons_self)
    obtain ⟨c1, hput, hR1, hcells1⟩ := put_spec c nrow ncol hR line col hl0 hl1 hc0 hc1 (val o)
    obtain ⟨c2, hsc, hR2, hcells2⟩ := ih c1 hR1 (fun o' ho' => hin o' (List.mem_cons_of_mem _ ho'))
    refine ⟨c2, ?_, hR2, ?_⟩
    · simp only [scatterBy, hcell, hput]; exact hsc
    · intro i j
      rw [hcells2 i j, hcells1 i j, located_cons, hcell]
      by_cases h : i = line.toNat ∧ j = col.toNat
      · obtain ⟨h1, h2⟩ := h
        have e : (some (col, line) : Option (Int × Int)) = some ((j : Int), (i : Int)) := by
          rw [h1, h2, Int.toNat_of_nonneg hc0, Int.toNat_of_nonneg hl0]
        simp [h1, h2, e]
      · have e : ¬ ((some (col, line) : Option (Int × Int)) = some ((j : Int), (i : Int))) := by
          intro e
          simp only [Option.some.injEq, Prod.mk.injEq] at e
          apply h
          constructor <;> omega
        simp [h, e]

/-- conservation, weighted form: summing any per-value weight over all cells gives the total weight of the
    observations (weight 1: the number of observations; weight `[v is not NaN]`: the `co_count` total) -/
theorem located_weight_sum (cell : O → Option (Int × Int)) (val : O → V) (w : V → Nat) (nrow ncol : Nat) :
    ∀ (obs : List O),
      (∀ o ∈ obs, ∃ col line : Int, cell o = some (col, line) ∧ 0 ≤ col ∧ col < ncol ∧ 0 ≤ line ∧ line < nrow) →
      ∑ i ∈ Finset.range nrow, ∑ j ∈ Finset.range ncol, ((located cell val j i obs).map w).sum
        = (obs.map (fun o => w (val o))).sum := by
  intro obs
  induction obs with
  | nil => intro _; simp [located]
  | cons o rest ih =>
    intro hin
    obtain ⟨col, line, hcell, hc0, hc1, hl0, hl1⟩ := hin o (List.mem_cons_self)
    have ih' := ih (fun o' ho' => hin o' (List.mem_cons_of_mem _ ho'))
    have key : ∀ i j : Nat, (((if cell o = some ((j : Int), (i : Int)) then [val o] else []) : List V).map w).sum
        = if i = line.toNat then (if j = col.toNat then w (val o) else 0) else 0 := by
      intro i j
      rw [hcell]
      by_cases h1 : i = line.toNat
      · by_cases h2 : j = col.toNat
        · have e : (some (col, line) : Option (Int × Int)) = some ((j : Int), (i : Int)) := by
            rw [h1, h2, Int.toNat_of_nonneg hc0, Int.toNat_of_nonneg hl0]
          rw [if_pos e, if_pos h1, if_pos h2]; simp
        · have e : ¬ ((some (col, line) : Option (Int × Int)) = some ((j : Int), (i : Int))) := by
            intro e; simp only [Option.some.injEq, Prod.mk.injEq] at e; omega
          rw [if_neg e, if_pos h1, if_neg h2]; simp
      · have e : ¬ ((some (col, line) : Option (Int × Int)) = some ((j : Int), (i : Int))) := by
          intro e; simp only [Option.some.injEq, Prod.mk.injEq] at e; omega
        rw [if_neg e, if_neg h1]; simp
    simp only [located_cons, List.map_append, List.sum_append, Finset.sum_add_distrib, key, List.map_cons,
      List.sum_cons]
    rw [ih']
    have hL : line.toNat ∈ Finset.range nrow := by rw [Finset.mem_range]; omega
    have hC : col.toNat ∈ Finset.range ncol := by rw [Finset.mem_range]; omega
    simp [Finset.sum_ite_eq', hL, hC]

end scatter

section bridge
variable {α V : Type} [Sub α] [Div α] [IntCast α] [LT α] [DecidableLT α] [BEq α]

theorem scatter_eq_scatterBy (floor : α → Int) (g : Grid α) :
    ∀ (obs : List (α × α × V)) (c : Cells V),
      scatter floor g c obs = scatterBy (fun o => getCell floor g o.1 o.2.1) (fun o => o.2.2) c obs := by
  intro obs
  induction obs with
  | nil => intro c; rfl
  | cons o rest ih =>
    intro c
    obtain ⟨x, y, v⟩ := o
    simp only [scatter, scatterBy]
    cases getCell floor g x y with
    | none => rfl
    | some p =>
      obtain ⟨column, line⟩ := p
      simp only
      cases put c line column v with
      | none => rfl
      | some c' => exact ih c'
end bridge

/-! ### extent of the observations and the grid built on it -/
section extent
variable {α : Type} [Field α] [LinearOrder α] [IsStrictOrderedRing α] [FloorRing α]

theorem foldMin_spec (l : List α) : ∀ m0 : α,
    (l.foldl (fun m v => if v < m then v else m) m0 = m0 ∨ l.foldl (fun m v => if v < m then v else m) m0 ∈ l)
    ∧ l.foldl (fun m v => if v < m then v else m) m0 ≤ m0
    ∧ ∀ v ∈ l, l.foldl (fun m v => if v < m then v else m) m0 ≤ v := by
  induction l with
  | nil => intro m0; simp
  | cons a r ih =>
    intro m0
    simp only [List.foldl_cons]
    by_cases h : a < m0
    · simp only [h, ↓reduceIte]
      obtain ⟨h1, h2, h3⟩ := ih a
      refine ⟨?_, le_trans h2 h.le, ?_⟩
      · rcases h1 with e | e
        · right; rw [e]; exact List.mem_cons_self
        · right; exact List.mem_cons_of_mem _ e
      · intro v hv
        rcases List.mem_cons.1 hv with e | e
        · rw [e]; exact h2
        · exact h3 v e
    · simp only [h, ↓reduceIte]
      obtain ⟨h1, h2, h3⟩ := ih m0
      refine ⟨?_, h2, ?_⟩
      · rcases h1 with e | e
        · left; exact e
        · right; exact List.mem_cons_of_mem _ e
      · intro v hv
        rcases List.mem_cons.1 hv with e | e
        · rw [e]; exact le_trans h2 (not_lt.1 h)
        · exact h3 v e

theorem foldMax_spec (l : List α) : ∀ m0 : α,
    (l.foldl (fun m v => if m < v then v else m) m0 = m0 ∨ l.foldl (fun m v => if m < v then v else m) m0 ∈ l)
    ∧ m0 ≤ l.foldl (fun m v => if m < v then v else m) m0
    ∧ ∀ v ∈ l, v ≤ l.foldl (fun m v => if m < v then v else m) m0 := by
  induction l with
  | nil => intro m0; simp
  | cons a r ih =>
    intro m0
    simp only [List.foldl_cons]
    by_cases h : m0 < a
    · simp only [h, ↓reduceIte]
      obtain ⟨h1, h2, h3⟩ := ih a
      refine ⟨?_, le_trans h.le h2, ?_⟩
      · rcases h1 with e | e
        · right; rw [e]; exact List.mem_cons_self
        · right; exact List.mem_cons_of_mem _ e
      · intro v hv
        rcases List.mem_cons.1 hv with e | e
        · rw [e]; exact h2
        · exact h3 v e
    · simp only [h, ↓reduceIte]
      obtain ⟨h1, h2, h3⟩ := ih m0
      refine ⟨?_, h2, ?_⟩
      · rcases h1 with e | e
        · left; exact e
        · right; exact List.mem_cons_of_mem _ e
      · intro v hv
        rcases List.mem_cons.1 hv with e | e
        · rw [e]; exact le_trans (not_lt.1 h) h2
        · exact h3 v e

theorem minOf_spec (l : List α) (hne : l ≠ []) : ∃ m, minOf l = some m ∧ m ∈ l ∧ ∀ v ∈ l, m ≤ v := by
  cases l with
  | nil => exact absurd rfl hne
  | cons a r =>
    obtain ⟨h1, h2, h3⟩ := foldMin_spec r a
    refine ⟨_, rfl, ?_, ?_⟩
    · rcases h1 with e | e
      · rw [e]; exact List.mem_cons_self
      · exact List.mem_cons_of_mem _ e
    · intro v hv
      rcases List.mem_cons.1 hv with e | e
      · rw [e]; exact h2
      · exact h3 v e

theorem maxOf_spec (l : List α) (hne : l ≠ []) : ∃ m, maxOf l = some m ∧ m ∈ l ∧ ∀ v ∈ l, v ≤ m := by
  cases l with
  | nil => exact absurd rfl hne
  | cons a r =>
    obtain ⟨h1, h2, h3⟩ := foldMax_spec r a
    refine ⟨_, rfl, ?_, ?_⟩
    · rcases h1 with e | e
      · rw [e]; exact List.mem_cons_self
      · exact List.mem_cons_of_mem _ e
    · intro v hv
      rcases List.mem_cons.1 hv with e | e
      · rw [e]; exact h2
      · exact h3 v e

/-- the grid built by the constructor on any box (zero width / height allowed) is well formed and covers the box -/
theorem mkGrid_wf (bx0 bx1 by0 by1 rx ry margin : α) (hx : bx0 ≤ bx1) (hy : by0 ≤ by1)
    (hrx : 0 < rx) (hry : 0 < ry) (hm : 0 ≤ margin) :
    WF (mkGrid Int.ceil bx0 bx1 by0 by1 rx ry margin)
    ∧ (mkGrid Int.ceil bx0 bx1 by0 by1 rx ry margin).xmin ≤ bx0 ∧ bx1 ≤ (mkGrid Int.ceil bx0 bx1 by0 by1 rx ry margin).xmax
    ∧ (mkGrid Int.ceil bx0 bx1 by0 by1 rx ry margin).ymin ≤ by0 ∧ by1 ≤ (mkGrid Int.ceil bx0 bx1 by0 by1 rx ry margin).ymax := by
  have hdx : 0 ≤ margin * (bx1 - bx0) := mul_nonneg hm (by linarith)
  have hdy : 0 ≤ margin * (by1 - by0) := mul_nonneg hm (by linarith)
  refine ⟨⟨hrx, hry, ?_, ?_, rfl, rfl⟩, ?_, ?_, ?_, ?_⟩ <;> simp only [mkGrid] <;> linarith

end extent

/-! ### the cell operators -/
section aggr
variable {α : Type}

theorem nonNaN_cons_none (r : List (Option α)) : nonNaN (none :: r) = nonNaN r := by simp [nonNaN]
theorem nonNaN_cons_some (a : α) (r : List (Option α)) : nonNaN (some a :: r) = a :: nonNaN r := by simp [nonNaN]

theorem coCount_eq (l : List (Option α)) : coCount l = (nonNaN l).length := by
  induction l with
  | nil => rfl
  | cons v r ih =>
    cases v with
    | none => simp [coCount, nonNaN_cons_none, ih]
    | some a => simp [coCount, nonNaN_cons_some, ih]

section field
variable [Field α] [LinearOrder α] [IsStrictOrderedRing α]

def sumStep (s : α) (v : Option α) : α := match v with | none => s | some a => s + a

theorem coSum_foldl (l : List (Option α)) : ∀ s0 : α, l.foldl sumStep s0 = s0 + (nonNaN l).sum := by
  induction l with
  | nil => intro s0; simp [nonNaN]
  | cons v r ih =>
    intro s0
    cases v with
    | none => simp only [List.foldl_cons, nonNaN_cons_none, sumStep]; exact ih s0
    | some a => simp only [List.foldl_cons, nonNaN_cons_some, List.sum_cons, sumStep]; rw [ih]; ring

theorem coSum_eq (l : List (Option α)) : coSum l = (nonNaN l).sum := by
  have : coSum l = l.foldl sumStep 0 := rfl
  rw [this, coSum_foldl]; ring

def minStep (m : Option α) (v : Option α) : Option α :=
  match v with
  | none => m
  | some a => match m with
    | none => some a
    | some b => if a < b then some a else some b

def maxStep (m : Option α) (v : Option α) : Option α :=
  match v with
  | none => m
  | some a => match m with
    | none => some a
    | some b => if b < a then some a else some b

theorem coMin_eq_foldl (l : List (Option α)) : coMin l = l.foldl minStep none := rfl
theorem coMax_eq_foldl (l : List (Option α)) : coMax l = l.foldl maxStep none := rfl

theorem minStep_some (acc : Option α) (a : α) :
    ∃ c, minStep acc (some a) = some c ∧ c ≤ a ∧ (∀ b, acc = some b → c ≤ b) ∧ (c = a ∨ acc = some c) := by
  cases acc with
  | none => exact ⟨a, rfl, le_refl _, fun b h => by simp at h, Or.inl rfl⟩
  | some b =>
    by_cases h : a < b
    · refine ⟨a, by simp [minStep, h], le_refl _, fun b' hb' => ?_, Or.inl rfl⟩
      have : b = b' := Option.some.inj hb'
      rw [← this]; exact h.le
    · refine ⟨b, by simp [minStep, h], not_lt.1 h, fun b' hb' => ?_, Or.inr rfl⟩
      have : b = b' := Option.some.inj hb'
      rw [← this]

theorem maxStep_some (acc : Option α) (a : α) :
    ∃ c, maxStep acc (some a) = some c ∧ a ≤ c ∧ (∀ b, acc = some b → b ≤ c) ∧ (c = a ∨ acc = some c) := by
  cases acc with
  | none => exact ⟨a, rfl, le_refl _, fun b h => by simp at h, Or.inl rfl⟩
  | some b =>
    by_cases h : b < a
    · refine ⟨a, by simp [maxStep, h], le_refl _, fun b' hb' => ?_, Or.inl rfl⟩
      have : b = b' := Option.some.inj hb'
      rw [← this]; exact h.le
    · refine ⟨b, by simp [maxStep, h], not_lt.1 h, fun b' hb' => ?_, Or.inr rfl⟩
      have : b = b' := Option.some.inj hb'
      rw [← this]

theorem minFold_spec (l : List (Option α)) : ∀ acc : Option α,
    (l.foldl minStep acc = none ↔ acc = none ∧ nonNaN l = []) ∧
    ∀ m, l.foldl minStep acc = some m →
      (acc = some m ∨ m ∈ nonNaN l) ∧ (∀ b, acc = some b → m ≤ b) ∧ ∀ v ∈ nonNaN l, m ≤ v := by
  induction l with
  | nil =>
    intro acc
    refine ⟨by simp [nonNaN], fun m hm => ?_⟩
    simp only [List.foldl_nil] at hm
    refine ⟨Or.inl hm, fun b hb => ?_, by simp [nonNaN]⟩
    rw [hm] at hb; rw [Option.some.inj hb]
  | cons v r ih =>
    intro acc
    cases v with
    | none => simpa [nonNaN_cons_none, minStep] using ih acc
    | some a =>
      obtain ⟨c, hc, hca, hcb, hcor⟩ := minStep_some acc a
      obtain ⟨ih1, ih2⟩ := ih (minStep acc (some a))
      simp only [List.foldl_cons, nonNaN_cons_some]
      constructor
      · constructor
        · intro h; rw [ih1, hc] at h; simp at h
        · intro h; simp at h
      · intro m hm
        obtain ⟨h1, h2, h3⟩ := ih2 m hm
        have hmc : m ≤ c := h2 c hc
        refine ⟨?_, fun b hb => le_trans hmc (hcb b hb), ?_⟩
        · rcases h1 with h1 | h1
          · rw [hc] at h1
            have : c = m := Option.some.inj h1
            rcases hcor with e | e
            · right; rw [← this, e]; exact List.mem_cons_self
            · left; rw [← this]; exact e
          · right; exact List.mem_cons_of_mem _ h1
        · intro v hv
          rcases List.mem_cons.1 hv with e | e
          · rw [e]; exact le_trans hmc hca
          · exact h3 v e

theorem maxFold_spec (l : List (Option α)) : ∀ acc : Option α,
    (l.foldl maxStep acc = none ↔ acc = none ∧ nonNaN l = []) ∧
    ∀ m, l.foldl maxStep acc = some m →
      (acc = some m ∨ m ∈ nonNaN l) ∧ (∀ b, acc = some b → b ≤ m) ∧ ∀ v ∈ nonNaN l, v ≤ m := by
  induction l with
  | nil =>
    intro acc
    refine ⟨by simp [nonNaN], fun m hm => ?_⟩
    simp only [List.foldl_nil] at hm
    refine ⟨Or.inl hm, fun b hb => ?_, by simp [nonNaN]⟩
    rw [hm] at hb; rw [Option.some.inj hb]
  | cons v r ih =>
    intro acc
    cases v with
    | none => simpa [nonNaN_cons_none, maxStep] using ih acc
    | some a =>
      obtain ⟨c, hc, hca, hcb, hcor⟩ := maxStep_some acc a
      obtain ⟨ih1, ih2⟩ := ih (maxStep acc (some a))
      simp only [List.foldl_cons, nonNaN_cons_some]
      constructor
      · constructor
        · intro h; rw [ih1, hc] at h; simp at h
        · intro h; simp at h
      · intro m hm
        obtain ⟨h1, h2, h3⟩ := ih2 m hm
        have hmc : c ≤ m := h2 c hc
        refine ⟨?_, fun b hb => le_trans (hcb b hb) hmc, ?_⟩
        · rcases h1 with h1 | h1
          · rw [hc] at h1
            have : c = m := Option.some.inj h1
            rcases hcor with e | e
            · right; rw [← this, e]; exact List.mem_cons_self
            · left; rw [← this]; exact e
          · right; exact List.mem_cons_of_mem _ h1
        · intro v hv
          rcases List.mem_cons.1 hv with e | e
          · rw [e]; exact le_trans hca hmc
          · exact h3 v e

/-- `co_min`: NaN exactly when there is no non-NaN value, otherwise the least non-NaN value -/
theorem coMin_spec (l : List (Option α)) :
    (coMin l = none ↔ nonNaN l = []) ∧ ∀ m, coMin l = some m → m ∈ nonNaN l ∧ ∀ v ∈ nonNaN l, m ≤ v := by
  obtain ⟨h1, h2⟩ := minFold_spec l none
  rw [coMin_eq_foldl]
  refine ⟨by simpa using h1, fun m hm => ?_⟩
  obtain ⟨a, _, c⟩ := h2 m hm
  exact ⟨by simpa using a, c⟩

/-- `co_max`: NaN exactly when there is no non-NaN value, otherwise the greatest non-NaN value -/
theorem coMax_spec (l : List (Option α)) :
    (coMax l = none ↔ nonNaN l = []) ∧ ∀ m, coMax l = some m → m ∈ nonNaN l ∧ ∀ v ∈ nonNaN l, v ≤ m := by
  obtain ⟨h1, h2⟩ := maxFold_spec l none
  rw [coMax_eq_foldl]
  refine ⟨by simpa using h1, fun m hm => ?_⟩
  obtain ⟨a, _, c⟩ := h2 m hm
  exact ⟨by simpa using a, c⟩

/-- `co_avg`: NaN when there is no non-NaN value, otherwise their arithmetic mean -/
theorem coAvg_spec (l : List (Option α)) :
    coAvg l = if nonNaN l = [] then none else some ((nonNaN l).sum / ((nonNaN l).length : α)) := by
  unfold coAvg
  by_cases hl : l.length = 0
  · have : l = [] := List.eq_nil_of_length_eq_zero hl
    subst this; simp [nonNaN]
  · simp only [hl, ↓reduceIte, coCount_eq, coSum_eq]
    by_cases hn : nonNaN l = []
    · simp [hn]
    · have : (nonNaN l).length ≠ 0 := fun h => hn (List.eq_nil_of_length_eq_zero h)
      simp [hn, this]

theorem lastMin_fold (l : List α) : ∀ m0 : α,
    (l.foldl (fun m v => if v ≤ m then v else m) m0 = m0 ∨ l.foldl (fun m v => if v ≤ m then v else m) m0 ∈ l)
    ∧ l.foldl (fun m v => if v ≤ m then v else m) m0 ≤ m0
    ∧ ∀ v ∈ l, l.foldl (fun m v => if v ≤ m then v else m) m0 ≤ v := by
  induction l with
  | nil => intro m0; simp
  | cons a r ih =>
    intro m0
    simp only [List.foldl_cons]
    by_cases h : a ≤ m0
    · simp only [h, ↓reduceIte]
      obtain ⟨h1, h2, h3⟩ := ih a
      refine ⟨?_, le_trans h2 h, ?_⟩
      · rcases h1 with e | e
        · right; rw [e]; exact List.mem_cons_self
        · right; exact List.mem_cons_of_mem _ e
      · intro v hv
        rcases List.mem_cons.1 hv with e | e
        · rw [e]; exact h2
        · exact h3 v e
    · simp only [h, ↓reduceIte]
      obtain ⟨h1, h2, h3⟩ := ih m0
      refine ⟨?_, h2, ?_⟩
      · rcases h1 with e | e
        · left; exact e
        · right; exact List.mem_cons_of_mem _ e
      · intro v hv
        rcases List.mem_cons.1 hv with e | e
        · rw [e]; exact le_trans h2 (le_of_lt (not_le.1 h))
        · exact h3 v e

theorem lastMin_spec (a : α) (r : List α) :
    lastMin a (a :: r) ∈ a :: r ∧ ∀ v ∈ a :: r, lastMin a (a :: r) ≤ v := by
  obtain ⟨h1, _, h3⟩ := lastMin_fold (a :: r) a
  unfold lastMin
  refine ⟨?_, h3⟩
  rcases h1 with e | e
  · rw [e]; exact List.mem_cons_self
  · exact e

/-- the selection sort of `co_median` returns the sorted permutation of its input -/
theorem selSort_spec : ∀ (k : Nat) (l : List α), l.length = k →
    (selSort k l).Perm l ∧ (selSort k l).Pairwise (· ≤ ·)
  | 0, l, h => by
    have : l = [] := List.eq_nil_of_length_eq_zero h
    subst this; simp [selSort]
  | k + 1, [], h => by simp at h
  | k + 1, a :: r, h => by
    obtain ⟨hm, hle⟩ := lastMin_spec a r
    have hlen : ((a :: r).erase (lastMin a (a :: r))).length = k := by
      rw [List.length_erase_of_mem hm]; simpa using h
    obtain ⟨ihp, ihs⟩ := selSort_spec k _ hlen
    have e : selSort (k + 1) (a :: r) = lastMin a (a :: r) :: selSort k ((a :: r).erase (lastMin a (a :: r))) := rfl
    rw [e]
    refine ⟨(List.Perm.cons _ ihp).trans (List.perm_cons_erase hm).symm, ?_⟩
    rw [List.pairwise_cons]
    refine ⟨fun x hx => ?_, ihs⟩
    exact hle x (List.mem_of_mem_erase (ihp.mem_iff.1 hx))

/-- `co_median`: NaN exactly when there is no non-NaN value; otherwise the middle element (odd count) or the
    half-sum of the two middle elements (even count) of the sorted non-NaN values -/
theorem coMedian_spec (l : List (Option α)) :
    (coMedian l = none ↔ nonNaN l = []) ∧
    (nonNaN l ≠ [] → ∃ s : List α, s.Perm (nonNaN l) ∧ s.Pairwise (· ≤ ·) ∧
      (((nonNaN l).length % 2 = 1 ∧ ∃ h : ((nonNaN l).length - 1) / 2 < s.length,
          coMedian l = some s[((nonNaN l).length - 1) / 2])
       ∨ ((nonNaN l).length % 2 = 0 ∧ ∃ (h1 : (nonNaN l).length / 2 < s.length) (h2 : (nonNaN l).length / 2 - 1 < s.length),
          coMedian l = some ((1 / 2 : α) * (s[(nonNaN l).length / 2] + s[(nonNaN l).length / 2 - 1]))))) := by
  have second : nonNaN l ≠ [] → ∃ s : List α, s.Perm (nonNaN l) ∧ s.Pairwise (· ≤ ·) ∧
      (((nonNaN l).length % 2 = 1 ∧ ∃ h : ((nonNaN l).length - 1) / 2 < s.length,
          coMedian l = some s[((nonNaN l).length - 1) / 2])
       ∨ ((nonNaN l).length % 2 = 0 ∧ ∃ (h1 : (nonNaN l).length / 2 < s.length) (h2 : (nonNaN l).length / 2 - 1 < s.length),
          coMedian l = some ((1 / 2 : α) * (s[(nonNaN l).length / 2] + s[(nonNaN l).length / 2 - 1])))) := by
    intro hne
    have hn : (nonNaN l).length ≠ 0 := fun h => hne (List.eq_nil_of_length_eq_zero h)
    have hl : l.length ≠ 0 := by
      intro h; have : l = [] := List.eq_nil_of_length_eq_zero h
      subst this; simp [nonNaN] at hne
    obtain ⟨hp, hs⟩ := selSort_spec (nonNaN l).length (nonNaN l) rfl
    have hlen : (selSort (nonNaN l).length (nonNaN l)).length = (nonNaN l).length := hp.length_eq
    refine ⟨selSort (nonNaN l).length (nonNaN l), hp, hs, ?_⟩
    by_cases hodd : (nonNaN l).length % 2 = 1
    · left
      have hi : ((nonNaN l).length - 1) / 2 < (selSort (nonNaN l).length (nonNaN l)).length := by rw [hlen]; omega
      refine ⟨hodd, hi, ?_⟩
      unfold coMedian
      simp only [hl, hn, hodd, ↓reduceIte, List.getElem?_eq_getElem hi]
    · right
      have heven : (nonNaN l).length % 2 = 0 := by omega
      have h1 : (nonNaN l).length / 2 < (selSort (nonNaN l).length (nonNaN l)).length := by rw [hlen]; omega
      have h2 : (nonNaN l).length / 2 - 1 < (selSort (nonNaN l).length (nonNaN l)).length := by rw [hlen]; omega
      refine ⟨heven, h1, h2, ?_⟩
      unfold coMedian
      have hne1 : ¬ ((nonNaN l).length % 2 = 1) := hodd
      simp only [hl, hn, hne1, ↓reduceIte, List.getElem?_eq_getElem h1, List.getElem?_eq_getElem h2]
  refine ⟨⟨fun h => ?_, fun h => ?_⟩, second⟩
  · by_contra hne
    obtain ⟨s, _, _, hcase⟩ := second hne
    rcases hcase with ⟨_, _, e⟩ | ⟨_, _, _, e⟩ <;> rw [h] at e <;> simp at e
  · unfold coMedian
    by_cases hl : l.length = 0
    · simp [hl]
    · simp [hl, h]

end field
end aggr

end TV.Raster
