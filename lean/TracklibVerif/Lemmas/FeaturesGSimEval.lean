import TracklibVerif.Lemmas.FeaturesGSimOps
/-! `Lemmas/FeaturesEval.lean` for any two implementations of the Track API whose primitives are simulated (`PrimSim`): the expression
evaluator with its purge and the dispatch of one API call `step`. Generated from that file by renaming; the original is kept. -/
set_option linter.unusedSectionVars false
namespace TV.Features
variable {V : Type} {σ τ : Type} [Tbl σ V] [Tbl τ V] {I : σ → Prop} {ab : σ → τ} [PrimSim I ab]
open Tbl

theorem gsim_assignOp (o : Ops V) (op1 op2 : SV V) :
    GSim I ab (fun _ => True) (assignOp (σ := σ) o op1 op2) (assignOp (σ := τ) o op1 op2) := by
  unfold assignOp
  refine gsim_bind (gsim_hasSV op2) (fun b2 _ => ?_)
  refine gsim_ite _ ?_ ?_
  · cases op2 with
    | tok s2 =>
      simp only
      refine gsim_bind (gsim_hasSV op1) (fun b1 _ => ?_)
      refine gsim_ite _ ?_ ?_
      · cases op1 with
        | tok s1 =>
          simp only
          refine gsim_ite _ ?_ ?_
          · gsim_auto
          · refine gsim_bind (PrimSim.get o s2) (fun af haf => ?_)
            refine gsim_bind (PrimSim.remove s1) (fun _ _ => ?_)
            exact PrimSim.create s1 (.list af)
        | num v => gsim_auto
        | none => gsim_auto
      · refine gsim_bind (PrimSim.get o s2) (fun af haf => ?_)
        cases op1 with
        | tok s1 => exact PrimSim.create s1 (.list af)
        | num v => gsim_auto
        | none => gsim_auto
    | num v => gsim_auto
    | none => gsim_auto
  · cases coordTarget op1 with
    | some c => simp only; gsim_auto
    | none =>
      simp only
      refine gsim_bind (gsim_hasSV op1) (fun b1 _ => ?_)
      refine gsim_ite _ ?_ ?_
      · refine gsim_bind (gsim_toFloat o op2) (fun v _ => ?_)
        cases op1 <;> gsim_auto
      · refine gsim_bind (gsim_toFloat o op2) (fun v _ => ?_)
        cases op1 <;> gsim_auto
macro_rules | `(tactic| gsim_leaf) => `(tactic| exact gsim_assignOp _ _ _)

theorem gsim_fnVoidOp (o : Ops V) (f inp out : String) :
    GSim I ab (fun _ => True) (fnVoidOp (σ := σ) o f inp out) (fnVoidOp (σ := τ) o f inp out) := by
  unfold fnVoidOp
  cases vfn? f <;> simp only <;> gsim_auto

theorem gsim_funcOp (o : Ops V) (op1 op2 : SV V) (out : String) :
    GSim I ab (fun _ => True) (funcOp (σ := σ) o op1 op2 out) (funcOp (σ := τ) o op1 op2 out) := by
  unfold funcOp
  cases op1 with
  | tok f =>
    simp only
    cases vfn? f with
    | some vf => cases op2 <;> simp only <;> gsim_auto
    | none =>
      simp only
      refine gsim_ite _ ?_ ?_
      · cases op2 with
        | tok s2 =>
          simp only
          refine gsim_bind (gsim_aggOp o f s2) (fun v _ => ?_)
          refine gsim_bind PrimSim.size (fun k hk => ?_)
          exact gsim_bind (PrimSim.create out (.list (List.replicate k v))) (fun _ _ => gsim_pure _ trivial)
        | num v => gsim_auto
        | none => gsim_auto
      · gsim_auto
  | num v => gsim_auto
  | none => gsim_auto
macro_rules | `(tactic| gsim_leaf) => `(tactic| exact gsim_funcOp _ _ _ _)

theorem gsim_dispatchOp (o : Ops V) (op1 op2 : SV V) (operator : String) (k : Nat) :
    GSim I ab (fun _ => True) (dispatchOp (σ := σ) o op1 op2 operator k) (dispatchOp (σ := τ) o op1 op2 operator k) := by
  unfold dispatchOp
  refine gsim_ite _ ?_ ?_
  · gsim_auto
  refine gsim_bind (gsim_hasSV op1) (fun a1 _ => ?_)
  refine gsim_bind (gsim_hasSV op2) (fun a2 _ => ?_)
  cases a1 <;> cases a2 <;> cases op1 <;> cases op2 <;> simp only <;>
    first
    | gsim_leaf
    | (cases bKind? operator with
       | none => gsim_auto
       | some b => cases b <;> simp only <;> gsim_auto)
    | (cases sKind? operator <;> simp only <;> gsim_auto)
    | (cases srKind? operator <;> simp only <;> gsim_auto)
macro_rules | `(tactic| gsim_leaf) => `(tactic| exact gsim_dispatchOp _ _ _ _ _)

theorem gsim_arithOp (o : Ops V) (operator : String) (op1 op2 : SV V) (k : Nat) :
    GSim I ab (fun _ => True) (arithOp (σ := σ) o operator op1 op2 k) (arithOp (σ := τ) o operator op1 op2 k) := by
  unfold arithOp
  refine gsim_bind (gsim_isFloat o op1) (fun f1 _ => ?_)
  refine gsim_bind (P := fun _ => True) ?_ (fun f2 _ => ?_)
  · gsim_auto
  refine gsim_ite _ ?_ ?_
  · refine gsim_bind (gsim_toFloat o op1) (fun a _ => ?_)
    refine gsim_bind (gsim_toFloat o op2) (fun c _ => ?_)
    cases litOp o operator a c <;> simp only <;> gsim_auto
  · gsim_auto
macro_rules | `(tactic| gsim_leaf) => `(tactic| exact gsim_arithOp _ _ _ _ _)

theorem gsim_applyOperation (o : Ops V) (op1 op2 : SV V) (operator : String) (k : Nat) :
    GSim I ab (fun _ => True) (applyOperation (σ := σ) o op1 op2 operator k)
      (applyOperation (σ := τ) o op1 op2 operator k) := by
  unfold applyOperation
  refine gsim_ite _ ?_ ?_
  · gsim_auto
  · gsim_auto
macro_rules | `(tactic| gsim_leaf) => `(tactic| exact gsim_applyOperation _ _ _ _ _)

theorem gsim_evaluateRPN (o : Ops V) (rpn : List String) (stack : List (SV V)) (k : Nat) :
    GSim I ab (fun _ => True) (evaluateRPN (σ := σ) o rpn stack k) (evaluateRPN (σ := τ) o rpn stack k) := by
  induction rpn generalizing stack k with
  | nil => unfold evaluateRPN; gsim_auto
  | cons e rest ih =>
    unfold evaluateRPN
    refine gsim_ite _ ?_ (ih _ _)
    match stack with
    | [] => gsim_auto
    | [_] => gsim_auto
    | op2 :: op1 :: stack' =>
      simp only
      exact gsim_bind (gsim_applyOperation o op1 op2 e k) (fun r _ => ih _ _)
macro_rules | `(tactic| gsim_leaf) => `(tactic| exact gsim_evaluateRPN _ _ _ _)

theorem gsim_evaluate (o : Ops V) (rpn : List String) :
    GSim I ab (fun _ => True) (evaluate (σ := σ) o rpn) (evaluate (σ := τ) o rpn) := by
  unfold evaluate
  gsim_auto

theorem gsim_purge : GSim I ab (fun _ => True) (purge (σ := σ)) (purge (σ := τ)) := by
  unfold purge
  gsim_auto

theorem gsim_operateStr (o : Ops V) (rpn : List String) :
    GSim I ab (fun _ => True) (operateStr (σ := σ) o rpn) (operateStr (σ := τ) o rpn) := by
  unfold operateStr
  exact gsim_tryFinally (gsim_evaluate o rpn) gsim_purge


/-- one API call: the code's table and the specification table do the same thing -/
theorem gsim_step (o : Ops V) (op : Op V) :
    GSim I ab (fun _ => True) (step (σ := σ) o op) (step (σ := τ) o op) := by
  cases op with
  | create nm init => unfold step; exact gsim_bind (PrimSim.create nm init) (fun _ _ => gsim_pure _ trivial)
  | setItem nm init => unfold step; exact gsim_bind (gsim_setItem nm init) (fun _ _ => gsim_pure _ trivial)
  | update nm init => unfold step; gsim_auto
  | remove nm => unfold step; gsim_auto
  | setObs nm i v => unfold step; gsim_auto
  | addAF alg nm => unfold step; exact gsim_bind (gsim_addAF o alg nm) (fun _ _ => gsim_pure _ trivial)
  | unaryVoid k inp out => unfold step; exact gsim_bind (gsim_unaryVoid o k inp _) (fun _ _ => gsim_pure _ trivial)
  | binaryVoid k in1 in2 out => unfold step; gsim_auto
  | scalarVoid k inp arg out => unfold step; gsim_auto
  | sum inp => unfold step; exact gsim_bind (gsim_sumOp o inp) (fun _ _ => gsim_pure _ trivial)
  | opaqueVoid cols cells out vals =>
    unfold step; exact gsim_bind (gsim_opaqueVoid o cols cells out vals) (fun _ _ => gsim_pure _ trivial)
  | reverser inp out => unfold step; exact gsim_bind (gsim_reverser o inp _) (fun _ _ => gsim_pure _ trivial)
  | probe cols cells => unfold step; gsim_auto
  | fnVoid f inp out => unfold step; exact gsim_fnVoidOp o f inp _
  | scalarK k inp arg out => unfold step; gsim_auto
  | aggFn f inp => unfold step; gsim_auto
  | absCurv => unfold step; exact gsim_bind (gsim_absCurvOp o) (fun _ _ => gsim_pure _ trivial)
  | estSpeed => unfold step; exact gsim_bind (gsim_estSpeedOp o) (fun _ _ => gsim_pure _ trivial)
  | segment inp out thr => unfold step; exact gsim_bind (gsim_segmentOp o inp out thr) (fun _ _ => gsim_pure _ trivial)
  | expr rpn => unfold step; exact gsim_operateStr o rpn

end TV.Features
