import TracklibVerif.Lemmas.GraphSession
/-! Lemmas for C06: what the calls of a session return, in terms of true distances — recorded entries of a search
stopped at a target, the visited set (`sub_network`), a table filled by several calls with the same dictionary. -/
namespace TV.Graph
variable {W : Type} [LinearOrder W] [Add W] [Zero W] [WalkAdd W]

/-- for any target and cut-off: the recorded entries are exactly the visited nodes with their labels, and every
visited node's label is within the cut-off -/
theorem forward_rec (net : Net W) (tgt : Option Nat) (cut : Option W) (f : Nat) (st : St W) (out : List (Nat × W))
    (hout : ∀ u y, (u, y) ∈ out ↔ (st.vis u = true ∧ st.d u = some y))
    (hcut : ∀ u y, st.vis u = true → st.d u = some y → Within cut y) :
    (∀ u y, (u, y) ∈ (forward net tgt cut f st out).2 ↔
      ((forward net tgt cut f st out).1.vis u = true ∧ (forward net tgt cut f st out).1.d u = some y)) ∧
    (∀ u y, (forward net tgt cut f st out).1.vis u = true → (forward net tgt cut f st out).1.d u = some y →
      Within cut y) := by
  induction f generalizing st out with
  | zero => exact ⟨hout, hcut⟩
  | succ f ih =>
    unfold forward
    cases hp : popMinAux st net.n with
    | none => exact ⟨hout, hcut⟩
    | some p =>
      obtain ⟨u0, du⟩ := p
      obtain ⟨hu0, hu0v, hu0d, hmin⟩ := popMin_facts hp
      simp only []
      by_cases hstop : stops tgt cut u0 du = true
      · simp only [hstop, if_true]; exact ⟨hout, hcut⟩
      · simp only [hstop, Bool.false_eq_true, if_false]
        have hwdu : Within cut du := by
          intro c hc
          have : ¬ (c < du) := by
            intro hlt; apply hstop; simp [stops, hc, hlt]
          exact not_lt.mp this
        obtain ⟨s1, s2, _, _⟩ := settle_spec net st u0 du
        apply ih (settle net st u0 du) (out ++ [(u0, du)])
        · intro v z
          rw [List.mem_append, List.mem_singleton, s1 v]
          constructor
          · rintro (h | h)
            · obtain ⟨a, b⟩ := (hout v z).1 h
              refine ⟨by split <;> simp [a], ?_⟩
              rw [s2 v (Or.inr a)]; exact b
            · simp only [Prod.mk.injEq] at h
              obtain ⟨rfl, rfl⟩ := h
              exact ⟨by simp, by rw [s2 v (Or.inl rfl)]; exact hu0d⟩
          · rintro ⟨a, b⟩
            by_cases hvu : v = u0
            · subst hvu
              rw [s2 v (Or.inl rfl), hu0d] at b
              cases b
              exact Or.inr rfl
            · simp only [hvu, if_false] at a
              rw [s2 v (Or.inr a)] at b
              exact Or.inl ((hout v z).2 ⟨a, b⟩)
        · intro v z a b
          rw [s1 v] at a
          by_cases hvu : v = u0
          · subst hvu
            rw [s2 v (Or.inl rfl), hu0d] at b
            cases b
            exact hwdu
          · simp only [hvu, if_false] at a
            rw [s2 v (Or.inr a)] at b
            exact hcut v z a b

/-- the label of a settled (`visite`) node is its true distance, at any moment of any search -/
theorem settled_isDist (net : Net W) (hnet : WFNet net) (s : Nat) (st : St W) (hinv : Inv net s st) (u : Nat) (y : W)
    (hv : st.vis u = true) (hd : st.d u = some y) : IsDist net s u y := by
  refine ⟨hinv.j3 u y hd, ?_⟩
  intro c hc
  have hinv' := run_inv net hnet s net.n st hinv
  have hdone := run_done net net.n st (cnt_le _ _)
  obtain ⟨h1, _⟩ := labels_are_distances net s _ hinv' hdone
  obtain ⟨y', hy', hle⟩ := h1 u c hc
  rw [(run_stable net net.n st u hv).1, hd] at hy'
  cases hy'; exact hle

/-- every entry a search writes to `output_dict` — whatever the target and the cut-off — is a true distance that does
not exceed the cut-off, and the entries are exactly the nodes the search visited -/
theorem runForward_entries (net : Net W) (hnet : WFNet net) (s : Nat) (hs : s < net.n) (tgt : Option Nat) (cut : Option W) :
    (∀ u y, (u, y) ∈ (runForward net s tgt cut).2 → IsDist net s u y ∧ Within cut y) ∧
    (∀ u, (runForward net s tgt cut).1.vis u = true ↔ ∃ y, (u, y) ∈ (runForward net s tgt cut).2) := by
  have hinv := forward_inv net hnet s tgt cut net.n (St.init s) [] (inv_init net s hs)
  obtain ⟨r1, r2⟩ := forward_rec net tgt cut net.n (St.init s) []
    (by intro u y; simp [St.init]) (by intro u y h; simp [St.init] at h)
  constructor
  · intro u y h
    obtain ⟨a, b⟩ := (r1 u y).1 h
    exact ⟨settled_isDist net hnet s _ hinv u y a b, r2 u y a b⟩
  · intro u
    constructor
    · intro h
      obtain ⟨x, hx⟩ := hinv.j5 u h
      exact ⟨x, (r1 u x).2 ⟨h, hx⟩⟩
    · rintro ⟨y, h⟩
      exact ((r1 u y).1 h).1

/-- T5, one source (the lemma behind `cutoff_entries`) -/
theorem runForward_out (net : Net W) (hnet : WFNet net) (s : Nat) (hs : s < net.n) (cut : Option W) (v : Nat) (y : W) :
    (v, y) ∈ (runForward net s none cut).2 ↔ (IsDist net s v y ∧ Within cut y) := by
  unfold runForward
  rw [forward_out net hnet s cut net.n (St.init s) [] (inv_init net s hs) (cnt_le _ _)
    (by intro u y; simp [St.init]) (by intro u y h; simp [St.init] at h)]
  rw [run_isDist net hnet s hs]

/-- the nodes `visite` after `run_routing_forward(s, cut=cut)` are exactly those within the cut-off -/
theorem visited_iff (net : Net W) (hnet : WFNet net) (s : Nat) (hs : s < net.n) (cut : Option W) (u : Nat) :
    (runForward net s none cut).1.vis u = true ↔ ∃ y, IsDist net s u y ∧ Within cut y := by
  rw [(runForward_entries net hnet s hs none cut).2 u]
  constructor
  · rintro ⟨y, h⟩; exact ⟨y, (runForward_out net hnet s hs cut u y).1 h⟩
  · rintro ⟨y, h⟩; exact ⟨y, (runForward_out net hnet s hs cut u y).2 h⟩

/-! ### a dictionary filled by several calls -/

theorem fold_record_untouched (F : Nat → List (Nat × W)) (order : List Nat) (tb : Table W) (s v : Nat)
    (h : s ∈ order → ∀ y, (v, y) ∉ F s) :
    (order.foldl (fun tb s => record tb s (F s)) tb) (s, v) = tb (s, v) := by
  induction order generalizing tb with
  | nil => rfl
  | cons s0 rest ih =>
    simp only [List.foldl_cons]
    rw [ih _ (fun hs => h (List.mem_cons_of_mem _ hs))]
    by_cases hs : s = s0
    · subst hs
      rcases (record_spec tb s (F s)).2.2.1 v with h3 | ⟨y, _, hm⟩
      · exact h3
      · exact absurd hm (h List.mem_cons_self y)
    · exact (record_spec tb s0 (F s0)).2.1 s v hs

/-- `all_shortest_distances(cut, output_dict)` on a dictionary that already has entries: the keys `(s, v)` within the
cut-off get the true distance (written or overwritten), every other key keeps what it had -/
theorem allShortestDistances_acc (net : Net W) (hnet : WFNet net) (order : List Nat) (horder : ∀ s ∈ order, s < net.n)
    (cut : Option W) (tb : Table W) (s v : Nat) (y : W) :
    allShortestDistances net order cut tb (s, v) = some y ↔
      ((s ∈ order ∧ IsDist net s v y ∧ Within cut y) ∨
       (tb (s, v) = some y ∧ ¬ (s ∈ order ∧ ∃ y', IsDist net s v y' ∧ Within cut y'))) := by
  unfold allShortestDistances
  by_cases hin : s ∈ order ∧ ∃ y', IsDist net s v y' ∧ Within cut y'
  · obtain ⟨hs, y', hd, hw⟩ := hin
    have hA : ∀ z, (v, z) ∈ (runForward net s none cut).2 → z = y' :=
      fun z hz => ((runForward_out net hnet s (horder s hs) cut v z).1 hz).1.unique hd
    obtain ⟨y2, h1, h2⟩ := fold_record_complete (fun s => (runForward net s none cut).2) s v (fun z => z = y') hA order tb hs y'
      ((runForward_out net hnet s (horder s hs) cut v y').2 ⟨hd, hw⟩)
    rw [h1, h2]
    constructor
    · intro h; cases h; exact Or.inl ⟨hs, hd, hw⟩
    · rintro (⟨_, hd', _⟩ | ⟨_, hn⟩)
      · rw [hd.unique hd']
      · exact absurd ⟨hs, y', hd, hw⟩ hn
  · have hun := fold_record_untouched (fun s => (runForward net s none cut).2) order tb s v (by
      intro hs z hz
      obtain ⟨a, b⟩ := (runForward_out net hnet s (horder s hs) cut v z).1 hz
      exact hin ⟨hs, z, a, b⟩)
    rw [hun]
    constructor
    · intro h; exact Or.inr ⟨h, hin⟩
    · rintro (⟨a, b, c⟩ | ⟨h, _⟩)
      · exact absurd ⟨a, y, b, c⟩ hin
      · exact h

/-- every entry of the dictionary is the true distance of its key -/
def TableSound (net : Net W) (tb : Table W) : Prop := ∀ s v y, tb (s, v) = some y → IsDist net s v y

theorem tableSound_empty (net : Net W) : TableSound net Table.empty := by
  intro s v y h; simp [Table.empty] at h

theorem record_sound (net : Net W) (hnet : WFNet net) (s : Nat) (hs : s < net.n) (tgt : Option Nat) (cut : Option W)
    (tb : Table W) (h : TableSound net tb) : TableSound net (record tb s (runForward net s tgt cut).2) := by
  intro s' v y hy
  rcases (record_spec tb s (runForward net s tgt cut).2).1 s' v y hy with ⟨rfl, hm⟩ | h'
  · exact ((runForward_entries net hnet s' hs tgt cut).1 v y hm).1
  · exact h s' v y h'

theorem allShortestDistances_sound (net : Net W) (hnet : WFNet net) (order : List Nat) (horder : ∀ s ∈ order, s < net.n)
    (cut : Option W) (tb : Table W) (h : TableSound net tb) : TableSound net (allShortestDistances net order cut tb) := by
  intro s v y hy
  rcases (allShortestDistances_acc net hnet order horder cut tb s v y).1 hy with ⟨_, hd, _⟩ | ⟨h', _⟩
  · exact hd
  · exact h s v y h'

/-! ### `sub_network` -/

/-- `sub_network(s, cut, "TOPOLOGIC")` keeps exactly the edges whose two ends are within the cut-off of `s` -/
theorem subEdges_spec (net : Net W) (hnet : WFNet net) (s : Nat) (hs : s < net.n) (cut : Option W) (e : Edge W) :
    e ∈ subEdges net (runForward net s none cut).1 ↔
      (e ∈ net.edges ∧ (∃ y, IsDist net s e.src y ∧ Within cut y) ∧ (∃ y, IsDist net s e.tgt y ∧ Within cut y)) := by
  unfold subEdges
  simp only [List.mem_filter, Bool.and_eq_true]
  rw [visited_iff net hnet s hs cut e.src, visited_iff net hnet s hs cut e.tgt]

/-! ### what each call of a session returns -/

theorem exec_dist_eq (σ : Sess W) (h : SessOK σ) (s t : Nat) (hs : s ∈ σ.order) (ht : t ∈ σ.order) (cut : Option W)
    (ud : Bool) :
    (exec σ (.dist s t cut ud)).2 = .val (shortestDistance σ.net s t cut) ∧
    (exec σ (.dist s t cut ud)).1.udict =
      (if ud then record σ.udict s (runForward σ.net s (some t) cut).2 else σ.udict) ∧
    (exec σ (.dist s t cut ud)).1.prep = σ.prep := by
  have e := (routeOn_eq σ.net h.wf σ.order h.nodes h.ends σ.flags h.clean s hs (some t) cut).1
  have hex : exec σ (.dist s t cut ud) =
      ({ σ with flags := (runForward σ.net s (some t) cut).1,
                udict := if ud then record σ.udict s (runForward σ.net s (some t) cut).2 else σ.udict },
       .val ((runForward σ.net s (some t) cut).1.d t)) := by
    simp only [exec, (contains_iff _ _).2 hs, (contains_iff _ _).2 ht, Bool.and_self, if_true, e]
  rw [hex]
  exact ⟨rfl, rfl, rfl⟩

theorem exec_distList_eq (σ : Sess W) (h : SessOK σ) (s : Nat) (hs : s ∈ σ.order) (cut : Option W) (ud : Bool) :
    (exec σ (.distList s cut ud)).2 = .vals (shortestDistanceList σ.net σ.order s cut) ∧
    (exec σ (.distList s cut ud)).1.udict =
      (if ud then record σ.udict s (runForward σ.net s none cut).2 else σ.udict) ∧
    (exec σ (.distList s cut ud)).1.prep = σ.prep := by
  have e := (routeOn_eq σ.net h.wf σ.order h.nodes h.ends σ.flags h.clean s hs none cut).1
  have hex : exec σ (.distList s cut ud) =
      ({ σ with flags := (runForward σ.net s none cut).1,
                udict := if ud then record σ.udict s (runForward σ.net s none cut).2 else σ.udict },
       .vals (σ.order.map (runForward σ.net s none cut).1.d)) := by
    simp only [exec, (contains_iff _ _).2 hs, if_true, e]
  rw [hex]
  exact ⟨rfl, rfl, rfl⟩

theorem exec_route_eq (σ : Sess W) (h : SessOK σ) (s : Nat) (hs : s ∈ σ.order) (t : Option Nat)
    (ht : ∀ t', t = some t' → t' ∈ σ.order) (cut : Option W) (ud : Bool) :
    (exec σ (.route s t cut ud)).2 =
      .flags (σ.order.map (runForward σ.net s t cut).1.d) (σ.order.map (runForward σ.net s t cut).1.vis) ∧
    (exec σ (.route s t cut ud)).1.udict = (if ud then record σ.udict s (runForward σ.net s t cut).2 else σ.udict) ∧
    (exec σ (.route s t cut ud)).1.prep = σ.prep := by
  have e := (routeOn_eq σ.net h.wf σ.order h.nodes h.ends σ.flags h.clean s hs t cut).1
  have hex : exec σ (.route s t cut ud) =
      ({ σ with flags := (runForward σ.net s t cut).1,
                udict := if ud then record σ.udict s (runForward σ.net s t cut).2 else σ.udict },
       .flags (σ.order.map (runForward σ.net s t cut).1.d) (σ.order.map (runForward σ.net s t cut).1.vis)) := by
    cases t with
    | none => simp only [exec, (contains_iff _ _).2 hs, Bool.and_true, if_true, e]
    | some t' => simp only [exec, (contains_iff _ _).2 hs, (contains_iff _ _).2 (ht t' rfl), Bool.and_self, if_true, e]
  rw [hex]
  exact ⟨rfl, rfl, rfl⟩

theorem exec_all_eq (σ : Sess W) (h : SessOK σ) (cut : Option W) (ud : Bool) :
    (exec σ (.all cut ud)).2 = .table (allShortestDistances σ.net σ.order cut (if ud then σ.udict else Table.empty)) ∧
    (exec σ (.all cut ud)).1.udict =
      (if ud then allShortestDistances σ.net σ.order cut σ.udict else σ.udict) ∧
    (exec σ (.all cut ud)).1.prep = σ.prep := by
  have e := (allOn_eq σ.net h.wf σ.order h.nodes h.ends cut σ.flags (if ud then σ.udict else Table.empty) h.clean).1
  have hex : exec σ (.all cut ud) =
      ({ σ with flags := (allOn σ.net σ.order cut (σ.flags, if ud then σ.udict else Table.empty)).1,
                udict := if ud then allShortestDistances σ.net σ.order cut (if ud then σ.udict else Table.empty) else σ.udict },
       .table (allShortestDistances σ.net σ.order cut (if ud then σ.udict else Table.empty))) := by
    simp only [exec, e]
  rw [hex]
  cases ud <;> exact ⟨rfl, rfl, rfl⟩

theorem exec_prepare_eq (σ : Sess W) (h : SessOK σ) (cut : Option W) :
    (exec σ (.prepare cut)).1.prep = some (prepare σ.net σ.order cut σ.prep) ∧
    (exec σ (.prepare cut)).1.udict = σ.udict := by
  have e := (allOn_eq σ.net h.wf σ.order h.nodes h.ends cut σ.flags (σ.prep.getD Table.empty) h.clean).1
  have hex : exec σ (.prepare cut) =
      ({ σ with flags := (allOn σ.net σ.order cut (σ.flags, σ.prep.getD Table.empty)).1,
                prep := some (allShortestDistances σ.net σ.order cut (σ.prep.getD Table.empty)) }, .unit) := by
    simp only [exec, e]
  rw [hex]
  exact ⟨rfl, rfl⟩

theorem exec_sub_eq (σ : Sess W) (h : SessOK σ) (s : Nat) (hs : s ∈ σ.order) (cut : Option W) :
    (∃ nodes, (exec σ (.sub s cut)).2 =
      .subnet nodes ((subEdges σ.net (runForward σ.net s none cut).1).map (·.id))) ∧
    (exec σ (.sub s cut)).1.udict = σ.udict ∧ (exec σ (.sub s cut)).1.prep = σ.prep := by
  have e := (routeOn_eq σ.net h.wf σ.order h.nodes h.ends σ.flags h.clean s hs none cut).1
  have hex : exec σ (.sub s cut) =
      ({ σ with flags := (runForward σ.net s none cut).1 },
       .subnet ((subEdges σ.net (runForward σ.net s none cut).1).foldl (fun o e => addNodeTo (addNodeTo o e.src) e.tgt) [])
         ((subEdges σ.net (runForward σ.net s none cut).1).map (·.id))) := by
    simp only [exec, (contains_iff _ _).2 hs, if_true, e]
  rw [hex]
  exact ⟨⟨_, rfl⟩, rfl, rfl⟩

/-- a call that answers `err` leaves the object as it was -/
theorem exec_err (σ : Sess W) (op : Op W) (h : (exec σ op).2 = .err) : (exec σ op).1 = σ := by
  cases op with
  | addNode v => simp only [exec] at h ⊢; split <;> simp_all
  | addEdge e => simp only [exec] at h ⊢; split <;> simp_all
  | route s t cut ud =>
    cases t with
    | none => simp only [exec] at h ⊢; split <;> simp_all
    | some t' => simp only [exec] at h ⊢; split <;> simp_all
  | dist s t cut ud => simp only [exec] at h ⊢; split <;> simp_all
  | distList s cut ud => simp only [exec] at h ⊢; split <;> simp_all
  | all cut ud => simp [exec] at h
  | prepare cut => simp [exec] at h
  | prepared s t => simp only [exec] at h ⊢; split <;> simp_all
  | hasPrepared s t => simp only [exec] at h ⊢; split <;> simp_all
  | sub s cut => simp only [exec] at h ⊢; split <;> simp_all
  | saveLoad => simp only [exec] at h ⊢; split <;> simp_all

/-- the calls other than `addEdge` (which changes the distances) keep both dictionaries sound -/
theorem exec_tables_sound (σ : Sess W) (h : SessOK σ) (op : Op W) (hnet : (exec σ op).1.net = σ.net)
    (hu : TableSound σ.net σ.udict) (hp : ∀ tb, σ.prep = some tb → TableSound σ.net tb) :
    TableSound σ.net (exec σ op).1.udict ∧ ∀ tb, (exec σ op).1.prep = some tb → TableSound σ.net tb := by
  have hrec : ∀ s tgt cut (ud : Bool), s ∈ σ.order →
      TableSound σ.net (if ud then record σ.udict s (runForward σ.net s tgt cut).2 else σ.udict) := by
    intro s tgt cut ud hs
    cases ud
    · exact hu
    · exact record_sound σ.net h.wf s (h.nodes s hs) tgt cut σ.udict hu
  by_cases herr : (exec σ op).2 = .err
  · rw [exec_err σ op herr]; exact ⟨hu, hp⟩
  cases op with
  | addNode v =>
    simp only [exec]
    split <;> exact ⟨hu, hp⟩
  | addEdge e =>
    simp only [exec] at hnet ⊢
    split
    · rename_i hc
      simp only [hc, if_true] at hnet
      have := congrArg (fun n => n.edges.length) hnet
      simp at this
    · exact ⟨hu, hp⟩
  | route s t cut ud =>
    have hc : s ∈ σ.order ∧ ∀ t', t = some t' → t' ∈ σ.order := by
      cases t with
      | none =>
        simp only [exec, Bool.and_true] at herr
        split at herr
        · rename_i hc; exact ⟨(contains_iff _ _).1 hc, fun _ h => by cases h⟩
        · exact absurd rfl herr
      | some t' =>
        simp only [exec] at herr
        split at herr
        · rename_i hc
          simp only [Bool.and_eq_true, contains_iff] at hc
          exact ⟨hc.1, fun _ h => by cases h; exact hc.2⟩
        · exact absurd rfl herr
    obtain ⟨_, e2, e3⟩ := exec_route_eq σ h s hc.1 t hc.2 cut ud
    rw [e2, e3]; exact ⟨hrec s t cut ud hc.1, hp⟩
  | dist s t cut ud =>
    have hc : s ∈ σ.order ∧ t ∈ σ.order := by
      simp only [exec] at herr
      split at herr
      · rename_i hc; simpa [Bool.and_eq_true, contains_iff] using hc
      · exact absurd rfl herr
    obtain ⟨_, e2, e3⟩ := exec_dist_eq σ h s t hc.1 hc.2 cut ud
    rw [e2, e3]; exact ⟨hrec s (some t) cut ud hc.1, hp⟩
  | distList s cut ud =>
    have hc : s ∈ σ.order := by
      simp only [exec] at herr
      split at herr
      · rename_i hc; exact (contains_iff _ _).1 hc
      · exact absurd rfl herr
    obtain ⟨_, e2, e3⟩ := exec_distList_eq σ h s hc cut ud
    rw [e2, e3]; exact ⟨hrec s none cut ud hc, hp⟩
  | all cut ud =>
    obtain ⟨_, e2, e3⟩ := exec_all_eq σ h cut ud
    rw [e2, e3]
    refine ⟨?_, hp⟩
    cases ud
    · exact hu
    · exact allShortestDistances_sound σ.net h.wf σ.order h.nodes cut σ.udict hu
  | prepare cut =>
    obtain ⟨e1, e2⟩ := exec_prepare_eq σ h cut
    rw [e1, e2]
    refine ⟨hu, ?_⟩
    intro tb htb
    cases htb
    unfold prepare
    apply allShortestDistances_sound σ.net h.wf σ.order h.nodes cut
    cases hpr : σ.prep with
    | none => exact tableSound_empty _
    | some tb0 => exact hp tb0 hpr
  | prepared s t =>
    simp only [exec]
    split <;> exact ⟨hu, hp⟩
  | hasPrepared s t =>
    simp only [exec]
    split <;> exact ⟨hu, hp⟩
  | sub s cut =>
    have hc : s ∈ σ.order := by
      simp only [exec] at herr
      split at herr
      · rename_i hc; exact (contains_iff _ _).1 hc
      · exact absurd rfl herr
    obtain ⟨_, e2, e3⟩ := exec_sub_eq σ h s hc cut
    rw [e2, e3]; exact ⟨hu, hp⟩
  | saveLoad =>
    simp only [exec]
    split <;> exact ⟨hu, hp⟩
end TV.Graph
