import TracklibVerif.Model.TextIOSession
import TracklibVerif.Lemmas.TextIOFile
/-! Sessions: the class-level state of `ObsTime` (`Model/TextIOSession.lean`). The memo table always belongs to the read
format (`Inv`); no library call leaves the state changed; a write / read pair round-trips in every reachable state in
which the two formats are equal (core only). -/
namespace TV.TextIO
open TV.ObsTime

/-- the memo table is the one of the read format -/
def Inv (st : TState) : Prop := st.pre = precompile (tokenize st.readFmt)

/-- the literal list of the class body IS the precompiled default format -/
theorem inv_init : Inv TState.init := by unfold Inv; decide +kernel

theorem inv_setRead (st : TState) (f : Str) : Inv (setReadFormat st f) := rfl
theorem inv_setPrint (st : TState) (f : Str) (h : Inv st) : Inv (setPrintFormat st f) := h

theorem readTimestampS_eq (st : TState) (h : Inv st) (s : Str) :
    readTimestampS st s = readTimestamp (tokenize st.readFmt) s := by
  unfold readTimestampS readTimestamp
  rw [h]

theorem setRead_self (st : TState) (h : Inv st) : setReadFormat st st.readFmt = st := by
  obtain ⟨r, p, pre⟩ := st
  unfold Inv at h
  simp only at h
  simp [setReadFormat, h]

theorem setPrint_back (st : TState) (f : Str) : setPrintFormat (setPrintFormat st f) st.printFmt = st := by
  obtain ⟨r, p, pre⟩ := st
  rfl

/-! ### the reader through the state is the reader with the format -/

theorem readRowG_eq (rf : List Tok) (f : CsvFmt) (line : Str) : readRowG (readTimestamp rf) f line = readRow f rf line := rfl

theorem readLinesG_eq (rf : List Tok) (f : CsvFmt) (cmt : Char) (ls : List Str) :
    readLinesG (readTimestamp rf) f cmt ls = readLines f rf cmt ls := by
  induction ls with
  | nil => rfl
  | cons l r ih =>
    unfold readLinesG readLines
    cases strip l with
    | nil => rfl
    | cons c cs =>
      simp only
      rw [ih, readRowG_eq]

theorem readCsvG_eq (rf : List Tok) (f : CsvFmt) (header : Nat) (text : Str) :
    readCsvG (readTimestamp rf) f header text = readCsv f rf header text := by
  unfold readCsvG readCsv
  simp only [readLinesG_eq]

theorem readCsvG_state (st : TState) (h : Inv st) (f : CsvFmt) (header : Nat) (text : Str) :
    readCsvG (readTimestampS st) f header text = readCsv f (tokenize st.readFmt) header text := by
  have : readTimestampS st = readTimestamp (tokenize st.readFmt) := funext (readTimestampS_eq st h)
  rw [this, readCsvG_eq]

/-! ### what a session does to the state -/

/-- the operations by which the USER changes the formats -/
def isUser : SOp → Bool
  | .setRead _ => true
  | .setPrint _ => true
  | _ => false

theorem inv_step (st : TState) (last : Str) (op : SOp) (h : Inv st) : Inv (step st last op).1 := by
  cases op with
  | setRead f => exact inv_setRead st f
  | setPrint f => exact h
  | print t => exact h
  | read s => exact h
  | readLast => exact h
  | tz t => exact h
  | gpxw name rows => exact h
  | csv f geo hh hr srid rows =>
    simp only [step]
    split
    · exact h
    · split
      · exact inv_setRead _ _
      · exact inv_setRead _ _

/-- **no library call leaves the class-level state changed**: `str`, `readTimestamp`, `timeWithZone`, `writeToGpx`,
`writeToFile` + `readFromCsv` (also when the reader raises: the format it had set is the one that was in force) return with
the read format, the print format and the memo table they found -/
theorem library_call_leaves_no_state (st : TState) (last : Str) (op : SOp) (h : Inv st) (hop : isUser op = false) :
    (step st last op).1 = st := by
  cases op with
  | setRead f => simp [isUser] at hop
  | setPrint f => simp [isUser] at hop
  | print t => rfl
  | read s => rfl
  | readLast => rfl
  | tz t => exact setPrint_back st _
  | gpxw name rows => exact setPrint_back st _
  | csv f geo hh hr srid rows =>
    simp only [step]
    split
    · rfl
    · split
      · exact setRead_self st h
      · simp only [setRead_self st h]

theorem inv_run (st : TState) (last : Str) (ops : List SOp) (h : Inv st) : Inv (run st last ops) := by
  induction ops generalizing st last with
  | nil => exact h
  | cons op r ih => exact ih _ _ (inv_step st last op h)

theorem run_library_calls (st : TState) (last : Str) (ops : List SOp) (h : Inv st) (hops : ∀ op ∈ ops, isUser op = false) :
    run st last ops = st := by
  induction ops generalizing last with
  | nil => rfl
  | cons op r ih =>
    simp only [run]
    rw [library_call_leaves_no_state st last op h (hops op (by simp))]
    exact ih _ (fun o ho => hops o (by simp [ho]))

/-- every state a session reaches from the class body, whatever the history of format changes and library calls -/
def Reachable (st : TState) : Prop := ∃ hist last, st = run TState.init last hist

theorem reachable_inv (st : TState) (h : Reachable st) : Inv st := by
  obtain ⟨hist, last, rfl⟩ := h
  exact inv_run _ _ _ inv_init

/-! ### round trips in a reachable state -/

/-- `str(t)` then `readTimestamp` of that text, with any library calls in between -/
theorem session_time_roundtrip (st : TState) (hst : Reachable st) (heq : st.readFmt = st.printFmt)
    (hl : Lossless (tokenize st.readFmt)) (t : Stamp) (ht : Fits t)
    (mid : List SOp) (hmid : ∀ op ∈ mid, isUser op = false) (last : Str) :
    (step st last (.print t)).2 = .text (printTime (tokenize st.readFmt) t) ∧
    (step (run st (printTime (tokenize st.readFmt) t) mid) last (.read (printTime (tokenize st.readFmt) t))).2
      = .stamp (some (project (tokenize st.readFmt) t)) := by
  have hinv := reachable_inv st hst
  refine ⟨by simp [step, strS, heq], ?_⟩
  rw [run_library_calls st _ mid hinv hmid]
  simp only [step]
  rw [readTimestampS_eq st hinv, readTimestamp_printTime _ hl t ht, applyCodes_epoch _ t hl.1]

/-- the same as two consecutive operations of `runOuts`: `print`, `readLast` -/
theorem session_pair_roundtrip (st : TState) (hst : Reachable st) (heq : st.readFmt = st.printFmt)
    (hl : Lossless (tokenize st.readFmt)) (t : Stamp) (ht : Fits t) (last : Str) :
    runOuts st last [.print t, .readLast]
      = [(.text (printTime (tokenize st.readFmt) t), st), (.stamp (some (project (tokenize st.readFmt) t)), st)] := by
  have hinv := reachable_inv st hst
  simp only [runOuts, step, lastOf, strS, heq]
  rw [readTimestampS_eq st hinv, heq, readTimestamp_printTime _ (heq ▸ hl) t ht, applyCodes_epoch _ t (heq ▸ hl).1]

/-- `writeToFile` then `readFromCsv` as ONE operation of a session: in every reachable state whose two formats are equal,
under the hypotheses of `csv_file_roundtrip` for that format, every observation comes back and the state is left as found -/
theorem session_csv_roundtrip (st : TState) (hst : Reachable st) (heq : st.readFmt = st.printFmt)
    (f : CsvFmt) (geo : Bool) (h hr : Nat) (srid : Str) (rows : List Row)
    (hv : ValidIds f) (hsep : numChar f.sep = false) (hnl : f.sep ≠ '\n')
    (htime : f.idT ≠ -1 → TimeOK (tokenize st.printFmt) f.sep)
    (hrows : ∀ r ∈ rows, RowOK f geo (tokenize st.printFmt) r) (hsrid : '\n' ∉ srid)
    (hhr : hr ≤ (if h = 0 then 0 else 3)) (last : Str) :
    ∃ text, step st last (.csv f geo h hr srid rows)
      = (st, .csv (.ok text) (.ok (rows.map (expRow f geo (tokenize st.printFmt))))) := by
  have hinv := reachable_inv st hst
  obtain ⟨text, hw, hr'⟩ := csv_file_roundtrip f geo (tokenize st.printFmt) h 0 (rows.map (fun r => (r, []))) srid [] hv hsep hnl htime
    (by intro ra hra; obtain ⟨r, hr', rfl⟩ := List.mem_map.1 hra; exact hrows r hr')
    (by intro ra hra v hv'; obtain ⟨r, _, rfl⟩ := List.mem_map.1 hra; simp at hv')
    ⟨hsrid, by simp⟩
  refine ⟨text, ?_⟩
  simp only [step, hw, setRead_self st hinv]
  rw [readCsvG_state st hinv, heq, hr' hr hhr, List.map_map]
  rfl

end TV.TextIO
