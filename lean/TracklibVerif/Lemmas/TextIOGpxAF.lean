import TracklibVerif.Lemmas.TextIOGpx
/-! GPX written with `af=True` (core only): the `<extensions>` block of every point is stepped over by the `trk` scanner. -/
namespace TV.TextIO
open TV.ObsTime

/-- an extension line `<name>value</name>` the scanner does not react to (none of the six texts it looks for occurs in it)
and that is one line -/
def ExtOK (n : Str) (v : AFVal) : Prop := Tags (lAf n v) false false false false false false ∧ '\n' ∉ lAf n v

theorem tags_lExt : Tags lExt false false false false false false := by constructor <;> decide
theorem tags_lEndExt : Tags lEndExt false false false false false false := by constructor <;> decide

theorem fold_notags (rf : List Tok) (geo : Bool) (ls : List Str)
    (h : ∀ l ∈ ls, Tags l false false false false false false) (st : GState) :
    ls.foldlM (gpxLine rf geo) st = .ok st := by
  induction ls with
  | nil => rfl
  | cons a r ih =>
    rw [List.foldlM_cons, gpxLine_notags rf geo st a (h a (by simp))]
    exact ih (fun l hl => h l (by simp [hl]))

theorem extLines_tags (afs : List (Str × AFVal)) (h : ∀ a ∈ afs, ExtOK a.1 a.2) :
    ∀ l ∈ extLines afs, Tags l false false false false false false ∧ '\n' ∉ l := by
  intro l hl
  unfold extLines at hl
  simp only [List.mem_append, List.mem_cons, List.mem_map, List.not_mem_nil, or_false] at hl
  rcases hl with (rfl | ⟨a, ha, rfl⟩) | rfl
  · exact ⟨tags_lExt, by decide⟩
  · exact h a ha
  · exact ⟨tags_lEndExt, by decide⟩

theorem fold_ptAF (rf : List Tok) (hrf : ReadsIso rf) (geo : Bool) (pos : Option (Dec × Dec × Dec)) (tps : Option Stamp)
    (ts : List (List RRow)) (cur : List RRow) (r : GRow) (ht : Fits r.t) (afs : List (Str × AFVal))
    (hafs : ∀ a ∈ afs, ExtOK a.1 a.2) :
    ∃ pos' tps', (ptLinesAF r afs).foldlM (gpxLine rf geo) ⟨true, false, pos, tps, ts ++ [cur]⟩
      = .ok ⟨true, false, pos', tps', ts ++ [cur ++ [expG rf geo r]]⟩ := by
  refine ⟨some ((r.x.toInt, 8), (r.y.toInt, 8), if geo then (r.z.toInt, 8) else (0, 0)), some (project rf r.t), ?_⟩
  unfold ptLinesAF
  simp only [List.cons_append, List.nil_append, List.foldlM_cons, gpxLine_pt, bind, Except.bind]
  rw [gpxLine_ele]
  simp only [gpxLine_time rf hrf geo _ _ _ r ht]
  rw [List.foldlM_append, fold_notags rf geo _ (fun l hl => (extLines_tags afs hafs l hl).1)]
  simp only [bind, Except.bind, List.foldlM_cons, List.foldlM_nil]
  rw [gpxLine_endPt]
  rfl

theorem fold_ptsAF (rf : List Tok) (hrf : ReadsIso rf) (geo : Bool) (rows : List (GRow × List (Str × AFVal)))
    (hrows : ∀ ra ∈ rows, Fits ra.1.t ∧ ∀ a ∈ ra.2, ExtOK a.1 a.2)
    (pos : Option (Dec × Dec × Dec)) (tps : Option Stamp) (ts : List (List RRow)) (cur : List RRow) :
    ∃ pos' tps', ((rows.map (fun ra => ptLinesAF ra.1 ra.2)).flatten).foldlM (gpxLine rf geo) ⟨true, false, pos, tps, ts ++ [cur]⟩
      = .ok ⟨true, false, pos', tps', ts ++ [cur ++ rows.map (fun ra => expG rf geo ra.1)]⟩ := by
  induction rows generalizing pos tps cur with
  | nil => exact ⟨pos, tps, by simp [pure, Except.pure]⟩
  | cons r rs ih =>
    have hr := hrows r (by simp)
    obtain ⟨p1, t1, h1⟩ := fold_ptAF rf hrf geo pos tps ts cur r.1 hr.1 r.2 hr.2
    obtain ⟨p2, t2, h2⟩ := ih (fun x hx => hrows x (by simp [hx])) p1 t1 (cur ++ [expG rf geo r.1])
    refine ⟨p2, t2, ?_⟩
    simp only [List.map_cons, List.flatten_cons, List.foldlM_append, h1, bind, Except.bind]
    rw [h2]
    simp

theorem gpxLinesAF_nl (name : Str) (hname : '\n' ∉ name) (rows : List (GRow × List (Str × AFVal)))
    (hrows : ∀ ra ∈ rows, ∀ a ∈ ra.2, ExtOK a.1 a.2) : ∀ l ∈ gpxLinesAF name rows, '\n' ∉ l := by
  intro l hl
  unfold gpxLinesAF at hl
  simp only [List.mem_append, List.mem_cons, List.mem_flatten, List.mem_map, List.not_mem_nil, or_false] at hl
  -- every line is a line of the plain body of some row, or an extension line
  have plain : ∀ r : GRow, ∀ l ∈ gpxLines name [r], '\n' ∉ l := fun r => gpxLines_nl name hname [r]
  rcases hl with ((rfl | rfl | rfl) | ⟨ls, ⟨ra, hra, rfl⟩, hl⟩) | (rfl | rfl | rfl)
  · decide
  · exact plain ⟨⟨false, 0⟩, ⟨false, 0⟩, ⟨false, 0⟩, epoch⟩ _ (by simp [gpxLines])
  · decide
  · unfold ptLinesAF at hl
    simp only [List.cons_append, List.nil_append, List.mem_cons, List.mem_append, List.not_mem_nil, or_false] at hl
    rcases hl with rfl | rfl | rfl | hl | rfl
    · exact plain ra.1 _ (by simp [gpxLines, ptLines])
    · exact plain ra.1 _ (by simp [gpxLines, ptLines])
    · exact plain ra.1 _ (by simp [gpxLines, ptLines])
    · exact (extLines_tags ra.2 (hrows ra hra) l hl).2
    · decide
  · decide
  · decide
  · decide

/-- **GPX file with extensions**: the body `writeToGpx(track, path, af=True)` writes, read by the `trk` scanner with a read
format that reads ISO stamps, gives one track with the points written, in order: the `<extensions>` blocks are stepped over -/
theorem gpx_af_file_roundtrip (rf : List Tok) (hrf : ReadsIso rf) (geo : Bool) (name : Str)
    (hname : '<' ∉ name ∧ '\n' ∉ name) (rows : List (GRow × List (Str × AFVal)))
    (hrows : ∀ ra ∈ rows, Fits ra.1.t ∧ ∀ a ∈ ra.2, ExtOK a.1 a.2) :
    readGpx rf geo (gpxBodyAF name rows) = .ok [rows.map (fun ra => expG rf geo ra.1)] := by
  unfold readGpx gpxBodyAF
  rw [fileLines_flatten _ (gpxLinesAF_nl name hname.2 rows (fun ra hra => (hrows ra hra).2))]
  unfold gpxLinesAF
  obtain ⟨p, t, hp⟩ := fold_ptsAF rf hrf geo rows hrows none none [] []
  simp only [List.nil_append] at hp
  simp only [List.foldlM_append, List.foldlM_cons, List.foldlM_nil, gpxLine_trk, gpxLine_notags _ _ _ _ (tags_lName name hname.1),
    gpxLine_notags _ _ _ _ tags_lSeg, bind, Except.bind, pure, Except.pure, List.nil_append]
  rw [hp]
  simp only [gpxLine_notags _ _ _ _ tags_lEndSeg, gpxLine_endTrk, gpxLine_notags _ _ _ _ tags_lEndGpx, List.nil_append]

end TV.TextIO
