import TracklibVerif.Lemmas.TextIOGpx
/-! GPX written with `af=True` (core only): the `<extensions>` block of every point is stepped over by the `trk` scanner. -/
namespace TV.TextIO
open TV.ObsTime

/-- an extension line `<name>value</name>` that is one line and does not close the `<extensions>` block it stands in -/
def ExtOK (n : Str) (v : AFVal) : Prop := isInfix "</extensions>".toList (lAf n v) = false ∧ '\n' ∉ lAf n v

theorem gpxLine_openExt (rf : List Tok) (geo : Bool) (st : GState) :
    gpxLine rf geo st lExt = .ok { st with inExt := true } := by
  have h1 : isInfix "<extensions>".toList lExt = true := by decide
  have h2 : isInfix "</extensions>".toList lExt = false := by decide
  unfold gpxLine
  simp only [h1, h2, ↓reduceIte, Bool.false_eq_true, pure, Except.pure, bind, Except.bind]

theorem gpxLine_inExt (rf : List Tok) (geo : Bool) (st : GState) (hs : st.inExt = true) (line : Str)
    (h : isInfix "</extensions>".toList line = false) : gpxLine rf geo st line = .ok st := by
  unfold gpxLine
  by_cases ho : isInfix "<extensions>".toList line = true
  · have : ({ st with inExt := true } : GState) = st := by cases st; simp_all
    simp only [ho, h, this, hs, ↓reduceIte, Bool.false_eq_true, pure, Except.pure, bind, Except.bind]
  · simp only [ho, h, hs, ↓reduceIte, Bool.false_eq_true, pure, Except.pure, bind, Except.bind]

theorem gpxLine_closeExt (rf : List Tok) (geo : Bool) (st : GState) (hs : st.inExt = true) :
    gpxLine rf geo st lEndExt = .ok { st with inExt := false } := by
  have h1 : isInfix "<extensions>".toList lEndExt = false := by decide
  have h2 : isInfix "</extensions>".toList lEndExt = true := by decide
  unfold gpxLine
  simp only [h1, h2, hs, ↓reduceIte, Bool.false_eq_true, pure, Except.pure, bind, Except.bind]

theorem fold_inExt (rf : List Tok) (geo : Bool) (ls : List Str)
    (h : ∀ l ∈ ls, isInfix "</extensions>".toList l = false) (st : GState) (hs : st.inExt = true) :
    ls.foldlM (gpxLine rf geo) st = .ok st := by
  induction ls with
  | nil => rfl
  | cons a r ih =>
    rw [List.foldlM_cons, gpxLine_inExt rf geo st hs a (h a (by simp))]
    exact ih (fun l hl => h l (by simp [hl]))

/-- the whole `<extensions>` block of a point leaves the scanner state as it found it -/
theorem fold_extLines (rf : List Tok) (geo : Bool) (afs : List (Str × AFVal)) (hafs : ∀ a ∈ afs, ExtOK a.1 a.2)
    (st : GState) (hs : st.inExt = false) : (extLines afs).foldlM (gpxLine rf geo) st = .ok st := by
  have hopen := gpxLine_openExt rf geo st
  have hin := fold_inExt rf geo (afs.map (fun a => lAf a.1 a.2)) (by
    intro l hl
    obtain ⟨a, ha, rfl⟩ := List.mem_map.1 hl
    exact (hafs a ha).1) { st with inExt := true } rfl
  have hclose := gpxLine_closeExt rf geo { st with inExt := true } rfl
  have hst : ({ ({ st with inExt := true } : GState) with inExt := false } : GState) = st := by
    cases st
    simp_all
  unfold extLines
  rw [List.foldlM_append, List.foldlM_append]
  simp only [List.foldlM_cons, List.foldlM_nil, hopen, hin, hclose, hst, bind, Except.bind, pure, Except.pure]

theorem extLines_nl (afs : List (Str × AFVal)) (h : ∀ a ∈ afs, ExtOK a.1 a.2) : ∀ l ∈ extLines afs, '\n' ∉ l := by
  intro l hl
  unfold extLines at hl
  simp only [List.mem_append, List.mem_cons, List.mem_map, List.not_mem_nil, or_false] at hl
  rcases hl with (rfl | ⟨a, ha, rfl⟩) | rfl
  · decide
  · exact (h a ha).2
  · decide

/-! ### a sufficient condition on names and values -/

theorem isPrefix_snoc_eq (c : Char) (p n : Str) (hp : c ∉ p) (hn : c ∉ n) (h : isPrefix (p ++ [c]) (n ++ [c]) = true) : n = p := by
  induction p generalizing n with
  | nil =>
    cases n with
    | nil => rfl
    | cons x xs =>
      simp only [List.nil_append, List.cons_append, isPrefix, Bool.and_eq_true, decide_eq_true_eq] at h
      exact absurd (by rw [h.1]; simp) hn
  | cons a p' ih =>
    cases n with
    | nil =>
      simp only [List.cons_append, List.nil_append, isPrefix, Bool.and_eq_true, decide_eq_true_eq] at h
      exact absurd (by rw [← h.1]; simp) hp
    | cons x xs =>
      simp only [List.cons_append, isPrefix, Bool.and_eq_true, decide_eq_true_eq] at h
      rw [h.1, ih xs (fun hm => hp (by simp [hm])) (fun hm => hn (by simp [hm])) h.2]

/-- ordinary feature names and values: a name without `<`, `>`, newline, not starting with `/` and other than `extensions`
itself; a value text without `<` and newline. In particular the names `time`, `ele`, `trk`, `trkpt` are fine. -/
theorem extOK_of (n : Str) (v : AFVal) (h1 : '<' ∉ n) (h2 : '>' ∉ n) (h3 : '\n' ∉ n) (h4 : '<' ∉ afText v) (h5 : '\n' ∉ afText v)
    (h6 : n.head? ≠ some '/') (h7 : n ≠ "extensions".toList) : ExtOK n v := by
  have hd : lAf n v = List.replicate 20 ' ' ++ '<' :: ((n ++ '>' :: afText v) ++ '<' :: ('/' :: (n ++ ['>']))) := by
    unfold lAf
    simp
  refine ⟨?_, ?_⟩
  · have hA : '<' ∉ List.replicate 20 ' ' := by decide
    have hB : '<' ∉ n ++ '>' :: afText v := by
      intro hm
      rcases List.mem_append.1 hm with hm | hm
      · exact h1 hm
      · rcases List.mem_cons.1 hm with e | hm
        · exact absurd e (by decide)
        · exact h4 hm
    have hC : '<' ∉ '/' :: (n ++ ['>']) := by
      intro hm
      rcases List.mem_cons.1 hm with e | hm
      · exact absurd e (by decide)
      · rcases List.mem_append.1 hm with hm | hm
        · exact h1 hm
        · simp at hm
    rw [hd, pat_eext, isInfix_two _ _ _ _ hA hB hC]
    have f1 : isPrefix ['/', 'e', 'x', 't', 'e', 'n', 's', 'i', 'o', 'n', 's', '>'] ((n ++ '>' :: afText v) ++ '<' :: ('/' :: (n ++ ['>']))) = false := by
      cases n with
      | nil => simp [isPrefix]
      | cons c cs =>
        have : c ≠ '/' := by
          intro e; subst e; exact h6 rfl
        simp [isPrefix, Ne.symm this]
    have f2 : isPrefix ['/', 'e', 'x', 't', 'e', 'n', 's', 'i', 'o', 'n', 's', '>'] ('/' :: (n ++ ['>'])) = false := by
      cases hb : isPrefix ['/', 'e', 'x', 't', 'e', 'n', 's', 'i', 'o', 'n', 's', '>'] ('/' :: (n ++ ['>'])) with
      | false => rfl
      | true =>
        have hb' : isPrefix ("extensions".toList ++ ['>']) (n ++ ['>']) = true := by
          simpa [isPrefix] using hb
        exact absurd (isPrefix_snoc_eq '>' _ n (by decide) h2 hb') h7
    rw [f1, f2]
    rfl
  · rw [hd]
    intro hm
    simp only [List.mem_append, List.mem_cons, List.mem_replicate] at hm
    rcases hm with hm | hm | (hm | hm | hm) | hm | hm | hm | hm
    · exact absurd hm.2 (by decide)
    · exact absurd hm (by decide)
    · exact h3 hm
    · exact absurd hm (by decide)
    · exact h5 hm
    · exact absurd hm (by decide)
    · exact absurd hm (by decide)
    · exact h3 hm
    · simp at hm

theorem fold_ptAF (rf : List Tok) (hrf : ReadsIso rf) (geo : Bool) (pos : Option (Dec × Dec × Dec)) (tps : Option Stamp)
    (ts : List (List RRow)) (cur : List RRow) (r : GRow) (ht : Fits r.t) (afs : List (Str × AFVal))
    (hafs : ∀ a ∈ afs, ExtOK a.1 a.2) :
    ∃ pos' tps', (ptLinesAF r afs).foldlM (gpxLine rf geo) ⟨true, false, pos, tps, ts ++ [cur], false⟩
      = .ok ⟨true, false, pos', tps', ts ++ [cur ++ [expG rf geo r]], false⟩ := by
  refine ⟨some ((r.x.toInt, 8), (r.y.toInt, 8), if geo then (r.z.toInt, 8) else (0, 0)), some (project rf r.t), ?_⟩
  unfold ptLinesAF
  simp only [List.cons_append, List.nil_append, List.foldlM_cons, gpxLine_pt, bind, Except.bind]
  rw [gpxLine_ele]
  simp only [gpxLine_time rf hrf geo _ _ _ r ht]
  rw [List.foldlM_append, fold_extLines rf geo afs hafs _ rfl]
  simp only [bind, Except.bind, List.foldlM_cons, List.foldlM_nil]
  rw [gpxLine_endPt]
  rfl

theorem fold_ptsAF (rf : List Tok) (hrf : ReadsIso rf) (geo : Bool) (rows : List (GRow × List (Str × AFVal)))
    (hrows : ∀ ra ∈ rows, Fits ra.1.t ∧ ∀ a ∈ ra.2, ExtOK a.1 a.2)
    (pos : Option (Dec × Dec × Dec)) (tps : Option Stamp) (ts : List (List RRow)) (cur : List RRow) :
    ∃ pos' tps', ((rows.map (fun ra => ptLinesAF ra.1 ra.2)).flatten).foldlM (gpxLine rf geo) ⟨true, false, pos, tps, ts ++ [cur], false⟩
      = .ok ⟨true, false, pos', tps', ts ++ [cur ++ rows.map (fun ra => expG rf geo ra.1)], false⟩ := by
  induction rows generalizing pos tps cur with
  | nil => exact ⟨pos, tps, by simp [pure, Except.pure]⟩
  | cons r rs ih =>
    have hr := hrows r (by simp)
    obtain ⟨p1, t1, h1⟩ := fold_ptAF rf hrf geo pos tps ts cur r.1 hr.1 r.2 hr.2
    obtain ⟨p2, t2, h2⟩ := ih (fun x hx => hrows x (by simp [hx])) p1 t1 (cur ++ [expG rf geo r.1])
    refine ⟨p2, t2, ?_⟩
    simp only [List.map_cons, List.flatten_cons, List.foldlM_append, h1, bind, Except.bind]
    rw [h2]
    simp

theorem gpxLinesAF_nl (name : Str) (hname : '\n' ∉ name) (rows : List (GRow × List (Str × AFVal)))
    (hrows : ∀ ra ∈ rows, ∀ a ∈ ra.2, ExtOK a.1 a.2) : ∀ l ∈ gpxLinesAF name rows, '\n' ∉ l := by
  intro l hl
  unfold gpxLinesAF at hl
  simp only [List.mem_append, List.mem_cons, List.mem_flatten, List.mem_map, List.not_mem_nil, or_false] at hl
  -- every line is a line of the plain body of some row, or an extension line
  have plain : ∀ r : GRow, ∀ l ∈ gpxLines name [r], '\n' ∉ l := fun r => gpxLines_nl name hname [r]
  rcases hl with ((rfl | rfl | rfl) | ⟨ls, ⟨ra, hra, rfl⟩, hl⟩) | (rfl | rfl | rfl)
  · decide
  · exact plain ⟨⟨false, 0⟩, ⟨false, 0⟩, ⟨false, 0⟩, epoch⟩ _ (by simp [gpxLines])
  · decide
  · unfold ptLinesAF at hl
    simp only [List.cons_append, List.nil_append, List.mem_cons, List.mem_append, List.not_mem_nil, or_false] at hl
    rcases hl with rfl | rfl | rfl | hl | rfl
    · exact plain ra.1 _ (by simp [gpxLines, ptLines])
    · exact plain ra.1 _ (by simp [gpxLines, ptLines])
    · exact plain ra.1 _ (by simp [gpxLines, ptLines])
    · exact extLines_nl ra.2 (hrows ra hra) l hl
    · decide
  · decide
  · decide
  · decide

/-- **GPX file with extensions**: the body `writeToGpx(track, path, af=True)` writes, read by the `trk` scanner with a read
format that reads ISO stamps, gives one track with the points written, in order: the `<extensions>` blocks are stepped over -/
theorem gpx_af_file_roundtrip (rf : List Tok) (hrf : ReadsIso rf) (geo : Bool) (name : Str)
    (hname : '<' ∉ name ∧ '\n' ∉ name) (rows : List (GRow × List (Str × AFVal)))
    (hrows : ∀ ra ∈ rows, Fits ra.1.t ∧ ∀ a ∈ ra.2, ExtOK a.1 a.2) :
    readGpx rf geo (gpxBodyAF name rows) = .ok [rows.map (fun ra => expG rf geo ra.1)] := by
  unfold readGpx gpxBodyAF
  rw [fileLines_flatten _ (gpxLinesAF_nl name hname.2 rows (fun ra hra => (hrows ra hra).2))]
  unfold gpxLinesAF
  obtain ⟨p, t, hp⟩ := fold_ptsAF rf hrf geo rows hrows none none [] []
  simp only [List.nil_append] at hp
  have e0 : gpxLine rf geo {} lTrk = .ok ⟨true, false, none, none, [[]], false⟩ := gpxLine_trk rf geo {} rfl
  have e1 := gpxLine_notags rf geo ⟨true, false, none, none, [[]], false⟩ _ (tags_lName name hname.1) (noext_lName name hname.1) rfl
  have e2 := gpxLine_notags rf geo ⟨true, false, none, none, [[]], false⟩ _ tags_lSeg noext_lSeg rfl
  have e3 := gpxLine_notags rf geo ⟨true, false, p, t, [rows.map (fun ra => expG rf geo ra.1)], false⟩ _ tags_lEndSeg noext_lEndSeg rfl
  have e4 := gpxLine_endTrk rf geo ⟨true, false, p, t, [rows.map (fun ra => expG rf geo ra.1)], false⟩ rfl
  have e5 := gpxLine_notags rf geo ⟨false, false, p, t, [rows.map (fun ra => expG rf geo ra.1)], false⟩ _ tags_lEndGpx noext_lEndGpx rfl
  simp only [List.foldlM_append, List.foldlM_cons, List.foldlM_nil, e0, e1, e2, bind, Except.bind, pure, Except.pure]
  rw [hp]
  simp only [e3, e4, e5]

end TV.TextIO
