import TracklibVerif.Lemmas.SimplifyVwFirst
import TracklibVerif.Lemmas.SimplifyVwTie
/-! Visvalingam on **columns without NaN** and on **columns of NaN only** (the two ends of T14, for the whole run).

* `VInvP P` is the loop invariant of `Lemmas/Simplify.lean` (`VInv`) with an arbitrary predicate `P` on the interior entries instead of
  `· < big`. With `P v := v < big ∨ v == big` (every triangle area of the track is a number below ARGMIN's start value `+inf` **or equal
  to it**: since b728412 an infinite area is found) every pass finds a minimum (`allHit_of_inv`), ARGMIN answers an interior index, and
  the first observation is kept — for the code's own run and for every run with another choice among equal minima (`VReach.specP`).
* When **no** triangle area of the track is a number `<=` the start value nor `>` the squared tolerance (on doubles: every area is NaN)
  every pass takes ARGMIN's default index 0: the run removes the observations from the front and returns the **last two**
  (`vwLoop_all_nan`).
No property of the scalar type is used. -/
namespace TV.Simplify
set_option linter.unusedSectionVars false
variable {α : Type} [Add α] [Sub α] [Mul α] [Div α] [Neg α] [LT α] [DecidableLT α] [BEq α]
  [OfNat α 0] [OfNat α 1] [OfNat α 2]

/-- `VInv` with an arbitrary predicate on the interior entries of the `'@aire'` column -/
structure VInvP (P : α → Prop) (L : List (Fix α)) (S : VState α) : Prop where
  len : 2 ≤ S.length
  first : ∃ p, S[0]? = some (p, none)
  last : ∃ p, S[S.length - 1]? = some (p, none)
  mid : ∀ i, 0 < i → i + 1 < S.length → ∃ p v, S[i]? = some (p, some v) ∧ P v
  mem : ∀ e ∈ S, e.1 ∈ L

theorem VInvP.erase {P : α → Prop} {L : List (Fix α)} {S : VState α} (h : VInvP P L S) (id : Nat)
    (h0 : 0 < id) (h1 : id + 1 < S.length) : VInvP P L (S.eraseIdx id) := by
  have hlen : (S.eraseIdx id).length = S.length - 1 := List.length_eraseIdx_of_lt (by omega)
  refine ⟨by omega, ?_, ?_, ?_, ?_⟩
  · obtain ⟨p, hp⟩ := h.first
    exact ⟨p, by rw [List.getElem?_eraseIdx]; simp [h0, hp]⟩
  · obtain ⟨p, hp⟩ := h.last
    refine ⟨p, ?_⟩
    rw [List.getElem?_eraseIdx, hlen]
    have : ¬ (S.length - 1 - 1 < id) := by omega
    simp only [this, ↓reduceIte]
    have e : S.length - 1 - 1 + 1 = S.length - 1 := by omega
    rw [e]; exact hp
  · intro i hi0 hi1
    rw [hlen] at hi1
    rw [List.getElem?_eraseIdx]
    split
    · exact h.mid i hi0 (by omega)
    · exact h.mid (i + 1) (by omega) (by omega)
  · intro e he
    exact h.mem e (List.mem_of_mem_eraseIdx he)

theorem VInvP.setAire {P : α → Prop} {L : List (Fix α)} {S : VState α} (h : VInvP P L S)
    (hP : ∀ a b c, a ∈ L → b ∈ L → c ∈ L → P (areaFix a b c)) (i : Nat)
    (h0 : 0 < i) (h1 : i + 1 < S.length) : VInvP P L (setAire S i) := by
  have hmemL : ∀ q ∈ S.map (·.1), q ∈ L := by
    intro q hq
    obtain ⟨e, he, rfl⟩ := List.mem_map.mp hq
    exact h.mem e he
  obtain ⟨p0, p1, p2, m0, m1, m2, hat⟩ := setAire_at S i h0 h1
  refine ⟨by rw [setAire_length]; exact h.len, ?_, ?_, ?_, ?_⟩
  · obtain ⟨p, hp⟩ := h.first
    exact ⟨p, by rw [setAire_ne S i 0 (by omega)]; exact hp⟩
  · obtain ⟨p, hp⟩ := h.last
    exact ⟨p, by rw [setAire_length, setAire_ne S i _ (by omega)]; exact hp⟩
  · intro j hj0 hj1
    rw [setAire_length] at hj1
    by_cases hij : i = j
    · subst hij
      exact ⟨p1, _, hat, hP _ _ _ (hmemL _ m0) (hmemL _ m1) (hmemL _ m2)⟩
    · rw [setAire_ne S i j hij]; exact h.mid j hj0 hj1
  · intro e he
    have : e.1 ∈ (TV.Simplify.setAire S i).map (·.1) := List.mem_map.mpr ⟨e, he, rfl⟩
    rw [setAire_map_fst] at this
    exact hmemL _ this

/-- the loop body on an interior index keeps the invariant -/
theorem VInvP.body {P : α → Prop} {L : List (Fix α)} {S : VState α} (h : VInvP P L S)
    (hP : ∀ a b c, a ∈ L → b ∈ L → c ∈ L → P (areaFix a b c)) (id : Nat)
    (h0 : 0 < id) (h1 : id + 1 < S.length) : VInvP P L (bodyL S id) := by
  have hl1 : (S.eraseIdx id).length = S.length - 1 := List.length_eraseIdx_of_lt (by omega)
  have i1 : VInvP P L (S.eraseIdx id) := h.erase id h0 h1
  have i2 : VInvP P L (if id > 1 then TV.Simplify.setAire (S.eraseIdx id) (id - 1) else S.eraseIdx id) := by
    split
    · exact i1.setAire hP (id - 1) (by omega) (by omega)
    · exact i1
  have l2 : (if id > 1 then TV.Simplify.setAire (S.eraseIdx id) (id - 1) else S.eraseIdx id).length = S.length - 1 := by
    split
    · rw [setAire_length]; exact hl1
    · exact hl1
  unfold bodyL
  generalize (if id > 1 then TV.Simplify.setAire (S.eraseIdx id) (id - 1) else S.eraseIdx id) = S2 at i2 l2 ⊢
  split
  · exact i2.setAire hP id h0 (by omega)
  · exact i2

/-- an entry that is a number belongs to an interior observation -/
theorem VInvP.interior {P : α → Prop} {L : List (Fix α)} {S : VState α} (h : VInvP P L S) (j : Nat) (p : Fix α) (v : α)
    (hj : S[j]? = some (p, some v)) : 0 < j ∧ j + 1 < S.length := by
  have hjlt : j < S.length := (List.getElem?_eq_some_iff.mp hj).1
  constructor
  · cases j with
    | zero => obtain ⟨q, hq⟩ := h.first; rw [hq] at hj; simp at hj
    | succ j => omega
  · by_cases hc : j = S.length - 1
    · obtain ⟨q, hq⟩ := h.last; rw [← hc] at hq; rw [hq] at hj; simp at hj
    · omega

/-- with more than two observations and interior entries that are numbers `<=` the start value, ARGMIN finds a minimum -/
theorem VInvP.hit {P : α → Prop} {big : α} {L : List (Fix α)} {S : VState α} (h : VInvP P L S)
    (hPb : ∀ v, P v → v < big ∨ (v == big) = true) (hl : 2 < S.length) : Hit big S := by
  obtain ⟨p, v, e, hv⟩ := h.mid 1 (by omega) (by omega)
  exact ⟨1, v, by rw [List.getElem?_map, e]; rfl, hPb v hv⟩

/-- … and designates a number -/
theorem VInvP.argmin_num {P : α → Prop} {big : α} {L : List (Fix α)} {S : VState α} (h : VInvP P L S)
    (hPb : ∀ v, P v → v < big ∨ (v == big) = true) (hl : S.length > 2) :
    ∃ p v, S[argmin big (S.map (·.2))]? = some (p, some v) := by
  obtain ⟨j0, v0, a0, b0⟩ := h.hit hPb hl
  obtain ⟨j, v, eid, hj⟩ := argmin_hit big (S.map (·.2)) ⟨j0, v0, a0, b0⟩
  rw [eid]
  obtain ⟨p, hp⟩ := map_snd_num S j v hj
  exact ⟨p, v, hp⟩

/-- one pass of the code's own run: invariant kept, a minimum was found -/
theorem vwStep_P (big eps2 : α) (P : α → Prop) (L : List (Fix α))
    (hP : ∀ a b c, a ∈ L → b ∈ L → c ∈ L → P (areaFix a b c)) (hPb : ∀ v, P v → v < big ∨ (v == big) = true)
    (S S' : VState α) (h : VInvP P L S) (hs : vwStep big eps2 S = some S') : VInvP P L S' ∧ Hit big S := by
  obtain ⟨_, h2, _, _⟩ := vwStep_any big eps2 S S' h.last hs
  have hh := h.hit hPb h2
  have hpos := hit_argmin_pos big S h.first hh
  have h1 := argmin_not_last big S (by omega) h.last
  have h2' : S.length > 2 := h2
  rw [vwStep_eq, if_pos h2'] at hs
  have hs' := ite_none_some hs
  subst hs'
  exact ⟨h.body hP _ hpos h1, hh⟩

/-- every pass of the run finds a minimum -/
theorem allHit_of_inv (big eps2 : α) (P : α → Prop) (L : List (Fix α))
    (hP : ∀ a b c, a ∈ L → b ∈ L → c ∈ L → P (areaFix a b c)) (hPb : ∀ v, P v → v < big ∨ (v == big) = true) (fuel : Nat) :
    ∀ S : VState α, VInvP P L S → AllHit big eps2 fuel S := by
  induction fuel with
  | zero => intro S _; trivial
  | succ fuel ih =>
    intro S h
    cases hs : vwStep big eps2 S with
    | none => simp only [AllHit, hs]
    | some S' =>
      obtain ⟨a, b⟩ := vwStep_P big eps2 P L hP hPb S S' h hs
      simp only [AllHit, hs]
      exact ⟨b, ih S' a⟩

theorem vwInit_invP (P : α → Prop) (L : List (Fix α))
    (hP : ∀ a b c, a ∈ L → b ∈ L → c ∈ L → P (areaFix a b c)) (h2 : 2 ≤ L.length) :
    VInvP P L (vwInit L) := by
  have hlen : (vwInit L).length = L.length := by
    have := congrArg List.length (vwInit_map_fst L)
    rwa [List.length_map] at this
  refine ⟨by omega, ?_, ?_, ?_, ?_⟩
  · refine ⟨L[0], ?_⟩
    rw [vwInit_getElem?, List.getElem?_eq_getElem (by omega)]; rfl
  · have h1 : 1 ≤ L.length := by omega
    exact vwInit_lastNaN L h1
  · intro i h0 h1
    rw [hlen] at h1
    have hi : i < L.length := by omega
    have hp : i - 1 < L.length := by omega
    refine ⟨L[i], areaFix L[i - 1] L[i] L[i + 1], ?_, ?_⟩
    · rw [vwInit_getElem?, List.getElem?_eq_getElem hi]
      have e0 : ¬ i = 0 := by omega
      simp only [Option.map_some, e0, ↓reduceIte, aireVisval, List.getElem?_eq_getElem hp,
        List.getElem?_eq_getElem hi, List.getElem?_eq_getElem h1]
    · exact hP _ _ _ (List.getElem_mem hp) (List.getElem_mem hi) (List.getElem_mem h1)
  · intro e he
    have : e.1 ∈ (vwInit L).map (·.1) := List.mem_map.mpr ⟨e, he, rfl⟩
    rwa [vwInit_map_fst] at this

/-- every possible pass (any choice among equal minima) removes an interior observation -/
theorem vwNext_interiorP (big eps2 : α) (P : α → Prop) (L : List (Fix α)) (hPb : ∀ v, P v → v < big ∨ (v == big) = true)
    (S S' : VState α) (h : VInvP P L S)
    (hs : S' ∈ vwNext big eps2 S) : ∃ id, 0 < id ∧ id + 1 < S.length ∧ S' = vwBody S id := by
  obtain ⟨j, hj, e, hl⟩ := vwNext_body big eps2 S S' hs
  have hnum : ∃ p v, S[j]? = some (p, some v) := by
    rcases mem_tieIds _ _ _ hj with e1 | ⟨w, hw⟩
    · rw [e1]; exact h.argmin_num hPb hl
    · obtain ⟨p, hp⟩ := map_snd_num S j w hw
      exact ⟨p, w, hp⟩
  obtain ⟨p, v, hpv⟩ := hnum
  obtain ⟨a, b⟩ := h.interior j p v hpv
  exact ⟨j, a, b, e⟩

/-- a run with any choice among equal minima on a column without NaN: invariant kept, both end observations kept -/
theorem VReach.specP {big eps2 : α} (P : α → Prop) (L : List (Fix α))
    (hP : ∀ a b c, a ∈ L → b ∈ L → c ∈ L → P (areaFix a b c)) (hPb : ∀ v, P v → v < big ∨ (v == big) = true)
    {S S' : VState α} (r : VReach big eps2 S S') :
    VInvP P L S →
      VInvP P L S' ∧ (S'.map (·.1)).head? = (S.map (·.1)).head? ∧
      (S'.map (·.1)).getLast? = (S.map (·.1)).getLast? := by
  induction r with
  | refl S => intro h; exact ⟨h, rfl, rfl⟩
  | step hm _ ih =>
    intro h
    obtain ⟨id, h0, h1, e⟩ := vwNext_interiorP _ _ P L hPb _ _ h hm
    subst e
    obtain ⟨r1, r3, r4⟩ := ih (by rw [vwBody_eq_bodyL]; exact h.body hP id h0 h1)
    refine ⟨r1, ?_, ?_⟩
    · rw [r3, vwBody_map_fst, head?_eraseIdx_pos _ _ h0]
    · rw [r4, vwBody_map_fst, getLast?_eraseIdx_interior _ _ (by rw [List.length_map]; exact h1)]

/-! ### the `Track` object on columns without NaN -/

/-- one pass with the index it removes (the form `vwStep_spec` has under T6's strict hypothesis) -/
theorem vwStep_specP (big eps2 : α) (P : α → Prop) (L : List (Fix α))
    (hP : ∀ a b c, a ∈ L → b ∈ L → c ∈ L → P (areaFix a b c)) (hPb : ∀ v, P v → v < big ∨ (v == big) = true)
    (S S' : VState α) (h : VInvP P L S) (hs : vwStep big eps2 S = some S') :
    VInvP P L S' ∧ ∃ id, 0 < id ∧ id + 1 < S.length ∧ S'.map (·.1) = (S.map (·.1)).eraseIdx id ∧
      id = argmin big (S.map (·.2)) := by
  obtain ⟨hv, hh⟩ := vwStep_P big eps2 P L hP hPb S S' h hs
  obtain ⟨_, _, _, id, h1, hm, eid⟩ := vwStep_any big eps2 S S' h.last hs
  exact ⟨hv, id, by rw [eid]; exact hit_argmin_pos big S h.first hh, h1, hm, eid⟩

/-- the rows of the `Track`-level loop keep their first and last observation on a column without NaN -/
theorem vwLoopT_endsP (big eps2 : α) (k : Nat) (P : α → Prop) (L : List (Fix α))
    (hP : ∀ a b c, a ∈ L → b ∈ L → c ∈ L → P (areaFix a b c)) (hPb : ∀ v, P v → v < big ∨ (v == big) = true) (fuel : Nat) :
    ∀ S : List (Ob α), HasK k S → VInvP P L (absK k S) →
      (restK k (vwLoopT big eps2 k fuel S)).head? = (restK k S).head? ∧
      (restK k (vwLoopT big eps2 k fuel S)).getLast? = (restK k S).getLast? := by
  induction fuel with
  | zero => intro S _ _; exact ⟨rfl, rfl⟩
  | succ fuel ih =>
    intro S hk hv
    obtain ⟨hc, hr⟩ := vwStepT_spec big eps2 k S hk
    rw [vwLoopT]
    cases hs : vwStepT big eps2 k S with
    | none => exact ⟨rfl, rfl⟩
    | some S' =>
      obtain ⟨hk', hr'⟩ := hr S' hs
      rw [hs] at hc
      obtain ⟨hv', id, h0, h1, _, eid⟩ := vwStep_specP big eps2 P L hP hPb (absK k S) (absK k S') hv hc.symm
      obtain ⟨i1, i2⟩ := ih S' hk' hv'
      rw [← eid] at hr'
      rw [absK_length] at h1
      have hlen : (restK k S).length = S.length := by simp [restK]
      refine ⟨?_, ?_⟩
      · rw [i1, hr', head?_eraseIdx_pos _ _ h0]
      · rw [i2, hr', getLast?_eraseIdx_interior _ _ (by omega)]

/-- Visvalingam on the `Track`: when no triangle area of the track is NaN the first and the last **observation** are kept -/
theorem vwTrk_ends_no_nan (big eps : α) (T O : Trk α) (hf : FreshTable T) (h2 : 2 ≤ T.pts.length)
    (hnum : ∀ a b c, a ∈ fixes T.pts → b ∈ fixes T.pts → c ∈ fixes T.pts →
      areaFix a b c < big ∨ (areaFix a b c == big) = true)
    (h : vwTrk big eps T = .ok O) :
    O.pts.head? = T.pts.head? ∧ O.pts.getLast? = T.pts.getLast? := by
  have hne : T.pts ≠ [] := by intro e; rw [e] at h2; simp at h2
  rw [vwTrk_fresh big eps T hf hne] at h
  cases h
  have hv : VInvP (fun v => v < big ∨ (v == big) = true) (fixes T.pts) (absK T.dico.length (initRows T.pts)) := by
    rw [initRows_abs _ _ hf.rows]
    exact vwInit_invP _ (fixes T.pts) hnum (by simpa [fixes] using h2)
  have := vwLoopT_endsP big (eps * eps) T.dico.length _ (fixes T.pts) hnum (fun _ h => h) T.pts.length (initRows T.pts)
    (initRows_has _ _ hf.rows) hv
  rw [initRows_rest _ _ hf.rows] at this
  exact this

/-! ### a column of NaN only: the whole run -/

/-- what is known of a state when no triangle area of the track is found by ARGMIN nor triggers the `break`: the observations are the
track's, and every entry that is not the NaN of an `IndexError` (`none`) is neither `<` nor `==` the start value, nor `>` the threshold -/
structure NanInv (big eps2 : α) (L : List (Fix α)) (S : VState α) : Prop where
  mem : ∀ e ∈ S, e.1 ∈ L
  nan : ∀ e ∈ S, ∀ v, e.2 = some v → ¬ v < big ∧ ¬ (v == big) = true ∧ ¬ v > eps2

theorem NanInv.erase {big eps2 : α} {L : List (Fix α)} {S : VState α} (h : NanInv big eps2 L S) (id : Nat) :
    NanInv big eps2 L (S.eraseIdx id) :=
  ⟨fun e he => h.mem e (List.mem_of_mem_eraseIdx he), fun e he => h.nan e (List.mem_of_mem_eraseIdx he)⟩

theorem NanInv.setAire {big eps2 : α} {L : List (Fix α)} {S : VState α} (h : NanInv big eps2 L S)
    (hn : ∀ a b c, a ∈ L → b ∈ L → c ∈ L →
      ¬ areaFix a b c < big ∧ ¬ (areaFix a b c == big) = true ∧ ¬ areaFix a b c > eps2) (i : Nat) :
    NanInv big eps2 L (setAire S i) := by
  have hmemL : ∀ q ∈ S.map (·.1), q ∈ L := by
    intro q hq
    obtain ⟨e, he, rfl⟩ := List.mem_map.mp hq
    exact h.mem e he
  refine ⟨?_, ?_⟩
  · intro e he
    have : e.1 ∈ (TV.Simplify.setAire S i).map (·.1) := List.mem_map.mpr ⟨e, he, rfl⟩
    rw [setAire_map_fst] at this
    exact hmemL _ this
  · intro e he v hv
    unfold TV.Simplify.setAire at he
    split at he
    · rcases List.mem_or_eq_of_mem_set he with h1 | h1
      · exact h.nan e h1 v hv
      · subst h1
        simp only at hv
        obtain ⟨p0, p1, p2, m0, m1, m2, e'⟩ := aireVisval_mem _ _ _ hv
        rw [e']
        exact hn _ _ _ (hmemL _ m0) (hmemL _ m1) (hmemL _ m2)
    · exact h.nan e he v hv

/-- one pass on such a state of more than two observations: ARGMIN answers its default 0, no `break`, the first observation goes -/
theorem vwStep_all_nan (big eps2 : α) (L : List (Fix α))
    (hn : ∀ a b c, a ∈ L → b ∈ L → c ∈ L →
      ¬ areaFix a b c < big ∧ ¬ (areaFix a b c == big) = true ∧ ¬ areaFix a b c > eps2)
    (S : VState α) (h : NanInv big eps2 L S) (hl : S.length > 2) :
    ∃ S', vwStep big eps2 S = some S' ∧ NanInv big eps2 L S' ∧ S'.map (·.1) = (S.map (·.1)).eraseIdx 0 := by
  have hcol : ∀ (j : Nat) (v : α), (S.map (·.2))[j]? = some (some v) → ¬ v < big ∧ ¬ (v == big) = true ∧ ¬ v > eps2 := by
    intro j v hj
    obtain ⟨p, hp⟩ := map_snd_num S j v hj
    exact h.nan _ (List.mem_of_getElem? hp) v rfl
  have ea : argmin big (S.map (·.2)) = 0 := by
    unfold argmin
    rw [argminLoop_default _ 0 big (fun j v hj => ⟨(hcol j v hj).1, (hcol j v hj).2.1⟩)]; rfl
  have hstop : stopOf eps2 ((S[0]?).map (·.2)) = false := by
    cases h0 : S[0]? with
    | none => rfl
    | some e =>
      obtain ⟨p, c⟩ := e
      cases c with
      | none => rfl
      | some v =>
        have := (h.nan _ (List.mem_of_getElem? h0) v rfl).2.2
        simp [stopOf, this]
  refine ⟨bodyL S 0, ?_, ?_, ?_⟩
  · rw [vwStep_eq, if_pos hl, ea, hstop]; rfl
  · unfold bodyL
    have e1 : ¬ (0 > 1) := by omega
    simp only [e1, ↓reduceIte]
    split
    · exact (h.erase 0).setAire hn 0
    · exact h.erase 0
  · rw [← vwBody_eq_bodyL, vwBody_map_fst]

/-- the whole run on a column of NaN: the observations are removed from the front until two remain -/
theorem vwLoop_all_nan (big eps2 : α) (L : List (Fix α))
    (hn : ∀ a b c, a ∈ L → b ∈ L → c ∈ L →
      ¬ areaFix a b c < big ∧ ¬ (areaFix a b c == big) = true ∧ ¬ areaFix a b c > eps2) (fuel : Nat) :
    ∀ S : VState α, NanInv big eps2 L S → S.length ≤ fuel + 2 →
      (vwLoop big eps2 fuel S).map (·.1) = (S.map (·.1)).drop (S.length - 2) := by
  induction fuel with
  | zero =>
    intro S _ hl
    have : S.length - 2 = 0 := by omega
    rw [vwLoop, this, List.drop_zero]
  | succ fuel ih =>
    intro S h hl
    rw [vwLoop]
    by_cases h2 : S.length > 2
    · obtain ⟨S', e1, e2, e3⟩ := vwStep_all_nan big eps2 L hn S h h2
      rw [e1]
      simp only
      have hlen : S'.length = S.length - 1 := by
        have := congrArg List.length e3
        rw [List.length_map, List.length_eraseIdx_of_lt (by rw [List.length_map]; omega), List.length_map] at this
        exact this
      rw [ih S' e2 (by omega), e3, hlen]
      cases hS : S.map (·.1) with
      | nil =>
        have := congrArg List.length hS
        simp only [List.length_map, List.length_nil] at this
        omega
      | cons a tl =>
        have e : S.length - 2 = (S.length - 1 - 2) + 1 := by omega
        rw [e, List.drop_succ_cons]
        rfl
    · have : vwStep big eps2 S = none := by rw [vwStep_eq, if_neg h2]
      rw [this]
      have : S.length - 2 = 0 := by omega
      simp only [this, List.drop_zero]

theorem vwInit_nanInv (big eps2 : α) (L : List (Fix α))
    (hn : ∀ a b c, a ∈ L → b ∈ L → c ∈ L →
      ¬ areaFix a b c < big ∧ ¬ (areaFix a b c == big) = true ∧ ¬ areaFix a b c > eps2) :
    NanInv big eps2 L (vwInit L) := by
  refine ⟨?_, ?_⟩
  · intro e he
    have : e.1 ∈ (vwInit L).map (·.1) := List.mem_map.mpr ⟨e, he, rfl⟩
    rwa [vwInit_map_fst] at this
  · intro e he v hv
    obtain ⟨i, hi⟩ := List.getElem?_of_mem he
    rw [vwInit_getElem?] at hi
    cases hL : L[i]? with
    | none => rw [hL] at hi; cases hi
    | some p =>
      rw [hL] at hi
      simp only [Option.map_some, Option.some.injEq] at hi
      subst hi
      simp only at hv
      split at hv
      · cases hv
      · obtain ⟨p0, p1, p2, m0, m1, m2, e'⟩ := aireVisval_mem _ _ _ hv
        rw [e']
        exact hn _ _ _ m0 m1 m2

end TV.Simplify
