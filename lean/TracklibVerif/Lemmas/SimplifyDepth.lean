import TracklibVerif.Lemmas.Simplify
/-! The **depth of the recursion** of `douglas_peucker` (`dpDepthFuel` / `dpDepth` of `Model/Simplify.lean`): it is defined exactly
when the result is, it is at most `len(L) − 2` under the hypotheses of T3, and it is `len(L) − 2` on every track on which each split
peels exactly one fix (`PeelOne`). No property of the scalar type is used. -/
namespace TV.Simplify
set_option linter.unusedSectionVars false
variable {α : Type} [Add α] [Sub α] [Mul α] [Div α] [Neg α] [LT α] [DecidableLT α] [BEq α]
  [OfNat α 0] [OfNat α 1] [OfNat α 2]

theorem dpDepthFuel_succ (sqrt : α → α) (eps : α) (fuel : Nat) (a p q : Fix α) (rest : List (Fix α)) :
    dpDepthFuel sqrt eps (fuel + 1) (a :: p :: q :: rest) =
      if (farthest sqrt a (chordEnd q rest) (a :: p :: q :: rest) 0 0 0).1 < eps then
        some 0
      else
        (dpDepthFuel sqrt eps fuel ((a :: p :: q :: rest).take
            (farthest sqrt a (chordEnd q rest) (a :: p :: q :: rest) 0 0 0).2)).bind fun d1 =>
        (dpDepthFuel sqrt eps fuel ((a :: p :: q :: rest).drop
            (farthest sqrt a (chordEnd q rest) (a :: p :: q :: rest) 0 0 0).2)).map fun d2 => 1 + Nat.max d1 d2 := by
  rw [dpDepthFuel]
  unfold chordEnd
  split
  · rfl
  · split
    · simp_all
    · rename_i hx
      cases hA : dpDepthFuel sqrt eps fuel (List.take (farthest sqrt a ((q :: rest).getLast (List.cons_ne_nil _ _)) (a :: p :: q :: rest) 0 0 0).snd (a :: p :: q :: rest)) with
      | none => rfl
      | some o1 =>
        cases hB : dpDepthFuel sqrt eps fuel (List.drop (farthest sqrt a ((q :: rest).getLast (List.cons_ne_nil _ _)) (a :: p :: q :: rest) 0 0 0).snd (a :: p :: q :: rest)) with
        | none => rfl
        | some o2 => exact absurd hB (hx o1 o2 hA)

theorem dpDepthFuel_short (sqrt : α → α) (eps : α) (fuel : Nat) (L : List (Fix α)) (h : L.length ≤ 2) :
    dpDepthFuel sqrt eps fuel L = some 0 := by
  match L, h with
  | [], _ => rw [dpDepthFuel]
  | [_], _ => rw [dpDepthFuel]
  | [_, _], _ => rw [dpDepthFuel]
  | _ :: _ :: _ :: _, h => simp at h

theorem dpDepthFuel_zero (sqrt : α → α) (eps : α) (a p q : Fix α) (rest : List (Fix α)) :
    dpDepthFuel sqrt eps 0 (a :: p :: q :: rest) = none := by
  rw [dpDepthFuel]

/-- the depth is defined exactly when the result is (same recursion, same fuel) -/
theorem dpDepthFuel_isSome (sqrt : α → α) (eps : α) (fuel : Nat) :
    ∀ L : List (Fix α), (dpDepthFuel sqrt eps fuel L).isSome = (dpFuel sqrt eps fuel L).isSome := by
  induction fuel with
  | zero =>
    intro L
    by_cases hl : L.length ≤ 2
    · rw [dpFuel_short _ _ _ _ hl, dpDepthFuel_short _ _ _ _ hl]; rfl
    · obtain ⟨a, p, q, rest, rfl⟩ := three_of_len L hl
      rw [dpFuel_zero, dpDepthFuel_zero]; rfl
  | succ fuel ih =>
    intro L
    by_cases hl : L.length ≤ 2
    · rw [dpFuel_short _ _ _ _ hl, dpDepthFuel_short _ _ _ _ hl]; rfl
    · obtain ⟨a, p, q, rest, rfl⟩ := three_of_len L hl
      rw [dpFuel_succ, dpDepthFuel_succ]
      by_cases hc : (farthest sqrt a (chordEnd q rest) (a :: p :: q :: rest) 0 0 0).1 < eps
      · rw [if_pos hc, if_pos hc]; rfl
      · rw [if_neg hc, if_neg hc]
        have h1 := ih ((a :: p :: q :: rest).take (farthest sqrt a (chordEnd q rest) (a :: p :: q :: rest) 0 0 0).2)
        have h2 := ih ((a :: p :: q :: rest).drop (farthest sqrt a (chordEnd q rest) (a :: p :: q :: rest) 0 0 0).2)
        generalize dpDepthFuel sqrt eps fuel ((a :: p :: q :: rest).take (farthest sqrt a (chordEnd q rest) (a :: p :: q :: rest) 0 0 0).2) = x1 at h1 ⊢
        generalize dpFuel sqrt eps fuel ((a :: p :: q :: rest).take (farthest sqrt a (chordEnd q rest) (a :: p :: q :: rest) 0 0 0).2) = y1 at h1 ⊢
        generalize dpDepthFuel sqrt eps fuel ((a :: p :: q :: rest).drop (farthest sqrt a (chordEnd q rest) (a :: p :: q :: rest) 0 0 0).2) = x2 at h2 ⊢
        generalize dpFuel sqrt eps fuel ((a :: p :: q :: rest).drop (farthest sqrt a (chordEnd q rest) (a :: p :: q :: rest) 0 0 0).2) = y2 at h2 ⊢
        cases x1 <;> cases y1 <;> cases x2 <;> cases y2 <;> simp_all

/-- the bound: under the hypotheses of T3 (positive tolerance; a chord's first end is never strictly away from it) every split has
two strictly shorter halves, so a track of `n >= 2` fixes is at most `n − 2` levels deep -/
theorem dpDepthFuel_le (sqrt : α → α) (eps : α) (heps : (0 : α) < eps)
    (hd0 : ∀ a b : Fix α, ¬ (distFix sqrt a b a > 0)) (fuel : Nat) :
    ∀ (L : List (Fix α)) (d : Nat), dpDepthFuel sqrt eps fuel L = some d → d ≤ L.length - 2 := by
  induction fuel with
  | zero =>
    intro L d h
    by_cases hl : L.length ≤ 2
    · rw [dpDepthFuel_short _ _ _ _ hl] at h; cases h; omega
    · obtain ⟨a, p, q, rest, rfl⟩ := three_of_len L hl
      rw [dpDepthFuel_zero] at h; cases h
  | succ fuel ih =>
    intro L d h
    by_cases hl : L.length ≤ 2
    · rw [dpDepthFuel_short _ _ _ _ hl] at h; cases h; omega
    · obtain ⟨a, p, q, rest, rfl⟩ := three_of_len L hl
      rw [dpDepthFuel_succ] at h
      split at h
      · cases h; omega
      · rename_i hne
        have hi := farthest_inside sqrt eps heps a (chordEnd q rest) (p :: q :: rest) (hd0 _ _) hne
        generalize (farthest sqrt a (chordEnd q rest) (a :: p :: q :: rest) 0 0 0).2 = i at hi h
        cases hA : dpDepthFuel sqrt eps fuel ((a :: p :: q :: rest).take i) with
        | none => rw [hA] at h; cases h
        | some d1 =>
          cases hB : dpDepthFuel sqrt eps fuel ((a :: p :: q :: rest).drop i) with
          | none => rw [hA, hB] at h; cases h
          | some d2 =>
            rw [hA, hB] at h
            cases h
            have b1 := ih _ _ hA
            have b2 := ih _ _ hB
            rw [List.length_take] at b1
            rw [List.length_drop] at b2
            simp only [List.length_cons] at hi b1 b2 ⊢
            have hm : Nat.max d1 d2 ≤ rest.length := Nat.max_le.mpr ⟨by omega, by omega⟩
            omega

/-- every split of the run peels exactly **one** fix: at every level the farthest fix from the chord is `L[1]` and it is not below the
tolerance, down to two fixes -/
def PeelOne (sqrt : α → α) (eps : α) : List (Fix α) → Prop
  | a :: p :: q :: rest =>
    (¬ (farthest sqrt a (chordEnd q rest) (a :: p :: q :: rest) 0 0 0).1 < eps ∧
      (farthest sqrt a (chordEnd q rest) (a :: p :: q :: rest) 0 0 0).2 = 1) ∧ PeelOne sqrt eps (p :: q :: rest)
  | _ => True

/-- on such a track the recursion is exactly `len(L) − 2` levels deep: the bound is attained -/
theorem dpDepthFuel_peel (sqrt : α → α) (eps : α) (fuel : Nat) :
    ∀ L : List (Fix α), PeelOne sqrt eps L → L.length ≤ fuel + 2 → dpDepthFuel sqrt eps fuel L = some (L.length - 2) := by
  induction fuel with
  | zero => intro L _ hl; rw [dpDepthFuel_short _ _ _ _ (by omega)]; congr 1; omega
  | succ fuel ih =>
    intro L hp hl
    by_cases hs : L.length ≤ 2
    · rw [dpDepthFuel_short _ _ _ _ hs]; congr 1; omega
    · obtain ⟨a, p, q, rest, rfl⟩ := three_of_len L hs
      obtain ⟨⟨h1, h2⟩, h3⟩ := hp
      rw [dpDepthFuel_succ, if_neg h1, h2]
      have e1 : (a :: p :: q :: rest).take 1 = [a] := rfl
      have e2 : (a :: p :: q :: rest).drop 1 = p :: q :: rest := rfl
      rw [e1, e2, dpDepthFuel_short _ _ _ [a] (by simp), ih (p :: q :: rest) h3 (by simp only [List.length_cons] at hl ⊢; omega)]
      simp only [List.length_cons, Option.bind_some, Option.map_some]
      congr 1
      have : Nat.max 0 (rest.length + 1 + 1 - 2) = rest.length + 1 + 1 - 2 := Nat.max_eq_right (Nat.zero_le _)
      omega

/-- the farthest search leaves its running pair untouched when no later fix is strictly farther -/
theorem farthest_no_gt (sqrt : α → α) (a b : Fix α) (rest : List (Fix α)) (i : Nat) (dmax : α) (imax : Nat)
    (h : ∀ p ∈ rest, ¬ distFix sqrt a b p > dmax) : farthest sqrt a b rest i dmax imax = (dmax, imax) := by
  induction rest generalizing i with
  | nil => rfl
  | cons p rest ih =>
    rw [farthest]
    simp only [h p List.mem_cons_self, ↓reduceIte]
    exact ih (i + 1) (fun x hx => h x (List.mem_cons_of_mem _ hx))

/-- … so the split index is 1 as soon as the chord's first end is not strictly away from it, `L[1]` is, and no later fix is
strictly farther than `L[1]` -/
theorem farthest_second (sqrt : α → α) (a b p : Fix α) (rest : List (Fix α))
    (h0 : ¬ distFix sqrt a b a > 0) (h1 : distFix sqrt a b p > 0)
    (h : ∀ x ∈ rest, ¬ distFix sqrt a b x > distFix sqrt a b p) :
    farthest sqrt a b (a :: p :: rest) 0 0 0 = (distFix sqrt a b p, 1) := by
  rw [farthest]
  simp only [h0, ↓reduceIte]
  rw [farthest]
  simp only [h1, ↓reduceIte]
  exact farthest_no_gt sqrt a b rest _ _ _ h

end TV.Simplify
