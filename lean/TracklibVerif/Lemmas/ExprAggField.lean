import TracklibVerif.Lemmas.Expr
import Mathlib.Algebra.Order.Field.Basic
import Mathlib.Tactic.Ring
import Mathlib.Tactic.Linarith
/-! The aggregates `SUM AVG VAR STD MSE RMSE MEDIAN MAD` as coded (`Model/Expr.lean`: the loops of `Sum`, `Averager`,
`Variance`, `Mse`, the `math.sqrt` of `StdDev` / `Rmse`, the two central ranks of `Median` / `Mad` in the order of
`np.argsort`) against their documented closed forms, over an ordered field.

The scalar type `α` stays abstract. A `FieldModel α K` reads a scalar as an element of an ordered field `K` or as NaN
(`val : α → Option K`, `none` = NaN) and says that the operations the loops use (`+ - * /` by a non-zero number, `x ** 2`,
`abs`, `<`, the integer `count`, the literal `0.5`) are those of `K` on the numbers: exact arithmetic. `Option Rat`
(`Lemmas/ExprExact.lean`) is such a model (`Lemmas/ExprAggFieldEx.lean`); IEEE doubles are one up to rounding only — how far
the computed doubles are from these formulas is what the Python oracle's running error bound decides.

`nums M c` is the list of the numbers of the vector `c` (NaN skipped, order kept). -/
namespace TV.Expr
open Scalar

/-- exact reading of the scalars in an ordered field `K`; `none` = NaN -/
structure FieldModel (α : Type) [Scalar α] (K : Type) [Field K] [LinearOrder K] [IsStrictOrderedRing K] where
  val : α → Option K
  nan_iff : ∀ a : α, Scalar.isNaN a = (val a).isNone
  val_add : ∀ (a b : α) (x y : K), val a = some x → val b = some y → val (Scalar.add a b) = some (x + y)
  val_sub : ∀ (a b : α) (x y : K), val a = some x → val b = some y → val (Scalar.sub a b) = some (x - y)
  val_mul : ∀ (a b : α) (x y : K), val a = some x → val b = some y → val (Scalar.mul a b) = some (x * y)
  val_div : ∀ (a b : α) (x y : K), val a = some x → val b = some y → y ≠ 0 → val (Scalar.div a b) = some (x / y)
  /-- Python `x ** 2` -/
  val_sq : ∀ (a : α) (x : K), val a = some x → ∃ r, Scalar.pow a Scalar.two = .ok r ∧ val r = some (x * x)
  val_abs : ∀ (a : α) (x : K), val a = some x → val (Scalar.abs a) = some |x|
  val_lt : ∀ (a b : α) (x y : K), val a = some x → val b = some y → Scalar.lt a b = decide (x < y)
  /-- `count`, `float(n)` -/
  val_ofNat : ∀ n : Nat, val (Scalar.ofNat n) = some (n : K)
  /-- the literal `0.5` -/
  val_half : val Scalar.half = some (1 / 2)

section
variable {α : Type} [Scalar α] {K : Type} [Field K] [LinearOrder K] [IsStrictOrderedRing K] (M : FieldModel α K)

/-- the numbers of a vector, NaN skipped -/
def nums (c : List α) : List K := c.filterMap M.val

/-- `l` is a list of numbers, read pointwise as `v` -/
def Reads (l : List α) (v : List K) : Prop := List.Forall₂ (fun a x => M.val a = some x) l v

theorem FieldModel.val_zero : M.val (Scalar.zero : α) = some 0 := by
  have := M.val_ofNat 0
  simpa [Scalar.zero, Scalar.ofNat] using this

theorem isNaN_of_none {a : α} (h : M.val a = none) : isNaN a = true := by rw [M.nan_iff, h]; rfl
theorem isNaN_of_some {a : α} {x : K} (h : M.val a = some x) : isNaN a = false := by rw [M.nan_iff, h]; rfl

theorem nums_cons_none {a : α} (c : List α) (h : M.val a = none) : nums M (a :: c) = nums M c := by
  simp [nums, h]
theorem nums_cons_some {a : α} {x : K} (c : List α) (h : M.val a = some x) : nums M (a :: c) = x :: nums M c := by
  simp [nums, h]
theorem nums_append (l1 l2 : List α) : nums M (l1 ++ l2) = nums M l1 ++ nums M l2 := by
  simp [nums, List.filterMap_append]

/-- what the loops keep (`if isnan(val): continue`) reads as the numbers of the vector -/
theorem reads_skipNaN (c : List α) : Reads M (skipNaN c) (nums M c) := by
  induction c with
  | nil => exact List.Forall₂.nil
  | cons a c ih =>
    cases h : M.val a with
    | none =>
      have e : skipNaN (a :: c) = skipNaN c := by simp [skipNaN, isNaN_of_none M h]
      rw [e, nums_cons_none M c h]; exact ih
    | some x =>
      have e : skipNaN (a :: c) = a :: skipNaN c := by simp [skipNaN, isNaN_of_some M h]
      rw [e, nums_cons_some M c h]; exact List.Forall₂.cons h ih

theorem Reads.length_eq {l : List α} {v : List K} (h : Reads M l v) : l.length = v.length := by
  induction h with
  | nil => rfl
  | cons _ _ ih => simp [ih]

theorem Reads.nums_eq {l : List α} {v : List K} (h : Reads M l v) : nums M l = v := by
  induction h with
  | nil => rfl
  | cons hax _ ih => rw [nums_cons_some M _ hax, ih]

/-- the accumulation `acc += x` over a list of numbers -/
theorem reads_foldl_add {l : List α} {v : List K} (h : Reads M l v) : ∀ (acc : α) (s : K), M.val acc = some s →
    M.val (l.foldl Scalar.add acc) = some (s + v.sum) := by
  induction h with
  | nil => intro acc s hs; simpa using hs
  | cons hax _ ih =>
    intro acc s hs
    simp only [List.foldl_cons, List.sum_cons]
    rw [ih _ _ (M.val_add _ _ _ _ hs hax), add_assoc]

/-- a loop body that always succeeds on numbers -/
theorem reads_mapM (f : α → Except Err α) (g : K → K)
    (hf : ∀ a x, M.val a = some x → ∃ r, f a = .ok r ∧ M.val r = some (g x))
    {l : List α} {v : List K} (h : Reads M l v) : ∃ l', mapM' f l = .ok l' ∧ Reads M l' (v.map g) := by
  induction h with
  | nil => exact ⟨[], rfl, List.Forall₂.nil⟩
  | cons hax _ ih =>
    obtain ⟨r, h1, h2⟩ := hf _ _ hax
    obtain ⟨l', h3, h4⟩ := ih
    refine ⟨r :: l', ?_, List.Forall₂.cons h2 h4⟩
    simp only [mapM', h1, h3, bind, Except.bind, pure, Except.pure]

/-! ## SUM, AVG, VAR, STD, MSE, RMSE -/

/-- `SUM{x}` = Σ of the numbers of `x` -/
theorem sumL_formula (c : List α) : M.val (sumL c) = some (nums M c).sum := by
  have := reads_foldl_add M (reads_skipNaN M c) Scalar.zero 0 M.val_zero
  simpa [sumL] using this

theorem cast_length_ne_zero {v : List K} (h : v ≠ []) : ((v.length : Nat) : K) ≠ 0 := by
  have : v.length ≠ 0 := by intro h0; exact h (List.eq_nil_of_length_eq_zero h0)
  exact Nat.cast_ne_zero.mpr this

/-- `AVG{x}` = Σ / count over the numbers of `x` -/
theorem avgL_formula (c : List α) (h : nums M c ≠ []) :
    ∃ r, avgL c = .ok r ∧ M.val r = some ((nums M c).sum / ((nums M c).length : K)) := by
  have hr := reads_skipNaN M c
  have hl := hr.length_eq
  have hne : (skipNaN c).isEmpty = false := by
    cases hs : skipNaN c with
    | nil => rw [hs] at hl; exact absurd (List.eq_nil_of_length_eq_zero hl.symm) h
    | cons _ _ => rfl
  have hsum := reads_foldl_add M hr Scalar.zero 0 M.val_zero
  rw [zero_add] at hsum
  refine ⟨div ((skipNaN c).foldl add zero) (ofNat (skipNaN c).length), by simp only [avgL, hne, Bool.false_eq_true, if_false], ?_⟩
  have := M.val_div _ _ _ _ hsum (M.val_ofNat (skipNaN c).length) (by rw [hl]; exact cast_length_ne_zero h)
  rw [this, hl]

/-- no number at all: `mean / count` is `0 / 0` on integers -/
theorem avgL_none (c : List α) (h : nums M c = []) : avgL c = .error "err:zerodiv" := by
  have hl := (reads_skipNaN M c).length_eq
  rw [h] at hl
  have : skipNaN c = [] := List.eq_nil_of_length_eq_zero hl
  simp [avgL, this]

/-- `VAR{x}` = Σ (x − mean)² / count over the numbers of `x` (the population variance) -/
theorem varL_formula (c : List α) (h : nums M c ≠ []) :
    ∃ r, varL c = .ok r ∧ M.val r = some (((nums M c).map
      (fun x => (x - (nums M c).sum / ((nums M c).length : K)) ^ 2)).sum / ((nums M c).length : K)) := by
  obtain ⟨m, hm, hmv⟩ := avgL_formula M c h
  have hr := reads_skipNaN M c
  have hl := hr.length_eq
  obtain ⟨sq, hsq, hsqr⟩ := reads_mapM M (fun x => pow (sub x m) two)
    (fun x => (x - (nums M c).sum / ((nums M c).length : K)) ^ 2)
    (by
      intro a x hax
      obtain ⟨r, h1, h2⟩ := M.val_sq _ _ (M.val_sub _ _ _ _ hax hmv)
      exact ⟨r, h1, by rw [h2, pow_two]⟩) hr
  have hsum := reads_foldl_add M hsqr Scalar.zero 0 M.val_zero
  rw [zero_add] at hsum
  refine ⟨div (sq.foldl add zero) (ofNat (skipNaN c).length), by simp only [varL, hm, hsq, bind, Except.bind, pure, Except.pure], ?_⟩
  have := M.val_div _ _ _ _ hsum (M.val_ofNat (skipNaN c).length) (by rw [hl]; exact cast_length_ne_zero h)
  rw [this, hl]

/-- `MSE{x}` = Σ x² / count over the numbers of `x` -/
theorem mseL_formula (c : List α) (h : nums M c ≠ []) :
    ∃ r, mseL c = .ok r ∧ M.val r = some (((nums M c).map (fun x => x ^ 2)).sum / ((nums M c).length : K)) := by
  have hr := reads_skipNaN M c
  have hl := hr.length_eq
  have hne : (skipNaN c).isEmpty = false := by
    cases hs : skipNaN c with
    | nil => rw [hs] at hl; exact absurd (List.eq_nil_of_length_eq_zero hl.symm) h
    | cons _ _ => rfl
  obtain ⟨sq, hsq, hsqr⟩ := reads_mapM M (fun x => pow x two) (fun x => x ^ 2)
    (by
      intro a x hax
      obtain ⟨r, h1, h2⟩ := M.val_sq _ _ hax
      exact ⟨r, h1, by rw [h2, pow_two]⟩) hr
  have hsum := reads_foldl_add M hsqr Scalar.zero 0 M.val_zero
  rw [zero_add] at hsum
  refine ⟨div (sq.foldl add zero) (ofNat (skipNaN c).length), by simp only [mseL, hsq, hne, bind, Except.bind, pure, Except.pure, Bool.false_eq_true, if_false], ?_⟩
  have := M.val_div _ _ _ _ hsum (M.val_ofNat (skipNaN c).length) (by rw [hl]; exact cast_length_ne_zero h)
  rw [this, hl]

/-- `STD{x}` is `math.sqrt` of `VAR{x}`, `RMSE{x}` is `math.sqrt` of `MSE{x}` (`math.sqrt` itself is a parameter) -/
theorem stdL_eq (c : List α) (r : α) (h : varL c = .ok r) : stdL c = Scalar.sqrt r := by
  simp only [stdL, h, bind, Except.bind]
theorem rmseL_eq (c : List α) (r : α) (h : mseL c = .ok r) : rmseL c = Scalar.sqrt r := by
  simp only [rmseL, h, bind, Except.bind]

/-! ## order statistics: MEDIAN, MAD -/

/-- `m` is the value of rank `k` (0-based, ties counted) of the list `v`: at most `k` values are below it and more than `k`
values are below or equal to it. This does not mention any sorting. -/
def IsOS (v : List K) (k : Nat) (m : K) : Prop :=
  v.countP (fun y => decide (y < m)) ≤ k ∧ k < v.countP (fun y => decide (y ≤ m))

omit [Field K] [IsStrictOrderedRing K] in
/-- the value of rank `k` is unique -/
theorem IsOS.unique {v : List K} {k : Nat} {m m' : K} (h : IsOS v k m) (h' : IsOS v k m') : m = m' := by
  rcases lt_trichotomy m m' with hlt | heq | hgt
  · exfalso
    have : v.countP (fun y => decide (y ≤ m)) ≤ v.countP (fun y => decide (y < m')) :=
      List.countP_mono_left (fun y _ hy => by
        simp only [decide_eq_true_eq] at hy ⊢
        exact lt_of_le_of_lt hy hlt)
    have h1 := h.2; have h2 := h'.1
    omega
  · exact heq
  · exfalso
    have : v.countP (fun y => decide (y ≤ m')) ≤ v.countP (fun y => decide (y < m)) :=
      List.countP_mono_left (fun y _ hy => by
        simp only [decide_eq_true_eq] at hy ⊢
        exact lt_of_le_of_lt hy hgt)
    have h1 := h'.2; have h2 := h.1
    omega

omit [Field K] [IsStrictOrderedRing K] in
theorem IsOS.perm {v w : List K} (hp : v.Perm w) {k : Nat} {m : K} (h : IsOS v k m) : IsOS w k m := by
  unfold IsOS at h ⊢
  rw [← hp.countP_eq, ← hp.countP_eq]; exact h

theorem leNaNLast_some {a b : α} {x y : K} (ha : M.val a = some x) (hb : M.val b = some y) :
    leNaNLast a b = decide (x ≤ y) := by
  simp only [leNaNLast, isNaN_of_some M ha, isNaN_of_some M hb, M.val_lt b a y x hb ha, Bool.false_eq_true, if_false]
  by_cases h : y < x
  · simp [h, not_le.mpr h]
  · simp [h, not_lt.mp h]

theorem leNaNLast_none_right {a b : α} (hb : M.val b = none) : leNaNLast a b = true := by
  simp [leNaNLast, isNaN_of_none M hb]

theorem leNaNLast_none_left {a b : α} {y : K} (ha : M.val a = none) (hb : M.val b = some y) : leNaNLast a b = false := by
  simp [leNaNLast, isNaN_of_none M ha, isNaN_of_some M hb]

include M in
theorem leNaNLast_total (a b : α) : (leNaNLast a b || leNaNLast b a) = true := by
  cases ha : M.val a with
  | none => simp [leNaNLast_none_right M ha]
  | some x =>
    cases hb : M.val b with
    | none => simp [leNaNLast_none_right M hb]
    | some y =>
      rw [leNaNLast_some M ha hb, leNaNLast_some M hb ha]
      rcases le_total x y with h | h <;> simp [h]

include M in
theorem leNaNLast_trans (a b c : α) (h1 : leNaNLast a b = true) (h2 : leNaNLast b c = true) : leNaNLast a c = true := by
  cases hc : M.val c with
  | none => exact leNaNLast_none_right M hc
  | some z =>
    cases hb : M.val b with
    | none => rw [leNaNLast_none_left M hb hc] at h2; cases h2
    | some y =>
      cases ha : M.val a with
      | none => rw [leNaNLast_none_left M ha hb] at h1; cases h1
      | some x =>
        rw [leNaNLast_some M ha hb, decide_eq_true_eq] at h1
        rw [leNaNLast_some M hb hc, decide_eq_true_eq] at h2
        rw [leNaNLast_some M ha hc, decide_eq_true_eq]
        exact le_trans h1 h2

/-- a list all of whose elements are numbers with the property `P` -/
theorem nums_all (P : K → Prop) (l : List α) (h : ∀ p ∈ l, ∃ y, M.val p = some y ∧ P y) :
    (nums M l).length = l.length ∧ ∀ y ∈ nums M l, P y := by
  induction l with
  | nil => exact ⟨rfl, by intro y hy; cases hy⟩
  | cons p l ih =>
    obtain ⟨y, hy, hP⟩ := h p (List.mem_cons_self)
    obtain ⟨i1, i2⟩ := ih (fun q hq => h q (List.mem_cons_of_mem _ hq))
    rw [nums_cons_some M l hy]
    refine ⟨by simp [i1], ?_⟩
    intro z hz
    rcases List.mem_cons.mp hz with rfl | hz
    · exact hP
    · exact i2 z hz

/-- in a list sorted in the order of `np.argsort` (NaN last), the element at a position below the number of numbers is
the number of that rank -/
theorem rank_of_split (l1 l2 : List α) (a : α) (pw : (l1 ++ a :: l2).Pairwise (fun p q => leNaNLast p q = true))
    (hk : l1.length < (nums M (l1 ++ a :: l2)).length) :
    ∃ x, M.val a = some x ∧ IsOS (nums M (l1 ++ a :: l2)) l1.length x := by
  rw [List.pairwise_append] at pw
  obtain ⟨_, pw2, cross⟩ := pw
  rw [List.pairwise_cons] at pw2
  obtain ⟨ha2, _⟩ := pw2
  cases ha : M.val a with
  | none =>
    exfalso
    have hl2 : nums M l2 = [] := by
      unfold nums
      rw [List.filterMap_eq_nil_iff]
      intro q hq
      cases hqv : M.val q with
      | none => rfl
      | some y => have := ha2 q hq; rw [leNaNLast_none_left M ha hqv] at this; cases this
    rw [nums_append, nums_cons_none M l2 ha, hl2, List.append_nil] at hk
    have : (nums M l1).length ≤ l1.length := List.length_filterMap_le _ _
    omega
  | some x =>
    refine ⟨x, rfl, ?_⟩
    have h1 : ∀ p ∈ l1, ∃ y, M.val p = some y ∧ y ≤ x := by
      intro p hp
      have hpa := cross p hp a (List.mem_cons_self)
      cases hpv : M.val p with
      | none => rw [leNaNLast_none_left M hpv ha] at hpa; cases hpa
      | some y =>
        rw [leNaNLast_some M hpv ha, decide_eq_true_eq] at hpa
        exact ⟨y, rfl, hpa⟩
    obtain ⟨n1, n2⟩ := nums_all M (fun y => y ≤ x) l1 h1
    have h2 : ∀ y ∈ nums M l2, x ≤ y := by
      intro y hy
      obtain ⟨q, hq, hqv⟩ := List.mem_filterMap.mp hy
      have := ha2 q hq
      rw [leNaNLast_some M ha hqv, decide_eq_true_eq] at this
      exact this
    rw [nums_append, nums_cons_some M l2 ha]
    unfold IsOS
    rw [List.countP_append, List.countP_append, List.countP_cons, List.countP_cons]
    have c1 : (nums M l1).countP (fun y => decide (y < x)) ≤ l1.length := by
      rw [← n1]; exact List.countP_le_length
    have c2 : (nums M l2).countP (fun y => decide (y < x)) = 0 := by
      rw [List.countP_eq_zero]
      intro y hy
      simp only [decide_eq_true_eq, not_lt]
      exact h2 y hy
    have c3 : (nums M l1).countP (fun y => decide (y ≤ x)) = l1.length := by
      rw [← n1, List.countP_eq_length]
      intro y hy
      simp only [decide_eq_true_eq]
      exact n2 y hy
    simp only [lt_self_iff_false, decide_false, le_refl, decide_true, Bool.false_eq_true, if_false, if_true]
    omega

/-- the element of rank `k` of `sortL c` (the order of `np.argsort`: ascending, NaN last), for `k` below the number of
numbers of `c`, is the number of rank `k` among the numbers of `c` -/
theorem sortL_rank (c : List α) (k : Nat) (hk : k < (nums M c).length) :
    ∃ a x, (sortL c)[k]? = some a ∧ M.val a = some x ∧ IsOS (nums M c) k x := by
  have perm : (sortL c).Perm c := List.mergeSort_perm c leNaNLast
  have pw : (sortL c).Pairwise (fun p q => leNaNLast p q = true) :=
    List.pairwise_mergeSort (leNaNLast_trans M) (leNaNLast_total M) c
  have hnp : (nums M (sortL c)).Perm (nums M c) := perm.filterMap M.val
  have hks : k < (sortL c).length := by
    rw [perm.length_eq]
    exact Nat.lt_of_lt_of_le hk (List.length_filterMap_le _ _)
  have hsplit : sortL c = (sortL c).take k ++ (sortL c)[k] :: (sortL c).drop (k + 1) := by
    rw [List.getElem_cons_drop, List.take_append_drop]
  have hlen : ((sortL c).take k).length = k := by rw [List.length_take]; omega
  rw [hsplit] at pw hnp
  have hk' : ((sortL c).take k).length < (nums M ((sortL c).take k ++ (sortL c)[k] :: (sortL c).drop (k + 1))).length := by
    rw [hlen, hnp.length_eq]; exact hk
  obtain ⟨x, hx, hos⟩ := rank_of_split M _ _ _ pw hk'
  rw [hlen] at hos
  exact ⟨(sortL c)[k], x, List.getElem?_eq_getElem hks, hx, hos.perm hnp⟩

/-- … and at a position from the number of numbers on, it is a NaN (`np.argsort` puts them last) -/
theorem sortL_rank_nan (c : List α) (k : Nat) (hk : (nums M c).length ≤ k) (hkc : k < c.length) :
    ∃ a, (sortL c)[k]? = some a ∧ isNaN a = true := by
  have perm : (sortL c).Perm c := List.mergeSort_perm c leNaNLast
  have pw : (sortL c).Pairwise (fun p q => leNaNLast p q = true) :=
    List.pairwise_mergeSort (leNaNLast_trans M) (leNaNLast_total M) c
  have hnp : (nums M (sortL c)).Perm (nums M c) := perm.filterMap M.val
  have hks : k < (sortL c).length := by rw [perm.length_eq]; exact hkc
  have hsplit : sortL c = (sortL c).take k ++ (sortL c)[k] :: (sortL c).drop (k + 1) := by
    rw [List.getElem_cons_drop, List.take_append_drop]
  have hlen : ((sortL c).take k).length = k := by rw [List.length_take]; omega
  refine ⟨(sortL c)[k], List.getElem?_eq_getElem hks, ?_⟩
  cases ha : M.val (sortL c)[k] with
  | none => exact isNaN_of_none M ha
  | some x =>
    exfalso
    rw [hsplit, List.pairwise_append] at pw
    obtain ⟨_, _, cross⟩ := pw
    have h1 : ∀ p ∈ (sortL c).take k, ∃ y, M.val p = some y ∧ True := by
      intro p hp
      have hpa := cross p hp _ (List.mem_cons_self)
      cases hpv : M.val p with
      | none => rw [leNaNLast_none_left M hpv ha] at hpa; cases hpa
      | some y => exact ⟨y, rfl, trivial⟩
    have n1 := (nums_all M (fun _ => True) _ h1).1
    have : (nums M (sortL c)).length = (nums M c).length := hnp.length_eq
    rw [hsplit, nums_append, nums_cons_some M _ ha, List.length_append, List.length_cons, n1, hlen] at this
    omega

theorem sortL_length (c : List α) : (sortL c).length = c.length := (List.mergeSort_perm c leNaNLast).length_eq

/-- **MEDIAN as coded** (`vals[sort_index[N//2]]` for an odd number `N` of observations, `0.5 * (vals[sort_index[N/2-1]] +
vals[sort_index[N/2]])` for an even one, `sort_index = np.argsort(vals)`, NaN sorted last and NOT skipped: `N` counts them)
is the documented median: the value of rank `N/2` among the numbers of the vector for odd `N`, the mean of the values of
ranks `N/2 - 1` and `N/2` for even `N` — whenever rank `N/2` falls on a number (always, when the vector holds no NaN). -/
theorem middle_formula (c : List α) (hnum : c.length / 2 < (nums M c).length) :
    (c.length % 2 = 1 → ∃ r x, middle c = .ok r ∧ M.val r = some x ∧ IsOS (nums M c) (c.length / 2) x) ∧
    (c.length % 2 = 0 → ∃ r lo hi, middle c = .ok r ∧ M.val r = some ((lo + hi) / 2)
        ∧ IsOS (nums M c) (c.length / 2 - 1) lo ∧ IsOS (nums M c) (c.length / 2) hi) := by
  have hN := sortL_length c
  have hpos : c.length ≠ 0 := by
    intro h0
    have : (nums M c).length ≤ c.length := List.length_filterMap_le _ _
    omega
  obtain ⟨a, x, ha, hax, hos⟩ := sortL_rank M c (c.length / 2) hnum
  have ga : (sortL c).getD (c.length / 2) nan = a := by rw [List.getD_eq_getElem?_getD, ha]; rfl
  refine ⟨?_, ?_⟩
  · intro hodd
    refine ⟨a, x, ?_, hax, hos⟩
    have h2 : ¬ (c.length % 2 = 0) := by omega
    simp only [middle, hN, hpos, h2, if_false, ga]
  · intro hev
    obtain ⟨b, y, hb, hby, hosb⟩ := sortL_rank M c (c.length / 2 - 1) (by omega)
    have gb : (sortL c).getD (c.length / 2 - 1) nan = b := by rw [List.getD_eq_getElem?_getD, hb]; rfl
    refine ⟨mul half (add b a), y, x, ?_, ?_, hosb, hos⟩
    · simp only [middle, hN, hpos, hev, if_false, if_true, ga, gb]
    · rw [M.val_mul _ _ _ _ M.val_half (M.val_add _ _ _ _ hby hax)]
      congr 1; ring

/-- `MEDIAN` of an odd number of observations whose central rank falls on a NaN (half of them or more are NaN) is NaN -/
theorem middle_nan (c : List α) (hodd : c.length % 2 = 1) (hnum : (nums M c).length ≤ c.length / 2) :
    ∃ r, middle c = .ok r ∧ isNaN r = true := by
  have hN := sortL_length c
  have hpos : c.length ≠ 0 := by omega
  obtain ⟨a, ha, hnan⟩ := sortL_rank_nan M c (c.length / 2) hnum (by omega)
  have ga : (sortL c).getD (c.length / 2) nan = a := by rw [List.getD_eq_getElem?_getD, ha]; rfl
  have h2 : ¬ (c.length % 2 = 0) := by omega
  exact ⟨a, by simp only [middle, hN, hpos, h2, if_false, ga], hnan⟩

/-- a vector without NaN: every rank falls on a number -/
theorem nums_length_of_noNaN (c : List α) (h : ∀ a ∈ c, isNaN a = false) : (nums M c).length = c.length := by
  refine (nums_all M (fun _ => True) c ?_).1
  intro p hp
  cases hv : M.val p with
  | none => have := h p hp; rw [isNaN_of_none M hv] at this; cases this
  | some y => exact ⟨y, rfl, trivial⟩

theorem Reads.map_abs {l : List α} {v : List K} (h : Reads M l v) :
    Reads M (l.map Scalar.abs) (v.map (fun x => |x|)) := by
  induction h with
  | nil => exact List.Forall₂.nil
  | cons hax _ ih => exact List.Forall₂.cons (M.val_abs _ _ hax) ih

/-- **MAD as coded** (NaN skipped, then the central rank(s) of the absolute values, `N // 2` since fix 56ef03e) is the median
of `|x|` over the numbers of the vector. -/
theorem madL_formula (c : List α) (h : nums M c ≠ []) :
    (((nums M c).length % 2 = 1 → ∃ r x, madL c = .ok r ∧ M.val r = some x
        ∧ IsOS ((nums M c).map (fun x => |x|)) ((nums M c).length / 2) x) ∧
     ((nums M c).length % 2 = 0 → ∃ r lo hi, madL c = .ok r ∧ M.val r = some ((lo + hi) / 2)
        ∧ IsOS ((nums M c).map (fun x => |x|)) ((nums M c).length / 2 - 1) lo
        ∧ IsOS ((nums M c).map (fun x => |x|)) ((nums M c).length / 2) hi)) := by
  have hr := reads_skipNaN M c
  have hr' : Reads M ((skipNaN c).map Scalar.abs) ((nums M c).map (fun x => |x|)) := hr.map_abs
  have hn := hr'.nums_eq
  have hl : ((skipNaN c).map Scalar.abs).length = (nums M c).length := by rw [hr'.length_eq, List.length_map]
  have hpos : (nums M c).length ≠ 0 := fun h0 => h (List.eq_nil_of_length_eq_zero h0)
  have := middle_formula M ((skipNaN c).map Scalar.abs) (by rw [hn, hl, List.length_map]; omega)
  rw [hn, hl] at this
  exact this

end

end TV.Expr
