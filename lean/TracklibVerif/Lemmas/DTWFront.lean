import TracklibVerif.Lemmas.DTWTable
/-! What `_fillAF_dtw` leaves on the returned track, row by row; a track1 that already carries the features of an
earlier matching gives the same result as a track1 without them (`fillAFOn_eq_fillAF`, `dtwOn_eq_dtw`, `fdtwOn_of_fdtw`). -/
set_option linter.unusedSimpArgs false
set_option linter.unusedSectionVars false
namespace TV.DTW

section fill
variable {α : Type} [Add α] [Sub α] [Mul α] [Div α] [LT α] [LE α] [DecidableLT α] [DecidableLE α] [OfNat α 0]

/-- what one iteration of `_fillAF_dtw` (pair `s`) does to the row of observation `j` -/
def stepRow (dist : Pt α → Pt α → α) (t1 t2 : List (Pt α)) (j : Nat) (r : Row α) (s : Nat × Nat) : Row α :=
  if s.2 = j then
    { diff := some (dist (t1[s.2]?.getD ⟨0, 0, 0⟩) (t2[s.1]?.getD ⟨0, 0, 0⟩)), pair := r.pair ++ [s.1],
      ex := some ((t1[s.2]?.getD ⟨0, 0, 0⟩).x - (t2[s.1]?.getD ⟨0, 0, 0⟩).x),
      ey := some ((t1[s.2]?.getD ⟨0, 0, 0⟩).y - (t2[s.1]?.getD ⟨0, 0, 0⟩).y) }
  else r

omit [Add α] [Mul α] [Div α] [LT α] [DecidableLT α] [LE α] [DecidableLE α] in
/-- the loop of `_fillAF_dtw`, row by row: row `j` is the fold of `stepRow j` over the pairs visited -/
theorem fill_foldl_rows (dist : Pt α → Pt α → α) (t1 t2 : List (Pt α)) :
    ∀ (L : List (Nat × Nat)) (rows : List (Row α)) (nb : Nat), rows.length = t1.length →
      (∀ s ∈ L, s.1 < t2.length ∧ s.2 < t1.length) →
      L.foldl (fillStep dist t1 t2) (some (rows, nb))
        = some (rows.mapIdx (fun j r => L.foldl (stepRow dist t1 t2 j) r), nb + L.length)
  | [], rows, nb, _, _ => by
    have : rows.mapIdx (fun _ r => r) = rows := by
      apply List.ext_getElem? ; intro j; simp [List.getElem?_mapIdx]
    simp [this]
  | s :: L, rows, nb, hl, hb => by
    have hs := hb s List.mem_cons_self
    have h1 : s.2 < t1.length := hs.2
    have h2 : s.1 < t2.length := hs.1
    have hr : s.2 < rows.length := by omega
    simp only [List.foldl_cons, fillStep, List.getElem?_eq_getElem h1, List.getElem?_eq_getElem h2,
      List.getElem?_eq_getElem hr]
    rw [fill_foldl_rows dist t1 t2 L _ (nb + 1) (by simp [hl]) (fun s' hs' => hb s' (List.mem_cons_of_mem _ hs'))]
    congr 2
    · apply List.ext_getElem?
      intro j
      simp only [List.getElem?_mapIdx]
      by_cases hj : s.2 = j
      · subst hj
        simp [List.getElem?_set_self hr, List.getElem?_eq_getElem hr, stepRow, List.getElem?_eq_getElem h1,
          List.getElem?_eq_getElem h2]
      · simp [List.getElem?_set_ne hj, stepRow, hj]
    · simp only [List.length_cons]; omega

omit [Add α] [Mul α] [Div α] [LT α] [DecidableLT α] [LE α] [DecidableLE α] in
/-- a row that is visited at least once does not depend on what it held before, apart from its link list -/
theorem foldl_stepRow_congr (dist : Pt α → Pt α → α) (t1 t2 : List (Pt α)) (j : Nat) :
    ∀ (L : List (Nat × Nat)) (rA rB : Row α), (∃ s ∈ L, s.2 = j) → rA.pair = rB.pair →
      L.foldl (stepRow dist t1 t2 j) rA = L.foldl (stepRow dist t1 t2 j) rB
  | [], _, _, h, _ => by obtain ⟨s, hs, _⟩ := h; simp at hs
  | s :: L, rA, rB, h, hp => by
    simp only [List.foldl_cons]
    by_cases hj : s.2 = j
    · have : stepRow dist t1 t2 j rA s = stepRow dist t1 t2 j rB s := by simp [stepRow, hj, hp]
      rw [this]
    · have hA : stepRow dist t1 t2 j rA s = rA := by simp [stepRow, hj]
      have hB : stepRow dist t1 t2 j rB s = rB := by simp [stepRow, hj]
      rw [hA, hB]
      apply foldl_stepRow_congr dist t1 t2 j L rA rB _ hp
      obtain ⟨s', hs', hj'⟩ := h
      rcases List.mem_cons.mp hs' with e | e
      · subst e; exact absurd hj' hj
      · exact ⟨s', e, hj'⟩

omit [Div α] [LE α] [DecidableLE α] in
/-- **history is irrelevant to `_fillAF_dtw`**: when the pairs of `S` exist and every observation of track1 occurs in
one of them, a track1 that already carries `diff`/`pair`/`ex`/`ey` rows (of the right length) ends with exactly the rows,
`nb_links` and score of a track1 that carried none -/
theorem fillAFOn_eq_fillAF (dist : Pt α → Pt α → α) (t1 t2 : List (Pt α)) (rows0 : List (Row α))
    (S : List (Nat × Nat)) (score : α) (hl : rows0.length = t1.length)
    (hb : ∀ s ∈ S, s.1 < t2.length ∧ s.2 < t1.length) (hc : ∀ j, j < t1.length → ∃ i, (i, j) ∈ S) :
    fillAFOn dist t1 t2 rows0 S score = fillAF dist t1 t2 S score := by
  have hb' : ∀ s ∈ S.reverse, s.1 < t2.length ∧ s.2 < t1.length := fun s hs => hb s (List.mem_reverse.mp hs)
  unfold fillAF fillAFOn
  rw [fill_foldl_rows dist t1 t2 S.reverse _ 0 (by simp [hl]) hb',
    fill_foldl_rows dist t1 t2 S.reverse _ 0 (by simp [freshRows]) hb']
  have : (rows0.map (fun r : Row α => { r with pair := [] })).mapIdx
        (fun j r => S.reverse.foldl (stepRow dist t1 t2 j) r)
      = ((freshRows t1).map (fun r : Row α => { r with pair := [] })).mapIdx
        (fun j r => S.reverse.foldl (stepRow dist t1 t2 j) r) := by
    apply List.ext_getElem
    · simp [hl, freshRows]
    · intro j h1 h2
      simp only [List.getElem_mapIdx, List.getElem_map]
      have hj : j < t1.length := by simpa [hl] using h1
      obtain ⟨i, hi⟩ := hc j hj
      exact foldl_stepRow_congr dist t1 t2 j _ _ _ ⟨(i, j), List.mem_reverse.mpr hi, rfl⟩ rfl
  rw [this]

omit [Add α] [Mul α] [Div α] [LT α] [DecidableLT α] [LE α] [DecidableLE α] in
theorem fillAFOn_fields (dist : Pt α → Pt α → α) (t1 t2 : List (Pt α)) (rows0 : List (Row α))
    (S : List (Nat × Nat)) (score : α) (o : Out α) (h : fillAFOn dist t1 t2 rows0 S score = some o) :
    o.S = S ∧ o.score = score := by
  unfold fillAFOn at h
  split at h
  · cases Option.some.inj h; exact ⟨rfl, rfl⟩
  · cases h

end fill

section whole
variable {α : Type} [Add α] [Sub α] [Mul α] [Div α] [LinearOrder α] [OfNat α 0]

/-- a coupling of two non-empty tracks has its pairs inside the tracks and links every observation of track1 -/
theorem coupling_fill_hyps (S : List (Nat × Nat)) (n1 n2 : Nat) (h1 : 0 < n1) (h2 : 0 < n2)
    (hbp : BackPath S) (hhd : S.head? = some (n2 - 1, n1 - 1)) :
    (∀ s ∈ S, s.1 < n2 ∧ s.2 < n1) ∧ (∀ j, j < n1 → ∃ i, (i, j) ∈ S) := by
  have hb := backPath_bounds _ _ _ hbp hhd
  have hc := backPath_covers _ _ _ hbp hhd
  exact ⟨fun s hs => by have := hb s hs; omega, fun j hj => hc.2 j (by omega)⟩

omit [Div α] in
/-- `_dtw` on a track1 that carries earlier feature rows returns what it returns on a track1 without them -/
theorem dtwOn_eq_dtw (dist : Pt α → Pt α → α) (w : α → α → α) (rows0 : List (Row α)) (t1 t2 : List (Pt α))
    (hl : rows0.length = t1.length) (h1 : 0 < t1.length) (h2 : 0 < t2.length) :
    dtwOn dist w rows0 t1 t2 = dtw dist w t1 t2 := by
  have hbp := walkF_backPath w 0 (Dmat dist t1 t2) (t1.length + t2.length) (t2.length - 1) (t1.length - 1) (by omega)
  have hhd := walkF_head w 0 (Dmat dist t1 t2) (t1.length + t2.length) (t2.length - 1, t1.length - 1)
  obtain ⟨hb, hc⟩ := coupling_fill_hyps _ _ _ h1 h2 hbp hhd
  unfold dtw dtwOn
  rw [distCols_eq, dtwCore_spec w 0 _ _ _ h1 h2]
  exact fillAFOn_eq_fillAF dist t1 t2 rows0 _ _ hl hb hc

omit [Div α] in
/-- `_fdtw` on a track1 that carries earlier feature rows: when the run on a track1 without them returns a coupling, it
returns the same thing -/
theorem fdtwOn_of_fdtw (dist : Pt α → Pt α → α) (big : α) (w : α → α → α) (rows0 : List (Row α)) (t1 t2 : List (Pt α))
    (hl : rows0.length = t1.length) (h1 : 0 < t1.length) (h2 : 0 < t2.length) (o : Out α)
    (ho : fdtw dist big w t1 t2 = some o) (hbp : BackPath o.S) (hhd : o.S.head? = some (t2.length - 1, t1.length - 1)) :
    fdtwOn dist big w rows0 t1 t2 = some o := by
  obtain ⟨hb, hc⟩ := coupling_fill_hyps _ _ _ h1 h2 hbp hhd
  unfold fdtw at ho
  unfold fdtwOn at ho ⊢
  simp only [Option.bind_eq_bind] at ho ⊢
  cases hd : cellAt (distCols dist t1 t2) 0 0 with
  | none => rw [hd] at ho; simp at ho
  | some d00 =>
    rw [hd] at ho
    simp only [Option.bind_some] at ho ⊢
    cases hs : fdtwLoop big w (cellAt (distCols dist t1 t2)) t1.length t2.length (t1.length * t2.length + 1)
        { T := [((0, 0), w 0 d00)], F := [((0, 0), 0)], V := [], A := [((0, 0), (0, 0))] } with
    | none => rw [hs] at ho; simp at ho
    | some st =>
      rw [hs] at ho
      simp only [Option.bind_some] at ho ⊢
      obtain ⟨e1, e2⟩ := fillAFOn_fields dist t1 t2 _ _ _ o ho
      rw [e1] at hb hc
      rw [fillAFOn_eq_fillAF dist t1 t2 rows0 _ _ hl hb hc]
      exact ho

end whole
end TV.DTW

namespace TV.DTW
section front
variable {α : Type} [Add α] [Sub α] [Mul α] [Div α] [LT α] [LE α] [DecidableLT α] [DecidableLE α] [OfNat α 0] [OfNat α 1]

omit [Sub α] [Div α] [LE α] [DecidableLE α] in
/-- `_p2weight(p)` for a number whose type name contains `int` or `float` (Python `int` / `float`, every
`numpy.int*`, `numpy.uint*`, `numpy.float*`): the accumulation for the value of `p` -/
theorem p2weight_numeric (p : PArg) (v : PNorm) (hf : p.isFn = false) (hn : p.isNum = true) (hv : p.val = some v) :
    p2weight (α := α) p = .ok (weight v) := by
  unfold p2weight
  simp only [hf, hn, hv]
  cases v with
  | nat k => cases k <;> simp
  | inf => simp

omit [Sub α] [Div α] [LE α] [DecidableLE α] in
/-- an infinite `p` gives `max(A, B)` whatever its type -/
theorem p2weight_inf (p : PArg) (hv : p.val = some .inf) : p2weight (α := α) p = .ok (weight .inf) := by
  unfold p2weight
  simp [hv]

omit [Sub α] [Div α] [LE α] [DecidableLE α] in
/-- a `p` equal to 0 gives `A + (B != 0)*1` whatever its type -/
theorem p2weight_zero (p : PArg) (hv : p.val = some (.nat 0)) : p2weight (α := α) p = .ok (weight (.nat 0)) := by
  unfold p2weight
  simp [hv]

omit [Sub α] [Div α] [LE α] [DecidableLE α] in
/-- a callable `p` (type name contains `function`) is used as the accumulation -/
theorem p2weight_callable (p : PArg) (v : PNorm) (hf : p.isFn = true) (hn : p.isNum = false) (hw : p.fnw = some v)
    (hv : p.val = none) : p2weight (α := α) p = .ok (weight v) := by
  unfold p2weight
  simp [hf, hn, hw, hv]

omit [Sub α] [Div α] [LE α] [DecidableLE α] in
/-- any other `p` (a number different from 0 and infinity whose type name contains neither `int` nor `float` nor `function`:
`numpy.longdouble`, `numpy.longlong`, `numpy.ulonglong`, `bool`, `Fraction`, …) leaves `weight` unbound: UnboundLocalError -/
theorem p2weight_unbound (p : PArg) (hf : p.isFn = false) (hn : p.isNum = false) (h0 : p.val ≠ some (.nat 0))
    (hi : p.val ≠ some .inf) : p2weight (α := α) p = .error "err:UnboundLocalError" := by
  unfold p2weight
  simp [hf, hn, h0, hi]

omit [Sub α] [Div α] [LE α] [DecidableLE α] in
theorem p2weight_ofNorm (p : PNorm) : p2weight (α := α) (PArg.ofNorm p) = .ok (weight p) := by
  apply p2weight_numeric
  · cases p with
    | nat k => show hasSub "function".toList "<class'int'>".toList = false; decide
    | inf => decide
  · cases p with
    | nat k => show (hasSub "int".toList "<class'int'>".toList || hasSub "float".toList "<class'int'>".toList) = true; decide
    | inf => decide
  · rfl

/-! `_exponent` (1f009f6): the first line of `match` and of `compare` -/

/-- the type name of `_exponent(p)` for a numpy floating / integer scalar is that of a Python `float` / `int`: `_p2weight` takes it
for a number and not for a callable -/
theorem exponentTy_numpy (ty : String) (h : (isNpFloating ty || isNpInteger ty) = true) :
    hasSub "function".toList (exponentTy ty).toList = false ∧
    (hasSub "int".toList (exponentTy ty).toList || hasSub "float".toList (exponentTy ty).toList) = true := by
  unfold exponentTy
  cases hf : isNpFloating ty with
  | false =>
    have hi : isNpInteger ty = true := by simpa [hf] using h
    simp only [hi, if_true, Bool.false_eq_true, if_false]
    decide
  | true =>
    simp only [if_true]
    decide

/-- anything that is not a numpy floating / integer scalar is returned as it is -/
theorem exponentTy_other (ty : String) (h : (isNpFloating ty || isNpInteger ty) = false) : exponentTy ty = ty := by
  unfold exponentTy
  cases hf : isNpFloating ty with
  | false =>
    have hi : isNpInteger ty = false := by simpa [hf] using h
    simp [hi]
  | true => simp [hf] at h

/-- no numpy scalar type has `function` in its name: a callable is not touched by `_exponent` -/
theorem isNumpy_not_fn (ty : String) (h : (isNpFloating ty || isNpInteger ty) = true) :
    hasSub "function".toList ty.toList = false := by
  simp only [isNpFloating, isNpInteger, List.contains_cons, List.contains_nil, Bool.or_eq_true, beq_iff_eq, Bool.or_false] at h
  rcases h with (h | h | h | h | h | h) | (h | h | h | h | h | h | h | h | h | h | h | h | h | h) <;> (subst h; decide)

theorem PArg.isNumpy_of_isFn (p : PArg) (h : p.isFn = true) : p.isNumpy = false := by
  cases hn : p.isNumpy with
  | false => rfl
  | true =>
    have := isNumpy_not_fn p.tyname hn
    unfold PArg.isFn at h
    rw [this] at h
    cases h

theorem PArg.exponent_numpy (p : PArg) (h : p.isNumpy = true) :
    p.exponent.isFn = false ∧ p.exponent.isNum = true ∧ p.exponent.val = p.val ∧ p.exponent.fnw = p.fnw :=
  ⟨(exponentTy_numpy p.tyname h).1, (exponentTy_numpy p.tyname h).2, rfl, rfl⟩

theorem PArg.exponent_other (p : PArg) (h : p.isNumpy = false) : p.exponent = p := by
  obtain ⟨ty, v, f⟩ := p
  simp only [PArg.exponent]
  rw [exponentTy_other ty h]

/-- a Python number is not touched by `_exponent` -/
theorem PArg.exponent_ofNorm (p : PNorm) : (PArg.ofNorm p).exponent = PArg.ofNorm p := by
  cases p with
  | nat k =>
    show ({ tyname := exponentTy "<class'int'>", val := some (.nat k), fnw := none } : PArg) = _
    rfl
  | inf => rfl

theorem PArg.exponent_pyInf : PArg.pyInf.exponent = PArg.pyInf := rfl

/-- `_exponent` is idempotent -/
theorem PArg.exponent_exponent (p : PArg) : p.exponent.exponent = p.exponent := by
  cases h : p.isNumpy with
  | false => rw [PArg.exponent_other p h, PArg.exponent_other p h]
  | true =>
    obtain ⟨ty, v, f⟩ := p
    have h' : (isNpFloating ty || isNpInteger ty) = true := h
    simp only [PArg.exponent]
    congr 1
    unfold exponentTy
    cases hf : isNpFloating ty with
    | false =>
      have hi : isNpInteger ty = true := by simpa [hf] using h'
      simp only [hi, if_true, Bool.false_eq_true, if_false]
      decide
    | true =>
      simp only [if_true]
      decide

variable [Neg α] [OfScientific α]

/-- `match` on two tracks without earlier features and a Python number `p`, spelled out, for a class of positions and a
`dim` on which `_distance` is defined (`dist`): FRECHET ignores `p` -/
theorem matchTracks_unfold (G : Geom α) (big : α) (mode : Mode) (p : PNorm) (dim : DimArg α) (dist : Pt α → Pt α → α)
    (hd : distanceOf G dim = .ok dist) (t1 t2 : List (Pt α)) :
    matchTracks G big mode p dim t1 t2 =
      if t1.isEmpty then .error "err:AnalyticalFeatureError" else
      if t2.isEmpty then .error "err:index" else
      match (match mode with
        | .frechet => dtw dist (weight .inf) t1 t2
        | .dtw => dtw dist (weight p) t1 t2
        | .fdtw => fdtw dist big (weight p) t1 t2) with
      | some o => .ok o
      | none => .error "err:index" := by
  have hinf : p2weight (α := α) PArg.pyInf = .ok (weight .inf) := p2weight_inf _ rfl
  unfold matchTracks matchCall
  rw [PArg.exponent_ofNorm]
  unfold matchBody warpOn
  cases mode <;> simp [Mode.code, p2weight_ofNorm, hinf, TrackObj.fresh, dtw, fdtw, bind, Except.bind, hd] <;> rfl

/-- when `_distance` is not defined for this class of positions and this `dim` (`GeoCoords` / `ECEFCoords` have no `U`,
`ECEFCoords` no `distance2DTo`), `match` on two non-empty tracks raises what the first call of `_distance` raises -/
theorem matchBody_distance_error (G : Geom α) (big : α) (mode : Nat) (hm : mode = 2 ∨ mode = 3 ∨ mode = 4) (p : PArg)
    (w : α → α → α) (hp : p2weight (α := α) p = .ok w) (dim : DimArg α) (e : String) (hd : distanceOf G dim = .error e)
    (a : TrackObj α) (t2 : List (Pt α)) (h1 : a.pts.isEmpty = false) (h2 : t2.isEmpty = false) :
    matchBody G big mode p dim a t2 = .error e := by
  have hinf : p2weight (α := α) PArg.pyInf = .ok (weight .inf) := p2weight_inf _ rfl
  unfold matchBody warpOn
  rcases hm with h | h | h <;> subst h <;> simp [hp, hinf, bind, Except.bind, h1, h2, hd]

/-- the same of `match` as called: `_p2weight` sees `_exponent(p)` -/
theorem matchCall_distance_error (G : Geom α) (big : α) (mode : Nat) (hm : mode = 2 ∨ mode = 3 ∨ mode = 4) (p : PArg)
    (w : α → α → α) (hp : p2weight (α := α) p.exponent = .ok w) (dim : DimArg α) (e : String) (hd : distanceOf G dim = .error e)
    (a : TrackObj α) (t2 : List (Pt α)) (h1 : a.pts.isEmpty = false) (h2 : t2.isEmpty = false) :
    matchCall G big mode p dim a t2 = .error e :=
  matchBody_distance_error G big mode hm p.exponent w hp dim e hd a t2 h1 h2

end front
end TV.DTW

namespace TV.DTW

/-- a coupling from `(i, j)` down to `(0,0)` has between `max i j + 1` and `i + j + 1` links -/
theorem backPath_length : ∀ (S : List (Nat × Nat)) (i j : Nat), BackPath S → S.head? = some (i, j) →
    i + 1 ≤ S.length ∧ j + 1 ≤ S.length ∧ S.length ≤ i + j + 1
  | [], _, _, h, _ => by simp [BackPath] at h
  | [s], i, j, h, hh => by
    simp only [BackPath] at h
    simp only [List.head?_cons, Option.some.injEq] at hh
    subst h
    cases hh
    simp
  | a :: b :: rest, i, j, h, hh => by
    simp only [BackPath] at h
    simp only [List.head?_cons, Option.some.injEq] at hh
    subst hh
    obtain ⟨b1, b2⟩ := b
    have ih := backPath_length ((b1, b2) :: rest) b1 b2 h.2 rfl
    have hst := h.1
    unfold IsStep at hst
    simp only at hst
    simp only [List.length_cons] at ih ⊢
    omega

section history
variable {α : Type} [Add α] [Sub α] [Mul α] [Div α] [Neg α] [LinearOrder α] [OfNat α 0] [OfNat α 1] [OfScientific α]

/-- the plain variant on a track1 that carries earlier feature rows: same result as on a track1 without them -/
theorem warpOn_history (G : Geom α) (big : α) (p : PArg) (dim : DimArg α) (t1 t2 : List (Pt α)) (rows0 : List (Row α))
    (hl : rows0.length = t1.length) (h1 : 0 < t1.length) (h2 : 0 < t2.length) :
    warpOn G big false p dim { pts := t1, rows := rows0 } t2 = warpOn G big false p dim (TrackObj.fresh t1) t2 := by
  unfold warpOn
  cases p2weight (α := α) p with
  | error e => rfl
  | ok w =>
    simp only [bind, Except.bind, TrackObj.fresh, Bool.false_eq_true, if_false]
    cases distanceOf G dim with
    | error e => rfl
    | ok dist =>
      simp only []
      rw [dtwOn_eq_dtw dist w rows0 t1 t2 hl h1 h2, dtwOn_eq_dtw dist w (freshRows t1) t1 t2 (by simp [freshRows]) h1 h2]

/-- `match` in the modes DTW and FRECHET (and with any constant that is not a matching mode) on a track1 that carries
earlier feature rows: same result as on a track1 without them -/
theorem matchBody_history (G : Geom α) (big : α) (mode : Nat) (hm : mode ≠ 3) (p : PArg) (dim : DimArg α)
    (t1 t2 : List (Pt α)) (rows0 : List (Row α)) (hl : rows0.length = t1.length) (h1 : 0 < t1.length) (h2 : 0 < t2.length) :
    matchBody G big mode p dim { pts := t1, rows := rows0 } t2 = matchBody G big mode p dim (TrackObj.fresh t1) t2 := by
  unfold matchBody
  by_cases m1 : mode = 1
  · simp [m1]
  · by_cases m4 : mode = 4
    · simp only [m1, m4, if_true, if_false]
      exact warpOn_history G big _ dim t1 t2 rows0 hl h1 h2
    · by_cases m2 : mode = 2
      · simp only [m1, m4, m2, if_true, if_false]
        exact warpOn_history G big _ dim t1 t2 rows0 hl h1 h2
      · simp [m1, m4, m2, hm]

/-- `compare` in the modes DTW and FRECHET on a track1 that carries earlier feature rows: same value -/
theorem compareBody_history (G : Geom α) (root : Nat → α → α) (ofNat : Nat → α) (big : α) (mode : Nat) (hm : mode ≠ 107)
    (p : PArg) (dim : DimArg α) (t1 t2 : List (Pt α)) (rows0 : List (Row α)) (hl : rows0.length = t1.length)
    (h1 : 0 < t1.length) (h2 : 0 < t2.length) :
    compareBody G root ofNat big mode p dim { pts := t1, rows := rows0 } t2
      = compareBody G root ofNat big mode p dim (TrackObj.fresh t1) t2 := by
  unfold compareBody
  split
  · rfl
  · by_cases m8 : mode = 108
    · simp only [m8, if_true]
      unfold warpCompare
      rw [warpOn_history G big _ dim t1 t2 rows0 hl h1 h2]
    · by_cases m6 : mode = 106
      · rw [if_neg m8, if_pos m6, if_neg m8, if_pos m6]
        unfold warpCompare
        rw [warpOn_history G big _ dim t1 t2 rows0 hl h1 h2]
      · simp [m8, m6, hm]

/-- the track that the plain variant returns has one feature row per observation of track1 -/
theorem warpOn_rows_length (G : Geom α) (big : α) (p : PArg) (dim : DimArg α) (t1 t2 : List (Pt α))
    (h1 : 0 < t1.length) (h2 : 0 < t2.length) (o : Out α)
    (h : warpOn G big false p dim (TrackObj.fresh t1) t2 = .ok o) : o.rows.length = t1.length := by
  unfold warpOn at h
  have hne : t1.isEmpty = false := by cases t1 with | nil => simp at h1 | cons _ _ => rfl
  have hne2 : t2.isEmpty = false := by cases t2 with | nil => simp at h2 | cons _ _ => rfl
  cases hp : p2weight (α := α) p with
  | error e => rw [hp] at h; cases h
  | ok w =>
    rw [hp] at h
    cases hd : distanceOf G dim with
    | error e =>
      rw [hd] at h
      simp [bind, Except.bind, TrackObj.fresh, hne, hne2] at h
    | ok dist =>
      rw [hd] at h
      obtain ⟨rows, he, hlen, _⟩ := dtw_spec dist w t1 t2 h1 h2
      have he' : dtwOn dist w (freshRows t1) t1 t2 = some _ := he
      simp only [bind, Except.bind, TrackObj.fresh, Bool.false_eq_true, if_false, hne, hne2, he'] at h
      cases h
      exact hlen

theorem matchBody_rows_length (G : Geom α) (big : α) (mode : Nat) (hm : mode ≠ 3) (p : PArg) (dim : DimArg α)
    (t1 t2 : List (Pt α)) (h1 : 0 < t1.length) (h2 : 0 < t2.length) (o : Out α)
    (h : matchBody G big mode p dim (TrackObj.fresh t1) t2 = .ok o) : o.rows.length = t1.length := by
  unfold matchBody at h
  by_cases m1 : mode = 1
  · simp [m1] at h
  · by_cases m4 : mode = 4
    · simp only [m1, m4, if_true, if_false] at h
      exact warpOn_rows_length G big _ dim t1 t2 h1 h2 o h
    · by_cases m2 : mode = 2
      · simp only [m1, m4, m2, if_true, if_false] at h
        exact warpOn_rows_length G big _ dim t1 t2 h1 h2 o h
      · simp [m1, m4, m2, hm] at h

/-! the same of `match` / `compare` as called (`p = _exponent(p)` first) -/

theorem matchCall_history (G : Geom α) (big : α) (mode : Nat) (hm : mode ≠ 3) (p : PArg) (dim : DimArg α)
    (t1 t2 : List (Pt α)) (rows0 : List (Row α)) (hl : rows0.length = t1.length) (h1 : 0 < t1.length) (h2 : 0 < t2.length) :
    matchCall G big mode p dim { pts := t1, rows := rows0 } t2 = matchCall G big mode p dim (TrackObj.fresh t1) t2 :=
  matchBody_history G big mode hm p.exponent dim t1 t2 rows0 hl h1 h2

theorem compareCall_history (G : Geom α) (root : Nat → α → α) (ofNat : Nat → α) (big : α) (mode : Nat) (hm : mode ≠ 107)
    (p : PArg) (dim : DimArg α) (t1 t2 : List (Pt α)) (rows0 : List (Row α)) (hl : rows0.length = t1.length)
    (h1 : 0 < t1.length) (h2 : 0 < t2.length) :
    compareCall G root ofNat big mode p dim { pts := t1, rows := rows0 } t2
      = compareCall G root ofNat big mode p dim (TrackObj.fresh t1) t2 :=
  compareBody_history G root ofNat big mode hm p.exponent dim t1 t2 rows0 hl h1 h2

theorem matchCall_rows_length (G : Geom α) (big : α) (mode : Nat) (hm : mode ≠ 3) (p : PArg) (dim : DimArg α)
    (t1 t2 : List (Pt α)) (h1 : 0 < t1.length) (h2 : 0 < t2.length) (o : Out α)
    (h : matchCall G big mode p dim (TrackObj.fresh t1) t2 = .ok o) : o.rows.length = t1.length :=
  matchBody_rows_length G big mode hm p.exponent dim t1 t2 h1 h2 o h

end history
end TV.DTW

/-! ### reading the links back from the returned track -/
namespace TV.DTW

/-- the links as a user reads them from the returned track: for observation `j = 0, 1, …` of track1 in turn, the pairs
`(i, j)` for the `i` of its `pair` list in order (`[(i, j) for j, l in enumerate(pairs) for i in l]`) -/
def readBack {α : Type} (rows : List (Row α)) : List (Nat × Nat) :=
  (List.range rows.length).flatMap (fun j => (((rows[j]?).map (·.pair)).getD []).map (fun i => (i, j)))

theorem flatMap_congr' {β γ : Type} : ∀ (l : List β) (f g : β → List γ), (∀ a ∈ l, f a = g a) → l.flatMap f = l.flatMap g
  | [], _, _, _ => rfl
  | a :: l, f, g, h => by
    simp only [List.flatMap_cons]
    rw [h a List.mem_cons_self, flatMap_congr' l f g (fun b hb => h b (List.mem_cons_of_mem _ hb))]

/-- a list sorted by second component with second components `≤ n` splits at `n` -/
theorem filter_split (n : Nat) : ∀ (L : List (Nat × Nat)), L.Pairwise (fun a b => a.2 ≤ b.2) → (∀ s ∈ L, s.2 ≤ n) →
    L = L.filter (fun s => decide (s.2 < n)) ++ L.filter (fun s => s.2 == n)
  | [], _, _ => by simp
  | a :: L, hp, hb => by
    have hpa := (List.pairwise_cons.mp hp)
    have ih := filter_split n L hpa.2 (fun s hs => hb s (List.mem_cons_of_mem _ hs))
    by_cases ha : a.2 < n
    · have hne : (a.2 == n) = false := by simp; omega
      simp only [List.filter_cons, ha, decide_true, if_true, hne, Bool.false_eq_true, if_false, List.cons_append]
      rw [← ih]
    · have han : a.2 = n := by have := hb a List.mem_cons_self; omega
      have hall : ∀ s ∈ L, s.2 = n := by
        intro s hs
        have h1 := hpa.1 s hs
        have h2 := hb s (List.mem_cons_of_mem _ hs)
        omega
      have hf1 : L.filter (fun s => decide (s.2 < n)) = [] := by
        apply List.filter_eq_nil_iff.mpr
        intro s hs; have := hall s hs; simp; omega
      have hf2 : L.filter (fun s => s.2 == n) = L := by
        apply List.filter_eq_self.mpr
        intro s hs; simp [hall s hs]
      have hd : decide (a.2 < n) = false := by simp; omega
      have he : (a.2 == n) = true := by simp [han]
      simp only [List.filter_cons, hd, he, Bool.false_eq_true, if_false, if_true, hf1, hf2, List.nil_append]

/-- grouping a list sorted by second component by the values `0, 1, …, n-1` of that component gives the list back -/
theorem flatMap_filter_sorted : ∀ (n : Nat) (L : List (Nat × Nat)), L.Pairwise (fun a b => a.2 ≤ b.2) → (∀ s ∈ L, s.2 < n) →
    (List.range n).flatMap (fun j => L.filter (fun s => s.2 == j)) = L
  | 0, L, _, hb => by
    cases L with
    | nil => simp
    | cons a L => have := hb a List.mem_cons_self; omega
  | n+1, L, hp, hb => by
    have hsplit := filter_split n L hp (fun s hs => by have := hb s hs; omega)
    have ih := flatMap_filter_sorted n (L.filter (fun s => decide (s.2 < n))) (hp.filter _)
      (fun s hs => by simpa using (List.mem_filter.mp hs).2)
    rw [List.range_succ, List.flatMap_append]
    simp only [List.flatMap_cons, List.flatMap_nil, List.append_nil]
    have hcongr : (List.range n).flatMap (fun j => L.filter (fun s => s.2 == j))
        = (List.range n).flatMap (fun j => (L.filter (fun s => decide (s.2 < n))).filter (fun s => s.2 == j)) := by
      apply flatMap_congr'
      intro j hj
      have hjn : j < n := List.mem_range.mp hj
      rw [List.filter_filter]
      apply List.filter_congr
      intro s _
      by_cases h : s.2 = j
      · simp [h, hjn]
      · simp [h]
    rw [hcongr, ih]
    exact hsplit.symm

/-- along a coupling (last pair first) the track1 index never increases -/
theorem backPath_sorted : ∀ (S : List (Nat × Nat)), BackPath S → S.Pairwise (fun a b => b.2 ≤ a.2)
  | [], h => by simp [BackPath] at h
  | [s], _ => by simp
  | a :: b :: rest, h => by
    simp only [BackPath] at h
    have ih := backPath_sorted (b :: rest) h.2
    have hb := backPath_bounds (b :: rest) b.1 b.2 h.2 rfl
    have hst := h.1
    unfold IsStep at hst
    refine List.pairwise_cons.mpr ⟨?_, ih⟩
    intro s hs
    have := (hb s hs).2
    omega

/-- **what a user reads back**: when the `pair` list of every observation `j` holds the partners that the coupling `S`
gives it, in coupling order, reading the links observation by observation gives exactly the coupling, first pair first;
in particular the number of stored links is `S.length` -/
theorem readBack_eq {α : Type} (S : List (Nat × Nat)) (n1 n2 : Nat) (rows : List (Row α))
    (hbp : BackPath S) (hhd : S.head? = some (n2 - 1, n1 - 1)) (h1 : 0 < n1) (hl : rows.length = n1)
    (hp : ∀ j, j < n1 → (rows[j]?).map (·.pair) = some (partners S.reverse j)) :
    readBack rows = S.reverse := by
  have hb := backPath_bounds _ _ _ hbp hhd
  have hsorted : S.reverse.Pairwise (fun a b => a.2 ≤ b.2) := List.pairwise_reverse.mpr (backPath_sorted S hbp)
  have hlt : ∀ s ∈ S.reverse, s.2 < n1 := fun s hs => by have := (hb s (List.mem_reverse.mp hs)).2; omega
  rw [← flatMap_filter_sorted n1 S.reverse hsorted hlt]
  unfold readBack
  rw [hl]
  apply flatMap_congr'
  intro j hj
  rw [hp j (List.mem_range.mp hj)]
  simp only [Option.getD_some, partners, List.map_map]
  conv => rhs; rw [← List.map_id (List.filter (fun s => s.2 == j) S.reverse)]
  apply List.map_congr_left
  intro s hs
  have : s.2 = j := by simpa using (List.mem_filter.mp hs).2
  simp [← this]

end TV.DTW

/-! ### the rows of the returned track, field by field -/
namespace TV.DTW
section feat
variable {α : Type} [Add α] [Sub α] [Mul α] [Div α] [LT α] [LE α] [DecidableLT α] [DecidableLE α] [OfNat α 0]

/-- the row that `_fillAF_dtw` writes for observation `j` when its last partner is `i` -/
def rowFor (dist : Pt α → Pt α → α) (t1 t2 : List (Pt α)) (j i : Nat) (pair : List Nat) : Row α :=
  { diff := some (dist (t1[j]?.getD ⟨0, 0, 0⟩) (t2[i]?.getD ⟨0, 0, 0⟩)), pair := pair,
    ex := some ((t1[j]?.getD ⟨0, 0, 0⟩).x - (t2[i]?.getD ⟨0, 0, 0⟩).x),
    ey := some ((t1[j]?.getD ⟨0, 0, 0⟩).y - (t2[i]?.getD ⟨0, 0, 0⟩).y) }

omit [Add α] [Mul α] [Div α] [LT α] [DecidableLT α] [LE α] [DecidableLE α] in
/-- row `j` after the loop: untouched when no pair concerns it; otherwise `diff`, `ex`, `ey` are those of its **last**
partner in visiting order and the link list has grown by all its partners, in order -/
theorem foldl_stepRow_last (dist : Pt α → Pt α → α) (t1 t2 : List (Pt α)) (j : Nat) :
    ∀ (L : List (Nat × Nat)) (r : Row α),
      L.foldl (stepRow dist t1 t2 j) r =
        match (partners L j).getLast? with
        | none => r
        | some i => rowFor dist t1 t2 j i (r.pair ++ partners L j)
  | [], r => by simp [partners]
  | s :: L, r => by
    simp only [List.foldl_cons]
    rw [foldl_stepRow_last dist t1 t2 j L]
    by_cases hj : s.2 = j
    · have hp : partners (s :: L) j = s.1 :: partners L j := by simp [partners, hj]
      rw [hp]
      cases hl : (partners L j).getLast? with
      | none =>
        have : partners L j = [] := List.getLast?_eq_none_iff.mp hl
        simp [this, stepRow, hj, rowFor]
      | some i =>
        have : (s.1 :: partners L j).getLast? = some i := by
          rw [List.getLast?_cons, hl]; rfl
        simp [this, stepRow, hj, rowFor]
    · have hp : partners (s :: L) j = partners L j := by simp [partners, hj]
      rw [hp]
      simp [stepRow, hj]

end feat
end TV.DTW

namespace TV.DTW
section feat2
variable {α : Type} [Add α] [Sub α] [Mul α] [Div α] [LT α] [LE α] [DecidableLT α] [DecidableLE α] [OfNat α 0]

omit [Div α] [LE α] [DecidableLE α] in
/-- `_fillAF_dtw` on pairs that exist, with every row spelled out -/
theorem fillAF_rows (dist : Pt α → Pt α → α) (t1 t2 : List (Pt α)) (S : List (Nat × Nat)) (score : α)
    (hb : ∀ s ∈ S, s.1 < t2.length ∧ s.2 < t1.length) :
    fillAF dist t1 t2 S score = some (Out.mk score S
      ((t1.map (fun _ => ({} : Row α))).mapIdx (fun j r => S.reverse.foldl (stepRow dist t1 t2 j) r)) S.length) := by
  have h0 : (freshRows t1).map (fun r : Row α => { r with pair := [] }) = t1.map (fun _ => {}) := by
    simp [freshRows]
  unfold fillAF fillAFOn
  rw [h0, fill_foldl_rows dist t1 t2 S.reverse _ 0 (by simp) (fun s hs => hb s (List.mem_reverse.mp hs))]
  simp

end feat2
end TV.DTW
