import TracklibVerif.Lemmas.DTWTable
/-! What `_fillAF_dtw` leaves on the returned track, row by row; a track1 that already carries the features of an
earlier matching gives the same result as a track1 without them (`fillAFOn_eq_fillAF`, `dtwOn_eq_dtw`, `fdtwOn_of_fdtw`). -/
set_option linter.unusedSimpArgs false
namespace TV.DTW

section fill
variable {α : Type} [Add α] [Sub α] [Mul α] [Div α] [LT α] [LE α] [DecidableLT α] [DecidableLE α] [OfNat α 0]

/-- what one iteration of `_fillAF_dtw` (pair `s`) does to the row of observation `j` -/
def stepRow (sqrt : α → α) (dim : Nat) (t1 t2 : List (Pt α)) (j : Nat) (r : Row α) (s : Nat × Nat) : Row α :=
  if s.2 = j then
    { diff := some (distance sqrt dim (t1[s.2]?.getD ⟨0, 0, 0⟩) (t2[s.1]?.getD ⟨0, 0, 0⟩)), pair := r.pair ++ [s.1],
      ex := some ((t1[s.2]?.getD ⟨0, 0, 0⟩).x - (t2[s.1]?.getD ⟨0, 0, 0⟩).x),
      ey := some ((t1[s.2]?.getD ⟨0, 0, 0⟩).y - (t2[s.1]?.getD ⟨0, 0, 0⟩).y) }
  else r

omit [Div α] [LE α] [DecidableLE α] in
/-- the loop of `_fillAF_dtw`, row by row: row `j` is the fold of `stepRow j` over the pairs visited -/
theorem fill_foldl_rows (sqrt : α → α) (dim : Nat) (t1 t2 : List (Pt α)) :
    ∀ (L : List (Nat × Nat)) (rows : List (Row α)) (nb : Nat), rows.length = t1.length →
      (∀ s ∈ L, s.1 < t2.length ∧ s.2 < t1.length) →
      L.foldl (fillStep sqrt dim t1 t2) (some (rows, nb))
        = some (rows.mapIdx (fun j r => L.foldl (stepRow sqrt dim t1 t2 j) r), nb + L.length)
  | [], rows, nb, _, _ => by
    have : rows.mapIdx (fun _ r => r) = rows := by
      apply List.ext_getElem? ; intro j; simp [List.getElem?_mapIdx]
    simp [this]
  | s :: L, rows, nb, hl, hb => by
    have hs := hb s List.mem_cons_self
    have h1 : s.2 < t1.length := hs.2
    have h2 : s.1 < t2.length := hs.1
    have hr : s.2 < rows.length := by omega
    simp only [List.foldl_cons, fillStep, List.getElem?_eq_getElem h1, List.getElem?_eq_getElem h2,
      List.getElem?_eq_getElem hr]
    rw [fill_foldl_rows sqrt dim t1 t2 L _ (nb + 1) (by simp [hl]) (fun s' hs' => hb s' (List.mem_cons_of_mem _ hs'))]
    congr 2
    · apply List.ext_getElem?
      intro j
      simp only [List.getElem?_mapIdx]
      by_cases hj : s.2 = j
      · subst hj
        simp [List.getElem?_set_self hr, List.getElem?_eq_getElem hr, stepRow, List.getElem?_eq_getElem h1,
          List.getElem?_eq_getElem h2]
      · simp [List.getElem?_set_ne hj, stepRow, hj]
    · simp only [List.length_cons]; omega

omit [Div α] [LE α] [DecidableLE α] in
/-- a row that is visited at least once does not depend on what it held before, apart from its link list -/
theorem foldl_stepRow_congr (sqrt : α → α) (dim : Nat) (t1 t2 : List (Pt α)) (j : Nat) :
    ∀ (L : List (Nat × Nat)) (rA rB : Row α), (∃ s ∈ L, s.2 = j) → rA.pair = rB.pair →
      L.foldl (stepRow sqrt dim t1 t2 j) rA = L.foldl (stepRow sqrt dim t1 t2 j) rB
  | [], _, _, h, _ => by obtain ⟨s, hs, _⟩ := h; simp at hs
  | s :: L, rA, rB, h, hp => by
    simp only [List.foldl_cons]
    by_cases hj : s.2 = j
    · have : stepRow sqrt dim t1 t2 j rA s = stepRow sqrt dim t1 t2 j rB s := by simp [stepRow, hj, hp]
      rw [this]
    · have hA : stepRow sqrt dim t1 t2 j rA s = rA := by simp [stepRow, hj]
      have hB : stepRow sqrt dim t1 t2 j rB s = rB := by simp [stepRow, hj]
      rw [hA, hB]
      apply foldl_stepRow_congr sqrt dim t1 t2 j L rA rB _ hp
      obtain ⟨s', hs', hj'⟩ := h
      rcases List.mem_cons.mp hs' with e | e
      · subst e; exact absurd hj' hj
      · exact ⟨s', e, hj'⟩

omit [Div α] [LE α] [DecidableLE α] in
/-- **history is irrelevant to `_fillAF_dtw`**: when the pairs of `S` exist and every observation of track1 occurs in
one of them, a track1 that already carries `diff`/`pair`/`ex`/`ey` rows (of the right length) ends with exactly the rows,
`nb_links` and score of a track1 that carried none -/
theorem fillAFOn_eq_fillAF (sqrt : α → α) (dim : Nat) (t1 t2 : List (Pt α)) (rows0 : List (Row α))
    (S : List (Nat × Nat)) (score : α) (hl : rows0.length = t1.length)
    (hb : ∀ s ∈ S, s.1 < t2.length ∧ s.2 < t1.length) (hc : ∀ j, j < t1.length → ∃ i, (i, j) ∈ S) :
    fillAFOn sqrt dim t1 t2 rows0 S score = fillAF sqrt dim t1 t2 S score := by
  have hb' : ∀ s ∈ S.reverse, s.1 < t2.length ∧ s.2 < t1.length := fun s hs => hb s (List.mem_reverse.mp hs)
  unfold fillAF fillAFOn
  rw [fill_foldl_rows sqrt dim t1 t2 S.reverse _ 0 (by simp [hl]) hb',
    fill_foldl_rows sqrt dim t1 t2 S.reverse _ 0 (by simp [freshRows]) hb']
  have : (rows0.map (fun r : Row α => { r with pair := [] })).mapIdx
        (fun j r => S.reverse.foldl (stepRow sqrt dim t1 t2 j) r)
      = ((freshRows t1).map (fun r : Row α => { r with pair := [] })).mapIdx
        (fun j r => S.reverse.foldl (stepRow sqrt dim t1 t2 j) r) := by
    apply List.ext_getElem
    · simp [hl, freshRows]
    · intro j h1 h2
      simp only [List.getElem_mapIdx, List.getElem_map]
      have hj : j < t1.length := by simpa [hl] using h1
      obtain ⟨i, hi⟩ := hc j hj
      exact foldl_stepRow_congr sqrt dim t1 t2 j _ _ _ ⟨(i, j), List.mem_reverse.mpr hi, rfl⟩ rfl
  rw [this]

omit [Div α] [LE α] [DecidableLE α] in
theorem fillAFOn_fields (sqrt : α → α) (dim : Nat) (t1 t2 : List (Pt α)) (rows0 : List (Row α))
    (S : List (Nat × Nat)) (score : α) (o : Out α) (h : fillAFOn sqrt dim t1 t2 rows0 S score = some o) :
    o.S = S ∧ o.score = score := by
  unfold fillAFOn at h
  split at h
  · cases Option.some.inj h; exact ⟨rfl, rfl⟩
  · cases h

end fill

section whole
variable {α : Type} [Add α] [Sub α] [Mul α] [Div α] [LinearOrder α] [OfNat α 0]

/-- a coupling of two non-empty tracks has its pairs inside the tracks and links every observation of track1 -/
theorem coupling_fill_hyps (S : List (Nat × Nat)) (n1 n2 : Nat) (h1 : 0 < n1) (h2 : 0 < n2)
    (hbp : BackPath S) (hhd : S.head? = some (n2 - 1, n1 - 1)) :
    (∀ s ∈ S, s.1 < n2 ∧ s.2 < n1) ∧ (∀ j, j < n1 → ∃ i, (i, j) ∈ S) := by
  have hb := backPath_bounds _ _ _ hbp hhd
  have hc := backPath_covers _ _ _ hbp hhd
  exact ⟨fun s hs => by have := hb s hs; omega, fun j hj => hc.2 j (by omega)⟩

omit [Div α] in
/-- `_dtw` on a track1 that carries earlier feature rows returns what it returns on a track1 without them -/
theorem dtwOn_eq_dtw (sqrt : α → α) (w : α → α → α) (dim : Nat) (rows0 : List (Row α)) (t1 t2 : List (Pt α))
    (hl : rows0.length = t1.length) (h1 : 0 < t1.length) (h2 : 0 < t2.length) :
    dtwOn sqrt w dim rows0 t1 t2 = dtw sqrt w dim t1 t2 := by
  have hbp := walkF_backPath w 0 (Dmat sqrt dim t1 t2) (t1.length + t2.length) (t2.length - 1) (t1.length - 1) (by omega)
  have hhd := walkF_head w 0 (Dmat sqrt dim t1 t2) (t1.length + t2.length) (t2.length - 1, t1.length - 1)
  obtain ⟨hb, hc⟩ := coupling_fill_hyps _ _ _ h1 h2 hbp hhd
  unfold dtw dtwOn
  rw [distCols_eq, dtwCore_spec w 0 _ _ _ h1 h2]
  exact fillAFOn_eq_fillAF sqrt dim t1 t2 rows0 _ _ hl hb hc

omit [Div α] in
/-- `_fdtw` on a track1 that carries earlier feature rows: when the run on a track1 without them returns a coupling, it
returns the same thing -/
theorem fdtwOn_of_fdtw (sqrt : α → α) (big : α) (w : α → α → α) (dim : Nat) (rows0 : List (Row α)) (t1 t2 : List (Pt α))
    (hl : rows0.length = t1.length) (h1 : 0 < t1.length) (h2 : 0 < t2.length) (o : Out α)
    (ho : fdtw sqrt big w dim t1 t2 = some o) (hbp : BackPath o.S) (hhd : o.S.head? = some (t2.length - 1, t1.length - 1)) :
    fdtwOn sqrt big w dim rows0 t1 t2 = some o := by
  obtain ⟨hb, hc⟩ := coupling_fill_hyps _ _ _ h1 h2 hbp hhd
  unfold fdtw at ho
  unfold fdtwOn at ho ⊢
  simp only [Option.bind_eq_bind] at ho ⊢
  cases hd : cellAt (distCols sqrt dim t1 t2) 0 0 with
  | none => rw [hd] at ho; simp at ho
  | some d00 =>
    rw [hd] at ho
    simp only [Option.bind_some] at ho ⊢
    cases hs : fdtwLoop big w (cellAt (distCols sqrt dim t1 t2)) t1.length t2.length (t1.length * t2.length + 1)
        { T := [((0, 0), w 0 d00)], F := [((0, 0), 0)], V := [], A := [((0, 0), (0, 0))] } with
    | none => rw [hs] at ho; simp at ho
    | some st =>
      rw [hs] at ho
      simp only [Option.bind_some] at ho ⊢
      obtain ⟨e1, e2⟩ := fillAFOn_fields sqrt dim t1 t2 _ _ _ o ho
      rw [e1] at hb hc
      rw [fillAFOn_eq_fillAF sqrt dim t1 t2 rows0 _ _ hl hb hc]
      exact ho

end whole
end TV.DTW

namespace TV.DTW
section front
variable {α : Type} [Add α] [Sub α] [Mul α] [Div α] [LT α] [LE α] [DecidableLT α] [DecidableLE α] [OfNat α 0] [OfNat α 1]

omit [Sub α] [Div α] [LE α] [DecidableLE α] in
/-- `_p2weight(p)` for a number whose type name contains `int` or `float` (Python `int` / `float`, every
`numpy.int*`, `numpy.uint*`, `numpy.float*`): the accumulation for the value of `p` -/
theorem p2weight_numeric (p : PArg) (v : PNorm) (hf : p.isFn = false) (hn : p.isNum = true) (hv : p.val = some v) :
    p2weight (α := α) p = .ok (weight v) := by
  unfold p2weight
  simp only [hf, hn, hv]
  cases v with
  | nat k => cases k <;> simp
  | inf => simp

omit [Sub α] [Div α] [LE α] [DecidableLE α] in
/-- an infinite `p` gives `max(A, B)` whatever its type -/
theorem p2weight_inf (p : PArg) (hv : p.val = some .inf) : p2weight (α := α) p = .ok (weight .inf) := by
  unfold p2weight
  simp [hv]

omit [Sub α] [Div α] [LE α] [DecidableLE α] in
/-- a `p` equal to 0 gives `A + (B != 0)*1` whatever its type -/
theorem p2weight_zero (p : PArg) (hv : p.val = some (.nat 0)) : p2weight (α := α) p = .ok (weight (.nat 0)) := by
  unfold p2weight
  simp [hv]

omit [Sub α] [Div α] [LE α] [DecidableLE α] in
/-- a callable `p` (type name contains `function`) is used as the accumulation -/
theorem p2weight_callable (p : PArg) (v : PNorm) (hf : p.isFn = true) (hn : p.isNum = false) (hw : p.fnw = some v)
    (hv : p.val = none) : p2weight (α := α) p = .ok (weight v) := by
  unfold p2weight
  simp [hf, hn, hw, hv]

omit [Sub α] [Div α] [LE α] [DecidableLE α] in
/-- any other `p` (a number different from 0 and infinity whose type name contains neither `int` nor `float` nor `function`:
`numpy.longdouble`, `numpy.longlong`, `numpy.ulonglong`, `bool`, `Fraction`, …) leaves `weight` unbound: UnboundLocalError -/
theorem p2weight_unbound (p : PArg) (hf : p.isFn = false) (hn : p.isNum = false) (h0 : p.val ≠ some (.nat 0))
    (hi : p.val ≠ some .inf) : p2weight (α := α) p = .error "err:UnboundLocalError" := by
  unfold p2weight
  simp [hf, hn, h0, hi]

omit [Sub α] [Div α] [LE α] [DecidableLE α] in
theorem p2weight_ofNorm (p : PNorm) : p2weight (α := α) (PArg.ofNorm p) = .ok (weight p) := by
  apply p2weight_numeric
  · cases p with
    | nat k => show hasSub "function".toList "<class'int'>".toList = false; decide
    | inf => decide
  · cases p with
    | nat k => show (hasSub "int".toList "<class'int'>".toList || hasSub "float".toList "<class'int'>".toList) = true; decide
    | inf => decide
  · rfl

omit [Div α] in
/-- `match` on two tracks without earlier features and a Python number `p`, spelled out: FRECHET ignores `p` -/
theorem matchTracks_unfold (sqrt : α → α) (big : α) (mode : Mode) (p : PNorm) (dim : Nat) (t1 t2 : List (Pt α)) :
    matchTracks sqrt big mode p dim t1 t2 =
      if t1.isEmpty then .error "err:AnalyticalFeatureError" else
      match (match mode with
        | .frechet => dtw sqrt (weight .inf) dim t1 t2
        | .dtw => dtw sqrt (weight p) dim t1 t2
        | .fdtw => fdtw sqrt big (weight p) dim t1 t2) with
      | some o => .ok o
      | none => .error "err:index" := by
  have hinf : p2weight (α := α) PArg.pyInf = .ok (weight .inf) := p2weight_inf _ rfl
  unfold matchTracks matchCall warpOn
  cases mode <;> simp [Mode.code, p2weight_ofNorm, hinf, TrackObj.fresh, dtw, fdtw, bind, Except.bind] <;> rfl

end front
end TV.DTW
