import TracklibVerif.Model.Partition
/-! The table form of `optimalPartition` (in-place `D`/`M` tables filled by increasing diagonals) computes
the function form `opt` (core Lean only, no order or algebra needed: both forms perform the same
comparisons and additions). -/
namespace TV.Partition
variable {α : Type}

/-! ### the scan -/

theorem scan_congr (b : α → α → Bool) (f g : Nat → α) (lo n : Nat) (acc : α × Option Nat)
    (h : ∀ k, lo ≤ k → k < lo + n → f k = g k) : scan b f lo n acc = scan b g lo n acc := by
  induction n with
  | zero => rfl
  | succ n ih =>
    simp only [scan]
    rw [ih (fun k h1 h2 => h k h1 (by omega)), h (lo + n) (by omega) (by omega)]

/-- where the scan's value comes from: the start value (index unchanged) or `f k` for the recorded `k` in range -/
theorem scan_arg (b : α → α → Bool) (f : Nat → α) (lo n : Nat) (acc : α × Option Nat) :
    (scan b f lo n acc = acc) ∨
    ∃ k, lo ≤ k ∧ k < lo + n ∧ scan b f lo n acc = (f k, some k) := by
  induction n with
  | zero => exact Or.inl rfl
  | succ n ih =>
    simp only [scan]
    cases hb : b (f (lo + n)) (scan b f lo n acc).1 with
    | true => simp only [if_true]; exact Or.inr ⟨lo + n, by omega, by omega, rfl⟩
    | false =>
      simp only [Bool.false_eq_true, if_false]
      rcases ih with h | ⟨k, h1, h2, h3⟩
      · exact Or.inl h
      · exact Or.inr ⟨k, h1, by omega, h3⟩

/-! ### the function form does not depend on the fuel once it covers the span -/

theorem opt_fuel (b : α → α → Bool) (add : α → α → α) (C : Nat → Nat → α) :
    ∀ f g i j, j - i ≤ f + 1 → j - i ≤ g + 1 → opt b add C f i j = opt b add C g i j := by
  intro f
  induction f with
  | zero =>
    intro g i j hf _
    cases g with
    | zero => rfl
    | succ g =>
      have : j - i - 1 = 0 := by omega
      simp only [opt, this, scan]
  | succ f ih =>
    intro g i j hf hg
    cases g with
    | zero =>
      have : j - i - 1 = 0 := by omega
      simp only [opt, this, scan]
    | succ g =>
      simp only [opt]
      apply scan_congr
      intro k h1 h2
      rw [ih g i k (by omega) (by omega), ih g k j (by omega) (by omega)]

theorem opt_unfold (b : α → α → Bool) (add : α → α → α) (C : Nat → Nat → α) (f i j : Nat) (h : j - i ≤ f + 1) :
    opt b add C f i j =
      scan b (fun k => add (opt b add C f i k).1 (opt b add C f k j).1) (i + 1) (j - i - 1) (C i j, none) := by
  rw [opt_fuel b add C f (f + 1) i j h (by omega)]
  rfl

theorem opt_adjacent (b : α → α → Bool) (add : α → α → α) (C : Nat → Nat → α) (f i j : Nat) (h : j - i ≤ 1) :
    opt b add C f i j = (C i j, none) := by
  rw [opt_fuel b add C f 0 i j (by omega) (by omega)]
  rfl

/-! ### one cell, one diagonal, all diagonals -/

/-- encoding of the split point in `M`: the previous content when no candidate was better, else `k` -/
def enc (m0 : Int) : Option Nat → Int
  | none => m0
  | some k => (k : Int)

variable [Add α] [LT α] [DecidableLT α]

/-- for `mode` 0/1/other the two tests of the loop body amount to the single strict test `better mode` -/
theorem stepK_eq (mode i j k : Nat) (t : Tabs α) :
    stepK mode i j k t =
      if better mode (t.D i k + t.D k j) (t.D i j) = true
      then ⟨upd t.D i j (t.D i k + t.D k j), upd t.M i j (k : Int)⟩ else t := by
  unfold stepK better
  by_cases h0 : mode = 0
  · subst h0
    by_cases hlt : t.D i k + t.D k j < t.D i j <;> simp [hlt]
  · by_cases h1 : mode = 1
    · subst h1
      by_cases hgt : t.D i k + t.D k j > t.D i j <;> simp [hgt]
    · simp [h0, h1]

/-- value and split point found for cell `(i, j)` from the table `t` over the first `n` candidates -/
def cellScan (mode : Nat) (t : Tabs α) (i j n : Nat) : α × Option Nat :=
  scan (better mode) (fun k => t.D i k + t.D k j) (i + 1) n (t.D i j, none)

theorem cell_steps (mode i j : Nat) (t : Tabs α) (hij : i < j) :
    ∀ n, n ≤ j - (i + 1) →
      (∀ a b, (loop (i + 1) n (stepK mode i j) t).D a b =
          if a = i ∧ b = j then (cellScan mode t i j n).1 else t.D a b) ∧
      (∀ a b, (loop (i + 1) n (stepK mode i j) t).M a b =
          if a = i ∧ b = j then enc (t.M i j) (cellScan mode t i j n).2 else t.M a b) := by
  intro n
  induction n with
  | zero =>
    intro _
    constructor
    · intro a b
      by_cases h : a = i ∧ b = j
      · obtain ⟨rfl, rfl⟩ := h; simp [loop, cellScan, scan]
      · simp [loop, h]
    · intro a b
      by_cases h : a = i ∧ b = j
      · obtain ⟨rfl, rfl⟩ := h; simp [loop, cellScan, scan, enc]
      · simp [loop, h]
  | succ n ih =>
    intro hn
    obtain ⟨ihD, ihM⟩ := ih (by omega)
    have hk1 : ¬ (i = i ∧ i + 1 + n = j) := by omega
    have hk2 : ¬ (i + 1 + n = i ∧ j = j) := by omega
    have e1 : (loop (i + 1) n (stepK mode i j) t).D i (i + 1 + n) = t.D i (i + 1 + n) := by
      rw [ihD, if_neg hk1]
    have e2 : (loop (i + 1) n (stepK mode i j) t).D (i + 1 + n) j = t.D (i + 1 + n) j := by
      rw [ihD, if_neg hk2]
    have e3 : (loop (i + 1) n (stepK mode i j) t).D i j = (cellScan mode t i j n).1 := by
      rw [ihD, if_pos ⟨rfl, rfl⟩]
    simp only [loop, stepK_eq, e1, e2, e3]
    have hs : cellScan mode t i j (n + 1) =
        if better mode (t.D i (i + 1 + n) + t.D (i + 1 + n) j) (cellScan mode t i j n).1 = true
        then (t.D i (i + 1 + n) + t.D (i + 1 + n) j, some (i + 1 + n)) else cellScan mode t i j n := by
      rfl
    rw [hs]
    cases hb : better mode (t.D i (i + 1 + n) + t.D (i + 1 + n) j) (cellScan mode t i j n).1 with
    | true =>
      simp only [if_true]
      constructor
      · intro a b
        by_cases h : a = i ∧ b = j
        · simp [upd, h]
        · simp only [upd, h, if_false]; rw [ihD]; simp only [h, if_false]
      · intro a b
        by_cases h : a = i ∧ b = j
        · simp [upd, h, enc]
        · simp only [upd, h, if_false]; rw [ihM]; simp only [h, if_false]
    | false =>
      simp only [Bool.false_eq_true, if_false]
      exact ⟨ihD, ihM⟩

theorem cellScan_congr (mode : Nat) (t t' : Tabs α) (i j n : Nat)
    (h0 : t'.D i j = t.D i j)
    (h : ∀ k, i + 1 ≤ k → k < i + 1 + n → t'.D i k = t.D i k ∧ t'.D k j = t.D k j) :
    cellScan mode t' i j n = cellScan mode t i j n := by
  unfold cellScan
  rw [h0]
  apply scan_congr
  intro k h1 h2
  rw [(h k h1 h2).1, (h k h1 h2).2]

/-- one diagonal `d`: the cells `(a, a+d)`, `a < m`, receive the scan computed from the table as it was
before the diagonal (cells of one diagonal do not read each other); nothing else moves -/
theorem diag_cells (mode d : Nat) (hd : 1 ≤ d) (t : Tabs α) :
    ∀ m,
      (∀ a b, (loop 0 m (fun i t => cellLoop mode i (i + d) t) t).D a b =
          if b = a + d ∧ a < m then (cellScan mode t a (a + d) (d - 1)).1 else t.D a b) ∧
      (∀ a b, (loop 0 m (fun i t => cellLoop mode i (i + d) t) t).M a b =
          if b = a + d ∧ a < m then enc (t.M a (a + d)) (cellScan mode t a (a + d) (d - 1)).2 else t.M a b) := by
  intro m
  induction m with
  | zero =>
    constructor <;> intro a b <;> simp [loop]
  | succ m ih =>
    obtain ⟨ihD, ihM⟩ := ih
    simp only [loop, Nat.zero_add, cellLoop]
    have hn : m + d - (m + 1) = d - 1 := by omega
    obtain ⟨cD, cM⟩ := cell_steps mode m (m + d) (loop 0 m (fun i t => cellLoop mode i (i + d) t) t)
      (by omega) (m + d - (m + 1)) (Nat.le_refl _)
    rw [hn] at cD cM
    simp only [cellLoop] at cD cM ihD ihM
    rw [hn]
    have hcs : cellScan mode (loop 0 m (fun i t => loop (i + 1) (i + d - (i + 1)) (stepK mode i (i + d)) t) t) m (m + d) (d - 1)
        = cellScan mode t m (m + d) (d - 1) := by
      apply cellScan_congr
      · rw [ihD, if_neg (by omega)]
      · intro k h1 h2
        constructor
        · rw [ihD, if_neg (by omega)]
        · rw [ihD, if_neg (by omega)]
    have hm0 : (loop 0 m (fun i t => loop (i + 1) (i + d - (i + 1)) (stepK mode i (i + d)) t) t).M m (m + d)
        = t.M m (m + d) := by
      rw [ihM, if_neg (by omega)]
    rw [hcs] at cD cM
    rw [hm0] at cM
    constructor
    · intro a b
      rw [cD]
      by_cases h : a = m ∧ b = m + d
      · obtain ⟨rfl, rfl⟩ := h
        rw [if_pos ⟨rfl, rfl⟩, if_pos ⟨rfl, by omega⟩]
      · rw [if_neg h, ihD]
        by_cases h2 : b = a + d ∧ a < m
        · rw [if_pos h2, if_pos ⟨h2.1, by omega⟩]
        · rw [if_neg h2, if_neg (by omega)]
    · intro a b
      rw [cM]
      by_cases h : a = m ∧ b = m + d
      · obtain ⟨rfl, rfl⟩ := h
        rw [if_pos ⟨rfl, rfl⟩, if_pos ⟨rfl, by omega⟩]
      · rw [if_neg h, ihM]
        by_cases h2 : b = a + d ∧ a < m
        · rw [if_pos h2, if_pos ⟨h2.1, by omega⟩]
        · rw [if_neg h2, if_neg (by omega)]

/-- invariant of the `diag` loop: after the diagonals `2 … n+1`, the cells of span `< n+2` hold the function
form's value and split point, the others still hold their initial content -/
theorem fill_inv (zero : α) (mode N : Nat) (C : Nat → Nat → α) :
    ∀ n, n ≤ N - 2 → ∀ a b, a < b → b < N →
      (b - a < 2 + n →
        (loop 2 n (fun diag t => diagLoop mode N diag t) (init zero N C)).D a b
            = (opt (better mode) (· + ·) C N a b).1 ∧
        (loop 2 n (fun diag t => diagLoop mode N diag t) (init zero N C)).M a b
            = enc (-1) (opt (better mode) (· + ·) C N a b).2) ∧
      (2 + n ≤ b - a →
        (loop 2 n (fun diag t => diagLoop mode N diag t) (init zero N C)).D a b = C a b ∧
        (loop 2 n (fun diag t => diagLoop mode N diag t) (init zero N C)).M a b = -1) := by
  intro n
  induction n with
  | zero =>
    intro _ a b hab hbN
    have hD : (init zero N C).D a b = C a b := by simp [init, Nat.le_of_lt hab, hbN]
    have hM : (init zero N C).M a b = -1 := by simp [init, Nat.le_of_lt hab, hbN]
    constructor
    · intro hs
      rw [opt_adjacent _ _ _ _ _ _ (by omega)]
      exact ⟨hD, hM⟩
    · intro _; exact ⟨hD, hM⟩
  | succ n ih =>
    intro hn a b hab hbN
    have ih' := ih (by omega)
    obtain ⟨dD, dM⟩ := diag_cells mode (2 + n) (by omega)
      (loop 2 n (fun diag t => diagLoop mode N diag t) (init zero N C)) (N - (2 + n))
    simp only [loop, diagLoop]
    simp only [diagLoop] at dD dM ih'
    rw [dD, dM]
    by_cases hcell : b = a + (2 + n)
    · have ha : a < N - (2 + n) := by omega
      rw [if_pos ⟨hcell, ha⟩, if_pos ⟨hcell, ha⟩]
      have hinit := (ih' a b hab hbN).2 (by omega)
      have hscan : cellScan mode (loop 2 n (fun diag t => loop 0 (N - diag) (fun i t => cellLoop mode i (i + diag) t) t) (init zero N C))
          a (a + (2 + n)) (2 + n - 1) = opt (better mode) (· + ·) C N a b := by
        rw [opt_unfold _ _ _ N a b (by omega)]
        subst hcell
        unfold cellScan
        rw [hinit.1]
        have e : a + (2 + n) - a - 1 = 2 + n - 1 := by omega
        rw [e]
        apply scan_congr
        intro k h1 h2
        have hk1 := ((ih' a k (by omega) (by omega)).1 (by omega)).1
        have hk2 := ((ih' k (a + (2 + n)) (by omega) hbN).1 (by omega)).1
        simp only [hk1, hk2]
      constructor
      · intro _
        subst hcell
        rw [hscan, hinit.2]
        exact ⟨rfl, rfl⟩
      · intro h; omega
    · have hne : ¬ (b = a + (2 + n) ∧ a < N - (2 + n)) := fun h => hcell h.1
      rw [if_neg hne, if_neg hne]
      constructor
      · intro hs; exact (ih' a b hab hbN).1 (by omega)
      · intro hs; exact (ih' a b hab hbN).2 (by omega)

/-- **table form = function form**: after `fill`, every cell `(a, b)`, `a < b < N`, of `D` holds the value of
`opt`, and the same cell of `M` the split point found by `opt` (−1 for none) -/
theorem fill_spec (zero : α) (mode N : Nat) (C : Nat → Nat → α) (a b : Nat) (hab : a < b) (hbN : b < N) :
    (fill mode N (init zero N C)).D a b = (opt (better mode) (· + ·) C N a b).1 ∧
    (fill mode N (init zero N C)).M a b = enc (-1) (opt (better mode) (· + ·) C N a b).2 :=
  (fill_inv zero mode N C (N - 2) (Nat.le_refl _) a b hab hbN).1 (by omega)
end TV.Partition
