import TracklibVerif.Lemmas.GraphSessionQ
import TracklibVerif.Model.GraphAStar
/-! Networks extracted from a network by keeping some of its edges — what `Network.sub_network` returns in either mode
(`sub_net.addEdge(e, e.source, e.target)` for every kept `Edge` object `e`: same ends, same weight, same orientation):
walks and shortest distances of the extract in terms of the parent; the GEOMETRIC selection rule (`subEdgesGeo`). -/
set_option linter.unusedSectionVars false
namespace TV.Graph
variable {W : Type} [LinearOrder W] [Add W] [Zero W] [WalkAdd W]

/-- the network filled with the kept edges (node ids keep their bound) -/
def subNetOf (net : Net W) (keep : Edge W → Bool) : Net W := { n := net.n, edges := net.edges.filter keep }

/-- a permitted arc of the parent carried by a kept edge -/
def ArcIn (net : Net W) (keep : Edge W → Bool) (u v : Nat) (w : W) : Prop :=
  ∃ e ∈ net.edges, keep e = true ∧ e.w = w ∧
    ((0 ≤ e.ori ∧ e.src = u ∧ e.tgt = v) ∨ (e.ori ≤ 0 ∧ e.tgt = u ∧ e.src = v))

/-- a permitted walk of the parent that stays inside the extract: every arc is carried by a kept edge -/
inductive WalkIn (net : Net W) (keep : Edge W → Bool) (s : Nat) : Nat → W → Prop
  | nil : WalkIn net keep s s 0
  | snoc {v t : Nat} {c w : W} : WalkIn net keep s v c → ArcIn net keep v t w → WalkIn net keep s t (c + w)

theorem arc_sub_iff (net : Net W) (keep : Edge W → Bool) (u v : Nat) (w : W) :
    Arc (subNetOf net keep) u v w ↔ ArcIn net keep u v w := by
  unfold Arc ArcIn subNetOf
  constructor
  · rintro ⟨e, he, hw, hd⟩
    simp only [List.mem_filter] at he
    exact ⟨e, he.1, he.2, hw, hd⟩
  · rintro ⟨e, he, hk, hw, hd⟩
    exact ⟨e, by simp only [List.mem_filter]; exact ⟨he, hk⟩, hw, hd⟩

theorem arcIn_arc {net : Net W} {keep : Edge W → Bool} {u v : Nat} {w : W} (h : ArcIn net keep u v w) : Arc net u v w := by
  obtain ⟨e, he, _, hw, hd⟩ := h
  exact ⟨e, he, hw, hd⟩

/-- the walks of the extract are exactly the parent's walks that stay inside it, with the same weight -/
theorem walk_sub_iff (net : Net W) (keep : Edge W → Bool) (s v : Nat) (c : W) :
    Walk (subNetOf net keep) s v c ↔ WalkIn net keep s v c := by
  constructor
  · intro h
    induction h with
    | nil => exact WalkIn.nil
    | snoc _ ha ih => exact WalkIn.snoc ih ((arc_sub_iff net keep _ _ _).1 ha)
  · intro h
    induction h with
    | nil => exact Walk.nil
    | snoc _ ha ih => exact Walk.snoc ih ((arc_sub_iff net keep _ _ _).2 ha)

theorem walkIn_walk {net : Net W} {keep : Edge W → Bool} {s v : Nat} {c : W} (h : WalkIn net keep s v c) : Walk net s v c := by
  induction h with
  | nil => exact Walk.nil
  | snoc _ ha ih => exact Walk.snoc ih (arcIn_arc ha)

theorem wf_sub {net : Net W} (h : WFNet net) (keep : Edge W → Bool) : WFNet (subNetOf net keep) := by
  intro e he
  simp only [subNetOf, List.mem_filter] at he
  exact h e he.1

/-- a walk all of whose vertices satisfy `P` -/
inductive WalkV (net : Net W) (P : Nat → Prop) (s : Nat) : Nat → W → Prop
  | nil : P s → WalkV net P s s 0
  | snoc {v t : Nat} {c w : W} : WalkV net P s v c → Arc net v t w → P t → WalkV net P s t (c + w)

/-- if an edge is kept as soon as ONE of its ends satisfies `P`, a walk through vertices satisfying `P` stays inside -/
theorem walkV_walkIn {net : Net W} {keep : Edge W → Bool} {P : Nat → Prop}
    (hk : ∀ e ∈ net.edges, (P e.src ∨ P e.tgt) → keep e = true) {s v : Nat} {c : W} (h : WalkV net P s v c) :
    WalkIn net keep s v c := by
  induction h with
  | nil _ => exact WalkIn.nil
  | snoc _ ha hp ih =>
    obtain ⟨e, he, hw, hd⟩ := ha
    refine WalkIn.snoc ih ⟨e, he, hk e he ?_, hw, hd⟩
    rcases hd with ⟨_, _, h3⟩ | ⟨_, _, h3⟩
    · exact Or.inr (h3 ▸ hp)
    · exact Or.inl (h3 ▸ hp)

/-- **shortest distances on an extract**, for any rule of selection `keep`. On the returned network
`shortest_distance(s, t)` is the minimum weight over the permitted walks of the PARENT that stay inside the extract, the
sentinel iff there is none; so it is never below the parent's distance, and it equals the parent's distance exactly when
some shortest walk of the parent stays inside. -/
theorem subNet_distance (net : Net W) (hnet : WFNet net) (keep : Edge W → Bool) (s t : Nat) (hs : s < net.n) :
    (∀ y, shortestDistance (subNetOf net keep) s t none = some y ↔
        (WalkIn net keep s t y ∧ ∀ c, WalkIn net keep s t c → y ≤ c)) ∧
    (shortestDistance (subNetOf net keep) s t none = none ↔ ¬ ∃ c, WalkIn net keep s t c) ∧
    (∀ y y', shortestDistance (subNetOf net keep) s t none = some y → IsDist net s t y' → y' ≤ y) ∧
    (∀ y, IsDist net s t y → (shortestDistance (subNetOf net keep) s t none = some y ↔ WalkIn net keep s t y)) := by
  obtain ⟨h1, h2⟩ := shortestDistance_spec (subNetOf net keep) (wf_sub hnet keep) s t hs
  have e1 : ∀ y, shortestDistance (subNetOf net keep) s t none = some y ↔
      (WalkIn net keep s t y ∧ ∀ c, WalkIn net keep s t c → y ≤ c) := by
    intro y
    rw [h1 y]
    unfold IsDist
    rw [walk_sub_iff]
    constructor
    · rintro ⟨a, b⟩; exact ⟨a, fun c hc => b c ((walk_sub_iff net keep s t c).2 hc)⟩
    · rintro ⟨a, b⟩; exact ⟨a, fun c hc => b c ((walk_sub_iff net keep s t c).1 hc)⟩
  refine ⟨e1, ?_, ?_, ?_⟩
  · rw [h2]
    unfold Reachable
    constructor
    · rintro hn ⟨c, hc⟩; exact hn ⟨c, (walk_sub_iff net keep s t c).2 hc⟩
    · rintro hn ⟨c, hc⟩; exact hn ⟨c, (walk_sub_iff net keep s t c).1 hc⟩
  · intro y y' hy hy'
    exact hy'.2 y (walkIn_walk ((e1 y).1 hy).1)
  · intro y hy
    constructor
    · intro h; exact ((e1 y).1 h).1
    · intro h; exact (e1 y).2 ⟨h, fun c hc => hy.2 c (walkIn_walk hc)⟩

/-! ### TOPOLOGIC: the distances from the source of the extraction survive -/

theorem within_mono {cut : Option W} {y c : W} (h : y ≤ c) (hc : Within cut c) : Within cut y :=
  fun k hk => le_trans h (hc k hk)

/-- every reachable node has a distance, below the weight of any walk to it -/
theorem exists_dist (net : Net W) (hnet : WFNet net) (s : Nat) (hs : s < net.n) {v : Nat} {c : W} (hw : Walk net s v c) :
    ∃ y, IsDist net s v y ∧ y ≤ c := by
  obtain ⟨h1, _, _⟩ := forward_correct net hnet s hs
  obtain ⟨y, hy, hle⟩ := h1 v c hw
  exact ⟨y, (run_isDist net hnet s hs v y).1 hy, hle⟩

/-- weights are non-negative: every vertex of a walk of weight within the cut-off is itself within the cut-off of the source -/
theorem walk_within (net : Net W) (hnet : WFNet net) (s : Nat) (hs : s < net.n) (cut : Option W) {v : Nat} {c : W}
    (hw : Walk net s v c) (hc : Within cut c) :
    WalkV net (fun u => ∃ y, IsDist net s u y ∧ Within cut y) s v c := by
  induction hw with
  | nil =>
    obtain ⟨y, hy, hle⟩ := exists_dist net hnet s hs (Walk.nil (net := net) (s := s))
    exact WalkV.nil ⟨y, hy, within_mono hle hc⟩
  | snoc hw' ha ih =>
    rename_i v' t' c' w'
    have hle : c' ≤ c' + w' := WalkAdd.le_add_right c' w' (arc_wf hnet ha).2
    obtain ⟨y, hy, hyle⟩ := exists_dist net hnet s hs (Walk.snoc hw' ha)
    exact WalkV.snoc (ih (within_mono hle hc)) ha ⟨y, hy, within_mono hyle hc⟩

theorem walkV_end {net : Net W} {P : Nat → Prop} {s v : Nat} {c : W} (h : WalkV net P s v c) : P v := by
  cases h with
  | nil hp => exact hp
  | snoc _ _ hp => exact hp

/-- if an edge is kept as soon as BOTH its ends satisfy `P`, a walk through vertices satisfying `P` stays inside -/
theorem walkV_walkIn_both {net : Net W} {keep : Edge W → Bool} {P : Nat → Prop}
    (hk : ∀ e ∈ net.edges, P e.src → P e.tgt → keep e = true) {s v : Nat} {c : W} (h : WalkV net P s v c) :
    WalkIn net keep s v c := by
  induction h with
  | nil _ => exact WalkIn.nil
  | snoc hprev ha hp ih =>
    have hv := walkV_end hprev
    obtain ⟨e, he, hw, hd⟩ := ha
    refine WalkIn.snoc ih ⟨e, he, ?_, hw, hd⟩
    rcases hd with ⟨_, h2, h3⟩ | ⟨_, h2, h3⟩
    · exact hk e he (h2 ▸ hv) (h3 ▸ hp)
    · exact hk e he (h3 ▸ hp) (h2 ▸ hv)

/-- on the network `sub_network(s, cut, "TOPOLOGIC")` returns, the distance from `s` to every node within the cut-off is the
parent's distance (every shortest walk of the parent to such a node stays inside the extract) -/
theorem subTopo_source_distance (net : Net W) (hnet : WFNet net) (s : Nat) (hs : s < net.n) (cut : Option W) (t : Nat) (y : W)
    (hy : IsDist net s t y) (hw : Within cut y) :
    shortestDistance ({ n := net.n, edges := subEdges net (runForward net s none cut).1 } : Net W) s t none = some y := by
  have hk : ∀ e ∈ net.edges, (∃ y, IsDist net s e.src y ∧ Within cut y) → (∃ y, IsDist net s e.tgt y ∧ Within cut y) →
      ((runForward net s none cut).1.vis e.src && (runForward net s none cut).1.vis e.tgt) = true := by
    intro e _ h1 h2
    rw [Bool.and_eq_true]
    exact ⟨(visited_iff net hnet s hs cut e.src).2 h1, (visited_iff net hnet s hs cut e.tgt).2 h2⟩
  exact ((subNet_distance net hnet (fun e => (runForward net s none cut).1.vis e.src && (runForward net s none cut).1.vis e.tgt)
    s t hs).2.2.2 y hy).2 (walkV_walkIn_both hk (walk_within net hnet s hs cut hy.1 hw))

section geo
variable [Sub W] [Mul W]

/-- the GEOMETRIC rule as a predicate on edges -/
def keepGeo (sqrt : W → W) (pos : Nat → Pos W) (p : Pos W) (cut : Option W) (e : Edge W) : Bool :=
  let d1 := distance2DTo sqrt p (pos e.src)
  let d2 := distance2DTo sqrt p (pos e.tgt)
  let m := if d2 < d1 then d2 else d1
  match cut with
  | some c => !decide (c < m)
  | none => true

theorem subEdgesGeo_eq (sqrt : W → W) (pos : Nat → Pos W) (net : Net W) (p : Pos W) (cut : Option W) :
    subEdgesGeo sqrt pos net p cut = (subNetOf net (keepGeo sqrt pos p cut)).edges := rfl

/-- the rule, read: an edge is kept iff one of its two ends lies within the planimetric distance `cut` of the centre -/
theorem keepGeo_iff (sqrt : W → W) (pos : Nat → Pos W) (p : Pos W) (cut : Option W) (e : Edge W) :
    keepGeo sqrt pos p cut e = true ↔
      (Within cut (distance2DTo sqrt p (pos e.src)) ∨ Within cut (distance2DTo sqrt p (pos e.tgt))) := by
  unfold keepGeo Within
  cases cut with
  | none => simp
  | some c =>
    simp only [Bool.not_eq_true', decide_eq_false_iff_not, not_lt, Option.some.injEq, forall_eq']
    split
    · rename_i h
      constructor
      · intro h'; exact Or.inr h'
      · rintro (h' | h')
        · exact le_trans (le_of_lt h) h'
        · exact h'
    · rename_i h
      constructor
      · intro h'; exact Or.inl h'
      · rintro (h' | h')
        · exact h'
        · exact le_trans (not_lt.mp h) h'
end geo
end TV.Graph
