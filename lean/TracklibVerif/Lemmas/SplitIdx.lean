import TracklibVerif.Lemmas.SplitSeg
/-! `Track.extract` and `split(track, <index list>)` for ANY integers (Python list indexing: negative, reversed, out of
range). -/
namespace TV.Split
variable {β : Type}

theorem isSome_getElem?' (l : List β) (n : Nat) : (l[n]?).isSome = true ↔ n < l.length := by simp

/-- `l[k]` succeeds exactly for `-len ≤ k < len` -/
theorem pyIndex_isSome (l : List β) (k : Int) :
    (pyIndex l k).isSome = true ↔ -(l.length : Int) ≤ k ∧ k < (l.length : Int) := by
  unfold pyIndex
  by_cases h0 : 0 ≤ k
  · simp only [h0, if_true, isSome_getElem?']
    omega
  · by_cases h1 : 0 ≤ (l.length : Int) + k
    · simp only [h0, h1, if_true, if_false, isSome_getElem?']
      omega
    · simp only [h0, h1, if_false, Option.isSome_none]
      constructor
      · intro h; cases h
      · intro h; omega

/-- the value of `l[k]` -/
theorem pyIndex_eq (l : List β) (k : Int) (h : -(l.length : Int) ≤ k ∧ k < (l.length : Int)) :
    pyIndex l k = l[(if 0 ≤ k then k else (l.length : Int) + k).toNat]? := by
  unfold pyIndex
  by_cases h0 : 0 ≤ k
  · simp [h0]
  · have h1 : 0 ≤ (l.length : Int) + k := by omega
    simp [h0, h1]

theorem mem_pyRange (a b k : Int) : k ∈ pyRange a b ↔ a ≤ k ∧ k < b := by
  simp only [pyRange, List.mem_map, List.mem_range]
  constructor
  · rintro ⟨i, hi, rfl⟩; omega
  · rintro ⟨h1, h2⟩; exact ⟨(k - a).toNat, by omega, by omega⟩

theorem mapM_isSome_iff {γ δ : Type} (f : γ → Option δ) (l : List γ) :
    (l.mapM f).isSome = true ↔ ∀ a ∈ l, (f a).isSome = true := by
  constructor
  · induction l with
    | nil => intro _ a ha; cases ha
    | cons x rest ih =>
      intro h a ha
      rw [List.mapM_cons] at h
      cases hf : f x with
      | none => simp [hf] at h
      | some b =>
        cases hl : rest.mapM f with
        | none => simp [hf, hl] at h
        | some bs =>
          rcases List.mem_cons.mp ha with rfl | hr
          · simp [hf]
          · exact ih (by simp [hl]) a hr
  · intro h
    obtain ⟨r, hr⟩ := mapM_isSome f l h
    simp [hr]

/-- `Track.extract(a, b)` raises `IndexError` exactly when some index of `a..b` is outside `[-size, size)` -/
theorem extract_isSome (l : List β) (a b : Int) :
    (extract l a b).isSome = true ↔ ∀ k, a ≤ k → k ≤ b → -(l.length : Int) ≤ k ∧ k < (l.length : Int) := by
  unfold extract
  rw [mapM_isSome_iff]
  constructor
  · intro h k h1 h2
    exact (pyIndex_isSome l k).mp (h k ((mem_pyRange _ _ _).mpr ⟨h1, by omega⟩))
  · intro h k hk
    obtain ⟨h1, h2⟩ := (mem_pyRange _ _ _).mp hk
    exact (pyIndex_isSome l k).mpr (h k h1 (by omega))

theorem mapM_some_getElem {γ δ : Type} (f : γ → Option δ) : ∀ (l : List γ) (r : List δ), l.mapM f = some r →
    ∀ (i : Nat), (r[i]?).map some = (l[i]?).map f
  | [], r, h, i => by simp at h; subst h; simp
  | a :: l, r, h, i => by
    rw [List.mapM_cons] at h
    cases hf : f a with
    | none => simp [hf] at h
    | some b =>
      cases hl : l.mapM f with
      | none => simp [hf, hl] at h
      | some bs =>
        simp [hf, hl] at h
        subst h
        cases i with
        | zero => simp [hf]
        | succ j => simpa using mapM_some_getElem f l bs hl j

/-- what `Track.extract(a, b)` returns when it does not raise: `b - a + 1` observations (none when `a > b`), the
`j`-th being `l[a + j]` with Python's indexing -/
theorem extract_some (l : List β) (a b : Int) (p : List β) (h : extract l a b = some p) :
    p.length = (b + 1 - a).toNat ∧ ∀ (j : Nat), j < p.length → (p[j]?).map some = some (pyIndex l (a + (j : Int))) := by
  unfold extract at h
  have hl := mapM_some_length _ _ _ h
  have hlen : p.length = (b + 1 - a).toNat := by rw [hl]; simp [pyRange]
  refine ⟨hlen, ?_⟩
  intro j hj
  rw [mapM_some_getElem _ _ _ h j]
  have : (pyRange a (b + 1))[j]? = some (a + (j : Int)) := by
    simp only [pyRange, List.getElem?_map]
    rw [List.getElem?_range (by omega)]
    rfl
  rw [this]
  rfl

/-- the consecutive pairs `(source[i], source[i+1])` -/
def pairs : List Int → List (Int × Int)
  | a :: b :: rest => (a, b) :: pairs (b :: rest)
  | _ => []

/-- `split(track, source)` on an index list raises `IndexError` exactly when one of its `extract(source[i], source[i+1])`
does -/
theorem splitIdx_isSome (short : List β → Bool) (l : List β) (src : List Int) :
    (splitIdx short l src).isSome = true ↔ ∀ ab ∈ pairs src, (extract l ab.1 ab.2).isSome = true := by
  induction src with
  | nil => simp [splitIdx, pairs]
  | cons a rest ih =>
    cases rest with
    | nil => simp [splitIdx, pairs]
    | cons b rest =>
      simp only [splitIdx, pairs, List.mem_cons, forall_eq_or_imp]
      cases he : extract l a b with
      | none => simp
      | some p =>
        cases hs : splitIdx short l (b :: rest) with
        | none =>
          rw [hs] at ih
          simp only [Option.isSome_none, Bool.false_eq_true, false_iff] at ih
          simp only [Option.isSome_none, Bool.false_eq_true, Option.isSome_some, true_and, false_iff]
          exact ih
        | some ps =>
          rw [hs] at ih
          simp only [Option.isSome_some, true_iff] at ih
          simp only [Option.isSome_some, true_and, true_iff]
          exact ih

/-- when nothing raises: the extracted pieces that are not short, in the order of the list -/
theorem splitIdx_some (short : List β → Bool) (l : List β) (src : List Int) (r : List (List β))
    (h : splitIdx short l src = some r) :
    ∃ ps, (pairs src).mapM (fun ab => extract l ab.1 ab.2) = some ps ∧ r = ps.filter (fun p => !short p) := by
  induction src generalizing r with
  | nil => simp [splitIdx] at h; subst h; exact ⟨[], rfl, rfl⟩
  | cons a rest ih =>
    cases rest with
    | nil => simp [splitIdx] at h; subst h; exact ⟨[], rfl, rfl⟩
    | cons b rest =>
      simp only [splitIdx] at h
      cases he : extract l a b with
      | none => simp [he] at h
      | some p =>
        cases hs : splitIdx short l (b :: rest) with
        | none => simp [he, hs] at h
        | some ps' =>
          simp only [he, hs, Option.some.injEq] at h
          obtain ⟨ps, hps, hr⟩ := ih ps' hs
          refine ⟨p :: ps, by simp [pairs, List.mapM_cons, he, hps], ?_⟩
          subst h
          rw [List.filter_cons, hr]
          cases short p <;> simp
end TV.Split
