import TracklibVerif.Lemmas.CinTabHeap
import TracklibVerif.Lemmas.Features
import TracklibVerif.Lemmas.FeaturesSpec
/-! The `World` of observation objects shared between tracks satisfies the laws of a feature table, for the track
in focus, under the invariant `WInv`: the references of the track are distinct and valid, its dict enumerates
distinct names with distinct indices below its length, and every observation object of the track carries AT LEAST
as many feature slots as the dict lists (it may carry more: slots appended by other tracks that share the object). -/
set_option linter.unusedSectionVars false
namespace TV.CinTab
open TV.Features

variable {V : Type} [Inhabited V] [AbsTime V]

/-! ### the dict -/

theorem find_mem {d : List (String × Nat)} {name : String} {idx : Nat} (h : find d name = some idx) : (name, idx) ∈ d := by
  unfold find at h
  cases hf : d.find? (fun p => p.1 == name) with
  | none => rw [hf] at h; cases h
  | some p =>
    rw [hf] at h
    have hp := List.mem_of_find?_eq_some hf
    have hn : p.1 = name := by simpa using List.find?_some hf
    have hi : p.2 = idx := by simpa using h
    rw [← hn, ← hi]; exact hp

theorem find_none_not_mem {d : List (String × Nat)} {name : String} (h : find d name = none) : name ∉ d.map Prod.fst := by
  intro hm
  have := find_isSome_of_mem d name hm
  rw [h] at this; cases this

theorem find_append_new (d : List (String × Nat)) (name m : String) (k : Nat) (hnew : find d name = none) :
    find (d ++ [(name, k)]) m = if m = name then some k else find d m := by
  unfold find at hnew ⊢
  rw [List.find?_append]
  by_cases hm : m = name
  · subst hm
    have : d.find? (fun p => p.1 == m) = none := by
      cases hf : d.find? (fun p => p.1 == m) with
      | none => rfl
      | some p => rw [hf] at hnew; cases hnew
    simp [this]
  · simp only [hm, if_false]
    cases hf : d.find? (fun p => p.1 == m) with
    | some p => simp
    | none =>
      have : ¬ (name == m) = true := by simpa using Ne.symm hm
      simp [this]

/-- the dict of a track: distinct names, distinct indices, all below its length -/
structure DInv (d : List (String × Nat)) : Prop where
  names : (d.map Prod.fst).Nodup
  idxs : (d.map Prod.snd).Nodup
  lt : ∀ p ∈ d, p.2 < d.length

theorem snd_inj : ∀ (d : List (String × Nat)), (d.map Prod.snd).Nodup → ∀ {a b : String} {i : Nat},
    (a, i) ∈ d → (b, i) ∈ d → a = b
  | [], _, _, _, _, ha, _ => by cases ha
  | p :: t, hnd, a, b, i, ha, hb => by
    simp only [List.map_cons, List.nodup_cons] at hnd
    rcases List.mem_cons.mp ha with ea | ha'
    · rcases List.mem_cons.mp hb with eb | hb'
      · have e : (a, i) = (b, i) := ea.trans eb.symm
        exact (Prod.mk.inj e).1
      · exfalso; apply hnd.1
        rw [← ea]; exact List.mem_map.mpr ⟨(b, i), hb', rfl⟩
    · rcases List.mem_cons.mp hb with eb | hb'
      · exfalso; apply hnd.1
        rw [← eb]; exact List.mem_map.mpr ⟨(a, i), ha', rfl⟩
      · exact snd_inj t hnd.2 ha' hb'

/-! ### the representation -/

/-- the value in slot `idx` of the object `id` -/
def slot (w : World V) (idx id : Nat) : V := ((w.heap[id]?).bind (·.feats[idx]?)).getD default

/-- what the track in focus reads under a name: the slots its dict designates -/
def wRd (w : World V) (name : String) : Option (List V) :=
  (find w.trk.dico name).map (fun idx => w.trk.ids.map (slot w idx))

/-- coordinates / absolute times of the track in focus -/
def wCo (w : World V) (c : Coord) : List V := w.trk.ids.map (fun id => ((w.heap[id]?).map (·.coord c)).getD default)

def wN (w : World V) : Nat := w.trk.ids.length

structure WInv (w : World V) : Prop where
  cur : w.cur < w.trks.length
  valid : ∀ id ∈ w.trk.ids, id < w.heap.length
  nodup : w.trk.ids.Nodup
  dico : DInv w.trk.dico
  wide : ∀ id ∈ w.trk.ids, ∀ ob, w.heap[id]? = some ob → w.trk.dico.length ≤ ob.feats.length

theorem trk_setDico (w : World V) (d : List (String × Nat)) (hc : w.cur < w.trks.length) :
    (w.setDico d).trk = { w.trk with dico := d } := by
  unfold World.trk World.setDico
  simp only [List.getD_eq_getElem?_getD, List.getElem?_modify_eq]
  rw [List.getElem?_eq_getElem hc]
  rfl

theorem WInv.obs {w : World V} (h : WInv w) {id : Nat} (hid : id ∈ w.trk.ids) : ∃ ob, w.heap[id]? = some ob :=
  ⟨_, List.getElem?_eq_getElem (h.valid id hid)⟩

theorem WInv.idx_lt {w : World V} (h : WInv w) {name : String} {idx : Nat} (hf : find w.trk.dico name = some idx)
    {id : Nat} (hid : id ∈ w.trk.ids) {ob : WObs V} (hob : w.heap[id]? = some ob) : idx < ob.feats.length :=
  Nat.lt_of_lt_of_le (h.dico.lt _ (find_mem hf)) (h.wide id hid ob hob)

theorem mapM_some_map {α β : Type} (f : α → Option β) (g : α → β) : ∀ (l : List α), (∀ a ∈ l, f a = some (g a)) →
    l.mapM f = some (l.map g)
  | [], _ => rfl
  | a :: t, h => by
    rw [List.mapM_cons, h a List.mem_cons_self, mapM_some_map f g t (fun b hb => h b (List.mem_cons_of_mem _ hb))]
    rfl

theorem slot_of_obs {w : World V} {idx id : Nat} {ob : WObs V} {v : V} (hob : w.heap[id]? = some ob) (hv : ob.feats[idx]? = some v) :
    slot w idx id = v := by simp [slot, hob, hv]

/-! ### the laws, one by one -/

theorem w_has (w : World V) (name : String) (_h : WInv w) (hr : reserved name = false) :
    (Tbl.has name : M (World V) Bool) w = (.ok (wRd w name).isSome, w) := by
  show (Except.ok (hasW w name), w) = _
  simp [hasW, hr, wRd]

theorem w_getObs_coord (o : Ops V) (w : World V) (c : Coord) (i : Nat) (v : V) (h : WInv w) (hv : (wCo w c)[i]? = some v) :
    (Tbl.getObs o (cnm c) i : M (World V) V) w = (.ok v, w) := by
  show getObsW o (cnm c) i w = _
  unfold getObsW
  have hc : coord? (cnm c) = some c := by cases c <;> rfl
  simp only [hc]
  simp only [wCo, List.getElem?_map] at hv
  cases hid : w.trk.ids[i]? with
  | none => rw [hid] at hv; cases hv
  | some id =>
    rw [hid] at hv
    obtain ⟨ob, hob⟩ := h.obs (List.mem_of_getElem? hid)
    have : w.obs? i = some ob := by simp [World.obs?, hid, hob]
    rw [this]
    simp only [Option.map_some, hob, Option.getD_some] at hv
    rw [← Option.some.inj hv]

theorem w_getObs_feat (o : Ops V) (w : World V) (name : String) (col : List V) (i : Nat) (v : V) (h : WInv w)
    (hr : reserved name = false) (hrd : wRd w name = some col) (hv : col[i]? = some v) :
    (Tbl.getObs o name i : M (World V) V) w = (.ok v, w) := by
  obtain ⟨h1, h2, h3⟩ := coord?_of_not_reserved hr
  show getObsW o name i w = _
  unfold getObsW
  simp only [h1, h2, h3, Bool.false_eq_true, if_false]
  unfold wRd at hrd
  cases hf : find w.trk.dico name with
  | none => rw [hf] at hrd; cases hrd
  | some idx =>
    rw [hf] at hrd
    simp only [Option.map_some, Option.some.injEq] at hrd
    rw [← hrd, List.getElem?_map] at hv
    cases hid : w.trk.ids[i]? with
    | none => rw [hid] at hv; cases hv
    | some id =>
      rw [hid] at hv
      have hmem := List.mem_of_getElem? hid
      obtain ⟨ob, hob⟩ := h.obs hmem
      have hlt := h.idx_lt hf hmem hob
      have : w.obs? i = some ob := by simp [World.obs?, hid, hob]
      simp only [this, List.getElem?_eq_getElem hlt]
      have e := slot_of_obs (w := w) hob (List.getElem?_eq_getElem hlt)
      simp only [Option.map_some, Option.some.injEq] at hv
      rw [← hv, e]

theorem w_get_feat (o : Ops V) (w : World V) (name : String) (col : List V) (h : WInv w)
    (hr : reserved name = false) (hrd : wRd w name = some col) :
    (Tbl.get o name : M (World V) (List V)) w = (.ok col, w) := by
  obtain ⟨h1, h2, h3⟩ := coord?_of_not_reserved hr
  show getW o name w = _
  unfold getW
  simp only [h1, h2, h3, Bool.false_eq_true, if_false]
  unfold wRd at hrd
  cases hf : find w.trk.dico name with
  | none => rw [hf] at hrd; cases hrd
  | some idx =>
    rw [hf] at hrd
    simp only [Option.map_some, Option.some.injEq] at hrd
    have hm := mapM_some_map (fun id => (w.heap[id]?).bind (fun x => x.feats[idx]?)) (slot w idx) w.trk.ids (fun id hid => by
      obtain ⟨ob, hob⟩ := h.obs hid
      have hlt := h.idx_lt hf hid hob
      rw [slot_of_obs (w := w) hob (List.getElem?_eq_getElem hlt)]
      simp [hob, List.getElem?_eq_getElem hlt])
    simp only [hm, hrd]

/-! ### writes -/

theorem coord_feats (ob : WObs V) (fs : List V) (c : Coord) : ({ ob with feats := fs } : WObs V).coord c = ob.coord c := by
  cases c <;> rfl

/-- after the same change of the `features` lists of the objects of the track: coordinates and times are untouched -/
theorem wCo_updAll (w : World V) (φ : List V → List V) (h : WInv w) (d : List (String × Nat)) :
    wCo ({ (w.setDico d) with heap := updAll (fun ob => { ob with feats := φ ob.feats }) w.trk.ids w.heap } : World V) = wCo w := by
  funext c
  unfold wCo
  have ht : ({ (w.setDico d) with heap := updAll (fun ob => { ob with feats := φ ob.feats }) w.trk.ids w.heap } : World V).trk
      = { w.trk with dico := d } := trk_setDico w d h.cur
  rw [ht]
  apply List.map_congr_left
  intro id hid
  show (((updAll _ w.trk.ids w.heap)[id]?).map _).getD default = _
  rw [updAll_getElem?_mem _ _ _ _ h.nodup hid]
  obtain ⟨ob, hob⟩ := h.obs hid
  simp [hob, coord_feats]

/-- … and a slot reads `(φ feats)[idx]` -/
theorem slot_updAll (w : World V) (φ : List V → List V) (h : WInv w) (d : List (String × Nat)) (idx id : Nat)
    (hid : id ∈ w.trk.ids) (ob : WObs V) (hob : w.heap[id]? = some ob) :
    slot ({ (w.setDico d) with heap := updAll (fun ob => { ob with feats := φ ob.feats }) w.trk.ids w.heap } : World V) idx id
      = ((φ ob.feats)[idx]?).getD default := by
  show (((updAll _ w.trk.ids w.heap)[id]?).bind _).getD default = _
  rw [updAll_getElem?_mem _ _ _ _ h.nodup hid, hob]
  rfl

theorem w_create_new (w : World V) (name : String) (v : V) (h : WInv w) (hr : reserved name = false)
    (hrd : wRd w name = none) (hn : 0 < wN w) :
    ∃ w' col, (Tbl.create name (.scalar v) : M (World V) Unit) w = (.ok (), w') ∧ WInv w' ∧ wRd w' name = some col
      ∧ wN w' = wN w ∧ (∀ m, m ≠ name → wRd w' m = wRd w m) ∧ wCo w' = wCo w := by
  have hf : find w.trk.dico name = none := by
    unfold wRd at hrd
    cases hf : find w.trk.dico name with
    | none => rfl
    | some idx => rw [hf] at hrd; cases hrd
  let d' := w.trk.dico ++ [(name, w.trk.dico.length)]
  let φ : List V → List V := fun fs => fs ++ [v]
  let w' : World V := { (w.setDico d') with heap := updAll (fun ob => { ob with feats := φ ob.feats }) w.trk.ids w.heap }
  have ht : w'.trk = { w.trk with dico := d' } := trk_setDico w d' h.cur
  have hne : w.trk.ids.isEmpty = false := by
    cases hi : w.trk.ids with
    | nil => simp [wN, hi] at hn
    | cons a t => rfl
  have hfind' : ∀ m, find d' m = if m = name then some w.trk.dico.length else find w.trk.dico m :=
    fun m => find_append_new _ _ _ _ hf
  have hslot : ∀ m idx, find w.trk.dico m = some idx → ∀ id ∈ w.trk.ids, slot w' idx id = slot w idx id := by
    intro m idx hm id hid
    obtain ⟨ob, hob⟩ := h.obs hid
    have hlt := h.idx_lt hm hid hob
    rw [slot_updAll w φ h d' idx id hid ob hob, slot_of_obs (w := w) hob (List.getElem?_eq_getElem hlt)]
    simp [φ, List.getElem?_append_left hlt, List.getElem?_eq_getElem hlt]
  refine ⟨w', w.trk.ids.map (slot w' w.trk.dico.length), ?_, ?_, ?_, ?_, ?_, wCo_updAll w φ h d'⟩
  · show createW name (.scalar v) w = _
    unfold createW
    simp only [hr, hne, hasW, hf, Option.isSome_none, Bool.or_false, Bool.false_eq_true, if_false]
    rfl
  · refine ⟨?_, ?_, ?_, ?_, ?_⟩
    · show w.cur < (w.trks.modify w.cur _).length
      rw [List.length_modify]; exact h.cur
    · rw [ht]
      intro id hid
      show id < (updAll _ w.trk.ids w.heap).length
      rw [updAll_length]; exact h.valid id hid
    · rw [ht]; exact h.nodup
    · rw [ht]
      refine ⟨?_, ?_, ?_⟩
      · show (d'.map Prod.fst).Nodup
        simp only [d', List.map_append, List.map_cons, List.map_nil]
        rw [List.nodup_append]
        refine ⟨h.dico.names, by simp, ?_⟩
        intro a ha b hb
        simp only [List.mem_cons, List.not_mem_nil, or_false] at hb
        subst hb
        intro e; subst e
        exact find_none_not_mem hf ha
      · show (d'.map Prod.snd).Nodup
        simp only [d', List.map_append, List.map_cons, List.map_nil]
        rw [List.nodup_append]
        refine ⟨h.dico.idxs, by simp, ?_⟩
        intro a ha b hb
        simp only [List.mem_cons, List.not_mem_nil, or_false] at hb
        subst hb
        obtain ⟨p, hp, rfl⟩ := List.mem_map.mp ha
        have := h.dico.lt p hp
        omega
      · intro p hp
        show p.2 < d'.length
        simp only [d', List.mem_append, List.mem_cons, List.not_mem_nil, or_false, List.length_append, List.length_cons, List.length_nil] at hp ⊢
        rcases hp with hp | rfl
        · have := h.dico.lt p hp; omega
        · simp
    · rw [ht]
      intro id hid ob' hob'
      obtain ⟨ob, hob⟩ := h.obs hid
      have : w'.heap[id]? = some { ob with feats := φ ob.feats } := by
        show (updAll _ w.trk.ids w.heap)[id]? = _
        rw [updAll_getElem?_mem _ _ _ _ h.nodup hid, hob]; rfl
      rw [this] at hob'
      have hw := h.wide id hid ob hob
      rw [← Option.some.inj hob']
      show d'.length ≤ (φ ob.feats).length
      simp [d', φ]; exact hw
  · unfold wRd
    rw [ht]
    show (find d' name).map _ = _
    rw [hfind' name]; simp
  · show w'.trk.ids.length = _
    rw [ht]; rfl
  · intro m hm
    unfold wRd
    rw [ht]
    show (find d' m).map _ = _
    rw [hfind' m]
    simp only [hm, if_false]
    cases hfm : find w.trk.dico m with
    | none => rfl
    | some idx =>
      simp only [Option.map_some, Option.some.injEq]
      exact List.map_congr_left (fun id hid => hslot m idx hfm id hid)

theorem w_create_old (w : World V) (name : String) (v : V) (col : List V) (_h : WInv w) (hr : reserved name = false)
    (hrd : wRd w name = some col) (hn : 0 < wN w) :
    (Tbl.create name (.scalar v) : M (World V) Unit) w = (.ok (), w) := by
  have hne : w.trk.ids.isEmpty = false := by
    cases hi : w.trk.ids with
    | nil => simp [wN, hi] at hn
    | cons a t => rfl
  have hf : (find w.trk.dico name).isSome = true := by
    unfold wRd at hrd
    cases hf : find w.trk.dico name with
    | none => rw [hf] at hrd; cases hrd
    | some idx => rfl
  show createW name (.scalar v) w = _
  unfold createW
  simp only [hr, hne, hasW, hf, Bool.or_false, Bool.false_eq_true, if_false, if_true]

theorem w_setObs (w : World V) (name : String) (col : List V) (i : Nat) (v : V) (h : WInv w) (hr : reserved name = false)
    (hrd : wRd w name = some col) (hi : i < wN w) :
    ∃ w', (Tbl.setObs name i v : M (World V) Unit) w = (.ok (), w') ∧ WInv w' ∧ wRd w' name = some (col.set i v)
      ∧ wN w' = wN w ∧ (∀ m, m ≠ name → wRd w' m = wRd w m) ∧ wCo w' = wCo w := by
  unfold wRd at hrd
  cases hf : find w.trk.dico name with
  | none => rw [hf] at hrd; cases hrd
  | some idx =>
    rw [hf] at hrd
    simp only [Option.map_some, Option.some.injEq] at hrd
    have hi' : i < w.trk.ids.length := hi
    have hid : w.trk.ids[i]? = some w.trk.ids[i] := List.getElem?_eq_getElem hi'
    have hmem : w.trk.ids[i] ∈ w.trk.ids := List.mem_of_getElem? hid
    obtain ⟨ob, hob⟩ := h.obs hmem
    have hlt := h.idx_lt hf hmem hob
    have hvalid := h.valid _ hmem
    let id := w.trk.ids[i]
    let ob' : WObs V := { ob with feats := ob.feats.set idx v }
    let w' : World V := { w with heap := w.heap.set id ob' }
    have hheap : ∀ j, w'.heap[j]? = if id = j then some ob' else w.heap[j]? := by
      intro j
      show (w.heap.set id ob')[j]? = _
      rw [List.getElem?_set]
      by_cases hj : id = j
      · simp [hj]; rw [← hj]; exact hvalid
      · simp [hj]
    have hother : ∀ j ∈ w.trk.ids, j ≠ id → ∀ k, slot w' k j = slot w k j := by
      intro j _ hj k
      simp only [slot, hheap j, Ne.symm hj, if_false]
    have hself : ∀ k, slot w' k id = ((ob.feats.set idx v)[k]?).getD default := by
      intro k
      simp [slot, hheap id, ob']
    have hxyz : reserved name = false := hr
    unfold reserved at hxyz
    simp only [Bool.or_eq_false_iff] at hxyz
    obtain ⟨⟨⟨⟨⟨hx, hy⟩, hz⟩, _⟩, _⟩, _⟩ := hxyz
    refine ⟨w', ?_, ?_, ?_, rfl, ?_, ?_⟩
    · show setObsW name i v w = _
      unfold setObsW writeSlot
      simp only [hx, hy, hz, Bool.or_false, Bool.false_eq_true, if_false, hf, hid, hob, hlt, if_true]
      rfl
    · refine ⟨h.cur, ?_, h.nodup, h.dico, ?_⟩
      · intro j hj
        show j < (w.heap.set id ob').length
        rw [List.length_set]; exact h.valid j hj
      · intro j hj o ho
        show w.trk.dico.length ≤ o.feats.length
        rw [hheap j] at ho
        by_cases hji : id = j
        · simp only [hji, if_true, Option.some.injEq] at ho
          rw [← ho]
          show _ ≤ (ob.feats.set idx v).length
          rw [List.length_set]
          exact h.wide _ hmem ob hob
        · simp only [hji, if_false] at ho
          exact h.wide j hj o ho
    · unfold wRd
      show (find w.trk.dico name).map (fun idx => w.trk.ids.map (slot w' idx)) = _
      rw [hf]
      simp only [Option.map_some, Option.some.injEq]
      rw [← hrd]
      apply List.ext_getElem?
      intro j
      rw [List.getElem?_map, List.getElem?_set, List.getElem?_map]
      by_cases hj : i = j
      · subst hj
        simp only [if_true, List.length_map, hid, Option.map_some]
        rw [if_pos hi']
        congr 1
        exact (hself idx).trans (by rw [List.getElem?_set_self hlt]; rfl)
      · simp only [hj, if_false]
        cases hjd : w.trk.ids[j]? with
        | none => rfl
        | some idj =>
          simp only [Option.map_some, Option.some.injEq]
          apply hother idj (List.mem_of_getElem? hjd)
          intro e
          apply hj
          have := (List.getElem?_inj hi' h.nodup (j := j)).mp (by rw [hid, hjd, e])
          exact this
    · intro m hm
      unfold wRd
      show (find w.trk.dico m).map (fun idx => w.trk.ids.map (slot w' idx)) = (find w.trk.dico m).map _
      cases hfm : find w.trk.dico m with
      | none => rfl
      | some idx' =>
        simp only [Option.map_some, Option.some.injEq]
        have hne : idx' ≠ idx := by
          intro e
          apply hm
          rw [e] at hfm
          exact snd_inj _ h.dico.idxs (find_mem hfm) (find_mem hf)
        apply List.map_congr_left
        intro j hj
        by_cases hji : j = id
        · rw [hji, hself idx', List.getElem?_set_ne (Ne.symm hne)]
          have hob2 : w.heap[id]? = some ob := hob
          simp [slot, hob2]
        · exact hother j hj hji idx'
    · funext c
      unfold wCo
      show w.trk.ids.map (fun id => ((w'.heap[id]?).map (·.coord c)).getD default) = _
      apply List.map_congr_left
      intro j _
      show ((w'.heap[j]?).map _).getD default = _
      rw [hheap j]
      by_cases hji : id = j
      · simp only [hji, if_true, Option.map_some, Option.getD_some]
        rw [← hji, hob]
        simp [ob', coord_feats]
      · simp [hji]

/-! ### removal -/

theorem filter_length_of_mem : ∀ (d : List (String × Nat)) (name : String), (d.map Prod.fst).Nodup → name ∈ d.map Prod.fst →
    (d.filter (fun p => !(p.1 == name))).length + 1 = d.length
  | [], _, _, hm => by cases hm
  | p :: t, name, hnd, hm => by
    simp only [List.map_cons, List.nodup_cons] at hnd
    by_cases hp : (p.1 == name) = true
    · have hpn : p.1 = name := by simpa using hp
      have hall : t.filter (fun q => !(q.1 == name)) = t := by
        apply List.filter_eq_self.mpr
        intro q hq
        have : q.1 ≠ name := by
          intro e
          apply hnd.1
          rw [hpn, ← e]
          exact List.mem_map.mpr ⟨q, hq, rfl⟩
        simpa using this
      simp [hp, hall]
    · have hm' : name ∈ t.map Prod.fst := by
        simp only [List.map_cons, List.mem_cons] at hm
        rcases hm with e | hm'
        · exact absurd (by simp [e]) hp
        · exact hm'
      have ih := filter_length_of_mem t name hnd.2 hm'
      simp only [List.filter_cons, hp, Bool.not_false, if_true, List.length_cons]
      omega

theorem nodup_map_shift (idx : Nat) : ∀ (l : List Nat), l.Nodup → (∀ x ∈ l, x ≠ idx) →
    (l.map (fun x => if x > idx then x - 1 else x)).Nodup
  | [], _, _ => List.nodup_nil
  | a :: t, hnd, hne => by
    obtain ⟨hnot, hnd'⟩ := List.nodup_cons.mp hnd
    simp only [List.map_cons, List.nodup_cons]
    refine ⟨?_, nodup_map_shift idx t hnd' (fun x hx => hne x (List.mem_cons_of_mem _ hx))⟩
    intro hm
    obtain ⟨b, hb, hbe⟩ := List.mem_map.mp hm
    have ha := hne a List.mem_cons_self
    have hb' := hne b (List.mem_cons_of_mem _ hb)
    apply hnot
    have : a = b := by
      by_cases h1 : a > idx <;> by_cases h2 : b > idx <;> simp only [h1, h2, if_true, if_false] at hbe <;> omega
    rw [this]; exact hb

theorem DInv.remove {d : List (String × Nat)} (h : DInv d) {name : String} {idx : Nat} (hf : find d name = some idx) :
    DInv ((d.filter (fun p => !(p.1 == name))).map (fun p => (p.1, if p.2 > idx then p.2 - 1 else p.2)))
    ∧ ((d.filter (fun p => !(p.1 == name))).map (fun p => (p.1, if p.2 > idx then p.2 - 1 else p.2))).length + 1 = d.length := by
  have hmem := find_mem hf
  have hcount := filter_length_of_mem d name h.names (List.mem_map.mpr ⟨(name, idx), hmem, rfl⟩)
  have hidx : ∀ p ∈ d.filter (fun p => !(p.1 == name)), p.2 ≠ idx := by
    intro p hp e
    obtain ⟨hpd, hpn⟩ := List.mem_filter.mp hp
    have hpn' : p.1 ≠ name := by simpa using hpn
    apply hpn'
    exact snd_inj d h.idxs (by rw [← e]; exact hpd) hmem
  refine ⟨⟨?_, ?_, ?_⟩, by rw [List.length_map]; exact hcount⟩
  · rw [List.map_map]
    show ((d.filter _).map Prod.fst).Nodup
    exact List.Nodup.sublist (List.Sublist.map _ List.filter_sublist) h.names
  · rw [List.map_map]
    have : ((d.filter (fun p => !(p.1 == name))).map (Prod.snd ∘ fun p => (p.1, if p.2 > idx then p.2 - 1 else p.2)))
        = ((d.filter (fun p => !(p.1 == name))).map Prod.snd).map (fun x => if x > idx then x - 1 else x) := by
      rw [List.map_map]; rfl
    rw [this]
    apply nodup_map_shift idx
    · exact List.Nodup.sublist (List.Sublist.map _ List.filter_sublist) h.idxs
    · intro x hx
      obtain ⟨p, hp, rfl⟩ := List.mem_map.mp hx
      exact hidx p hp
  · intro q hq
    obtain ⟨p, hp, rfl⟩ := List.mem_map.mp hq
    rw [List.length_map]
    have hlt := h.lt p (List.mem_filter.mp hp).1
    have hne := hidx p hp
    have hil := h.lt _ hmem
    show (if p.2 > idx then p.2 - 1 else p.2) < _
    split <;> omega

theorem find_remap_self (d : List (String × Nat)) (name : String) (g : Nat → Nat) :
    find ((d.filter (fun p => !(p.1 == name))).map (fun p => (p.1, g p.2))) name = none := by
  apply find_none_of_not_mem
  intro hm
  rw [List.map_map] at hm
  obtain ⟨p, hp, hpe⟩ := List.mem_map.mp hm
  have := (List.mem_filter.mp hp).2
  simp only [Function.comp] at hpe
  simp [hpe] at this

theorem w_remove (w : World V) (name : String) (col : List V) (h : WInv w) (_hr : reserved name = false)
    (hrd : wRd w name = some col) :
    ∃ w', (Tbl.remove name : M (World V) Unit) w = (.ok (), w') ∧ WInv w' ∧ wRd w' name = none
      ∧ wN w' = wN w ∧ (∀ m, m ≠ name → wRd w' m = wRd w m) ∧ wCo w' = wCo w := by
  unfold wRd at hrd
  cases hf : find w.trk.dico name with
  | none => rw [hf] at hrd; cases hrd
  | some idx =>
    let shift : Nat → Nat := fun x => if x > idx then x - 1 else x
    let d' := (w.trk.dico.filter (fun p => !(p.1 == name))).map (fun p => (p.1, shift p.2))
    let φ : List V → List V := fun fs => fs.eraseIdx idx
    let w' : World V := { (w.setDico d') with heap := updAll (fun ob => { ob with feats := φ ob.feats }) w.trk.ids w.heap }
    have ht : w'.trk = { w.trk with dico := d' } := trk_setDico w d' h.cur
    obtain ⟨hD', hlen'⟩ := h.dico.remove hf
    have hdel := delSlots_ok idx w.trk.ids w.heap h.nodup (fun id hid => by
      obtain ⟨ob, hob⟩ := h.obs hid
      exact ⟨ob, hob, h.idx_lt hf hid hob⟩)
    refine ⟨w', ?_, ?_, ?_, ?_, ?_, wCo_updAll w φ h d'⟩
    · show removeW name w = _
      unfold removeW
      simp only [hasW, hf, Option.isSome_some, Bool.true_or, Bool.not_true, Bool.false_eq_true, if_false, hdel]
      rfl
    · refine ⟨?_, ?_, ?_, ?_, ?_⟩
      · show w.cur < (w.trks.modify w.cur _).length
        rw [List.length_modify]; exact h.cur
      · rw [ht]
        intro id hid
        show id < (updAll _ w.trk.ids w.heap).length
        rw [updAll_length]; exact h.valid id hid
      · rw [ht]; exact h.nodup
      · rw [ht]; exact hD'
      · rw [ht]
        intro id hid ob' hob'
        obtain ⟨ob, hob⟩ := h.obs hid
        have : w'.heap[id]? = some { ob with feats := φ ob.feats } := by
          show (updAll _ w.trk.ids w.heap)[id]? = _
          rw [updAll_getElem?_mem _ _ _ _ h.nodup hid, hob]; rfl
        rw [this] at hob'
        have hw := h.wide id hid ob hob
        have hlt := h.idx_lt hf hid hob
        rw [← Option.some.inj hob']
        show d'.length ≤ (ob.feats.eraseIdx idx).length
        rw [List.length_eraseIdx, if_pos hlt]
        have : d'.length + 1 = w.trk.dico.length := hlen'
        omega
    · unfold wRd
      rw [ht]
      show (find d' name).map _ = _
      rw [find_remap_self]; rfl
    · show w'.trk.ids.length = _
      rw [ht]; rfl
    · intro m hm
      unfold wRd
      rw [ht]
      show (find d' m).map _ = _
      rw [find_remap w.trk.dico name m hm shift]
      cases hfm : find w.trk.dico m with
      | none => rfl
      | some idx' =>
        simp only [Option.map_some, Option.some.injEq]
        have hne : idx' ≠ idx := by
          intro e
          apply hm
          rw [e] at hfm
          exact snd_inj _ h.dico.idxs (find_mem hfm) (find_mem hf)
        apply List.map_congr_left
        intro id hid
        obtain ⟨ob, hob⟩ := h.obs hid
        have hlt' := h.idx_lt hfm hid hob
        rw [slot_updAll w φ h d' (shift idx') id hid ob hob, slot_of_obs (w := w) hob (List.getElem?_eq_getElem hlt')]
        show ((ob.feats.eraseIdx idx)[shift idx']?).getD default = _
        rw [List.getElem?_eraseIdx]
        by_cases hgt : idx' > idx
        · have h1 : shift idx' = idx' - 1 := by simp [shift, hgt]
          have h2 : ¬ idx' - 1 < idx := by omega
          have h3 : idx' - 1 + 1 = idx' := by omega
          rw [h1, if_neg h2, h3, List.getElem?_eq_getElem hlt']; rfl
        · have h1 : shift idx' = idx' := by simp [shift, hgt]
          have h2 : idx' < idx := by omega
          rw [h1, if_pos h2, List.getElem?_eq_getElem hlt']; rfl

/-- **The world of shared observations is a lawful feature table** for the track in focus. -/
theorem laws_World : Laws (σ := World V) (V := V) WInv wN wRd wCo where
  size := fun _ => rfl
  has := w_has
  co_len := fun w c _ => by simp [wCo, wN]
  rd_len := by
    intro w name col _ hrd
    unfold wRd at hrd
    cases hf : find w.trk.dico name with
    | none => rw [hf] at hrd; cases hrd
    | some idx =>
      rw [hf] at hrd
      simp only [Option.map_some, Option.some.injEq] at hrd
      rw [← hrd]; simp [wN]
  getObs_coord := w_getObs_coord
  getObs_feat := w_getObs_feat
  get_feat := w_get_feat
  create_new := w_create_new
  create_old := w_create_old
  setObs := w_setObs
  remove := w_remove

end TV.CinTab
