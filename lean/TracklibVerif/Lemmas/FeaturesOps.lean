import TracklibVerif.Lemmas.Features
/-! Everything that goes through the Track API (addListToAF, operator objects, bracket assignment,
addAnalyticalFeature, the expression evaluator with its purge) is simulated by the specification table:
structural proofs from the primitives' simulation lemmas. -/
set_option linter.unusedSectionVars false
namespace TV.Features
variable {V : Type} [Inhabited V] {n : Nat}
open Tbl

/-- leaves of the structural proofs; extended by `macro_rules` as lemmas become available -/
syntax "sim_leaf" : tactic
macro_rules | `(tactic| sim_leaf) => `(tactic| first
  | exact sim_pure _ trivial
  | exact sim_throw _
  | exact sim_ofExcept _ (fun _ _ => trivial)
  | exact sim_weaken sim_size (fun _ _ => trivial)
  | exact sim_has _
  | exact sim_names
  | exact sim_weaken (sim_get _ _) (fun _ _ => trivial)
  | exact sim_getObs _ _ _
  | exact sim_setObs _ _ _
  | exact sim_update _ _
  | exact sim_remove _
  | exact sim_create _ _)

/-- structural descent through bind / if / loops -/
macro "sim_auto" : tactic => `(tactic| repeat (first
  | sim_leaf
  | refine sim_bind (P := fun _ => True) ?_ (fun _ _ => ?_)
  | refine sim_ite _ ?_ ?_
  | refine sim_forEach _ (fun _ _ => ?_)
  | refine sim_weaken (sim_mapL (Q := fun _ => True) _ (fun _ _ => ?_)) (fun _ _ => trivial)
  | refine sim_foldL _ _ (fun _ _ _ => ?_)
  | refine sim_catchIndex _ ?_ trivial
  | refine sim_tryFinally ?_ ?_))

theorem sim_addListToAF (name : String) (arr : List V) :
    Sim n (fun _ => True) (addListToAF (σ := St V) name arr) (addListToAF (σ := ATab V) name arr) := by
  unfold addListToAF
  refine sim_bind sim_size (fun k _ => ?_)
  refine sim_forEach _ (fun i _ => ?_)
  cases arr[i]? <;> sim_auto
macro_rules | `(tactic| sim_leaf) => `(tactic| exact sim_addListToAF _ _)

theorem sim_setItem (name : String) (init : Init V) :
    Sim n (fun _ => True) (setItem (σ := St V) name init) (setItem (σ := ATab V) name init) := by
  unfold setItem
  refine sim_bind (sim_has name) (fun b _ => ?_)
  exact sim_ite _ (sim_update name init) (sim_create name init)

theorem sim_setCoordFromAF (o : Ops V) (c name : String) :
    Sim n (fun _ => True) (setCoordFromAF (σ := St V) o c name) (setCoordFromAF (σ := ATab V) o c name) := by
  unfold setCoordFromAF
  sim_auto
macro_rules | `(tactic| sim_leaf) => `(tactic| exact sim_setCoordFromAF _ _ _)

theorem sim_dist2D (o : Ops V) (i j : Nat) :
    Sim n (fun _ => True) (dist2DOp (σ := St V) o i j) (dist2DOp (σ := ATab V) o i j) := by
  unfold dist2DOp
  sim_auto
macro_rules | `(tactic| sim_leaf) => `(tactic| exact sim_dist2D _ _ _)

theorem sim_speedBetween (o : Ops V) (i j : Nat) :
    Sim n (fun _ => True) (speedBetweenOp (σ := St V) o i j) (speedBetweenOp (σ := ATab V) o i j) := by
  unfold speedBetweenOp
  sim_auto
macro_rules | `(tactic| sim_leaf) => `(tactic| exact sim_speedBetween _ _ _)

theorem sim_evalAlgo (o : Ops V) (alg : Algo V) (i : Nat) :
    Sim n (fun _ => True) (evalAlgo (σ := St V) o alg i) (evalAlgo (σ := ATab V) o alg i) := by
  cases alg <;> (unfold evalAlgo; sim_auto)
macro_rules | `(tactic| sim_leaf) => `(tactic| exact sim_evalAlgo _ _ _)

theorem sim_addAF (o : Ops V) (alg : Algo V) (name : String) :
    Sim n (fun _ => True) (addAF (σ := St V) o alg name) (addAF (σ := ATab V) o alg name) := by
  unfold addAF
  sim_auto

macro_rules | `(tactic| sim_leaf) => `(tactic| exact sim_addAF _ _ _)

theorem sim_unaryTemp (o : Ops V) (k : UOp) (inp : String) (m : Nat) :
    Sim n (fun _ => True) (unaryTemp (σ := St V) o k inp m) (unaryTemp (σ := ATab V) o k inp m) := by
  cases k <;> (unfold unaryTemp; sim_auto)
macro_rules | `(tactic| sim_leaf) => `(tactic| exact sim_unaryTemp _ _ _ _)

theorem sim_unaryVoid (o : Ops V) (k : UOp) (inp out : String) :
    Sim n (fun _ => True) (unaryVoid (σ := St V) o k inp out) (unaryVoid (σ := ATab V) o k inp out) := by
  unfold unaryVoid
  sim_auto

macro_rules | `(tactic| sim_leaf) => `(tactic| exact sim_unaryVoid _ _ _ _)

theorem sim_binaryVoid (o : Ops V) (k : BOp) (in1 in2 out : String) :
    Sim n (fun _ => True) (binaryVoid (σ := St V) o k in1 in2 out) (binaryVoid (σ := ATab V) o k in1 in2 out) := by
  unfold binaryVoid
  sim_auto
macro_rules | `(tactic| sim_leaf) => `(tactic| exact sim_binaryVoid _ _ _ _ _)

theorem sim_scalarVoid (o : Ops V) (k : SOp) (inp : String) (arg : V) (out : String) :
    Sim n (fun _ => True) (scalarVoid (σ := St V) o k inp arg out) (scalarVoid (σ := ATab V) o k inp arg out) := by
  unfold scalarVoid
  sim_auto
macro_rules | `(tactic| sim_leaf) => `(tactic| exact sim_scalarVoid _ _ _ _ _)

theorem sim_applyVoid (o : Ops V) (f : V → Except Err V) (inp out : String) :
    Sim n (fun _ => True) (applyVoid (σ := St V) o f inp out) (applyVoid (σ := ATab V) o f inp out) := by
  unfold applyVoid
  sim_auto
macro_rules | `(tactic| sim_leaf) => `(tactic| exact sim_applyVoid _ _ _ _)

theorem sim_scalarDivider (o : Ops V) (inp : String) (arg : V) (out : String) :
    Sim n (fun _ => True) (scalarDivider (σ := St V) o inp arg out) (scalarDivider (σ := ATab V) o inp arg out) := by
  unfold scalarDivider
  exact sim_applyVoid o _ inp out

theorem sim_scalarRevDivider (o : Ops V) (inp : String) (arg : V) (out : String) :
    Sim n (fun _ => True) (scalarRevDivider (σ := St V) o inp arg out) (scalarRevDivider (σ := ATab V) o inp arg out) := by
  unfold scalarRevDivider
  exact sim_applyVoid o _ inp out

theorem sim_shiftCircular (o : Ops V) (inp : String) (arg : V) (out : String) :
    Sim n (fun _ => True) (shiftCircular (σ := St V) o inp arg out) (shiftCircular (σ := ATab V) o inp arg out) := by
  unfold shiftCircular
  sim_auto

theorem sim_scalarKind (o : Ops V) (k : SKind) (inp : String) (arg : V) (out : String) :
    Sim n (fun _ => True) (scalarKind (σ := St V) o k inp arg out) (scalarKind (σ := ATab V) o k inp arg out) := by
  cases k with
  | plain s => exact sim_scalarVoid o s inp arg out
  | divider => exact sim_scalarDivider o inp arg out
  | revDivider => exact sim_scalarRevDivider o inp arg out
  | shift => exact sim_shiftCircular o inp arg out
  | shiftRev => exact sim_shiftCircular o inp _ out
macro_rules | `(tactic| sim_leaf) => `(tactic| exact sim_scalarKind _ _ _ _ _)

theorem sim_aggOp (o : Ops V) (f inp : String) :
    Sim n (fun _ => True) (aggOp (σ := St V) o f inp) (aggOp (σ := ATab V) o f inp) := by
  unfold aggOp
  sim_auto
macro_rules | `(tactic| sim_leaf) => `(tactic| exact sim_aggOp _ _ _)

theorem sim_sumOp (o : Ops V) (inp : String) :
    Sim n (fun _ => True) (sumOp (σ := St V) o inp) (sumOp (σ := ATab V) o inp) := by
  unfold sumOp
  sim_auto

theorem sim_readAll (o : Ops V) (cols cells : List String) :
    Sim n (fun _ => True) (readAll (σ := St V) o cols cells) (readAll (σ := ATab V) o cols cells) := by
  unfold readAll
  sim_auto
macro_rules | `(tactic| sim_leaf) => `(tactic| exact sim_readAll _ _ _)

theorem sim_opaqueVoid (o : Ops V) (cols cells : List String) (out : String) (vals : List V) :
    Sim n (fun _ => True) (opaqueVoid (σ := St V) o cols cells out vals) (opaqueVoid (σ := ATab V) o cols cells out vals) := by
  unfold opaqueVoid
  sim_auto

theorem sim_reverser (o : Ops V) (inp out : String) :
    Sim n (fun _ => True) (reverser (σ := St V) o inp out) (reverser (σ := ATab V) o inp out) := by
  unfold reverser
  refine sim_bind sim_size (fun k hk => ?_)
  refine sim_bind (sim_mapL (Q := fun _ => True) _ (fun i _ => sim_getObs o inp _)) (fun temp ht => ?_)
  exact sim_setItem out (.list temp)

theorem sim_logVoid (o : Ops V) (inp out : String) :
    Sim n (fun _ => True) (logVoid (σ := St V) o inp out) (logVoid (σ := ATab V) o inp out) := by
  unfold logVoid
  refine sim_bind sim_size (fun k hk => ?_)
  refine sim_bind (sim_mapL (Q := fun _ => True) _ (fun i _ => ?_)) (fun temp ht => ?_)
  · sim_auto
  exact sim_setItem out (.list temp)

theorem sim_runVFn (o : Ops V) (f : VFn) (inp out : String) :
    Sim n (fun _ => True) (runVFn (σ := St V) o f inp out) (runVFn (σ := ATab V) o f inp out) := by
  cases f with
  | integrator => unfold runVFn; exact sim_bind (sim_unaryVoid o _ inp out) (fun _ _ => sim_pure _ trivial)
  | differentiator => unfold runVFn; exact sim_bind (sim_unaryVoid o _ inp out) (fun _ _ => sim_pure _ trivial)
  | log => unfold runVFn; exact sim_bind (sim_logVoid o inp out) (fun _ _ => sim_pure _ trivial)
  | apply name => unfold runVFn; sim_auto
macro_rules | `(tactic| sim_leaf) => `(tactic| exact sim_runVFn _ _ _ _)

theorem sim_absCurvOp (o : Ops V) :
    Sim n (fun _ => True) (absCurvOp (σ := St V) o) (absCurvOp (σ := ATab V) o) := by
  unfold absCurvOp
  sim_auto

theorem sim_estSpeedOp (o : Ops V) :
    Sim n (fun _ => True) (estSpeedOp (σ := St V) o) (estSpeedOp (σ := ATab V) o) := by
  unfold estSpeedOp
  sim_auto

theorem sim_segmentOp (o : Ops V) (inp out : String) (thr : V) :
    Sim n (fun _ => True) (segmentOp (σ := St V) o inp out thr) (segmentOp (σ := ATab V) o inp out thr) := by
  unfold segmentOp
  sim_auto

theorem sim_hasSV (sv : SV V) : Sim n (fun _ => True) (hasSV (σ := St V) sv) (hasSV (σ := ATab V) sv) := by
  cases sv <;> (unfold hasSV; sim_auto)
macro_rules | `(tactic| sim_leaf) => `(tactic| exact sim_hasSV _)

theorem sim_toFloat (o : Ops V) (sv : SV V) :
    Sim n (fun _ => True) (toFloat (σ := St V) o sv) (toFloat (σ := ATab V) o sv) := by
  cases sv with
  | tok s => unfold toFloat; simp only; cases o.parse s <;> sim_auto
  | num v => unfold toFloat; sim_auto
  | none => unfold toFloat; sim_auto
macro_rules | `(tactic| sim_leaf) => `(tactic| exact sim_toFloat _ _)

theorem sim_isFloat (o : Ops V) (sv : SV V) :
    Sim n (fun _ => True) (isFloat (σ := St V) o sv) (isFloat (σ := ATab V) o sv) := by
  cases sv <;> (unfold isFloat; sim_auto)
macro_rules | `(tactic| sim_leaf) => `(tactic| exact sim_isFloat _ _)

end TV.Features
