import TracklibVerif.Lemmas.ExprPre
import TracklibVerif.Lemmas.ExprRpn
/-! # Surface syntax of the expressions of `Track.operate` and its printed strings

`Sx` (what the user writes: `f{…}` calls, unary minus `(-…)`, explicit parentheses), `desugar` (what is
computed), `toE'` (the parser tree of the rewritten string), the printer `pr` (parametrised by the call
brackets and the unary-minus prefix, so that the source string, the intermediate strings of the
rewriting chain and the rewritten string are instances), and the ADJACENCY invariant of printed strings
(`okp`): which character may follow which. -/
namespace TV.Expr
open TV.Rpn

/-- surface trees: what the user writes -/
inductive Sx where
  | num (s : Str)
  | var (s : Str)
  | bin (o : Char) (l r : Sx)
  | call (f : Str) (e : Sx)
  | neg (e : Sx)
  | par (e : Sx)

/-- what the evaluator computes: unary minus is `0 - e`, explicit parentheses vanish -/
def desugar : Sx → Ex
  | .num s => .num s
  | .var s => .var s
  | .bin o l r => .bin o (desugar l) (desugar r)
  | .call f e => .call f (desugar e)
  | .neg e => .bin '-' (.num ['0']) (desugar e)
  | .par e => desugar e

/-- the parser tree of the REWRITTEN string -/
def toE' : Sx → E
  | .num s => .atom (String.ofList s)
  | .var s => .atom (String.ofList s)
  | .bin o l r => .bin o (toE' l) (toE' r)
  | .call f e => .bin '@' (.atom (String.ofList f)) (.par (toE' e))
  | .neg e => .par (.bin '-' (.atom (String.ofList ['0'])) (toE' e))
  | .par e => .par (toE' e)

/-- precedence level of the root, as `Rpn.lv pyLvl 9 (toE' e)` -/
def slv : Sx → Nat
  | .num _ => 9
  | .var _ => 9
  | .bin o _ _ => pyLvl o
  | .call _ _ => 7
  | .neg _ => 9
  | .par _ => 9

def wrapS (b : Bool) (s : Str) : Str := if b then '(' :: (s ++ [')']) else s

/-- the printer: minimal parentheses; a call is `f lb … rb`, a unary minus is `ng … )` -/
def pr (lb rb ng : Str) : Sx → Str
  | .num s => s
  | .var s => s
  | .bin o l r => wrapS (decide (slv l < pyLvl o)) (pr lb rb ng l) ++ o :: wrapS (decide (slv r ≤ pyLvl o)) (pr lb rb ng r)
  | .call f e => f ++ (lb ++ (pr lb rb ng e ++ rb))
  | .neg e => ng ++ (wrapS (decide (slv e ≤ 2)) (pr lb rb ng e) ++ [')'])
  | .par e => '(' :: (pr lb rb ng e ++ [')'])

/-- the SOURCE string: calls `f{…}`, unary minus `(-…)` -/
def src (e : Sx) : Str := pr ['{'] ['}'] ['(', '-'] e
/-- the REWRITTEN string: calls `f@(…)`, unary minus `(0-…)` -/
def tgt (e : Sx) : Str := pr ['@', '('] [')'] ['(', '0', '-'] e

/-! ## the rewritten string is the printed parser tree -/

theorem lv_toE' (e : Sx) : lv pyLvl 9 (toE' e) = slv e := by
  cases e <;> simp [toE', lv, slv] <;> decide

theorem flat_wrap (b : Bool) (ts : List Tok) : flat (wrap b ts) = wrapS b (flat ts) := by
  cases b <;> simp [wrap, wrapS, flat, flat_append]

theorem pyLvl_at : pyLvl '@' = 7 := by decide
theorem pyLvl_minus : pyLvl '-' = 2 := by decide

theorem tgt_eq (e : Sx) : tgt e = flat (shw pyLvl 9 (toE' e)) := by
  unfold tgt
  induction e with
  | num s => simp [pr, toE', shw, flat]
  | var s => simp [pr, toE', shw, flat]
  | bin o l r ihl ihr => simp only [pr, toE', shw, flat_append, flat, flat_wrap, lv_toE', ihl, ihr]
  | call f e ih =>
    simp only [pr, toE', shw, ih]
    simp only [lv, pyLvl_at, wrap, flat_append, flat]
    simp [flat, flat_append]
  | neg e ih =>
    simp only [pr, toE', shw, lv_toE', ih]
    simp only [lv, pyLvl_minus, flat_wrap, flat_append, flat]
    simp [wrapS]
  | par e ih => simp only [pr, toE', shw, flat_append, flat, ih]

theorem post_toE' (e : Sx) : (Rpn.post (toE' e)).map String.toList = Expr.post (desugar e) := by
  induction e with
  | num s => simp [toE', desugar, Rpn.post, Expr.post]
  | var s => simp [toE', desugar, Rpn.post, Expr.post]
  | bin o l r ihl ihr => simp [toE', desugar, Rpn.post, Expr.post, ihl, ihr]
  | call f e ih => simp [toE', desugar, Rpn.post, Expr.post, ih]
  | neg e ih => simp [toE', desugar, Rpn.post, Expr.post, ih]
  | par e ih => simp [toE', desugar, Rpn.post, ih]

/-! ## character classes and the adjacency relation -/

inductive Cls where
  | A | O | L | R | LB | RB
  deriving DecidableEq

def cls (c : Char) : Cls :=
  if c = '(' then .L else if c = ')' then .R else if c = '{' then .LB else if c = '}' then .RB
  else if pyLvl c < 9 then .O else .A

/-- which character may directly follow which in a printed string (source, intermediate or rewritten) -/
def okp (a b : Char) : Bool :=
  match cls a, cls b with
  | .A, .A => true
  | .A, .O => !(a == '.' && b == '*')
  | .A, .R => true
  | .A, .RB => true
  | .A, .LB => true
  | .O, .A => true
  | .O, .L => true
  | .L, .A => true
  | .L, .L => true
  | .L, .O => b == '-'
  | .R, .O => true
  | .R, .R => true
  | .R, .RB => true
  | .LB, .A => true
  | .LB, .L => true
  | .RB, .O => true
  | .RB, .R => true
  | .RB, .RB => true
  | _, _ => false

/-- may start an expression -/
def startC (c : Char) : Prop := cls c = .A ∨ cls c = .L
/-- may end an expression -/
def endC (c : Char) : Prop := (cls c = .A ∧ c ≠ '.') ∨ cls c = .R ∨ cls c = .RB

theorem cls_op {o : Char} (h : pyLvl o < 9) : cls o = .O := by
  have h1 : o ≠ '(' := by intro e; subst e; revert h; decide
  have h2 : o ≠ ')' := by intro e; subst e; revert h; decide
  have h3 : o ≠ '{' := by intro e; subst e; revert h; decide
  have h4 : o ≠ '}' := by intro e; subst e; revert h; decide
  simp [cls, h1, h2, h3, h4, h]

theorem okp_op_start {o y : Char} (ho : cls o = .O) (hy : startC y) : okp o y = true := by
  rcases hy with hy | hy <;> simp [okp, ho, hy]

theorem okp_end_op {x o : Char} (hx : endC x) (ho : cls o = .O) : okp x o = true := by
  rcases hx with ⟨hx, hd⟩ | hx | hx
  · simp [okp, ho, hx, hd]
  · simp [okp, ho, hx]
  · simp [okp, ho, hx]

theorem okp_lp_start {y : Char} (hy : startC y) : okp '(' y = true := by
  have : cls '(' = .L := by decide
  rcases hy with hy | hy <;> simp [okp, this, hy]

theorem okp_end_rp {x : Char} (hx : endC x) : okp x ')' = true := by
  have : cls ')' = .R := by decide
  rcases hx with ⟨hx, _⟩ | hx | hx <;> simp [okp, this, hx]

theorem okp_end_rb {x : Char} (hx : endC x) : okp x '}' = true := by
  have : cls '}' = .RB := by decide
  rcases hx with ⟨hx, _⟩ | hx | hx <;> simp [okp, this, hx]

theorem okp_A_lb {x : Char} (hx : cls x = .A) : okp x '{' = true := by
  have : cls '{' = .LB := by decide
  simp [okp, this, hx]

theorem okp_A_at {x : Char} (hx : cls x = .A) : okp x '@' = true := by
  have : cls '@' = .O := by decide
  simp [okp, this, hx]

theorem okp_lb_start {y : Char} (hy : startC y) : okp '{' y = true := by
  have : cls '{' = .LB := by decide
  rcases hy with hy | hy <;> simp [okp, this, hy]

theorem okp_A_A {x y : Char} (hx : cls x = .A) (hy : cls y = .A) : okp x y = true := by
  simp [okp, hx, hy]

theorem startC_ne {c : Char} (h : startC c) : c ≠ '-' ∧ c ≠ '+' := by
  constructor <;> (intro e; subst e; rcases h with h | h <;> revert h <;> decide)

theorem endC_ne {c : Char} (h : endC c) : c ≠ '(' := by
  intro e; subst e
  rcases h with ⟨h, _⟩ | h | h <;> revert h <;> decide

/-! ## segments -/

/-- a non-empty chain with its first and last character -/
def Seg (s : Str) (a z : Char) : Prop := chn okp s = true ∧ s.head? = some a ∧ s.getLast? = some z

theorem Seg.one (c : Char) : Seg [c] c c := ⟨rfl, rfl, rfl⟩

theorem Seg.append {s t : Str} {a z a' z' : Char} (hs : Seg s a z) (ht : Seg t a' z') (h : okp z a' = true) :
    Seg (s ++ t) a z' := by
  obtain ⟨h1, h2, h3⟩ := hs
  obtain ⟨k1, k2, k3⟩ := ht
  refine ⟨?_, ?_, ?_⟩
  · rw [chn_append, h1, k1]; simp [junc, h3, k2, h]
  · simp [List.head?_append, h2]
  · simp [List.getLast?_append, k3]

theorem Seg.cons {t : Str} {c a' z' : Char} (ht : Seg t a' z') (h : okp c a' = true) : Seg (c :: t) c z' :=
  Seg.append (Seg.one c) ht h

theorem Seg.snoc {s : Str} {a z c : Char} (hs : Seg s a z) (h : okp z c = true) : Seg (s ++ [c]) a c :=
  Seg.append hs (Seg.one c) h

theorem seg_atom : ∀ (s : Str), s ≠ [] → (∀ c ∈ s, cls c = .A) → ∃ a z, Seg s a z ∧ cls a = .A ∧ cls z = .A
  | [], h, _ => absurd rfl h
  | [c], _, h => ⟨c, c, Seg.one c, h c (by simp), h c (by simp)⟩
  | c :: d :: r, _, h => by
    obtain ⟨a, z, hseg, ha, hz⟩ := seg_atom (d :: r) (by simp) (fun x hx => h x (List.mem_cons_of_mem _ hx))
    have had : a = d := by have := hseg.2.1; simpa using this.symm
    subst had
    exact ⟨c, z, Seg.cons hseg (okp_A_A (h c (by simp)) ha), h c (by simp), hz⟩

/-- a printed expression: a chain that starts like an expression and ends like one -/
def Inv (s : Str) : Prop := ∃ a z, Seg s a z ∧ startC a ∧ endC z

theorem Inv.chn {s : Str} (h : Inv s) : chn okp s = true := by
  obtain ⟨_, _, h, _, _⟩ := h; exact h.1

theorem Inv.head {s : Str} (h : Inv s) : ∃ c, s.head? = some c ∧ c ≠ '-' ∧ c ≠ '+' := by
  obtain ⟨a, _, h, ha, _⟩ := h; exact ⟨a, h.2.1, startC_ne ha⟩

theorem Inv.head_ne {s : Str} (h : Inv s) : s.head? ≠ some '-' := by
  obtain ⟨c, hc, h1, _⟩ := h.head
  rw [hc]; intro e; exact h1 (Option.some.inj e)

theorem Inv.last_ne {s : Str} (h : Inv s) : s.getLast? ≠ some '(' := by
  obtain ⟨_, z, h, _, hz⟩ := h
  rw [h.2.2]; intro e; exact endC_ne hz (Option.some.inj e)

theorem Inv.paren {s : Str} (h : Inv s) : Inv ('(' :: (s ++ [')'])) := by
  obtain ⟨a, z, hs, ha, hz⟩ := h
  exact ⟨'(', ')', Seg.cons (Seg.snoc hs (okp_end_rp hz)) (okp_lp_start ha), Or.inr (by decide), Or.inr (Or.inl (by decide))⟩

theorem Inv.wrap {s : Str} (b : Bool) (h : Inv s) : Inv (wrapS b s) := by
  cases b with
  | false => exact h
  | true => exact h.paren

theorem Inv.bin {s t : Str} {o : Char} (hs : Inv s) (ht : Inv t) (ho : pyLvl o < 9) : Inv (s ++ o :: t) := by
  obtain ⟨a, z, hs, ha, hz⟩ := hs
  obtain ⟨a', z', ht, ha', hz'⟩ := ht
  exact ⟨a, z', Seg.append hs (Seg.cons ht (okp_op_start (cls_op ho) ha')) (okp_end_op hz (cls_op ho)), ha, hz'⟩

end TV.Expr
