import TracklibVerif.Lemmas.Simplify
import Mathlib.Algebra.Order.Field.Basic
import Mathlib.Tactic.Ring
import Mathlib.Tactic.Linarith
import Mathlib.Tactic.FieldSimp
import Mathlib.Tactic.LinearCombination
/-! Geometry of `distance_to_segment` and the tolerance of Douglas–Peucker over a linearly ordered field,
with `math.sqrt` replaced by any function satisfying `SqrtOK` (e.g. `Real.sqrt`). -/
namespace TV.Simplify
set_option linter.unusedSectionVars false
variable {α : Type} [Field α] [LinearOrder α] [IsStrictOrderedRing α]

/-- contract of the square root used by the code -/
def SqrtOK (sqrt : α → α) : Prop := ∀ x, 0 ≤ x → 0 ≤ sqrt x ∧ sqrt x * sqrt x = x

/-- squared distance from `(x0, y0)` to the point of parameter `t` of the segment `(x1, y1) – (x2, y2)` -/
def q2 (x0 y0 x1 y1 x2 y2 t : α) : α :=
  (x0 - (x1 + t * (x2 - x1))) * (x0 - (x1 + t * (x2 - x1))) + (y0 - (y1 + t * (y2 - y1))) * (y0 - (y1 + t * (y2 - y1)))

theorem q2_nonneg (x0 y0 x1 y1 x2 y2 t : α) : 0 ≤ q2 x0 y0 x1 y1 x2 y2 t :=
  add_nonneg (mul_self_nonneg _) (mul_self_nonneg _)

theorem pmax_eq (a b : α) : pmax a b = max a b := by
  unfold pmax
  rcases lt_trichotomy a b with h | h | h
  · rw [if_pos h, max_eq_right (le_of_lt h)]
  · subst h; simp
  · rw [if_neg (not_lt.mpr (le_of_lt h)), max_eq_left (le_of_lt h)]

theorem pmin_eq (a b : α) : pmin a b = min a b := by
  unfold pmin
  rcases lt_trichotomy a b with h | h | h
  · rw [if_neg (not_lt.mpr (le_of_lt h)), min_eq_left (le_of_lt h)]
  · subst h; simp
  · rw [if_pos h, min_eq_right (le_of_lt h)]

/-- clamping one coordinate of the projected point to the segment's box is clamping the parameter to `[0, 1]` -/
theorem clamp_affine (x1 dx s : α) :
    min (max (x1 + s * dx) (min x1 (x1 + dx))) (max x1 (x1 + dx)) = x1 + max 0 (min s 1) * dx := by
  rcases le_total 0 dx with hdx | hdx
  · rw [min_eq_left (by linarith : x1 ≤ x1 + dx), max_eq_right (by linarith : x1 ≤ x1 + dx)]
    rcases le_total s 0 with hs | hs
    · have h1 : s * dx ≤ 0 := mul_nonpos_of_nonpos_of_nonneg hs hdx
      rw [max_eq_right (by linarith), min_eq_left (by linarith), min_eq_left (by linarith : s ≤ 1), max_eq_left hs]
      ring
    · rcases le_total s 1 with hs1 | hs1
      · have h1 : 0 ≤ s * dx := mul_nonneg hs hdx
        have h2 : s * dx ≤ 1 * dx := mul_le_mul_of_nonneg_right hs1 hdx
        rw [max_eq_left (by linarith), min_eq_left (by linarith), min_eq_left hs1, max_eq_right hs]
      · have h2 : 1 * dx ≤ s * dx := mul_le_mul_of_nonneg_right hs1 hdx
        rw [max_eq_left (by linarith), min_eq_right (by linarith), min_eq_right hs1, max_eq_right (by linarith)]
        ring
  · rw [min_eq_right (by linarith : x1 + dx ≤ x1), max_eq_left (by linarith : x1 + dx ≤ x1)]
    rcases le_total s 0 with hs | hs
    · have h1 : 0 ≤ s * dx := mul_nonneg_of_nonpos_of_nonpos hs hdx
      rw [max_eq_left (by linarith), min_eq_right (by linarith), min_eq_left (by linarith : s ≤ 1), max_eq_left hs]
      ring
    · rcases le_total s 1 with hs1 | hs1
      · have h1 : s * dx ≤ 0 := mul_nonpos_of_nonneg_of_nonpos hs hdx
        have h2 : 1 * dx ≤ s * dx := mul_le_mul_of_nonpos_right hs1 hdx
        rw [max_eq_left (by linarith), min_eq_left (by linarith), min_eq_left hs1, max_eq_right hs]
      · have h2 : s * dx ≤ 1 * dx := mul_le_mul_of_nonpos_right hs1 hdx
        rw [max_eq_right (by linarith), min_eq_left (by linarith), min_eq_right hs1, max_eq_right (by linarith)]
        ring


theorem q2_diff (x0 y0 x1 y1 x2 y2 t s : α)
    (hl : (x2 - x1) * (x2 - x1) + (y2 - y1) * (y2 - y1) ≠ 0) :
    q2 x0 y0 x1 y1 x2 y2 t - q2 x0 y0 x1 y1 x2 y2 s =
      ((x2 - x1) * (x2 - x1) + (y2 - y1) * (y2 - y1)) * ((t - s) * (t + s - 2 *
        (((x0 - x1) * (x2 - x1) + (y0 - y1) * (y2 - y1)) / ((x2 - x1) * (x2 - x1) + (y2 - y1) * (y2 - y1))))) := by
  have hD := div_mul_cancel₀ ((x0 - x1) * (x2 - x1) + (y0 - y1) * (y2 - y1)) hl
  generalize ((x0 - x1) * (x2 - x1) + (y0 - y1) * (y2 - y1)) / ((x2 - x1) * (x2 - x1) + (y2 - y1) * (y2 - y1)) = t0 at hD ⊢
  unfold q2
  linear_combination (2 * (t - s)) * hD

/-- the parameter clamped to `[0,1]` minimises the squared distance over `[0,1]` -/
theorem q2_clamp_min (x0 y0 x1 y1 x2 y2 t : α)
    (hl : (x2 - x1) * (x2 - x1) + (y2 - y1) * (y2 - y1) ≠ 0) (ht0 : 0 ≤ t) (ht1 : t ≤ 1) :
    q2 x0 y0 x1 y1 x2 y2 (max 0 (min (((x0 - x1) * (x2 - x1) + (y0 - y1) * (y2 - y1)) /
        ((x2 - x1) * (x2 - x1) + (y2 - y1) * (y2 - y1))) 1)) ≤ q2 x0 y0 x1 y1 x2 y2 t := by
  have hpos : 0 ≤ (x2 - x1) * (x2 - x1) + (y2 - y1) * (y2 - y1) := add_nonneg (mul_self_nonneg _) (mul_self_nonneg _)
  have key := q2_diff x0 y0 x1 y1 x2 y2 t (max 0 (min (((x0 - x1) * (x2 - x1) + (y0 - y1) * (y2 - y1)) /
        ((x2 - x1) * (x2 - x1) + (y2 - y1) * (y2 - y1))) 1)) hl
  generalize ((x0 - x1) * (x2 - x1) + (y0 - y1) * (y2 - y1)) / ((x2 - x1) * (x2 - x1) + (y2 - y1) * (y2 - y1)) = t0 at key ⊢
  suffices h : 0 ≤ (t - max 0 (min t0 1)) * (t + max 0 (min t0 1) - 2 * t0) by
    have := mul_nonneg hpos h
    linarith
  rcases le_total t0 0 with h0 | h0
  · rw [min_eq_left (by linarith : t0 ≤ 1), max_eq_left h0]
    exact mul_nonneg (by linarith) (by linarith)
  · rcases le_total t0 1 with h1 | h1
    · rw [min_eq_left h1, max_eq_right h0]
      have : (t - t0) * (t + t0 - 2 * t0) = (t - t0) * (t - t0) := by ring
      rw [this]; exact mul_self_nonneg _
    · rw [min_eq_right h1, max_eq_right (by linarith : (0 : α) ≤ 1)]
      exact mul_nonneg_of_nonpos_of_nonpos (by linarith) (by linarith)

theorem max0min1_mem (s : α) : 0 ≤ max 0 (min s 1) ∧ max 0 (min s 1) ≤ 1 :=
  ⟨le_max_left _ _, max_le (by linarith) (min_le_right _ _)⟩

/-- **`distance_to_segment` is the distance to the closed segment** (squared form): its value `d` is
non-negative, `d²` is the squared distance from `P` to *some* point `A + t(B−A)`, `0 ≤ t ≤ 1`, and no point
of the segment is closer. Degenerate segments (`A = B`) included. -/
theorem dist_seg_spec (sqrt : α → α) (hs : SqrtOK sqrt) (x0 y0 x1 y1 x2 y2 : α) :
    0 ≤ distanceToSegment sqrt x0 y0 x1 y1 x2 y2 ∧
    (∃ t, 0 ≤ t ∧ t ≤ 1 ∧ distanceToSegment sqrt x0 y0 x1 y1 x2 y2 * distanceToSegment sqrt x0 y0 x1 y1 x2 y2 =
        q2 x0 y0 x1 y1 x2 y2 t) ∧
    (∀ t, 0 ≤ t → t ≤ 1 → distanceToSegment sqrt x0 y0 x1 y1 x2 y2 * distanceToSegment sqrt x0 y0 x1 y1 x2 y2 ≤
        q2 x0 y0 x1 y1 x2 y2 t) := by
  have hlen : 0 ≤ (x2 - x1) * (x2 - x1) + (y2 - y1) * (y2 - y1) := add_nonneg (mul_self_nonneg _) (mul_self_nonneg _)
  obtain ⟨hl0, hll⟩ := hs _ hlen
  simp only [distanceToSegment, pmax_eq, pmin_eq, beq_iff_eq]
  split
  · rename_i hz
    rw [hz] at hll
    have hdx : x2 - x1 = 0 := by
      have := (mul_self_add_mul_self_eq_zero.mp (by linarith : (x2 - x1) * (x2 - x1) + (y2 - y1) * (y2 - y1) = 0)).1
      exact this
    have hdy : y2 - y1 = 0 := by
      have := (mul_self_add_mul_self_eq_zero.mp (by linarith : (x2 - x1) * (x2 - x1) + (y2 - y1) * (y2 - y1) = 0)).2
      exact this
    have hp : 0 ≤ (x0 - x1) * (x0 - x1) + (y0 - y1) * (y0 - y1) := add_nonneg (mul_self_nonneg _) (mul_self_nonneg _)
    obtain ⟨hd0, hdd⟩ := hs _ hp
    have hq : ∀ t, q2 x0 y0 x1 y1 x2 y2 t = (x0 - x1) * (x0 - x1) + (y0 - y1) * (y0 - y1) := by
      intro t; unfold q2; rw [hdx, hdy]; ring
    refine ⟨hd0, ⟨0, le_refl _, zero_le_one, ?_⟩, fun t _ _ => ?_⟩
    · rw [hq, hdd]
    · rw [hq, hdd]
  · rename_i hnz
    have hne : (x2 - x1) * (x2 - x1) + (y2 - y1) * (y2 - y1) ≠ 0 := by
      intro h0
      exact hnz (mul_self_eq_zero.mp (hll.trans h0))
    have ht : ((x0 - x1) * (x2 - x1) + (y0 - y1) * (y2 - y1)) /
          sqrt ((x2 - x1) * (x2 - x1) + (y2 - y1) * (y2 - y1)) / sqrt ((x2 - x1) * (x2 - x1) + (y2 - y1) * (y2 - y1)) =
        ((x0 - x1) * (x2 - x1) + (y0 - y1) * (y2 - y1)) / ((x2 - x1) * (x2 - x1) + (y2 - y1) * (y2 - y1)) := by
      rw [div_div, hll]
    rw [ht]
    generalize htt : ((x0 - x1) * (x2 - x1) + (y0 - y1) * (y2 - y1)) / ((x2 - x1) * (x2 - x1) + (y2 - y1) * (y2 - y1)) = t0
    have ex : min (max (x1 + t0 * (x2 - x1)) (min x1 x2)) (max x1 x2) = x1 + max 0 (min t0 1) * (x2 - x1) := by
      have := clamp_affine x1 (x2 - x1) t0
      rwa [show x1 + (x2 - x1) = x2 by ring] at this
    have ey : min (max (y1 + t0 * (y2 - y1)) (min y1 y2)) (max y1 y2) = y1 + max 0 (min t0 1) * (y2 - y1) := by
      have := clamp_affine y1 (y2 - y1) t0
      rwa [show y1 + (y2 - y1) = y2 by ring] at this
    rw [ex, ey]
    have hq : (x0 - (x1 + max 0 (min t0 1) * (x2 - x1))) * (x0 - (x1 + max 0 (min t0 1) * (x2 - x1))) +
        (y0 - (y1 + max 0 (min t0 1) * (y2 - y1))) * (y0 - (y1 + max 0 (min t0 1) * (y2 - y1))) =
        q2 x0 y0 x1 y1 x2 y2 (max 0 (min t0 1)) := rfl
    rw [hq]
    obtain ⟨hd0, hdd⟩ := hs _ (q2_nonneg x0 y0 x1 y1 x2 y2 (max 0 (min t0 1)))
    refine ⟨hd0, ⟨_, (max0min1_mem t0).1, (max0min1_mem t0).2, hdd⟩, fun t h0 h1 => ?_⟩
    rw [hdd, ← htt]
    exact q2_clamp_min x0 y0 x1 y1 x2 y2 t hne h0 h1


/-- the square-root-free form: `distance_to_segment² = distSegSq` -/
theorem dist_sq_eq (sqrt : α → α) (hs : SqrtOK sqrt) (x0 y0 x1 y1 x2 y2 : α) :
    distanceToSegment sqrt x0 y0 x1 y1 x2 y2 * distanceToSegment sqrt x0 y0 x1 y1 x2 y2 =
      distSegSq x0 y0 x1 y1 x2 y2 := by
  obtain ⟨_, ⟨t', h0, h1, he⟩, hmin⟩ := dist_seg_spec sqrt hs x0 y0 x1 y1 x2 y2
  simp only [distSegSq, pmax_eq, pmin_eq, beq_iff_eq]
  split
  · rename_i hz
    have hdx := (mul_self_add_mul_self_eq_zero.mp hz).1
    have hdy := (mul_self_add_mul_self_eq_zero.mp hz).2
    rw [he]; unfold q2; rw [hdx, hdy]; ring
  · rename_i hnz
    apply le_antisymm
    · exact hmin _ (max0min1_mem _).1 (max0min1_mem _).2
    · rw [he]; exact q2_clamp_min x0 y0 x1 y1 x2 y2 t' hnz h0 h1

/-- a fix is at distance 0 from a chord that starts at it -/
theorem distFix_self (sqrt : α → α) (hs : SqrtOK sqrt) (a b : Fix α) : distFix sqrt a b a = 0 := by
  obtain ⟨h0, _, hmin⟩ := dist_seg_spec sqrt hs a.x a.y a.x a.y b.x b.y
  have h := hmin 0 (le_refl _) zero_le_one
  have hq : q2 a.x a.y a.x a.y b.x b.y 0 = 0 := by unfold q2; ring
  rw [hq] at h
  unfold distFix
  have := mul_self_nonneg (distanceToSegment sqrt a.x a.y a.x a.y b.x b.y)
  exact mul_self_eq_zero.mp (le_antisymm h this)

/-- the farthest search returns an upper bound of all scanned distances -/
theorem farthest_ub (sqrt : α → α) (a b : Fix α) (rest : List (Fix α)) (i : Nat) (dmax : α) (imax : Nat) :
    dmax ≤ (farthest sqrt a b rest i dmax imax).1 ∧
      ∀ p ∈ rest, distFix sqrt a b p ≤ (farthest sqrt a b rest i dmax imax).1 := by
  induction rest generalizing i dmax imax with
  | nil => exact ⟨le_refl _, fun p hp => by simp at hp⟩
  | cons p rest ih =>
    unfold farthest
    simp only
    split
    · rename_i hgt
      obtain ⟨h1, h2⟩ := ih (i + 1) (distFix sqrt a b p) i
      refine ⟨le_trans (le_of_lt hgt) h1, fun x hx => ?_⟩
      rcases List.mem_cons.mp hx with rfl | hx
      · exact h1
      · exact h2 x hx
    · rename_i hgt
      obtain ⟨h1, h2⟩ := ih (i + 1) dmax imax
      refine ⟨h1, fun x hx => ?_⟩
      rcases List.mem_cons.mp hx with rfl | hx
      · exact le_trans (not_lt.mp hgt) h1
      · exact h2 x hx

/-- `p` is within `√e2` of the closed segment `[a, b]` (true point–segment distance, squared) -/
def Near (e2 : α) (p a b : Fix α) : Prop :=
  ∃ t, 0 ≤ t ∧ t ≤ 1 ∧ q2 p.x p.y a.x a.y b.x b.y t ≤ e2

/-- `p` is within `√e2` of the polyline `out`: of one of its segments (consecutive vertices) -/
def Covered (e2 : α) (out : List (Fix α)) (p : Fix α) : Prop :=
  ∃ a b, [a, b] <:+: out ∧ Near e2 p a b

theorem mem_pair {β : Type} (p : β) (out : List β) (hp : p ∈ out) (h2 : 2 ≤ out.length) :
    ∃ q, [p, q] <:+: out ∨ [q, p] <:+: out := by
  obtain ⟨s, t, rfl⟩ := List.append_of_mem hp
  cases t with
  | cons q t' => exact ⟨q, Or.inl ⟨s, t', by simp⟩⟩
  | nil =>
    rcases List.eq_nil_or_concat s with rfl | ⟨s', q, rfl⟩
    · simp at h2
    · exact ⟨q, Or.inr ⟨s', [], by simp⟩⟩

theorem dpFuel_cover (sqrt : α → α) (hs : SqrtOK sqrt) (eps : α) (fuel : Nat)
    (L out : List (Fix α)) (h : dpFuel sqrt eps fuel L = some out) :
    ∀ p ∈ L, p ∈ out ∨ Covered (eps * eps) out p := by
  refine dpFuel_ind sqrt eps (fun L out => ∀ p ∈ L, p ∈ out ∨ Covered (eps * eps) out p) ?_ ?_ ?_ fuel L out h
  · intro L _ p hp; exact Or.inl hp
  · intro a p q rest hlt x hx
    right
    refine ⟨a, chordEnd q rest, List.infix_refl _, ?_⟩
    have hle := (farthest_ub sqrt a (chordEnd q rest) (a :: p :: q :: rest) 0 0 0).2 x hx
    obtain ⟨h0, ⟨t, ht0, ht1, hq⟩, _⟩ := dist_seg_spec sqrt hs x.x x.y a.x a.y (chordEnd q rest).x (chordEnd q rest).y
    refine ⟨t, ht0, ht1, ?_⟩
    rw [← hq]
    have hd : distanceToSegment sqrt x.x x.y a.x a.y (chordEnd q rest).x (chordEnd q rest).y ≤ eps :=
      le_of_lt (lt_of_le_of_lt hle hlt)
    exact mul_self_le_mul_self h0 hd
  · intro a p q rest o1 o2 _ h1 h2 x hx
    rw [← List.take_append_drop (farthest sqrt a (chordEnd q rest) (a :: p :: q :: rest) 0 0 0).2 (a :: p :: q :: rest)] at hx
    rcases List.mem_append.mp hx with hx | hx
    · rcases h1 x hx with hm | ⟨u, v, hi, hn⟩
      · exact Or.inl (List.mem_append_left _ hm)
      · exact Or.inr ⟨u, v, hi.trans (List.prefix_append o1 o2).isInfix, hn⟩
    · rcases h2 x hx with hm | ⟨u, v, hi, hn⟩
      · exact Or.inl (List.mem_append_right _ hm)
      · exact Or.inr ⟨u, v, hi.trans (List.suffix_append o1 o2).isInfix, hn⟩

/-- tolerance: every input fix is within `eps` of a segment of the simplified polyline -/
theorem dpFuel_tolerance (sqrt : α → α) (hs : SqrtOK sqrt) (eps : α) (fuel : Nat)
    (L out : List (Fix α)) (h : dpFuel sqrt eps fuel L = some out) (h2 : 2 ≤ L.length) :
    ∀ p ∈ L, Covered (eps * eps) out p := by
  intro p hp
  rcases dpFuel_cover sqrt hs eps fuel L out h p hp with hm | hc
  · have hlen := dpFuel_two_le sqrt eps fuel L out h h2
    have he : (0 : α) ≤ eps * eps := mul_self_nonneg eps
    obtain ⟨q, hq | hq⟩ := mem_pair p out hm hlen
    · refine ⟨p, q, hq, 0, le_refl _, zero_le_one, ?_⟩
      have : q2 p.x p.y p.x p.y q.x q.y 0 = 0 := by unfold q2; ring
      rw [this]; exact he
    · refine ⟨q, p, hq, 1, zero_le_one, le_refl _, ?_⟩
      have : q2 p.x p.y q.x q.y p.x p.y 1 = 0 := by unfold q2; ring
      rw [this]; exact he
  · exact hc


theorem dpAllFuel_cover (sqrt : α → α) (hs : SqrtOK sqrt) (eps : α) (fuel : Nat)
    (L out : List (Fix α)) (h : out ∈ dpAllFuel sqrt eps fuel L) :
    ∀ p ∈ L, p ∈ out ∨ Covered (eps * eps) out p := by
  refine dpAllFuel_ind sqrt eps (fun L out => ∀ p ∈ L, p ∈ out ∨ Covered (eps * eps) out p) ?_ ?_ ?_ fuel L out h
  · intro L _ p hp; exact Or.inl hp
  · intro a p q rest hlt x hx
    right
    refine ⟨a, chordEnd q rest, List.infix_refl _, ?_⟩
    have hle := (farthest_ub sqrt a (chordEnd q rest) (a :: p :: q :: rest) 0 0 0).2 x hx
    obtain ⟨h0, ⟨t, ht0, ht1, hq⟩, _⟩ := dist_seg_spec sqrt hs x.x x.y a.x a.y (chordEnd q rest).x (chordEnd q rest).y
    refine ⟨t, ht0, ht1, ?_⟩
    rw [← hq]
    have hd : distanceToSegment sqrt x.x x.y a.x a.y (chordEnd q rest).x (chordEnd q rest).y ≤ eps :=
      le_of_lt (lt_of_le_of_lt hle hlt)
    exact mul_self_le_mul_self h0 hd
  · intro L i o1 o2 h1 h2 x hx
    rw [← List.take_append_drop i L] at hx
    rcases List.mem_append.mp hx with hx | hx
    · rcases h1 x hx with hm | ⟨u, v, hi, hn⟩
      · exact Or.inl (List.mem_append_left _ hm)
      · exact Or.inr ⟨u, v, hi.trans (List.prefix_append o1 o2).isInfix, hn⟩
    · rcases h2 x hx with hm | ⟨u, v, hi, hn⟩
      · exact Or.inl (List.mem_append_right _ hm)
      · exact Or.inr ⟨u, v, hi.trans (List.suffix_append o1 o2).isInfix, hn⟩

theorem dpAllFuel_tolerance (sqrt : α → α) (hs : SqrtOK sqrt) (eps : α) (fuel : Nat)
    (L out : List (Fix α)) (h : out ∈ dpAllFuel sqrt eps fuel L) (h2 : 2 ≤ L.length) :
    ∀ p ∈ L, Covered (eps * eps) out p := by
  intro p hp
  rcases dpAllFuel_cover sqrt hs eps fuel L out h p hp with hm | hc
  · have hlen := dpAllFuel_two_le sqrt eps fuel L out h h2
    have he : (0 : α) ≤ eps * eps := mul_self_nonneg eps
    obtain ⟨q, hq | hq⟩ := mem_pair p out hm hlen
    · refine ⟨p, q, hq, 0, le_refl _, zero_le_one, ?_⟩
      have : q2 p.x p.y p.x p.y q.x q.y 0 = 0 := by unfold q2; ring
      rw [this]; exact he
    · refine ⟨q, p, hq, 1, zero_le_one, le_refl _, ?_⟩
      have : q2 p.x p.y q.x q.y p.x p.y 1 = 0 := by unfold q2; ring
      rw [this]; exact he
  · exact hc

end TV.Simplify
