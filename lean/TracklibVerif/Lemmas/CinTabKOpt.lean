import TracklibVerif.Lemmas.CinTabK
import TracklibVerif.Lemmas.CinTabOpt
/-! Feature values `Option α` (`none` = NaN) and positions `V3 α` of any coordinate class: the columns computed by the
class-dispatching table programs are the prefix sums / quotients of the distance `d` the class defines, taken on the
current positions. -/
namespace TV.CinTabK
open TV.Features TV.CinTab TV.Cinematics
open TV.Geo (V3)

variable {α : Type}

/-- coordinate columns of finite positions (`getX()/getY()/getZ()` of every fix) -/
def xsP (P : List (V3 α)) : List (Option α) := P.map (fun p => some p.x)
def ysP (P : List (V3 α)) : List (Option α) := P.map (fun p => some p.y)
def zsP (P : List (V3 α)) : List (Option α) := P.map (fun p => some p.z)

section spec
variable [Add α] [Sub α] [Div α] [OfNat α 0] [BEq α]

/-- `ds(track, i)` for the distance `d` (`d self point` = `self.distance2DTo(point)`) -/
def dsAtD (d : V3 α → V3 α → α) (P : List (V3 α)) (i : Nat) : Option α :=
  if i = 0 then some 0
  else match P[i]?, P[i - 1]? with
    | some p, some q => some (d p q)
    | _, _ => none

/-- cumulated length of the first `i` legs, leg `k` being `d P[k+1] P[k]` (`P[k+1].distance2DTo(P[k])`: for Geo the
horizontal part of the chord in the tangent frame at fix `k`) -/
def abscD (d : V3 α → V3 α → α) (P : List (V3 α)) : Nat → α
  | 0 => 0
  | i + 1 => abscD d P i + (match P[i + 1]?, P[i]? with
      | some p, some q => d p q
      | _, _ => 0)

/-- what `computeCurvAbsBetweenTwoPoints` accumulates: leg `k` is `d P[k] P[k+1]` (`P[k].distance2DTo(P[k+1])`) -/
def curvD (d : V3 α → V3 α → α) (P : List (V3 α)) : Nat → α
  | 0 => 0
  | i + 1 => curvD d P i + (match P[i]?, P[i + 1]? with
      | some p, some q => d p q
      | _, _ => 0)

/-- speed from the later fix `a` and the earlier fix `b`: NaN when no time elapsed, else `d P[a] P[b]` / elapsed -/
def speedBetweenD (d : V3 α → V3 α → α) (P : List (V3 α)) (ts : List α) (a b : Nat) : Option α :=
  match P[a]?, P[b]?, ts[a]?, ts[b]? with
  | some pa, some pb, some ta, some tb => quot (d pa pb) (ta - tb)
  | _, _, _, _ => none

/-- `speed(track, i)`: fixes (1,0) at the start, (n-1,n-2) at the end, (i+1,i-1) inside -/
def speedAtD (d : V3 α → V3 α → α) (P : List (V3 α)) (ts : List α) (i : Nat) : Option α :=
  let n := P.length
  if i = 0 then speedBetweenD d P ts 1 0
  else if i = n - 1 then speedBetweenD d P ts (n - 1) (n - 2)
  else speedBetweenD d P ts (i + 1) (i - 1)

def speedColD (d : V3 α → V3 α → α) (P : List (V3 α)) (ts : List α) : Col α :=
  (List.range P.length).map (speedAtD d P ts)

theorem abscD_succ (d : V3 α → V3 α → α) (P : List (V3 α)) (i : Nat) (h : i + 1 < P.length) :
    abscD d P (i + 1) = abscD d P i + d (P[i + 1]'h) (P[i]'(Nat.lt_of_succ_lt h)) := by
  have h1 : P[i + 1]? = some (P[i + 1]'h) := List.getElem?_eq_getElem h
  have h0 : P[i]? = some (P[i]'(Nat.lt_of_succ_lt h)) := List.getElem?_eq_getElem (Nat.lt_of_succ_lt h)
  simp only [abscD, h1, h0]

theorem dsAtD_succ (d : V3 α → V3 α → α) (P : List (V3 α)) (i : Nat) (h : i + 1 < P.length) :
    dsAtD d P (i + 1) = some (d (P[i + 1]'h) (P[i]'(Nat.lt_of_succ_lt h))) := by
  have h1 : P[i + 1]? = some (P[i + 1]'h) := List.getElem?_eq_getElem h
  have h0 : P[i]? = some (P[i]'(Nat.lt_of_succ_lt h)) := List.getElem?_eq_getElem (Nat.lt_of_succ_lt h)
  simp only [dsAtD, Nat.add_one_ne_zero, ↓reduceIte, Nat.add_sub_cancel, h1, h0]

theorem integLoop_dsD (d : V3 α → V3 α → α) (P : List (V3 α)) :
    ∀ m s, s + m < P.length →
      integLoop (some (abscD d P s)) ((List.range' (s + 1) m).map (dsAtD d P))
        = (List.range' (s + 1) m).map (fun i => some (abscD d P i)) := by
  intro m
  induction m with
  | zero => intro s _; simp [integLoop]
  | succ m ih =>
    intro s h
    have hs : s + 1 < P.length := by omega
    simp only [List.range'_succ, List.map_cons, integLoop]
    rw [dsAtD_succ d P s hs]
    simp only [oadd]
    rw [← abscD_succ d P s hs]
    congr 1
    exact ih (s + 1) (by omega)

/-- the integrator turns the `ds` column of the distance `d` into the prefix sums `abscD` -/
theorem integrator_dsD (d : V3 α → V3 α → α) (P : List (V3 α)) :
    integrator ((List.range P.length).map (dsAtD d P)) = (List.range P.length).map (fun i => some (abscD d P i)) := by
  cases hn : P.length with
  | zero => simp [integrator]
  | succ k =>
    rw [List.range_eq_range', List.range'_succ]
    simp only [List.map_cons, integrator]
    congr 1
    have := integLoop_dsD d P k 0 (by omega)
    simpa [abscD] using this

end spec

section opt
variable [Add α] [Sub α] [Mul α] [Div α] [OfNat α 0] [BEq α] [LE α] [DecidableLE α]

theorem distF_opt (sqrt : α → α) (ofNat : Nat → α) (isNaN : α → Bool) (d : V3 α → V3 α → α) (P : List (V3 α)) (i j : Nat) :
    distF (optG sqrt ofNat isNaN) (onPtsV d) (xsP P) (ysP P) (zsP P) i j
      = (match P[i]?, P[j]? with | some p, some q => some (d p q) | _, _ => none) := by
  unfold distF ptsF
  simp only [xsP, ysP, zsP, List.getElem?_map]
  cases P[i]? with
  | none => rfl
  | some p =>
    cases P[j]? with
    | none => rfl
    | some q => rfl

theorem dsFK_opt (sqrt : α → α) (ofNat : Nat → α) (isNaN : α → Bool) (d : V3 α → V3 α → α) (P : List (V3 α)) (i : Nat) :
    dsFK (optG sqrt ofNat isNaN) (onPtsV d) (xsP P) (ysP P) (zsP P) i = dsAtD d P i := by
  unfold dsFK dsAtD
  by_cases h0 : i = 0
  · simp only [h0, if_true]; rfl
  · simp only [h0, if_false]
    rw [distF_opt]

theorem betweenFK_opt (sqrt : α → α) (ofNat : Nat → α) (isNaN : α → Bool) (d : V3 α → V3 α → α) (P : List (V3 α))
    (ts : List α) (a b : Nat) :
    betweenFK (optG sqrt ofNat isNaN) (onPtsV d) (xsP P) (ysP P) (zsP P) (tsOf ts) a b = speedBetweenD d P ts a b := by
  unfold betweenFK speedBetweenD
  rw [distF_opt]
  simp only [tsOf, List.getElem?_map]
  cases h3 : ts[a]? with
  | none => cases P[a]? <;> cases P[b]? <;> rfl
  | some ta =>
    cases h4 : ts[b]? with
    | none => cases P[a]? <;> cases P[b]? <;> rfl
    | some tb =>
      cases P[a]? with
      | none =>
        show (if ((ta - tb) == 0) = true then none else none) = none
        split <;> rfl
      | some pa =>
        cases P[b]? with
        | none =>
          show (if ((ta - tb) == 0) = true then none else none) = none
          split <;> rfl
        | some pb =>
          show (if ((ta - tb) == 0) = true then none else some (d pa pb / (ta - tb))) = quot _ _
          unfold quot
          rfl

theorem speedColD_opt (sqrt : α → α) (ofNat : Nat → α) (isNaN : α → Bool) (d : V3 α → V3 α → α) (P : List (V3 α)) (ts : List α) :
    (List.range P.length).map (speedFK (optG sqrt ofNat isNaN) (onPtsV d) (xsP P) (ysP P) (zsP P) (tsOf ts) P.length)
      = speedColD d P ts := by
  unfold speedColD
  apply List.map_congr_left
  intro i _
  unfold speedFK speedAtD
  simp only [betweenFK_opt]

theorem curvFK_opt (sqrt : α → α) (ofNat : Nat → α) (isNaN : α → Bool) (d : V3 α → V3 α → α) (P : List (V3 α)) :
    ∀ k, k < P.length → curvFK (optG sqrt ofNat isNaN) (onPtsV d) (xsP P) (ysP P) (zsP P) k = some (curvD d P k)
  | 0, _ => rfl
  | k + 1, h => by
    have hk : k < P.length := by omega
    have h0 : P[k]? = some P[k] := List.getElem?_eq_getElem hk
    have h1 : P[k + 1]? = some P[k + 1] := List.getElem?_eq_getElem h
    unfold curvFK
    rw [curvFK_opt sqrt ofNat isNaN d P k hk, distF_opt]
    simp only [h0, h1, curvD]
    rfl

end opt
end TV.CinTabK
