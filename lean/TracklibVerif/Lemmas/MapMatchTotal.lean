import TracklibVerif.Lemmas.MapMatchZ
/-! Helper lemmas for C10, fifth part: WHEN `mapOnNetwork` raises nothing. The two exceptions of the candidate loop come from the
projection (C20): `ZeroDivisionError` on a vertical segment (finding D16), and from `__distToNode` on a geometry with a single
vertex (`IndexError`; an EMPTY geometry raises it in the projection, `Xp[0]`). A geometry all of whose segments are skipped
(zero length) is no longer among them: since the `fix:` commit 563eeba it is an ordinary candidate. On a network none of whose
edge geometries has a kept vertical segment or fewer than two vertices the preparation of `STATES`
returns for every observation and every answer of the index made of existing edge numbers; with in-range decoded indices the
whole call returns. -/
namespace TV.MapMatch
open TV.Proj
variable {α : Type} [Field α] [LinearOrder α] [IsStrictOrderedRing α]

/-- an edge geometry on which the candidate loop cannot raise: no kept segment is vertical (`proj_segment`: D16), and the
geometry has at least two vertices (`__distToNode` reads `abs_curv[i + 1]`, `track[i + 1]`). NO segment need be kept: since
the `fix:` commit 563eeba a geometry all of whose vertices coincide is an ordinary candidate (its first vertex, index 0) -/
def GoodGeom (eps : α) (g : List (α × α)) : Prop :=
  (∀ j p1 p2, g[j]? = some p1 → g[j + 1]? = some p2 → skipped eps p1.1 p1.2 p2.1 p2.2 = false → p1.1 ≠ p2.1) ∧
  2 ≤ g.length

/-- `__distToNode` returns on a computed `abs_curv` column for every segment index -/
theorem distToNode_total (sqrt : α → α) (e : Edge α) (p : α × α) (i k : Nat) (hi : i + 1 < e.geom.length)
    (hc : e.curv = absCurv sqrt e.geom) : ∃ a, distToNode sqrt e p i k = some a := by
  have hne : e.geom ≠ [] := by intro h; rw [h] at hi; simp at hi
  have c1 := absCurv_take sqrt e.geom i (by omega)
  have c2 := absCurv_take sqrt e.geom (i + 1) hi
  have c3 := absCurv_last sqrt e.geom hne
  have g1 : e.geom[i]? = some (e.geom[i]'(by omega)) := List.getElem?_eq_getElem (by omega)
  have g2 : e.geom[i + 1]? = some (e.geom[i + 1]'hi) := List.getElem?_eq_getElem hi
  unfold distToNode
  rw [hc, c1, c2, c3, g1, g2]
  simp only
  split <;> exact ⟨_, rfl⟩

theorem candLoop_total {sqrt : α → α} (hs : SqrtSpec sqrt) (eps radius : α) (edges : List (Edge α))
    (hcurv : ∀ eg ∈ edges, eg.curv = absCurv sqrt eg.geom) (hgood : ∀ eg ∈ edges, GoodGeom eps eg.geom)
    (pos : α × α) (E : List Nat) (hE : ∀ n ∈ E, n < edges.length) :
    ∀ (acc : List (State α)), ∃ res, candLoop sqrt eps radius edges pos E acc = .ok res := by
  induction E with
  | nil => intro acc; exact ⟨acc, rfl⟩
  | cons elem rest ih =>
    intro acc
    have hlt : elem < edges.length := hE elem (by simp)
    have he : edges[elem]? = some (edges[elem]'hlt) := List.getElem?_eq_getElem hlt
    generalize edges[elem]'hlt = eg at he
    have hmem : eg ∈ edges := List.mem_of_getElem? he
    have hne : eg.geom ≠ [] := by
      intro hnil; have := (hgood eg hmem).2; rw [hnil] at this; simp at this
    obtain ⟨r, hr⟩ := TV.C20.proj_polyline_total hs eps eg.geom pos.1 pos.2 (hgood eg hmem).1 hne
    obtain ⟨d, px, py, i⟩ := r
    have hp : projOnTrack sqrt eps eg.geom pos.1 pos.2 = .ok ((px, py), d, i) :=
      (TV.C20.projOnTrack_spec sqrt eps eg.geom pos.1 pos.2 d px py i).mpr hr
    obtain ⟨_, _, p1, g1, hseg, _⟩ := TV.C20.proj_polyline_on hs eps eg.geom pos.1 pos.2 d px py i hr
    obtain ⟨p2, g2, _⟩ := hseg (hgood eg hmem).2
    have hi : i + 1 < eg.geom.length := lt_of_getElem?_some _ _ _ g2
    obtain ⟨a, ha⟩ := distToNode_total sqrt eg (px, py) i 0 hi (hcurv eg hmem)
    obtain ⟨b, hb⟩ := distToNode_total sqrt eg (px, py) i 1 hi (hcurv eg hmem)
    have hrest : ∀ n ∈ rest, n < edges.length := fun n hn => hE n (List.mem_cons_of_mem _ hn)
    rw [candLoop, he]
    simp only [hp]
    by_cases hd : d < radius
    · simp only [hd, ↓reduceIte, ha, hb]
      exact ih hrest _
    · simp only [hd, ↓reduceIte]
      exact ih hrest _

/-- `STATES[i]` is returned (no exception) for every answer of the index made of existing edge numbers -/
theorem obsStates_total {sqrt : α → α} (hs : SqrtSpec sqrt) (eps radius : α) (edges : List (Edge α))
    (hcurv : ∀ eg ∈ edges, eg.curv = absCurv sqrt eg.geom) (hgood : ∀ eg ∈ edges, GoodGeom eps eg.geom)
    (pos : α × α) (cand : Option (List Nat)) (hc : ∀ E, cand = some E → ∀ n ∈ E, n < edges.length) :
    ∃ l, obsStates sqrt eps radius edges pos cand = .ok l := by
  unfold obsStates
  cases cand with
  | none => exact ⟨_, rfl⟩
  | some E =>
    obtain ⟨res, hres⟩ := candLoop_total hs eps radius edges hcurv hgood pos E (hc E rfl) []
    simp only [hres]
    cases res <;> exact ⟨_, rfl⟩

theorem allStates_total {sqrt : α → α} (hs : SqrtSpec sqrt) (eps radius : α) (edges : List (Edge α))
    (hcurv : ∀ eg ∈ edges, eg.curv = absCurv sqrt eg.geom) (hgood : ∀ eg ∈ edges, GoodGeom eps eg.geom) :
    ∀ (track : List (Obs α)) (cands : List (Option (List Nat))),
      (∀ c ∈ cands, ∀ E, c = some E → ∀ n ∈ E, n < edges.length) →
      ∃ ss, allStates sqrt eps radius edges track cands = .ok ss := by
  intro track
  induction track with
  | nil => intro cands _; exact ⟨[], rfl⟩
  | cons o os ih =>
    intro cands hc
    have hhead : ∀ E, cands.head?.getD none = some E → ∀ n ∈ E, n < edges.length := by
      intro E hE
      cases cands with
      | nil => simp at hE
      | cons c cs =>
        simp only [List.head?_cons, Option.getD_some] at hE
        exact hc c (by simp) E hE
    obtain ⟨s, hs1⟩ := obsStates_total hs eps radius edges hcurv hgood o.pos (cands.head?.getD none) hhead
    obtain ⟨ss, hss⟩ := ih cands.tail (fun c hcm => hc c (List.mem_of_mem_tail hcm))
    rw [allStates, hs1]
    simp only [hss]
    exact ⟨_, rfl⟩

/-- with altitudes: the planimetric geometry decides -/
theorem obsStates3_total {sqrt : α → α} (hs : SqrtSpec sqrt) (eps radius : α) (edges : List (Edge3 α))
    (hcurv : ∀ eg ∈ edges, eg.curv = absCurv3 sqrt eg.geom) (hgood : ∀ eg ∈ edges, GoodGeom eps (eg.geom.map xy))
    (pos : P3 α) (cand : Option (List Nat)) (hc : ∀ E, cand = some E → ∀ n ∈ E, n < edges.length) :
    ∃ l, obsStates3 sqrt eps radius edges pos cand = .ok l := by
  have hcurv' : ∀ eg ∈ edges.map flatE, eg.curv = absCurv sqrt eg.geom := by
    intro eg heg
    obtain ⟨e3, he3, rfl⟩ := List.mem_map.mp heg
    show e3.curv = absCurv sqrt (e3.geom.map xy)
    rw [← absCurv3_eq]; exact hcurv e3 he3
  have hgood' : ∀ eg ∈ edges.map flatE, GoodGeom eps eg.geom := by
    intro eg heg
    obtain ⟨e3, he3, rfl⟩ := List.mem_map.mp heg
    exact hgood e3 he3
  obtain ⟨l, hl⟩ := obsStates_total hs eps radius (edges.map flatE) hcurv' hgood' (xy pos) cand
    (by simpa using hc)
  have := obsStates3_flat sqrt eps radius edges pos cand
  rw [hl] at this
  cases h3 : obsStates3 sqrt eps radius edges pos cand with
  | error e => rw [h3] at this; cases this
  | ok l3 => exact ⟨l3, rfl⟩

end TV.MapMatch
