import TracklibVerif.Lemmas.Filter
/-! Helper lemmas for C15 on tracks shorter than the window (`track.size() < N = 2D+1`): the mean signal
with copied boundaries is the input, the boundary copy fails on a track shorter than the half window, and
`track.operate` hands such a failure on. -/
set_option linter.unusedSectionVars false
namespace TV.Filter

section short
variable {α : Type} [Field α]

/-- boundaries copied on a signal of at most `2D` values (shorter than the window of `2D+1` weights): every
index lies in the first or in the last half window, so the signal the property describes is the input -/
theorem meanSignal_short (v : List (Option α)) (k : List α) (h : v.length ≤ 2 * (k.length / 2)) :
    meanSignal v k false = v := by
  apply List.ext_getElem?
  intro i
  by_cases hi : i < v.length
  · rw [meanSignal_get v k false i hi]
    have hc : false = false ∧ (i < k.length / 2 ∨ v.length - k.length / 2 ≤ i) := ⟨rfl, by omega⟩
    rw [if_pos hc]
    rcases hx : v[i]? with _ | x
    · rw [List.getElem?_eq_none_iff] at hx; omega
    · rfl
  · rw [List.getElem?_eq_none (by simp [meanSignal]; omega), List.getElem?_eq_none (by omega)]

variable [DecidableEq α]

/-- odd window, no zero norm, boundaries copied, and a track shorter than the half window: the loop
`for i in range(D): temp[i] = track.getObsAnalyticalFeature(af_input, i)` runs past the end — `IndexError` -/
theorem filterWindowG_short_index (v : List (Option α)) (k : List α) (np : Bool)
    (hodd : k.length % 2 = 1)
    (hden : ∀ i, i < v.length → wtot (window v k (k.length / 2) i) ≠ 0)
    (hlen : v.length < k.length / 2) :
    filterWindowG v k false np = .error .index := by
  unfold filterWindowG
  have h1 : ¬ (k.length % 2 == 0) = true := by simp [hodd]
  simp only [h1]
  rw [cells_eq]
  have hne : ∀ c ∈ (List.range v.length).map (fun i => (wsum (window v k (k.length / 2) i), wtot (window v k (k.length / 2) i))),
      (c.2 == 0) = false := by
    intro c hc
    rw [List.mem_map] at hc
    obtain ⟨i, hi, rfl⟩ := hc
    have := hden i (List.mem_range.mp hi)
    simpa using this
  have h2 : ((List.range v.length).map (fun i => (wsum (window v k (k.length / 2) i), wtot (window v k (k.length / 2) i)))).zipIdx.any
      (fun c => c.1.2 == 0 && (!np || !anySample v (k.length / 2) c.2 k 0)) = false := by
    rw [List.any_eq_false]
    intro c hc
    have hm : c.1 ∈ (List.range v.length).map (fun i => (wsum (window v k (k.length / 2) i), wtot (window v k (k.length / 2) i))) := by
      have := List.mem_zipIdx_iff_getElem?.mp (show (c.1, c.2) ∈ _ from hc)
      exact List.mem_of_getElem? this
    rw [hne c.1 hm]
    simp
  simp only [h2, Bool.false_eq_true, if_false, hlen, if_true]
end short

section shortexec
variable {α : Type} [Field α] [LinearOrder α] [IsStrictOrderedRing α]

/-- `Filter.execute` with a weight list on a track shorter than the half window: the list is normalised, the
filtering loop runs, then the boundary copy raises `IndexError` -/
theorem execute_list_short_index (v : List (Option α)) (k : List α) (hodd : k.length % 2 = 1)
    (hden : ∀ i, i < v.length → wtot (window v k (k.length / 2) i) ≠ 0)
    (hlen : v.length < k.length / 2) (hs : k.sum ≠ 0) :
    execute v (.list k) = .error .index := by
  unfold execute prepare
  have h := filterWindowG_short_index v (normalise k) true (by rw [normalise_length]; exact hodd)
    (by
      intro i hi
      rw [normalise_length, wtot_window_normalise]
      exact div_ne_zero (hden i hi) hs)
    (by rw [normalise_length]; exact hlen)
  simp only [h]

theorem execute_obj_err (v : List (Option α)) (b : Bool) (f : α → α) (support : α) (S : Nat) (w : List α)
    (e : Err) (hw : slidingWindow f support S = .ok w) (hout : filterWindow v w b = .error e) :
    execute v (.obj false b f support S) = .error e := by
  unfold filterWindow at hout
  unfold execute prepare
  simp [hw, hout]

theorem execute_dirac_err (v : List (Option α)) (b : Bool) (f : α → α) (support : α) (S : Nat)
    (e : Err) (hout : filterWindow v [0, 1, 0] b = .error e) :
    execute v (.obj true b f support S) = .error e := by
  unfold filterWindow at hout
  unfold execute prepare
  simp [hout]

/-- `track.operate(FILTER, af_in, kernel, af_out)` hands on a failure of the filtering loops / boundary copy
(the kernel was prepared and found odd, the output name and the track were accepted, the input exists) -/
theorem operate_arg_fw_err (t : Sigs α) (afIn afOut : String) (ka : KArg α) (v : List (Option α))
    (k0 : Option (List α)) (w : List α) (b np : Bool) (e : Err)
    (hp : prepare ka = .ok (k0, w, b, np)) (hodd : w.length % 2 = 1)
    (hres : reservedName afOut = false) (hsize : trackSize t ≠ 0)
    (hv : getSig (createAF t afOut) afIn = some v) (hfw : filterWindowG v w b np = .error e) :
    operate t afIn (.arg ka) afOut = .error e := by
  unfold operate resolve
  have h1 : (w.length % 2 == 0) = false := by simp [hodd]
  have hs : (trackSize t == 0) = false := by simpa using hsize
  simp only [hp, h1, hres, hs, Bool.false_eq_true, if_false, hv, hfw]
end shortexec
end TV.Filter

namespace TV.Filter
section again
variable {α : Type} [Field α]

/-- dividing a list by its sum again and again is dividing it once (the sum is 1 after the first time) -/
theorem normaliseN_of_pos (k : List α) (hs : k.sum ≠ 0) : ∀ n, 0 < n → normaliseN k n = normalise k
  | 1, _ => rfl
  | n + 2, _ => by
    rw [normaliseN, normaliseN_of_pos (normalise k) (by rw [normalise_sum k hs]; exact one_ne_zero) (n + 1) (Nat.succ_pos _),
      normalise_idem k hs]
end again
end TV.Filter
