import TracklibVerif.Lemmas.FeaturesCall
/-! "Nothing is deleted unless a deletion is the meaning of the call", on the specification table:
`Keeps ma` says that every name listed before running `ma` is listed afterwards, whether `ma` returns or raises.
Every primitive of the Track API but `removeAnalyticalFeature` keeps the listing, so does everything built from
them: all operator objects (their failures mid-way included), bracket assignment, addAnalyticalFeature, the helpers
that create features. Transported to the code's table through the simulation in `Props/C01.lean`
(`call_keeps_listed`). This is the statement the seeded change C01-9 broke (Apply.execute "cleaning up" its output
column when the cell function raises). -/
set_option linter.unusedSectionVars false
namespace TV.Features
variable {V : Type} [Inhabited V]

/-- running `ma` unlists nothing (returning or raising) -/
def Keeps {α : Type} (ma : M (ATab V) α) : Prop :=
  ∀ a m, (lookup a.cols m).isSome = true → (lookup (ma a).2.cols m).isSome = true

section combinators
variable {α β : Type}

theorem keeps_read (ma : M (ATab V) α) (h : ∀ a, (ma a).2 = a) : Keeps ma :=
  fun a m hm => by rw [h a]; exact hm

theorem keeps_pure (x : α) : Keeps (V := V) (pure x) := keeps_read _ (fun _ => rfl)
theorem keeps_throw (e : Err) : Keeps (V := V) (α := α) (M.throw e) := keeps_read _ (fun _ => rfl)
theorem keeps_ofExcept (r : Except Err α) : Keeps (V := V) (M.ofExcept r) := keeps_read _ (fun _ => rfl)

theorem keeps_bind {ma : M (ATab V) α} {fa : α → M (ATab V) β} (h1 : Keeps ma) (h2 : ∀ x, Keeps (fa x)) :
    Keeps (ma >>= fa) := by
  intro a m hm
  have s1 := h1 a m hm
  show (lookup (M.bind ma fa a).2.cols m).isSome = true
  unfold M.bind
  cases hma : ma a with
  | mk r a1 =>
    rw [hma] at s1
    cases r with
    | error e => exact s1
    | ok x => exact h2 x a1 m s1

theorem keeps_ite (c : Prop) [Decidable c] {a b : M (ATab V) α} (h1 : Keeps a) (h2 : Keeps b) :
    Keeps (if c then a else b) := by
  split
  · exact h1
  · exact h2

theorem keeps_catchIndex {ma : M (ATab V) α} (d : α) (h1 : Keeps ma) : Keeps (M.catchIndex ma d) := by
  intro a m hm
  have s1 := h1 a m hm
  unfold M.catchIndex
  cases hma : ma a with
  | mk r a1 =>
    rw [hma] at s1
    cases r with
    | ok x => exact s1
    | error e => cases e <;> exact s1

theorem keeps_forEach (l : List α) {fa : α → M (ATab V) Unit} (h : ∀ x, Keeps (fa x)) : Keeps (M.forEach l fa) := by
  induction l with
  | nil => exact keeps_pure ()
  | cons x t ih => unfold M.forEach; exact keeps_bind (h x) (fun _ => ih)

theorem keeps_mapL (l : List α) {fa : α → M (ATab V) β} (h : ∀ x, Keeps (fa x)) : Keeps (M.mapL l fa) := by
  induction l with
  | nil => exact keeps_pure []
  | cons x t ih =>
    unfold M.mapL
    exact keeps_bind (h x) (fun b => keeps_bind ih (fun bs => keeps_pure _))

theorem keeps_foldL (l : List α) {fa : β → α → M (ATab V) β} (init : β) (h : ∀ b x, Keeps (fa b x)) :
    Keeps (M.foldL l init fa) := by
  induction l generalizing init with
  | nil => exact keeps_pure init
  | cons x t ih => unfold M.foldL; exact keeps_bind (h init x) (fun b => ih b)

end combinators

/-! ### primitives -/

theorem keeps_size : Keeps (tblATab.size : M (ATab V) Nat) := keeps_read _ (fun _ => rfl)
theorem keeps_has (nm : String) : Keeps (tblATab.has nm : M (ATab V) Bool) := keeps_read _ (fun _ => rfl)
theorem keeps_names : Keeps (tblATab.names : M (ATab V) (List String)) := keeps_read _ (fun _ => rfl)

theorem keeps_get (o : Ops V) (nm : String) : Keeps (getA o nm) := by
  apply keeps_read
  intro a
  unfold getA
  split
  · rfl
  · split
    · rfl
    · split
      · rfl
      · split <;> rfl

theorem keeps_getObs (o : Ops V) (nm : String) (i : Nat) : Keeps (getObsA o nm i) := by
  apply keeps_read
  intro a
  unfold getObsA
  split
  · split <;> rfl
  · split
    · rfl
    · split
      · rfl
      · split
        · rfl
        · split <;> rfl

theorem keeps_create (nm : String) (init : Init V) : Keeps (createA nm init) := by
  intro a m hm
  unfold createA
  split
  · exact hm
  · split
    · exact hm
    · split
      · exact hm
      · rename_i hr hs hh
        have hl : lookup a.cols nm = none := by
          cases h : lookup a.cols nm with
          | none => rfl
          | some c => simp [hasA, h] at hh
        split
        · show (lookup (a.cols ++ [(nm, _)]) m).isSome = true
          rw [lookup_append_new _ _ _ _ hl]
          split
          · rfl
          · exact hm
        · split
          · exact hm
          · show (lookup (a.cols ++ [(nm, _)]) m).isSome = true
            rw [lookup_append_new _ _ _ _ hl]
            split
            · rfl
            · exact hm

theorem isSome_replaceCol (cols : List (String × List V)) (nm m : String) (c : List V)
    (hm : (lookup cols m).isSome = true) : (lookup (replaceCol cols nm c) m).isSome = true := by
  rw [lookup_replaceCol]
  split
  · rename_i e
    subst e
    cases h : lookup cols m with
    | none => rw [h] at hm; cases hm
    | some _ => rfl
  · exact hm

theorem keeps_update (nm : String) (init : Init V) : Keeps (updateA nm init) := by
  intro a m hm
  unfold updateA
  split
  · exact hm
  · split
    · exact hm
    · split
      · exact hm
      · cases init with
        | scalar v => exact isSome_replaceCol _ _ _ _ hm
        | list l => exact isSome_replaceCol _ _ _ _ hm

theorem keeps_setObs (nm : String) (i : Nat) (v : V) : Keeps (setObsA nm i v) := by
  intro a m hm
  unfold setObsA
  split
  · split
    · rename_i c hc
      split
      · cases c <;> exact hm
      · exact hm
    · exact hm
  · split
    · exact hm
    · split
      · exact isSome_replaceCol _ _ _ _ hm
      · exact hm

/-! ### operations through the API -/
open Tbl

syntax "keeps_leaf" : tactic
macro_rules | `(tactic| keeps_leaf) => `(tactic| with_reducible_and_instances first
  | exact keeps_pure _
  | exact keeps_throw _
  | exact keeps_ofExcept _
  | exact keeps_size
  | exact keeps_has _
  | exact keeps_names
  | exact keeps_get _ _
  | exact keeps_getObs _ _ _
  | exact keeps_create _ _
  | exact keeps_update _ _
  | exact keeps_setObs _ _ _)

macro "keeps_auto" : tactic => `(tactic| repeat (first
  | keeps_leaf
  | with_reducible_and_instances refine keeps_bind ?_ (fun _ => ?_)
  | with_reducible_and_instances refine keeps_ite _ ?_ ?_
  | with_reducible_and_instances refine keeps_forEach _ (fun _ => ?_)
  | with_reducible_and_instances refine keeps_mapL _ (fun _ => ?_)
  | with_reducible_and_instances refine keeps_foldL _ _ (fun _ _ => ?_)
  | with_reducible_and_instances refine keeps_catchIndex _ ?_))

theorem keeps_addListToAF (nm : String) (arr : List V) : Keeps (addListToAF (σ := ATab V) nm arr) := by
  unfold addListToAF
  refine keeps_bind keeps_size (fun k => ?_)
  refine keeps_forEach _ (fun i => ?_)
  cases arr[i]? <;> keeps_auto
macro_rules | `(tactic| keeps_leaf) => `(tactic| with_reducible_and_instances exact keeps_addListToAF _ _)

theorem keeps_setItem (nm : String) (init : Init V) : Keeps (setItem (σ := ATab V) nm init) := by
  unfold setItem
  keeps_auto
macro_rules | `(tactic| keeps_leaf) => `(tactic| with_reducible_and_instances exact keeps_setItem _ _)

theorem keeps_readAll (o : Ops V) (cols cells : List String) : Keeps (readAll (σ := ATab V) o cols cells) := by
  unfold readAll
  keeps_auto
macro_rules | `(tactic| keeps_leaf) => `(tactic| with_reducible_and_instances exact keeps_readAll _ _ _)

theorem keeps_opaqueVoid (o : Ops V) (cols cells : List String) (out : String) (vals : List V) :
    Keeps (opaqueVoid (σ := ATab V) o cols cells out vals) := by
  unfold opaqueVoid
  keeps_auto

theorem keeps_reverser (o : Ops V) (inp out : String) : Keeps (reverser (σ := ATab V) o inp out) := by
  unfold reverser
  keeps_auto

theorem keeps_dist2D (o : Ops V) (i j : Nat) : Keeps (dist2DOp (σ := ATab V) o i j) := by
  unfold dist2DOp
  keeps_auto
macro_rules | `(tactic| keeps_leaf) => `(tactic| with_reducible_and_instances exact keeps_dist2D _ _ _)

theorem keeps_speedBetween (o : Ops V) (i j : Nat) : Keeps (speedBetweenOp (σ := ATab V) o i j) := by
  unfold speedBetweenOp
  keeps_auto
macro_rules | `(tactic| keeps_leaf) => `(tactic| with_reducible_and_instances exact keeps_speedBetween _ _ _)

theorem keeps_evalAlgo (o : Ops V) (alg : Algo V) (i : Nat) : Keeps (evalAlgo (σ := ATab V) o alg i) := by
  cases alg <;> (unfold evalAlgo; keeps_auto)
macro_rules | `(tactic| keeps_leaf) => `(tactic| with_reducible_and_instances exact keeps_evalAlgo _ _ _)

theorem keeps_addAF (o : Ops V) (alg : Algo V) (nm : String) : Keeps (addAF (σ := ATab V) o alg nm) := by
  unfold addAF
  keeps_auto

theorem keeps_unaryTemp (o : Ops V) (k : UOp) (inp : String) (m : Nat) : Keeps (unaryTemp (σ := ATab V) o k inp m) := by
  cases k <;> (unfold unaryTemp; keeps_auto)
macro_rules | `(tactic| keeps_leaf) => `(tactic| with_reducible_and_instances exact keeps_unaryTemp _ _ _ _)

theorem keeps_unaryVoid (o : Ops V) (k : UOp) (inp out : String) : Keeps (unaryVoid (σ := ATab V) o k inp out) := by
  unfold unaryVoid
  keeps_auto

theorem keeps_binaryVoid (o : Ops V) (k : BOp) (in1 in2 out : String) :
    Keeps (binaryVoid (σ := ATab V) o k in1 in2 out) := by
  unfold binaryVoid
  keeps_auto

theorem keeps_scalarVoid (o : Ops V) (k : SOp) (inp : String) (arg : V) (out : String) :
    Keeps (scalarVoid (σ := ATab V) o k inp arg out) := by
  unfold scalarVoid
  keeps_auto

/-- Apply.execute: the cell function may raise mid-way (sqrt of a negative, 1/0 ...): the output column stays listed -/
theorem keeps_applyVoid (o : Ops V) (f : V → Except Err V) (inp out : String) :
    Keeps (applyVoid (σ := ATab V) o f inp out) := by
  unfold applyVoid
  keeps_auto

theorem keeps_scalarDivider (o : Ops V) (inp : String) (arg : V) (out : String) :
    Keeps (scalarDivider (σ := ATab V) o inp arg out) := by
  unfold scalarDivider
  exact keeps_applyVoid o _ inp out

theorem keeps_scalarRevDivider (o : Ops V) (inp : String) (arg : V) (out : String) :
    Keeps (scalarRevDivider (σ := ATab V) o inp arg out) := by
  unfold scalarRevDivider
  exact keeps_applyVoid o _ inp out

theorem keeps_shiftCircular (o : Ops V) (inp : String) (arg : V) (out : String) :
    Keeps (shiftCircular (σ := ATab V) o inp arg out) := by
  unfold shiftCircular
  keeps_auto

theorem keeps_scalarKind (o : Ops V) (k : SKind) (inp : String) (arg : V) (out : String) :
    Keeps (scalarKind (σ := ATab V) o k inp arg out) := by
  cases k with
  | plain s => exact keeps_scalarVoid o s inp arg out
  | divider => exact keeps_scalarDivider o inp arg out
  | revDivider => exact keeps_scalarRevDivider o inp arg out
  | shift => exact keeps_shiftCircular o inp arg out
  | shiftRev => exact keeps_shiftCircular o inp _ out

theorem keeps_logVoid (o : Ops V) (inp out : String) : Keeps (logVoid (σ := ATab V) o inp out) := by
  unfold logVoid
  keeps_auto

theorem keeps_aggOp (o : Ops V) (f inp : String) : Keeps (aggOp (σ := ATab V) o f inp) := by
  unfold aggOp
  keeps_auto

theorem keeps_runVFn (o : Ops V) (f : VFn) (inp out : String) : Keeps (runVFn (σ := ATab V) o f inp out) := by
  cases f with
  | integrator => unfold runVFn; exact keeps_bind (keeps_unaryVoid o _ inp out) (fun _ => keeps_pure _)
  | differentiator => unfold runVFn; exact keeps_bind (keeps_unaryVoid o _ inp out) (fun _ => keeps_pure _)
  | log => unfold runVFn; exact keeps_bind (keeps_logVoid o inp out) (fun _ => keeps_pure _)
  | apply name => unfold runVFn; exact keeps_bind (keeps_applyVoid o _ inp out) (fun _ => keeps_pure _)

theorem keeps_fnVoidOp (o : Ops V) (f inp out : String) : Keeps (fnVoidOp (σ := ATab V) o f inp out) := by
  unfold fnVoidOp
  cases vfn? f with
  | none => exact keeps_throw _
  | some vf => exact keeps_runVFn o vf inp out

theorem keeps_estSpeedOp (o : Ops V) : Keeps (estSpeedOp (σ := ATab V) o) := by
  unfold estSpeedOp
  refine keeps_bind (keeps_has _) (fun b => ?_)
  exact keeps_ite _ (keeps_get o _) (keeps_addAF o .speed "speed")

theorem keeps_segmentOp (o : Ops V) (inp out : String) (thr : V) : Keeps (segmentOp (σ := ATab V) o inp out thr) := by
  unfold segmentOp
  keeps_auto

theorem keeps_sumOp (o : Ops V) (inp : String) : Keeps (sumOp (σ := ATab V) o inp) := by
  unfold sumOp
  keeps_auto

/-- the calls whose documented meaning includes a deletion: `removeAnalyticalFeature` / `'#DELETE'`, `computeAbsCurv`
(its intermediate `ds`), `operate(str)` (re-assignment = get / remove / create, purge of the `#` names) -/
def deletes : Op V → Bool
  | .remove _ => true
  | .absCurv => true
  | .expr _ => true
  | _ => false

theorem keeps_step (o : Ops V) (op : Op V) (hop : deletes op = false) : Keeps (step (σ := ATab V) o op) := by
  cases op with
  | create nm init => unfold step; exact keeps_bind (keeps_create nm init) (fun _ => keeps_pure _)
  | update nm init => unfold step; exact keeps_bind (keeps_update nm init) (fun _ => keeps_pure _)
  | remove nm => cases hop
  | setItem nm init => unfold step; exact keeps_bind (keeps_setItem nm init) (fun _ => keeps_pure _)
  | setObs nm i v => unfold step; exact keeps_bind (keeps_setObs nm i v) (fun _ => keeps_pure _)
  | addAF alg nm => unfold step; exact keeps_bind (keeps_addAF o alg nm) (fun _ => keeps_pure _)
  | unaryVoid k inp out => unfold step; exact keeps_bind (keeps_unaryVoid o k inp _) (fun _ => keeps_pure _)
  | binaryVoid k in1 in2 out => unfold step; exact keeps_bind (keeps_binaryVoid o k in1 in2 _) (fun _ => keeps_pure _)
  | scalarVoid k inp arg out => unfold step; exact keeps_bind (keeps_scalarVoid o k inp arg _) (fun _ => keeps_pure _)
  | sum inp => unfold step; exact keeps_bind (keeps_sumOp o inp) (fun _ => keeps_pure _)
  | opaqueVoid cols cells out vals => unfold step; exact keeps_bind (keeps_opaqueVoid o cols cells out vals) (fun _ => keeps_pure _)
  | reverser inp out => unfold step; exact keeps_bind (keeps_reverser o inp _) (fun _ => keeps_pure _)
  | probe cols cells => unfold step; exact keeps_bind (keeps_readAll o cols cells) (fun _ => keeps_pure _)
  | fnVoid f inp out => unfold step; exact keeps_fnVoidOp o f inp _
  | scalarK k inp arg out => unfold step; exact keeps_bind (keeps_scalarKind o k inp arg _) (fun _ => keeps_pure _)
  | aggFn f inp => unfold step; exact keeps_bind (keeps_aggOp o f inp) (fun _ => keeps_pure _)
  | absCurv => cases hop
  | estSpeed => unfold step; exact keeps_bind (keeps_estSpeedOp o) (fun _ => keeps_pure _)
  | segment inp out thr => unfold step; exact keeps_bind (keeps_segmentOp o inp out thr) (fun _ => keeps_pure _)
  | expr rpn => cases hop

theorem keeps_stepList (o : Ops V) (ops : List (Op V)) (hops : ∀ op ∈ ops, deletes op = false) :
    Keeps (stepList (σ := ATab V) o ops) := by
  induction ops with
  | nil => exact keeps_pure _
  | cons op rest ih =>
    unfold stepList
    exact keeps_bind (keeps_step o op (hops op (by simp))) (fun _ => ih (fun op' h' => hops op' (by simp [h'])))

/-- a call in any form deletes nothing unless one of its positions is a deleting call -/
def Call.deletes : Call V → Bool
  | .one op => Features.deletes op
  | .list ops => ops.any Features.deletes
  | .refused => false

theorem keeps_call (o : Ops V) (c : Call V) (hc : c.deletes = false) : Keeps (call (σ := ATab V) o c) := by
  cases c with
  | one op => exact keeps_step o op hc
  | list ops =>
    refine keeps_stepList o ops (fun op hop => ?_)
    simp only [Call.deletes, List.any_eq_false] at hc
    cases h : Features.deletes op with
    | false => rfl
    | true => exact absurd h (hc op hop)
  | refused => exact keeps_throw _

end TV.Features
