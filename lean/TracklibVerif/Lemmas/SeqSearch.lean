import TracklibVerif.Lemmas.Seq
/-! Helper lemmas for C04, part 2: the dichotomy of `Track.__getInsertionIndex` and its two fix-up
loops (`searchLoop`, `fixLeft`, `fixRight` of `Model/Seq.lean`). Core Lean only.

Invariant of the search loop at its head, for a step `delta = ±2^m` (DESIGN.md appendix A.5):
  `delta > 0 → 0 ≤ id ∧ id + 2·delta ≤ N`,   `delta < 0 → -1 ≤ id + 2·delta ∧ id ≤ N - 1`.
Python's `>>` is a floor shift: `-1 >> 1 = -1`, so a negative unit step does not vanish and the loop
walks left one index at a time (`searchLoop_walk`). -/
namespace TV.Seq

/-- `get` reads the list `T` faithfully on the valid indices `0..N-1` (nothing is said elsewhere). -/
def ReadsOn (get : Int → Option Int) (T : List Int) : Prop :=
  ∀ (i : Nat), i < T.length → get (i : Int) = T[i]?

/-- a getter that raises `IndexError` on EVERY index outside `0..N-1` (no negative wrap) -/
def strictGet (T : List Int) (i : Int) : Option Int :=
  if 0 ≤ i ∧ i < (T.length : Int) then T[i.toNat]? else none

theorem strictGet_readsOn (T : List Int) : ReadsOn (strictGet T) T := by
  intro i hi
  have : (0 : Int) ≤ (i : Int) ∧ (i : Int) < (T.length : Int) := by omega
  simp [strictGet, this]

theorem pyGet_readsOn (T : List Int) : ReadsOn (pyGet T) T := by
  intro i _
  simp [pyGet]

theorem shr1 (x : Int) : x >>> 1 = x / 2 := by
  rw [Int.shiftRight_eq_div_pow]; rfl
theorem abs_shr_pos (p : Int) (hp : 0 ≤ p) : pyAbs ((2 * p) >>> 1) = p := by
  rw [shr1]; unfold pyAbs; omega
theorem abs_shr_neg (p : Int) (hp : 0 ≤ p) : pyAbs ((-(2 * p)) >>> 1) = p := by
  rw [shr1]; unfold pyAbs; omega
theorem abs_shr_one : pyAbs ((1 : Int) >>> 1) = 0 := by
  rw [shr1]; unfold pyAbs; omega
theorem abs_shr_neg_one : pyAbs ((-1 : Int) >>> 1) = 1 := by
  rw [shr1]; unfold pyAbs; omega

variable {get : Int → Option Int} {T : List Int} {ts : Int}

theorem readsOn_get (hg : ReadsOn get T) (i : Int) (h0 : 0 ≤ i) (h1 : i < T.length) :
    ∃ t, T[i.toNat]? = some t ∧ get i = some t := by
  have hn : i.toNat < T.length := by omega
  refine ⟨T[i.toNat], List.getElem?_eq_getElem hn, ?_⟩
  have := hg i.toNat hn
  rw [Int.toNat_of_nonneg h0] at this
  rw [this, List.getElem?_eq_getElem hn]

theorem searchLoop_done (N fuel : Nat) (id : Int) :
    searchLoop get N ts (fuel + 1) id 0 = .ok id := by
  simp [searchLoop]

/-- one iteration that reads an element: the index read is `id' = id + delta`, with `0 < id' < N`. -/
theorem searchLoop_step (hg : ReadsOn get T) (fuel : Nat) (id delta id' : Int) (he : id' = id + delta)
    (hd : delta ≠ 0) (h0 : 0 < id') (hN : id' < T.length) :
    ∃ t, T[id'.toNat]? = some t ∧
      searchLoop get T.length ts (fuel + 1) id delta =
        if t > ts then searchLoop get T.length ts fuel id' (-(pyAbs (delta >>> 1)))
        else searchLoop get T.length ts fuel id' (pyAbs (delta >>> 1)) := by
  obtain ⟨t, ht, hget⟩ := readsOn_get hg id' (by omega) hN
  refine ⟨t, ht, ?_⟩
  subst he
  rw [searchLoop]
  simp only [hd, if_false, hget]
  rw [if_neg (by omega), if_neg (by omega)]

/-- the leftward walk with the negative unit step (`-1 >> 1 = -1`): from `1 ≤ id ≤ N-1` the loop ends,
within `id + 2` iterations, at an index `0 ≤ r ≤ N-1`, reading only indices in `1..N-1`. -/
theorem searchLoop_walk (hg : ReadsOn get T) (id : Nat) : ∀ fuel : Nat, 1 ≤ id → id + 1 ≤ T.length →
    id + 2 ≤ fuel → ∃ r : Nat, searchLoop get T.length ts fuel (id : Int) (-1) = .ok (r : Int) ∧ r + 1 ≤ T.length := by
  induction id with
  | zero => intro fuel h; omega
  | succ k ih =>
    intro fuel _ h2 hf
    obtain ⟨f, rfl⟩ : ∃ f, fuel = f + 1 := ⟨fuel - 1, by omega⟩
    by_cases hk : k = 0
    · subst hk
      refine ⟨0, ?_, by omega⟩
      rw [searchLoop]
      have : ¬ ((-1 : Int) = 0) := by omega
      simp only [this, if_false]
      rw [if_neg (by omega), if_pos (by omega)]
      congr 1
    · obtain ⟨t, _, hstep⟩ := searchLoop_step (ts := ts) hg f ((k + 1 : Nat) : Int) (-1) (k : Int)
        (by omega) (by omega) (by omega) (by omega)
      rw [hstep, abs_shr_neg_one]
      by_cases hc : t > ts
      · rw [if_pos hc]
        exact ih f (by omega) (by omega) (by omega)
      · rw [if_neg hc]
        obtain ⟨f', rfl⟩ : ∃ f', f = f' + 1 := ⟨f - 1, by omega⟩
        obtain ⟨t', _, hstep'⟩ := searchLoop_step (ts := ts) hg f' (k : Int) 1 ((k + 1 : Nat) : Int)
          (by omega) (by omega) (by omega) (by omega)
        obtain ⟨f'', rfl⟩ : ∃ f'', f' = f'' + 1 := ⟨f' - 1, by omega⟩
        refine ⟨k + 1, ?_, by omega⟩
        rw [hstep', abs_shr_one]
        simp only [Int.neg_zero, ite_self]
        exact searchLoop_done _ _ _

/-- the halving phase: with the invariant of appendix A.5 at a step `±2^m`, the loop terminates within
`m + N + 2` iterations at an index `0 ≤ r ≤ N-1`; every element read is at an index in `1..N-1`. -/
theorem searchLoop_halving (hg : ReadsOn get T) (m : Nat) : ∀ (id : Int) (fuel : Nat),
    m + T.length + 2 ≤ fuel →
    ((0 ≤ id ∧ id + 2 * (2 : Int) ^ m ≤ T.length) →
      ∃ r : Nat, searchLoop get T.length ts fuel id ((2 : Int) ^ m) = .ok (r : Int) ∧ r + 1 ≤ T.length) ∧
    ((-1 ≤ id - 2 * (2 : Int) ^ m ∧ id + 1 ≤ T.length) →
      ∃ r : Nat, searchLoop get T.length ts fuel id (-((2 : Int) ^ m)) = .ok (r : Int) ∧ r + 1 ≤ T.length) := by
  induction m with
  | zero =>
    intro id fuel hf
    have h20 : (2 : Int) ^ 0 = 1 := by rfl
    rw [h20]
    obtain ⟨f, rfl⟩ : ∃ f, fuel = f + 1 := ⟨fuel - 1, by omega⟩
    constructor
    · intro ⟨h0, h1⟩
      obtain ⟨t, _, hstep⟩ := searchLoop_step (ts := ts) hg f id 1 (id + 1) rfl (by omega) (by omega) (by omega)
      obtain ⟨f', rfl⟩ : ∃ f', f = f' + 1 := ⟨f - 1, by omega⟩
      refine ⟨(id + 1).toNat, ?_, by omega⟩
      rw [hstep, abs_shr_one]
      simp only [Int.neg_zero, ite_self]
      rw [searchLoop_done, Int.toNat_of_nonneg (by omega)]
    · intro ⟨h0, h1⟩
      have := searchLoop_walk (ts := ts) hg id.toNat (f + 1) (by omega) (by omega) (by omega)
      rw [Int.toNat_of_nonneg (by omega)] at this
      exact this
  | succ m ih =>
    intro id fuel hf
    have hp2 : (2 : Int) ^ (m + 1) = 2 * (2 : Int) ^ m := by rw [Int.pow_succ]; omega
    have hpos : 0 < (2 : Int) ^ m := Int.pow_pos (by omega)
    rw [hp2]
    generalize (2 : Int) ^ m = p at ih hpos ⊢
    obtain ⟨f, rfl⟩ : ∃ f, fuel = f + 1 := ⟨fuel - 1, by omega⟩
    constructor
    · intro ⟨h0, h1⟩
      obtain ⟨t, _, hstep⟩ := searchLoop_step (ts := ts) hg f id (2 * p) (id + 2 * p) rfl
        (by omega) (by omega) (by omega)
      rw [hstep, abs_shr_pos p (by omega)]
      by_cases hc : t > ts
      · rw [if_pos hc]
        exact (ih (id + 2 * p) f (by omega)).2 ⟨by omega, by omega⟩
      · rw [if_neg hc]
        exact (ih (id + 2 * p) f (by omega)).1 ⟨by omega, by omega⟩
    · intro ⟨h0, h1⟩
      obtain ⟨t, _, hstep⟩ := searchLoop_step (ts := ts) hg f id (-(2 * p)) (id - 2 * p) (by omega)
        (by omega) (by omega) (by omega)
      rw [hstep, abs_shr_neg p (by omega)]
      by_cases hc : t > ts
      · rw [if_pos hc]
        exact (ih (id - 2 * p) f (by omega)).2 ⟨by omega, by omega⟩
      · rw [if_neg hc]
        exact (ih (id - 2 * p) f (by omega)).1 ⟨by omega, by omega⟩

/-- first fix-up loop from a valid index: ends at `r ≤ id` with `r = 0` or `T[r] ≤ ts`. -/
theorem fixLeft_spec (hg : ReadsOn get T) (id : Nat) : ∀ fuel : Nat, id + 1 ≤ T.length → id + 1 ≤ fuel →
    ∃ r : Nat, fixLeft get ts fuel (id : Int) = .ok (r : Int) ∧ r ≤ id ∧
      (r = 0 ∨ ∀ t, T[r]? = some t → t ≤ ts) := by
  induction id with
  | zero =>
    intro fuel h1 hf
    obtain ⟨f, rfl⟩ : ∃ f, fuel = f + 1 := ⟨fuel - 1, by omega⟩
    obtain ⟨t, _, hget⟩ := readsOn_get hg ((0 : Nat) : Int) (by omega) (by omega)
    refine ⟨0, ?_, by omega, Or.inl rfl⟩
    rw [fixLeft]
    simp only [hget]
    by_cases hc : t > ts
    · rw [if_pos hc, if_pos (by omega)]
    · rw [if_neg hc]
  | succ k ih =>
    intro fuel h1 hf
    obtain ⟨f, rfl⟩ : ∃ f, fuel = f + 1 := ⟨fuel - 1, by omega⟩
    obtain ⟨t, ht, hget⟩ := readsOn_get hg ((k + 1 : Nat) : Int) (by omega) (by omega)
    rw [fixLeft]
    simp only [hget]
    by_cases hc : t > ts
    · rw [if_pos hc, if_neg (by omega)]
      have e : ((k + 1 : Nat) : Int) - 1 = (k : Int) := by omega
      rw [e]
      obtain ⟨r, h, hle, hr⟩ := ih f (by omega) (by omega)
      exact ⟨r, h, by omega, hr⟩
    · rw [if_neg hc]
      refine ⟨k + 1, rfl, by omega, Or.inr ?_⟩
      intro t' ht'
      rw [Int.toNat_natCast] at ht
      rw [ht] at ht'
      cases ht'
      omega

/-- second fix-up loop from a valid index: ends at `id ≤ r ≤ N`, everything in `[id, r)` is `≤ ts`
and `T[r] > ts` when `r < N`. -/
theorem fixRight_spec (hg : ReadsOn get T) : ∀ (fuel id : Nat), id + 1 ≤ T.length → T.length + 1 ≤ id + fuel →
    ∃ r : Nat, fixRight get T.length ts fuel (id : Int) = .ok (r : Int) ∧ id ≤ r ∧ r ≤ T.length ∧
      (∀ k t, id ≤ k → k < r → T[k]? = some t → t ≤ ts) ∧ (∀ t, T[r]? = some t → ts < t) := by
  intro fuel
  induction fuel with
  | zero => intro id h1 h2; omega
  | succ f ih =>
    intro id h1 h2
    obtain ⟨t, ht, hget⟩ := readsOn_get hg (id : Int) (by omega) (by omega)
    rw [Int.toNat_natCast] at ht
    rw [fixRight]
    simp only [hget]
    by_cases hc : t ≤ ts
    · rw [if_pos hc]
      by_cases hN : (id : Int) + 1 = (T.length : Int)
      · rw [if_pos hN]
        refine ⟨id + 1, by congr 1, by omega, by omega, ?_, ?_⟩
        · intro k t' hk1 hk2 hk
          have : k = id := by omega
          subst this
          rw [ht] at hk; cases hk; exact hc
        · intro t' ht'
          have : T[id + 1]? = none := List.getElem?_eq_none (by omega)
          rw [this] at ht'; cases ht'
      · rw [if_neg hN]
        have e : ((id : Int) + 1) = ((id + 1 : Nat) : Int) := by omega
        rw [e]
        obtain ⟨r, h, hle, hrN, hall, hr⟩ := ih (id + 1) (by omega) (by omega)
        refine ⟨r, h, by omega, hrN, ?_, hr⟩
        intro k t' hk1 hk2 hk
        by_cases hkid : k = id
        · subst hkid
          rw [ht] at hk; cases hk; exact hc
        · exact hall k t' (by omega) hk2 hk
    · rw [if_neg hc]
      refine ⟨id, rfl, by omega, by omega, ?_, ?_⟩
      · intro k t' hk1 hk2 _; omega
      · intro t' ht'
        rw [ht] at ht'; cases ht'; omega

theorem insertionIndexWith_ge2 (j : Nat) (h : 2 ≤ T.length) :
    insertionIndexWith get j T ts =
      ((searchLoop get T.length ts (j + T.length + 3) 0 ((2 : Int) ^ j)).bind
        (fixLeft get ts (T.length + 2))).bind (fixRight get T.length ts (T.length + 2)) := by
  match T, h with
  | _ :: _ :: _, _ => rfl

/-- the whole of `__getInsertionIndex` on at least two observations, any (sorted or not) timestamps:
the three loops end, in range, at `r0`, `r1`, `r2` with the facts established by each. -/
theorem insertionIndexWith_run (hg : ReadsOn get T) (j : Nat) (hN : 2 ≤ T.length)
    (hj : 2 * 2 ^ j ≤ T.length) :
    ∃ r1 r2 : Nat, insertionIndexWith get j T ts = .ok (r2 : Int) ∧ r1 + 1 ≤ T.length ∧ r1 ≤ r2 ∧
      r2 ≤ T.length ∧ (r1 = 0 ∨ ∀ t, T[r1]? = some t → t ≤ ts) ∧
      (∀ k t, r1 ≤ k → k < r2 → T[k]? = some t → t ≤ ts) ∧ (∀ t, T[r2]? = some t → ts < t) := by
  rw [insertionIndexWith_ge2 j hN]
  have hj' : (0 : Int) + 2 * (2 : Int) ^ j ≤ (T.length : Int) := by
    have : ((2 * 2 ^ j : Nat) : Int) ≤ (T.length : Int) := by exact_mod_cast hj
    simpa using this
  obtain ⟨r0, h0, hr0⟩ := (searchLoop_halving (ts := ts) hg j 0 (j + T.length + 3) (by omega)).1 ⟨by omega, hj'⟩
  obtain ⟨r1, h1, hr1, hr1'⟩ := fixLeft_spec (ts := ts) hg r0 (T.length + 2) (by omega) (by omega)
  obtain ⟨r2, h2, hr2, hr2N, hall, hr2'⟩ := fixRight_spec (ts := ts) hg (T.length + 2) r1 (by omega) (by omega)
  refine ⟨r1, r2, ?_, by omega, hr2, hr2N, hr1', hall, hr2'⟩
  rw [h0, Res.bind, h1, Res.bind, h2]

/-- `countP` from a split point -/
theorem countP_of_split (T : List Int) (p : Int → Bool) (r : Nat) (hr : r ≤ T.length)
    (h1 : ∀ k t, k < r → T[k]? = some t → p t = true)
    (h2 : ∀ k t, r ≤ k → T[k]? = some t → p t = false) : T.countP p = r := by
  rw [← List.take_append_drop r T, List.countP_append]
  have a : (T.take r).countP p = (T.take r).length := by
    rw [List.countP_eq_length]
    intro x hx
    obtain ⟨k, hk⟩ := List.mem_iff_getElem?.mp hx
    rw [List.getElem?_take] at hk
    by_cases hkr : k < r
    · rw [if_pos hkr] at hk; exact h1 k x hkr hk
    · rw [if_neg hkr] at hk; cases hk
  have b : (T.drop r).countP p = 0 := by
    rw [List.countP_eq_zero]
    intro x hx
    obtain ⟨k, hk⟩ := List.mem_iff_getElem?.mp hx
    rw [List.getElem?_drop] at hk
    have := h2 (r + k) x (by omega) hk
    simp [this]
  rw [a, b, List.length_take]; omega

theorem sorted_getElem? (hs : T.Pairwise (· ≤ ·)) (i j : Nat) (hij : i ≤ j) (a b : Int)
    (ha : T[i]? = some a) (hb : T[j]? = some b) : a ≤ b := by
  by_cases h : i = j
  · subst h; rw [ha] at hb; cases hb; omega
  · have hi : i < T.length := (List.getElem?_eq_some_iff.mp ha).1
    have hj : j < T.length := (List.getElem?_eq_some_iff.mp hb).1
    have := List.pairwise_iff_getElem.mp hs i j hi hj (by omega)
    rw [List.getElem?_eq_getElem hi] at ha; rw [List.getElem?_eq_getElem hj] at hb
    cases ha; cases hb; exact this

/-- on a time-sorted list of at least two timestamps the result splits the list: everything before
is `≤ ts`, everything from it on is `> ts`. -/
theorem insertionIndexWith_bounds (hg : ReadsOn get T) (j : Nat) (hN : 2 ≤ T.length)
    (hj : 2 * 2 ^ j ≤ T.length) (hs : T.Pairwise (· ≤ ·)) :
    ∃ r : Nat, insertionIndexWith get j T ts = .ok (r : Int) ∧ r ≤ T.length ∧
      (∀ k t, k < r → T[k]? = some t → t ≤ ts) ∧ (∀ k t, r ≤ k → T[k]? = some t → ts < t) := by
  obtain ⟨r1, r2, h, hr1, h12, hr2, hl, hall, hr⟩ := insertionIndexWith_run (ts := ts) hg j hN hj
  refine ⟨r2, h, hr2, ?_, ?_⟩
  · intro k t hk hkt
    by_cases hk1 : r1 ≤ k
    · exact hall k t hk1 hk hkt
    · rcases hl with h0 | hle
      · omega
      · have hr1lt : r1 < T.length := by omega
        have := hle T[r1] (List.getElem?_eq_getElem hr1lt)
        have := sorted_getElem? hs k r1 (by omega) t T[r1] hkt (List.getElem?_eq_getElem hr1lt)
        omega
  · intro k t hk hkt
    have hklt : k < T.length := (List.getElem?_eq_some_iff.mp hkt).1
    have hr2lt : r2 < T.length := by omega
    have := hr T[r2] (List.getElem?_eq_getElem hr2lt)
    have := sorted_getElem? hs r2 k hk T[r2] t (List.getElem?_eq_getElem hr2lt) hkt
    omega

theorem ilog2_first_step (N : Nat) (hN : 2 ≤ N) : 2 * 2 ^ (ilog2 N - 1) ≤ N := by
  unfold ilog2
  have h1 : 1 ≤ N.log2 := (Nat.le_log2 (by omega)).mpr (by omega)
  have h2 : 2 ^ N.log2 ≤ N := Nat.log2_self_le (by omega)
  have : 2 * 2 ^ (N.log2 - 1) = 2 ^ N.log2 := by
    obtain ⟨k, hk⟩ : ∃ k, N.log2 = k + 1 := ⟨N.log2 - 1, by omega⟩
    rw [hk, Nat.add_sub_cancel, Nat.pow_succ]; omega
  omega


/-! ### a getter that answers less often gives the same result whenever it gives one -/

def SubGet (g1 g2 : Int → Option Int) : Prop := ∀ i t, g1 i = some t → g2 i = some t

theorem strictGet_sub_pyGet (T : List Int) : SubGet (strictGet T) (pyGet T) := by
  intro i t h
  unfold strictGet at h
  by_cases hc : 0 ≤ i ∧ i < (T.length : Int)
  · rw [if_pos hc] at h
    unfold pyGet
    rw [if_pos hc.1]; exact h
  · rw [if_neg hc] at h; cases h

theorem searchLoop_mono {g1 g2 : Int → Option Int} (h : SubGet g1 g2) (N : Nat) (ts : Int) :
    ∀ (fuel : Nat) (id delta r : Int), searchLoop g1 N ts fuel id delta = .ok r →
      searchLoop g2 N ts fuel id delta = .ok r := by
  intro fuel
  induction fuel with
  | zero => intro id delta r hr; rw [searchLoop] at hr; cases hr
  | succ f ih =>
    intro id delta r hr
    rw [searchLoop] at hr ⊢
    by_cases hd : delta = 0
    · simp only [hd, if_true] at hr ⊢; exact hr
    · simp only [hd, if_false] at hr ⊢
      by_cases hN : id + delta ≥ (N : Int)
      · simp only [hN, if_true] at hr ⊢; exact ih _ _ _ hr
      · simp only [hN, if_false] at hr ⊢
        by_cases h0 : id + delta = 0
        · simp only [h0, if_true] at hr ⊢; exact hr
        · simp only [h0, if_false] at hr ⊢
          cases hg : g1 (id + delta) with
          | none => rw [hg] at hr; cases hr
          | some t =>
            rw [hg] at hr
            rw [h _ _ hg]
            simp only at hr ⊢
            by_cases hc : t > ts
            · rw [if_pos hc] at hr ⊢; exact ih _ _ _ hr
            · rw [if_neg hc] at hr ⊢; exact ih _ _ _ hr

theorem fixLeft_mono {g1 g2 : Int → Option Int} (h : SubGet g1 g2) (ts : Int) :
    ∀ (fuel : Nat) (id r : Int), fixLeft g1 ts fuel id = .ok r → fixLeft g2 ts fuel id = .ok r := by
  intro fuel
  induction fuel with
  | zero => intro id r hr; rw [fixLeft] at hr; cases hr
  | succ f ih =>
    intro id r hr
    rw [fixLeft] at hr ⊢
    cases hg : g1 id with
    | none => rw [hg] at hr; cases hr
    | some t =>
      rw [hg] at hr
      rw [h _ _ hg]
      simp only at hr ⊢
      by_cases hc : t > ts
      · rw [if_pos hc] at hr ⊢
        by_cases h0 : id = 0
        · rw [if_pos h0] at hr ⊢; exact hr
        · rw [if_neg h0] at hr ⊢; exact ih _ _ hr
      · rw [if_neg hc] at hr ⊢; exact hr

theorem fixRight_mono {g1 g2 : Int → Option Int} (h : SubGet g1 g2) (N : Nat) (ts : Int) :
    ∀ (fuel : Nat) (id r : Int), fixRight g1 N ts fuel id = .ok r → fixRight g2 N ts fuel id = .ok r := by
  intro fuel
  induction fuel with
  | zero => intro id r hr; rw [fixRight] at hr; cases hr
  | succ f ih =>
    intro id r hr
    rw [fixRight] at hr ⊢
    cases hg : g1 id with
    | none => rw [hg] at hr; cases hr
    | some t =>
      rw [hg] at hr
      rw [h _ _ hg]
      simp only at hr ⊢
      by_cases hc : t ≤ ts
      · rw [if_pos hc] at hr ⊢
        by_cases h0 : id + 1 = (N : Int)
        · rw [if_pos h0] at hr ⊢; exact hr
        · rw [if_neg h0] at hr ⊢; exact ih _ _ hr
      · rw [if_neg hc] at hr ⊢; exact hr

theorem bind_ok {x : Res} {f : Int → Res} {r : Int} (h : x.bind f = .ok r) :
    ∃ a, x = .ok a ∧ f a = .ok r := by
  cases x with
  | ok a => exact ⟨a, rfl, h⟩
  | indexErr => cases h
  | outOfFuel => cases h

theorem insertionIndexWith_mono {g1 g2 : Int → Option Int} (h : SubGet g1 g2) (j : Nat) (T : List Int)
    (ts r : Int) (hr : insertionIndexWith g1 j T ts = .ok r) : insertionIndexWith g2 j T ts = .ok r := by
  match T, hr with
  | [], hr => exact hr
  | [_], hr => exact hr
  | a :: b :: rest, hr =>
    have e1 := insertionIndexWith_ge2 (get := g1) (ts := ts) (T := a :: b :: rest) j (by simp)
    have e2 := insertionIndexWith_ge2 (get := g2) (ts := ts) (T := a :: b :: rest) j (by simp)
    rw [e1] at hr; rw [e2]
    obtain ⟨x1, hx1, hr⟩ := bind_ok hr
    obtain ⟨x0, hx0, hx1⟩ := bind_ok hx1
    rw [searchLoop_mono h _ _ _ _ _ _ hx0, Res.bind, fixLeft_mono h _ _ _ _ hx1, Res.bind]
    exact fixRight_mono h _ _ _ _ _ hr


/-! ### consequences used by the property theorems -/

/-- on time-sorted timestamps of any size the index found splits the list around `ts`. -/
theorem insertionIndex_split (T : List Int) (ts : Int) (hs : T.Pairwise (· ≤ ·)) :
    ∃ r : Nat, r ≤ T.length ∧ insertionIndex T ts = .ok (r : Int) ∧
      (∀ k t, k < r → T[k]? = some t → t ≤ ts) ∧ (∀ k t, r ≤ k → T[k]? = some t → ts ≤ t) := by
  match T, hs with
  | [], _ => exact ⟨0, by simp, rfl, by intro k t hk; omega, by intro k t _ h; cases h⟩
  | [t0], _ =>
    by_cases h : t0 < ts
    · refine ⟨1, by simp, by simp [insertionIndex, insertionIndexFrom, insertionIndexWith, h], ?_, ?_⟩
      · intro k t hk hkt
        have : k = 0 := by omega
        subst this
        simp at hkt; omega
      · intro k t hk hkt
        have : [t0][k]? = none := List.getElem?_eq_none (by simp; omega)
        rw [this] at hkt; cases hkt
    · refine ⟨0, by simp, by simp [insertionIndex, insertionIndexFrom, insertionIndexWith, h], ?_, ?_⟩
      · intro k t hk; omega
      · intro k t _ hkt
        by_cases hk0 : k = 0
        · subst hk0; simp at hkt; omega
        · have : [t0][k]? = none := List.getElem?_eq_none (by simp; omega)
          rw [this] at hkt; cases hkt
  | a :: b :: rest, hs =>
    have hN : 2 ≤ (a :: b :: rest).length := by simp
    obtain ⟨r, h, hr, h1, h2⟩ := insertionIndexWith_bounds (ts := ts) (pyGet_readsOn (a :: b :: rest))
      (ilog2 (a :: b :: rest).length - 1) hN (ilog2_first_step _ hN) hs
    exact ⟨r, hr, h, h1, fun k t hk hkt => by have := h2 k t hk hkt; omega⟩

/-- `insertObs` once the index is known to be a valid position -/
theorem insertChrono_of_index (tr : Track) (o : Obs) (r : Nat) (hr : r ≤ tr.pts.length)
    (h : insertionIndex (tr.pts.map (·.time)) o.time = .ok (r : Int)) :
    insertChrono tr o = some ⟨tr.pts.take r ++ o :: tr.pts.drop r, tr.table⟩ := by
  unfold insertChrono
  rw [h]
  have : pyInsert tr.pts (r : Int) o = tr.pts.insertIdx r o := by
    unfold pyInsert
    have h1 : ¬ ((r : Int) < 0) := by omega
    have h2 : ¬ ((r : Int) > (tr.pts.length : Int)) := by omega
    simp only [h1, h2, if_false, Int.toNat_natCast]
  simp only [this, insertIdx_eq_take_drop tr.pts r o hr]

end TV.Seq
