import TracklibVerif.Model.FeaturesCall
import TracklibVerif.Lemmas.FeaturesFrame
import TracklibVerif.Lemmas.FeaturesGSimEval
/-! The list forms of `Track.operate` (`Model/FeaturesCall.lean`): simulation between any two implementations of the
Track API whose primitives are simulated, and the frame on the specification table. -/
set_option linter.unusedSectionVars false
namespace TV.Features
variable {V : Type} [Inhabited V]

section generic
variable {σ τ : Type} [Tbl σ V] [Tbl τ V] {I : σ → Prop} {ab : σ → τ} [PrimSim I ab]

theorem gsim_stepList (o : Ops V) (ops : List (Op V)) :
    GSim I ab (fun _ => True) (stepList (σ := σ) o ops) (stepList (σ := τ) o ops) := by
  induction ops with
  | nil => exact gsim_pure _ trivial
  | cons op rest ih => unfold stepList; exact gsim_bind (gsim_step o op) (fun _ _ => ih)

theorem gsim_call (o : Ops V) (c : Call V) :
    GSim I ab (fun _ => True) (call (σ := σ) o c) (call (σ := τ) o c) := by
  cases c with
  | one op => exact gsim_step o op
  | list ops => exact gsim_stepList o ops
  | refused => exact gsim_throw _

end generic

theorem frame_stepList (o : Ops V) (ops : List (Op V)) :
    Frame (fun m => ∃ op ∈ ops, touched op m) (fun _ => True) (stepList (σ := ATab V) o ops) := by
  induction ops with
  | nil => exact frame_pure _ trivial
  | cons op rest ih =>
    unfold stepList
    refine frame_bind (P := fun _ => True) (frame_weaken (frame_step o op) (fun m hm => ⟨op, by simp, hm⟩) (fun _ _ => trivial)) ?_
    intro _ _
    exact frame_weaken ih (fun m ⟨op', hm', ht⟩ => ⟨op', by simp [hm'], ht⟩) (fun _ h => h)


end TV.Features
