import TracklibVerif.Lemmas.PartitionTree
import Mathlib.Algebra.Order.Field.Basic
import Mathlib.Algebra.Order.Ring.Abs
import Mathlib.Tactic.Linarith
import Mathlib.Tactic.Ring
/-! Rounded addition (the standard model of floating-point arithmetic): how far the value of a bracketed sum computed
with a rounded addition `⊕` on `F` can be from the exact sum in an ordered field `α`, through an embedding `ι : F → α` with
`|ι (a ⊕ b) − (ι a + ι b)| ≤ u · |ι a + ι b|`. With height `≤ n`: `|ι (val) − Σ| ≤ ((1+u)^n − 1) · Σ|·|`. -/
namespace TV.Partition

namespace Br
/-- number of nested additions -/
def height : Br → Nat
  | seg _ _ => 0
  | node l r => max l.height r.height + 1

theorem height_lt_span : ∀ t : Br, t.WF → t.height + 1 ≤ t.hi - t.lo
  | seg _ _, h => by simp only [height, hi, lo]; simp only [WF] at h; omega
  | node l r, h => by
    have h1 := height_lt_span l h.1
    have h2 := height_lt_span r h.2.1
    have h3 := h.2.2
    have h4 := lo_lt_hi l h.1
    have h5 := lo_lt_hi r h.2.1
    simp only [height, hi, lo]
    omega
end Br

/-! ### a bracketing and its chain: the exact value is the summed cost of the chain -/
section exact
variable {α : Type} [AddCommMonoid α]

theorem br_chain_cost (c : Nat → Nat → α) : ∀ t : Br, t.WF →
    ∃ rest, t.chain = t.lo :: rest ∧ rest ≠ [] ∧ lastOf t.lo rest = t.hi ∧ Inc (t.lo :: rest) ∧
      t.val c = pathCost 0 c (t.lo :: rest)
  | .seg a b, h => ⟨[b], rfl, by simp, rfl, ⟨h, trivial⟩, by simp [Br.val, Br.lo, pathCost]⟩
  | .node l r, h => by
    obtain ⟨r1, e1, n1, l1, i1, v1⟩ := br_chain_cost c l h.1
    obtain ⟨r2, e2, n2, l2, i2, v2⟩ := br_chain_cost c r h.2.1
    have h3 : l.hi = r.lo := h.2.2
    refine ⟨r1 ++ r2, ?_, by simp [n1], ?_, ?_, ?_⟩
    · simp only [Br.chain, Br.lo, e1, e2, List.tail_cons, List.cons_append]
    · simp only [Br.lo, Br.hi]; rw [lastOf_append, l1, h3, l2]
    · simp only [Br.lo]
      apply inc_append _ _ _ i1
      rw [l1, h3]; exact i2
    · simp only [Br.val, Br.lo]
      rw [pathCost_append, l1, h3, v1, v2]

/-- the right-nested bracketing of a chain `i :: l` (its left-to-right… right-to-left sum) -/
def combBr : Nat → List Nat → Br
  | i, [] => .seg i i
  | i, [p] => .seg i p
  | i, p :: q :: rest => .node (.seg i p) (combBr p (q :: rest))

theorem combBr_spec : ∀ (l : List Nat) (i : Nat), l ≠ [] → Inc (i :: l) →
    (combBr i l).WF ∧ (combBr i l).lo = i ∧ (combBr i l).hi = lastOf i l ∧ (combBr i l).chain = i :: l := by
  intro l
  induction l with
  | nil => intro i h; exact absurd rfl h
  | cons p ps ih =>
    intro i _ hinc
    cases ps with
    | nil => exact ⟨hinc.1, rfl, rfl, rfl⟩
    | cons q rest =>
      obtain ⟨w, lo, hi, ch⟩ := ih p (by simp) hinc.2
      refine ⟨⟨hinc.1, w, ?_⟩, rfl, ?_, ?_⟩
      · simp only [Br.hi]; exact lo.symm
      · simp only [combBr, Br.hi]; rw [hi]; rfl
      · simp only [combBr, Br.chain]; rw [ch]; rfl
end exact

/-! ### the rounding error of a bracketed sum -/
section round
variable {F α : Type} [Add F] [Field α] [LinearOrder α] [IsStrictOrderedRing α]

theorem one_le_pow_one_add (u : α) (hu : 0 ≤ u) (n : Nat) : 1 ≤ (1 + u) ^ n := by
  induction n with
  | zero => simp
  | succ n ih =>
    rw [pow_succ]
    have : 0 ≤ (1 + u) ^ n * u := mul_nonneg (by linarith) hu
    nlinarith

theorem abs_val_nonneg (c : Nat → Nat → α) : ∀ t : Br, 0 ≤ t.val (fun a b => |c a b|)
  | .seg _ _ => abs_nonneg _
  | .node l r => add_nonneg (abs_val_nonneg c l) (abs_val_nonneg c r)

/-- **rounding error of a bracketed sum** of height `≤ n`: the value computed with the rounded addition of `F`,
seen in `α`, is within `((1+u)^n − 1) · Σ|cost|` of the exact sum, and bounded by `(1+u)^n · Σ|cost|` -/
theorem round_err (ι : F → α) (u : α) (hu : 0 ≤ u)
    (herr : ∀ a b : F, |ι (a + b) - (ι a + ι b)| ≤ u * |ι a + ι b|) (C : Nat → Nat → F) :
    ∀ (t : Br) (n : Nat), t.height ≤ n →
      |ι (t.val C) - t.val (fun a b => ι (C a b))| ≤ ((1 + u) ^ n - 1) * t.val (fun a b => |ι (C a b)|) ∧
      |ι (t.val C)| ≤ (1 + u) ^ n * t.val (fun a b => |ι (C a b)|)
  | .seg a b, n, _ => by
    have h1 := one_le_pow_one_add u hu n
    simp only [Br.val, sub_self, abs_zero]
    constructor
    · exact mul_nonneg (by linarith) (abs_nonneg _)
    · have := abs_nonneg (ι (C a b))
      nlinarith
  | .node l r, n, hn => by
    cases n with
    | zero => simp [Br.height] at hn
    | succ m =>
      have hl : l.height ≤ m := by simp only [Br.height] at hn; omega
      have hr : r.height ≤ m := by simp only [Br.height] at hn; omega
      obtain ⟨el, bl⟩ := round_err ι u hu herr C l m hl
      obtain ⟨er, br⟩ := round_err ι u hu herr C r m hr
      have hP := one_le_pow_one_add u hu m
      have hAl := abs_val_nonneg (fun a b => ι (C a b)) l
      have hAr := abs_val_nonneg (fun a b => ι (C a b)) r
      simp only [Br.val]
      set P := (1 + u) ^ m with hPdef
      set vl := ι (l.val C)
      set vr := ι (r.val C)
      set Sl := l.val (fun a b => ι (C a b))
      set Sr := r.val (fun a b => ι (C a b))
      set Al := l.val (fun a b => |ι (C a b)|)
      set Ar := r.val (fun a b => |ι (C a b)|)
      have hsum : |vl + vr| ≤ P * (Al + Ar) := by
        calc |vl + vr| ≤ |vl| + |vr| := abs_add_le _ _
          _ ≤ P * Al + P * Ar := add_le_add bl br
          _ = P * (Al + Ar) := by ring
      have he := herr (l.val C) (r.val C)
      have hpow : (1 + u) ^ (m + 1) = P * (1 + u) := pow_succ _ _
      have huP : u * |vl + vr| ≤ u * (P * (Al + Ar)) := mul_le_mul_of_nonneg_left hsum hu
      constructor
      · have tri : |ι (l.val C + r.val C) - (Sl + Sr)| ≤
            |ι (l.val C + r.val C) - (vl + vr)| + (|vl - Sl| + |vr - Sr|) := by
          have e : ι (l.val C + r.val C) - (Sl + Sr) = (ι (l.val C + r.val C) - (vl + vr)) + ((vl - Sl) + (vr - Sr)) := by ring
          rw [e]
          exact le_trans (abs_add_le _ _) (add_le_add (le_refl _) (abs_add_le _ _))
        rw [hpow]
        nlinarith [tri, he, el, er, huP]
      · have tri : |ι (l.val C + r.val C)| ≤ |ι (l.val C + r.val C) - (vl + vr)| + |vl + vr| := by
          have e : ι (l.val C + r.val C) = (ι (l.val C + r.val C) - (vl + vr)) + (vl + vr) := by ring
          calc |ι (l.val C + r.val C)| = |(ι (l.val C + r.val C) - (vl + vr)) + (vl + vr)| := by rw [← e]
            _ ≤ _ := abs_add_le _ _
        rw [hpow]
        nlinarith [tri, he, huP, hsum]
end round
end TV.Partition
