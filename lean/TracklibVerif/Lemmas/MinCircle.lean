import TracklibVerif.Model.MinCircle
import Mathlib.Algebra.Order.Field.Basic
import Mathlib.Tactic.Ring
import Mathlib.Tactic.Linarith
import Mathlib.Tactic.FieldSimp
import Mathlib.Tactic.LinearCombination
set_option linter.unusedSectionVars false
/-! Geometry of the leaf circles of `__welzl` (`__circle` on one, two, three points) over an ordered field, and the
structure of a run (`welzl_leaf`: the value returned is always a leaf circle of at most three of the input points). -/
namespace TV.MinCircle
variable {α : Type} [Field α] [LinearOrder α] [IsStrictOrderedRing α]

/-- the circle encloses the point in the plane -/
def Enc (c : Circ α) (p : Pt α) : Prop := d2 p.x p.y c.cx c.cy ≤ c.r2

theorem circle2_left (p q : Pt α) : d2 p.x p.y (circle2 p q).cx (circle2 p q).cy = (circle2 p q).r2 := by
  simp only [circle2, d2]; field_simp; ring

theorem circle2_right (p q : Pt α) : d2 q.x q.y (circle2 p q).cx (circle2 p q).cy = (circle2 p q).r2 := by
  simp only [circle2, d2]; field_simp; ring

/-- no disc containing `p` and `q` is smaller than the one on the diameter `pq` -/
theorem circle2_minimal (p q : Pt α) (c : Circ α) (hp : Enc c p) (hq : Enc c q) : (circle2 p q).r2 ≤ c.r2 := by
  simp only [Enc, d2] at hp hq
  simp only [circle2, d2]
  have h1 := mul_self_nonneg (p.x + q.x - 2 * c.cx)
  have h2 := mul_self_nonneg (p.y + q.y - 2 * c.cy)
  rw [div_le_iff₀ (by norm_num : (0 : α) < 4)]
  nlinarith [h1, h2, hp, hq]

theorem circum_1 (p1 p2 p3 : Pt α) :
    d2 p1.x p1.y (circum p1 p2 p3).cx (circum p1 p2 p3).cy = (circum p1 p2 p3).r2 := by
  simp only [circum, d2]; ring

/-- algebra of the circumcentre in coordinates relative to `p1` -/
theorem circum_alg (bx by' cx cy d ux uy : α) (hd : d ≠ 0) (hdd : d = 2 * (bx * cy - by' * cx))
    (hux : ux = (cy * (bx * bx + by' * by') - by' * (cx * cx + cy * cy)) / d)
    (huy : uy = (bx * (cx * cx + cy * cy) - cx * (bx * bx + by' * by')) / d) :
    (ux - bx) * (ux - bx) + (uy - by') * (uy - by') = ux * ux + uy * uy
    ∧ (ux - cx) * (ux - cx) + (uy - cy) * (uy - cy) = ux * ux + uy * uy := by
  have hx : ux * d = cy * (bx * bx + by' * by') - by' * (cx * cx + cy * cy) := by rw [hux]; field_simp
  have hy : uy * d = bx * (cx * cx + cy * cy) - cx * (bx * bx + by' * by') := by rw [huy]; field_simp
  have e1 : (bx * bx + by' * by' - 2 * bx * ux - 2 * by' * uy) * d = 0 := by
    linear_combination (-2 * bx) * hx + (-2 * by') * hy + (bx * bx + by' * by') * hdd
  have e2 : (cx * cx + cy * cy - 2 * cx * ux - 2 * cy * uy) * d = 0 := by
    linear_combination (-2 * cx) * hx + (-2 * cy) * hy + (cx * cx + cy * cy) * hdd
  have f1 := (mul_eq_zero.mp e1).resolve_right hd
  have f2 := (mul_eq_zero.mp e2).resolve_right hd
  constructor
  · linear_combination f1
  · linear_combination f2

theorem circum_23 (p1 p2 p3 : Pt α) (h : (p2.x - p1.x) * (p3.y - p1.y) - (p3.x - p1.x) * (p2.y - p1.y) ≠ 0) :
    d2 p2.x p2.y (circum p1 p2 p3).cx (circum p1 p2 p3).cy = (circum p1 p2 p3).r2
    ∧ d2 p3.x p3.y (circum p1 p2 p3).cx (circum p1 p2 p3).cy = (circum p1 p2 p3).r2 := by
  have hd : (2 : α) * ((p2.x - p1.x) * (p3.y - p1.y) - (p2.y - p1.y) * (p3.x - p1.x)) ≠ 0 := by
    refine mul_ne_zero two_ne_zero ?_
    intro h0; apply h; linarith
  obtain ⟨a, b⟩ := circum_alg (p2.x - p1.x) (p2.y - p1.y) (p3.x - p1.x) (p3.y - p1.y) _ _ _ hd rfl rfl rfl
  simp only [circum, d2]
  constructor
  · rw [← a]; ring
  · rw [← b]; ring

theorem d2_eq_zero {ax ay bx by' : α} (h : d2 ax ay bx by' = 0) : bx = ax ∧ by' = ay := by
  simp only [d2] at h
  have h1 := mul_self_nonneg (bx - ax)
  have h2 := mul_self_nonneg (by' - ay)
  have e1 : (bx - ax) * (bx - ax) = 0 := by linarith
  have e2 : (by' - ay) * (by' - ay) = 0 := by linarith
  exact ⟨by have := mul_self_eq_zero.mp e1; linarith, by have := mul_self_eq_zero.mp e2; linarith⟩

theorem argminR_mem (b : Circ α) (l : List (Circ α)) : argminR b l = b ∨ argminR b l ∈ l := by
  induction l generalizing b with
  | nil => exact Or.inl rfl
  | cons c rest ih =>
    simp only [argminR]
    split
    · rcases ih c with h | h
      · exact Or.inr (by rw [h]; exact List.mem_cons_self)
      · exact Or.inr (List.mem_cons_of_mem _ h)
    · rcases ih b with h | h
      · exact Or.inl h
      · exact Or.inr (List.mem_cons_of_mem _ h)

theorem cands3_mem {p1 p2 p3 : Pt α} {c : Circ α} (h : c ∈ cands3 p1 p2 p3) :
    (c = circle2 p1 p2 ∧ inside c p3 = true) ∨ (c = circle2 p2 p3 ∧ inside c p1 = true)
      ∨ (c = circle2 p1 p3 ∧ inside c p2 = true) := by
  unfold cands3 at h
  simp only [List.mem_append] at h
  rcases h with (h | h) | h
  · by_cases hc : inside (circle2 p1 p2) p3 = true
    · rw [if_pos hc, List.mem_singleton] at h; subst h; exact Or.inl ⟨rfl, hc⟩
    · rw [if_neg hc] at h; exact absurd h List.not_mem_nil
  · by_cases hc : inside (circle2 p2 p3) p1 = true
    · rw [if_pos hc, List.mem_singleton] at h; subst h; exact Or.inr (Or.inl ⟨rfl, hc⟩)
    · rw [if_neg hc] at h; exact absurd h List.not_mem_nil
  · by_cases hc : inside (circle2 p1 p3) p2 = true
    · rw [if_pos hc, List.mem_singleton] at h; subst h; exact Or.inr (Or.inr ⟨rfl, hc⟩)
    · rw [if_neg hc] at h; exact absurd h List.not_mem_nil

theorem enc_of_inside {c : Circ α} {p : Pt α} (h : inside c p = true) : Enc c p := by
  simp only [inside, decide_eq_true_eq] at h
  exact le_of_lt h

/-- a candidate encloses the three points: two on its boundary, the third strictly inside -/
theorem cands3_enc {p1 p2 p3 : Pt α} {c : Circ α} (h : c ∈ cands3 p1 p2 p3) : Enc c p1 ∧ Enc c p2 ∧ Enc c p3 := by
  rcases cands3_mem h with ⟨rfl, hi⟩ | ⟨rfl, hi⟩ | ⟨rfl, hi⟩
  · exact ⟨le_of_eq (circle2_left _ _), le_of_eq (circle2_right _ _), enc_of_inside hi⟩
  · exact ⟨enc_of_inside hi, le_of_eq (circle2_left _ _), le_of_eq (circle2_right _ _)⟩
  · exact ⟨le_of_eq (circle2_left _ _), enc_of_inside hi, le_of_eq (circle2_right _ _)⟩

/-- a candidate is the smallest disc containing the three points (it has two of them on a diameter) -/
theorem cands3_minimal {p1 p2 p3 : Pt α} {c : Circ α} (h : c ∈ cands3 p1 p2 p3) (c' : Circ α)
    (h1 : Enc c' p1) (h2 : Enc c' p2) (h3 : Enc c' p3) : c.r2 ≤ c'.r2 := by
  rcases cands3_mem h with ⟨rfl, _⟩ | ⟨rfl, _⟩ | ⟨rfl, _⟩
  · exact circle2_minimal _ _ _ h1 h2
  · exact circle2_minimal _ _ _ h2 h3
  · exact circle2_minimal _ _ _ h1 h3

/-- `__circle(p1, p2, p3)`: `None` exactly for collinear points; never the perturbation branch; otherwise a circle that
encloses the three points — a candidate (minimal for the three points) or the circle THROUGH the three points -/
theorem circle3_spec (p1 p2 p3 : Pt α) :
    ((p2.x - p1.x) * (p3.y - p1.y) - (p3.x - p1.x) * (p2.y - p1.y) = 0 ∧ circle3 p1 p2 p3 = .none) ∨
    ((p2.x - p1.x) * (p3.y - p1.y) - (p3.x - p1.x) * (p2.y - p1.y) ≠ 0 ∧
      ∃ c, circle3 p1 p2 p3 = .circ c ∧
        ((c ∈ cands3 p1 p2 p3) ∨ (cands3 p1 p2 p3 = [] ∧ c = circum p1 p2 p3 ∧
          d2 p1.x p1.y c.cx c.cy = c.r2 ∧ d2 p2.x p2.y c.cx c.cy = c.r2 ∧ d2 p3.x p3.y c.cx c.cy = c.r2))) := by
  by_cases hcol : (p2.x - p1.x) * (p3.y - p1.y) - (p3.x - p1.x) * (p2.y - p1.y) = 0
  · left
    refine ⟨hcol, ?_⟩
    unfold circle3
    rw [if_pos (by simp only [collinear, decide_eq_true_eq]; exact hcol)]
  · right
    refine ⟨hcol, ?_⟩
    have hnr : ¬ (d2 p1.x p1.y p2.x p2.y = 0 ∨ d2 p1.x p1.y p3.x p3.y = 0 ∨ d2 p2.x p2.y p3.x p3.y = 0) := by
      rintro (h | h | h)
      · obtain ⟨a, b⟩ := d2_eq_zero h; apply hcol; rw [a, b]; ring
      · obtain ⟨a, b⟩ := d2_eq_zero h; apply hcol; rw [a, b]; ring
      · obtain ⟨a, b⟩ := d2_eq_zero h; apply hcol; rw [a, b]; ring
    unfold circle3
    rw [if_neg (by simp only [collinear, decide_eq_true_eq]; exact hcol), if_neg hnr]
    rcases hc : cands3 p1 p2 p3 with _ | ⟨c, rest⟩
    · refine ⟨circum p1 p2 p3, rfl, Or.inr ⟨rfl, rfl, circum_1 _ _ _, (circum_23 _ _ _ hcol).1, (circum_23 _ _ _ hcol).2⟩⟩
    · refine ⟨argminR c (c :: rest), rfl, Or.inl ?_⟩
      rcases argminR_mem c (c :: rest) with h | h
      · rw [h]; exact List.mem_cons_self
      · exact h

/-- in every case where `__circle(p1, p2, p3)` returns a circle, the circle encloses the three points -/
theorem circle3_encloses {p1 p2 p3 : Pt α} {c : Circ α} (h : circle3 p1 p2 p3 = .circ c) :
    Enc c p1 ∧ Enc c p2 ∧ Enc c p3 := by
  rcases circle3_spec p1 p2 p3 with ⟨_, hn⟩ | ⟨_, c', hc', hh⟩
  · rw [hn] at h; cases h
  · rw [hc'] at h; cases h
    rcases hh with hm | ⟨_, _, a, b, d⟩
    · exact cands3_enc hm
    · exact ⟨le_of_eq a, le_of_eq b, le_of_eq d⟩

/-- structure of a run: the value returned by `__welzl(P, R)` is the leaf circle `base R'` of a list `R'` of points taken
from `R` and `P` (or the model ran out of fuel) -/
theorem welzl_leaf (eps : α) (draw : Nat → Nat) : ∀ (fuel : Nat) (P R : List (Pt α)) (k : Nat) (o : Out α) (k' : Nat),
    welzl eps draw fuel P R k = (o, k') → o = .stuck ∨ ∃ R', o = base R' ∧ ∀ p ∈ R', p ∈ R ∨ p ∈ P := by
  intro fuel
  induction fuel with
  | zero =>
    intro P R k o k' h
    unfold welzl at h
    split at h
    · cases h; exact Or.inr ⟨R, rfl, fun p hp => Or.inl hp⟩
    · cases h; exact Or.inl rfl
  | succ n ih =>
    intro P R k o k' h
    unfold welzl at h
    split at h
    · cases h; exact Or.inr ⟨R, rfl, fun p hp => Or.inl hp⟩
    · simp only at h
      split at h
      · cases h; exact Or.inl rfl
      · rename_i p hp
        have hpP : p ∈ P := List.mem_of_getElem? hp
        have sub : ∀ q ∈ P.eraseIdx (draw k % P.length), q ∈ P := fun q hq => List.mem_of_mem_eraseIdx hq
        split at h
        · rename_i D k1 hrec
          split at h
          · cases h
            rcases ih _ _ _ _ _ hrec with h0 | ⟨R', e, hR'⟩
            · exact Or.inl h0
            · exact Or.inr ⟨R', e, fun q hq => (hR' q hq).imp id (sub q)⟩
          · rcases ih _ _ _ _ _ h with h0 | ⟨R', e, hR'⟩
            · exact Or.inl h0
            · refine Or.inr ⟨R', e, fun q hq => ?_⟩
              rcases hR' q hq with hq | hq
              · split at hq
                · exact Or.inl hq
                · rcases List.mem_append.mp hq with hq | hq
                  · exact Or.inl hq
                  · rw [List.mem_singleton] at hq; subst hq; exact Or.inr hpP
              · exact Or.inr (sub q hq)
        · rcases ih _ _ _ _ _ h with h0 | ⟨R', e, hR'⟩
          · exact Or.inl h0
          · exact Or.inr ⟨R', e, fun q hq => (hR' q hq).imp id (sub q)⟩

/-- a leaf is `None` or a circle, never a perturbation branch -/
theorem base_ne_random (R : List (Pt α)) : base R ≠ .random ∧ base R ≠ .stuck := by
  match R with
  | [] => exact ⟨by simp [base], by simp [base]⟩
  | [a] => exact ⟨by simp [base], by simp [base]⟩
  | [a, b] => exact ⟨by simp [base], by simp [base]⟩
  | a :: b :: d :: rest =>
    simp only [base]
    rcases circle3_spec a b d with ⟨_, h⟩ | ⟨_, c, h, _⟩ <;> rw [h] <;> exact ⟨by simp, by simp⟩

/-- with `fuel ≥ len(P)` the model never runs out of fuel -/
theorem welzl_not_stuck (eps : α) (draw : Nat → Nat) : ∀ (fuel : Nat) (P R : List (Pt α)) (k : Nat),
    P.length ≤ fuel → (welzl eps draw fuel P R k).1 ≠ .stuck := by
  intro fuel
  induction fuel with
  | zero =>
    intro P R k hl
    have hP : P = [] := List.eq_nil_of_length_eq_zero (Nat.le_zero.mp hl)
    subst hP
    unfold welzl
    simp only [List.isEmpty_nil, Bool.true_or, if_true]
    exact (base_ne_random R).2
  | succ n ih =>
    intro P R k hl
    unfold welzl
    split
    · exact (base_ne_random R).2
    · rename_i hne
      have hpos : 0 < P.length := by
        rcases P with _ | ⟨a, t⟩
        · simp at hne
        · simp
      have hid : draw k % P.length < P.length := Nat.mod_lt _ hpos
      have hlen : (P.eraseIdx (draw k % P.length)).length ≤ n := by
        rw [List.length_eraseIdx_of_lt hid]; omega
      simp only
      split
      · rename_i hnone
        rw [List.getElem?_eq_none_iff] at hnone
        omega
      · split
        · rename_i D k1 hrec
          split
          · simp
          · exact ih _ _ _ hlen
        · have := ih (P.eraseIdx (draw k % P.length)) R (k + 1) hlen
          exact this

end TV.MinCircle
