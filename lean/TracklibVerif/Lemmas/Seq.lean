import TracklibVerif.Model.Seq
/-! Helper lemmas for C04 (`Model/Seq.lean`), part 1: slicing operators, removal, sort.
The dichotomy of `__getInsertionIndex` is in `Lemmas/SeqSearch.lean`. Core Lean only. -/
namespace TV.Seq
variable {α : Type}

/-! ### designated sub-sequences by index predicate -/

/-- the elements whose position (counted from `i`) satisfies `p`, in order -/
def keepIdx (p : Nat → Bool) : Nat → List α → List α
  | _, [] => []
  | i, x :: xs => if p i then x :: keepIdx p (i + 1) xs else keepIdx p (i + 1) xs

theorem keepIdx_eq_zipIdx (p : Nat → Bool) (i : Nat) (l : List α) :
    keepIdx p i l = ((l.zipIdx i).filter (fun q => p q.2)).map (·.1) := by
  induction l generalizing i with
  | nil => rfl
  | cons x xs ih =>
    simp only [keepIdx, List.zipIdx_cons, List.filter_cons]
    cases h : p i <;> simp [ih]

theorem keepIdx_all (p : Nat → Bool) (i : Nat) (l : List α) (h : ∀ j, i ≤ j → p j = true) :
    keepIdx p i l = l := by
  induction l generalizing i with
  | nil => rfl
  | cons x xs ih =>
    simp only [keepIdx, h i (Nat.le_refl i), if_true]
    rw [ih (i + 1) (fun j hj => h j (by omega))]

theorem keepIdx_congr (p q : Nat → Bool) (i : Nat) (l : List α) (h : ∀ j, i ≤ j → p j = q j) :
    keepIdx p i l = keepIdx q i l := by
  induction l generalizing i with
  | nil => rfl
  | cons x xs ih =>
    simp only [keepIdx, h i (Nat.le_refl i)]
    rw [ih (i + 1) (fun j hj => h j (by omega))]

/-- deleting position `a` from a list and then keeping by `p` (true from `a` on) = keeping by `p` and `≠ a` -/
theorem keepIdx_eraseIdx (p : Nat → Bool) (l : List α) (i a t : Nat) (ht : t = i + a)
    (hp : ∀ j, t ≤ j → p j = true) :
    keepIdx p i (l.eraseIdx a) = keepIdx (fun j => p j && j != t) i l := by
  induction l generalizing i a with
  | nil => simp [keepIdx]
  | cons x xs ih =>
    cases a with
    | zero =>
      have hti : t = i := by omega
      rw [hti] at hp ⊢
      simp only [List.eraseIdx_cons_zero, keepIdx, bne_self_eq_false, Bool.and_false]
      rw [keepIdx_all p i xs (fun j hj => hp j (by omega))]
      rw [keepIdx_all _ (i + 1) xs]
      · simp
      · intro j hj
        have := hp j (by omega)
        simp [this]; omega
    | succ a' =>
      simp only [List.eraseIdx_cons_succ, keepIdx]
      have e : (p i && i != t) = p i := by
        have : i ≠ t := by omega
        simp [this]
      simp only [e]
      rw [ih (i + 1) a' (by omega)]

/-! ### `pyGet`, `extract` -/

theorem pyGet_nat (l : List α) (i : Nat) : pyGet l (i : Int) = l[i]? := by
  simp [pyGet]

theorem extractLoop_eq (l : List α) (k n : Nat) (h : k + n ≤ l.length) :
    extractLoop l (k : Int) n = some ((l.drop k).take n) := by
  induction n generalizing k with
  | zero => simp [extractLoop]
  | succ n ih =>
    have hk : k < l.length := by omega
    have e : ((k : Int) + 1) = ((k + 1 : Nat) : Int) := by omega
    simp only [extractLoop, pyGet_nat, e, ih (k + 1) (by omega)]
    rw [List.getElem?_eq_getElem hk, List.drop_eq_getElem_cons hk, List.take_succ_cons]

/-! ### `% n` -/

theorem stepAux_getElem? (n : Nat) (hn : 1 ≤ n) (k : Nat) (l : List α) (i : Nat) :
    (stepAux n k l)[i]? = l[k + i * n]? := by
  induction l generalizing k i with
  | nil => simp [stepAux]
  | cons x xs ih =>
    cases k with
    | zero =>
      cases i with
      | zero => simp [stepAux]
      | succ i =>
        simp only [stepAux, List.getElem?_cons_succ, ih]
        have : 0 + (i + 1) * n = (n - 1 + i * n) + 1 := by rw [Nat.add_mul]; omega
        rw [this, List.getElem?_cons_succ]
    | succ k =>
      simp only [stepAux, ih]
      have : k + 1 + i * n = (k + i * n) + 1 := by omega
      rw [this, List.getElem?_cons_succ]

theorem stepAux_eq_keepIdx (n : Nat) (hn : 1 ≤ n) (k off : Nat) (l : List α)
    (hk : k < n) (h : (off + k) % n = 0) :
    stepAux n k l = keepIdx (fun j => j % n == 0) off l := by
  induction l generalizing k off with
  | nil => simp [stepAux, keepIdx]
  | cons x xs ih =>
    cases k with
    | zero =>
      have h0 : off % n = 0 := by simpa using h
      simp only [stepAux, keepIdx, h0, beq_self_eq_true, if_true]
      rw [ih (n - 1) (off + 1) (by omega)]
      have : off + 1 + (n - 1) = off + n := by omega
      rw [this, Nat.add_mod_right]; exact h0
    | succ k =>
      have hne : off % n ≠ 0 := by
        intro h0
        have h2 := Nat.add_mod off (k + 1) n
        rw [h, h0, Nat.zero_add, Nat.mod_mod, Nat.mod_eq_of_lt hk] at h2
        omega
      have : (off % n == 0) = false := by simp [hne]
      simp only [stepAux, keepIdx, this]
      rw [ih k (off + 1) (by omega)]
      · rfl
      · rw [← h]; congr 1; omega

/-! ### `% pattern` -/

theorem patLoop_eq_keepIdx (pat : List Bool) (i : Nat) (l : List α) :
    patLoop pat i l = keepIdx (fun j => pat[j % pat.length]?.getD false) i l := by
  induction l generalizing i with
  | nil => rfl
  | cons x xs ih => simp only [patLoop, keepIdx, ih]

/-! ### `removeObsList` -/

theorem hasAdjDup_false_lt : ∀ (s : List Int), s.Pairwise (· ≤ ·) → hasAdjDup s = false → s.Pairwise (· < ·)
  | [], _, _ => List.Pairwise.nil
  | [_], _, _ => by simp
  | a :: b :: rest, hs, hd => by
    simp only [hasAdjDup, Bool.or_eq_false_iff, beq_eq_false_iff_ne] at hd
    have hs' := List.pairwise_cons.mp hs
    have ih := hasAdjDup_false_lt (b :: rest) hs'.2 hd.2
    have hab : a < b := by
      have := hs'.1 b (by simp)
      omega
    refine List.pairwise_cons.mpr ⟨?_, ih⟩
    intro c hc
    rcases List.mem_cons.mp hc with rfl | hc
    · exact hab
    · have := (List.pairwise_cons.mp ih).1 c hc
      omega

theorem hasAdjDup_true_not_nodup : ∀ (s : List Int), hasAdjDup s = true → s.Nodup → False
  | [], h, _ => by simp [hasAdjDup] at h
  | [_], h, _ => by simp [hasAdjDup] at h
  | a :: b :: rest, h, hn => by
    simp only [hasAdjDup, Bool.or_eq_true, beq_iff_eq] at h
    rcases h with h | h
    · subst h; simp at hn
    · exact hasAdjDup_true_not_nodup (b :: rest) h (List.nodup_cons.mp hn).2

theorem pyDel_nat (l : List α) (i : Int) (h0 : 0 ≤ i) (h1 : i < l.length) :
    pyDel l i = some (l.eraseIdx i.toNat) := by
  have : i.toNat < l.length := by omega
  simp [pyDel, h0, this]

/-- descending deletes of a strictly decreasing list of valid positions leave exactly the others -/
theorem delLoop_desc (d : List Int) (l : List α) (c : Nat)
    (hd : d.Pairwise (· > ·)) (hr : ∀ x ∈ d, 0 ≤ x ∧ x < l.length) :
    delLoop d l c = (keepIdx (fun j => !d.contains (j : Int)) 0 l, some (c + d.length)) := by
  induction d generalizing l c with
  | nil =>
    simp only [delLoop, List.length_nil, Nat.add_zero]
    rw [keepIdx_all]; intro j _; simp
  | cons a rest ih =>
    have ha := hr a (by simp)
    have hp := List.pairwise_cons.mp hd
    have hlen : (l.eraseIdx a.toNat).length = l.length - 1 := by
      rw [List.length_eraseIdx, if_pos (by omega)]
    simp only [delLoop, pyDel_nat l a ha.1 ha.2]
    rw [ih (l.eraseIdx a.toNat) _ hp.2]
    · have hge : ∀ j, a.toNat ≤ j → (!rest.contains (j : Int)) = true := by
        intro j hj
        simp only [Bool.not_eq_true', List.contains_eq_mem, decide_eq_false_iff_not]
        intro hm
        have := hp.1 _ hm
        omega
      rw [keepIdx_eraseIdx _ l 0 a.toNat a.toNat (by omega) hge]
      congr 1
      · apply keepIdx_congr
        intro j _
        have : ((j : Int) == a) = (j == a.toNat) := by
          rw [Bool.eq_iff_iff]; simp only [beq_iff_eq]; omega
        simp only [List.contains_cons, Bool.not_or, bne, this, Bool.and_comm]
      · rw [hlen]; simp only [List.length_cons]; congr 1; omega
    · intro x hx
      have h1 := hr x (List.mem_cons_of_mem _ hx)
      have h2 := hp.1 x hx
      rw [hlen]; omega

/-! ### sort -/

theorem gather_eq (l : List α) (perm : List Nat) (h : ∀ i ∈ perm, i < l.length) :
    gather l perm = some (perm.filterMap (fun i => l[i]?)) := by
  induction perm with
  | nil => rfl
  | cons i is ih =>
    have hi := h i (by simp)
    simp only [gather, ih (fun j hj => h j (List.mem_cons_of_mem _ hj)), List.getElem?_eq_getElem hi,
      List.filterMap_cons]

theorem filterMap_range_take (l : List α) (n : Nat) (hn : n ≤ l.length) :
    (List.range n).filterMap (fun i => l[i]?) = l.take n := by
  induction n with
  | zero => simp
  | succ n ih =>
    rw [List.range_succ, List.filterMap_append, ih (by omega)]
    have hn' : n < l.length := by omega
    simp only [List.filterMap_cons, List.getElem?_eq_getElem hn', List.filterMap_nil]
    rw [List.take_add_one, List.getElem?_eq_getElem hn']; rfl

theorem filterMap_range_getElem? (l : List α) :
    (List.range l.length).filterMap (fun i => l[i]?) = l := by
  rw [filterMap_range_take l l.length (Nat.le_refl _), List.take_length]

theorem insertIdx_eq_take_drop (l : List α) (i : Nat) (x : α) (h : i ≤ l.length) :
    l.insertIdx i x = l.take i ++ x :: l.drop i := by
  induction i generalizing l with
  | zero => simp
  | succ i ih =>
    cases l with
    | nil => simp at h
    | cons y ys =>
      simp only [List.insertIdx_succ_cons, List.take_succ_cons, List.drop_succ_cons, List.cons_append]
      rw [ih ys (by simpa using h)]

end TV.Seq

namespace TV.Seq
variable {α : Type}

/-! ### `removeByIdx` put together -/

theorem removeByIdx_nodup (l : List α) (tab : List Int)
    (hr : ∀ x ∈ tab, 0 ≤ x ∧ x < l.length) (hn : tab.Nodup) :
    removeByIdx l tab = (keepIdx (fun j => !tab.contains (j : Int)) 0 l, some tab.length) := by
  unfold removeByIdx
  cases tab with
  | nil =>
    simp only [List.isEmpty_nil, if_true, List.length_nil]
    rw [keepIdx_all]; intro j _; simp
  | cons t ts =>
    have hperm := List.mergeSort_perm (t :: ts) (fun a b => decide (a ≤ b))
    have hsorted : ((t :: ts).mergeSort (fun a b => decide (a ≤ b))).Pairwise (· ≤ ·) := by
      have := List.pairwise_mergeSort (le := fun (a b : Int) => decide (a ≤ b))
        (by intro a b c; simp only [decide_eq_true_eq]; omega)
        (by intro a b; simp only [Bool.or_eq_true, decide_eq_true_eq]; omega) (t :: ts)
      exact this.imp (by intro a b h; simpa using h)
    have hnd : ((t :: ts).mergeSort (fun a b => decide (a ≤ b))).Nodup := hperm.nodup_iff.mpr hn
    have hadj : hasAdjDup ((t :: ts).mergeSort (fun a b => decide (a ≤ b))) = false := by
      cases h : hasAdjDup ((t :: ts).mergeSort (fun a b => decide (a ≤ b))) with
      | false => rfl
      | true =>
        exfalso
        exact hasAdjDup_true_not_nodup _ h hnd
    have hlt := hasAdjDup_false_lt _ hsorted hadj
    simp only [List.isEmpty_cons, Bool.false_eq_true, if_false, hadj]
    rw [delLoop_desc]
    · congr 1
      · apply keepIdx_congr
        intro j _
        rw [List.contains_reverse, hperm.contains_eq]
      · rw [List.length_reverse, hperm.length_eq, Nat.zero_add]
    · rw [List.pairwise_reverse]
      exact hlt.imp (by intro a b h; exact h)
    · intro x hx
      exact hr x (hperm.mem_iff.mp (List.mem_reverse.mp hx))

theorem removeByIdx_dup (l : List α) (tab : List Int) (hn : ¬ tab.Nodup) :
    removeByIdx l tab = (l, some 0) := by
  unfold removeByIdx
  cases tab with
  | nil => simp
  | cons t ts =>
    have hperm := List.mergeSort_perm (t :: ts) (fun a b => decide (a ≤ b))
    have hsorted : ((t :: ts).mergeSort (fun a b => decide (a ≤ b))).Pairwise (· ≤ ·) := by
      have := List.pairwise_mergeSort (le := fun (a b : Int) => decide (a ≤ b))
        (by intro a b c; simp only [decide_eq_true_eq]; omega)
        (by intro a b; simp only [Bool.or_eq_true, decide_eq_true_eq]; omega) (t :: ts)
      exact this.imp (by intro a b h; simpa using h)
    have hadj : hasAdjDup ((t :: ts).mergeSort (fun a b => decide (a ≤ b))) = true := by
      cases h : hasAdjDup ((t :: ts).mergeSort (fun a b => decide (a ≤ b))) with
      | true => rfl
      | false =>
        exfalso
        apply hn
        apply hperm.nodup_iff.mp
        exact (hasAdjDup_false_lt _ hsorted h).imp (by intro a b h; omega)
    simp [hadj]

/-! ### `argsort` satisfies the contract of a sorting permutation -/

theorem argsort_perm (T : List Int) : (argsort T).Perm (List.range T.length) := by
  unfold argsort
  have := (List.mergeSort_perm T.zipIdx (fun a b => decide (a.1 ≤ b.1))).map (·.2)
  rw [List.zipIdx_map_snd, ← List.range_eq_range'] at this
  exact this

theorem argsort_sorted (T : List Int) :
    (argsort T).Pairwise (fun i j => ∀ a b, T[i]? = some a → T[j]? = some b → a ≤ b) := by
  unfold argsort
  rw [List.pairwise_map]
  have hs := List.pairwise_mergeSort (le := fun (a b : Int × Nat) => decide (a.1 ≤ b.1))
    (by intro a b c; simp only [decide_eq_true_eq]; omega)
    (by intro a b; simp only [Bool.or_eq_true, decide_eq_true_eq]; omega) T.zipIdx
  have hperm := List.mergeSort_perm T.zipIdx (fun a b => decide (a.1 ≤ b.1))
  refine hs.imp_of_mem ?_
  intro p q hp hq hle x y hx hy
  have hp' := List.mem_zipIdx (hperm.mem_iff.mp hp)
  have hq' := List.mem_zipIdx (hperm.mem_iff.mp hq)
  have h1 : T[p.2]? = some p.1 := by
    rw [List.getElem?_eq_getElem (by omega)]; simp [hp'.2.2]
  have h2 : T[q.2]? = some q.1 := by
    rw [List.getElem?_eq_getElem (by omega)]; simp [hq'.2.2]
  rw [h1] at hx; rw [h2] at hy
  simp only [decide_eq_true_eq] at hle
  cases hx; cases hy; exact hle

end TV.Seq
