import TracklibVerif.Lemmas.Simplify
/-! Visvalingam: the `'@aire'` column is kept *consistent* by the loop (every interior entry is the area of the
triangle spanned with the current neighbours), and what one pass does when no entry is a number below ARGMIN's sentinel or equal to it (b728412: a column of NaN).
No property of the scalar type is used here. -/
namespace TV.Simplify
set_option linter.unusedSectionVars false
variable {α : Type} [Add α] [Sub α] [Mul α] [Div α] [Neg α] [LT α] [DecidableLT α] [BEq α]
  [OfNat α 0] [OfNat α 1] [OfNat α 2]

/-- entry `i` of the column is the area of the triangle of fix `i` with its two current neighbours -/
def ConsAt (S : VState α) (i : Nat) : Prop :=
  ∃ p0 c0 p1 p2 c2, S[i - 1]? = some (p0, c0) ∧ S[i]? = some (p1, some (areaFix p0 p1 p2)) ∧ S[i + 1]? = some (p2, c2)

/-- every interior entry is consistent -/
def VCons (S : VState α) : Prop := ∀ i, 0 < i → i + 1 < S.length → ConsAt S i

theorem setAire_getElem? (S : VState α) (i m : Nat) :
    (setAire S i)[m]? = if m = i then (S[i]?).map (fun e => (e.1, aireVisval (S.map (·.1)) i)) else S[m]? := by
  unfold setAire
  split
  · rename_i p c hi
    simp only [List.getElem?_set, hi, Option.map_some]
    have hlt : i < S.length := (List.getElem?_eq_some_iff.mp hi).1
    by_cases h : m = i
    · subst h; simp [hlt]
    · have h' : ¬ i = m := fun e => h e.symm
      simp [h, h']
  · rename_i hi
    split
    · rename_i h; subst h; simp [hi]
    · rfl

theorem aireVisval_interior (L : List (Fix α)) (i : Nat) (h0 : 0 < i) (p0 p1 p2 : Fix α)
    (e0 : L[i - 1]? = some p0) (e1 : L[i]? = some p1) (e2 : L[i + 1]? = some p2) :
    aireVisval L i = some (areaFix p0 p1 p2) := by
  unfold aireVisval
  have : ¬ i = 0 := by omega
  simp only [this, ↓reduceIte, e0, e1, e2]

theorem setAire_consAt_self (S : VState α) (i : Nat) (h0 : 0 < i) (h1 : i + 1 < S.length) : ConsAt (setAire S i) i := by
  have l0 : i - 1 < S.length := by omega
  have l1 : i < S.length := by omega
  refine ⟨S[i - 1].1, S[i - 1].2, S[i].1, S[i + 1].1, S[i + 1].2, ?_, ?_, ?_⟩
  · rw [setAire_getElem?]
    have : ¬ i - 1 = i := by omega
    simp only [this, ↓reduceIte, List.getElem?_eq_getElem l0]
  · rw [setAire_getElem?]
    simp only [↓reduceIte, List.getElem?_eq_getElem l1, Option.map_some]
    rw [aireVisval_interior (S.map (·.1)) i h0 S[i - 1].1 S[i].1 S[i + 1].1
      (by rw [List.getElem?_map, List.getElem?_eq_getElem l0]; rfl)
      (by rw [List.getElem?_map, List.getElem?_eq_getElem l1]; rfl)
      (by rw [List.getElem?_map, List.getElem?_eq_getElem h1]; rfl)]
  · rw [setAire_getElem?]
    have : ¬ i + 1 = i := by omega
    simp only [this, ↓reduceIte, List.getElem?_eq_getElem h1]

/-- positions are not touched by `setAire`: an entry `(p, c)` stays `(p, c')` -/
theorem setAire_fst (S : VState α) (i m : Nat) (p : Fix α) (c : Option α) (h : S[m]? = some (p, c)) :
    ∃ c', (setAire S i)[m]? = some (p, c') := by
  rw [setAire_getElem?]
  split
  · rename_i e; subst e; rw [h]; exact ⟨_, rfl⟩
  · exact ⟨c, h⟩

theorem setAire_consAt_other (S : VState α) (i j : Nat) (hij : i ≠ j) (h : ConsAt S j) : ConsAt (setAire S i) j := by
  obtain ⟨p0, c0, p1, p2, c2, e0, e1, e2⟩ := h
  obtain ⟨c0', e0'⟩ := setAire_fst S i (j - 1) p0 c0 e0
  obtain ⟨c2', e2'⟩ := setAire_fst S i (j + 1) p2 c2 e2
  refine ⟨p0, c0', p1, p2, c2', e0', ?_, e2'⟩
  rw [setAire_getElem?]
  have : ¬ j = i := fun e => hij e.symm
  simp only [this, ↓reduceIte, e1]

/-- the initial column is consistent -/
theorem vwInit_cons (L : List (Fix α)) : VCons (vwInit L) := by
  intro i h0 h1
  have hlen : (vwInit L).length = L.length := by
    have := congrArg List.length (vwInit_map_fst L)
    rwa [List.length_map] at this
  rw [hlen] at h1
  have l0 : i - 1 < L.length := by omega
  have l1 : i < L.length := by omega
  refine ⟨L[i - 1], (if i - 1 = 0 then none else aireVisval L (i - 1)), L[i], L[i + 1],
    (if i + 1 = 0 then none else aireVisval L (i + 1)), ?_, ?_, ?_⟩
  · rw [vwInit_getElem?, List.getElem?_eq_getElem l0]; rfl
  · rw [vwInit_getElem?, List.getElem?_eq_getElem l1]
    have : ¬ i = 0 := by omega
    simp only [Option.map_some, this, ↓reduceIte]
    rw [aireVisval_interior L i h0 L[i - 1] L[i] L[i + 1] (List.getElem?_eq_getElem l0) (List.getElem?_eq_getElem l1)
      (List.getElem?_eq_getElem h1)]
  · rw [vwInit_getElem?, List.getElem?_eq_getElem h1]; rfl

/-- removing an interior observation leaves every entry consistent except the two neighbours of the hole -/
theorem consAt_eraseIdx (S : VState α) (id j : Nat) (hc : VCons S) (hid1 : id + 1 < S.length)
    (h0 : 0 < j) (h1 : j + 1 < (S.eraseIdx id).length) (hne1 : j + 1 ≠ id) (hne : j ≠ id) : ConsAt (S.eraseIdx id) j := by
  have hlen : (S.eraseIdx id).length = S.length - 1 := List.length_eraseIdx_of_lt (by omega)
  rw [hlen] at h1
  by_cases hlt : j + 1 < id
  · obtain ⟨p0, c0, p1, p2, c2, e0, e1, e2⟩ := hc j h0 (by omega)
    refine ⟨p0, c0, p1, p2, c2, ?_, ?_, ?_⟩
    · rw [List.getElem?_eraseIdx]; have : j - 1 < id := by omega
      simp only [this, ↓reduceIte, e0]
    · rw [List.getElem?_eraseIdx]; have : j < id := by omega
      simp only [this, ↓reduceIte, e1]
    · rw [List.getElem?_eraseIdx]
      simp only [hlt, ↓reduceIte, e2]
  · have hgt : id < j := by omega
    obtain ⟨p0, c0, p1, p2, c2, e0, e1, e2⟩ := hc (j + 1) (by omega) (by omega)
    refine ⟨p0, c0, p1, p2, c2, ?_, ?_, ?_⟩
    · rw [List.getElem?_eraseIdx]; have : ¬ j - 1 < id := by omega
      simp only [this, ↓reduceIte]
      have e : j - 1 + 1 = j + 1 - 1 := by omega
      rw [e]; exact e0
    · rw [List.getElem?_eraseIdx]; have : ¬ j < id := by omega
      simp only [this, ↓reduceIte, e1]
    · rw [List.getElem?_eraseIdx]; have : ¬ j + 1 < id := by omega
      simp only [this, ↓reduceIte, e2]

/-- the loop body (removal of the interior observation `id`, then the two guarded updates) restores consistency -/
theorem bodyCons (S : VState α) (id : Nat) (hc : VCons S) (hid0 : 0 < id) (hid1 : id + 1 < S.length) :
    VCons (let S1 := S.eraseIdx id
           let S2 := if id > 1 then setAire S1 (id - 1) else S1
           if id < S2.length - 1 then setAire S2 id else S2) := by
  have hl1 : (S.eraseIdx id).length = S.length - 1 := List.length_eraseIdx_of_lt (by omega)
  -- after the first update: everything but `id` is consistent
  have c2 : ∀ j, 0 < j → j + 1 < S.length - 1 → j ≠ id →
      ConsAt (if id > 1 then setAire (S.eraseIdx id) (id - 1) else S.eraseIdx id) j := by
    intro j h0 h1 hne
    split
    · rename_i hgt
      by_cases hj : j = id - 1
      · subst hj
        exact setAire_consAt_self _ _ (by omega) (by rw [hl1]; omega)
      · exact setAire_consAt_other _ _ _ (fun e => hj e.symm)
          (consAt_eraseIdx S id j hc hid1 h0 (by rw [hl1]; exact h1) (by omega) hne)
    · rename_i hle
      exact consAt_eraseIdx S id j hc hid1 h0 (by rw [hl1]; exact h1) (by omega) hne
  have l2 : (if id > 1 then setAire (S.eraseIdx id) (id - 1) else S.eraseIdx id).length = S.length - 1 := by
    split
    · rw [setAire_length]; exact hl1
    · exact hl1
  simp only
  generalize (if id > 1 then setAire (S.eraseIdx id) (id - 1) else S.eraseIdx id) = S2 at c2 l2 ⊢
  intro j h0 h1
  split at h1
  · rename_i hlt
    rw [setAire_length, l2] at h1
    by_cases hj : j = id
    · subst hj
      rw [if_pos hlt]
      exact setAire_consAt_self _ _ h0 (by rw [l2]; exact h1)
    · rw [if_pos hlt]
      exact setAire_consAt_other _ _ _ (fun e => hj e.symm) (c2 j h0 h1 hj)
  · rename_i hge
    rw [l2] at h1
    rw [if_neg hge]
    rw [l2] at hge
    exact c2 j h0 h1 (by omega)

/-- one pass keeps the column consistent -/
theorem vwStep_cons (big eps2 : α) (L : List (Fix α))
    (hbig : ∀ a b c, a ∈ L → b ∈ L → c ∈ L → areaFix a b c < big)
    (S S' : VState α) (h : VInv big L S) (hc : VCons S) (hs : vwStep big eps2 S = some S') : VCons S' := by
  obtain ⟨_, id, h0, h1, _, eid⟩ := vwStep_spec big eps2 L hbig S S' h hs
  unfold vwStep at hs
  split at hs
  · rw [← eid] at hs
    simp only at hs
    have hs' := ite_none_some hs
    rw [← hs']
    exact bodyCons S id hc h0 h1
  · cases hs

/-- … hence the whole loop does -/
theorem vwLoop_cons (big eps2 : α) (L : List (Fix α))
    (hbig : ∀ a b c, a ∈ L → b ∈ L → c ∈ L → areaFix a b c < big) (fuel : Nat) :
    ∀ S : VState α, VInv big L S → VCons S → VCons (vwLoop big eps2 fuel S) := by
  induction fuel with
  | zero => intro S _ hc; exact hc
  | succ fuel ih =>
    intro S h hc
    rw [vwLoop]
    cases hs : vwStep big eps2 S with
    | none => exact hc
    | some S' =>
      exact ih S' (vwStep_spec big eps2 L hbig S S' h hs).1 (vwStep_cons big eps2 L hbig S S' h hc hs)

/-- an `aire_visval` value is the area of a triangle of three fixes of the track -/
theorem aireVisval_mem (L : List (Fix α)) (i : Nat) (v : α) (h : aireVisval L i = some v) :
    ∃ p0 p1 p2, p0 ∈ L ∧ p1 ∈ L ∧ p2 ∈ L ∧ v = areaFix p0 p1 p2 := by
  unfold aireVisval at h
  simp only at h
  generalize hq : (if i = 0 then L.getLast? else L[i - 1]?) = q at h
  have hqm : ∀ p, q = some p → p ∈ L := by
    intro p hp
    rw [hp] at hq
    split at hq
    · exact List.mem_of_getLast? hq
    · exact List.mem_of_getElem? hq
  cases q with
  | none => simp at h
  | some p0 =>
    cases h1 : L[i]? with
    | none => rw [h1] at h; simp at h
    | some p1 =>
      cases h2 : L[i + 1]? with
      | none => rw [h1, h2] at h; simp at h
      | some p2 =>
        rw [h1, h2] at h
        simp only [Option.some.injEq] at h
        exact ⟨p0, p1, p2, hqm p0 rfl, List.mem_of_getElem? h1, List.mem_of_getElem? h2, h.symm⟩

/-! ### outside T6's hypothesis: no entry is a number `<=` the sentinel (since b728412: only NaN) -/

/-- ARGMIN's loop records no index when no entry is a number below the start value or equal to it -/
theorem argminLoop_default (col : List (Option α)) (i : Nat) (m : α)
    (h : ∀ (j : Nat) (v : α), col[j]? = some (some v) → ¬ v < m ∧ ¬ (v == m) = true) : argminLoop col i m none = none := by
  induction col generalizing i with
  | nil => rfl
  | cons c rest ih =>
    cases c with
    | none =>
      rw [argminLoop]
      exact ih (i + 1) (fun j v hj => h (j + 1) v (by simpa using hj))
    | some w =>
      rw [argminLoop]
      have hw := h 0 w (by simp)
      simp only [hw.1, hw.2]
      exact ih (i + 1) (fun j v hj => h (j + 1) v (by simpa using hj))

/-- the second open statement of round 1, as a theorem, in the form it has since b728412: when **no** entry of the column is a number
below ARGMIN's initial minimum `big` **or equal to it** (`+inf` in the code since 68863c7: every area is NaN — an infinite area is
now found, it equals the start value), ARGMIN records no index and answers 0, the NaN stored there does not trigger the `break`,
and the pass removes the **first** observation. -/
theorem vwStep_sentinel (big eps2 : α) (S : VState α) (hl : S.length > 2) (p : Fix α) (h0 : S[0]? = some (p, none))
    (h : ∀ (j : Nat) (v : α), (S.map (·.2))[j]? = some (some v) → ¬ v < big ∧ ¬ (v == big) = true) :
    ∃ S', vwStep big eps2 S = some S' ∧ S'.map (·.1) = (S.map (·.1)).eraseIdx 0 := by
  have ea : argmin big (S.map (·.2)) = 0 := by unfold argmin; rw [argminLoop_default _ 0 big h]; rfl
  unfold vwStep
  simp only [hl, ↓reduceIte, ea, h0]
  have hl1 : (S.eraseIdx 0).length = S.length - 1 := List.length_eraseIdx_of_lt (by omega)
  have hlt : 0 < (S.eraseIdx 0).length - 1 := by omega
  refine ⟨_, rfl, ?_⟩
  simp only [show ¬ (0 > 1) by omega, ↓reduceIte, hlt, setAire_map_fst, map_eraseIdx']

end TV.Simplify
