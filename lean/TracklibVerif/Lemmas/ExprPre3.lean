import TracklibVerif.Lemmas.ExprPre2
/-! # Hypotheses on surface trees; invariants of the printed strings; the steps of the rewriting chain
that do something (`{`→`@(`, `}`→`)`, `(-`→`(0-`) as maps on printed strings -/
namespace TV.Expr
open TV.Rpn

/-- a character of a name or number: no parenthesis, no operator character of `makeRPN`'s table, no white
    space (`special`), and no brace -/
def achar (c : Char) : Bool := !special c && c != '{' && c != '}'

def NameOK (s : Str) : Prop := s ≠ [] ∧ ∀ c ∈ s, achar c = true

theorem achar_special {c : Char} (h : achar c = true) : special c = false := by
  simp only [achar, Bool.and_eq_true, Bool.not_eq_true', bne_iff_ne] at h
  exact h.1.1

theorem achar_ne_braces {c : Char} (h : achar c = true) : c ≠ '{' ∧ c ≠ '}' := by
  simp only [achar, Bool.and_eq_true, Bool.not_eq_true', bne_iff_ne] at h
  exact ⟨h.1.2, h.2⟩

theorem achar_facts {c : Char} (h : achar c = true) : c ≠ '(' ∧ c ≠ ')' ∧ ¬ pyLvl c < 9 ∧ isWs c = false := by
  have := achar_special h
  simp only [special, Bool.or_eq_false_iff, beq_eq_false_iff_ne, ne_eq, decide_eq_false_iff_not] at this
  exact ⟨this.1.1.1, this.1.1.2, this.1.2, this.2⟩

theorem cls_achar {c : Char} (h : achar c = true) : cls c = .A := by
  obtain ⟨h1, h2, h3, _⟩ := achar_facts h
  obtain ⟨h4, h5⟩ := achar_ne_braces h
  simp [cls, h1, h2, h3, h4, h5]

theorem NameOK.atomOK {s : Str} (h : NameOK s) : AtomOK (String.ofList s) := by
  refine ⟨by simpa using h.1, ?_⟩
  intro c hc
  exact achar_special (h.2 c (by simpa using hc))

/-- the hypotheses on a surface tree: names, numbers and function names are non-empty and made of plain
    characters; no name or number ends with `.`; operators are characters of `makeRPN`'s table other than `=` -/
def SrcOK : Sx → Prop
  | .num s => NameOK s ∧ s.getLast? ≠ some '.'
  | .var s => NameOK s ∧ s.getLast? ≠ some '.'
  | .bin o l r => (pyLvl o < 9 ∧ o ≠ '=') ∧ SrcOK l ∧ SrcOK r
  | .call f e => NameOK f ∧ SrcOK e
  | .neg e => SrcOK e
  | .par e => SrcOK e

theorem wf_toE' (e : Sx) (h : SrcOK e) : Rpn.WF pyLvl 9 (toE' e) := by
  induction e with
  | num s => trivial
  | var s => trivial
  | bin o l r ihl ihr => exact ⟨h.1.1, ihl h.2.1, ihr h.2.2⟩
  | call f e ih => exact ⟨by decide, trivial, ih h.2⟩
  | neg e ih => exact ⟨by decide, trivial, ih h⟩
  | par e ih => exact ih h

theorem atomsOK_toE' (e : Sx) (h : SrcOK e) : AtomsOK (toE' e) := by
  induction e with
  | num s => exact h.1.atomOK
  | var s => exact h.1.atomOK
  | bin o l r ihl ihr => exact ⟨ihl h.2.1, ihr h.2.2⟩
  | call f e ih => exact ⟨h.1.atomOK, ih h.2⟩
  | neg e ih =>
    refine ⟨?_, ih h⟩
    refine ⟨by simp, ?_⟩
    intro c hc
    simp only [String.toList_ofList, List.mem_singleton] at hc
    subst hc; decide
  | par e ih => exact ih h

/-! ## the brackets -/

def LbOK (lb : Str) : Prop := lb = ['{'] ∨ lb = ['@', '(']
def RbOK (rb : Str) : Prop := rb = ['}'] ∨ rb = [')']
def NgOK (ng : Str) : Prop := ng = ['(', '-'] ∨ ng = ['(', '0', '-']

theorem lb_seg {lb : Str} (h : LbOK lb) :
    ∃ a z, Seg lb a z ∧ (∀ x, cls x = .A → okp x a = true) ∧ (∀ y, startC y → okp z y = true) := by
  rcases h with rfl | rfl
  · exact ⟨'{', '{', Seg.one _, fun x hx => okp_A_lb hx, fun y hy => okp_lb_start hy⟩
  · exact ⟨'@', '(', ⟨by decide, rfl, rfl⟩, fun x hx => okp_A_at hx, fun y hy => okp_lp_start hy⟩

theorem rb_seg {rb : Str} (h : RbOK rb) : ∃ a, rb = [a] ∧ (∀ x, endC x → okp x a = true) ∧ endC a := by
  rcases h with rfl | rfl
  · exact ⟨'}', rfl, fun x hx => okp_end_rb hx, Or.inr (Or.inr (by decide))⟩
  · exact ⟨')', rfl, fun x hx => okp_end_rp hx, Or.inr (Or.inl (by decide))⟩

theorem ng_seg {ng : Str} (h : NgOK ng) : Seg ng '(' '-' := by
  rcases h with rfl | rfl
  · exact ⟨by decide, rfl, rfl⟩
  · exact ⟨by decide, rfl, rfl⟩

theorem cls_minus : cls '-' = .O := by decide

/-! ## the adjacency invariant of every printed string -/

theorem inv_name {s : Str} (h : NameOK s) (hd : s.getLast? ≠ some '.') : Inv s := by
  obtain ⟨a, z, hseg, ha, hz⟩ := seg_atom s h.1 (fun c hc => cls_achar (h.2 c hc))
  refine ⟨a, z, hseg, Or.inl ha, Or.inl ⟨hz, ?_⟩⟩
  intro e; subst e; exact hd hseg.2.2

theorem pr_inv {lb rb ng : Str} (hlb : LbOK lb) (hrb : RbOK rb) (hng : NgOK ng) (e : Sx) (h : SrcOK e) :
    Inv (pr lb rb ng e) := by
  induction e with
  | num s => exact inv_name h.1 h.2
  | var s => exact inv_name h.1 h.2
  | bin o l r ihl ihr => exact Inv.bin (Inv.wrap _ (ihl h.2.1)) (Inv.wrap _ (ihr h.2.2)) h.1.1
  | call f e ih =>
    obtain ⟨af, zf, hf, haf, hzf⟩ := seg_atom f h.1.1 (fun c hc => cls_achar (h.1.2 c hc))
    obtain ⟨al, zl, hl, hl1, hl2⟩ := lb_seg hlb
    obtain ⟨c, rfl, hr1, hr2⟩ := rb_seg hrb
    obtain ⟨ax, zx, hx, hax, hzx⟩ := ih h.2
    exact ⟨af, c, Seg.append hf (Seg.append hl (Seg.snoc hx (hr1 zx hzx)) (hl2 ax hax)) (hl1 zf hzf), Or.inl haf, hr2⟩
  | neg e ih =>
    obtain ⟨ax, zx, hx, hax, hzx⟩ := Inv.wrap (decide (slv e ≤ 2)) (ih h)
    exact ⟨'(', ')', Seg.append (ng_seg hng) (Seg.snoc hx (okp_end_rp hzx)) (okp_op_start cls_minus hax),
      Or.inr (by decide), Or.inr (Or.inl (by decide))⟩
  | par e ih => exact (ih h).paren

/-! ## which characters occur -/

theorem pr_all (Q : Char → Prop) {lb rb ng : Str} (hp : Q '(' ∧ Q ')') (hlb : ∀ c ∈ lb, Q c) (hrb : ∀ c ∈ rb, Q c)
    (hng : ∀ c ∈ ng, Q c) (ha : ∀ c, achar c = true → Q c) (ho : ∀ o, pyLvl o < 9 → o ≠ '=' → Q o)
    (e : Sx) (h : SrcOK e) : ∀ c ∈ pr lb rb ng e, Q c := by
  have hw : ∀ (b : Bool) (s : Str), (∀ c ∈ s, Q c) → ∀ c ∈ wrapS b s, Q c := by
    intro b s hs c hc
    cases b with
    | false => exact hs c hc
    | true =>
      simp only [wrapS, if_true, List.mem_cons, List.mem_append, List.mem_nil_iff, or_false] at hc
      rcases hc with rfl | hc | rfl
      · exact hp.1
      · exact hs c hc
      · exact hp.2
  induction e with
  | num s => intro c hc; exact ha c (h.1.2 c hc)
  | var s => intro c hc; exact ha c (h.1.2 c hc)
  | bin o l r ihl ihr =>
    intro c hc
    simp only [pr, List.mem_append, List.mem_cons] at hc
    rcases hc with hc | rfl | hc
    · exact hw _ _ (ihl h.2.1) c hc
    · exact ho c h.1.1 h.1.2
    · exact hw _ _ (ihr h.2.2) c hc
  | call f e ih =>
    intro c hc
    simp only [pr, List.mem_append] at hc
    rcases hc with hc | hc | hc | hc
    · exact ha c (h.1.2 c hc)
    · exact hlb c hc
    · exact ih h.2 c hc
    · exact hrb c hc
  | neg e ih =>
    intro c hc
    simp only [pr, List.mem_append, List.mem_singleton] at hc
    rcases hc with hc | hc | rfl
    · exact hng c hc
    · exact hw _ _ (ih h) c hc
    · exact hp.2
  | par e ih =>
    intro c hc
    simp only [pr, List.mem_cons, List.mem_append, List.mem_nil_iff, or_false] at hc
    rcases hc with rfl | hc | rfl
    · exact hp.1
    · exact ih h c hc
    · exact hp.2

/-! ## `{` → `@(` and `}` → `)` on printed strings -/

theorem flatMap_wrapS (g : Char → Str) (h1 : g '(' = ['(']) (h2 : g ')' = [')']) (b : Bool) (s : Str) :
    (wrapS b s).flatMap g = wrapS b (s.flatMap g) := by
  cases b with
  | false => rfl
  | true => simp [wrapS, List.flatMap_cons, List.flatMap_append, h1, h2]

theorem flatMap_name {c : Char} (rep : Str) (hc : c = '{' ∨ c = '}') {s : Str} (h : ∀ d ∈ s, achar d = true) :
    s.flatMap (fm c rep) = s := by
  apply flatMap_fm_absent
  intro hm
  have := achar_ne_braces (h c hm)
  rcases hc with rfl | rfl
  · exact this.1 rfl
  · exact this.2 rfl

theorem pr_flatMap (c : Char) (rep : Str) (hc : c = '{' ∨ c = '}') (lb rb ng : Str) (hng : c ∉ ng) (e : Sx) (h : SrcOK e) :
    (pr lb rb ng e).flatMap (fm c rep) = pr (lb.flatMap (fm c rep)) (rb.flatMap (fm c rep)) ng e := by
  have h1 : fm c rep '(' = ['('] := fm_ne rep (by rcases hc with rfl | rfl <;> decide)
  have h2 : fm c rep ')' = [')'] := fm_ne rep (by rcases hc with rfl | rfl <;> decide)
  induction e with
  | num s => exact flatMap_name rep hc h.1.2
  | var s => exact flatMap_name rep hc h.1.2
  | bin o l r ihl ihr =>
    have ho : fm c rep o = [o] := by
      apply fm_ne
      intro e
      have := h.1.1
      rcases hc with rfl | rfl <;> (subst e; revert this; decide)
    simp only [pr, List.flatMap_append, List.flatMap_cons, flatMap_wrapS _ h1 h2, ihl h.2.1, ihr h.2.2, ho,
      List.cons_append, List.nil_append]
  | call f e ih =>
    simp only [pr, List.flatMap_append, flatMap_name rep hc h.1.2, ih h.2]
  | neg e ih =>
    simp only [pr, List.flatMap_append, List.flatMap_cons, List.flatMap_nil, flatMap_wrapS _ h1 h2, ih h, h2,
      flatMap_fm_absent hng, List.append_nil]
  | par e ih =>
    simp only [pr, List.flatMap_append, List.flatMap_cons, List.flatMap_nil, ih h, h1, h2, List.cons_append,
      List.nil_append]

/-! ## `(-` → `(0-` on printed strings -/

/-- `s.replace("(-", "(0-")` -/
abbrev r2 : Str → Str := rep2 '(' '-' ['(', '0', '-']

theorem r2_app (s t : Str) (hj : s.getLast? ≠ some '(' ∨ t.head? ≠ some '-') : r2 (s ++ t) = r2 s ++ r2 t :=
  rep2_append _ _ _ s.length s t (Nat.le_refl _) hj

theorem r2_snoc_rp (s : Str) : r2 (s ++ [')']) = r2 s ++ [')'] := by
  rw [r2_app s [')'] (Or.inr (by simp))]; rfl

theorem r2_lp_cons (s : Str) (h : s.head? ≠ some '-') : r2 ('(' :: s) = '(' :: r2 s := by
  have := r2_app ['('] s (Or.inr h)
  simpa [r2, rep2] using this

theorem r2_paren {s : Str} (h : Inv s) : r2 ('(' :: (s ++ [')'])) = '(' :: (r2 s ++ [')']) := by
  rw [r2_lp_cons _ (by
    obtain ⟨c, hc, h1, _⟩ := h.head
    cases s with
    | nil => simp at hc
    | cons d ds =>
      simp only [List.head?_cons, Option.some.injEq] at hc
      subst hc
      simpa using h1), r2_snoc_rp]

theorem r2_wrapS {s : Str} (b : Bool) (h : Inv s) : r2 (wrapS b s) = wrapS b (r2 s) := by
  cases b with
  | false => rfl
  | true => exact r2_paren h

theorem r2_name {s : Str} (h : ∀ d ∈ s, achar d = true) : r2 s = s :=
  rep2_absent_left (fun hm => (achar_facts (h _ hm)).1 rfl)

theorem head?_append_inv {s t : Str} (h : Inv s) : (s ++ t).head? ≠ some '-' := by
  obtain ⟨c, hc, h1, _⟩ := h.head
  simp only [List.head?_append, hc, Option.some_or]
  intro e; exact h1 (Option.some.inj e)

/-- the middle string (calls already `f@(…)`, unary minus still `(-…)`) becomes the rewritten string -/
theorem r2_mid (e : Sx) (h : SrcOK e) : r2 (pr ['@', '('] [')'] ['(', '-'] e) = tgt e := by
  have hinv : ∀ e, SrcOK e → Inv (pr ['@', '('] [')'] ['(', '-'] e) :=
    fun e he => pr_inv (Or.inr rfl) (Or.inr rfl) (Or.inl rfl) e he
  unfold tgt
  induction e with
  | num s => exact r2_name h.1.2
  | var s => exact r2_name h.1.2
  | bin o l r ihl ihr =>
    have hl := Inv.wrap (decide (slv l < pyLvl o)) (hinv l h.2.1)
    have hne : o ≠ '(' := by intro e; subst e; exact absurd h.1.1 (by decide)
    simp only [pr]
    rw [r2_app _ _ (Or.inl hl.last_ne)]
    have : r2 (o :: wrapS (decide (slv r ≤ pyLvl o)) (pr ['@', '('] [')'] ['(', '-'] r))
        = o :: r2 (wrapS (decide (slv r ≤ pyLvl o)) (pr ['@', '('] [')'] ['(', '-'] r)) := by
      have := r2_app [o] (wrapS (decide (slv r ≤ pyLvl o)) (pr ['@', '('] [')'] ['(', '-'] r))
        (Or.inl (by simpa using hne))
      simpa [r2, rep2] using this
    rw [this, r2_wrapS _ (hinv l h.2.1), r2_wrapS _ (hinv r h.2.2), ihl h.2.1, ihr h.2.2]
  | call f e ih =>
    have hx := hinv e h.2
    have hf : f.getLast? ≠ some '(' := by
      intro hl
      exact (achar_facts (h.1.2 _ (List.mem_of_getLast? hl))).1 rfl
    simp only [pr]
    rw [r2_app _ _ (Or.inl hf), r2_name h.1.2, r2_app _ _ (Or.inr (head?_append_inv hx)), r2_snoc_rp, ih h.2]
    rfl
  | neg e ih =>
    have hx := hinv e h
    simp only [pr]
    have : r2 (['(', '-'] ++ (wrapS (decide (slv e ≤ 2)) (pr ['@', '('] [')'] ['(', '-'] e) ++ [')']))
        = ['(', '0', '-'] ++ r2 (wrapS (decide (slv e ≤ 2)) (pr ['@', '('] [')'] ['(', '-'] e) ++ [')']) := by
      simp [r2, rep2]
    rw [this, r2_snoc_rp, r2_wrapS _ hx, ih h]
  | par e ih =>
    simp only [pr]
    rw [r2_paren (hinv e h), ih h]

end TV.Expr
