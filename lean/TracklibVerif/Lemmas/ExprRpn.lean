import TracklibVerif.Lemmas.Rpn
import TracklibVerif.Lemmas.Expr
/-! Bridge between the parser's token-level trees (`TV.Rpn.E`, atoms are `String`s) and the evaluator's
expression trees (`TV.Expr.Ex`, names are character lists). -/
namespace TV.Expr
open TV.Rpn

/-- an expression tree as the parser sees it after the rewriting: a call is `f @ ( e )` -/
def toE : Ex → E
  | .num s => .atom (String.ofList s)
  | .var s => .atom (String.ofList s)
  | .bin o l r => .bin o (toE l) (toE r)
  | .call f e => .bin '@' (.atom (String.ofList f)) (.par (toE e))

theorem post_toE (e : Ex) : (Rpn.post (toE e)).map String.toList = Expr.post e := by
  induction e with
  | num s => simp [toE, Rpn.post, Expr.post]
  | var s => simp [toE, Rpn.post, Expr.post]
  | bin o l r ihl ihr => simp [toE, Rpn.post, Expr.post, ihl, ihr]
  | call f e ih => simp [toE, Rpn.post, Expr.post, ih]

theorem pyLvl_binOps {o : Char} (ho : binOps.contains o = true) : pyLvl o < 9 := by
  simp only [binOps, List.contains_cons, List.contains_nil, Bool.or_false, Bool.or_eq_true, beq_iff_eq] at ho
  rcases ho with h | h | h | h | h | h | h <;> (subst h; decide)

theorem wf_toE (e : Ex) (h : WFx e) : Rpn.WF pyLvl 9 (toE e) := by
  induction e with
  | num s => trivial
  | var s => trivial
  | bin o l r ihl ihr => exact ⟨pyLvl_binOps h.1, ihl h.2.1, ihr h.2.2⟩
  | call f e ih => exact ⟨by decide, trivial, ih h.2.2⟩

/-- the whole statement `lhs = e` as a parser tree -/
def stmt (lhs : Str) (e : Ex) : E := .bin '=' (.atom (String.ofList lhs)) (toE e)

theorem post_stmt (lhs : Str) (e : Ex) : (Rpn.post (stmt lhs e)).map String.toList = lhs :: (Expr.post e ++ [['=']]) := by
  simp [stmt, Rpn.post, post_toE]

theorem wf_stmt (lhs : Str) (e : Ex) (h : WFx e) : Rpn.WF pyLvl 9 (stmt lhs e) := ⟨by decide, trivial, wf_toE e h⟩

end TV.Expr
