import TracklibVerif.Lemmas.Rpn
import TracklibVerif.Lemmas.Expr
import TracklibVerif.Lemmas.RpnChars
/-! Bridge between the parser's token-level trees (`TV.Rpn.E`, atoms are `String`s) and the evaluator's
expression trees (`TV.Expr.Ex`, names are character lists). -/
namespace TV.Expr
open TV.Rpn

/-- an expression tree as the parser sees it after the rewriting: a call is `f @ ( e )` -/
def toE : Ex → E
  | .num s => .atom (String.ofList s)
  | .var s => .atom (String.ofList s)
  | .bin o l r => .bin o (toE l) (toE r)
  | .call f e => .bin '@' (.atom (String.ofList f)) (.par (toE e))

theorem post_toE (e : Ex) : (Rpn.post (toE e)).map String.toList = Expr.post e := by
  induction e with
  | num s => simp [toE, Rpn.post, Expr.post]
  | var s => simp [toE, Rpn.post, Expr.post]
  | bin o l r ihl ihr => simp [toE, Rpn.post, Expr.post, ihl, ihr]
  | call f e ih => simp [toE, Rpn.post, Expr.post, ih]

theorem pyLvl_binOps {o : Char} (ho : binOps.contains o = true) : pyLvl o < 9 := by
  simp only [binOps, List.contains_cons, List.contains_nil, Bool.or_false, Bool.or_eq_true, beq_iff_eq] at ho
  rcases ho with h | h | h | h | h | h | h <;> (subst h; decide)

theorem wf_toE (e : Ex) (h : WFx e) : Rpn.WF pyLvl 9 (toE e) := by
  induction e with
  | num s => trivial
  | var s => trivial
  | bin o l r ihl ihr => exact ⟨pyLvl_binOps h.1, ihl h.2.1, ihr h.2.2⟩
  | call f e ih => exact ⟨by decide, trivial, ih h.2.2⟩

/-- the whole statement `lhs = e` as a parser tree -/
def stmt (lhs : Str) (e : Ex) : E := .bin '=' (.atom (String.ofList lhs)) (toE e)

theorem post_stmt (lhs : Str) (e : Ex) : (Rpn.post (stmt lhs e)).map String.toList = lhs :: (Expr.post e ++ [['=']]) := by
  simp [stmt, Rpn.post, post_toE]

theorem wf_stmt (lhs : Str) (e : Ex) (h : WFx e) : Rpn.WF pyLvl 9 (stmt lhs e) := ⟨by decide, trivial, wf_toE e h⟩


/-- names, numbers and function names of the tree are non-empty and free of parentheses, operator
    characters and white space -/
def PlainNames : Ex → Prop
  | .num s => AtomOK (String.ofList s)
  | .var s => AtomOK (String.ofList s)
  | .bin _ l r => PlainNames l ∧ PlainNames r
  | .call f e => AtomOK (String.ofList f) ∧ PlainNames e

theorem atomsOK_toE (e : Ex) (h : PlainNames e) : AtomsOK (toE e) := by
  induction e with
  | num s => exact h
  | var s => exact h
  | bin o l r ihl ihr => exact ⟨ihl h.1, ihr h.2⟩
  | call f e ih => exact ⟨h.1, ih h.2⟩

theorem atomOK_output : AtomOK (String.ofList outputName) := by
  refine ⟨by simp [outputName], ?_⟩
  intro c hc
  simp only [String.toList_ofList, outputName, List.mem_cons, List.mem_nil_iff, or_false] at hc
  rcases hc with h | h | h | h | h | h | h <;> (subst h; decide)

/-- the string of the statement `lhs=e`, as it reaches `makeRPN` -/
def stmtString (lhs : Str) (e : Ex) : Str := flat (shw pyLvl 9 (stmt lhs e))

theorem makeRPN_stmtString (lhs : Str) (e : Ex) (hw : WFx e) (hp : PlainNames e) (hl : AtomOK (String.ofList lhs)) :
    makeRPN (stmtString lhs e) = .ok (lhs :: (Expr.post e ++ [['=']])) := by
  rw [stmtString, makeRPN_flat_shw _ (wf_stmt lhs e hw) ⟨hl, atomsOK_toE e hp⟩, post_stmt]


/-! ### `__double_prime` is the identity when no name ends with a quote -/

def GoodTok (t : Str) : Prop := ∃ c, t.getLast? = some c ∧ c ≠ '\''

theorem prime_id (toks : List Str) (h : ∀ t ∈ toks, GoodTok t) : prime toks = .ok toks := by
  induction toks with
  | nil => rfl
  | cons t ts ih =>
    obtain ⟨c, hc, hq⟩ := h t (by simp)
    have hb : (c == '\'') = false := by simpa using hq
    simp only [prime, hc, ih (fun u hu => h u (by simp [hu])), hb]
    rfl

theorem doublePrime_id (toks : List Str) (h : ∀ t ∈ toks, GoodTok t) : doublePrime toks = .ok toks := by
  simp only [doublePrime, prime_id toks h]
  exact prime_id toks h

/-- no name, number or function name of the tree ends with `'` (the derivative shorthand) -/
def NoQuote : Ex → Prop
  | .num s => GoodTok s
  | .var s => GoodTok s
  | .bin _ l r => NoQuote l ∧ NoQuote r
  | .call f e => GoodTok f ∧ NoQuote e

theorem goodTok_post (e : Ex) (h : NoQuote e) (hw : WFx e) : ∀ t ∈ Expr.post e, GoodTok t := by
  induction e with
  | num s => intro t ht; simp only [Expr.post, List.mem_singleton] at ht; subst ht; exact h
  | var s => intro t ht; simp only [Expr.post, List.mem_singleton] at ht; subst ht; exact h
  | bin o l r ihl ihr =>
    intro t ht
    simp only [Expr.post, List.mem_append, List.mem_singleton] at ht
    rcases ht with (ht | ht) | rfl
    · exact ihl h.1 hw.2.1 t ht
    · exact ihr h.2 hw.2.2 t ht
    · refine ⟨o, rfl, ?_⟩
      intro ho; subst ho; exact absurd hw.1 (by decide)
  | call f e ih =>
    intro t ht
    simp only [Expr.post, List.mem_append, List.mem_singleton, List.mem_cons, List.mem_nil_iff, or_false] at ht
    rcases ht with (rfl | ht) | rfl
    · exact h.1
    · exact ih h.2 hw.2.2 t ht
    · exact ⟨'@', rfl, by decide⟩

end TV.Expr
