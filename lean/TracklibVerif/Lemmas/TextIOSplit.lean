import TracklibVerif.Model.TextIO
/-! `split` / `join` / line lemmas for C13 (core only). -/
namespace TV.TextIO

theorem splitOnChar_ne_nil (c : Char) (s : Str) : splitOnChar c s ≠ [] := by
  induction s with
  | nil => simp [splitOnChar]
  | cons x xs ih =>
    unfold splitOnChar
    split
    · simp
    · split <;> simp

/-- `s.split(c) == [s]` when `c` does not occur in `s` -/
theorem splitOnChar_of_not_mem (c : Char) (s : Str) (h : c ∉ s) : splitOnChar c s = [s] := by
  induction s with
  | nil => rfl
  | cons x xs ih =>
    have hx : x ≠ c := fun e => h (by simp [e])
    have := ih (fun e => h (by simp [e]))
    simp [splitOnChar, hx, this]

/-- `(a + c + b).split(c) == [a] + b.split(c)` when `c` does not occur in `a` -/
theorem splitOnChar_append (c : Char) (a b : Str) (h : c ∉ a) :
    splitOnChar c (a ++ c :: b) = a :: splitOnChar c b := by
  induction a with
  | nil => simp [splitOnChar]
  | cons x xs ih =>
    have hx : x ≠ c := fun e => h (by simp [e])
    have := ih (fun e => h (by simp [e]))
    simp [splitOnChar, hx, this]

/-- `c.join(vs).split(c) == vs` when no item contains `c` -/
theorem splitOnChar_joinChar (c : Char) (vs : List Str) (hne : vs ≠ []) (h : ∀ v ∈ vs, c ∉ v) :
    splitOnChar c (joinChar c vs) = vs := by
  induction vs with
  | nil => exact absurd rfl hne
  | cons a r ih =>
    cases r with
    | nil => simpa [joinChar] using splitOnChar_of_not_mem c a (h a (by simp))
    | cons b r' =>
      simp only [joinChar]
      rw [splitOnChar_append c a _ (h a (by simp)), ih (by simp) (fun v hv => h v (by simp [hv]))]

theorem joinChar_cons_cons (c : Char) (a b : Str) (r : List Str) :
    joinChar c (a :: b :: r) = a ++ c :: joinChar c (b :: r) := rfl

/-- characters of a joined string come from the items or are the separator -/
theorem mem_joinChar {c x : Char} {vs : List Str} (hx : x ∈ joinChar c vs) : x = c ∨ ∃ v ∈ vs, x ∈ v := by
  induction vs with
  | nil => simp [joinChar] at hx
  | cons a r ih =>
    cases r with
    | nil => exact Or.inr ⟨a, by simp, by simpa [joinChar] using hx⟩
    | cons b r' =>
      simp only [joinChar, List.mem_append, List.mem_cons] at hx
      rcases hx with hx | hx | hx
      · exact Or.inr ⟨a, by simp, hx⟩
      · exact Or.inl hx
      · rcases ih hx with h | ⟨v, hv, hxv⟩
        · exact Or.inl h
        · exact Or.inr ⟨v, by simp [hv], hxv⟩

/-! ### lines -/

/-- the lines of a text made of newline-terminated lines that contain no newline -/
theorem fileLines_flatten (ls : List Str) (h : ∀ l ∈ ls, '\n' ∉ l) :
    fileLines (ls.map (· ++ ['\n'])).flatten = ls := by
  have key : ∀ ls : List Str, (∀ l ∈ ls, '\n' ∉ l) →
      splitOnChar '\n' (ls.map (· ++ ['\n'])).flatten = ls ++ [[]] := by
    intro ls
    induction ls with
    | nil => intro _; rfl
    | cons a r ih =>
      intro h
      simp only [List.map_cons, List.flatten_cons, List.append_assoc, List.singleton_append]
      rw [splitOnChar_append _ _ _ (h a (by simp)), ih (fun l hl => h l (by simp [hl]))]
      rfl
  unfold fileLines
  rw [key ls h]
  simp

end TV.TextIO
