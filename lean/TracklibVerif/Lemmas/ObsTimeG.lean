import TracklibVerif.Model.ObsTimeG
import TracklibVerif.Lemmas.ObsTime
import Mathlib.Algebra.Order.Field.Basic
import Mathlib.Algebra.Order.Ring.Cast
import Mathlib.Tactic.Ring
import Mathlib.Tactic.Linarith
import Mathlib.Tactic.NormNum
/-! Helper lemmas for the float path of C03: over a linearly ordered field with an exact truncation the
generic reader `readUnixG` on `n + f` (`n` a natural number, `0 ≤ f < 1`) runs the integer reader
`readUnixSec` on `n` and carries the fraction `f` untouched to the millisecond statement. -/
namespace TV.ObsTime

/-- the integer reader with the tuple patterns replaced by projections -/
theorem readUnixSec_proj (s : Nat) :
    readUnixSec s =
      let Y := yearLoop (s / (365 * 86400) + 1) 1970 s
      let M := monthLoop Y.1 12 0 Y.2
      let r3 := M.2 - (M.2 / 86400 + 1 - 1) * 86400
      let r4 := r3 - r3 / 3600 * 3600
      ⟨Y.1, M.1 + 1, M.2 / 86400 + 1, r3 / 3600, r4 / 60, r4 - r4 / 60 * 60⟩ := rfl

section
variable {α : Type} [Field α] [LinearOrder α] [IsStrictOrderedRing α]

/-- contract of Python's `int()` on non-negative reals: the integer part. (On negative reals `int()`
rounds toward zero; the theorems never apply it there.) -/
def TruncZ (trunc : α → Int) : Prop :=
  ∀ x : α, 0 ≤ x → 0 ≤ trunc x ∧ ((trunc x : Int) : α) ≤ x ∧ x < ((trunc x : Int) : α) + 1

/-- a natural number plus a fraction is below a natural number iff its integer part is -/
theorem nat_add_frac_lt (r N : Nat) (f : α) (hf0 : 0 ≤ f) (hf1 : f < 1) :
    (r : α) + f < (N : α) ↔ r < N := by
  constructor
  · intro h
    have : (r : α) < (N : α) := by linarith
    exact_mod_cast this
  · intro h
    have : ((r + 1 : Nat) : α) ≤ (N : α) := by exact_mod_cast h
    push_cast at this
    linarith

/-- `int(r + f) = r` -/
theorem trunc_nat_add_frac (trunc : α → Int) (htr : TruncZ trunc) (r : Nat) (f : α)
    (hf0 : 0 ≤ f) (hf1 : f < 1) : trunc ((r : α) + f) = (r : Int) := by
  have hr : (0 : α) ≤ (r : α) := Nat.cast_nonneg r
  obtain ⟨h0, h1, h2⟩ := htr ((r : α) + f) (by linarith)
  obtain ⟨q, hq⟩ := Int.eq_ofNat_of_zero_le h0
  rw [hq] at h1 h2 ⊢
  simp only [Int.cast_natCast] at h1 h2
  have a1 : (q : α) < ((r + 1 : Nat) : α) := by push_cast; linarith
  have a2 : (r : α) < ((q + 1 : Nat) : α) := by push_cast; linarith
  have b1 : q < r + 1 := by exact_mod_cast a1
  have b2 : r < q + 1 := by exact_mod_cast a2
  have : q = r := by omega
  rw [this]

/-- `int((r + f) / c) = r // c` for a positive integer `c` -/
theorem trunc_div_nat (trunc : α → Int) (htr : TruncZ trunc) (r c : Nat) (hc : 0 < c) (f : α)
    (hf0 : 0 ≤ f) (hf1 : f < 1) : trunc (((r : α) + f) / (c : α)) = ((r / c : Nat) : Int) := by
  have hr : (0 : α) ≤ (r : α) := Nat.cast_nonneg r
  have hcα : (0 : α) < (c : α) := by exact_mod_cast hc
  obtain ⟨h0, h1, h2⟩ := htr (((r : α) + f) / (c : α)) (div_nonneg (by linarith) (le_of_lt hcα))
  obtain ⟨q, hq⟩ := Int.eq_ofNat_of_zero_le h0
  rw [hq] at h1 h2 ⊢
  simp only [Int.cast_natCast] at h1 h2
  rw [le_div_iff₀ hcα] at h1
  rw [div_lt_iff₀ hcα] at h2
  have a1 : ((q * c : Nat) : α) < ((r + 1 : Nat) : α) := by push_cast; linarith
  have a2 : (r : α) < (((q + 1) * c : Nat) : α) := by push_cast; linarith
  have b1 : q * c < r + 1 := by exact_mod_cast a1
  have b2 : r < (q + 1) * c := by exact_mod_cast a2
  have : r / c = q := Nat.div_eq_of_lt_le (by omega) b2
  rw [this]

/-- one "divide, truncate, subtract" step of `readUnixTime`: `k = int(e / c); e -= k * c` -/
theorem step_div (trunc : α → Int) (htr : TruncZ trunc) (r c : Nat) (hc : 0 < c) (f : α)
    (hf0 : 0 ≤ f) (hf1 : f < 1) :
    trunc (((r : α) + f) / (((c : Nat) : Int) : α)) = ((r / c : Nat) : Int)
    ∧ ((r : α) + f) - (((((r / c : Nat) : Int) * ((c : Nat) : Int)) : Int) : α)
        = ((r - r / c * c : Nat) : α) + f := by
  constructor
  · simpa using trunc_div_nat trunc htr r c hc f hf0 hf1
  · have hle : r / c * c ≤ r := Nat.div_mul_le_self r c
    rw [Nat.cast_sub hle]
    simp only [Int.cast_mul, Int.cast_natCast, Nat.cast_mul]
    ring

/-- the year loop on `n + f` is the integer year loop on `n`; the accumulator is what was consumed -/
theorem yearLoopG_eq (n : Nat) (f : α) (hf0 : 0 ≤ f) (hf1 : f < 1) (fuel y sec : Nat) (hs : sec ≤ n)
    (hfuel : (n - sec) / (365 * 86400) < fuel) :
    ∃ sec', yearLoopG ((n : α) + f) fuel y sec = some ((yearLoop fuel y (n - sec)).1, sec')
      ∧ sec' ≤ n ∧ (yearLoop fuel y (n - sec)).2 = n - sec' := by
  induction fuel generalizing y sec with
  | zero => omega
  | succ k ih =>
    unfold yearLoopG yearLoop
    have hcond : ((n : α) + f - (((sec : Nat) : Int) : α) < (((yearDays y * 86400 : Nat) : Int) : α))
        ↔ n - sec < yearDays y * 86400 := by
      rw [← nat_add_frac_lt (n - sec) (yearDays y * 86400) f hf0 hf1, Nat.cast_sub hs]
      simp only [Int.cast_natCast]
      constructor <;> intro h <;> linarith
    by_cases h : n - sec < yearDays y * 86400
    · simp only [hcond.2 h, h, ↓reduceIte]
      exact ⟨sec, rfl, hs, rfl⟩
    · have hn : ¬ ((n : α) + f - (((sec : Nat) : Int) : α) < (((yearDays y * 86400 : Nat) : Int) : α)) :=
        fun c => h (hcond.1 c)
      simp only [hn, h, ↓reduceIte]
      have h365 := yearDays_ge y
      have hs' : sec + yearDays y * 86400 ≤ n := by omega
      have e : n - (sec + yearDays y * 86400) = n - sec - yearDays y * 86400 := by omega
      have := ih (y + 1) (sec + yearDays y * 86400) hs' (by omega)
      rw [e] at this
      exact this

/-- the month loop on `r + f` is the integer month loop on `r`, the fraction is carried along -/
theorem monthLoopG_eq (y : Nat) (f : α) (hf0 : 0 ≤ f) (hf1 : f < 1) (fuel m r : Nat) :
    monthLoopG y fuel m ((r : α) + f)
      = ((monthLoop y fuel m r).1, (((monthLoop y fuel m r).2 : Nat) : α) + f) := by
  induction fuel generalizing m r with
  | zero => rfl
  | succ k ih =>
    unfold monthLoopG monthLoop
    have hcond : ((r : α) + f < (((monthDays y m * 86400 : Nat) : Int) : α)) ↔ r < monthDays y m * 86400 := by
      rw [← nat_add_frac_lt r (monthDays y m * 86400) f hf0 hf1]
      simp only [Int.cast_natCast]
    by_cases h : r < monthDays y m * 86400
    · simp only [hcond.2 h, h, ↓reduceIte]
    · have hn : ¬ ((r : α) + f < (((monthDays y m * 86400 : Nat) : Int) : α)) := fun c => h (hcond.1 c)
      simp only [hn, h, ↓reduceIte]
      have e : (r : α) + f - (((monthDays y m * 86400 : Nat) : Int) : α)
          = ((r - monthDays y m * 86400 : Nat) : α) + f := by
        rw [Nat.cast_sub (by omega)]
        simp only [Int.cast_natCast]
        ring
      rw [e]
      exact ih (m + 1) (r - monthDays y m * 86400)

/-- **the float reader in exact arithmetic**: on `n + f` it returns the calendar fields of the integer
reader on `n` and `ms = int(1000 f)`. -/
theorem readUnixG_nat_add_frac (trunc : α → Int) (htr : TruncZ trunc) (n : Nat) (f : α)
    (hf0 : 0 ≤ f) (hf1 : f < 1) :
    readUnixG trunc ((n : α) + f) = some (Stamp.toZ ⟨readUnixSec n, (trunc (f * 1000)).toNat⟩) := by
  have hfuel : (trunc (((n : α) + f) / ((31536000 : Int) : α))).toNat = n / (365 * 86400) := by
    have := trunc_div_nat trunc htr n 31536000 (by decide) f hf0 hf1
    simp only [Nat.cast_ofNat] at this
    simp only [Int.cast_ofNat, this, Int.toNat_natCast]
  obtain ⟨sec', hy, hs', hrem⟩ := yearLoopG_eq n f hf0 hf1 (n / (365 * 86400) + 1) 1970 0 (Nat.zero_le n)
    (by omega)
  simp only [Nat.sub_zero] at hy hrem
  unfold readUnixG
  rw [hfuel, hy, readUnixSec_proj]
  simp only [Stamp.toZ]
  -- elapsed_seconds -= sec
  have e1 : (n : α) + f - (((sec' : Nat) : Int) : α)
      = (((yearLoop (n / (365 * 86400) + 1) 1970 n).2 : Nat) : α) + f := by
    rw [hrem, Nat.cast_sub hs']
    simp only [Int.cast_natCast]
    ring
  rw [e1, monthLoopG_eq _ f hf0 hf1]
  simp only
  generalize (yearLoop (n / (365 * 86400) + 1) 1970 n) = Y at *
  generalize hM : monthLoop Y.1 12 0 Y.2 = M
  -- day
  obtain ⟨d1, d2⟩ := step_div trunc htr M.2 86400 (by decide) f hf0 hf1
  simp only [Nat.cast_ofNat] at d1 d2
  rw [d1]
  have ed : (((M.2 / 86400 : Nat) : Int) + 1 - 1) = ((M.2 / 86400 : Nat) : Int) := by omega
  rw [ed, d2]
  -- hour
  obtain ⟨h1, h2⟩ := step_div trunc htr (M.2 - M.2 / 86400 * 86400) 3600 (by decide) f hf0 hf1
  simp only [Nat.cast_ofNat] at h1 h2
  rw [h1, h2]
  -- minute
  obtain ⟨m1, m2⟩ := step_div trunc htr
    (M.2 - M.2 / 86400 * 86400 - (M.2 - M.2 / 86400 * 86400) / 3600 * 3600) 60 (by decide) f hf0 hf1
  simp only [Nat.cast_ofNat] at m1 m2
  rw [m1, m2]
  -- second
  rw [trunc_nat_add_frac trunc htr _ f hf0 hf1]
  have es : ∀ r : Nat, (r : α) + f - (((r : Nat) : Int) : α) = f := by
    intro r; simp only [Int.cast_natCast]; ring
  rw [es]
  -- millisecond
  have h0 : 0 ≤ trunc (f * 1000) := (htr (f * 1000) (by positivity)).1
  simp only [Int.cast_ofNat, Int.toNat_of_nonneg h0, Nat.add_sub_cancel, Nat.cast_add, Nat.cast_one]

/-- what `readUnixTime(x)` returns in exact arithmetic (the specification of the float reader): the integer
reader on `⌊x⌋` and `⌊(x − ⌊x⌋)·1000⌋` milliseconds, with `⌊·⌋` = `trunc` on non-negative scalars -/
def readUnixSpec (trunc : α → Int) (x : α) : Stamp :=
  ⟨readUnixSec (trunc x).toNat, (trunc ((x - ((trunc x).toNat : α)) * 1000)).toNat⟩

/-- integer part and fraction of a non-negative scalar, as `int()` delivers them -/
theorem frac_bounds (trunc : α → Int) (htr : TruncZ trunc) (x : α) (hx : 0 ≤ x) :
    0 ≤ x - ((trunc x).toNat : α) ∧ x - ((trunc x).toNat : α) < 1 := by
  obtain ⟨h0, h1, h2⟩ := htr x hx
  have e : ((trunc x).toNat : α) = ((trunc x : Int) : α) := by
    rw [← Int.cast_natCast, Int.toNat_of_nonneg h0]
  rw [e]
  constructor <;> linarith

/-- the millisecond statement `ms = int(f * 1000)` on a fraction: `0 ≤ ms ≤ 999` and `ms ≤ 1000 f < ms + 1` -/
theorem ms_bounds (trunc : α → Int) (htr : TruncZ trunc) (f : α) (hf0 : 0 ≤ f) (hf1 : f < 1) :
    (trunc (f * 1000)).toNat < 1000 ∧ ((trunc (f * 1000)).toNat : α) ≤ f * 1000
      ∧ f * 1000 < ((trunc (f * 1000)).toNat : α) + 1 := by
  obtain ⟨h0, h1⟩ := frac_bounds trunc htr (f * 1000) (by positivity)
  refine ⟨?_, by linarith, by linarith⟩
  have : ((trunc (f * 1000)).toNat : α) < ((1000 : Nat) : α) := by push_cast; linarith
  exact_mod_cast this

/-- a scalar that is exactly `k` thousandths, `k < 1000`, has `int(1000 f) = k` -/
theorem ms_exact (trunc : α → Int) (htr : TruncZ trunc) (k : Nat) :
    (trunc ((k : α) / 1000 * 1000)).toNat = k := by
  have e : (k : α) / 1000 * 1000 = (k : α) + 0 := by ring
  rw [e, trunc_nat_add_frac trunc htr k 0 (le_refl _) one_pos]
  simp

/-- the Python `int` named `seconds` in `toAbsTime` is the integer model's `toAbsSec` -/
theorem secondsZ_toZ (s : Stamp) (hd : 1 ≤ s.d.day) : secondsZ s.toZ = (toAbsSec s.d : Int) := by
  simp only [secondsZ, Stamp.toZ, toAbsSec]
  omega

/-- `toAbsTime()` in exact arithmetic is the integer model's millisecond count divided by 1000 -/
theorem toAbsG_toZ (s : Stamp) (hd : 1 ≤ s.d.day) : (toAbsG s.toZ : α) = (toAbsMs s : α) / 1000 := by
  unfold toAbsG
  rw [secondsZ_toZ s hd]
  simp only [Stamp.toZ, toAbsMs, Int.cast_natCast, Int.cast_ofNat, Nat.cast_add, Nat.cast_mul, Nat.cast_ofNat]
  ring

/-- the order of the `toAbsTime()` values is the order of the millisecond counts -/
theorem toAbsG_lt_iff (a b : Stamp) (ha : 1 ≤ a.d.day) (hb : 1 ≤ b.d.day) :
    (toAbsG a.toZ : α) < toAbsG b.toZ ↔ toAbsMs a < toAbsMs b := by
  rw [toAbsG_toZ a ha, toAbsG_toZ b hb, div_lt_div_iff_of_pos_right (by norm_num : (0 : α) < 1000)]
  exact Nat.cast_lt

theorem toAbsG_eq_iff (a b : Stamp) (ha : 1 ≤ a.d.day) (hb : 1 ≤ b.d.day) :
    (toAbsG a.toZ : α) = toAbsG b.toZ ↔ toAbsMs a = toAbsMs b := by
  rw [toAbsG_toZ a ha, toAbsG_toZ b hb, div_left_inj' (by norm_num : (1000 : α) ≠ 0)]
  exact Nat.cast_inj

end

/-! the comparison cascades on float-path stamps are those of the integer model -/
theorem ltZ_toZ (a b : Stamp) : ltZ a.toZ b.toZ = ltS a b := by
  cases a with | mk da ma =>
  cases b with | mk db mb =>
  cases da with | mk y1 m1 d1 h1 mi1 s1 =>
  cases db with | mk y2 m2 d2 h2 mi2 s2 =>
  unfold ltZ ltS Stamp.toZ
  simp only
  by_cases hy : y1 = y2 <;> by_cases hm : m1 = m2 <;> by_cases hd : d1 = d2 <;> by_cases hh : h1 = h2 <;>
    by_cases hmi : mi1 = mi2 <;> by_cases hs : s1 = s2 <;> simp [hy, hm, hd, hh, hmi, hs]
theorem gtZ_toZ (a b : Stamp) : gtZ a.toZ b.toZ = gtS a b := by
  cases a with | mk da ma =>
  cases b with | mk db mb =>
  cases da with | mk y1 m1 d1 h1 mi1 s1 =>
  cases db with | mk y2 m2 d2 h2 mi2 s2 =>
  unfold gtZ gtS Stamp.toZ
  simp only
  by_cases hy : y1 = y2 <;> by_cases hm : m1 = m2 <;> by_cases hd : d1 = d2 <;> by_cases hh : h1 = h2 <;>
    by_cases hmi : mi1 = mi2 <;> by_cases hs : s1 = s2 <;> simp [hy, hm, hd, hh, hmi, hs]
theorem eqZ_toZ (a b : Stamp) : eqZ a.toZ b.toZ = eqS a b := by
  cases a with | mk da ma =>
  cases b with | mk db mb =>
  cases da with | mk y1 m1 d1 h1 mi1 s1 =>
  cases db with | mk y2 m2 d2 h2 mi2 s2 =>
  unfold eqZ eqS Stamp.toZ
  simp only
  by_cases hy : y1 = y2 <;> by_cases hm : m1 = m2 <;> by_cases hd : d1 = d2 <;> by_cases hh : h1 = h2 <;>
    by_cases hmi : mi1 = mi2 <;> by_cases hs : s1 = s2 <;> by_cases hms : ma = mb <;>
    simp [hy, hm, hd, hh, hmi, hs, hms]

end TV.ObsTime
