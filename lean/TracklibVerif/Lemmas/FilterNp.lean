import TracklibVerif.Lemmas.Filter
/-! Lemmas about `Model/Filter.lean` (C15), second part:

* a weight list (numpy weights) on a signal some of whose windows have a zero norm: what
  `Filter.execute` returns (`partialSignal`) and when it fails;
* user-defined kernel functions given by a table (`tableF`);
* sliding windows whose kernel function is positive at some sample point (not necessarily 0). -/
set_option linter.unusedSectionVars false
namespace TV.Filter

section np
variable {α : Type} [Field α] [LinearOrder α] [IsStrictOrderedRing α]

/-- the output the property describes for a weight list when some windows have a zero norm: the
boundary values are copied, a window with a non-zero norm gives its renormalised weighted mean, a
window whose valid weights sum to 0 has no weighted mean — the value is NaN -/
def partialSignal (v : List (Option α)) (k : List α) : List (Option α) :=
  (List.range v.length).map (fun i =>
    if i < k.length / 2 ∨ v.length - k.length / 2 ≤ i then (v[i]?).join
    else if wtot (window v k (k.length / 2) i) = 0 then none
    else some (wmean (window v k (k.length / 2) i)))

theorem partialSignal_length (v : List (Option α)) (k : List α) : (partialSignal v k).length = v.length := by
  simp [partialSignal]

theorem partialSignal_get (v : List (Option α)) (k : List α) (i : Nat) (hi : i < v.length) :
    (partialSignal v k)[i]? = some (if i < k.length / 2 ∨ v.length - k.length / 2 ≤ i then (v[i]?).join
      else if wtot (window v k (k.length / 2) i) = 0 then none
      else some (wmean (window v k (k.length / 2) i))) := by
  unfold partialSignal
  rw [List.getElem?_map, List.getElem?_range hi]
  rfl

theorem anySample_eq (v : List (Option α)) (D i : Nat) (ks : List α) (j : Nat) :
    anySample v D i ks j = !(windowFrom v D i ks j).isEmpty := by
  induction ks generalizing j with
  | nil => simp [anySample, windowFrom_nil]
  | cons kj ks ih =>
    unfold anySample
    rw [sample_eq, windowFrom_cons, ih]
    cases h : val? v D i j <;> simp

theorem wtot_of_isEmpty (W : List (α × α)) (h : W.isEmpty = true) : wtot W = 0 := by
  rw [List.isEmpty_iff] at h
  rw [h, wtot_nil]

/-- a weight list (numpy weights), odd, on a signal at least as long as the half window, every
window holding at least one valid sample: `Filter.execute` returns `partialSignal` -/
theorem filterWindowG_np_eq (v : List (Option α)) (k : List α) (hodd : k.length % 2 = 1)
    (hsample : ∀ i, i < v.length → window v k (k.length / 2) i ≠ [])
    (hlen : k.length / 2 ≤ v.length) :
    filterWindowG v k false true = .ok (partialSignal v k) := by
  unfold filterWindowG
  have h1 : ¬ (k.length % 2 == 0) = true := by simp [hodd]
  simp only [h1]
  rw [cells_eq]
  have h2 : ((List.range v.length).map (fun i => (wsum (window v k (k.length / 2) i), wtot (window v k (k.length / 2) i)))).zipIdx.any
      (fun c => c.1.2 == 0 && (!true || !anySample v (k.length / 2) c.2 k 0)) = false := by
    rw [List.any_eq_false]
    intro c hc
    have hm := List.mem_zipIdx_iff_getElem?.mp (show (c.1, c.2) ∈ _ from hc)
    have hi : c.2 < v.length := by
      have := (List.getElem?_eq_some_iff.mp hm).1
      simpa using this
    have hne := hsample c.2 hi
    rw [anySample_eq]
    unfold window at hne
    have : (windowFrom v (k.length / 2) c.2 k 0).isEmpty = false := by
      rw [Bool.eq_false_iff]; intro h; exact hne (List.isEmpty_iff.mp h)
    simp [this]
  have h3 : ¬ v.length < k.length / 2 := by omega
  simp only [h2, Bool.false_eq_true, if_false, h3]
  congr 1
  unfold partialSignal copyBoundary
  apply List.map_congr_left
  intro i hi
  have hi := List.mem_range.mp hi
  by_cases hb : i < k.length / 2 ∨ v.length - k.length / 2 ≤ i
  · rw [if_pos hb, if_pos hb]
  · rw [if_neg hb, if_neg hb]
    simp only [List.getElem?_map, List.getElem?_range hi, Option.map_some, Option.join_some]
    by_cases h0 : wtot (window v k (k.length / 2) i) = 0
    · simp [h0]
    · simp [h0, wmean]

/-- … and when some window holds no valid sample at all, `temp[i] /= norm` divides the int 0 by the
int 0: the call fails -/
theorem filterWindowG_np_fails (v : List (Option α)) (k : List α) (boundary : Bool) (hodd : k.length % 2 = 1)
    (i : Nat) (hi : i < v.length) (hempty : window v k (k.length / 2) i = []) :
    filterWindowG v k boundary true = .error .zeroDiv := by
  unfold filterWindowG
  have h1 : ¬ (k.length % 2 == 0) = true := by simp [hodd]
  simp only [h1]
  rw [cells_eq]
  have h2 : ((List.range v.length).map (fun i => (wsum (window v k (k.length / 2) i), wtot (window v k (k.length / 2) i)))).zipIdx.any
      (fun c => c.1.2 == 0 && (!true || !anySample v (k.length / 2) c.2 k 0)) = true := by
    rw [List.any_eq_true]
    refine ⟨((wsum (window v k (k.length / 2) i), wtot (window v k (k.length / 2) i)), i), ?_, ?_⟩
    · rw [List.mem_zipIdx_iff_getElem?]
      simp [hi]
    · rw [anySample_eq]
      unfold window at hempty
      simp [hempty, window, wtot_nil]
  simp only [h2, if_true, Bool.false_eq_true, if_false]

/-- a window is empty for the normalised weights iff it is for the caller's weights -/
theorem window_normalise_eq_nil (v : List (Option α)) (k : List α) (i : Nat) :
    window v (normalise k) (k.length / 2) i = [] ↔ window v k (k.length / 2) i = [] := by
  rw [normalise_eq, window_map]
  simp

theorem partialSignal_normalise (v : List (Option α)) (k : List α) (hs : k.sum ≠ 0) :
    partialSignal v (normalise k) = partialSignal v k := by
  unfold partialSignal
  rw [normalise_length]
  apply List.map_congr_left
  intro i _
  rw [wtot_window_normalise]
  have e : wmean (window v (normalise k) (k.length / 2) i) = wmean (window v k (k.length / 2) i) := by
    rw [normalise_eq, window_map, wmean_scale _ _ hs]
  rw [e]
  by_cases h0 : wtot (window v k (k.length / 2) i) = 0
  · simp [h0]
  · have : wtot (window v k (k.length / 2) i) / k.sum ≠ 0 := div_ne_zero h0 hs
    simp [h0, this]

/-- `Filter.execute` with a weight list whose sum is not zero, every window holding a valid sample -/
theorem execute_list_partial (v : List (Option α)) (k : List α) (hodd : k.length % 2 = 1)
    (hsample : ∀ i, i < v.length → window v k (k.length / 2) i ≠ [])
    (hlen : k.length / 2 ≤ v.length) (hs : k.sum ≠ 0) :
    execute v (.list k) = .ok (some (normalise k), partialSignal v k) := by
  unfold execute prepare
  have h := filterWindowG_np_eq v (normalise k) (by rw [normalise_length]; exact hodd)
    (by
      intro i hi
      rw [normalise_length]
      exact fun h => hsample i hi ((window_normalise_eq_nil v k i).mp h))
    (by rw [normalise_length]; exact hlen)
  simp only [h, partialSignal_normalise v k hs]

theorem execute_list_fails (v : List (Option α)) (k : List α) (hodd : k.length % 2 = 1)
    (i : Nat) (hi : i < v.length) (hempty : window v k (k.length / 2) i = []) :
    execute v (.list k) = .error .zeroDiv := by
  unfold execute prepare
  have h := filterWindowG_np_fails v (normalise k) false (by rw [normalise_length]; exact hodd) i hi
    (by rw [normalise_length]; exact (window_normalise_eq_nil v k i).mpr hempty)
  simp only [h]
end np

section zero
variable {α : Type} [Field α] [LinearOrder α] [IsStrictOrderedRing α]

/-- non-negative weights summing to 0 are all 0: no weighted mean exists for such a window -/
theorem weights_zero_of_wtot_zero (W : List (α × α)) (hw : ∀ p ∈ W, 0 ≤ p.1) (h0 : wtot W = 0) :
    ∀ p ∈ W, p.1 = 0 := by
  intro p hp
  by_contra hne
  have hpos : 0 < p.1 := lt_of_le_of_ne (hw p hp) (Ne.symm hne)
  have := wtot_pos_of_mem W hw p hp hpos
  rw [h0] at this
  exact lt_irrefl _ this
end zero

section table
variable {α : Type} [Field α] [LinearOrder α] [IsStrictOrderedRing α]

theorem tableFrom_nat (tbl : List α) (j0 m : Nat) :
    tableFrom (((j0 + m : Nat) : α)) tbl j0 = (tbl[m]?).getD 0 := by
  induction tbl generalizing j0 m with
  | nil => simp [tableFrom]
  | cons y ys ih =>
    unfold tableFrom
    cases m with
    | zero => simp
    | succ m =>
      have hne : ¬ ((j0 : α) = ((j0 + (m + 1) : Nat) : α)) := by
        intro h
        have := Nat.cast_injective (R := α) h
        omega
      have e : j0 + (m + 1) = (j0 + 1) + m := by omega
      simp only [beq_iff_eq, hne, if_false, List.getElem?_cons_succ]
      rw [e, ih]

theorem tableFrom_nonneg (a : α) (tbl : List α) (j : Nat) (h : ∀ y ∈ tbl, 0 ≤ y) : 0 ≤ tableFrom a tbl j := by
  induction tbl generalizing j with
  | nil => simp [tableFrom]
  | cons y ys ih =>
    unfold tableFrom
    split
    · exact h y List.mem_cons_self
    · exact ih (j + 1) (fun z hz => h z (List.mem_cons_of_mem _ hz))

/-- a table kernel function is even -/
theorem tableF_even (tbl : List α) (x : α) : tableF tbl (-x) = tableF tbl x := by
  unfold tableF; rw [absv_neg]

theorem tableF_nonneg (tbl : List α) (x : α) (h : ∀ y ∈ tbl, 0 ≤ y) : 0 ≤ tableF tbl x :=
  tableFrom_nonneg _ tbl 0 h

/-- … and takes the tabulated value at a natural number -/
theorem tableF_nat (tbl : List α) (j : Nat) : tableF tbl (j : α) = (tbl[j]?).getD 0 := by
  unfold tableF
  have : absv ((j : Nat) : α) = ((0 + j : Nat) : α) := by
    rw [absv_eq_abs, Nat.zero_add]; exact abs_of_nonneg (Nat.cast_nonneg j)
  rw [this, tableFrom_nat]

/-- inside the support `evaluate` is the kernel function -/
theorem evaluate_inside (f : α → α) (support x : α) (h : absv x ≤ support) : evaluate f support x = f x := by
  unfold evaluate ind
  rw [if_pos h, mul_one]

theorem absv_sample_le (S i : Nat) (hi : i ≤ 2 * S) : absv ((S : α) - (i : α)) ≤ (S : α) := by
  rw [absv_eq_abs, abs_le]
  have h1 : (0 : α) ≤ (i : α) := Nat.cast_nonneg i
  have h2 : (i : α) ≤ 2 * (S : α) := by exact_mod_cast hi
  constructor <;> linarith

/-- a kernel function non-negative at the sample points and positive at one of them, `S ≤ support`:
the sampled values have a positive sum -/
theorem rawWindow_sum_pos_any (f : α → α) (support : α) (S : Nat) (hS : (S : α) ≤ support)
    (hf : ∀ i : Nat, i ≤ 2 * S → 0 ≤ f ((S : α) - (i : α)))
    (i0 : Nat) (hi0 : i0 ≤ 2 * S) (hpos : 0 < f ((S : α) - (i0 : α))) : 0 < (rawWindow f support S).sum := by
  apply sum_pos_of_mem _ (rawWindow_nonneg f support S hf) (f ((S : α) - (i0 : α))) _ hpos
  have h := rawWindow_get f support S i0 hi0
  rw [evaluate_inside f support _ (le_trans (absv_sample_le S i0 hi0) hS)] at h
  exact List.mem_of_getElem? h
end table

end TV.Filter
