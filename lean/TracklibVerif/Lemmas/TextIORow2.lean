import TracklibVerif.Lemmas.TextIORow
/-! Assembly: `writeRow` then `readRow` (core only). -/
namespace TV.TextIO
open TV.ObsTime

/-- the fields of the data line of an observation, in column order, then the feature values -/
def rowFields (f : CsvFmt) (d : Nat) (pf : List Tok) (r : Row) (afs : List AFVal) : List Str :=
  cols f (fixedCoreS d r.x) (fixedCoreS d r.y) (if f.idU = -1 then none else some (fixedCoreS d r.z))
    (if f.idT = -1 then none else some (printTime pf r.t)) ++ afs.map afText

theorem strip_fixedWS (w d : Nat) (v : SNum) : strip (fixedWS w d v) = fixedCoreS d v := renderFixedS_eq w d v

theorem cols_ne_nil (f : CsvFmt) (E N : Str) (U T : Option Str) : cols f E N U T ≠ [] := by
  intro h
  have := cols_length f E N U T
  rw [h] at this
  unfold nSpecial at this
  simp at this
  omega

/-- the writer's data line is the join of the fields -/
theorem writeRow_eq (f : CsvFmt) (geo : Bool) (pf : List Tok) (naf : Nat) (r : Row) (afs : List AFVal)
    (hv : ValidIds f) (htime : f.idT ≠ -1 → TimeOK pf f.sep) :
    writeRow f geo pf (orderList f naf) r afs = .ok (joinChar f.sep (rowFields f (floatFmt geo).2 pf r afs)) := by
  unfold writeRow
  have hafs := afs_foldl f.sep afs []
  simp only [List.nil_append] at hafs
  rw [hafs]
  cases hg : floatFmt geo with
  | mk w d =>
    simp only
    rw [printInOrder_layout f hv naf _ _ _ _ _ (by split <;> simp_all) (by split <;> simp_all)]
    congr 1
    unfold rowFields
    have e : (afs.map (fun v => f.sep :: afText v)) = (afs.map afText).map (fun v => f.sep :: v) := by simp
    rw [e, joinChar_append_flatten _ _ _ (cols_ne_nil _ _ _ _ _)]
    congr 2
    simp only [strip_fixedWS]
    congr 1
    · split <;> simp [strip_fixedWS]
    · by_cases ht : f.idT = -1
      · simp [ht]
      · simp [ht, strip_printTime pf f.sep (htime ht)]

theorem intStr_numChar (i : Int) : ∀ c ∈ intStr i, numChar c = true := by
  intro c hc
  unfold intStr at hc
  unfold numChar
  split at hc
  · rcases List.mem_cons.1 hc with rfl | hc
    · decide
    · simp [natStr_digits _ c hc]
  · simp [natStr_digits _ c hc]

theorem intStr_ne_nil (i : Int) : intStr i ≠ [] := by
  unfold intStr
  split
  · simp
  · exact natStr_ne_nil _

/-- a non-empty string of number characters is a good field -/
theorem numField_ok (sep : Char) (hsep : numChar sep = false) (s : Str) (hne : s ≠ []) (h : ∀ c ∈ s, numChar c = true) :
    (s ≠ [] ∧ (∀ c, s.head? = some c → isWs c = false ∧ c ≠ '#') ∧ (∀ c, s.getLast? = some c → isWs c = false))
    ∧ sep ∉ s ∧ '\n' ∉ s := by
  refine ⟨⟨hne, ?_, ?_⟩, ?_, ?_⟩
  · intro c hc
    have := numChar_not_ws (h c (List.mem_of_mem_head? hc))
    exact ⟨this.1, this.2.1⟩
  · intro c hc
    exact (numChar_not_ws (h c (List.mem_of_getLast? hc))).1
  · intro hm
    rw [h sep hm] at hsep
    exact absurd hsep (by decide)
  · intro hm
    exact (numChar_not_ws (h _ hm)).2.2.1 rfl

/-- a text that survives as one field of a data line: not empty, no blank at either end, not starting with the comment
character, free of the separator and of the newline -/
def FieldOK (sep : Char) (s : Str) : Prop :=
  (s ≠ [] ∧ (∀ c, s.head? = some c → isWs c = false ∧ c ≠ '#') ∧ (∀ c, s.getLast? = some c → isWs c = false))
  ∧ sep ∉ s ∧ '\n' ∉ s

/-- what a feature value must satisfy to be written as one column: its text is a good field (always true of an `int`;
of a float when the separator is not a number character, see `afOK_int`, `afOK_dec`) -/
def AFOK (sep : Char) (v : AFVal) : Prop := FieldOK sep (afText v)

theorem afOK_int (sep : Char) (hsep : numChar sep = false) (i : Int) : AFOK sep (.int i) :=
  numField_ok _ hsep _ (intStr_ne_nil _) (intStr_numChar _)

theorem rowFields_ok (f : CsvFmt) (d : Nat) (pf : List Tok) (r : Row) (afs : List AFVal) (hv : ValidIds f)
    (hsep : numChar f.sep = false) (htime : f.idT ≠ -1 → TimeOK pf f.sep) (hafs : ∀ v ∈ afs, AFOK f.sep v) :
    ∀ s ∈ rowFields f d pf r afs,
      (s ≠ [] ∧ (∀ c, s.head? = some c → isWs c = false ∧ c ≠ '#') ∧ (∀ c, s.getLast? = some c → isWs c = false))
      ∧ f.sep ∉ s ∧ '\n' ∉ s := by
  intro s hs
  unfold rowFields at hs
  rcases List.mem_append.1 hs with hs | hs
  · have := mem_cols f hv _ _ _ _ (by split <;> simp_all) (by split <;> simp_all) s hs
    rcases this with rfl | rfl | h | h
    · exact numField_ok _ hsep _ (fixedCoreS_ne_nil _ _) (fixedCoreS_numChar _ _)
    · exact numField_ok _ hsep _ (fixedCoreS_ne_nil _ _) (fixedCoreS_numChar _ _)
    · split at h
      · simp at h
      · simp only [Option.some.injEq] at h
        subst h
        exact numField_ok _ hsep _ (fixedCoreS_ne_nil _ _) (fixedCoreS_numChar _ _)
    · split at h
      · simp at h
      · rename_i ht
        simp only [Option.some.injEq] at h
        subst h
        have hok := htime ht
        have ha := printTime_avoids pf f.sep hok hsep r.t
        exact ⟨⟨printTime_ne_nil pf f.sep hok r.t, (printTime_head_last pf f.sep hok r.t).1, (printTime_head_last pf f.sep hok r.t).2⟩,
          ha.1, ha.2.2.2⟩
  · simp only [List.mem_map] at hs
    obtain ⟨v, hv', rfl⟩ := hs
    exact hafs v hv'

/-- the data line of an observation -/
def rowLine (f : CsvFmt) (geo : Bool) (pf : List Tok) (r : Row) (afs : List AFVal) : Str :=
  joinChar f.sep (rowFields f (floatFmt geo).2 pf r afs)

/-- the observation as the reader returns it -/
def expRow (f : CsvFmt) (geo : Bool) (pf : List Tok) (r : Row) : RRow :=
  ⟨(r.x.toInt, (floatFmt geo).2), (r.y.toInt, (floatFmt geo).2),
    if f.idU = -1 then (0, 0) else (r.z.toInt, (floatFmt geo).2),
    if f.idT = -1 then epoch else project pf r.t⟩

/-- **T2 (data line)**: for a bijective column layout and a separator that is not a number character,
the line written for an observation is read back as that observation: coordinates equal to the
printed decimals, the timestamp reduced to the fields of the format. -/
theorem row_roundtrip_line (f : CsvFmt) (geo : Bool) (pf : List Tok) (naf : Nat) (r : Row) (afs : List AFVal)
    (hv : ValidIds f) (hsep : numChar f.sep = false) (hnl : f.sep ≠ '\n')
    (htime : f.idT ≠ -1 → TimeOK pf f.sep ∧ Fits r.t)
    (hnd : decTrunc (r.x.toInt, (floatFmt geo).2) ≠ noData ∧ decTrunc (r.y.toInt, (floatFmt geo).2) ≠ noData)
    (hafs : ∀ v ∈ afs, AFOK f.sep v) :
    writeRow f geo pf (orderList f naf) r afs = .ok (rowLine f geo pf r afs) ∧
      '\n' ∉ rowLine f geo pf r afs ∧ strip (rowLine f geo pf r afs) = rowLine f geo pf r afs ∧
      (∃ c cs, rowLine f geo pf r afs = c :: cs ∧ c ≠ '#') ∧
      readRow f pf (rowLine f geo pf r afs) = .ok (expRow f geo pf r) := by
  have htime' : f.idT ≠ -1 → TimeOK pf f.sep := fun h => (htime h).1
  unfold rowLine expRow
  refine ⟨writeRow_eq f geo pf naf r afs hv htime', ?_⟩
  generalize hd : (floatFmt geo).2 = d at *
  have hok := rowFields_ok f d pf r afs hv hsep htime' hafs
  have hne : rowFields f d pf r afs ≠ [] := by
    unfold rowFields
    intro h
    exact cols_ne_nil _ _ _ _ _ (List.append_eq_nil_iff.1 h).1
  have hline := joinChar_line f.sep _ hne (fun s hs => (hok s hs).1)
  refine ⟨?_, hline.1, hline.2, ?_⟩
  · intro hm
    rcases mem_joinChar hm with h | ⟨v, hv', hx⟩
    · exact hnl h.symm
    · exact (hok v hv').2.2 hx
  · have hfs : (splitOnChar f.sep (strip (joinChar f.sep (rowFields f d pf r afs)))).filter (fun s => !s.isEmpty)
        = rowFields f d pf r afs := by
      rw [hline.1, splitOnChar_joinChar _ _ hne (fun v hv' => (hok v hv').2.1)]
      apply List.filter_eq_self.2
      intro s hs
      have := (hok s hs).1.1
      cases s with
      | nil => exact absurd rfl this
      | cons _ _ => rfl
    have hl := cols_lookup f hv (fixedCoreS d r.x) (fixedCoreS d r.y) (if f.idU = -1 then none else some (fixedCoreS d r.z))
      (if f.idT = -1 then none else some (printTime pf r.t)) (afs.map afText)
    have hb := validB_bounds hv
    apply readRow_of_fields f pf _ _ hfs (fixedCoreS d r.x) (fixedCoreS d r.y) _ _ _ _ hl.1 hl.2.1
      (coordField_fixedCoreS _ _ _) (coordField_fixedCoreS _ _ _) hnd
    · by_cases hu : f.idU = -1
      · have : ¬ f.idU ≥ 0 := by omega
        simp [hu]
      · have hge : f.idU ≥ 0 := by rcases hb.2.2.1 with h | h <;> omega
        rw [if_pos hge, if_neg hu]
        refine ⟨fixedCoreS d r.z, ?_, coordField_fixedCoreS _ _ _⟩
        have := hl.2.2.1 hu
        simpa [hu, rowFields] using this
    · by_cases ht : f.idT = -1
      · simp [ht]
      · rw [if_pos ht, if_neg ht]
        refine ⟨printTime pf r.t, ?_, ?_⟩
        · have := hl.2.2.2 ht
          simpa [ht, rowFields] using this
        · have hok' := (htime ht)
          rw [strip_printTime pf f.sep hok'.1]
          have hq : (printTime pf r.t).filter (· ≠ '"') = printTime pf r.t := by
            apply List.filter_eq_self.2
            intro c hc
            have := (printTime_avoids pf f.sep hok'.1 hsep r.t).2.1
            simp only [ne_eq, decide_not, Bool.not_eq_eq_eq_not, Bool.not_true, decide_eq_false_iff_not]
            intro e; subst e; exact this hc
          rw [hq, readTimestamp_printTime pf hok'.1.lossless r.t hok'.2, applyCodes_epoch pf r.t hok'.1.lossless.1]

theorem row_roundtrip (f : CsvFmt) (geo : Bool) (pf : List Tok) (naf : Nat) (r : Row) (afs : List AFVal)
    (hv : ValidIds f) (hsep : numChar f.sep = false) (hnl : f.sep ≠ '\n')
    (htime : f.idT ≠ -1 → TimeOK pf f.sep ∧ Fits r.t)
    (hnd : decTrunc (r.x.toInt, (floatFmt geo).2) ≠ noData ∧ decTrunc (r.y.toInt, (floatFmt geo).2) ≠ noData)
    (hafs : ∀ v ∈ afs, AFOK f.sep v) :
    ∃ line, writeRow f geo pf (orderList f naf) r afs = .ok line ∧
      '\n' ∉ line ∧ strip line = line ∧ (∃ c cs, line = c :: cs ∧ c ≠ '#') ∧
      readRow f pf line = .ok ⟨(r.x.toInt, (floatFmt geo).2), (r.y.toInt, (floatFmt geo).2),
        if f.idU = -1 then (0, 0) else (r.z.toInt, (floatFmt geo).2),
        if f.idT = -1 then epoch else project pf r.t⟩ :=
  ⟨_, row_roundtrip_line f geo pf naf r afs hv hsep hnl htime hnd hafs⟩

/-! ### decidable forms of the hypotheses (for concrete formats) -/

instance (f : List Tok) : Decidable (FullDate f) := by unfold FullDate; exact inferInstance
instance (f : CsvFmt) : Decidable (ValidIds f) := by unfold ValidIds; exact inferInstance
instance (t : Stamp) : Decidable (Fits t) := by unfold Fits; exact inferInstance

/-- executable check of `TimeOK` -/
def timeOKb (pf : List Tok) (sep : Char) : Bool :=
  decide (Lossless pf) && !pf.isEmpty &&
  pf.all (fun tk => match tk with
    | Tok.lit c => c != sep && c != '"' && c != '#' && c != '\n'
    | _ => true) &&
  (match pf.head? with | some (Tok.lit c) => !isWs c | _ => true) &&
  (match pf.getLast? with | some (Tok.lit c) => !isWs c | _ => true)

theorem timeOK_of_b (pf : List Tok) (sep : Char) (h : timeOKb pf sep = true) : TimeOK pf sep := by
  unfold timeOKb at h
  simp only [Bool.and_eq_true, decide_eq_true_eq, Bool.not_eq_true', List.all_eq_true] at h
  obtain ⟨⟨⟨⟨h1, h2⟩, h3⟩, h4⟩, h5⟩ := h
  refine ⟨h1, ?_, ?_, ?_, ?_⟩
  · intro e; rw [e] at h2; simp at h2
  · intro c hc
    have := h3 _ hc
    simp only [bne_iff_ne, ne_eq, Bool.and_eq_true] at this
    exact ⟨this.1.1.1, this.1.1.2, this.1.2, this.2⟩
  · intro c hc
    rw [hc] at h4
    simpa using h4
  · intro c hc
    rw [hc] at h5
    simpa using h5

end TV.TextIO
