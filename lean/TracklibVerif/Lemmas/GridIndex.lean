import TracklibVerif.Lemmas.GridCells
/-! Invariants of the registration loop (`__addSegment`, `addFeature`, `__init__`) of `Model/Grid.lean`:
what is registered stays registered, every cell returned by `__cellsCrossSegment` for a processed segment holds
the feature number, the extent and the cell size never change, the grid keeps its shape. -/
namespace TV.Grid

/-- feature `d` is listed in `grid[i][j]` (Python indexing) -/
def Holds (g : Cells) (i j : Int) (d : Nat) : Prop := ∃ c, cellGet g i j = .ok c ∧ d ∈ c

theorem cellGet_ok_iff (g : Cells) (i j : Int) (c : List Nat) :
    cellGet g i j = .ok c ↔
      ∃ a row b, pyIdx g.length i = some a ∧ g[a]? = some row ∧ pyIdx row.length j = some b ∧ row[b]? = some c := by
  unfold cellGet
  cases h1 : pyIdx g.length i with
  | none => simp
  | some a =>
    cases h2 : g[a]? with
    | none => simp [h2]
    | some row =>
      cases h3 : pyIdx row.length j with
      | none => simp [h2, h3]
      | some b =>
        cases h4 : row[b]? with
        | none => simp [h2, h3, h4]
        | some c' => simp [h2, h3, h4]

theorem cellAppend_ok_iff (g g' : Cells) (i j : Int) (d : Nat) :
    cellAppend g i j d = .ok g' ↔
      ∃ a row b c, pyIdx g.length i = some a ∧ g[a]? = some row ∧ pyIdx row.length j = some b ∧ row[b]? = some c
        ∧ g' = g.set a (row.set b (c ++ [d])) := by
  unfold cellAppend
  cases h1 : pyIdx g.length i with
  | none => simp
  | some a =>
    cases h2 : g[a]? with
    | none => simp [h2]
    | some row =>
      cases h3 : pyIdx row.length j with
      | none => simp [h2, h3]
      | some b =>
        cases h4 : row[b]? with
        | none => simp [h2, h3, h4]
        | some c' =>
          simp only [h2, h3, h4]
          constructor
          · intro h; cases h; exact ⟨a, row, b, c', rfl, h2, h3, h4, rfl⟩
          · rintro ⟨a', row', b', c'', e1, e2, e3, e4, e5⟩
            cases e1
            rw [h2] at e2; cases e2
            rw [h3] at e3; cases e3
            rw [h4] at e4; cases e4
            rw [e5]

/-- shape of the grid: `csize` columns of `lsize` cells -/
def Shape (g : Cells) (cs ls : Nat) : Prop := g.length = cs ∧ ∀ row ∈ g, row.length = ls

theorem cellAppend_spec (g g' : Cells) (i j : Int) (d : Nat) (h : cellAppend g i j d = .ok g') :
    Holds g' i j d ∧ (∀ i' j' d', Holds g i' j' d' → Holds g' i' j' d') ∧
    (∀ cs ls, Shape g cs ls → Shape g' cs ls) := by
  obtain ⟨a, row, b, c, h1, h2, h3, h4, rfl⟩ := (cellAppend_ok_iff g g' i j d).mp h
  have ha : a < g.length := (List.getElem?_eq_some_iff.mp h2).1
  have hb : b < row.length := (List.getElem?_eq_some_iff.mp h4).1
  refine ⟨?_, ?_, ?_⟩
  · refine ⟨c ++ [d], ?_, by simp⟩
    rw [cellGet_ok_iff]
    refine ⟨a, row.set b (c ++ [d]), b, by simpa using h1, by simp [ha], by simpa using h3, by simp [hb]⟩
  · rintro i' j' d' ⟨c', hc', hd'⟩
    obtain ⟨a', row', b', k1, k2, k3, k4⟩ := (cellGet_ok_iff g i' j' c').mp hc'
    by_cases haa : a = a'
    · subst haa
      rw [h2] at k2; cases k2
      by_cases hbb : b = b'
      · subst hbb
        rw [h4] at k4; cases k4
        refine ⟨c ++ [d], ?_, by simp [hd']⟩
        rw [cellGet_ok_iff]
        exact ⟨a, row.set b (c ++ [d]), b, by simpa using k1, by simp [ha], by simpa using k3, by simp [hb]⟩
      · refine ⟨c', ?_, hd'⟩
        rw [cellGet_ok_iff]
        refine ⟨a, row.set b (c ++ [d]), b', by simpa using k1, by simp [ha], by simpa using k3, ?_⟩
        rw [List.getElem?_set_ne hbb]; exact k4
    · refine ⟨c', ?_, hd'⟩
      rw [cellGet_ok_iff]
      refine ⟨a', row', b', by simpa using k1, ?_, k3, k4⟩
      rw [List.getElem?_set_ne haa]; exact k2
  · rintro cs ls ⟨s1, s2⟩
    refine ⟨by simpa using s1, ?_⟩
    intro r hr
    rcases List.mem_or_eq_of_mem_set hr with h' | h'
    · exact s2 r h'
    · subst h'
      have : row ∈ g := List.mem_of_getElem? h2
      simpa using s2 row this

section index
variable {α : Type}

/-- the parts of the index that registration never touches -/
def Same (ix ix' : Index α) : Prop :=
  ix'.xmin = ix.xmin ∧ ix'.xmax = ix.xmax ∧ ix'.ymin = ix.ymin ∧ ix'.ymax = ix.ymax ∧
  ix'.csize = ix.csize ∧ ix'.lsize = ix.lsize ∧ ix'.dX = ix.dX ∧ ix'.dY = ix.dY

/-- `inventaire` only lists what the grid lists -/
def Inv (ix : Index α) : Prop := ∀ i j d, (i, j, d) ∈ ix.inv → Holds ix.grid i j d

def WF (ix : Index α) : Prop := Inv ix ∧ Shape ix.grid ix.csize.toNat ix.lsize.toNat

/-- `ix'` is `ix` after some registrations -/
def Ext (ix ix' : Index α) : Prop :=
  Same ix ix' ∧ ∀ i j d, Holds ix.grid i j d → Holds ix'.grid i j d

theorem Ext.refl (ix : Index α) : Ext ix ix := ⟨⟨rfl, rfl, rfl, rfl, rfl, rfl, rfl, rfl⟩, fun _ _ _ h => h⟩

theorem Ext.trans {a b c : Index α} (h1 : Ext a b) (h2 : Ext b c) : Ext a c := by
  obtain ⟨⟨a1, a2, a3, a4, a5, a6, a7, a8⟩, m1⟩ := h1
  obtain ⟨⟨b1, b2, b3, b4, b5, b6, b7, b8⟩, m2⟩ := h2
  exact ⟨⟨b1.trans a1, b2.trans a2, b3.trans a3, b4.trans a4, b5.trans a5, b6.trans a6, b7.trans a7, b8.trans a8⟩,
    fun i j d h => m2 i j d (m1 i j d h)⟩

theorem registerCell_spec (ix ix' : Index α) (d : Nat) (cell : Int × Int) (hw : WF ix)
    (h : registerCell ix d cell = .ok ix') : Ext ix ix' ∧ WF ix' ∧ Holds ix'.grid cell.1 cell.2 d := by
  unfold registerCell at h
  simp only at h
  by_cases g1 : cell.1 > ix.csize
  · simp [g1] at h
  by_cases g2 : cell.2 > ix.lsize
  · simp [g1, g2] at h
  simp only [g1, g2, if_false] at h
  cases hg : cellGet ix.grid cell.1 cell.2 with
  | error e => simp [hg] at h
  | ok c =>
    simp only [hg] at h
    by_cases k1 : c.contains d = true
    · simp only [k1, ↓reduceIte, Except.ok.injEq] at h
      subst h
      exact ⟨Ext.refl _, hw, c, hg, List.contains_iff_mem.mp k1⟩
    by_cases k2 : ix.inv.contains (cell.1, cell.2, d) = true
    · simp only [k1, k2, Bool.false_eq_true, ↓reduceIte, Except.ok.injEq] at h
      subst h
      exact ⟨Ext.refl _, hw, hw.1 _ _ _ (List.contains_iff_mem.mp k2)⟩
    simp only [k1, k2, Bool.false_eq_true, ↓reduceIte] at h
    cases ha : cellAppend ix.grid cell.1 cell.2 d with
    | error e => simp [ha] at h
    | ok g =>
      simp only [ha, Except.ok.injEq] at h
      subst h
      obtain ⟨p1, p2, p3⟩ := cellAppend_spec _ _ _ _ _ ha
      refine ⟨⟨⟨rfl, rfl, rfl, rfl, rfl, rfl, rfl, rfl⟩, p2⟩, ⟨?_, p3 _ _ hw.2⟩, p1⟩
      intro i j d' hm
      simp only [List.mem_append, List.mem_singleton, Prod.mk.injEq] at hm
      rcases hm with hm | ⟨rfl, rfl, rfl⟩
      · exact p2 _ _ _ (hw.1 _ _ _ hm)
      · exact p1

theorem registerCells_spec (d : Nat) (cells : List (Int × Int)) (ix ix' : Index α) (hw : WF ix)
    (h : registerCells ix d cells = .ok ix') :
    Ext ix ix' ∧ WF ix' ∧ ∀ cell ∈ cells, Holds ix'.grid cell.1 cell.2 d := by
  induction cells generalizing ix with
  | nil =>
    simp only [registerCells, Except.ok.injEq] at h
    subst h
    exact ⟨Ext.refl _, hw, by simp⟩
  | cons cell rest ih =>
    unfold registerCells at h
    cases h1 : registerCell ix d cell with
    | error e => simp [h1] at h
    | ok ix1 =>
      simp only [h1] at h
      obtain ⟨e1, w1, r1⟩ := registerCell_spec ix ix1 d cell hw h1
      obtain ⟨e2, w2, r2⟩ := ih ix1 w1 h
      refine ⟨e1.trans e2, w2, ?_⟩
      intro c hc
      rcases List.mem_cons.mp hc with rfl | hc
      · exact e2.2 _ _ _ r1
      · exact r2 c hc

end index

section scalar
variable {α : Type} [Field α] [LinearOrder α] [IsStrictOrderedRing α]

omit [IsStrictOrderedRing α] in
theorem getCell_same {ix ix' : Index α} (h : Same ix ix') (p : α × α) : getCell ix' p = getCell ix p := by
  obtain ⟨a1, a2, a3, a4, _, _, a7, a8⟩ := h
  unfold getCell
  rw [a1, a2, a3, a4, a7, a8]

/-- both cell sides pass Python's `!= 0` (no ZeroDivisionError in `__getCell`) -/
def NZ (ix : Index α) : Prop := isZero ix.dX = false ∧ isZero ix.dY = false

omit [IsStrictOrderedRing α] in
theorem NZ_same {ix ix' : Index α} (h : Same ix ix') : NZ ix' ↔ NZ ix := by
  obtain ⟨_, _, _, _, _, _, a7, a8⟩ := h
  unfold NZ
  rw [a7, a8]

/-- the fractional indices of every point of the extent are at most the number of columns / rows (true of every
built index in exact arithmetic: the cells tile the extent) -/
def Bounded (ix : Index α) : Prop :=
  ∀ p c, getCell ix p = some c → c.1 ≤ ((ix.csize : Int) : α) ∧ c.2 ≤ ((ix.lsize : Int) : α)

omit [IsStrictOrderedRing α] in
theorem Bounded.same {ix ix' : Index α} (h : Bounded ix) (hs : Same ix ix') : Bounded ix' := by
  intro p c hp
  rw [getCell_same hs] at hp
  obtain ⟨_, _, _, _, e5, e6, _, _⟩ := hs
  rw [e5, e6]
  exact h p c hp

omit [Field α] [IsStrictOrderedRing α] in
theorem pyMin_of_le (a b : α) (h : a ≤ b) : pyMin a b = a := by
  unfold pyMin
  rw [if_neg (not_lt.mpr h)]

omit [IsStrictOrderedRing α] in
/-- when `__getCell` returns (on an index whose fractional indices are bounded), it returns `getCell` -/
theorem getCellR_ok (ix : Index α) (hb : Bounded ix) (p : α × α) (o : Option (α × α)) (h : getCellR ix p = .ok o) :
    o = getCell ix p := by
  cases hg : getCell ix p with
  | none =>
    unfold getCell at hg
    unfold getCellR at h
    split_ifs at h hg <;> first | cases h; rfl | cases hg
  | some c =>
    obtain ⟨b1, b2⟩ := hb p c hg
    unfold getCell at hg
    unfold getCellR at h
    split_ifs at h hg
    all_goals first
      | (cases hg; cases h; rw [pyMin_of_le _ _ b1, pyMin_of_le _ _ b2])
      | cases h

omit [IsStrictOrderedRing α] in
/-- with non-zero cell sides and bounded fractional indices `__getCell` returns `getCell`: its `min` is the identity -/
theorem getCellR_of_nz (ix : Index α) (hz : NZ ix) (hb : Bounded ix) (p : α × α) : getCellR ix p = .ok (getCell ix p) := by
  cases hg : getCell ix p with
  | none =>
    unfold getCell at hg
    unfold getCellR
    split_ifs at hg ⊢ <;> first | rfl | cases hg
  | some c =>
    obtain ⟨b1, b2⟩ := hb p c hg
    unfold getCell at hg
    unfold getCellR
    rw [hz.1, hz.2]
    simp only [Bool.false_eq_true, if_false]
    split_ifs at hg ⊢
    cases hg
    rw [pyMin_of_le _ _ b1, pyMin_of_le _ _ b2]

omit [IsStrictOrderedRing α] in
/-- `__getCell` answered for a point inside the extent: the cell sides are non-zero -/
theorem nz_of_getCellR_some (ix : Index α) (p c : α × α) (h : getCellR ix p = .ok (some c)) : NZ ix := by
  unfold getCellR at h
  unfold NZ
  split_ifs at h with h1 h2 h3 h4
  all_goals first
    | exact ⟨by simpa using h3, by simpa using h4⟩
    | cases h

omit [IsStrictOrderedRing α] in
/-- `__getCell` raises exactly for a point inside the extent of an index with a zero cell side -/
theorem getCellR_error (ix : Index α) (p c : α × α) (hp : getCell ix p = some c) (hz : ¬ NZ ix) :
    getCellR ix p = .error .zerodiv := by
  unfold getCell at hp
  unfold getCellR
  unfold NZ at hz
  split_ifs at hp ⊢ with h1 h2 h3 h4
  · rfl
  · rfl
  · exfalso; apply hz; exact ⟨by simpa using h3, by simpa using h4⟩

/-- all consecutive pairs of a list -/
def Consec {β : Type} : List β → List (β × β)
  | [] => []
  | [_] => []
  | a :: b :: rest => (a, b) :: Consec (b :: rest)

/-- the segments `addFeature` processes when every vertex is inside the extent: every consecutive pair,
starting from the loop-carried `coord1` -/
theorem addFeatureLoop_spec (fl : α → Int) (num : Nat) (track : List (α × α)) (ix ix' : Index α) (prev : Option (α × α))
    (hw : WF ix) (hb : Bounded ix) (hin : ∀ p ∈ prev.toList ++ track, getCell ix p ≠ none)
    (h : addFeatureLoop fl num ix prev track = .ok ix') :
    Ext ix ix' ∧ WF ix' ∧ (Consec (prev.toList ++ track) ≠ [] → NZ ix) ∧
    ∀ A B, (A, B) ∈ Consec (prev.toList ++ track) → ∀ pA pB, getCell ix A = some pA → getCell ix B = some pB →
      ∀ cell ∈ cellsCross fl ix.csize ix.lsize pA pB, Holds ix'.grid cell.1 cell.2 num := by
  induction track generalizing ix prev with
  | nil =>
    cases prev <;> (simp only [addFeatureLoop, Except.ok.injEq] at h; subst h; exact ⟨Ext.refl _, hw, by simp [Consec], by simp [Consec]⟩)
  | cons c2 rest ih =>
    cases prev with
    | none =>
      simp only [addFeatureLoop] at h
      have := ih ix (some c2) hw hb (by simpa using hin) h
      simpa using this
    | some c1 =>
      have hc1 : getCell ix c1 ≠ none := hin c1 (by simp)
      have hc2 : getCell ix c2 ≠ none := hin c2 (by simp)
      obtain ⟨p1, hp1⟩ := Option.ne_none_iff_exists'.mp hc1
      obtain ⟨p2, hp2⟩ := Option.ne_none_iff_exists'.mp hc2
      have hz : NZ ix := by
        by_contra hz
        simp [addFeatureLoop, getCellR_error ix c1 p1 hp1 hz] at h
      have hr1 := getCellR_of_nz ix hz hb c1
      have hr2 := getCellR_of_nz ix hz hb c2
      rw [hp1] at hr1
      rw [hp2] at hr2
      simp only [addFeatureLoop, hr1, hr2] at h
      cases hs : addSegment fl ix p1 p2 num with
      | error e => simp [hs] at h
      | ok ix1 =>
        simp only [hs] at h
        obtain ⟨e1, w1, r1⟩ := registerCells_spec num _ ix ix1 hw hs
        have hin1 : ∀ p ∈ (some c2).toList ++ rest, getCell ix1 p ≠ none := by
          intro p hp
          rw [getCell_same e1.1]
          apply hin
          simp only [Option.toList_some, List.singleton_append, List.mem_cons] at hp ⊢
          exact Or.inr hp
        obtain ⟨e2, w2, _, r2⟩ := ih ix1 (some c2) w1 (hb.same e1.1) hin1 h
        refine ⟨e1.trans e2, w2, fun _ => hz, ?_⟩
        intro A B hAB pA pB hA hB cell hcell
        simp only [Option.toList_some, List.singleton_append, Consec, List.mem_cons, Prod.mk.injEq] at hAB
        rcases hAB with ⟨rfl, rfl⟩ | hAB
        · rw [hp1] at hA; cases hA
          rw [hp2] at hB; cases hB
          exact e2.2 _ _ _ (r1 cell hcell)
        · exact r2 A B (by simpa using hAB) pA pB (by rw [getCell_same e1.1]; exact hA)
            (by rw [getCell_same e1.1]; exact hB) cell (by rw [e1.1.2.2.2.2.1, e1.1.2.2.2.2.2.1]; exact hcell)

/-- registration loop of the constructor: feature `num0 + k` is the `k`-th track -/
theorem addFeatures_spec (fl : α → Int) (feats : List (List (α × α))) (ix ix' : Index α) (num0 : Nat)
    (hw : WF ix) (hb : Bounded ix) (hin : ∀ t ∈ feats, ∀ p ∈ t, getCell ix p ≠ none)
    (h : addFeatures fl ix num0 feats = .ok ix') :
    Ext ix ix' ∧ WF ix' ∧ (∀ t ∈ feats, Consec t ≠ [] → NZ ix) ∧
    ∀ k t, feats[k]? = some t → ∀ A B, (A, B) ∈ Consec t → ∀ pA pB, getCell ix A = some pA → getCell ix B = some pB →
      ∀ cell ∈ cellsCross fl ix.csize ix.lsize pA pB, Holds ix'.grid cell.1 cell.2 (num0 + k) := by
  induction feats generalizing ix num0 with
  | nil =>
    simp only [addFeatures, Except.ok.injEq] at h
    subst h
    exact ⟨Ext.refl _, hw, by simp, by simp⟩
  | cons t rest ih =>
    unfold addFeatures at h
    cases h1 : addFeature fl ix t num0 with
    | error e => simp [h1] at h
    | ok ix1 =>
      simp only [h1] at h
      obtain ⟨e1, w1, z1, r1⟩ := addFeatureLoop_spec fl num0 t ix ix1 none hw hb
        (by intro p hp; exact hin t (by simp) p (by simpa using hp)) h1
      have hin1 : ∀ t' ∈ rest, ∀ p ∈ t', getCell ix1 p ≠ none := by
        intro t' ht' p hp
        rw [getCell_same e1.1]
        exact hin t' (List.mem_cons_of_mem _ ht') p hp
      obtain ⟨e2, w2, z2, r2⟩ := ih ix1 (num0 + 1) w1 (hb.same e1.1) hin1 h
      refine ⟨e1.trans e2, w2, ?_, ?_⟩
      · intro t' ht' hne
        rcases List.mem_cons.mp ht' with rfl | ht'
        · exact z1 (by simpa using hne)
        · exact (NZ_same e1.1).mp (z2 t' ht' hne)
      intro k t' hk A B hAB pA pB hA hB cell hcell
      cases k with
      | zero =>
        simp only [List.getElem?_cons_zero, Option.some.injEq] at hk
        subst hk
        exact e2.2 _ _ _ (r1 A B (by simpa using hAB) pA pB hA hB cell hcell)
      | succ k =>
        simp only [List.getElem?_cons_succ] at hk
        have := r2 k t' hk A B hAB pA pB (by rw [getCell_same e1.1]; exact hA) (by rw [getCell_same e1.1]; exact hB) cell
          (by rw [e1.1.2.2.2.2.1, e1.1.2.2.2.2.2.1]; exact hcell)
        have e : num0 + 1 + k = num0 + (k + 1) := by omega
        rw [e] at this
        exact this

end scalar
end TV.Grid
