import TracklibVerif.Model.SplitTrack
import TracklibVerif.Lemmas.SplitVal
import TracklibVerif.Lemmas.SplitUid
/-! Helper lemmas for the front end of `split(track, <feature name>)` (`Model/SplitTrack.lean`). -/
namespace TV.Split
variable {α : Type}

/-- the marker of observation `i` as `split()` reads it from the column `col` -/
def colMark (isOne : Option α → Bool) (col : Col α) (i : Nat) : Bool := isOne ((col[i]?).getD none)

theorem marked_eq_tag (isOne : Option α → Bool) (t : FTrack α) (source : String) (col : Col α)
    (hg : t.get source = some col) :
    t.marked isOne source = some (tag (colMark isOne col) (List.range t.size)) := by
  simp [FTrack.marked, hg, tag, colMark]

theorem splitTrack_of_get (isOne : Option α → Bool) (t : FTrack α) (source : String) (col : Col α)
    (hg : t.get source = some col) :
    splitTrack isOne t source = .ok (split (tag (colMark isOne col) (List.range t.size))) := by
  unfold splitTrack
  by_cases hs : t.size = 0
  · simp [hs, tag, split, go]
  · simp [hs, marked_eq_tag isOne t source col hg]

theorem splitTrackU_of_get (isOne : Option α → Bool) (short keepTail : List Nat → Bool) (t : FTrack α) (source : String)
    (col : Col α) (hg : t.get source = some col) :
    splitTrackU isOne short keepTail t source = .ok (splitU short keepTail (tag (colMark isOne col) (List.range t.size))) := by
  unfold splitTrackU
  by_cases hs : t.size = 0
  · simp [hs, tag, splitU, goU]
  · simp [hs, marked_eq_tag isOne t source col hg]

theorem lookup_cons_self {γ : Type} (k : String) (v : γ) (r : List (String × γ)) : ((k, v) :: r).lookup k = some v := by
  simp [List.lookup]

/-- the marker column written by `segmentation()` (the integers 1 / 0), read back with `== 1` -/
theorem colMark_markers [OfNat α 0] [OfNat α 1] (isOne : Option α → Bool) (h1 : isOne (some 1) = true)
    (h0 : isOne (some 0) = false) (hn : isOne none = false) (bs : List Bool) :
    colMark isOne (bs.map (fun b => some (if b then (1 : α) else 0))) = fun i => (bs[i]?).getD false := by
  funext i
  simp only [colMark, List.getElem?_map]
  cases h : bs[i]? with
  | none => simpa using hn
  | some b => cases b <;> simpa using (by assumption)

theorem map_ok_length {γ : Type} {ε : Type} {δ : Type} (f : γ → Except ε δ) (rows : List γ) (bs : List δ)
    (h : rows.map f = bs.map Except.ok) : bs.length = rows.length := by
  have := congrArg List.length h
  simpa using this.symm
end TV.Split
