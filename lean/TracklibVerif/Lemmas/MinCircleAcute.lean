import TracklibVerif.Lemmas.MinCircle
set_option linter.unusedSectionVars false
/-! `__circle(p1, p2, p3)` with no candidate (no angle of the triangle is obtuse): the circle through the three points is the
smallest disc containing them — the circumcentre is a convex combination of the three points. -/
namespace TV.MinCircle
variable {α : Type} [Field α] [LinearOrder α] [IsStrictOrderedRing α]

/-- polynomial core, coordinates relative to `p1`: `b = p2 - p1`, `c = p3 - p1`, `w` = centre of the competitor, `s` its
squared radius; `U / (2 D)` is the circumcentre -/
theorem acute_poly (bx by' cx cy wx wy s : α)
    (a1 : 0 ≤ bx * cx + by' * cy) (a2 : 0 ≤ bx * bx + by' * by' - (bx * cx + by' * cy))
    (a3 : 0 ≤ cx * cx + cy * cy - (bx * cx + by' * cy))
    (e1 : wx * wx + wy * wy ≤ s) (e2 : (bx - wx) * (bx - wx) + (by' - wy) * (by' - wy) ≤ s)
    (e3 : (cx - wx) * (cx - wx) + (cy - wy) * (cy - wy) ≤ s) :
    (cy * (bx * bx + by' * by') - by' * (cx * cx + cy * cy)) * (cy * (bx * bx + by' * by') - by' * (cx * cx + cy * cy))
      + (bx * (cx * cx + cy * cy) - cx * (bx * bx + by' * by')) * (bx * (cx * cx + cy * cy) - cx * (bx * bx + by' * by'))
      ≤ 4 * ((bx * cy - by' * cx) * (bx * cy - by' * cx)) * s := by
  have hB : 0 ≤ bx * bx + by' * by' := add_nonneg (mul_self_nonneg _) (mul_self_nonneg _)
  have hC : 0 ≤ cx * cx + cy * cy := add_nonneg (mul_self_nonneg _) (mul_self_nonneg _)
  have hBC : 0 ≤ (bx * bx + by' * by') + (cx * cx + cy * cy) - 2 * (bx * cx + by' * cy) := by
    have : (bx * bx + by' * by') + (cx * cx + cy * cy) - 2 * (bx * cx + by' * cy)
        = (bx - cx) * (bx - cx) + (by' - cy) * (by' - cy) := by ring
    rw [this]; exact add_nonneg (mul_self_nonneg _) (mul_self_nonneg _)
  have na := mul_nonneg a1 hBC
  have nb := mul_nonneg hC a2
  have ng := mul_nonneg hB a3
  have l1 := mul_le_mul_of_nonneg_left e1 na
  have l2 := mul_le_mul_of_nonneg_left e2 nb
  have l3 := mul_le_mul_of_nonneg_left e3 ng
  have sq := add_nonneg
    (mul_self_nonneg (2 * (bx * cy - by' * cx) * wx - (cy * (bx * bx + by' * by') - by' * (cx * cx + cy * cy))))
    (mul_self_nonneg (2 * (bx * cy - by' * cx) * wy - (bx * (cx * cx + cy * cy) - cx * (bx * bx + by' * by'))))
  linear_combination 2 * l1 + 2 * l2 + 2 * l3 + sq

theorem cands3_nil {p1 p2 p3 : Pt α} (h : cands3 p1 p2 p3 = []) :
    inside (circle2 p1 p2) p3 = false ∧ inside (circle2 p2 p3) p1 = false ∧ inside (circle2 p1 p3) p2 = false := by
  unfold cands3 at h
  simp only [List.append_eq_nil_iff] at h
  obtain ⟨⟨h1, h2⟩, h3⟩ := h
  refine ⟨?_, ?_, ?_⟩
  · by_cases hc : inside (circle2 p1 p2) p3 = true
    · rw [if_pos hc] at h1; exact absurd h1 (List.cons_ne_nil _ _)
    · exact Bool.eq_false_iff.mpr hc
  · by_cases hc : inside (circle2 p2 p3) p1 = true
    · rw [if_pos hc] at h2; exact absurd h2 (List.cons_ne_nil _ _)
    · exact Bool.eq_false_iff.mpr hc
  · by_cases hc : inside (circle2 p1 p3) p2 = true
    · rw [if_pos hc] at h3; exact absurd h3 (List.cons_ne_nil _ _)
    · exact Bool.eq_false_iff.mpr hc

theorem sq_div_add (a b d : α) (hd : d ≠ 0) : a / d * (a / d) + b / d * (b / d) = (a * a + b * b) / (d * d) := by
  field_simp

/-- no candidate: the circle through the three points is the smallest disc containing them -/
theorem circum_minimal (p1 p2 p3 : Pt α) (hdet : (p2.x - p1.x) * (p3.y - p1.y) - (p3.x - p1.x) * (p2.y - p1.y) ≠ 0)
    (hnil : cands3 p1 p2 p3 = []) (c' : Circ α) (h1 : Enc c' p1) (h2 : Enc c' p2) (h3 : Enc c' p3) :
    (circum p1 p2 p3).r2 ≤ c'.r2 := by
  obtain ⟨i12, i23, i13⟩ := cands3_nil hnil
  simp only [inside, decide_eq_false_iff_not, not_lt] at i12 i23 i13
  have a3 : 0 ≤ (p3.x - p1.x) * (p3.x - p1.x) + (p3.y - p1.y) * (p3.y - p1.y)
      - ((p2.x - p1.x) * (p3.x - p1.x) + (p2.y - p1.y) * (p3.y - p1.y)) := by
    have id : d2 p3.x p3.y (circle2 p1 p2).cx (circle2 p1 p2).cy - (circle2 p1 p2).r2
        = (p3.x - p1.x) * (p3.x - p1.x) + (p3.y - p1.y) * (p3.y - p1.y)
          - ((p2.x - p1.x) * (p3.x - p1.x) + (p2.y - p1.y) * (p3.y - p1.y)) := by
      simp only [circle2, d2]; ring
    linarith
  have a1 : 0 ≤ (p2.x - p1.x) * (p3.x - p1.x) + (p2.y - p1.y) * (p3.y - p1.y) := by
    have id : d2 p1.x p1.y (circle2 p2 p3).cx (circle2 p2 p3).cy - (circle2 p2 p3).r2
        = (p2.x - p1.x) * (p3.x - p1.x) + (p2.y - p1.y) * (p3.y - p1.y) := by
      simp only [circle2, d2]; ring
    linarith
  have a2 : 0 ≤ (p2.x - p1.x) * (p2.x - p1.x) + (p2.y - p1.y) * (p2.y - p1.y)
      - ((p2.x - p1.x) * (p3.x - p1.x) + (p2.y - p1.y) * (p3.y - p1.y)) := by
    have id : d2 p2.x p2.y (circle2 p1 p3).cx (circle2 p1 p3).cy - (circle2 p1 p3).r2
        = (p2.x - p1.x) * (p2.x - p1.x) + (p2.y - p1.y) * (p2.y - p1.y)
          - ((p2.x - p1.x) * (p3.x - p1.x) + (p2.y - p1.y) * (p3.y - p1.y)) := by
      simp only [circle2, d2]; ring
    linarith
  have e1 : (c'.cx - p1.x) * (c'.cx - p1.x) + (c'.cy - p1.y) * (c'.cy - p1.y) ≤ c'.r2 := h1
  have e2 : ((p2.x - p1.x) - (c'.cx - p1.x)) * ((p2.x - p1.x) - (c'.cx - p1.x))
      + ((p2.y - p1.y) - (c'.cy - p1.y)) * ((p2.y - p1.y) - (c'.cy - p1.y)) ≤ c'.r2 := by
    have : ((p2.x - p1.x) - (c'.cx - p1.x)) * ((p2.x - p1.x) - (c'.cx - p1.x))
      + ((p2.y - p1.y) - (c'.cy - p1.y)) * ((p2.y - p1.y) - (c'.cy - p1.y)) = d2 p2.x p2.y c'.cx c'.cy := by
      simp only [d2]; ring
    rw [this]; exact h2
  have e3 : ((p3.x - p1.x) - (c'.cx - p1.x)) * ((p3.x - p1.x) - (c'.cx - p1.x))
      + ((p3.y - p1.y) - (c'.cy - p1.y)) * ((p3.y - p1.y) - (c'.cy - p1.y)) ≤ c'.r2 := by
    have : ((p3.x - p1.x) - (c'.cx - p1.x)) * ((p3.x - p1.x) - (c'.cx - p1.x))
      + ((p3.y - p1.y) - (c'.cy - p1.y)) * ((p3.y - p1.y) - (c'.cy - p1.y)) = d2 p3.x p3.y c'.cx c'.cy := by
      simp only [d2]; ring
    rw [this]; exact h3
  have poly := acute_poly _ _ _ _ _ _ _ a1 a2 a3 e1 e2 e3
  have hD : (p2.x - p1.x) * (p3.y - p1.y) - (p2.y - p1.y) * (p3.x - p1.x) ≠ 0 := by
    intro h0; apply hdet; linarith
  have hd : (2 : α) * ((p2.x - p1.x) * (p3.y - p1.y) - (p2.y - p1.y) * (p3.x - p1.x)) ≠ 0 :=
    mul_ne_zero two_ne_zero hD
  have hpos : 0 < (2 : α) * ((p2.x - p1.x) * (p3.y - p1.y) - (p2.y - p1.y) * (p3.x - p1.x))
      * (2 * ((p2.x - p1.x) * (p3.y - p1.y) - (p2.y - p1.y) * (p3.x - p1.x))) :=
    lt_of_le_of_ne (mul_self_nonneg _) (Ne.symm (mul_ne_zero hd hd))
  simp only [circum]
  rw [sq_div_add _ _ _ hd, div_le_iff₀ hpos]
  linear_combination poly

/-! ## inputs of one and two points, every draw sequence -/

theorem inside_zero (c : Circ α) (h : c.r2 = 0) (q : Pt α) : inside c q = false := by
  unfold inside
  apply decide_eq_false
  rw [not_lt, h]
  unfold d2
  exact add_nonneg (mul_self_nonneg _) (mul_self_nonneg _)

theorem mincircle_single (eps : α) (draw : Nat → Nat) (p : Pt α) :
    (minCircleOfPoints eps draw [p]).1 = .circ (circle1 p) := by
  have h0 := inside_zero (⟨0, 0, 0⟩ : Circ α) rfl p
  simp [minCircleOfPoints, welzl, base, h0, Nat.mod_one]

theorem mincircle_pair (eps : α) (draw : Nat → Nat) (p q : Pt α) (hne : ptEq eps p q = false) (hne' : ptEq eps q p = false) :
    (minCircleOfPoints eps draw [p, q]).1 = .circ (circle2 p q) ∨ (minCircleOfPoints eps draw [p, q]).1 = .circ (circle2 q p) := by
  have h0 : ∀ r : Pt α, inside (⟨0, 0, 0⟩ : Circ α) r = false := fun r => inside_zero _ rfl r
  have h1 : ∀ a r : Pt α, inside (circle1 a) r = false := fun a r => inside_zero _ rfl r
  rcases Nat.mod_two_eq_zero_or_one (draw 0) with h | h
  · left
    simp [minCircleOfPoints, welzl, base, h0, h, h1, hne', Nat.mod_one]
  · right
    simp [minCircleOfPoints, welzl, base, h0, h, h1, hne, Nat.mod_one]

end TV.MinCircle
