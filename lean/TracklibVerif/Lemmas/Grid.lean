import Mathlib.Algebra.Order.Field.Basic
import Mathlib.Tactic.Ring
import Mathlib.Tactic.Linarith
import Mathlib.Tactic.FieldSimp
import Mathlib.Tactic.LinearCombination
namespace TV.Grid
variable {α : Type} [Field α] [LinearOrder α] [IsStrictOrderedRing α]

/-- affine zero between two values ⇒ the values do not have the same strict sign -/
theorem straddle (u v t : α) (h0 : 0 ≤ t) (h1 : t ≤ 1) (h : (1 - t) * u + t * v = 0) : u * v ≤ 0 := by
  by_contra hc
  have hc : 0 < u * v := lt_of_not_ge hc
  rcases lt_trichotomy u 0 with hu | hu | hu
  · have hv : v < 0 := by
      by_contra hv; have hv : 0 ≤ v := le_of_not_gt hv
      have : u * v ≤ 0 := mul_nonpos_of_nonpos_of_nonneg (le_of_lt hu) hv
      linarith
    have h1' : 0 ≤ 1 - t := by linarith
    have a1 : (1 - t) * u ≤ 0 := mul_nonpos_of_nonneg_of_nonpos h1' (le_of_lt hu)
    have a2 : t * v ≤ 0 := mul_nonpos_of_nonneg_of_nonpos h0 (le_of_lt hv)
    have e1 : (1 - t) * u = 0 := by linarith
    have e2 : t * v = 0 := by linarith
    rcases mul_eq_zero.mp e1 with h' | h'
    · have : t = 1 := by linarith
      rw [this] at e2; simp at e2; linarith
    · linarith
  · rw [hu] at hc; simp at hc
  · have hv : 0 < v := by
      by_contra hv; have hv : v ≤ 0 := le_of_not_gt hv
      have : u * v ≤ 0 := mul_nonpos_of_nonneg_of_nonpos (le_of_lt hu) hv
      linarith
    have h1' : 0 ≤ 1 - t := by linarith
    have a1 : 0 ≤ (1 - t) * u := mul_nonneg h1' (le_of_lt hu)
    have a2 : 0 ≤ t * v := mul_nonneg h0 (le_of_lt hv)
    have e1 : (1 - t) * u = 0 := by linarith
    have e2 : t * v = 0 := by linarith
    rcases mul_eq_zero.mp e1 with h' | h'
    · have : t = 1 := by linarith
      rw [this] at e2; simp at e2; linarith
    · linarith

/-- cartesienne/__eval of the code -/
def ev (x1 y1 x2 y2 x y : α) : α := (y2 - y1) * x + (-(x2 - x1)) * y + (-((y2 - y1) * x1 + (-(x2 - x1)) * y1))

/-- straddle test of `isSegmentIntersects` -/
def inter (s1x1 s1y1 s1x2 s1y2 s2x1 s2y1 s2x2 s2y2 : α) : Prop :=
  ev s1x1 s1y1 s1x2 s1y2 s2x1 s2y1 * ev s1x1 s1y1 s1x2 s1y2 s2x2 s2y2 ≤ 0 ∧
  ev s2x1 s2y1 s2x2 s2y2 s1x1 s1y1 * ev s2x1 s2y1 s2x2 s2y2 s1x2 s1y2 ≤ 0

/-- L1: a common point of two closed segments forces the straddle test to succeed -/
theorem inter_of_common (cx cy dx dy ax ay bx b_y : α) (r q : α)
    (hr0 : 0 ≤ r) (hr1 : r ≤ 1) (hq0 : 0 ≤ q) (hq1 : q ≤ 1)
    (hx : cx + r * (dx - cx) = ax + q * (bx - ax)) (hy : cy + r * (dy - cy) = ay + q * (b_y - ay)) :
    inter cx cy dx dy ax ay bx b_y := by
  constructor
  · apply straddle _ _ q hq0 hq1
    unfold ev
    linear_combination (dy - cy) * (-hx) + (dx - cx) * hy
  · apply straddle _ _ r hr0 hr1
    unfold ev
    linear_combination (b_y - ay) * hx - (bx - ax) * hy

/-- 1-D first exit: moving from p (inside [lo,hi]) towards e outside on the low side -/
theorem exit_lo (p e lo : α) (hp : lo ≤ p) (he : e < lo) :
    ∃ t, 0 ≤ t ∧ t < 1 ∧ p + t * (e - p) = lo ∧ ∀ t', 0 ≤ t' → t' ≤ t → lo ≤ p + t' * (e - p) := by
  have hpe : 0 < p - e := by linarith
  refine ⟨(p - lo) / (p - e), div_nonneg (by linarith) (le_of_lt hpe), ?_, ?_, ?_⟩
  · rw [div_lt_one hpe]; linarith
  · field_simp; ring
  · intro t' h0 ht
    have : t' * (p - e) ≤ p - lo := by
      have := mul_le_mul_of_nonneg_right ht (le_of_lt hpe)
      rwa [div_mul_cancel₀ _ (ne_of_gt hpe)] at this
    nlinarith
end TV.Grid

namespace TV.Grid
variable {α : Type} [Field α] [LinearOrder α] [IsStrictOrderedRing α]

theorem exit_hi (p e hi : α) (hp : p ≤ hi) (he : hi < e) :
    ∃ t, 0 ≤ t ∧ t < 1 ∧ p + t * (e - p) = hi ∧ ∀ t', 0 ≤ t' → t' ≤ t → p + t' * (e - p) ≤ hi := by
  obtain ⟨t, h0, h1, h2, h3⟩ := exit_lo (-p) (-e) (-hi) (by linarith) (by linarith)
  refine ⟨t, h0, h1, by linarith, ?_⟩
  intro t' a b
  have := h3 t' a b
  linarith

/-- convex combination stays in an interval -/
theorem between (p e lo hi t : α) (h0 : 0 ≤ t) (h1 : t ≤ 1) (hp : lo ≤ p ∧ p ≤ hi) (he : lo ≤ e ∧ e ≤ hi) :
    lo ≤ p + t * (e - p) ∧ p + t * (e - p) ≤ hi := by
  have e1 : p + t * (e - p) = (1 - t) * p + t * e := by ring
  have a : 0 ≤ 1 - t := by linarith
  constructor
  · rw [e1]; nlinarith [mul_nonneg a (sub_nonneg.mpr hp.1), mul_nonneg h0 (sub_nonneg.mpr he.1)]
  · rw [e1]; nlinarith [mul_nonneg a (sub_nonneg.mpr hp.2), mul_nonneg h0 (sub_nonneg.mpr he.2)]

/-- 1-D summary: from p ∈ [lo,hi] towards e: either e ∈ [lo,hi] (stays inside for all t ∈ [0,1]),
    or there is a first exit time t<1 at which the coordinate equals a bound and before which it stays inside. -/
theorem exit1 (p e lo hi : α) (hlh : lo ≤ hi) (hp : lo ≤ p ∧ p ≤ hi) :
    (lo ≤ e ∧ e ≤ hi) ∨
    ∃ t, 0 ≤ t ∧ t < 1 ∧ (p + t * (e - p) = lo ∨ p + t * (e - p) = hi) ∧
      ∀ t', 0 ≤ t' → t' ≤ t → lo ≤ p + t' * (e - p) ∧ p + t' * (e - p) ≤ hi := by
  by_cases h1 : e < lo
  · right
    obtain ⟨t, a, b, c, d⟩ := exit_lo p e lo hp.1 h1
    refine ⟨t, a, b, Or.inl c, ?_⟩
    intro t' x y
    refine ⟨d t' x y, ?_⟩
    have : t' * (e - p) ≤ 0 := mul_nonpos_of_nonneg_of_nonpos x (by linarith)
    linarith
  · by_cases h2 : hi < e
    · right
      obtain ⟨t, a, b, c, d⟩ := exit_hi p e hi hp.2 h2
      refine ⟨t, a, b, Or.inr c, ?_⟩
      intro t' x y
      refine ⟨?_, d t' x y⟩
      have : 0 ≤ t' * (e - p) := mul_nonneg x (by linarith)
      linarith
    · left; exact ⟨le_of_not_gt h1, le_of_not_gt h2⟩

/-- a point of the closed cell boundary reached on the way from P (in the closed cell) to E (not strictly inside) -/
theorem hit_side (px py ex ey i j : α)
    (hpx : i ≤ px ∧ px ≤ i + 1) (hpy : j ≤ py ∧ py ≤ j + 1)
    (hE : ¬ (i < ex ∧ ex < i + 1 ∧ j < ey ∧ ey < j + 1)) :
    ∃ t, 0 ≤ t ∧ t ≤ 1 ∧
      let qx := px + t * (ex - px); let qy := py + t * (ey - py)
      (i ≤ qx ∧ qx ≤ i + 1 ∧ j ≤ qy ∧ qy ≤ j + 1) ∧ (qx = i ∨ qx = i + 1 ∨ qy = j ∨ qy = j + 1) := by
  have hi1 : i ≤ i + 1 := by linarith
  have hj1 : j ≤ j + 1 := by linarith
  rcases exit1 px ex i (i+1) hi1 hpx with hx | ⟨tx, tx0, tx1, txe, txm⟩
  · rcases exit1 py ey j (j+1) hj1 hpy with hy | ⟨ty, ty0, ty1, tye, tym⟩
    · -- E in closed cell, on the boundary
      refine ⟨1, by linarith, le_refl _, ?_⟩
      simp only [one_mul]
      have e1 : px + (ex - px) = ex := by ring
      have e2 : py + (ey - py) = ey := by ring
      rw [e1, e2]
      refine ⟨⟨hx.1, hx.2, hy.1, hy.2⟩, ?_⟩
      by_contra hc
      simp only [not_or] at hc
      apply hE
      exact ⟨lt_of_le_of_ne hx.1 (Ne.symm hc.1), lt_of_le_of_ne hx.2 hc.2.1,
             lt_of_le_of_ne hy.1 (Ne.symm hc.2.2.1), lt_of_le_of_ne hy.2 hc.2.2.2⟩
    · refine ⟨ty, ty0, le_of_lt ty1, ?_⟩
      have bx := between px ex i (i+1) ty ty0 (le_of_lt ty1) hpx hx
      have by' := tym ty ty0 (le_refl _)
      refine ⟨⟨bx.1, bx.2, by'.1, by'.2⟩, ?_⟩
      rcases tye with h | h
      · exact Or.inr (Or.inr (Or.inl h))
      · exact Or.inr (Or.inr (Or.inr h))
  · rcases exit1 py ey j (j+1) hj1 hpy with hy | ⟨ty, ty0, ty1, tye, tym⟩
    · refine ⟨tx, tx0, le_of_lt tx1, ?_⟩
      have by' := between py ey j (j+1) tx tx0 (le_of_lt tx1) hpy hy
      have bx := txm tx tx0 (le_refl _)
      refine ⟨⟨bx.1, bx.2, by'.1, by'.2⟩, ?_⟩
      rcases txe with h | h
      · exact Or.inl h
      · exact Or.inr (Or.inl h)
    · rcases le_total tx ty with hle | hle
      · refine ⟨tx, tx0, le_of_lt tx1, ?_⟩
        have bx := txm tx tx0 (le_refl _)
        have by' := tym tx tx0 hle
        refine ⟨⟨bx.1, bx.2, by'.1, by'.2⟩, ?_⟩
        rcases txe with h | h
        · exact Or.inl h
        · exact Or.inr (Or.inl h)
      · refine ⟨ty, ty0, le_of_lt ty1, ?_⟩
        have bx := txm ty ty0 hle
        have by' := tym ty ty0 (le_refl _)
        refine ⟨⟨bx.1, bx.2, by'.1, by'.2⟩, ?_⟩
        rcases tye with h | h
        · exact Or.inr (Or.inr (Or.inl h))
        · exact Or.inr (Or.inr (Or.inr h))
end TV.Grid

namespace TV.Grid
variable {α : Type} [Field α] [LinearOrder α] [IsStrictOrderedRing α]

/-- core of `cells_complete`: the test performed by `__cellsCrossSegment` for cell (i,j) succeeds whenever the
    segment [A,B] has a point in the closed cell. -/
theorem cell_core (ax ay bx b_y s i j : α) (hs0 : 0 ≤ s) (hs1 : s ≤ 1)
    (hpx : i ≤ ax + s * (bx - ax) ∧ ax + s * (bx - ax) ≤ i + 1)
    (hpy : j ≤ ay + s * (b_y - ay) ∧ ay + s * (b_y - ay) ≤ j + 1) :
    ((i < ax ∧ ax < i + 1 ∧ j < ay ∧ ay < j + 1) ∧ (i < bx ∧ bx < i + 1 ∧ j < b_y ∧ b_y < j + 1))
    ∨ inter i j (i+1) j ax ay bx b_y          -- bottom
    ∨ inter i j i (j+1) ax ay bx b_y          -- left
    ∨ inter i (j+1) (i+1) (j+1) ax ay bx b_y  -- top
    ∨ inter (i+1) j (i+1) (j+1) ax ay bx b_y  -- right
    := by
  by_cases hin : (i < ax ∧ ax < i + 1 ∧ j < ay ∧ ay < j + 1) ∧ (i < bx ∧ bx < i + 1 ∧ j < b_y ∧ b_y < j + 1)
  · exact Or.inl hin
  · right
    -- pick the end that is not strictly inside, as a parameter e ∈ {0,1}
    have hE : ∃ e : α, (e = 0 ∨ e = 1) ∧
        ¬ (i < ax + e * (bx - ax) ∧ ax + e * (bx - ax) < i + 1 ∧ j < ay + e * (b_y - ay) ∧ ay + e * (b_y - ay) < j + 1) := by
      by_cases hA : (i < ax ∧ ax < i + 1 ∧ j < ay ∧ ay < j + 1)
      · refine ⟨1, Or.inr rfl, ?_⟩
        intro h
        apply hin
        refine ⟨hA, ?_⟩
        have e1 : ax + 1 * (bx - ax) = bx := by ring
        have e2 : ay + 1 * (b_y - ay) = b_y := by ring
        rw [e1, e2] at h; exact h
      · refine ⟨0, Or.inl rfl, ?_⟩
        intro h; apply hA
        simpa using h
    obtain ⟨e, he01, hEn⟩ := hE
    have he0 : 0 ≤ e := by rcases he01 with h | h <;> rw [h] <;> norm_num
    have he1 : e ≤ 1 := by rcases he01 with h | h <;> rw [h] <;> norm_num
    obtain ⟨t, t0, t1, hbox, hside⟩ :=
      hit_side (ax + s * (bx - ax)) (ay + s * (b_y - ay)) (ax + e * (bx - ax)) (ay + e * (b_y - ay)) i j hpx hpy hEn
    -- Q as a point of [A,B]
    have hq := between s e 0 1 t t0 t1 ⟨hs0, hs1⟩ ⟨he0, he1⟩
    have hqx : (ax + s * (bx - ax)) + t * ((ax + e * (bx - ax)) - (ax + s * (bx - ax))) = ax + (s + t * (e - s)) * (bx - ax) := by ring
    have hqy : (ay + s * (b_y - ay)) + t * ((ay + e * (b_y - ay)) - (ay + s * (b_y - ay))) = ay + (s + t * (e - s)) * (b_y - ay) := by ring
    simp only [hqx, hqy] at hbox hside
    obtain ⟨bx1, bx2, by1, by2⟩ := hbox
    rcases hside with h | h | h | h
    · -- qx = i : left side, r = qy - j
      right; left
      apply inter_of_common i j i (j+1) ax ay bx b_y (ay + (s + t * (e - s)) * (b_y - ay) - j) (s + t * (e - s))
        (by linarith) (by linarith) hq.1 hq.2
      · rw [h]; ring
      · ring
    · -- qx = i+1 : right side
      right; right; right
      apply inter_of_common (i+1) j (i+1) (j+1) ax ay bx b_y (ay + (s + t * (e - s)) * (b_y - ay) - j) (s + t * (e - s))
        (by linarith) (by linarith) hq.1 hq.2
      · rw [h]; ring
      · ring
    · -- qy = j : bottom
      left
      apply inter_of_common i j (i+1) j ax ay bx b_y (ax + (s + t * (e - s)) * (bx - ax) - i) (s + t * (e - s))
        (by linarith) (by linarith) hq.1 hq.2
      · ring
      · rw [h]; ring
    · -- qy = j+1 : top
      right; right; left
      apply inter_of_common i (j+1) (i+1) (j+1) ax ay bx b_y (ax + (s + t * (e - s)) * (bx - ax) - i) (s + t * (e - s))
        (by linarith) (by linarith) hq.1 hq.2
      · ring
      · rw [h]; ring
end TV.Grid
