import TracklibVerif.Lemmas.TextIOWkt
/-! Network CSV (core only): `NetworkWriter.writeToCsv` → `csv.reader` → `readLineAndAddToNetwork`. -/
namespace TV.TextIO

/-! ### the csv.reader state machine -/

theorem csvFields_inField (sep : Char) (s rest cur : Str) (acc : List Str)
    (hs : sep ∉ s) :
    csvFields sep (s ++ sep :: rest) CsvSt.inField cur acc = csvFields sep rest CsvSt.start [] (acc ++ [cur ++ s]) := by
  induction s generalizing cur with
  | nil => simp [csvFields]
  | cons x xs ih =>
    have hx : x ≠ sep := fun e => hs (by simp [e])
    simp only [List.cons_append, csvFields, hx, ↓reduceIte]
    rw [ih _ (fun h => hs (by simp [h]))]
    simp

/-- an unquoted field followed by the delimiter -/
theorem csvFields_plain (sep : Char) (s rest : Str) (acc : List Str) (hsep : sep ≠ '"')
    (hs : sep ∉ s) (hq : '"' ∉ s) :
    csvFields sep (s ++ sep :: rest) CsvSt.start [] acc = csvFields sep rest CsvSt.start [] (acc ++ [s]) := by
  cases s with
  | nil => simp [csvFields, hsep]
  | cons x xs =>
    have hx : x ≠ sep := fun e => hs (by simp [e])
    have hxq : x ≠ '"' := fun e => hq (by simp [e])
    simp only [List.cons_append, csvFields, hx, hxq, ↓reduceIte]
    rw [csvFields_inField sep xs rest _ acc (fun h => hs (by simp [h]))]
    simp

theorem csvFields_inQuoted (sep : Char) (q rest cur : Str) (acc : List Str) (hq : '"' ∉ q) :
    csvFields sep (q ++ '"' :: rest) CsvSt.inQuoted cur acc = csvFields sep rest CsvSt.quoteInQuoted (cur ++ q) acc := by
  induction q generalizing cur with
  | nil => simp [csvFields]
  | cons x xs ih =>
    have hx : x ≠ '"' := fun e => hq (by simp [e])
    simp only [List.cons_append, csvFields, hx, ↓reduceIte]
    rw [ih _ (fun h => hq (by simp [h]))]
    simp

/-- a quoted last field -/
theorem csvFields_quoted_last (sep : Char) (q : Str) (acc : List Str) (hq : '"' ∉ q) :
    csvFields sep ('"' :: q ++ ['"']) CsvSt.start [] acc = acc ++ [q] := by
  simp only [List.cons_append, csvFields, ↓reduceIte]
  have : q ++ ['"'] = q ++ '"' :: [] := rfl
  rw [this, csvFields_inQuoted sep q [] [] acc hq]
  simp [csvFields]

/-- identifiers that can be written unquoted -/
def IdOK (sep : Char) (s : Str) : Prop := sep ∉ s ∧ '"' ∉ s ∧ '\n' ∉ s ∧ '\r' ∉ s

/-- the record `csv.reader` returns for the text of an edge line (without its newline) -/
theorem csvRecord_row (sep : Char) (a b c o q : Str) (hsep : sep ≠ '"')
    (ha : IdOK sep a) (hb : IdOK sep b) (hc : IdOK sep c) (ho : IdOK sep o) (hq : '"' ∉ q) :
    csvRecord sep (a ++ [sep] ++ b ++ [sep] ++ c ++ [sep] ++ o ++ [sep] ++ ['"'] ++ q ++ ['"']) = [a, b, c, o, q] := by
  unfold csvRecord
  have e : a ++ [sep] ++ b ++ [sep] ++ c ++ [sep] ++ o ++ [sep] ++ ['"'] ++ q ++ ['"']
      = a ++ sep :: (b ++ sep :: (c ++ sep :: (o ++ sep :: ('"' :: q ++ ['"'])))) := by simp
  rw [e, csvFields_plain sep a _ _ hsep ha.1 ha.2.1, csvFields_plain sep b _ _ hsep hb.1 hb.2.1,
    csvFields_plain sep c _ _ hsep hc.1 hc.2.1, csvFields_plain sep o _ _ hsep ho.1 ho.2.1,
    csvFields_quoted_last sep q _ hq]
  simp

/-! ### an edge record -/

theorem parseInt_intStr (i : Int) : parseInt? (intStr i) = some i := by
  unfold parseInt? intStr
  by_cases h : i < 0
  · have e : -((i.natAbs : Nat) : Int) = i := by omega
    simp [h, parseNat_natStr, e]
  · rw [if_neg h]
    have hne := natStr_ne_nil i.natAbs
    cases hs : natStr i.natAbs with
    | nil => exact absurd hs hne
    | cons x xs =>
      have hx : x ≠ '-' := (digit_of_digitVal (natStr_digits i.natAbs x (by rw [hs]; simp))).2.2.1
      have : ((x :: xs).head? == some '-') = false := by simp [hx]
      rw [this]
      simp only [Bool.false_eq_true, ↓reduceIte]
      rw [← hs, parseNat_natStr]
      have e : ((i.natAbs : Nat) : Int) = i := by omega
      simp [e]

/-- the edge as `readLineAndAddToNetwork` returns it -/
def expEdge (d : Nat) (e : NEdge) : REdge := ⟨e.id, e.src, e.tgt, e.orient, e.geom.map (expVertex d)⟩

/-- what is required of an edge for the writer's line to be well formed -/
def EdgeOK (sep : Char) (e : NEdge) : Prop :=
  IdOK sep e.id ∧ IdOK sep e.src ∧ IdOK sep e.tgt ∧ (e.orient = 0 ∨ e.orient = 1 ∨ e.orient = -1) ∧ 2 ≤ e.geom.length

theorem wktCoords_toWKT_e (d : Nat) (pts : List Pt) (hne : pts ≠ []) :
    wktCoords (toWKT d pts) = .ok (pts.map (vertexStr 'e' d)) := wktCoords_toWKT 'e' (by decide) d pts hne

theorem toWKT_avoids (d : Nat) (pts : List Pt) (x : Char) (hx : numChar x = false)
    (h1 : x ∉ "LINESTRING(".toList) (h2 : x ≠ ' ') (h3 : x ≠ ',') (h4 : x ≠ ')') (h5 : x ≠ 'e') (h6 : x ≠ '+') :
    x ∉ toWKT d pts := by
  intro hm
  unfold toWKT toWKTE at hm
  simp only [List.mem_append, List.mem_singleton] at hm
  rcases hm with (hm | hm) | hm
  · exact h1 hm
  · rcases mem_joinChar hm with h | ⟨v, hv, hxv⟩
    · exact h3 h
    · simp only [List.mem_map] at hv
      obtain ⟨p, _, rfl⟩ := hv
      exact vertexStr_avoids 'e' d p x hx h2 h5 h6 hxv
  · exact h4 hm

theorem netReadRow_record (sep : Char) (hdr : Nat) (d : Nat) (e : NEdge) (he : EdgeOK sep e) :
    netReadRow ⟨0, 1, 2, 3, 4, sep, hdr⟩ [e.id, e.src, e.tgt, intStr e.orient, toWKT d e.geom] = .ok (expEdge d e) := by
  obtain ⟨_, _, _, ho, hg⟩ := he
  have hne : e.geom ≠ [] := by intro h; rw [h] at hg; simp at hg
  unfold netReadRow
  have hm : List.mapM (parseVertex ∘ vertexStr 'e' d) e.geom = .ok (e.geom.map (expVertex d)) :=
    mapM_ok _ _ _ (fun p _ => parseVertex_vertexStr 'e' (by decide) d p)
  have hlen : ¬ (e.geom.map (expVertex d)).length < 2 := by simp; omega
  have hstrip : strip (intStr e.orient) = intStr e.orient := strip_numStr _ (intStr_ne_nil _) (intStr_numChar _)
  have h3 : Int.toNat 3 = 3 := rfl
  have h31 : (3 : Int) ≠ -1 := by decide
  simp only [nth, List.getElem?_cons_zero, List.getElem?_cons_succ, bind, Except.bind, pure, Except.pure,
    wktCoords_toWKT_e d e.geom hne, List.mapM_map, hm, hlen, ↓reduceIte, h3, h31, hstrip, parseInt_intStr, ho]
  rfl

/-! ### the file -/

def edgeBody (sep : Char) (d : Nat) (e : NEdge) : Str :=
  e.id ++ [sep] ++ e.src ++ [sep] ++ e.tgt ++ [sep] ++ intStr e.orient ++ [sep] ++ ['"'] ++ toWKT d e.geom ++ ['"']

theorem netRow_eq (sep : Char) (d : Nat) (e : NEdge) : netRow sep d e = edgeBody sep d e ++ ['\n'] := by
  simp [netRow, edgeBody]

/-- what is required of the separator: not a number character (the orientation `-1` is written bare),
not the quote, not an end-of-line character -/
def SepOK (sep : Char) : Prop := numChar sep = false ∧ sep ≠ '"' ∧ sep ≠ '\n' ∧ sep ≠ '\r'

theorem intStr_idOK (sep : Char) (hs : SepOK sep) (i : Int) : IdOK sep (intStr i) :=
  ⟨not_mem_of_numChar _ (intStr_numChar i) sep hs.1, not_mem_of_numChar _ (intStr_numChar i) '"' (by decide),
   not_mem_of_numChar _ (intStr_numChar i) '\n' (by decide), not_mem_of_numChar _ (intStr_numChar i) '\r' (by decide)⟩

theorem edgeBody_clean (sep : Char) (hs : SepOK sep) (d : Nat) (e : NEdge) (he : EdgeOK sep e) :
    ∀ c ∈ edgeBody sep d e, c ≠ '\n' ∧ c ≠ '\r' := by
  have hw1 := toWKT_avoids d e.geom '\n' (by decide) (by decide) (by decide) (by decide) (by decide) (by decide) (by decide)
  have hw2 := toWKT_avoids d e.geom '\r' (by decide) (by decide) (by decide) (by decide) (by decide) (by decide) (by decide)
  have ho := intStr_idOK sep hs e.orient
  obtain ⟨h1, h2, h3, _, _⟩ := he
  intro c hc
  unfold edgeBody at hc
  simp only [List.mem_append, List.mem_singleton] at hc
  constructor <;> intro e' <;> subst e' <;>
    rcases hc with (((((((((hc | hc) | hc) | hc) | hc) | hc) | hc) | hc) | hc) | hc) | hc <;>
    first
      | exact h1.2.2.1 hc | exact h1.2.2.2 hc | exact h2.2.2.1 hc | exact h2.2.2.2 hc | exact h3.2.2.1 hc | exact h3.2.2.2 hc
      | exact ho.2.2.1 hc | exact ho.2.2.2 hc | exact hw1 hc | exact hw2 hc | exact hs.2.2.1 hc.symm | exact hs.2.2.2 hc.symm
      | exact absurd hc (by decide)

theorem csvRecord_edgeBody (sep : Char) (hs : SepOK sep) (d : Nat) (e : NEdge) (he : EdgeOK sep e) :
    csvRecord sep ((edgeBody sep d e).filter (fun c => c ≠ '\n' ∧ c ≠ '\r'))
      = [e.id, e.src, e.tgt, intStr e.orient, toWKT d e.geom] := by
  have hf : (edgeBody sep d e).filter (fun c => c ≠ '\n' ∧ c ≠ '\r') = edgeBody sep d e := by
    apply List.filter_eq_self.2
    intro c hc
    have := edgeBody_clean sep hs d e he c hc
    simp [this.1, this.2]
  rw [hf]
  unfold edgeBody
  exact csvRecord_row sep _ _ _ _ _ hs.2.1 he.1 he.2.1 he.2.2.1 (intStr_idOK sep hs _)
    (toWKT_avoids d e.geom '"' (by decide) (by decide) (by decide) (by decide) (by decide) (by decide) (by decide))

def hdrBody (sep : Char) : Str :=
  "link_id".toList ++ [sep] ++ "source".toList ++ [sep] ++ "target".toList ++ [sep] ++ "direction".toList ++ [sep] ++ "wkt".toList

theorem netHeader_eq (sep : Char) : netHeader sep = hdrBody sep ++ ['\n'] := by
  have : "wkt\n".toList = "wkt".toList ++ ['\n'] := by decide
  unfold netHeader hdrBody
  rw [this]
  simp only [List.append_assoc]

theorem hdrBody_nl (sep : Char) (hs : SepOK sep) : '\n' ∉ hdrBody sep := by
  have h1 : '\n' ∉ "link_id".toList := by decide
  have h2 : '\n' ∉ "source".toList := by decide
  have h3 : '\n' ∉ "target".toList := by decide
  have h4 : '\n' ∉ "direction".toList := by decide
  have h5 : '\n' ∉ "wkt".toList := by decide
  have h6 : '\n' ≠ sep := Ne.symm hs.2.2.1
  intro hc
  unfold hdrBody at hc
  simp only [List.mem_append, List.mem_singleton] at hc
  rcases hc with (((((((hc | hc) | hc) | hc) | hc) | hc) | hc) | hc) | hc
  · exact h1 hc
  · exact h6 hc
  · exact h2 hc
  · exact h6 hc
  · exact h3 hc
  · exact h6 hc
  · exact h4 hc
  · exact h6 hc
  · exact h5 hc

theorem netRead_lines (sep : Char) (hs : SepOK sep) (hdr d : Nat) (es : List NEdge) (he : ∀ e ∈ es, EdgeOK sep e) :
    (es.map (fun e => csvRecord sep ((edgeBody sep d e).filter (fun c => c ≠ '\n' ∧ c ≠ '\r')))).mapM
        (netReadRow ⟨0, 1, 2, 3, 4, sep, hdr⟩) = .ok (es.map (expEdge d)) := by
  rw [List.mapM_map]
  apply mapM_ok
  intro e hem
  simp only [Function.comp]
  rw [csvRecord_edgeBody sep hs d e (he e hem)]
  exact netReadRow_record sep hdr d e (he e hem)

/-- **T4 (network file)** -/
theorem net_file_roundtrip (sep : Char) (hs : SepOK sep) (d : Nat) (es : List NEdge) (he : ∀ e ∈ es, EdgeOK sep e) :
    netRead ⟨0, 1, 2, 3, 4, sep, 1⟩ (netWrite sep 1 d es) = .ok (es.map (expEdge d))
    ∧ netRead ⟨0, 1, 2, 3, 4, sep, 0⟩ (netWrite sep 0 d es) = .ok (es.map (expEdge d)) := by
  have hnl : ∀ l ∈ es.map (edgeBody sep d), '\n' ∉ l := by
    intro l hl
    simp only [List.mem_map] at hl
    obtain ⟨e, hem, rfl⟩ := hl
    exact fun hc => (edgeBody_clean sep hs d e (he e hem) _ hc).1 rfl
  have hrows : (es.map (netRow sep d)).flatten = ((es.map (edgeBody sep d)).map (· ++ ['\n'])).flatten := by
    have : netRow sep d = fun e => edgeBody sep d e ++ ['\n'] := funext (netRow_eq sep d)
    rw [this]
    simp [List.map_map, Function.comp_def]
  constructor
  · unfold netRead netWrite
    have e1 : netHeader sep ++ (es.map (netRow sep d)).flatten
        = ((hdrBody sep :: es.map (edgeBody sep d)).map (· ++ ['\n'])).flatten := by
      rw [hrows, netHeader_eq]; simp
    simp only [↓reduceIte]
    rw [e1, fileLines_flatten _ (by
      intro l hl
      rcases List.mem_cons.1 hl with rfl | hl
      · exact hdrBody_nl sep hs
      · exact hnl l hl)]
    simp only [List.map_cons, List.drop_succ_cons, List.drop_zero, List.map_map]
    exact netRead_lines sep hs 1 d es he
  · unfold netRead netWrite
    have h01 : ¬ (0 = 1) := by decide
    simp only [h01, ↓reduceIte, List.nil_append]
    rw [hrows, fileLines_flatten _ hnl]
    simp only [List.map_map, List.drop_zero]
    exact netRead_lines sep hs 0 d es he

end TV.TextIO
