import TracklibVerif.Model.Proj
/-! Agreement of the two renderings of the sentinel `distmin = 1e400` of `proj_polyligne` (C20, shared by C10).

`Model/Proj.lean` has the loop twice: the `none`-state forms (`polyLoop / projPolyligne / polyLoopXY / projPolyligneXY`:
the sentinel is "no current minimum", every distance beats it — the forms the theorems of `Props/C20.lean` are about) and
the sentinel-faithful S-forms (`polyLoopS / projPolyligneS / polyLoopXYS / projPolyligneXYS`: the test is `dist < inf`
as in the code, and the lines after the loop — `if distmin == 1e400: distmin = math.sqrt((x - xproj) ** 2 + (y - yproj) ** 2)`,
the code since the `fix:` commit 563eeba — are evaluated literally on the code's state by `finishS`, with the squaring `sq` a
parameter — the forms `Tie/C20.lean` proves equal to the translated source on ALL inputs). This file proves that
they are EQUAL whenever every distance the loop meets (on a segment that is not skipped and on which `proj_segment`
returns) is `< inf`, a value `< inf` is not `== inf`, `inf == inf`, and `sq v = .ok (v * v)`; and that the first hypothesis is
what separates the loops (`projPolyligneXYS_single_not_lt`).

Core Lean only, bare operation classes: nothing is assumed of the scalar type, so the statements hold for IEEE doubles
(`inf = +∞`: the hypotheses say "no distance is `inf`/NaN, no square overflows into an `OverflowError`") as well as for an
ordered field (any `inf` above the distances, `sq v := .ok (v * v)`). -/
namespace TV.Proj

/-- a distance `< inf` is judged by the code's test exactly as by the `none`-state test -/
theorem betterS_eq_better {α : Type} [LT α] [DecidableLT α] (inf dist : α) (cur : Option (α × α × α × Nat)) (h : dist < inf) :
    betterS inf dist cur = better dist cur := by
  cases cur with
  | none => exact decide_eq_true h
  | some c => rfl

/-- once a segment is kept the two tests are the same test (no hypothesis) -/
theorem betterS_some {α : Type} [LT α] [DecidableLT α] (inf dist : α) (c : α × α × α × Nat) : betterS inf dist (some c) = better dist (some c) := rfl

section
variable {α : Type} [Add α] [Sub α] [Mul α] [Div α] [Neg α] [LT α] [LE α]
  [DecidableLT α] [DecidableLE α] [OfNat α 0]

/-- with Python numbers (`np = false`) `projSegmentG` is `projSegment`, over bare operation classes
(`Lemmas/ProjExt.lean` `projSegmentG_false` is the same statement over an ordered field) -/
theorem projSegmentG_false_ops (sqrt : α → α) (x1 y1 x2 y2 x y : α) :
    projSegmentG false sqrt x1 y1 x2 y2 x y = projSegment sqrt x1 y1 x2 y2 x y := by
  unfold projSegmentG projSegment projectionDroiteG projectionDroite footG foot
  simp only [Bool.not_false, Bool.true_and]

/-- **agreement of the two-sequence loops**: if on every segment `j` of the two sequences that is not skipped and on
which `proj_segment` returns the distance is `< inf`, the sentinel-faithful loop is the `none`-state loop (from any
index, with any current best) -/
theorem polyLoopXYS_eq (np : Bool) (inf : α) (sqrt : α → α) (eps x y : α) :
    ∀ (X Y : List α) (i : Nat) (cur : Option (α × α × α × Nat)),
      (∀ (j : Nat) (x1 y1 x2 y2 : α) (r : α × α × α), X[j]? = some x1 → Y[j]? = some y1 → X[j + 1]? = some x2 →
        Y[j + 1]? = some y2 → skipped eps x1 y1 x2 y2 = false →
        projSegmentG np sqrt x1 y1 x2 y2 x y = .ok r → r.1 < inf) →
      polyLoopXYS np inf sqrt eps x y X Y i cur = polyLoopXY np sqrt eps x y X Y i cur := by
  intro X
  induction X with
  | nil => intro Y i cur _; rfl
  | cons x1 tl ih =>
    cases tl with
    | nil => intro Y i cur _; rfl
    | cons x2 xs =>
      intro Y i cur hinf
      match Y with
      | [] => rfl
      | [_] => rfl
      | y1 :: y2 :: ys' =>
        have hinf' : ∀ (j : Nat) (a1 b1 a2 b2 : α) (r : α × α × α), (x2 :: xs)[j]? = some a1 → (y2 :: ys')[j]? = some b1 →
            (x2 :: xs)[j + 1]? = some a2 → (y2 :: ys')[j + 1]? = some b2 → skipped eps a1 b1 a2 b2 = false →
            projSegmentG np sqrt a1 b1 a2 b2 x y = .ok r → r.1 < inf :=
          fun j a1 b1 a2 b2 r h1 h2 h3 h4 => hinf (j + 1) a1 b1 a2 b2 r h1 h2 h3 h4
        cases hsk : skipped eps x1 y1 x2 y2 with
        | true =>
          simp only [polyLoopXYS, polyLoopXY, hsk, if_true]
          exact ih (y2 :: ys') (i + 1) cur hinf'
        | false =>
          cases hp : projSegmentG np sqrt x1 y1 x2 y2 x y with
          | error e => simp only [polyLoopXYS, polyLoopXY, hsk, hp]; rfl
          | ok r =>
            have hlt : r.1 < inf := hinf 0 x1 y1 x2 y2 r rfl rfl rfl rfl hsk hp
            simp only [polyLoopXYS, polyLoopXY, hsk, hp, betterS_eq_better inf r.1 cur hlt]
            exact ih (y2 :: ys') (i + 1) _ hinf'

/-- under the sentinel hypothesis every minimum the `none`-state loop ends with is `< inf` (it is one of the distances met) -/
theorem polyLoopXY_lt_inf (np : Bool) (inf : α) (sqrt : α → α) (eps x y : α) :
    ∀ (X Y : List α) (i : Nat) (cur res : Option (α × α × α × Nat)),
      (∀ (j : Nat) (x1 y1 x2 y2 : α) (r : α × α × α), X[j]? = some x1 → Y[j]? = some y1 → X[j + 1]? = some x2 →
        Y[j + 1]? = some y2 → skipped eps x1 y1 x2 y2 = false →
        projSegmentG np sqrt x1 y1 x2 y2 x y = .ok r → r.1 < inf) →
      (∀ c, cur = some c → c.1 < inf) → polyLoopXY np sqrt eps x y X Y i cur = .ok res → ∀ c, res = some c → c.1 < inf := by
  intro X
  induction X with
  | nil => intro Y i cur res _ hc h; simp only [polyLoopXY] at h; injection h with h; subst h; exact hc
  | cons x1 tl ih =>
    cases tl with
    | nil => intro Y i cur res _ hc h; simp only [polyLoopXY] at h; injection h with h; subst h; exact hc
    | cons x2 xs =>
      intro Y i cur res hinf hc h
      match Y with
      | [] => simp only [polyLoopXY] at h; cases h
      | [_] => simp only [polyLoopXY] at h; cases h
      | y1 :: y2 :: ys' =>
        have hinf' : ∀ (j : Nat) (a1 b1 a2 b2 : α) (r : α × α × α), (x2 :: xs)[j]? = some a1 → (y2 :: ys')[j]? = some b1 →
            (x2 :: xs)[j + 1]? = some a2 → (y2 :: ys')[j + 1]? = some b2 → skipped eps a1 b1 a2 b2 = false →
            projSegmentG np sqrt a1 b1 a2 b2 x y = .ok r → r.1 < inf :=
          fun j a1 b1 a2 b2 r h1 h2 h3 h4 => hinf (j + 1) a1 b1 a2 b2 r h1 h2 h3 h4
        cases hsk : skipped eps x1 y1 x2 y2 with
        | true =>
          simp only [polyLoopXY, hsk, if_true] at h
          exact ih (y2 :: ys') (i + 1) cur res hinf' hc h
        | false =>
          cases hp : projSegmentG np sqrt x1 y1 x2 y2 x y with
          | error e => simp only [polyLoopXY, hsk, hp] at h; cases h
          | ok r =>
            have hlt : r.1 < inf := hinf 0 x1 y1 x2 y2 r rfl rfl rfl rfl hsk hp
            simp only [polyLoopXY, hsk, hp] at h
            refine ih (y2 :: ys') (i + 1) _ res hinf' ?_ h
            intro c hc'
            split at hc'
            · injection hc' with hc'; rw [← hc']; exact hlt
            · exact hc c hc'

/-- the lines after the loop on a state that is not the sentinel: nothing changes -/
theorem finishS_kept (inf : α) (sqrt : α → α) (sq : α → Except Err α) (x y : α) (s : α × α × α × Nat)
    (h : isEq s.1 inf = false) : finishS inf sqrt sq x y s = .ok s := by
  unfold finishS; rw [h]; rfl

/-- the lines after the loop on the initial state `(inf, x0, y0, 0)` (nothing kept), when `inf == inf` and `v ** 2 = v * v`:
the first vertex and the distance to it -/
theorem finishS_none (inf : α) (sqrt : α → α) (sq : α → Except Err α) (x y x0 y0 : α)
    (hii : isEq inf inf = true) (hsq : ∀ v, sq v = .ok (v * v)) :
    finishS inf sqrt sq x y (encS inf x0 y0 none) = .ok (firstVertex sqrt x y x0 y0) := by
  simp only [finishS, encS, hii, hsq, firstVertex, if_true]

/-- **agreement for `proj_polyligne(Xp, Yp, x, y)`**: under the hypotheses that every distance met is `< inf`, that a value
`< inf` is not `== inf`, that `inf == inf`, and that `v ** 2` is `v * v` (never raising), the sentinel-faithful
`projPolyligneXYS` (what the code does) is `projPolyligneXY` (what the theorems are about), exceptions included. All four
hold for finite distances on doubles with `inf = +∞` away from the overflow of `v ** 2`, and in an ordered field for any
`inf` above the distances. -/
theorem projPolyligneXYS_eq (np : Bool) (inf : α) (sqrt : α → α) (sq : α → Except Err α) (eps : α) (X Y : List α) (x y : α)
    (hinf : ∀ (j : Nat) (x1 y1 x2 y2 : α) (r : α × α × α), X[j]? = some x1 → Y[j]? = some y1 → X[j + 1]? = some x2 →
      Y[j + 1]? = some y2 → skipped eps x1 y1 x2 y2 = false →
      projSegmentG np sqrt x1 y1 x2 y2 x y = .ok r → r.1 < inf)
    (hne : ∀ d : α, d < inf → isEq d inf = false) (hii : isEq inf inf = true) (hsq : ∀ v, sq v = .ok (v * v)) :
    projPolyligneXYS np inf sqrt sq eps X Y x y = projPolyligneXY np sqrt eps X Y x y := by
  unfold projPolyligneXYS projPolyligneXY
  match X with
  | [] => rfl
  | x0 :: xs =>
    match Y with
    | [] => rfl
    | y0 :: ys =>
      simp only []
      rw [polyLoopXYS_eq np inf sqrt eps x y (x0 :: xs) (y0 :: ys) 0 none hinf]
      cases hl : polyLoopXY np sqrt eps x y (x0 :: xs) (y0 :: ys) 0 none with
      | error e => rfl
      | ok res =>
        cases res with
        | none => simp only [finishS_none inf sqrt sq x y x0 y0 hii hsq]; rfl
        | some r =>
          have hlt : r.1 < inf :=
            polyLoopXY_lt_inf np inf sqrt eps x y _ _ 0 none _ hinf (fun c hc => nomatch hc) hl r rfl
          simp only [encS, finishS_kept inf sqrt sq x y r (hne r.1 hlt)]; rfl

/-- the same with Python numbers (`np = false`), the sentinel hypothesis stated on the kernel `projSegment`: literally the
hypothesis `hinf` of `Tie/C20.lean` `tie_proj_polyligne` -/
theorem projPolyligneXYS_eq_false (inf : α) (sqrt : α → α) (sq : α → Except Err α) (eps : α) (X Y : List α) (x y : α)
    (hinf : ∀ (j : Nat) (x1 y1 x2 y2 : α) (r : α × α × α), X[j]? = some x1 → Y[j]? = some y1 → X[j + 1]? = some x2 →
      Y[j + 1]? = some y2 → skipped eps x1 y1 x2 y2 = false →
      projSegment sqrt x1 y1 x2 y2 x y = .ok r → r.1 < inf)
    (hne : ∀ d : α, d < inf → isEq d inf = false) (hii : isEq inf inf = true) (hsq : ∀ v, sq v = .ok (v * v)) :
    projPolyligneXYS false inf sqrt sq eps X Y x y = projPolyligneXY false sqrt eps X Y x y :=
  projPolyligneXYS_eq false inf sqrt sq eps X Y x y
    (fun j x1 y1 x2 y2 r h1 h2 h3 h4 hs hp => hinf j x1 y1 x2 y2 r h1 h2 h3 h4 hs (projSegmentG_false_ops sqrt x1 y1 x2 y2 x y ▸ hp))
    hne hii hsq

/-- **agreement of the loops on a vertex list** -/
theorem polyLoopS_eq (inf : α) (sqrt : α → α) (eps x y : α) :
    ∀ (pts : List (α × α)) (i : Nat) (cur : Option (α × α × α × Nat)),
      (∀ (j : Nat) (p1 p2 : α × α) (r : α × α × α), pts[j]? = some p1 → pts[j + 1]? = some p2 →
        skipped eps p1.1 p1.2 p2.1 p2.2 = false → projSegment sqrt p1.1 p1.2 p2.1 p2.2 x y = .ok r → r.1 < inf) →
      polyLoopS inf sqrt eps x y pts i cur = polyLoop sqrt eps x y pts i cur := by
  intro pts
  induction pts with
  | nil => intro i cur _; rfl
  | cons p1 tl ih =>
    cases tl with
    | nil => intro i cur _; rfl
    | cons p2 rest =>
      intro i cur hinf
      have hinf' : ∀ (j : Nat) (q1 q2 : α × α) (r : α × α × α), (p2 :: rest)[j]? = some q1 → (p2 :: rest)[j + 1]? = some q2 →
          skipped eps q1.1 q1.2 q2.1 q2.2 = false → projSegment sqrt q1.1 q1.2 q2.1 q2.2 x y = .ok r → r.1 < inf :=
        fun j q1 q2 r h1 h2 => hinf (j + 1) q1 q2 r h1 h2
      cases hsk : skipped eps p1.1 p1.2 p2.1 p2.2 with
      | true =>
        simp only [polyLoopS, polyLoop, hsk, if_true]
        exact ih (i + 1) cur hinf'
      | false =>
        cases hp : projSegment sqrt p1.1 p1.2 p2.1 p2.2 x y with
        | error e => simp only [polyLoopS, polyLoop, hsk, hp]; rfl
        | ok r =>
          have hlt : r.1 < inf := hinf 0 p1 p2 r rfl rfl hsk hp
          simp only [polyLoopS, polyLoop, hsk, hp, betterS_eq_better inf r.1 cur hlt]
          exact ih (i + 1) _ hinf'

/-- under the sentinel hypothesis every minimum the `none`-state loop on a vertex list ends with is `< inf` -/
theorem polyLoop_lt_inf (inf : α) (sqrt : α → α) (eps x y : α) :
    ∀ (pts : List (α × α)) (i : Nat) (cur res : Option (α × α × α × Nat)),
      (∀ (j : Nat) (p1 p2 : α × α) (r : α × α × α), pts[j]? = some p1 → pts[j + 1]? = some p2 →
        skipped eps p1.1 p1.2 p2.1 p2.2 = false → projSegment sqrt p1.1 p1.2 p2.1 p2.2 x y = .ok r → r.1 < inf) →
      (∀ c, cur = some c → c.1 < inf) → polyLoop sqrt eps x y pts i cur = .ok res → ∀ c, res = some c → c.1 < inf := by
  intro pts
  induction pts with
  | nil => intro i cur res _ hc h; simp only [polyLoop] at h; injection h with h; subst h; exact hc
  | cons p1 tl ih =>
    cases tl with
    | nil => intro i cur res _ hc h; simp only [polyLoop] at h; injection h with h; subst h; exact hc
    | cons p2 rest =>
      intro i cur res hinf hc h
      have hinf' : ∀ (j : Nat) (q1 q2 : α × α) (r : α × α × α), (p2 :: rest)[j]? = some q1 → (p2 :: rest)[j + 1]? = some q2 →
          skipped eps q1.1 q1.2 q2.1 q2.2 = false → projSegment sqrt q1.1 q1.2 q2.1 q2.2 x y = .ok r → r.1 < inf :=
        fun j q1 q2 r h1 h2 => hinf (j + 1) q1 q2 r h1 h2
      cases hsk : skipped eps p1.1 p1.2 p2.1 p2.2 with
      | true =>
        simp only [polyLoop, hsk, if_true] at h
        exact ih (i + 1) cur res hinf' hc h
      | false =>
        cases hp : projSegment sqrt p1.1 p1.2 p2.1 p2.2 x y with
        | error e => simp only [polyLoop, hsk, hp] at h; cases h
        | ok r =>
          have hlt : r.1 < inf := hinf 0 p1 p2 r rfl rfl hsk hp
          simp only [polyLoop, hsk, hp] at h
          refine ih (i + 1) _ res hinf' ?_ h
          intro c hc'
          split at hc'
          · injection hc' with hc'; rw [← hc']; exact hlt
          · exact hc c hc'

/-- **agreement for `proj_polyligne` on a vertex list** (the kernel form `projPolyligne` of the theorems), same hypotheses -/
theorem projPolyligneS_eq (inf : α) (sqrt : α → α) (sq : α → Except Err α) (eps : α) (pts : List (α × α)) (x y : α)
    (hinf : ∀ (j : Nat) (p1 p2 : α × α) (r : α × α × α), pts[j]? = some p1 → pts[j + 1]? = some p2 →
      skipped eps p1.1 p1.2 p2.1 p2.2 = false → projSegment sqrt p1.1 p1.2 p2.1 p2.2 x y = .ok r → r.1 < inf)
    (hne : ∀ d : α, d < inf → isEq d inf = false) (hii : isEq inf inf = true) (hsq : ∀ v, sq v = .ok (v * v)) :
    projPolyligneS inf sqrt sq eps pts x y = projPolyligne sqrt eps pts x y := by
  unfold projPolyligneS projPolyligne
  match pts with
  | [] => rfl
  | p0 :: rest =>
    simp only []
    rw [polyLoopS_eq inf sqrt eps x y (p0 :: rest) 0 none hinf]
    cases hl : polyLoop sqrt eps x y (p0 :: rest) 0 none with
    | error e => rfl
    | ok res =>
      cases res with
      | none => simp only [finishS_none inf sqrt sq x y p0.1 p0.2 hii hsq]
      | some r =>
        have hlt : r.1 < inf := polyLoop_lt_inf inf sqrt eps x y _ 0 none _ hinf (fun c hc => nomatch hc) hl r rfl
        simp only [encS, finishS_kept inf sqrt sq x y r (hne r.1 hlt)]

/-- the sentinel hypothesis is what separates the two forms: on ONE kept segment whose distance is not `< inf` (a distance
that is `inf` or NaN on doubles) the sentinel-faithful form keeps nothing and answers from the FIRST VERTEX (`finishS` on
the initial state, as the code does since 563eeba; before, it raised `UnboundLocalError`) while the `none`-state form
returns that segment -/
theorem projPolyligneXYS_single_not_lt (np : Bool) (inf : α) (sqrt : α → α) (sq : α → Except Err α) (eps x1 y1 x2 y2 x y : α)
    (r : α × α × α)
    (hs : skipped eps x1 y1 x2 y2 = false) (hp : projSegmentG np sqrt x1 y1 x2 y2 x y = .ok r) (hn : ¬ r.1 < inf) :
    projPolyligneXYS np inf sqrt sq eps [x1, x2] [y1, y2] x y =
        (finishS inf sqrt sq x y (inf, x1, y1, 0)).mapError ErrX.base ∧
      projPolyligneXY np sqrt eps [x1, x2] [y1, y2] x y = .ok (r.1, r.2.1, r.2.2, 0) := by
  have hd : decide (r.1 < inf) = false := decide_eq_false hn
  constructor
  · simp only [projPolyligneXYS, polyLoopXYS, hs, hp, betterS, hd]
    rfl
  · simp only [projPolyligneXY, polyLoopXY, hs, hp, better]
    rfl

end
end TV.Proj
