import TracklibVerif.Lemmas.TextIONet
/-! A csv file with a WKT column (core only): the lines a user writes with `sep.join([uid, tid, '"' + track.toWKT() + '"'])`
read back by `TrackReader.readFromWkt` (`csv.reader` with either value of `doublequote`, header count, blank lines skipped). -/
namespace TV.TextIO

/-! ### `csv.reader` with the `doublequote` flag -/

theorem csvFieldsQ_inField (dq : Bool) (sep : Char) (s rest cur : Str) (acc : List Str) (hs : sep ∉ s) :
    csvFieldsQ dq sep (s ++ sep :: rest) CsvSt.inField cur acc = csvFieldsQ dq sep rest CsvSt.start [] (acc ++ [cur ++ s]) := by
  induction s generalizing cur with
  | nil => simp [csvFieldsQ]
  | cons x xs ih =>
    have hx : x ≠ sep := fun e => hs (by simp [e])
    simp only [List.cons_append, csvFieldsQ, hx, ↓reduceIte]
    rw [ih _ (fun h => hs (by simp [h]))]
    simp

theorem csvFieldsQ_plain (dq : Bool) (sep : Char) (s rest : Str) (acc : List Str) (hsep : sep ≠ '"')
    (hs : sep ∉ s) (hq : '"' ∉ s) :
    csvFieldsQ dq sep (s ++ sep :: rest) CsvSt.start [] acc = csvFieldsQ dq sep rest CsvSt.start [] (acc ++ [s]) := by
  cases s with
  | nil => simp [csvFieldsQ, hsep]
  | cons x xs =>
    have hx : x ≠ sep := fun e => hs (by simp [e])
    have hxq : x ≠ '"' := fun e => hq (by simp [e])
    simp only [List.cons_append, csvFieldsQ, hx, hxq, ↓reduceIte]
    rw [csvFieldsQ_inField dq sep xs rest _ acc (fun h => hs (by simp [h]))]
    simp

theorem csvFieldsQ_inQuoted (dq : Bool) (sep : Char) (q rest cur : Str) (acc : List Str) (hq : '"' ∉ q) :
    csvFieldsQ dq sep (q ++ '"' :: rest) CsvSt.inQuoted cur acc = csvFieldsQ dq sep rest CsvSt.quoteInQuoted (cur ++ q) acc := by
  induction q generalizing cur with
  | nil => simp [csvFieldsQ]
  | cons x xs ih =>
    have hx : x ≠ '"' := fun e => hq (by simp [e])
    simp only [List.cons_append, csvFieldsQ, hx, ↓reduceIte]
    rw [ih _ (fun h => hq (by simp [h]))]
    simp

theorem csvFieldsQ_quoted_last (dq : Bool) (sep : Char) (q : Str) (acc : List Str) (hq : '"' ∉ q) :
    csvFieldsQ dq sep ('"' :: q ++ ['"']) CsvSt.start [] acc = acc ++ [q] := by
  simp only [List.cons_append, csvFieldsQ, ↓reduceIte]
  have : q ++ ['"'] = q ++ '"' :: [] := rfl
  rw [this, csvFieldsQ_inQuoted dq sep q [] [] acc hq]
  simp [csvFieldsQ]

/-- the record of a line `uid sep tid sep "wkt"` -/
theorem csvRecordQ_row (dq : Bool) (sep : Char) (a b q : Str) (hsep : sep ≠ '"') (ha : IdOK sep a) (hb : IdOK sep b) (hq : '"' ∉ q) :
    csvRecordQ dq sep (a ++ sep :: (b ++ sep :: ('"' :: q ++ ['"']))) = [a, b, q] := by
  unfold csvRecordQ
  rw [csvFieldsQ_plain dq sep a _ _ hsep ha.1 ha.2.1, csvFieldsQ_plain dq sep b _ _ hsep hb.1 hb.2.1,
    csvFieldsQ_quoted_last dq sep q _ hq]
  simp

/-! ### the file -/

/-- a line of the file in the layout user id, track id, quoted WKT -/
def wktLine (sep : Char) (d : Nat) (t : Str × Str × List Pt) : Str :=
  t.1 ++ sep :: (t.2.1 ++ sep :: ('"' :: toWKT d t.2.2 ++ ['"']))

theorem wktFileLine_eq (sep : Char) (d : Nat) (t : Str × Str × List Pt) : wktFileLine sep true 2 0 1 d t = wktLine sep d t := by
  unfold wktFileLine wktLine wktCols
  simp [List.range_succ, joinChar]

/-- the track `readFromWkt` returns for a line -/
def expWTrack (d : Nat) (t : Str × Str × List Pt) : WTrack := ⟨some t.1, some t.2.1, t.2.2.map (expVertex d)⟩

/-- what is required of a track: ids that can be written bare, at least one vertex -/
def WTrackOK (sep : Char) (t : Str × Str × List Pt) : Prop := IdOK sep t.1 ∧ IdOK sep t.2.1 ∧ t.2.2 ≠ []

theorem wktLine_avoids (sep : Char) (d : Nat) (t : Str × Str × List Pt) (x : Char) (h1 : x ∉ t.1) (h2 : x ∉ t.2.1)
    (h3 : x ≠ sep) (h4 : x ≠ '"') (h5 : x ∉ toWKT d t.2.2) : x ∉ wktLine sep d t := by
  intro hc
  unfold wktLine at hc
  simp only [List.mem_append, List.mem_cons, List.not_mem_nil, or_false] at hc
  rcases hc with hc | hc | hc | hc | (hc | hc) | hc
  · exact h1 hc
  · exact h3 hc
  · exact h2 hc
  · exact h3 hc
  · exact h4 hc
  · exact h5 hc
  · exact h4 hc

theorem wktLine_clean (sep : Char) (hs : sep ≠ '\n' ∧ sep ≠ '\r') (d : Nat) (t : Str × Str × List Pt) (ht : WTrackOK sep t) :
    ∀ c ∈ wktLine sep d t, c ≠ '\n' ∧ c ≠ '\r' := by
  have hw1 := toWKT_avoids d t.2.2 '\n' (by decide) (by decide) (by decide) (by decide) (by decide) (by decide) (by decide)
  have hw2 := toWKT_avoids d t.2.2 '\r' (by decide) (by decide) (by decide) (by decide) (by decide) (by decide) (by decide)
  obtain ⟨h1, h2, _⟩ := ht
  have a1 := wktLine_avoids sep d t '\n' h1.2.2.1 h2.2.2.1 (Ne.symm hs.1) (by decide) hw1
  have a2 := wktLine_avoids sep d t '\r' h1.2.2.2 h2.2.2.2 (Ne.symm hs.2) (by decide) hw2
  intro c hc
  exact ⟨fun e => a1 (e ▸ hc), fun e => a2 (e ▸ hc)⟩

theorem wktReadRow_line (dq : Bool) (sep : Char) (hsep : sep ≠ '"') (hs : sep ≠ '\n' ∧ sep ≠ '\r') (hdr d : Nat)
    (t : Str × Str × List Pt) (ht : WTrackOK sep t) :
    wktReadRow ⟨2, 0, 1, sep, hdr, dq⟩ (csvRecordQ dq sep ((wktLine sep d t).filter (fun c => c ≠ '\n' ∧ c ≠ '\r')))
      = .ok (expWTrack d t) := by
  have hf : (wktLine sep d t).filter (fun c => c ≠ '\n' ∧ c ≠ '\r') = wktLine sep d t := by
    apply List.filter_eq_self.2
    intro c hc
    have := wktLine_clean sep hs d t ht c hc
    simp [this.1, this.2]
  rw [hf]
  unfold wktLine
  rw [csvRecordQ_row dq sep _ _ _ hsep ht.1 ht.2.1
    (toWKT_avoids d t.2.2 '"' (by decide) (by decide) (by decide) (by decide) (by decide) (by decide) (by decide))]
  unfold wktReadRow
  have h0 : ((0 : Int) ≥ 0) := by decide
  have h1 : ((1 : Int) ≥ 0) := by decide
  simp only [nth, List.getElem?_cons_succ, List.getElem?_cons_zero, wkt_roundtrip d t.2.2 ht.2.2, h0, h1, ↓reduceIte,
    Int.toNat_zero, Int.toNat_one, bind, Except.bind, pure, Except.pure]
  rfl

/-- **WKT file**: the file of the tracks of a collection — one line `uid sep tid sep "LINESTRING(…)"` per track, an optional
header line, optionally an empty line after each track — is read back by `readFromWkt(path, 2, 0, 1, sep, h, doublequote)` as
the same tracks in order: user id, track id, and every vertex with the planimetric coordinates written -/
theorem wkt_file_roundtrip (dq : Bool) (sep : Char) (hsep : sep ≠ '"') (hs : sep ≠ '\n' ∧ sep ≠ '\r') (hdr blank : Bool) (d : Nat)
    (tracks : List (Str × Str × List Pt)) (hok : ∀ t ∈ tracks, WTrackOK sep t) :
    readWktFile ⟨2, 0, 1, sep, if hdr then 1 else 0, dq⟩ (wktFile sep hdr true blank 2 0 1 d tracks)
      = .ok (tracks.map (expWTrack d)) := by
  unfold readWktFile wktFile
  simp only [wktFileLine_eq]
  -- the lines
  have hhdr : '\n' ∉ joinChar sep (wktCols 2 0 1 "user".toList "track".toList "wkt".toList) := by
    have e : joinChar sep (wktCols 2 0 1 "user".toList "track".toList "wkt".toList)
        = "user".toList ++ sep :: ("track".toList ++ sep :: "wkt".toList) := by
      unfold wktCols; simp [List.range_succ, joinChar]
    rw [e]
    intro h
    simp only [List.mem_append, List.mem_cons] at h
    rcases h with h | h | h | h | h
    · revert h; decide
    · exact hs.1 h.symm
    · revert h; decide
    · exact hs.1 h.symm
    · revert h; decide
  have hls : ∀ l ∈ (tracks.map (fun t => [wktLine sep d t] ++ (if blank then [[]] else []))).flatten, '\n' ∉ l := by
    intro l hl
    obtain ⟨ls, hls', hl⟩ := List.mem_flatten.1 hl
    obtain ⟨t, ht, rfl⟩ := List.mem_map.1 hls'
    rcases List.mem_append.1 hl with hl | hl
    · simp only [List.mem_singleton] at hl; subst hl
      exact fun hc => (wktLine_clean sep hs d t (hok t ht) _ hc).1 rfl
    · split at hl
      · simp only [List.mem_singleton] at hl; subst hl; simp
      · simp at hl
  rw [fileLines_flatten _ (by
    intro l hl
    rcases List.mem_append.1 hl with hl | hl
    · split at hl
      · simp only [List.mem_singleton] at hl; subst hl; exact hhdr
      · simp at hl
    · exact hls l hl)]
  -- the records after the header
  have hrec : ∀ ts : List (Str × Str × List Pt), (∀ t ∈ ts, WTrackOK sep t) →
      ((((ts.map (fun t => [wktLine sep d t] ++ (if blank then [[]] else []))).flatten).map
          (fun l => csvRecordQ dq sep (l.filter (fun c => c ≠ '\n' ∧ c ≠ '\r')))).filter (fun r => !r.isEmpty)).mapM
        (wktReadRow ⟨2, 0, 1, sep, if hdr then 1 else 0, dq⟩) = .ok (ts.map (expWTrack d)) := by
    intro ts hts
    induction ts with
    | nil => rfl
    | cons t rest ih =>
      have hrow := wktReadRow_line dq sep hsep hs (if hdr then 1 else 0) d t (hts t (by simp))
      have hne : (csvRecordQ dq sep ((wktLine sep d t).filter (fun c => c ≠ '\n' ∧ c ≠ '\r'))).isEmpty = false := by
        cases h : csvRecordQ dq sep ((wktLine sep d t).filter (fun c => c ≠ '\n' ∧ c ≠ '\r')) with
        | nil => rw [h] at hrow; simp [wktReadRow, nth, bind, Except.bind] at hrow
        | cons _ _ => rfl
      have ih' := ih (fun x hx => hts x (by simp [hx]))
      simp only [List.map_cons, List.flatten_cons, List.map_append, List.filter_append, List.mapM_append] at ih' ⊢
      cases blank
      · simp only [Bool.false_eq_true, ↓reduceIte, List.map_nil, List.filter_nil, List.append_nil, List.filter_cons, hne,
          Bool.not_false, List.mapM_cons, List.mapM_nil, hrow, bind, Except.bind, pure, Except.pure] at ih' ⊢
        rw [ih']
        rfl
      · simp only [↓reduceIte, List.map_cons, List.map_nil, List.filter_cons, List.filter_nil, hne, Bool.not_false,
          List.mapM_cons, List.mapM_nil, hrow, bind, Except.bind, pure, Except.pure] at ih' ⊢
        rw [ih']
        rfl
  cases hdr
  · simp only [Bool.false_eq_true, ↓reduceIte, List.nil_append, List.length_map, Nat.not_lt_zero, List.drop_zero]
    exact hrec tracks hok
  · simp only [↓reduceIte, List.singleton_append, List.map_cons, List.length_cons, List.length_map, List.drop_succ_cons, List.drop_zero]
    first
      | exact hrec tracks hok
      | (have : ¬ ((tracks.map (fun t => [wktLine sep d t] ++ (if blank then [[]] else []))).flatten.length + 1 < 1) := by omega
         simp only [this, ↓reduceIte]
         exact hrec tracks hok)

end TV.TextIO
