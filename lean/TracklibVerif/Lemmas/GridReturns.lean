import TracklibVerif.Lemmas.GridMain
/-! Nothing raises on a well-formed index of `Model/Grid.lean` (the upper-border repair): every cell returned by
`__cellsCrossSegment` for two points of the extent is inside the grid, so the registration loop, `request` and
`neighborhood` return for every vertex / query point of the closed extent, the upper border included. -/
namespace TV.Grid

theorem cellAppend_ok_of_get (g : Cells) (i j : Int) (c : List Nat) (d : Nat) (h : cellGet g i j = .ok c) :
    ∃ g', cellAppend g i j d = .ok g' := by
  obtain ⟨a, row, b, h1, h2, h3, h4⟩ := (cellGet_ok_iff g i j c).mp h
  exact ⟨_, (cellAppend_ok_iff g _ i j d).mpr ⟨a, row, b, c, h1, h2, h3, h4, rfl⟩⟩

section index
variable {α : Type}

/-- the cell is inside the grid -/
def InGrid (ix : Index α) (cell : Int × Int) : Prop :=
  (0 ≤ cell.1 ∧ cell.1 < ix.csize) ∧ (0 ≤ cell.2 ∧ cell.2 < ix.lsize)

theorem registerCell_ok (ix : Index α) (d : Nat) (cell : Int × Int) (hw : WF ix) (hc : InGrid ix cell) :
    ∃ ix', registerCell ix d cell = .ok ix' := by
  obtain ⟨⟨a1, a2⟩, b1, b2⟩ := hc
  obtain ⟨c, hcg⟩ := cellGet_ok_of_shape ix.grid _ _ hw.2 cell.1 cell.2 ⟨a1, by omega⟩ ⟨b1, by omega⟩
  obtain ⟨g', hg'⟩ := cellAppend_ok_of_get ix.grid cell.1 cell.2 c d hcg
  unfold registerCell
  simp only [hcg, hg']
  rw [if_neg (by omega), if_neg (by omega)]
  split_ifs <;> exact ⟨_, rfl⟩

theorem registerCells_ok (d : Nat) (cells : List (Int × Int)) (ix : Index α) (hw : WF ix)
    (hc : ∀ cell ∈ cells, InGrid ix cell) : ∃ ix', registerCells ix d cells = .ok ix' := by
  induction cells generalizing ix with
  | nil => exact ⟨ix, rfl⟩
  | cons cell rest ih =>
    obtain ⟨ix1, h1⟩ := registerCell_ok ix d cell hw (hc cell (by simp))
    obtain ⟨e1, w1, _⟩ := registerCell_spec ix ix1 d cell hw h1
    obtain ⟨_, _, _, _, e5, e6, _, _⟩ := e1.1
    have hc1 : ∀ c ∈ rest, InGrid ix1 c := by
      intro c hcm
      have := hc c (List.mem_cons_of_mem _ hcm)
      unfold InGrid at this ⊢
      rw [e5, e6]; exact this
    obtain ⟨ix2, h2⟩ := ih ix1 w1 hc1
    exact ⟨ix2, by unfold registerCells; simp only [h1, h2]⟩

end index

section scalar
variable {α : Type} [Field α] [LinearOrder α] [IsStrictOrderedRing α]

/-- an index on which nothing raises: well formed, at least one column and one row, positive cell sides, and the
fractional indices of the points of the extent are at most the grid dimensions (the cells cover the extent) -/
def Good (ix : Index α) : Prop := WF ix ∧ 1 ≤ ix.csize ∧ 1 ≤ ix.lsize ∧ 0 < ix.dX ∧ 0 < ix.dY ∧ Bounded ix

omit [IsStrictOrderedRing α] in
theorem Good.same {ix ix' : Index α} (h : Good ix) (hs : Same ix ix') (hw : WF ix') : Good ix' := by
  have hb := h.2.2.2.2.2.same hs
  obtain ⟨_, _, _, _, e5, e6, e7, e8⟩ := hs
  obtain ⟨_, a, b, c, d, _⟩ := h
  exact ⟨hw, by rw [e5]; exact a, by rw [e6]; exact b, by rw [e7]; exact c, by rw [e8]; exact d, hb⟩

omit [IsStrictOrderedRing α] in
theorem Good.nz {ix : Index α} (h : Good ix) : NZ ix :=
  (NZ_iff ix).mpr ⟨ne_of_gt h.2.2.2.1, ne_of_gt h.2.2.2.2.1⟩

omit [IsStrictOrderedRing α] in
theorem Good.bounded {ix : Index α} (h : Good ix) : Bounded ix := h.2.2.2.2.2

/-- the fractional indices of a point of the extent are non-negative, so their floors are -/
theorem floor_nonneg_of_getCell {fl : α → Int} (hf : IsFloor fl) (ix : Index α) (hg : Good ix) (p c : α × α)
    (hp : getCell ix p = some c) : 0 ≤ fl c.1 ∧ 0 ≤ fl c.2 := by
  obtain ⟨a1, a2, rfl⟩ := (getCell_some_iff ix p c).mp hp
  obtain ⟨_, _, _, hdX, hdY, _⟩ := hg
  constructor
  · have := hf.mono (div_nonneg (sub_nonneg.mpr a1.1) (le_of_lt hdX))
    rwa [hf.zero] at this
  · have := hf.mono (div_nonneg (sub_nonneg.mpr a2.1) (le_of_lt hdY))
    rwa [hf.zero] at this

/-- every cell returned by `__cellsCrossSegment` for two points of the extent is inside the grid -/
theorem cellsCross_inGrid {fl : α → Int} (hf : IsFloor fl) (ix : Index α) (hg : Good ix) (A B pA pB : α × α)
    (hA : getCell ix A = some pA) (hB : getCell ix B = some pB) :
    ∀ cell ∈ cellsCross fl ix.csize ix.lsize pA pB, InGrid ix cell := by
  intro cell hcell
  obtain ⟨a1, a2⟩ := floor_nonneg_of_getCell hf ix hg A pA hA
  obtain ⟨b1, b2⟩ := floor_nonneg_of_getCell hf ix hg B pB hB
  obtain ⟨_, hcs, hls, _, _⟩ := hg
  have hc : (cell.1, cell.2) ∈ cellsCross fl ix.csize ix.lsize pA pB := hcell
  rw [mem_cellsCross] at hc
  obtain ⟨⟨c1, c2⟩, ⟨c3, c4⟩, _⟩ := hc
  exact ⟨⟨by omega, by omega⟩, by omega, by omega⟩

/-- the cell of a point of the extent (`cellOf`: clamped floor) is inside the grid -/
theorem cellOf_inGrid {fl : α → Int} (hf : IsFloor fl) (ix : Index α) (hg : Good ix) (p c : α × α)
    (hp : getCell ix p = some c) : InGrid ix (cellOf fl ix c) := by
  obtain ⟨a1, a2⟩ := floor_nonneg_of_getCell hf ix hg p c hp
  obtain ⟨_, hcs, hls, _, _⟩ := hg
  unfold cellOf InGrid
  exact ⟨⟨by omega, by omega⟩, by omega, by omega⟩

/-- `addFeature` never raises on a good index when every vertex is inside the extent -/
theorem addFeatureLoop_ok {fl : α → Int} (hf : IsFloor fl) (num : Nat) (track : List (α × α)) (ix : Index α)
    (prev : Option (α × α)) (hg : Good ix) (hin : ∀ p ∈ prev.toList ++ track, getCell ix p ≠ none) :
    ∃ ix', addFeatureLoop fl num ix prev track = .ok ix' := by
  induction track generalizing ix prev with
  | nil => cases prev <;> exact ⟨ix, rfl⟩
  | cons c2 rest ih =>
    cases prev with
    | none =>
      obtain ⟨ix', h⟩ := ih ix (some c2) hg (by simpa using hin)
      exact ⟨ix', by simpa [addFeatureLoop] using h⟩
    | some c1 =>
      obtain ⟨p1, hp1⟩ := Option.ne_none_iff_exists'.mp (hin c1 (by simp))
      obtain ⟨p2, hp2⟩ := Option.ne_none_iff_exists'.mp (hin c2 (by simp))
      have hr1 := getCellR_of_nz ix hg.nz hg.bounded c1
      have hr2 := getCellR_of_nz ix hg.nz hg.bounded c2
      rw [hp1] at hr1
      rw [hp2] at hr2
      obtain ⟨ix1, hs⟩ := registerCells_ok num _ ix hg.1 (cellsCross_inGrid hf ix hg c1 c2 p1 p2 hp1 hp2)
      obtain ⟨e1, w1, _⟩ := registerCells_spec num _ ix ix1 hg.1 hs
      have hin1 : ∀ p ∈ (some c2).toList ++ rest, getCell ix1 p ≠ none := by
        intro p hp
        rw [getCell_same e1.1]
        apply hin
        simp only [Option.toList_some, List.singleton_append, List.mem_cons] at hp ⊢
        exact Or.inr hp
      obtain ⟨ix2, h2⟩ := ih ix1 (some c2) (hg.same e1.1 w1) hin1
      refine ⟨ix2, ?_⟩
      simp only [addFeatureLoop, hr1, hr2]
      have hs' : addSegment fl ix p1 p2 num = .ok ix1 := hs
      simp only [hs', h2]

/-- the registration loop of the constructor never raises on a good index when every vertex is inside the extent -/
theorem addFeatures_ok {fl : α → Int} (hf : IsFloor fl) (feats : List (List (α × α))) (ix : Index α) (num0 : Nat)
    (hg : Good ix) (hin : ∀ t ∈ feats, ∀ p ∈ t, getCell ix p ≠ none) :
    ∃ ix', addFeatures fl ix num0 feats = .ok ix' := by
  induction feats generalizing ix num0 with
  | nil => exact ⟨ix, rfl⟩
  | cons t rest ih =>
    have hin0 : ∀ p ∈ (none : Option (α × α)).toList ++ t, getCell ix p ≠ none := by
      intro p hp; exact hin t (by simp) p (by simpa using hp)
    obtain ⟨ix1, h1⟩ := addFeatureLoop_ok hf num0 t ix none hg hin0
    obtain ⟨e1, w1, _⟩ := addFeatureLoop_spec fl num0 t ix ix1 none hg.1 hg.bounded hin0 h1
    have hin1 : ∀ t' ∈ rest, ∀ p ∈ t', getCell ix1 p ≠ none := by
      intro t' ht' p hp
      rw [getCell_same e1.1]
      exact hin t' (List.mem_cons_of_mem _ ht') p hp
    obtain ⟨ix2, h2⟩ := ih ix1 (num0 + 1) (hg.same e1.1 w1) hin1
    refine ⟨ix2, ?_⟩
    unfold addFeatures
    have h1' : addFeature fl ix t num0 = .ok ix1 := h1
    simp only [h1', h2]

/-- the constructor returns for every non-empty collection, `margin ≥ 0` (0 included: vertices on the upper border
of the extent), default or positive cell size -/
theorem build_returns {fl : α → Int} (hf : IsFloor fl) (feats : List (List (α × α))) (res : Option (α × α)) (margin : α)
    (hm : 0 ≤ margin) (hres : ∀ r, res = some r → 0 < r.1 ∧ 0 < r.2) (hne : feats.flatten ≠ []) :
    ∃ ix, build fl feats res margin = .ok ix := by
  unfold build
  cases hbb : bboxOf feats.flatten with
  | none =>
    exfalso
    cases hfl : feats.flatten with
    | nil => exact hne hfl
    | cons p rest => rw [hfl] at hbb; simp [bboxOf] at hbb
  | some bb =>
    simp only
    obtain ⟨ix0, hmk, hcs, hls, hdX, hdY, _⟩ := mkIndex_builds hf bb res margin hres
    simp only [hmk]
    have hbounds := bboxOf_bounds _ bb hbb
    have hin0 : ∀ t ∈ feats, ∀ p ∈ t, getCell ix0 p ≠ none := by
      intro t ht p hp
      exact getCell_of_bbox fl bb res margin ix0 hmk hm p (hbounds p (List.mem_flatten.mpr ⟨t, ht, hp⟩))
    exact addFeatures_ok hf feats ix0 0 ⟨mkIndex_wf fl bb res margin ix0 hmk, hcs, hls, hdX, hdY,
      mkIndex_bounded hf bb res margin ix0 hres hmk⟩ hin0

/-- a built index is good -/
theorem build_good {fl : α → Int} (hf : IsFloor fl) (feats : List (List (α × α))) (res : Option (α × α)) (margin : α)
    (ix : Index α) (hm : 0 ≤ margin) (hres : ∀ r, res = some r → 0 < r.1 ∧ 0 < r.2)
    (hb : build fl feats res margin = .ok ix) : Good ix := by
  obtain ⟨hw, _⟩ := build_spec hf feats res margin ix hm hres hb
  obtain ⟨hcs, hls, hdX, hdY, tX, tY, _, _⟩ := build_grid hf feats res margin ix hm hres hb
  refine ⟨hw, hcs, hls, hdX, hdY, ?_⟩
  intro p c hp
  obtain ⟨a1, a2, rfl⟩ := (getCell_some_iff ix p c).mp hp
  exact ⟨(frac_index_range ix.xmin ix.xmax ix.dX p.1 ix.csize hdX hcs tX a1.1 a1.2).2,
    (frac_index_range ix.ymin ix.ymax ix.dY p.2 ix.lsize hdY hls tY a2.1 a2.2).2⟩

/-- `request(coord)` returns for every point of the extent -/
theorem requestPoint_ok {fl : α → Int} (hf : IsFloor fl) (ix : Index α) (hg : Good ix) (q c : α × α)
    (hq : getCell ix q = some c) : ∃ l, requestPoint fl ix q = .ok l := by
  obtain ⟨⟨a1, a2⟩, b1, b2⟩ := cellOf_inGrid hf ix hg q c hq
  obtain ⟨l, hl⟩ := cellGet_ok_of_shape ix.grid _ _ hg.1.2 _ _ ⟨a1, by omega⟩ ⟨b1, by omega⟩
  refine ⟨l, ?_⟩
  unfold requestPoint requestCell
  simp only [getCellR_of_nz ix hg.nz hg.bounded q, hq]
  exact hl

/-- `request([coord1, coord2])` (with an accumulator) returns when both ends are inside the extent -/
theorem requestSegInto_ok {fl : α → Int} (hf : IsFloor fl) (ix : Index α) (hg : Good ix) (tab : List Nat)
    (Q1 Q2 : α × α) (h1 : getCell ix Q1 ≠ none) (h2 : getCell ix Q2 ≠ none) :
    ∃ l, requestSegInto fl ix tab Q1 Q2 = .ok l := by
  obtain ⟨p1, hp1⟩ := Option.ne_none_iff_exists'.mp h1
  obtain ⟨p2, hp2⟩ := Option.ne_none_iff_exists'.mp h2
  unfold requestSegInto
  simp only [getCellR_of_nz ix hg.nz hg.bounded, hp1, hp2]
  exact collectCells_ok ix _ tab hg.1.2 (cellsCross_inGrid hf ix hg Q1 Q2 p1 p2 hp1 hp2)

/-- `request(track)` returns when every vertex is inside the extent -/
theorem requestTrackLoop_ok {fl : α → Int} (hf : IsFloor fl) (ix : Index α) (hg : Good ix) (track : List (α × α))
    (prev : Option (α × α)) (tab : List Nat) (hin : ∀ p ∈ prev.toList ++ track, getCell ix p ≠ none) :
    ∃ l, requestTrackLoop fl ix tab prev track = .ok l := by
  induction track generalizing prev tab with
  | nil => cases prev <;> exact ⟨tab, rfl⟩
  | cons p2 rest ih =>
    cases prev with
    | none =>
      obtain ⟨l, h⟩ := ih (some p2) tab (by simpa using hin)
      exact ⟨l, by simpa [requestTrackLoop] using h⟩
    | some p1 =>
      obtain ⟨tab', hs⟩ := requestSegInto_ok hf ix hg tab p1 p2 (hin p1 (by simp)) (hin p2 (by simp))
      obtain ⟨l, h⟩ := ih (some p2) tab' (by
        intro p hp
        apply hin
        simp only [Option.toList_some, List.singleton_append, List.mem_cons] at hp ⊢
        exact Or.inr hp)
      exact ⟨l, by simp only [requestTrackLoop, hs, h]⟩

/-- on a good index the fractional indices of a point of the extent lie in `[0, csize] × [0, lsize]` -/
theorem getCell_range_of_good (ix : Index α) (hg : Good ix) (p c : α × α)
    (hp : getCell ix p = some c) :
    (0 ≤ c.1 ∧ c.1 ≤ ((ix.csize : Int) : α)) ∧ (0 ≤ c.2 ∧ c.2 ≤ ((ix.lsize : Int) : α)) := by
  obtain ⟨b1, b2⟩ := hg.bounded p c hp
  obtain ⟨_, _, _, hdX, hdY, _⟩ := hg
  obtain ⟨a1, a2, rfl⟩ := (getCell_some_iff ix p c).mp hp
  exact ⟨⟨div_nonneg (sub_nonneg.mpr a1.1) (le_of_lt hdX), b1⟩, ⟨div_nonneg (sub_nonneg.mpr a2.1) (le_of_lt hdY), b2⟩⟩

theorem mem_of_consec {β : Type} (t : List β) (A B : β) (hAB : (A, B) ∈ Consec t) : A ∈ t ∧ B ∈ t := by
  induction t with
  | nil => simp [Consec] at hAB
  | cons a rest ih =>
    cases rest with
    | nil => simp [Consec] at hAB
    | cons b rest' =>
      simp only [Consec, List.mem_cons, Prod.mk.injEq] at hAB
      rcases hAB with ⟨rfl, rfl⟩ | hAB
      · simp
      · have := ih hAB
        exact ⟨List.mem_cons_of_mem _ this.1, List.mem_cons_of_mem _ this.2⟩

/-- `addFeature(track, num)` on an existing index (a later addition, `Network.addEdge` on an indexed network) whose
vertices are all inside the extent: it returns, nothing registered before is lost, the index stays good,
and every point of every segment of the track lies in a cell that lists `num` -/
theorem addFeature_complete {fl : α → Int} (hf : IsFloor fl) (ix : Index α) (hg : Good ix)
    (track : List (α × α)) (num : Nat) (hin : ∀ p ∈ track, getCell ix p ≠ none) :
    ∃ ix', addFeature fl ix track num = .ok ix' ∧ Good ix' ∧ Ext ix ix' ∧
      ∀ A B, (A, B) ∈ Consec track → ∀ s : α, 0 ≤ s → s ≤ 1 →
        ∃ c, getCell ix' (lerp A B s) = some c ∧ Holds ix'.grid (cellOf fl ix' c).1 (cellOf fl ix' c).2 num := by
  have hin0 : ∀ p ∈ (none : Option (α × α)).toList ++ track, getCell ix p ≠ none := by
    intro p hp; exact hin p (by simpa using hp)
  obtain ⟨ix', h⟩ := addFeatureLoop_ok hf num track ix none hg hin0
  obtain ⟨e, w, _, r⟩ := addFeatureLoop_spec fl num track ix ix' none hg.1 hg.bounded hin0 h
  refine ⟨ix', h, hg.same e.1 w, e, ?_⟩
  intro A B hAB s hs0 hs1
  obtain ⟨mA, mB⟩ := mem_of_consec track A B hAB
  obtain ⟨pA, hpA⟩ := Option.ne_none_iff_exists'.mp (hin A mA)
  obtain ⟨pB, hpB⟩ := Option.ne_none_iff_exists'.mp (hin B mB)
  have hP := getCell_lerp ix A B pA pB s hs0 hs1 hpA hpB
  obtain ⟨r1, r2⟩ := getCell_range_of_good ix hg _ _ hP
  refine ⟨lerp pA pB s, by rw [getCell_same e.1]; exact hP, ?_⟩
  have := r A B (by simpa using hAB) pA pB hpA hpB _
    (cellsCross_complete hf ix.csize ix.lsize pA pB s hs0 hs1 r1.2 r2.2)
  unfold cellOf
  rw [e.1.2.2.2.2.1, e.1.2.2.2.2.2.1]
  exact this

end scalar
end TV.Grid
