import TracklibVerif.Lemmas.ViterbiTable
/-! The decoder WITHOUT the hypothesis that every running cost stays below the `1e300` sentinel (`PathsBelow`).

`best_val = 1e300; best_ant = 0` and the strict `val < best_val` mean: a candidate of epoch `k+1` none of whose
predecessors has a value below the sentinel — every transition into it impossible (cost `+inf`, the logarithm of a
zero probability supplied by the user), or every predecessor itself unreachable — gets the value `1e300 + p` and the
back-pointer `0`. When adding a cost never decreases a value (`Infl`: non-negative or infinite costs) such a cell can
never come back below the sentinel, so: a value below the sentinel is the cost of the back-pointer path ending there,
values at or above it belong to candidates that no sequence of cost below the sentinel ends in. -/
namespace TV.Viterbi
variable {α : Type} [LinearOrder α]

/-- the scan never returns more than the sentinel, nor more than any scanned value (no hypothesis) -/
theorem scanMin_le (big : α) (f : Nat → α) (n : Nat) :
    (scanMin big f n).1 ≤ big ∧ ∀ m, m < n → (scanMin big f n).1 ≤ f m := by
  induction n with
  | zero => exact ⟨le_refl _, fun m hm => absurd hm (Nat.not_lt_zero _)⟩
  | succ n ih =>
    unfold scanMin
    split
    rename_i bv ba heq
    simp only [heq] at ih
    by_cases hlt : f n < bv
    · simp only [hlt, ↓reduceIte]
      refine ⟨le_trans (le_of_lt hlt) ih.1, fun m hm => ?_⟩
      rcases Nat.lt_succ_iff_lt_or_eq.mp hm with h | h
      · exact le_trans (le_of_lt hlt) (ih.2 m h)
      · subst h; exact le_refl _
    · simp only [hlt, ↓reduceIte]
      refine ⟨ih.1, fun m hm => ?_⟩
      rcases Nat.lt_succ_iff_lt_or_eq.mp hm with h | h
      · exact ih.2 m h
      · subst h; exact not_lt.mp hlt

/-- the two outcomes of the scan: a value below the sentinel, attained at the returned index; or — nothing scanned is
below the sentinel — exactly the start values `(1e300, 0)` -/
theorem scanMin_cases (big : α) (f : Nat → α) (n : Nat) :
    ((scanMin big f n).1 < big ∧ (scanMin big f n).2 < n ∧ (scanMin big f n).1 = f (scanMin big f n).2) ∨
    (scanMin big f n = (big, 0) ∧ ∀ m, m < n → ¬ f m < big) := by
  induction n with
  | zero => exact Or.inr ⟨rfl, fun m hm => absurd hm (Nat.not_lt_zero _)⟩
  | succ n ih =>
    unfold scanMin
    split
    rename_i bv ba heq
    simp only [heq] at ih
    by_cases hlt : f n < bv
    · simp only [hlt, ↓reduceIte]
      refine Or.inl ⟨?_, Nat.lt_succ_self n, trivial⟩
      rcases ih with ⟨h1, _, _⟩ | ⟨h1, _⟩
      · exact lt_trans hlt h1
      · have e : bv = big := congrArg Prod.fst h1
        rw [← e]; exact hlt
    · simp only [hlt, ↓reduceIte]
      rcases ih with ⟨h1, h2, h3⟩ | ⟨h1, h2⟩
      · exact Or.inl ⟨h1, by omega, h3⟩
      · refine Or.inr ⟨h1, fun m hm => ?_⟩
        rcases Nat.lt_succ_iff_lt_or_eq.mp hm with h | h
        · exact h2 m h
        · subst h
          have e : bv = big := congrArg Prod.fst h1
          rw [← e]; exact hlt

/-- **The sentinel cell.** A candidate `l` of epoch `k+1` none of whose predecessors offers a value below the sentinel:
`TAB_MRK[k+1][l] = 0` (the initial `best_ant`) and `TAB_VAL[k+1][l] = 1e300 + p` — not `+inf`. -/
theorem sentinel_cell (t : Tables α) (k l : Nat)
    (h : ∀ m, m < t.n k → ¬ t.add (t.trans k m l) (val t k m) < t.big) :
    mrk t k l = 0 ∧ val t (k+1) l = t.add t.big (t.obs (k+1) l) := by
  rcases scanMin_cases t.big (fun m => t.add (t.trans k m l) (val t k m)) (t.n k) with ⟨h1, h2, h3⟩ | ⟨h1, _⟩
  · exact absurd (h3 ▸ h1) (h _ h2)
  · refine ⟨?_, ?_⟩
    · unfold mrk; rw [h1]
    · simp only [val]; rw [h1]

/-- adding a cost of the tables never decreases the running value: true of `+` with non-negative (or infinite) costs -/
structure Infl (t : Tables α) (N : Nat) : Prop where
  trans : ∀ k m l a, k < N → m < t.n k → l < t.n (k+1) → a ≤ t.add (t.trans k m l) a
  obs : ∀ k l a, k ≤ N → l < t.n k → a ≤ t.add a (t.obs k l)

/-- every sequence ending in `σ k` at epoch `k` costs at least `TAB_VAL[k][σ k]` — with NO hypothesis on the sentinel
(the scan returns at most every scanned value) -/
theorem val_le_cost_any (t : Tables α) (hm : Mono t) (N : Nat) (σ : Nat → Nat) (hσ : ∀ k, k ≤ N → σ k < t.n k)
    (k : Nat) (hk : k ≤ N) : val t k (σ k) ≤ cost t σ k := by
  induction k with
  | zero => exact le_refl _
  | succ k ih =>
    unfold val cost
    apply hm.left
    exact le_trans ((scanMin_le t.big _ (t.n k)).2 (σ k) (hσ k (by omega))) (hm.right _ _ _ (ih (by omega)))

/-- a value below the sentinel is the cost of the back-pointer path that ends there -/
theorem cost_back_below (t : Tables α) (N : Nat) (hi : Infl t N) (k : Nat) :
    k ≤ N → ∀ l, l < t.n k → val t k l < t.big → cost t (back t k l) k = val t k l := by
  induction k with
  | zero => intro _ l _ _; simp [cost, val, back]
  | succ k ih =>
    intro hk l hl hv
    have hv' : t.add (scanMin t.big (fun m => t.add (t.trans k m l) (val t k m)) (t.n k)).1 (t.obs (k+1) l) < t.big := hv
    have hs : (scanMin t.big (fun m => t.add (t.trans k m l) (val t k m)) (t.n k)).1 < t.big :=
      lt_of_le_of_lt (hi.obs (k+1) l _ hk hl) hv'
    rcases scanMin_cases t.big (fun m => t.add (t.trans k m l) (val t k m)) (t.n k) with ⟨_, h2, h3⟩ | ⟨h1, _⟩
    · have h2' : mrk t k l < t.n k := h2
      have h3' : (scanMin t.big (fun m => t.add (t.trans k m l) (val t k m)) (t.n k)).1
          = t.add (t.trans k (mrk t k l) l) (val t k (mrk t k l)) := h3
      have hle : val t k (mrk t k l) ≤ t.add (t.trans k (mrk t k l) l) (val t k (mrk t k l)) :=
        hi.trans k (mrk t k l) l _ (by omega) h2' hl
      have hbelow : val t k (mrk t k l) < t.big := lt_of_le_of_lt hle (h3' ▸ hs)
      simp only [cost, val]
      rw [back_self]
      have e1 : back t (k+1) l k = mrk t k l := by rw [back_lt t k l k (by omega), back_self]
      have e2 : cost t (back t (k+1) l) k = cost t (back t k (mrk t k l)) k :=
        cost_congr t _ _ k (fun j hj => back_lt t k l j (by omega))
      rw [e1, e2, ih (by omega) (mrk t k l) h2' hbelow]
      congr 1
      exact h3'.symm
    · rw [h1] at hs
      exact absurd hs (lt_irrefl _)

/-- along the back-pointer path from a cell below the sentinel every cell is below the sentinel -/
theorem val_back_below (t : Tables α) (N : Nat) (hi : Infl t N) (K : Nat) :
    K ≤ N → ∀ l, l < t.n K → val t K l < t.big → ∀ j, j ≤ K → val t j (back t K l j) < t.big := by
  induction K with
  | zero =>
    intro _ l _ hv j hj
    have : j = 0 := by omega
    subst this
    simpa [back] using hv
  | succ K ih =>
    intro hK l hl hv j hj
    by_cases hjK : j = K + 1
    · subst hjK; rw [back_self]; exact hv
    · have hv' : t.add (scanMin t.big (fun m => t.add (t.trans K m l) (val t K m)) (t.n K)).1 (t.obs (K+1) l) < t.big := hv
      have hs : (scanMin t.big (fun m => t.add (t.trans K m l) (val t K m)) (t.n K)).1 < t.big :=
        lt_of_le_of_lt (hi.obs (K+1) l _ hK hl) hv'
      rcases scanMin_cases t.big (fun m => t.add (t.trans K m l) (val t K m)) (t.n K) with ⟨_, h2, h3⟩ | ⟨h1, _⟩
      · have h2' : mrk t K l < t.n K := h2
        have h3' : (scanMin t.big (fun m => t.add (t.trans K m l) (val t K m)) (t.n K)).1
            = t.add (t.trans K (mrk t K l) l) (val t K (mrk t K l)) := h3
        have hle : val t K (mrk t K l) ≤ t.add (t.trans K (mrk t K l) l) (val t K (mrk t K l)) :=
          hi.trans K (mrk t K l) l _ (by omega) h2' hl
        have hbelow : val t K (mrk t K l) < t.big := lt_of_le_of_lt hle (h3' ▸ hs)
        rw [back_lt t K l j (by omega)]
        exact ih (by omega) (mrk t K l) h2' hbelow j (by omega)
      · rw [h1] at hs
        exact absurd hs (lt_irrefl _)

/-- **Decoding without the sentinel hypothesis** (function style). `idk` a minimal entry of the last column, costs that
never decrease a value. (1) if SOME candidate sequence costs less than the sentinel, the minimal entry is below it;
(2) if it is, the values along the back-pointer path are the prefix costs of that path and the path costs no more than
ANY candidate sequence; (3) if every candidate sequence costs at least the sentinel, so does the recorded value. -/
theorem decoded_no_sentinel_hyp (t : Tables α) (hm : Mono t) (N : Nat) (hpos : ∀ k, k ≤ N → 0 < t.n k)
    (hi : Infl t N) (idk : Nat) (h1 : idk < t.n N) (hmin : ∀ l', l' < t.n N → val t N idk ≤ val t N l') :
    ((∃ σ : Nat → Nat, (∀ k, k ≤ N → σ k < t.n k) ∧ cost t σ N < t.big) → val t N idk < t.big) ∧
    (val t N idk < t.big →
      (∀ j, j ≤ N → val t j (back t N idk j) = cost t (back t N idk) j) ∧
      ∀ σ : Nat → Nat, (∀ k, k ≤ N → σ k < t.n k) → cost t (back t N idk) N ≤ cost t σ N) ∧
    ((∀ σ : Nat → Nat, (∀ k, k ≤ N → σ k < t.n k) → t.big ≤ cost t σ N) → t.big ≤ val t N idk) := by
  have hreal : val t N idk < t.big →
      (∀ j, j ≤ N → val t j (back t N idk j) = cost t (back t N idk) j) ∧
      ∀ σ : Nat → Nat, (∀ k, k ≤ N → σ k < t.n k) → cost t (back t N idk) N ≤ cost t σ N := by
    intro hv
    refine ⟨fun j hj => ?_, fun σ hσ => ?_⟩
    · have hb := val_back_below t N hi N (Nat.le_refl _) idk h1 hv j hj
      rw [← cost_back_below t N hi j hj (back t N idk j) (back_lt_n t N idk hpos h1 j hj) hb]
      exact cost_congr t _ _ j (fun i hi' => back_back t N idk j i hj hi')
    · rw [cost_back_below t N hi N (Nat.le_refl _) idk h1 hv]
      exact le_trans (hmin _ (hσ N (Nat.le_refl _))) (val_le_cost_any t hm N σ hσ N (Nat.le_refl _))
  refine ⟨?_, hreal, ?_⟩
  · rintro ⟨σ, hσ, hc⟩
    exact lt_of_le_of_lt (le_trans (hmin _ (hσ N (Nat.le_refl _))) (val_le_cost_any t hm N σ hσ N (Nat.le_refl _))) hc
  · intro hall
    by_contra hlt
    have hv : val t N idk < t.big := not_le.mp hlt
    have hc := cost_back_below t N hi N (Nat.le_refl _) idk h1 hv
    have := hall (back t N idk) (fun k hk => back_lt_n t N idk hpos h1 k hk)
    rw [hc] at this
    exact absurd hv (not_lt.mpr this)

/-! ### numpy.argmin and NaN (any type with `<` and `==`; in a linear order nothing is a NaN: `argmin?_spec`) -/
section nan
variable {β : Type} [LT β] [DecidableLT β] [BEq β]

theorem argminFrom_first_nan (xs : List β) : ∀ (best : β) (bi i j : Nat) (x : β),
    xs[j]? = some x → isNaN x = true → (∀ j' y, j' < j → xs[j']? = some y → isNaN y = false) →
    argminFrom best bi i xs = i + j := by
  induction xs with
  | nil => intro best bi i j x h; simp at h
  | cons a xs ih =>
    intro best bi i j x h hx hb
    cases j with
    | zero =>
      simp only [List.getElem?_cons_zero, Option.some.injEq] at h
      subst h
      simp [argminFrom, hx]
    | succ j =>
      have ha : isNaN a = false := hb 0 a (Nat.succ_pos _) (by simp)
      have h' : xs[j]? = some x := by simpa using h
      have hb' : ∀ j' y, j' < j → xs[j']? = some y → isNaN y = false :=
        fun j' y hj' hy => hb (j'+1) y (by omega) (by simpa using hy)
      simp only [argminFrom, ha, Bool.false_eq_true, ↓reduceIte]
      split
      · rw [ih a i (i+1) j x h' hx hb']; omega
      · rw [ih best bi (i+1) j x h' hx hb']; omega

/-- **numpy's NaN rule.** When the column holds a NaN, `numpy.argmin` returns the index of the FIRST one — whatever the
other entries are (smaller numbers, `-inf`) -/
theorem argmin?_first_nan (xs : List β) (j : Nat) (x : β) (h : xs[j]? = some x) (hx : isNaN x = true)
    (hb : ∀ j' y, j' < j → xs[j']? = some y → isNaN y = false) : argmin? xs = some j := by
  cases xs with
  | nil => simp at h
  | cons a xs =>
    cases j with
    | zero =>
      simp only [List.getElem?_cons_zero, Option.some.injEq] at h
      subst h
      simp [argmin?, hx]
    | succ j =>
      have ha : isNaN a = false := hb 0 a (Nat.succ_pos _) (by simp)
      have h' : xs[j]? = some x := by simpa using h
      have hb' : ∀ j' y, j' < j → xs[j']? = some y → isNaN y = false :=
        fun j' y hj' hy => hb (j'+1) y (by omega) (by simpa using hy)
      simp only [argmin?, ha, Bool.false_eq_true, ↓reduceIte]
      rw [argminFrom_first_nan xs a 0 1 j x h' hx hb']
      congr 1; omega
end nan
end TV.Viterbi
