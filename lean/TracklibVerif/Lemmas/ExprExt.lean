import TracklibVerif.Lemmas.Expr
/-! Externals (`Track.operate(expression, {'name': value})`): with an empty dictionary the machine that reads
externals is the machine of the theorems. -/
namespace TV.Expr
variable {α : Type} [Scalar α]

theorem evalRPNx_nil (toks : List Str) : ∀ (tr : Tr α) (st : List (Item α)) (k : Nat),
    evalRPNx [] tr toks st k = evalRPN tr toks st k := by
  induction toks with
  | nil => intro tr st k; rfl
  | cons e es ih =>
    intro tr st k
    simp only [evalRPNx, evalRPN, lookupExt]
    cases isOperatorTok e with
    | none => exact ih tr _ k
    | some o =>
      cases st with
      | nil => rfl
      | cons op2 st1 =>
        cases st1 with
        | nil => rfl
        | cons op1 st' =>
          simp only
          cases h : applyOperation tr op1 op2 o k with
          | mk r tr1 =>
            cases r with
            | error err => rfl
            | ok v => exact ih tr1 _ (k + 1)

theorem evalTokensX_nil (tr : Tr α) (rpn : List Str) (void : Bool) : evalTokensX [] tr rpn void = evalTokens tr rpn void := by
  unfold evalTokensX evalTokens
  rw [evalRPNx_nil]

theorem evaluateRewrittenX_nil (tr : Tr α) (s : Str) (void : Bool) :
    evaluateRewrittenX [] tr s void = evaluateRewritten tr s void := by
  unfold evaluateRewrittenX evaluateRewritten
  simp only [evalTokensX_nil]

theorem evaluateX_nil (tr : Tr α) (expr : Str) : evaluateX [] tr expr = evaluate tr expr := by
  unfold evaluateX evaluate
  simp only [evaluateRewrittenX_nil]

/-- `Track.operate(expr, {})` is `Track.operate(expr)` -/
theorem operateX_nil (tr : Tr α) (expr : Str) : operateX [] tr expr = operate tr expr := by
  unfold operateX operate
  rw [evaluateX_nil]

end TV.Expr
