import TracklibVerif.Model.DTWInt64
import TracklibVerif.Lemmas.FDTW
import Mathlib.Tactic.Ring
import Mathlib.Tactic.Linarith
import Mathlib.Algebra.Field.Basic
/-! int64 arithmetic (`wrap64`, `ipow64`) and the dependence of `_fdtw` on its accumulation: only its values on the point distances of
the two tracks matter (`fdtw_congr`). -/
namespace TV.DTW

theorem wrap64_of_range (n : Int) (h1 : -9223372036854775808 ≤ n) (h2 : n < 9223372036854775808) : wrap64 n = n := by
  unfold wrap64; omega

theorem wrap64_range (n : Int) : -9223372036854775808 ≤ wrap64 n ∧ wrap64 n < 9223372036854775808 := by
  unfold wrap64; omega

/-- an int64 value differs from the integer it stands for by a multiple of 2^64 -/
theorem wrap64_eq (n : Int) : ∃ c : Int, wrap64 n = n + 18446744073709551616 * c := by
  refine ⟨-((n + 9223372036854775808) / 18446744073709551616), ?_⟩
  unfold wrap64
  rw [Int.emod_def]
  ring

theorem wrap64_add_mul (n c : Int) : wrap64 (n + 18446744073709551616 * c) = wrap64 n := by
  unfold wrap64
  have : n + 18446744073709551616 * c + 9223372036854775808 = (n + 9223372036854775808) + 18446744073709551616 * c := by ring
  rw [this, Int.add_mul_emod_self_left]

/-- reducing a factor first does not change the reduced product -/
theorem wrap64_wrap_mul (x y : Int) : wrap64 (wrap64 x * y) = wrap64 (x * y) := by
  obtain ⟨c, hc⟩ := wrap64_eq x
  rw [hc]
  have : (x + 18446744073709551616 * c) * y = x * y + 18446744073709551616 * (c * y) := by ring
  rw [this, wrap64_add_mul]

/-- **`B ** k` in int64 is the exact power reduced modulo 2^64** (whatever the order in which numpy multiplies) -/
theorem ipow64_eq_wrap (b : Int) : ∀ k : Nat, ipow64 b k = wrap64 (b ^ k)
  | 0 => by simp only [ipow64, pow_zero]; exact (wrap64_of_range 1 (by decide) (by decide)).symm
  | k+1 => by
    simp only [ipow64, mul64]
    rw [ipow64_eq_wrap b k, wrap64_wrap_mul, pow_succ]

/-- no wrap-around while the exact power fits -/
theorem ipow64_exact (b : Int) (k : Nat) (h0 : 0 ≤ b) (h : b ^ k < 9223372036854775808) : ipow64 b k = b ^ k := by
  rw [ipow64_eq_wrap]
  exact wrap64_of_range _ (by have := pow_nonneg h0 k; linarith) h

/-- the model's `B**k` by repeated multiplication is the power -/
theorem npow_int (b : Int) : ∀ k : Nat, npow b k = b ^ k
  | 0 => by simp [npow]
  | 1 => by simp [npow]
  | k+2 => by rw [npow, npow_int b (k+1)]; ring

section congr
variable {α : Type} [Add α] [Sub α] [Mul α] [Div α] [LT α] [LE α] [DecidableLT α] [DecidableLE α] [OfNat α 0]

omit [Add α] [OfNat α 0] [Sub α] [Mul α] [Div α] [LE α] [DecidableLE α] in
theorem relax_congr (big : α) (w w' : α → α → α) (D : Nat → Nat → Option α)
    (h : ∀ a d i j, D i j = some d → w a d = w' a d) (node : Nat × Nat) (tij : α) (cond : Bool) (y : Nat × Nat) (st : FState α) :
    relax big w D node tij cond y st = relax big w' D node tij cond y st := by
  unfold relax
  cases cond with
  | false => rfl
  | true =>
    simp only [if_true]
    cases hD : D y.1 y.2 with
    | none => rfl
    | some d => simp only [Option.map_some, h tij d y.1 y.2 hD]

omit [Add α] [Sub α] [Mul α] [Div α] [LE α] [DecidableLE α] in
theorem fdtwLoop_congr (big : α) (w w' : α → α → α) (D : Nat → Nat → Option α)
    (h : ∀ a d i j, D i j = some d → w a d = w' a d) (n1 n2 : Nat) :
    ∀ (fuel : Nat) (st : FState α), fdtwLoop big w D n1 n2 fuel st = fdtwLoop big w' D n1 n2 fuel st
  | 0, _ => rfl
  | fuel+1, st => by
    unfold fdtwLoop
    cases popSmallest st.F with
    | none => rfl
    | some e =>
      simp only [relax_congr big w w' D h, fdtwLoop_congr big w w' D h n1 n2 fuel]

omit [Mul α] [Div α] [LE α] [DecidableLE α] in
/-- **`_fdtw` depends on the accumulation only through its values on the point distances of the two tracks** -/
theorem fdtwOn_congr (dist : Pt α → Pt α → α) (big : α) (w w' : α → α → α) (rows0 : List (Row α)) (t1 t2 : List (Pt α))
    (h : ∀ a d i j, cellAt (distCols dist t1 t2) i j = some d → w a d = w' a d) :
    fdtwOn dist big w rows0 t1 t2 = fdtwOn dist big w' rows0 t1 t2 := by
  unfold fdtwOn
  simp only [Option.bind_eq_bind]
  cases hd : cellAt (distCols dist t1 t2) 0 0 with
  | none => rfl
  | some d00 =>
    simp only [Option.bind_some]
    rw [h 0 d00 0 0 hd, fdtwLoop_congr big w w' _ h]

end congr

section field
variable {α : Type} [Field α]

theorem npow_eq_pow_field (b : α) : ∀ k : Nat, npow b k = b ^ k
  | 0 => by simp [npow]
  | 1 => by simp [npow]
  | k+2 => by rw [npow, npow_eq_pow_field b (k+1)]; ring

omit [Field α] in
/-- a cell of the distance matrix is the distance of an observation of track2 to one of track1 -/
theorem cellAt_distCols_mem (dist : Pt α → Pt α → α) (t1 t2 : List (Pt α)) (i j : Nat) (d : α)
    (h : cellAt (distCols dist t1 t2) i j = some d) : ∃ p ∈ t2, ∃ q ∈ t1, d = dist p q := by
  unfold cellAt distCols at h
  rw [List.getElem?_map] at h
  cases hq : t1[j]? with
  | none => rw [hq] at h; simp at h
  | some q =>
    rw [hq] at h
    simp only [Option.map_some, Option.bind_some, List.getElem?_map] at h
    cases hp : t2[i]? with
    | none => rw [hp] at h; simp at h
    | some p =>
      rw [hp] at h
      simp only [Option.map_some, Option.some.injEq] at h
      exact ⟨p, List.mem_of_getElem? hp, q, List.mem_of_getElem? hq, h.symm⟩

end field
end TV.DTW
