import TracklibVerif.Lemmas.SplitLimit
/-! Helper lemmas for C11: index-list split, the feature table of `segmentation()`, `Ext`. -/
namespace TV.Split
variable {β : Type}

/-- the pieces `split(track, [i0, i1, …])` is meant to return: observations `i_k .. i_{k+1}`, both ends included -/
def idxPieces (l : List β) : List Nat → List (List β)
  | a :: b :: rest => ((l.drop a).take (b + 1 - a)) :: idxPieces l (b :: rest)
  | _ => []

theorem splitIdx_sorted (short : List β → Bool) (l : List β) (src : List Nat)
    (hs : src.Pairwise (· ≤ ·)) (hb : ∀ a ∈ src, a < l.length) :
    splitIdx short l (src.map (fun (k : Nat) => (k : Int))) = some ((idxPieces l src).filter (fun p => !short p)) := by
  induction src with
  | nil => rfl
  | cons a rest ih =>
    cases rest with
    | nil => rfl
    | cons b rest =>
      have hab : a ≤ b := (List.pairwise_cons.mp hs).1 b List.mem_cons_self
      have hbl : b < l.length := hb b (by simp)
      have ih' := ih (List.pairwise_cons.mp hs).2 (fun x hx => hb x (List.mem_cons_of_mem _ hx))
      simp only [List.map_cons] at ih' ⊢
      simp only [splitIdx, extract_range l a b hab hbl, ih', idxPieces, List.filter_cons]
      cases short (List.take (b + 1 - a) (List.drop a l)) <;> simp

theorem idxPieces_length (l : List β) (src : List Nat) : (idxPieces l src).length = src.length - 1 := by
  induction src with
  | nil => rfl
  | cons a rest ih =>
    cases rest with
    | nil => rfl
    | cons b rest => simp only [idxPieces, List.length_cons] at ih ⊢; omega
end TV.Split

namespace TV.Split
/-! ### `Ext`: `¬ a ≤ b ↔ b < a` -/
theorem Ext.not_le (a b : Ext) : ¬ a ≤ b ↔ b < a := by
  show ¬ Ext.le a b = true ↔ Ext.lt b a = true
  cases a <;> cases b <;> simp [Ext.le, Ext.lt, Rat.not_le]

theorem Ext.fin_le (x y : Rat) : (Ext.fin x ≤ Ext.fin y) ↔ x ≤ y := by
  show Ext.le _ _ = true ↔ _
  simp [Ext.le]

theorem Ext.fin_lt (x y : Rat) : (Ext.fin x < Ext.fin y) ↔ x < y := by
  show Ext.lt _ _ = true ↔ _
  simp [Ext.lt]
end TV.Split

namespace TV.Split
/-! ### the feature table -/
variable {α : Type}

/-- the map used by `setCol` -/
def setF (name : String) (col : Col α) (p : String × Col α) : String × Col α := if p.1 == name then (p.1, col) else p

theorem setCol_feats (t : FTrack α) (name : String) (col : Col α) :
    (t.setCol name col).feats = t.feats.map (setF name col) := rfl

theorem lookup_setF_ne (feats : List (String × Col α)) (name other : String) (col : Col α) (h : other ≠ name) :
    (feats.map (setF name col)).lookup other = feats.lookup other := by
  induction feats with
  | nil => rfl
  | cons p ps ih =>
    obtain ⟨k, c⟩ := p
    by_cases hk : k = name
    · subst hk
      have : (other == k) = false := by simpa using h
      simp [setF, List.lookup_cons, this, ih]
    · have hk' : (k == name) = false := by simpa using hk
      simp only [List.map_cons, setF, hk', List.lookup_cons, Bool.false_eq_true, if_false]
      rw [ih]

theorem lookup_setF_eq (feats : List (String × Col α)) (name : String) (col : Col α)
    (h : feats.any (fun p => p.1 == name) = true) :
    (feats.map (setF name col)).lookup name = some col := by
  induction feats with
  | nil => simp at h
  | cons p ps ih =>
    obtain ⟨k, c⟩ := p
    by_cases hk : k = name
    · subst hk
      simp [setF]
    · have hk' : (k == name) = false := by simpa using hk
      have hk'' : (name == k) = false := by simpa using (fun e : name = k => hk e.symm)
      simp only [List.any_cons, hk', Bool.false_or] at h
      simp only [List.map_cons, setF, hk', List.lookup_cons, hk'', Bool.false_eq_true, if_false]
      exact ih h

theorem names_setF (feats : List (String × Col α)) (name : String) (col : Col α) :
    (feats.map (setF name col)).map Prod.fst = feats.map Prod.fst := by
  induction feats with
  | nil => rfl
  | cons p ps ih =>
    simp only [List.map_cons, ih]
    congr 1
    unfold setF
    split <;> rfl

theorem lookup_append_ne (feats : List (String × Col α)) (name other : String) (col : Col α) (h : other ≠ name) :
    (feats ++ [(name, col)]).lookup other = feats.lookup other := by
  induction feats with
  | nil =>
    have : (other == name) = false := by simpa using h
    simp [List.lookup_cons, this]
  | cons p ps ih =>
    obtain ⟨k, c⟩ := p
    simp only [List.cons_append, List.lookup_cons, ih]

theorem any_append_self (feats : List (String × Col α)) (name : String) (col : Col α) :
    (feats ++ [(name, col)]).any (fun p => p.1 == name) = true := by simp

section create
variable [OfNat α 0]

theorem create_has (t : FTrack α) (name : String) : (t.create name).has name = true := by
  unfold FTrack.create
  cases h : t.has name with
  | true => simpa using h
  | false => simp [FTrack.has]

theorem create_size (t : FTrack α) (name : String) : (t.create name).size = t.size := by
  unfold FTrack.create; split <;> rfl

theorem create_virt (t : FTrack α) (name : String) : (t.create name).virt = t.virt := by
  unfold FTrack.create; split <;> rfl

theorem create_get_ne (t : FTrack α) (name other : String) (h : other ≠ name) :
    (t.create name).get other = t.get other := by
  unfold FTrack.create
  split
  · rfl
  · simp only [FTrack.get]
    rw [lookup_append_ne _ _ _ _ h]

theorem create_of_has (t : FTrack α) (name : String) (h : t.has name = true) : t.create name = t := by
  unfold FTrack.create; simp [h]
end create

theorem setCol_get_ne (t : FTrack α) (name other : String) (col : Col α) (h : other ≠ name) :
    (t.setCol name col).get other = t.get other := by
  simp only [FTrack.get, setCol_feats]
  rw [lookup_setF_ne _ _ _ _ h]
  rfl

theorem setCol_get_eq (t : FTrack α) (name : String) (col : Col α) (h : t.has name = true)
    (hv : t.virt.lookup name = none) : (t.setCol name col).get name = some col := by
  simp only [FTrack.get, setCol_feats]
  rw [show (t.setCol name col).virt = t.virt from rfl, hv]
  exact lookup_setF_eq _ _ _ h

theorem setCol_setCol (t : FTrack α) (name : String) (c c' : Col α) :
    (t.setCol name c).setCol name c' = t.setCol name c' := by
  simp only [FTrack.setCol, List.map_map]
  congr 1
  apply List.map_congr_left
  intro p _
  simp only [Function.comp]
  by_cases hp : (p.1 == name) = true <;> simp [hp]

theorem setCol_has (t : FTrack α) (name other : String) (c : Col α) :
    (t.setCol name c).has other = t.has other := by
  simp only [FTrack.has, FTrack.setCol, List.any_map]
  congr 1
  funext p
  simp only [Function.comp]
  by_cases hp : (p.1 == name) = true <;> simp [hp]

/-- the rows read by `segmentation()` only depend on the columns of the tested features -/
theorem rows_congr (t t' : FTrack α) (afs : List String) (hs : t.size = t'.size)
    (h : ∀ a ∈ afs, t.get a = t'.get a) : t.rows afs = t'.rows afs := by
  have hm : afs.mapM t.get = afs.mapM t'.get := by
    induction afs with
    | nil => rfl
    | cons a rest ih =>
      simp only [List.mapM_cons, h a List.mem_cons_self, ih (fun x hx => h x (List.mem_cons_of_mem _ hx))]
  simp only [FTrack.rows, hm, hs]

theorem mapM_some_length {γ δ : Type} (f : γ → Option δ) : ∀ (l : List γ) (r : List δ), l.mapM f = some r → r.length = l.length
  | [], r, h => by simp at h; subst h; rfl
  | a :: l, r, h => by
    rw [List.mapM_cons] at h
    cases hf : f a with
    | none => simp [hf] at h
    | some b =>
      cases hl : l.mapM f with
      | none => simp [hf, hl] at h
      | some bs =>
        simp [hf, hl] at h
        subst h
        simp [mapM_some_length f l bs hl]

theorem rows_length (t : FTrack α) (afs : List String) (rows : List (List (Option α))) (h : t.rows afs = some rows) :
    rows.length = t.size ∧ ∀ r ∈ rows, r.length = afs.length := by
  unfold FTrack.rows at h
  cases hm : afs.mapM t.get with
  | none => simp [hm] at h
  | some cols =>
    simp only [hm, Option.some.injEq] at h
    subst h
    have hl := mapM_some_length _ _ _ hm
    refine ⟨by simp, ?_⟩
    intro r hr
    simp only [List.mem_map] at hr
    obtain ⟨i, _, rfl⟩ := hr
    simp [hl]
end TV.Split

namespace TV.Split
variable {α : Type}

theorem mapM_isSome {γ δ : Type} (f : γ → Option δ) : ∀ (l : List γ), (∀ a ∈ l, (f a).isSome = true) → ∃ r, l.mapM f = some r
  | [], _ => ⟨[], rfl⟩
  | a :: l, h => by
    obtain ⟨b, hb⟩ := Option.isSome_iff_exists.mp (h a List.mem_cons_self)
    obtain ⟨bs, hbs⟩ := mapM_isSome f l (fun x hx => h x (List.mem_cons_of_mem _ hx))
    exact ⟨b :: bs, by simp [List.mapM_cons, hb, hbs]⟩

variable [LE α] [DecidableLE α]

/-- with at least as many thresholds as tested features the inner loop never raises -/
theorem foldCmp_isSome (fmax : α) (andMode : Bool) (ths : List α) : ∀ (vals : List (Option α)) (idx : Nat) (acc : Bool),
    idx + vals.length ≤ ths.length → ∃ r, foldCmp fmax andMode ths idx vals acc = some r := by
  intro vals
  induction vals with
  | nil => intro idx acc _; exact ⟨acc, rfl⟩
  | cons x vs ih =>
    intro idx acc hlen
    simp only [List.length_cons] at hlen
    cases x with
    | none => simpa [foldCmp] using ih (idx + 1) acc (by omega)
    | some v =>
      have hidx : idx < ths.length := by omega
      simpa [foldCmp, threshold_lt fmax ths idx hidx] using ih (idx + 1) _ (by omega)

theorem marker_isSome (fmax : α) (andMode : Bool) (ths : List α) (vals : List (Option α)) (h : vals.length ≤ ths.length) :
    ∃ b, marker fmax andMode ths vals = some b := by
  obtain ⟨r, hr⟩ := foldCmp_isSome fmax andMode ths vals 0 andMode (by omega)
  exact ⟨!r, by simp [marker, hr]⟩
end TV.Split

namespace TV.Split
variable {α : Type} [LE α] [DecidableLE α]

/-- thresholds beyond the number of tested features are never read -/
theorem foldCmp_extra (fmax : α) (andMode : Bool) (ths extra : List α) : ∀ (vals : List (Option α)) (idx : Nat) (acc : Bool),
    idx + vals.length ≤ ths.length →
    foldCmp fmax andMode (ths ++ extra) idx vals acc = foldCmp fmax andMode ths idx vals acc := by
  intro vals
  induction vals with
  | nil => intro idx acc _; rfl
  | cons x vs ih =>
    intro idx acc hlen
    simp only [List.length_cons] at hlen
    cases x with
    | none => simpa [foldCmp] using ih (idx + 1) acc (by omega)
    | some v =>
      have hidx : idx < ths.length := by omega
      have hidx' : idx < (ths ++ extra).length := by simp; omega
      simp only [foldCmp, threshold_lt fmax ths idx hidx, threshold_lt fmax (ths ++ extra) idx hidx',
        List.getElem_append_left hidx]
      exact ih (idx + 1) _ (by omega)

/-- fewer thresholds than tested features: the loop raises `IndexError` as soon as the feature at position
`len(thresholds_max)` has a non-NaN value (the guard is `len(thresholds_max) >= index`) -/
theorem foldCmp_index_error (fmax : α) (andMode : Bool) (ths : List α) : ∀ (vals : List (Option α)) (idx : Nat) (acc : Bool) (v : α),
    idx ≤ ths.length → vals[ths.length - idx]? = some (some v) →
    foldCmp fmax andMode ths idx vals acc = none := by
  intro vals
  induction vals with
  | nil => intro idx acc v _ h; simp at h
  | cons x vs ih =>
    intro idx acc v hle h
    by_cases he : idx = ths.length
    · subst he
      simp only [Nat.sub_self, List.getElem?_cons_zero, Option.some.injEq] at h
      subst h
      simp [foldCmp, threshold]
    · have hidx : idx < ths.length := by omega
      have hs : ths.length - idx = (ths.length - (idx + 1)) + 1 := by omega
      rw [hs, List.getElem?_cons_succ] at h
      cases x with
      | none => simpa [foldCmp] using ih (idx + 1) acc v (by omega) h
      | some w =>
        simp only [foldCmp, threshold_lt fmax ths idx hidx]
        exact ih (idx + 1) _ v (by omega) h
end TV.Split
