import TracklibVerif.Model.GeoHeap
import TracklibVerif.Lemmas.GeoTrack
/-! Helper lemmas for C14, histories on the object heap (`Model/GeoHeap.lean`):
* frame: no operation other than `set` touches an object that exists (`*_frame`);
* the method dispatch `callConv` computes the functions of `Model/Geo.lean` from the values the objects hold at the time
  of the call (`callConv_*`);
* simulation: a track whose positions all have the class of the first one, read through the heap (`Abs`), evolves under
  the heap-level `Track.to…Coords` exactly as the pure `Track` of `Model/Geo.lean` does (`trackTo*_sim`), errors included;
* the objects a whole-track conversion binds to the track are new ones (`rebind_fresh`), so that later updates of older
  objects do not reach the track (`Abs_set_old`). -/
namespace TV.Geo

section
variable {α : Type}

/-- the point base a `GeoCoords`/`ECEFCoords` object is now -/
def objBase (o : Obj α) : Option (Base α) :=
  match o.kind with
  | .geo => some (.geo o.v)
  | .ecef => some (.ecef o.v)
  | .enu => none

/-- what a Python value is for the pure model: `None` ↦ `none`, an int ↦ an SRID, a reference to a `GeoCoords`/`ECEFCoords`
object ↦ the point base it holds now; undefined for a dangling reference and for an `ENUCoords` object -/
def valArg (heap : List (Obj α)) : Val → Option (Option (BaseArg α))
  | .none => some none
  | .int n => some (some (.srid n))
  | .ref i =>
    match heap[i]? with
    | some o => (objBase o).map (fun b => some (.pt b))
    | none => none

/-- the objects behind a list of references -/
def derefAll (heap : List (Obj α)) : List Nat → Option (List (Obj α))
  | [] => some []
  | p :: ps =>
    match heap[p]?, derefAll heap ps with
    | some o, some os => some (o :: os)
    | _, _ => none

/-- the pure track `a` is what the heap-level track `t` holds now: same positions in order, all of class `a.kind`, same
base (by value) -/
structure Abs (heap : List (Obj α)) (t : HTrack) (a : Track α) : Prop where
  pts : ∃ objs, derefAll heap t.pts = some objs ∧ (∀ o ∈ objs, o.kind = a.kind) ∧ a.pts = objs.map (·.v)
  base : valArg heap t.base = some a.base

theorem valArg_none_iff (heap : List (Obj α)) (v : Val) : valArg heap v = some none ↔ v = .none := by
  cases v with
  | none => simp [valArg]
  | int n => simp [valArg]
  | ref i =>
    simp only [valArg, reduceCtorEq, iff_false]
    cases heap[i]? with
    | none => simp
    | some o => cases objBase o <;> simp

theorem valArg_cases (heap : List (Obj α)) (b : Val) (a : BaseArg α) (hb : valArg heap b = some (some a)) :
    (∃ n, b = .int n ∧ a = .srid n) ∨
    (∃ i o bb, b = .ref i ∧ heap[i]? = some o ∧ objBase o = some bb ∧ a = .pt bb ∧ baseOf heap b = .ok bb) := by
  cases b with
  | none => simp [valArg] at hb
  | int n =>
    simp only [valArg, Option.some.injEq] at hb
    exact Or.inl ⟨n, rfl, hb.symm⟩
  | ref i =>
    right
    simp only [valArg] at hb
    cases hh : heap[i]? with
    | none => simp [hh] at hb
    | some ob =>
      simp only [hh] at hb
      cases hob : objBase ob with
      | none => simp [hob] at hb
      | some bb =>
        simp only [hob, Option.map_some, Option.some.injEq] at hb
        refine ⟨i, ob, bb, rfl, hh, hob, hb.symm, ?_⟩
        unfold baseOf
        simp only [hh]
        unfold objBase at hob
        cases hk : ob.kind <;> simp_all

theorem derefAll_length (heap : List (Obj α)) (pts : List Nat) (objs : List (Obj α))
    (h : derefAll heap pts = some objs) : objs.length = pts.length := by
  induction pts generalizing objs with
  | nil => simp only [derefAll, Option.some.injEq] at h; subst h; rfl
  | cons p ps ih =>
    unfold derefAll at h
    cases h1 : heap[p]? with
    | none => simp [h1] at h
    | some o =>
      cases h2 : derefAll heap ps with
      | none => simp [h1, h2] at h
      | some os =>
        simp only [h1, h2, Option.some.injEq] at h
        subst h
        simp [ih os h2]

theorem derefAll_append (heap l : List (Obj α)) (pts : List Nat) (objs : List (Obj α))
    (h : derefAll heap pts = some objs) : derefAll (heap ++ l) pts = some objs := by
  induction pts generalizing objs with
  | nil => simpa [derefAll] using h
  | cons p ps ih =>
    unfold derefAll at h ⊢
    cases h1 : heap[p]? with
    | none => simp [h1] at h
    | some o =>
      cases h2 : derefAll heap ps with
      | none => simp [h1, h2] at h
      | some os =>
        simp only [h1, h2, Option.some.injEq] at h
        subst h
        have hp : p < heap.length := by
          rcases List.getElem?_eq_some_iff.mp h1 with ⟨hp, _⟩
          exact hp
        rw [List.getElem?_append_left hp, h1, ih os h2]

theorem valArg_append (heap l : List (Obj α)) (v : Val) (a : Option (BaseArg α)) (h : valArg heap v = some a) :
    valArg (heap ++ l) v = some a := by
  cases v with
  | none => simpa [valArg] using h
  | int n => simpa [valArg] using h
  | ref i =>
    simp only [valArg] at h ⊢
    cases h1 : heap[i]? with
    | none => simp [h1] at h
    | some o =>
      have hp : i < heap.length := by
        rcases List.getElem?_eq_some_iff.mp h1 with ⟨hp, _⟩
        exact hp
      rw [List.getElem?_append_left hp, h1]
      simpa [h1] using h

/-- the references handed out by a whole-track conversion designate the new objects, in order -/
theorem derefAll_fresh (pre objs post : List (Obj α)) :
    derefAll (pre ++ objs ++ post) (refsFrom pre.length objs.length) = some objs := by
  induction objs generalizing pre with
  | nil => simp [refsFrom, derefAll]
  | cons o os ih =>
    have h1 : (pre ++ o :: os ++ post)[pre.length]? = some o := by
      rw [List.append_assoc, List.getElem?_append_right (Nat.le_refl _)]
      simp
    have h2 := ih (pre ++ [o])
    simp only [List.length_append, List.length_cons, List.length_nil, Nat.zero_add, List.append_assoc,
      List.cons_append, List.nil_append] at h2
    simp only [List.length_cons, refsFrom, derefAll, h1]
    simp only [List.append_assoc, List.cons_append] at h1 ⊢
    rw [h2]

theorem Abs_append (heap l : List (Obj α)) (t : HTrack) (a : Track α) (h : Abs heap t a) : Abs (heap ++ l) t a := by
  obtain ⟨⟨objs, h1, h2, h3⟩, hb⟩ := h
  exact ⟨⟨objs, derefAll_append heap l _ _ h1, h2, h3⟩, valArg_append heap l _ _ hb⟩

theorem getElem?_set_old (heap : List (Obj α)) (j : Nat) (x : Obj α) (i : Nat) (hij : i ≠ j) :
    (heap.set j x)[i]? = heap[i]? := by
  rw [List.getElem?_set]
  simp [Ne.symm hij]

/-- updating an object does not change what is read through references to *other* objects -/
theorem derefAll_set_other (heap : List (Obj α)) (j : Nat) (x : Obj α) (pts : List Nat) (hp : ∀ p ∈ pts, p ≠ j) :
    derefAll (heap.set j x) pts = derefAll heap pts := by
  induction pts with
  | nil => rfl
  | cons p ps ih =>
    unfold derefAll
    rw [getElem?_set_old heap j x p (hp p (by simp)), ih (fun q hq => hp q (by simp [hq]))]

theorem valArg_set_other (heap : List (Obj α)) (j : Nat) (x : Obj α) (v : Val) (hv : v ≠ .ref j) :
    valArg (heap.set j x) v = valArg heap v := by
  cases v with
  | none => rfl
  | int n => rfl
  | ref i =>
    simp only [valArg]
    rw [getElem?_set_old heap j x i (by intro h; exact hv (by rw [h]))]

theorem mem_refsFrom (n k p : Nat) (h : p ∈ refsFrom n k) : n ≤ p := by
  induction k generalizing n with
  | zero => simp [refsFrom] at h
  | succ k ih =>
    simp only [refsFrom, List.mem_cons] at h
    rcases h with h | h
    · omega
    · have := ih (n + 1) h; omega

end

section
variable {α : Type} [Add α] [Sub α] [Mul α] [Div α] [Neg α] [OfScientific α]
variable (T : Trig α)

/-! ### the dispatch computes the conversions of `Model/Geo.lean` from the current values -/

theorem callConv_geo_enu (heap : List (Obj α)) (o : Obj α) (hk : o.kind = .geo) (b : Val) (a : BaseArg α)
    (hb : valArg heap b = some (some a)) :
    callConv T heap o .enu [b] = (geoToEnuArg T o.v a).map (fun v => ⟨.enu, v⟩) := by
  rcases valArg_cases heap b a hb with ⟨n, rfl, rfl⟩ | ⟨i, ob, bb, rfl, _, _, rfl, hbo⟩
  · simp only [callConv, hk, geoToEnuArg]
  · simp only [callConv, hk, hbo, geoToEnuArg]
    rfl

theorem callConv_ecef_enu (heap : List (Obj α)) (o : Obj α) (hk : o.kind = .ecef) (b : Val) (a : BaseArg α)
    (hb : valArg heap b = some (some a)) :
    callConv T heap o .enu [b] = (ecefToEnuArg T o.v a).map (fun v => ⟨.enu, v⟩) := by
  rcases valArg_cases heap b a hb with ⟨n, rfl, rfl⟩ | ⟨i, ob, bb, rfl, _, _, rfl, hbo⟩
  · simp only [callConv, hk, ecefToEnuArg, baseOf]
    rfl
  · simp only [callConv, hk, hbo, ecefToEnuArg]
    rfl

theorem callConv_enu_ecef (heap : List (Obj α)) (o : Obj α) (hk : o.kind = .enu) (b : Val) (a : BaseArg α)
    (hb : valArg heap b = some (some a)) :
    callConv T heap o .ecef [b] = (enuToEcefArg T o.v a).map (fun v => ⟨.ecef, v⟩) := by
  rcases valArg_cases heap b a hb with ⟨n, rfl, rfl⟩ | ⟨i, ob, bb, rfl, _, _, rfl, hbo⟩
  · simp only [callConv, hk, enuToEcefArg, baseOf]
    rfl
  · simp only [callConv, hk, hbo, enuToEcefArg]
    rfl

theorem callConv_enu_geo (heap : List (Obj α)) (o : Obj α) (hk : o.kind = .enu) (b : Val) (a : BaseArg α)
    (hb : valArg heap b = some (some a)) :
    callConv T heap o .geo [b] = (enuToGeoArg T o.v a).map (fun v => ⟨.geo, v⟩) := by
  rcases valArg_cases heap b a hb with ⟨n, rfl, rfl⟩ | ⟨i, ob, bb, rfl, _, _, rfl, hbo⟩
  · simp only [callConv, hk, enuToGeoArg]
  · simp only [callConv, hk, hbo, enuToGeoArg]
    rfl

theorem callConv_enu_enu (heap : List (Obj α)) (o : Obj α) (hk : o.kind = .enu) (b1 b2 : Val) (a1 a2 : BaseArg α)
    (hb1 : valArg heap b1 = some (some a1)) (hb2 : valArg heap b2 = some (some a2)) :
    callConv T heap o .enu [b1, b2] = (enuToEnuArg T o.v a1 a2).map (fun v => ⟨.enu, v⟩) := by
  rcases valArg_cases heap b1 a1 hb1 with ⟨n, rfl, rfl⟩ | ⟨i, ob, bb, rfl, _, _, rfl, hbo⟩
  · simp only [callConv, hk, enuToEnuArg, baseOf]
    rfl
  · rcases valArg_cases heap b2 a2 hb2 with ⟨n, rfl, rfl⟩ | ⟨i2, ob2, bb2, rfl, _, _, rfl, hbo2⟩
    · have hint : baseOf heap (.int n) = .error .attr := rfl
      simp only [callConv, hk, hbo, hint, enuToEnuArg]
      rfl
    · simp only [callConv, hk, hbo, hbo2, enuToEnuArg]
      rfl

theorem callConv_geo_proj (heap : List (Obj α)) (o : Obj α) (hk : o.kind = .geo) (n : Nat) :
    callConv T heap o .proj [.int n] = (proj T o.v n).map (fun v => ⟨.enu, v⟩) := by
  simp only [callConv, hk]

theorem callConv_geo_ecef (heap : List (Obj α)) (o : Obj α) (hk : o.kind = .geo) :
    callConv T heap o .ecef [] = .ok ⟨.ecef, geoToEcef T o.v⟩ := by
  simp only [callConv, hk]

theorem callConv_ecef_geo (heap : List (Obj α)) (o : Obj α) (hk : o.kind = .ecef) :
    callConv T heap o .geo [] = .ok ⟨.geo, ecefToGeo T o.v⟩ := by
  simp only [callConv, hk]

/-- `base.toGeoCoords()` of a point base: a copy of a `GeoCoords`, the closed-form inverse of an `ECEFCoords` -/
theorem callConv_base_toGeo (heap : List (Obj α)) (o : Obj α) (bb : Base α) (hb : objBase o = some bb) :
    callConv T heap o .geo [] = .ok ⟨.geo, bb.toGeo T⟩ := by
  unfold objBase at hb
  cases hk : o.kind with
  | geo => simp only [hk, Option.some.injEq] at hb; subst hb; simp only [callConv, hk, Base.toGeo]
  | ecef => simp only [hk, Option.some.injEq] at hb; subst hb; simp only [callConv, hk, Base.toGeo]
  | enu => simp [hk] at hb

/-! ### the loop over the positions -/

theorem convAll_sim (heap : List (Obj α)) (m : Meth) (args : List Val) (k k' : Kind) (f : V3 α → Except Err (V3 α))
    (hf : ∀ o : Obj α, o.kind = k → callConv T heap o m args = (f o.v).map (fun v => ⟨k', v⟩))
    (pts : List Nat) (objs : List (Obj α)) (hd : derefAll heap pts = some objs) (hk : ∀ o ∈ objs, o.kind = k) :
    convAll T heap m args pts
      = (mapPts f (objs.map (·.v))).map (fun l => l.map (fun v => (⟨k', v⟩ : Obj α))) := by
  induction pts generalizing objs with
  | nil =>
    simp only [derefAll, Option.some.injEq] at hd
    subst hd
    rfl
  | cons p ps ih =>
    unfold derefAll at hd
    cases h1 : heap[p]? with
    | none => simp [h1] at hd
    | some o =>
      cases h2 : derefAll heap ps with
      | none => simp [h1, h2] at hd
      | some os =>
        simp only [h1, h2, Option.some.injEq] at hd
        subst hd
        have ho := hf o (hk o (by simp))
        have ihh := ih os h2 (fun q hq => hk q (by simp [hq]))
        simp only [convAll, deref, h1, List.map_cons, mapPts, bind, Except.bind, ho, ihh]
        cases f o.v with
        | error e => rfl
        | ok q =>
          simp only [Except.map]
          cases mapPts f (List.map (fun x => x.v) os) with
          | error e => rfl
          | ok qs => rfl

/-! ### frame: only `set` touches an existing object -/

omit [Add α] [Sub α] [Mul α] [Div α] [Neg α] [OfScientific α] in
theorem rebind_heap (w : World α) (ti : Nat) (objs : List (Obj α)) (nb : Option (Obj α)) (bv : Val) :
    ∃ l, (w.rebind ti objs nb bv).heap = w.heap ++ l := by
  cases nb with
  | none => exact ⟨objs, rfl⟩
  | some b => exact ⟨objs ++ [b], by simp [World.rebind]⟩

/-- closes `∃ l, w'.heap = w.heap ++ l` from `h : <whole-track conversion> = .ok w'` (unfolded) -/
macro "frame_tac" h:ident : tactic => `(tactic|
  (simp only [bind, Except.bind] at $h:ident
   repeat' split at $h:ident
   all_goals first
     | (cases $h:ident; done)
     | (cases $h:ident; first | exact rebind_heap _ _ _ _ _ | exact ⟨[], by simp⟩)))

theorem trackToECEF_frame (w w' : World α) (ti : Nat) (arg : Val) (h : w.trackToECEF T ti arg = .ok w') :
    ∃ l, w'.heap = w.heap ++ l := by
  unfold World.trackToECEF at h
  frame_tac h

theorem trackToGeo_frame (w w' : World α) (ti : Nat) (arg : Val) (h : w.trackToGeo T ti arg = .ok w') :
    ∃ l, w'.heap = w.heap ++ l := by
  unfold World.trackToGeo at h
  frame_tac h

theorem trackToProj_frame (w w' : World α) (ti : Nat) (n : Nat) (h : w.trackToProj T ti n = .ok w') :
    ∃ l, w'.heap = w.heap ++ l := by
  unfold World.trackToProj at h
  frame_tac h

theorem trackToENU_frame (w w' : World α) (ti : Nat) (arg : Val) (h : w.trackToENU T ti arg = .ok w') :
    ∃ l, w'.heap = w.heap ++ l := by
  unfold World.trackToENU at h
  frame_tac h

theorem trackToENUIfNeeded_frame (w w' : World α) (ti : Nat) (h : w.trackToENUIfNeeded T ti = .ok w') :
    ∃ l, w'.heap = w.heap ++ l := by
  unfold World.trackToENUIfNeeded at h
  simp only [bind, Except.bind] at h
  repeat' split at h
  all_goals first
    | (cases h; done)
    | (cases h; exact ⟨[], by simp⟩)
    | (obtain ⟨l, hl⟩ := trackToENU_frame T _ w' ti _ h
       exact ⟨_, by rw [hl, List.append_assoc]⟩)

theorem call_frame (w w' : World α) (i : Nat) (m : Meth) (args : List Val) (h : w.call T i m args = .ok w') :
    ∃ l, w'.heap = w.heap ++ l := by
  unfold World.call at h
  simp only [bind, Except.bind] at h
  repeat' split at h
  all_goals first
     | (cases h; done)
     | (cases h; exact ⟨_, rfl⟩)

/-- every step of a history other than an in-place update leaves the existing objects as they are (class and values):
the heap only grows -/
theorem step_frame (w w' : World α) (op : Op α) (h : w.step T op = .ok w') (hop : ∀ i c x, op ≠ .set i c x) :
    ∃ l, w'.heap = w.heap ++ l := by
  cases op with
  | new k v => simp only [World.step, Except.ok.injEq] at h; subst h; exact ⟨_, rfl⟩
  | set i c x => exact absurd rfl (hop i c x)
  | call i m args => exact call_frame T w w' i m args h
  | mkTrack pts base => simp only [World.step, Except.ok.injEq] at h; subst h; exact ⟨[], by simp [World.mkTrack]⟩
  | trackConv ti m arg =>
    cases m with
    | ecef => exact trackToECEF_frame T w w' ti arg h
    | enu => exact trackToENU_frame T w w' ti arg h
    | geo => exact trackToGeo_frame T w w' ti arg h
    | proj =>
      cases arg with
      | int n => exact trackToProj_frame T w w' ti n h
      | none => simp [World.step] at h
      | ref i => simp [World.step] at h
  | trackENUIf ti => exact trackToENUIfNeeded_frame T w w' ti h

omit [Add α] [Sub α] [Mul α] [Div α] [Neg α] [OfScientific α] in
/-- an in-place update changes the one coordinate of the one object and nothing else; tracks are untouched -/
theorem set_spec (w w' : World α) (i c : Nat) (x : α) (h : w.set i c x = .ok w') :
    ∃ o, w.heap[i]? = some o ∧ w'.heap = w.heap.set i ⟨o.kind, o.v.set c x⟩ ∧ w'.tracks = w.tracks := by
  unfold World.set at h
  cases hh : w.heap[i]? with
  | none => simp [hh] at h
  | some o =>
    simp only [hh, Except.ok.injEq] at h
    subst h
    exact ⟨o, rfl, rfl, rfl⟩


/-! ### simulation of the pure whole-track model -/

/-- the heap-level result `r` and the pure result `r'` of the same whole-track conversion agree: both fail with the same
error, or both succeed and the track read through the new heap is the new pure track -/
def SimRes (ti : Nat) (r : Except Err (World α)) (r' : Except Err (Track α)) : Prop :=
  match r, r' with
  | .ok w', .ok a' => ∃ t', w'.tracks[ti]? = some t' ∧ Abs w'.heap t' a'
  | .error e, .error e' => e = e'
  | _, _ => False

omit [Add α] [Sub α] [Mul α] [Div α] [Neg α] [OfScientific α] in
theorem rebind_abs_none (w : World α) (ti : Nat) (t : HTrack) (ht : w.tracks[ti]? = some t) (k' : Kind)
    (vs : List (V3 α)) (bv : Val) (b' : Option (BaseArg α)) (hb : valArg w.heap bv = some b') :
    ∃ t', (w.rebind ti (vs.map (fun v => (⟨k', v⟩ : Obj α))) none bv).tracks[ti]? = some t' ∧
      Abs (w.rebind ti (vs.map (fun v => (⟨k', v⟩ : Obj α))) none bv).heap t' ⟨k', vs, b'⟩ := by
  have hti : ti < w.tracks.length := (List.getElem?_eq_some_iff.mp ht).1
  refine ⟨⟨refsFrom w.heap.length (vs.map (fun v => (⟨k', v⟩ : Obj α))).length, bv⟩, ?_, ?_, ?_⟩
  · simp only [World.rebind]
    rw [List.getElem?_set_self hti]
  · refine ⟨vs.map (fun v => (⟨k', v⟩ : Obj α)), ?_, ?_, ?_⟩
    · have := derefAll_fresh w.heap (vs.map (fun v => (⟨k', v⟩ : Obj α))) []
      simpa [World.rebind] using this
    · intro o ho
      simp only [List.mem_map] at ho
      obtain ⟨v, _, rfl⟩ := ho
      rfl
    · simp [List.map_map, Function.comp_def]
  · exact valArg_append _ _ _ _ hb

omit [Add α] [Sub α] [Mul α] [Div α] [Neg α] [OfScientific α] in
theorem rebind_abs_some (w : World α) (ti : Nat) (t : HTrack) (ht : w.tracks[ti]? = some t) (k' : Kind)
    (vs : List (V3 α)) (bv : Val) (g : V3 α) :
    ∃ t', (w.rebind ti (vs.map (fun v => (⟨k', v⟩ : Obj α))) (some ⟨.geo, g⟩) bv).tracks[ti]? = some t' ∧
      Abs (w.rebind ti (vs.map (fun v => (⟨k', v⟩ : Obj α))) (some ⟨.geo, g⟩) bv).heap t' ⟨k', vs, some (.pt (.geo g))⟩ := by
  have hti : ti < w.tracks.length := (List.getElem?_eq_some_iff.mp ht).1
  refine ⟨⟨refsFrom w.heap.length (vs.map (fun v => (⟨k', v⟩ : Obj α))).length,
    .ref (w.heap.length + (vs.map (fun v => (⟨k', v⟩ : Obj α))).length)⟩, ?_, ?_, ?_⟩
  · simp only [World.rebind]
    rw [List.getElem?_set_self hti]
  · refine ⟨vs.map (fun v => (⟨k', v⟩ : Obj α)), ?_, ?_, ?_⟩
    · exact derefAll_fresh w.heap (vs.map (fun v => (⟨k', v⟩ : Obj α))) [⟨.geo, g⟩]
    · intro o ho
      simp only [List.mem_map] at ho
      obtain ⟨v, _, rfl⟩ := ho
      rfl
    · simp [List.map_map, Function.comp_def]
  · simp only [World.rebind, valArg]
    rw [List.getElem?_append_right (by simp)]
    simp [objBase]


omit [Add α] [Sub α] [Mul α] [Div α] [Neg α] [OfScientific α] in
theorem orDefault_of_none (heap : List (Obj α)) (arg dflt : Val) (h : valArg heap arg = some none) :
    arg.orDefault dflt = dflt := by
  rw [(valArg_none_iff heap arg).mp h]; rfl

omit [Add α] [Sub α] [Mul α] [Div α] [Neg α] [OfScientific α] in
theorem orDefault_of_some (heap : List (Obj α)) (arg dflt : Val) (b : BaseArg α) (h : valArg heap arg = some (some b)) :
    arg.orDefault dflt = arg := by
  cases arg with
  | none => simp [valArg] at h
  | int n => rfl
  | ref i => rfl

/-- the loop of a whole-track conversion followed by the rebinding of the positions, when `Track.base` becomes (or
stays) the value `bv` -/
theorem conv_core (w : World α) (ti : Nat) (t : HTrack) (ht : w.tracks[ti]? = some t) (k k' : Kind)
    (apts : List (V3 α)) (abase : Option (BaseArg α)) (hA : Abs w.heap t ⟨k, apts, abase⟩)
    (m : Meth) (args : List Val) (f : V3 α → Except Err (V3 α))
    (hf : ∀ o : Obj α, o.kind = k → callConv T w.heap o m args = (f o.v).map (fun v => ⟨k', v⟩))
    (bv : Val) (b' : Option (BaseArg α)) (hbv : valArg w.heap bv = some b') :
    SimRes ti ((convAll T w.heap m args t.pts).bind (fun objs => .ok (w.rebind ti objs none bv)))
      ((mapPts f apts).bind (fun ps => .ok ⟨k', ps, b'⟩)) := by
  obtain ⟨⟨objs, hd, hk, hp⟩, _⟩ := hA
  simp only at hk hp
  rw [convAll_sim T w.heap m args k k' f hf t.pts objs hd hk, ← hp]
  cases mapPts f apts with
  | error e => simp [SimRes, Except.map, Except.bind]
  | ok qs =>
    simp only [SimRes, Except.map, Except.bind]
    exact rebind_abs_none w ti t ht k' qs bv b' hbv

/-- the same when `Track.base` becomes a new `GeoCoords` object holding `g` -/
theorem conv_core_some (w : World α) (ti : Nat) (t : HTrack) (ht : w.tracks[ti]? = some t) (k k' : Kind)
    (apts : List (V3 α)) (abase : Option (BaseArg α)) (hA : Abs w.heap t ⟨k, apts, abase⟩)
    (m : Meth) (args : List Val) (f : V3 α → Except Err (V3 α))
    (hf : ∀ o : Obj α, o.kind = k → callConv T w.heap o m args = (f o.v).map (fun v => ⟨k', v⟩))
    (g : V3 α) :
    SimRes ti ((convAll T w.heap m args t.pts).bind (fun objs => .ok (w.rebind ti objs (some ⟨.geo, g⟩) .none)))
      ((mapPts f apts).bind (fun ps => .ok ⟨k', ps, some (.pt (.geo g))⟩)) := by
  obtain ⟨⟨objs, hd, hk, hp⟩, _⟩ := hA
  simp only at hk hp
  rw [convAll_sim T w.heap m args k k' f hf t.pts objs hd hk, ← hp]
  cases mapPts f apts with
  | error e => simp [SimRes, Except.map, Except.bind]
  | ok qs =>
    simp only [SimRes, Except.map, Except.bind]
    exact rebind_abs_some w ti t ht k' qs .none g

omit [Add α] [Sub α] [Mul α] [Div α] [Neg α] [OfScientific α] in
/-- what `Abs` says about the first position -/
theorem Abs_first (heap : List (Obj α)) (t : HTrack) (k : Kind) (apts : List (V3 α)) (abase : Option (BaseArg α))
    (hA : Abs heap t ⟨k, apts, abase⟩) :
    (t.pts = [] ∧ apts = []) ∨
    (∃ p ps o v vs, t.pts = p :: ps ∧ apts = v :: vs ∧ heap[p]? = some o ∧ o.kind = k ∧ o.v = v) := by
  obtain ⟨⟨objs, hd, hk, hp⟩, _⟩ := hA
  simp only at hk hp
  cases hpts : t.pts with
  | nil =>
    rw [hpts] at hd
    simp only [derefAll, Option.some.injEq] at hd
    subst hd
    exact Or.inl ⟨rfl, hp⟩
  | cons p ps =>
    right
    rw [hpts] at hd
    unfold derefAll at hd
    cases h1 : heap[p]? with
    | none => simp [h1] at hd
    | some o =>
      cases h2 : derefAll heap ps with
      | none => simp [h1, h2] at hd
      | some os =>
        simp only [h1, h2, Option.some.injEq] at hd
        subst hd
        exact ⟨p, ps, o, o.v, os.map (·.v), rfl, by simpa using hp, h1, hk o (by simp), rfl⟩

theorem ok_bind {β γ : Type} (x : β) (f : β → Except Err γ) : (Except.ok x : Except Err β).bind f = f x := rfl

theorem trackToGeo_sim (w : World α) (ti : Nat) (t : HTrack) (ht : w.tracks[ti]? = some t) (a : Track α)
    (hA : Abs w.heap t a) (arg : Val) (arg' : Option (BaseArg α)) (harg : valArg w.heap arg = some arg') :
    SimRes ti (w.trackToGeo T ti arg) (a.toGeo T arg') := by
  obtain ⟨ak, apts, abase⟩ := a
  have hb := hA.base
  simp only at hb
  have hgt : getTrack w ti = .ok t := by simp [getTrack, ht]
  rcases Abs_first w.heap t ak apts abase hA with ⟨hpts, hap⟩ | ⟨p, ps, o, v, vs, hpts, hap, h1, hok, hv⟩
  · subst hap
    simp only [World.trackToGeo, bind, hgt, ok_bind, trackKind, hpts, Track.toGeo, SimRes]
    rfl
  · have htk : trackKind w.heap t = .ok ak := by
      simp only [trackKind, hpts, deref, h1, Except.map, hok]
    cases ak with
    | geo =>
      simp only [World.trackToGeo, bind, hgt, ok_bind, htk, Track.toGeo, hap, SimRes]
      exact ⟨t, ht, by rw [← hap]; exact hA⟩
    | ecef =>
      have hc := conv_core T w ti t ht .ecef .geo apts abase hA .geo [] (fun p => .ok (ecefToGeo T p))
        (fun o ho => by rw [callConv_ecef_geo T _ o ho]; rfl) t.base abase hb
      rw [mapPts_ok, ok_bind] at hc
      simp only [World.trackToGeo, bind, hgt, ok_bind, htk, Track.toGeo, hap]
      rw [← hap]
      exact hc
    | enu =>
      have key : ∀ (sel : Val) (b : BaseArg α), valArg w.heap sel = some (some b) →
          SimRes ti (match sel with
              | .none => .error .exit
              | base => (convAll T w.heap .geo [base] t.pts).bind (fun objs => .ok (w.rebind ti objs none t.base)))
            ((mapPts (fun q => enuToGeoArg T q b) apts).bind (fun ps => .ok ⟨.geo, ps, abase⟩)) := by
        intro sel b hsel
        have hc := conv_core T w ti t ht .enu .geo apts abase hA .geo [sel] (fun q => enuToGeoArg T q b)
          (fun o ho => callConv_enu_geo T _ o ho _ b hsel) t.base abase hb
        cases sel with
        | none => simp [valArg] at hsel
        | int n => exact hc
        | ref i => exact hc
      cases arg' with
      | none =>
        have hdef := orDefault_of_none w.heap arg t.base harg
        cases abase with
        | none =>
          have hn := (valArg_none_iff _ _).mp hb
          rw [hn] at hdef
          simp only [World.trackToGeo, bind, hgt, ok_bind, htk, hn, hdef, Track.toGeo, hap, SimRes]
        | some b =>
          have := key t.base b hb
          simp only [World.trackToGeo, bind, hgt, ok_bind, htk, hdef, Track.toGeo, hap]
          rw [← hap]
          exact this
      | some b =>
        have hdef := orDefault_of_some w.heap arg t.base b harg
        have := key arg b harg
        simp only [World.trackToGeo, bind, hgt, ok_bind, htk, hdef, Track.toGeo, hap]
        rw [← hap]
        exact this
theorem trackToECEF_sim (w : World α) (ti : Nat) (t : HTrack) (ht : w.tracks[ti]? = some t) (a : Track α)
    (hA : Abs w.heap t a) (arg : Val) (arg' : Option (BaseArg α)) (harg : valArg w.heap arg = some arg') :
    SimRes ti (w.trackToECEF T ti arg) (a.toECEF T arg') := by
  obtain ⟨ak, apts, abase⟩ := a
  have hb := hA.base
  simp only at hb
  have hgt : getTrack w ti = .ok t := by simp [getTrack, ht]
  rcases Abs_first w.heap t ak apts abase hA with ⟨hpts, hap⟩ | ⟨p, ps, o, v, vs, hpts, hap, h1, hok, hv⟩
  · subst hap
    simp only [World.trackToECEF, bind, hgt, ok_bind, trackKind, hpts, Track.toECEF, SimRes]
    rfl
  · have htk : trackKind w.heap t = .ok ak := by
      simp only [trackKind, hpts, deref, h1, Except.map, hok]
    cases ak with
    | ecef =>
      simp only [World.trackToECEF, bind, hgt, ok_bind, htk, Track.toECEF, hap, SimRes]
      exact ⟨t, ht, by rw [← hap]; exact hA⟩
    | geo =>
      have hc := conv_core T w ti t ht .geo .ecef apts abase hA .ecef [] (fun p => .ok (geoToEcef T p))
        (fun o ho => by rw [callConv_geo_ecef T _ o ho]; rfl) t.base abase hb
      rw [mapPts_ok, ok_bind] at hc
      simp only [World.trackToECEF, bind, hgt, ok_bind, htk, Track.toECEF, hap]
      rw [← hap]
      exact hc
    | enu =>
      have key : ∀ (sel : Val) (b : BaseArg α), valArg w.heap sel = some (some b) →
          SimRes ti (match sel with
              | .none => .error .exit
              | base => (convAll T w.heap .ecef [base] t.pts).bind (fun objs => .ok (w.rebind ti objs none t.base)))
            ((mapPts (fun q => enuToEcefArg T q b) apts).bind (fun ps => .ok ⟨.ecef, ps, abase⟩)) := by
        intro sel b hsel
        have hc := conv_core T w ti t ht .enu .ecef apts abase hA .ecef [sel] (fun q => enuToEcefArg T q b)
          (fun o ho => callConv_enu_ecef T _ o ho _ b hsel) t.base abase hb
        cases sel with
        | none => simp [valArg] at hsel
        | int n => exact hc
        | ref i => exact hc
      cases arg' with
      | none =>
        have hdef := orDefault_of_none w.heap arg t.base harg
        cases abase with
        | none =>
          have hn := (valArg_none_iff _ _).mp hb
          rw [hn] at hdef
          simp only [World.trackToECEF, bind, hgt, ok_bind, htk, hn, hdef, Track.toECEF, hap, SimRes]
        | some b =>
          have := key t.base b hb
          simp only [World.trackToECEF, bind, hgt, ok_bind, htk, hdef, Track.toECEF, hap]
          rw [← hap]
          exact this
      | some b =>
        have hdef := orDefault_of_some w.heap arg t.base b harg
        have := key arg b harg
        simp only [World.trackToECEF, bind, hgt, ok_bind, htk, hdef, Track.toECEF, hap]
        rw [← hap]
        exact this

theorem trackToProj_sim (w : World α) (ti : Nat) (t : HTrack) (ht : w.tracks[ti]? = some t) (a : Track α)
    (hA : Abs w.heap t a) (srid : Nat) :
    SimRes ti (w.trackToProj T ti srid) (a.toProj T srid) := by
  obtain ⟨ak, apts, abase⟩ := a
  have hgt : getTrack w ti = .ok t := by simp [getTrack, ht]
  rcases Abs_first w.heap t ak apts abase hA with ⟨hpts, hap⟩ | ⟨p, ps, o, v, vs, hpts, hap, h1, hok, hv⟩
  · subst hap
    simp only [World.trackToProj, bind, hgt, ok_bind, trackKind, hpts, Track.toProj, SimRes]
    rfl
  · have htk : trackKind w.heap t = .ok ak := by
      simp only [trackKind, hpts, deref, h1, Except.map, hok]
    cases ak with
    | geo =>
      have hc := conv_core T w ti t ht .geo .enu apts abase hA .proj [.int srid] (fun g => proj T g srid)
        (fun o ho => callConv_geo_proj T _ o ho srid) (.int srid) (some (.srid srid)) rfl
      simp only [World.trackToProj, bind, hgt, ok_bind, htk, Track.toProj, hap]
      rw [← hap]
      exact hc
    | ecef => simp only [World.trackToProj, bind, hgt, ok_bind, htk, Track.toProj, hap, SimRes]
    | enu => simp only [World.trackToProj, bind, hgt, ok_bind, htk, Track.toProj, hap, SimRes]

/-- the base a whole-track conversion to ENU records: the SRID, or `base.toGeoCoords()` -/
def recBase (b : BaseArg α) : BaseArg α :=
  match b with
  | .srid n => .srid n
  | .pt bb => .pt (.geo (bb.toGeo T))

/-- `Track.toENUCoords` on a Geo / ECEF track whose base has been resolved to `sel` -/
theorem toENU_core (w : World α) (ti : Nat) (t : HTrack) (ht : w.tracks[ti]? = some t) (k : Kind)
    (apts : List (V3 α)) (abase : Option (BaseArg α)) (hA : Abs w.heap t ⟨k, apts, abase⟩)
    (f : V3 α → BaseArg α → Except Err (V3 α))
    (hf : ∀ (sel : Val) (b : BaseArg α), valArg w.heap sel = some (some b) → ∀ o : Obj α, o.kind = k →
      callConv T w.heap o .enu [sel] = (f o.v b).map (fun v => ⟨.enu, v⟩))
    (sel : Val) (b : BaseArg α) (hsel : valArg w.heap sel = some (some b)) :
    SimRes ti
      ((convAll T w.heap .enu [sel] t.pts).bind (fun objs =>
        match sel with
        | .int n => .ok (w.rebind ti objs none (.int n))
        | .ref bi => (deref w.heap bi).bind (fun bo => (callConv T w.heap bo .geo []).bind (fun nb =>
            .ok (w.rebind ti objs (some nb) .none)))
        | .none => .error .index))
      ((mapPts (fun g => f g b) apts).bind (fun ps => .ok ⟨.enu, ps, some (recBase T b)⟩)) := by
  rcases valArg_cases w.heap sel b hsel with ⟨n, rfl, rfl⟩ | ⟨i, ob, bb, rfl, hh, hob, rfl, _⟩
  · exact conv_core T w ti t ht k .enu apts abase hA .enu [.int n] (fun g => f g (.srid n))
      (hf _ _ hsel) (.int n) (some (.srid n)) rfl
  · have hd : deref w.heap i = .ok ob := by simp [deref, hh]
    simp only [hd, ok_bind, callConv_base_toGeo T w.heap ob bb hob]
    exact conv_core_some T w ti t ht k .enu apts abase hA .enu [.ref i] (fun g => f g (.pt bb))
      (hf _ _ hsel) (bb.toGeo T)

theorem trackToENU_sim (w : World α) (ti : Nat) (t : HTrack) (ht : w.tracks[ti]? = some t) (a : Track α)
    (hA : Abs w.heap t a) (arg : Val) (arg' : Option (BaseArg α)) (harg : valArg w.heap arg = some arg') :
    SimRes ti (w.trackToENU T ti arg) (a.toENU T arg') := by
  obtain ⟨ak, apts, abase⟩ := a
  have hb := hA.base
  simp only at hb
  have hgt : getTrack w ti = .ok t := by simp [getTrack, ht]
  rcases Abs_first w.heap t ak apts abase hA with ⟨hpts, hap⟩ | ⟨p, ps, o, v, vs, hpts, hap, h1, hok, hv⟩
  · subst hap
    simp only [World.trackToENU, bind, hgt, ok_bind, trackKind, hpts, Track.toENU, SimRes]
    rfl
  · have htk : trackKind w.heap t = .ok ak := by
      simp only [trackKind, hpts, deref, h1, Except.map, hok]
    cases ak with
    | geo =>
      have hfirst : valArg w.heap (.ref p) = some (some (.pt (.geo v))) := by
        simp [valArg, h1, objBase, hok, hv]
      cases arg' with
      | none =>
        have hdef := orDefault_of_none w.heap arg (.ref p) harg
        have := toENU_core T w ti t ht .geo apts abase hA (fun g b => geoToEnuArg T g b)
          (fun sel b hs o ho => callConv_geo_enu T _ o ho sel b hs) (.ref p) _ hfirst
        simp only [World.trackToENU, bind, hgt, ok_bind, htk, hpts, hdef, Track.toENU, hap]
        rw [← hap]
        rw [hpts] at this
        exact this
      | some b =>
        have hdef := orDefault_of_some w.heap arg (.ref p) b harg
        have := toENU_core T w ti t ht .geo apts abase hA (fun g b => geoToEnuArg T g b)
          (fun sel b hs o ho => callConv_geo_enu T _ o ho sel b hs) arg b harg
        simp only [World.trackToENU, bind, hgt, ok_bind, htk, hpts, hdef, Track.toENU, hap]
        rw [← hap]
        rw [hpts] at this
        exact this
    | ecef =>
      have hfirst : valArg w.heap (.ref p) = some (some (.pt (.ecef v))) := by
        simp [valArg, h1, objBase, hok, hv]
      cases arg' with
      | none =>
        have hdef := orDefault_of_none w.heap arg (.ref p) harg
        have := toENU_core T w ti t ht .ecef apts abase hA (fun g b => ecefToEnuArg T g b)
          (fun sel b hs o ho => callConv_ecef_enu T _ o ho sel b hs) (.ref p) _ hfirst
        simp only [World.trackToENU, bind, hgt, ok_bind, htk, hpts, hdef, Track.toENU, hap]
        rw [← hap]
        rw [hpts] at this
        exact this
      | some b =>
        have hdef := orDefault_of_some w.heap arg (.ref p) b harg
        have := toENU_core T w ti t ht .ecef apts abase hA (fun g b => ecefToEnuArg T g b)
          (fun sel b hs o ho => callConv_ecef_enu T _ o ho sel b hs) arg b harg
        simp only [World.trackToENU, bind, hgt, ok_bind, htk, hpts, hdef, Track.toENU, hap]
        rw [← hap]
        rw [hpts] at this
        exact this
    | enu =>
      cases arg' with
      | none =>
        have hn := (valArg_none_iff _ _).mp harg
        simp only [World.trackToENU, bind, hgt, ok_bind, htk, hn, Track.toENU, hap, SimRes]
      | some b =>
        cases abase with
        | none =>
          have hn := (valArg_none_iff _ _).mp hb
          rcases valArg_cases w.heap arg b harg with ⟨n, rfl, rfl⟩ | ⟨i, ob, bb, rfl, hh, hob, rfl, _⟩
          · simp only [World.trackToENU, bind, hgt, ok_bind, htk, hn, Track.toENU, hap, SimRes]
          · simp only [World.trackToENU, bind, hgt, ok_bind, htk, hn, Track.toENU, hap, SimRes]
        | some old =>
          obtain ⟨⟨objs, hd, hk, hp⟩, _⟩ := hA
          simp only at hk hp
          have hconv := convAll_sim T w.heap .enu [t.base, arg] .enu .enu (fun q => enuToEnuArg T q old b)
            (fun o ho => callConv_enu_enu T _ o ho _ _ old b hb harg) t.pts objs hd hk
          rw [← hp] at hconv
          have hA' : Abs w.heap t ⟨.enu, apts, some old⟩ := ⟨⟨objs, hd, hk, hp⟩, hb⟩
          have htb : ∃ x, t.base = x ∧ x ≠ .none := ⟨t.base, rfl, by
            intro h; rw [h] at hb; simp [valArg] at hb⟩
          obtain ⟨tb, htb, htbn⟩ := htb
          rcases valArg_cases w.heap arg b harg with ⟨n, rfl, rfl⟩ | ⟨i, ob, bb, rfl, hh, hob, rfl, _⟩
          · have hred : w.trackToENU T ti (.int n) = (convAll T w.heap .enu [t.base, .int n] t.pts).bind
                (fun _ => .error .attr) := by
              simp only [World.trackToENU, bind, hgt, ok_bind, htk]
              rw [htb]
              cases tb with
              | none => exact absurd rfl htbn
              | int m => rfl
              | ref j => rfl
            rw [hred, hconv]
            simp only [Track.toENU, hap, bind]
            rw [← hap]
            cases mapPts (fun q => enuToEnuArg T q old (BaseArg.srid n)) apts with
            | error e => simp [SimRes, Except.map, Except.bind]
            | ok qs => simp [SimRes, Except.map, Except.bind]
          · have hdr : deref w.heap i = .ok ob := by simp [deref, hh]
            have hred : w.trackToENU T ti (.ref i) = (convAll T w.heap .enu [t.base, .ref i] t.pts).bind
                (fun objs => .ok (w.rebind ti objs (some ⟨.geo, bb.toGeo T⟩) .none)) := by
              simp only [World.trackToENU, bind, hgt, ok_bind, htk]
              rw [htb]
              cases tb with
              | none => exact absurd rfl htbn
              | int m => simp only [hdr, callConv_base_toGeo T w.heap ob bb hob, ok_bind]
              | ref j => simp only [hdr, callConv_base_toGeo T w.heap ob bb hob, ok_bind]
            have hc := conv_core_some T w ti t ht .enu .enu apts (some old) hA' .enu [t.base, .ref i]
              (fun q => enuToEnuArg T q old (.pt bb))
              (fun o ho => callConv_enu_enu T _ o ho _ _ old _ hb harg) (bb.toGeo T)
            rw [hred]
            simp only [Track.toENU, hap, bind]
            rw [← hap]
            exact hc


theorem trackToENUIfNeeded_sim (w : World α) (ti : Nat) (t : HTrack) (ht : w.tracks[ti]? = some t) (a : Track α)
    (hA : Abs w.heap t a) : SimRes ti (w.trackToENUIfNeeded T ti) (a.toENUIfNeeded T) := by
  obtain ⟨ak, apts, abase⟩ := a
  have hgt : getTrack w ti = .ok t := by simp [getTrack, ht]
  rcases Abs_first w.heap t ak apts abase hA with ⟨hpts, hap⟩ | ⟨p, ps, o, v, vs, hpts, hap, h1, hok, hv⟩
  · subst hap
    simp only [World.trackToENUIfNeeded, bind, hgt, ok_bind, trackKind, hpts, Track.toENUIfNeeded, SimRes]
    rfl
  · have htk : trackKind w.heap t = .ok ak := by
      simp only [trackKind, hpts, deref, h1, Except.map, hok]
    cases ak with
    | geo =>
      have hd : deref w.heap p = .ok o := by simp [deref, h1]
      have hA1 : Abs (w.heap ++ [⟨o.kind, o.v⟩]) t ⟨.geo, apts, abase⟩ := Abs_append _ _ _ _ hA
      have harg : valArg (w.heap ++ [⟨o.kind, o.v⟩]) (.ref w.heap.length) = some (some (.pt (.geo v))) := by
        simp only [valArg]
        rw [List.getElem?_append_right (Nat.le_refl _)]
        simp [objBase, hok, hv]
      have := trackToENU_sim T ({ w with heap := w.heap ++ [⟨o.kind, o.v⟩] } : World α) ti t ht _ hA1 _ _ harg
      simp only [World.trackToENUIfNeeded, bind, hgt, ok_bind, htk, hpts, hd, Track.toENUIfNeeded, hap]
      rw [← hap]
      exact this
    | ecef =>
      simp only [World.trackToENUIfNeeded, bind, hgt, ok_bind, htk, hpts, Track.toENUIfNeeded, hap, SimRes]
      exact ⟨t, ht, by rw [← hap]; exact hA⟩
    | enu =>
      simp only [World.trackToENUIfNeeded, bind, hgt, ok_bind, htk, hpts, Track.toENUIfNeeded, hap, SimRes]
      exact ⟨t, ht, by rw [← hap]; exact hA⟩


/-! ### what a whole-track conversion to ENU binds to the track is new -/

/-- no reference held by the track designates one of the first `n` objects -/
def FreshFrom (n : Nat) (t : HTrack) : Prop := (∀ p ∈ t.pts, n ≤ p) ∧ (∀ i, t.base = .ref i → n ≤ i)

omit [Add α] [Sub α] [Mul α] [Div α] [Neg α] [OfScientific α] in
theorem rebind_fresh (w : World α) (ti : Nat) (objs : List (Obj α)) (nb : Option (Obj α)) (bv : Val)
    (hti : ti < w.tracks.length) (hbv : ∀ i, bv ≠ .ref i) :
    ∃ t', (w.rebind ti objs nb bv).tracks[ti]? = some t' ∧ FreshFrom w.heap.length t' := by
  cases nb with
  | none =>
    refine ⟨⟨refsFrom w.heap.length objs.length, bv⟩, ?_, ?_, ?_⟩
    · simp only [World.rebind]; rw [List.getElem?_set_self hti]
    · intro p hp; exact mem_refsFrom _ _ _ hp
    · intro i hi; exact absurd hi (hbv i)
  | some b =>
    refine ⟨⟨refsFrom w.heap.length objs.length, .ref (w.heap.length + objs.length)⟩, ?_, ?_, ?_⟩
    · simp only [World.rebind]; rw [List.getElem?_set_self hti]
    · intro p hp; exact mem_refsFrom _ _ _ hp
    · intro i hi
      simp only [Val.ref.injEq] at hi
      omega

theorem trackToENU_index (w w' : World α) (ti : Nat) (arg : Val) (h : w.trackToENU T ti arg = .ok w') :
    ti < w.tracks.length := by
  cases hg : w.tracks[ti]? with
  | none => simp [World.trackToENU, getTrack, hg, bind, Except.bind] at h
  | some t => exact (List.getElem?_eq_some_iff.mp hg).1

/-- after `Track.toENUCoords` the positions *and* `Track.base` are objects that did not exist before the call (or
`Track.base` is an SRID number): the track shares nothing with its caller any more -/
theorem trackToENU_fresh (w w' : World α) (ti : Nat) (arg : Val) (h : w.trackToENU T ti arg = .ok w') :
    ∃ t', w'.tracks[ti]? = some t' ∧ FreshFrom w.heap.length t' := by
  have hti := trackToENU_index T w w' ti arg h
  unfold World.trackToENU at h
  simp only [bind, Except.bind] at h
  repeat' split at h
  all_goals first
    | (cases h; done)
    | (cases h; exact rebind_fresh _ _ _ _ _ hti (by intro i hi; cases hi))

omit [Add α] [Sub α] [Mul α] [Div α] [Neg α] [OfScientific α] in
/-- an in-place update of an object the track holds no reference to does not change what the track is -/
theorem Abs_set_old (heap : List (Obj α)) (n j : Nat) (x : Obj α) (hj : j < n) (t : HTrack) (a : Track α)
    (hf : FreshFrom n t) (hA : Abs heap t a) : Abs (heap.set j x) t a := by
  obtain ⟨⟨objs, h1, h2, h3⟩, hb⟩ := hA
  refine ⟨⟨objs, ?_, h2, h3⟩, ?_⟩
  · rw [derefAll_set_other heap j x t.pts (fun p hp => by have := hf.1 p hp; omega)]
    exact h1
  · rw [valArg_set_other heap j x t.base (fun h => by have := hf.2 j h; omega)]
    exact hb

end

/-! ### point level: a call allocates the result computed from the current values -/
section
variable {α : Type} [Add α] [Sub α] [Mul α] [Div α] [Neg α] [OfScientific α]
variable (T : Trig α)

theorem call_eq (w : World α) (i : Nat) (o : Obj α) (ho : w.heap[i]? = some o) (m : Meth) (args : List Val) :
    w.call T i m args = (callConv T w.heap o m args).map (fun r => { w with heap := w.heap ++ [r] }) := by
  simp only [World.call, deref, ho, bind, Except.bind]
  cases callConv T w.heap o m args <;> rfl

end

/-! ### over ℝ: histories -/
section
variable (T : Trig ℝ)

/-- a `GeoCoords` / `ECEFCoords` object converted with *itself* as base (same object as point and base) -/
theorem callConv_self (heap : List (Obj ℝ)) (i : Nat) (o : Obj ℝ) (ho : heap[i]? = some o) (hk : o.kind ≠ .enu) :
    callConv T heap o .enu [.ref i] = .ok ⟨.enu, ⟨0, 0, 0⟩⟩ := by
  cases hkk : o.kind with
  | enu => exact absurd hkk hk
  | geo =>
    have hv : valArg heap (.ref i) = some (some (.pt (.geo o.v))) := by simp [valArg, ho, objBase, hkk]
    rw [callConv_geo_enu T heap o hkk _ _ hv]
    simp only [geoToEnuArg, Except.map, geoToEnu_self']
  | ecef =>
    have hv : valArg heap (.ref i) = some (some (.pt (.ecef o.v))) := by simp [valArg, ho, objBase, hkk]
    rw [callConv_ecef_enu T heap o hkk _ _ hv]
    have := ecefToEnu_base' T (.ecef o.v)
    simp only [Base.toEcef] at this
    simp only [ecefToEnuArg, Except.map, this]

theorem SimRes_ok (ti : Nat) (r : Except Err (World ℝ)) (a' : Track ℝ) (h : SimRes ti r (.ok a')) :
    ∃ w' t', r = .ok w' ∧ w'.tracks[ti]? = some t' ∧ Abs w'.heap t' a' := by
  cases r with
  | error e => simp [SimRes] at h
  | ok w' =>
    obtain ⟨t', h1, h2⟩ := h
    exact ⟨w', t', rfl, h1, h2⟩

/-- a Geo track goes to ENU about the caller's `GeoCoords` object `b`; the caller then updates any object that existed
before the conversion (his base object for instance); the track comes back without argument: every position is its own
Geo → ECEF → Geo image, computed with the base as it was at the time of the first conversion -/
theorem track_round_trip_survives_update' (hT : Pyth T) (w : World ℝ) (ti : Nat) (t : HTrack)
    (ht : w.tracks[ti]? = some t) (pts : List (V3 ℝ)) (hne : pts ≠ []) (ab : Option (BaseArg ℝ))
    (hA : Abs w.heap t ⟨.geo, pts, ab⟩) (b : Nat) (c : V3 ℝ) (hb : w.heap[b]? = some ⟨.geo, c⟩)
    (j k : Nat) (x : ℝ) (hj : j < w.heap.length) :
    ∃ w1 w2 w3 t3, w.trackToENU T ti (.ref b) = .ok w1 ∧ w1.set j k x = .ok w2 ∧ w2.trackToGeo T ti .none = .ok w3 ∧
      w3.tracks[ti]? = some t3 ∧
      Abs w3.heap t3 ⟨.geo, pts.map (fun g => ecefToGeo T (geoToEcef T g)), some (.pt (.geo c))⟩ := by
  have harg : valArg w.heap (.ref b) = some (some (.pt (.geo c))) := by simp [valArg, hb, objBase]
  have h1 := trackToENU_sim T w ti t ht _ hA (.ref b) _ harg
  rw [toENU_geo_pt T ⟨.geo, pts, ab⟩ rfl hne (.geo c)] at h1
  simp only [Base.toGeo] at h1
  obtain ⟨w1, t1, hw1, ht1, hA1⟩ := SimRes_ok ti _ _ h1
  obtain ⟨t1', ht1', hfresh⟩ := trackToENU_fresh T w w1 ti (.ref b) hw1
  rw [ht1] at ht1'
  cases ht1'
  obtain ⟨l, hl⟩ := trackToENU_frame T w w1 ti (.ref b) hw1
  have hj1 : j < w1.heap.length := by rw [hl]; simp; omega
  have hoj : ∃ o, w1.heap[j]? = some o := ⟨w1.heap[j], by simp [hj1]⟩
  obtain ⟨o, ho⟩ := hoj
  let w2 : World ℝ := { w1 with heap := w1.heap.set j ⟨o.kind, o.v.set k x⟩ }
  have hw2 : w1.set j k x = .ok w2 := by simp [World.set, ho, w2]
  have hA2 : Abs w2.heap t1 _ := Abs_set_old w1.heap w.heap.length j _ hj t1 _ hfresh hA1
  have ht2 : w2.tracks[ti]? = some t1 := ht1
  have h3 := trackToGeo_sim T w2 ti t1 ht2 _ hA2 .none none rfl
  have hne' : (pts.map (fun g => geoToEnu T g (.geo c))) ≠ [] := by simpa using hne
  rw [toGeo_enu T ⟨.enu, pts.map (fun g => geoToEnu T g (.geo c)), some (.pt (.geo c))⟩ rfl hne' (.geo c) none rfl] at h3
  obtain ⟨w3, t3, hw3, ht3, hA3⟩ := SimRes_ok ti _ _ h3
  refine ⟨w1, w2, w3, t3, hw1, hw2, hw3, ht3, ?_⟩
  simp only [List.map_map] at hA3
  have : List.map ((fun q => enuToGeo T q (Base.geo c)) ∘ fun g => geoToEnu T g (Base.geo c)) pts
      = List.map (fun g => ecefToGeo T (geoToEcef T g)) pts := by
    apply List.map_congr_left
    intro g _
    exact enuToGeo_geoToEnu' T hT g (.geo c)
  rw [this] at hA3
  exact hA3

end
end TV.Geo
