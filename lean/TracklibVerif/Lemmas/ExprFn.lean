import TracklibVerif.Lemmas.ExprAgg
/-! The definitions of `ARGMIN` / `ARGMAX`, `D`, `I`, `D2` as coded against their documented formulas.

* `Argmin` / `Argmax` (since fix b728412: `minimum = +inf`, `idmin = None`,
  `if val < minimum or (idmin is None and val == minimum): minimum = val; idmin = i`, `return 0 if idmin is None else idmin`):
  under the order laws of the comparison and the two facts about `==` at the start value (`inf == inf`, nothing else is
  `== inf`) the loop returns the *first* index at which the vector takes the value `MIN` (`MAX`) returns, as soon as the
  vector holds one number — the infinities included: `ARGMIN{[nan, inf, inf]} = 1` —; on an empty or all-NaN vector
  (no documented index) it returns `0`. (The pre-fix loop started from index 0 and moved on a strict improvement only: it
  returned 0, possibly the index of a NaN, whenever the least number was `+inf` itself.)
* `Differentiator`, `Integrator`, `SecondOrderFiniteDiff`: the index-wise recurrences
  `y(0) = NaN, y(t) = x(t) - x(t-1)`; `y(0) = 0, y(t) = y(t-1) + x(t)`; `y(t) = x(t+1) - 2 x(t) + x(t-1)`, NaN at both ends.
No law of arithmetic is used for the second group. -/
namespace TV.Expr
open Scalar
variable {α : Type} [Scalar α]

/-- what the loops use of "`v` is better than the current extremum `m`": irreflexive and transitive -/
structure Better (better : α → α → Bool) : Prop where
  irrefl : ∀ a, better a a = false
  trans : ∀ a b c, better a b = true → better b c = true → better a c = true

theorem better_lt (L : OrdLaws α) : Better (fun (v m : α) => lt v m) := ⟨L.irrefl, L.trans⟩
theorem better_gt (L : OrdLaws α) : Better (fun (v m : α) => lt m v) := ⟨L.irrefl, fun a b c h1 h2 => L.trans c b a h2 h1⟩

/-- what the loops use of Python's `==` against their start value: an infinity is equal to itself and to nothing else -/
structure EqLaws (α : Type) [Scalar α] : Prop where
  inf_self : eq (inf : α) inf = true
  eq_inf : ∀ v : α, eq v inf = true → v = inf
  ninf_self : eq (neg inf : α) (neg inf) = true
  eq_ninf : ∀ v : α, eq v (neg inf) = true → v = neg inf

/-- the index loop and the value fold run together (`F` = the fold of `Min` / `Max` from `cur`). As long as no index has
    been taken (`best = none`) `cur` is the start value, which `==` recognises exactly. Either nothing moved — value and
    index unchanged, and when no index had been taken no value was better than or equal to the start value —, or the
    index returned is that of the *first* position holding the final value, which is better than `cur` or (first index
    taken on equality) `cur` itself -/
theorem argLoop_spec (better : α → α → Bool) (B : Better better) : ∀ (vs : List α) (i : Nat) (cur : α) (best : Option Nat),
    (best = none → eq cur cur = true ∧ ∀ v : α, eq v cur = true → v = cur) →
    (vs.foldl (fun m v => if better v m then v else m) cur = cur ∧ argLoop better vs i cur best = best ∧
      (best = none → ∀ v ∈ vs, better v cur = false ∧ eq v cur = false)) ∨
    (∃ k, argLoop better vs i cur best = some (i + k) ∧ vs[k]? = some (vs.foldl (fun m v => if better v m then v else m) cur)
      ∧ (better (vs.foldl (fun m v => if better v m then v else m) cur) cur = true
          ∨ (best = none ∧ vs.foldl (fun m v => if better v m then v else m) cur = cur))
      ∧ ∀ j, j < k → vs[j]? ≠ some (vs.foldl (fun m v => if better v m then v else m) cur)) := by
  intro vs
  induction vs with
  | nil => intro i cur best _; exact Or.inl ⟨rfl, rfl, fun _ v hv => by simp at hv⟩
  | cons w ws ih =>
    intro i cur best hst
    simp only [List.foldl_cons, argLoop]
    by_cases hit : (better w cur || (best.isNone && eq w cur)) = true
    · have hcur : better w cur = true ∨ (best = none ∧ w = cur) := by
        by_cases hb : better w cur = true
        · exact Or.inl hb
        · have hb' : better w cur = false := by simpa using hb
          simp only [hb', Bool.false_or, Bool.and_eq_true, Option.isNone_iff_eq_none] at hit
          exact Or.inr ⟨hit.1, (hst hit.1).2 w hit.2⟩
      have hF : (if better w cur = true then w else cur) = w := by
        rcases hcur with hb | ⟨_, hb⟩
        · simp [hb]
        · simp [hb]
      rw [if_pos hit, hF]
      rcases ih (i + 1) w (some i) (by intro h; cases h) with ⟨h1, h2, _⟩ | ⟨k, h1, h2, h3, h4⟩
      · refine Or.inr ⟨0, by rw [h2]; rfl, by rw [h1]; rfl, by rw [h1]; exact hcur, fun j hj => absurd hj (Nat.not_lt_zero j)⟩
      · generalize ws.foldl (fun m v => if better v m then v else m) w = m at h2 h3 h4
        have h3' : better m w = true := by
          rcases h3 with h3 | ⟨h3, _⟩
          · exact h3
          · cases h3
        refine Or.inr ⟨k + 1, by rw [h1]; congr 1; omega, by simpa using h2, ?_, ?_⟩
        · rcases hcur with hc | ⟨_, hc⟩
          · exact Or.inl (B.trans m w cur h3' hc)
          · exact Or.inl (by rw [← hc]; exact h3')
        · intro j hj
          cases j with
          | zero =>
            intro hc
            simp only [List.getElem?_cons_zero, Option.some.injEq] at hc
            rw [hc, B.irrefl m] at h3'; cases h3'
          | succ j => simpa using h4 j (by omega)
    · have hit' : (better w cur || (best.isNone && eq w cur)) = false := by simpa using hit
      obtain ⟨hb, he⟩ := Bool.or_eq_false_iff.mp hit'
      rw [if_neg hit]
      simp only [hb, Bool.false_eq_true, if_false]
      rcases ih (i + 1) cur best hst with ⟨h1, h2, h5⟩ | ⟨k, h1, h2, h3, h4⟩
      · refine Or.inl ⟨h1, h2, ?_⟩
        intro hn v hv
        rcases List.mem_cons.mp hv with rfl | hv
        · refine ⟨hb, ?_⟩
          subst hn
          simpa using he
        · exact h5 hn v hv
      · generalize ws.foldl (fun m v => if better v m then v else m) cur = m at h2 h3 h4
        refine Or.inr ⟨k + 1, by rw [h1]; congr 1; omega, by simpa using h2, h3, ?_⟩
        intro j hj
        cases j with
        | zero =>
          intro hc
          simp only [List.getElem?_cons_zero, Option.some.injEq] at hc
          rcases h3 with h3 | ⟨hn, h3⟩
          · rw [hc, h3] at hb; cases hb
          · subst hn
            rw [hc, h3, (hst rfl).1] at he
            simp at he
        | succ j => simpa using h4 j (by omega)

/-- **`ARGMIN` as coded (fix b728412)**: as soon as the vector holds one number (a non-NaN value, `+inf` included),
    `ARGMIN` is the first index at which the vector takes the value `MIN` returns (documented: `min {t | x(t) = min(x)}`) -/
theorem argminL_first (L : OrdLaws α) (T : TopLaws α) (E : EqLaws α) (c : List α) (w : α) (hw : w ∈ c) (hn : isNaN w = false) :
    ∃ k, argminL c = ofNat k ∧ c[k]? = some (minL c) ∧ ∀ j, j < k → c[j]? ≠ some (minL c) := by
  rcases argLoop_spec (fun (v m : α) => lt v m) (better_lt L) c 0 inf none (fun _ => ⟨E.inf_self, E.eq_inf⟩)
    with ⟨_, _, h3⟩ | ⟨k, h1, h2, _, h4⟩
  · obtain ⟨hb, he⟩ := h3 rfl w hw
    have hb' : lt w inf = false := hb
    rcases T.top w hn with ht | ht
    · rw [ht] at hb'; cases hb'
    · rw [ht, E.inf_self] at he; cases he
  · exact ⟨k, by simp only [argminL, h1, Nat.zero_add, Option.getD_some], h2, h4⟩

/-- … and on an empty or all-NaN vector (no documented index) no index is ever taken: `ARGMIN` is `0` -/
theorem argminL_none (L : OrdLaws α) (T : TopLaws α) (E : EqLaws α) (c : List α) (h : ∀ v ∈ c, isNaN v = true) :
    argminL c = ofNat 0 := by
  rcases argLoop_spec (fun (v m : α) => lt v m) (better_lt L) c 0 inf none (fun _ => ⟨E.inf_self, E.eq_inf⟩)
    with ⟨_, h2, _⟩ | ⟨k, _, h2, h3, _⟩
  · simp only [argminL, h2, Option.getD_none]
  · exfalso
    have hnan := h _ (List.mem_of_getElem? h2)
    rcases h3 with h3 | ⟨_, h3⟩
    · have h3' : lt (c.foldl (fun m v => if lt v m then v else m) inf) inf = true := h3
      rw [T.nan_lt _ _ hnan] at h3'; cases h3'
    · rw [h3, T.inf_num] at hnan; cases hnan

/-- **`ARGMAX` as coded (fix b728412)**: the first index at which the vector takes the value `MAX` returns, as soon as the
    vector holds one number (`-inf` included) -/
theorem argmaxL_first (L : OrdLaws α) (T : TopLaws α) (E : EqLaws α) (c : List α) (w : α) (hw : w ∈ c) (hn : isNaN w = false) :
    ∃ k, argmaxL c = ofNat k ∧ c[k]? = some (maxL c) ∧ ∀ j, j < k → c[j]? ≠ some (maxL c) := by
  rcases argLoop_spec (fun (v m : α) => lt m v) (better_gt L) c 0 (neg inf) none (fun _ => ⟨E.ninf_self, E.eq_ninf⟩)
    with ⟨_, _, h3⟩ | ⟨k, h1, h2, _, h4⟩
  · obtain ⟨hb, he⟩ := h3 rfl w hw
    have hb' : lt (neg inf) w = false := hb
    rcases T.bot w hn with ht | ht
    · rw [ht] at hb'; cases hb'
    · rw [ht, E.ninf_self] at he; cases he
  · exact ⟨k, by simp only [argmaxL, h1, Nat.zero_add, Option.getD_some], h2, h4⟩

theorem argmaxL_none (L : OrdLaws α) (T : TopLaws α) (E : EqLaws α) (c : List α) (h : ∀ v ∈ c, isNaN v = true) :
    argmaxL c = ofNat 0 := by
  rcases argLoop_spec (fun (v m : α) => lt m v) (better_gt L) c 0 (neg inf) none (fun _ => ⟨E.ninf_self, E.eq_ninf⟩)
    with ⟨_, h2, _⟩ | ⟨k, _, h2, h3, _⟩
  · simp only [argmaxL, h2, Option.getD_none]
  · exfalso
    have hnan := h _ (List.mem_of_getElem? h2)
    rcases h3 with h3 | ⟨_, h3⟩
    · have h3' : lt (neg inf) (c.foldl (fun m v => if lt m v then v else m) (neg inf)) = true := h3
      rw [T.lt_nan _ _ hnan] at h3'; cases h3'
    · rw [h3, T.ninf_num] at hnan; cases hnan

/-! ### `D`, `I`, `D2` -/

/-- `D`: `y(0) = NaN` -/
theorem diff_zero (c : List α) : (diff c)[0]? = some nan := rfl

/-- `D`: `y(t) = x(t) - x(t-1)` for `t ≥ 1` -/
theorem diff_succ (c : List α) (i : Nat) (a b : α) (ha : c[i]? = some a) (hb : c[i + 1]? = some b) :
    (diff c)[i + 1]? = some (sub b a) := by
  simp only [diff, List.getElem?_cons_succ, List.getElem?_zipWith, List.getElem?_drop]
  rw [show 1 + i = i + 1 by omega, hb, ha]

theorem diff_length (c : List α) (h : c ≠ []) : (diff c).length = c.length := by
  cases c with
  | nil => exact absurd rfl h
  | cons x xs => simp [diff, List.length_zipWith]

theorem integAux_get (xs : List α) : ∀ (acc : α) (i : Nat) (x : α), xs[i]? = some x →
    (integAux acc xs)[i]? = some (add (match i with | 0 => acc | j + 1 => (integAux acc xs).getD j nan) x) := by
  induction xs with
  | nil => intro acc i x h; simp at h
  | cons y ys ih =>
    intro acc i x h
    cases i with
    | zero =>
      simp only [List.getElem?_cons_zero, Option.some.injEq] at h
      subst h; rfl
    | succ j =>
      simp only [List.getElem?_cons_succ] at h
      have := ih (add acc y) j x h
      simp only [integAux, List.getElem?_cons_succ, this]
      cases j with
      | zero => rfl
      | succ l => rfl

/-- `I`: `y(0) = 0` -/
theorem integ_zero (c : List α) : (integ c)[0]? = some zero := rfl

/-- `I`: `y(t) = y(t-1) + x(t)` for `t ≥ 1` -/
theorem integ_succ (c : List α) (i : Nat) (x : α) (hx : c[i + 1]? = some x) :
    (integ c)[i + 1]? = some (add ((integ c).getD i nan) x) := by
  have hx' : (c.drop 1)[i]? = some x := by rw [List.getElem?_drop, show 1 + i = i + 1 by omega]; exact hx
  have := integAux_get (c.drop 1) zero i x hx'
  simp only [integ, List.getElem?_cons_succ, this]
  cases i with
  | zero => rfl
  | succ j => rfl

theorem diff2Mid_get : ∀ (c : List α) (i : Nat) (a b d : α), c[i]? = some a → c[i + 1]? = some b → c[i + 2]? = some d →
    (diff2Mid c)[i]? = some (add (sub d (mul two b)) a)
  | [], i, a, _, _, h, _, _ => by simp at h
  | [_], i, _, b, _, _, h, _ => by simp at h
  | [_, _], i, _, _, d, _, _, h => by simp at h
  | x :: y :: z :: rest, 0, a, b, d, ha, hb, hd => by
    simp only [List.getElem?_cons_zero, List.getElem?_cons_succ, Option.some.injEq] at ha hb hd
    subst ha hb hd; rfl
  | x :: y :: z :: rest, i + 1, a, b, d, ha, hb, hd => by
    simp only [List.getElem?_cons_succ] at ha hb hd
    simp only [diff2Mid, List.getElem?_cons_succ]
    exact diff2Mid_get (y :: z :: rest) i a b d ha hb hd

theorem diff2Mid_length : ∀ (c : List α), (diff2Mid c).length = c.length - 2
  | [] => rfl
  | [_] => rfl
  | [_, _] => rfl
  | x :: y :: z :: rest => by
    simp only [diff2Mid, List.length_cons, diff2Mid_length (y :: z :: rest)]
    omega

/-- `D2`: `y(t) = x(t+1) - 2 x(t) + x(t-1)` for `1 ≤ t ≤ n-2` -/
theorem diff2_mid (n : Nat) (c : List α) (hn : 2 ≤ n) (i : Nat) (a b d : α)
    (ha : c[i]? = some a) (hb : c[i + 1]? = some b) (hd : c[i + 2]? = some d) :
    (diff2 n c)[i + 1]? = some (add (sub d (mul two b)) a) := by
  have h := diff2Mid_get c i a b d ha hb hd
  have hlt : i < (diff2Mid c).length := by
    rcases Nat.lt_or_ge i (diff2Mid c).length with h' | h'
    · exact h'
    · rw [List.getElem?_eq_none h'] at h; cases h
  simp only [diff2, show ¬ n ≤ 1 by omega, if_false, List.getElem?_cons_succ, List.getElem?_append_left hlt, h]

/-- `D2`: NaN at the first and at the last observation -/
theorem diff2_ends (n : Nat) (c : List α) (hn : 2 ≤ n) (hl : c.length = n) :
    (diff2 n c)[0]? = some nan ∧ (diff2 n c)[n - 1]? = some nan ∧ (diff2 n c).length = n := by
  have hlen := diff2Mid_length c
  refine ⟨by simp [diff2, show ¬ n ≤ 1 by omega], ?_, ?_⟩
  · simp only [diff2, show ¬ n ≤ 1 by omega, if_false]
    rw [show n - 1 = (n - 2) + 1 by omega, List.getElem?_cons_succ,
      List.getElem?_append_right (by rw [hlen, hl]; exact Nat.le_refl _)]
    simp [hlen, hl]
  · simp only [diff2, show ¬ n ≤ 1 by omega, if_false, List.length_cons, List.length_append, hlen, hl, List.length_nil]
    omega

end TV.Expr
