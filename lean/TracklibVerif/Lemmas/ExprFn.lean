import TracklibVerif.Lemmas.ExprAgg
/-! The definitions of `ARGMIN` / `ARGMAX`, `D`, `I`, `D2` as coded against their documented formulas.

* `Argmin` / `Argmax` (`if val < minimum: minimum = val; idmin = i` from `minimum = +inf`, `idmin = 0`): under the order laws
  of the comparison the loop returns the *first* index at which the vector takes the value `MIN` (`MAX`) returns, as soon
  as that value is below `+inf` (above `-inf`); otherwise — no value strictly inside the start value — it returns `0`
  (the residual discrepancy `argextremum-equal-to-start-value` when observation 0 is a NaN).
* `Differentiator`, `Integrator`, `SecondOrderFiniteDiff`: the index-wise recurrences
  `y(0) = NaN, y(t) = x(t) - x(t-1)`; `y(0) = 0, y(t) = y(t-1) + x(t)`; `y(t) = x(t+1) - 2 x(t) + x(t-1)`, NaN at both ends.
No law of arithmetic is used for the second group. -/
namespace TV.Expr
open Scalar
variable {α : Type} [Scalar α]

/-- what the loops use of "`v` is better than the current extremum `m`": irreflexive and transitive -/
structure Better (better : α → α → Bool) : Prop where
  irrefl : ∀ a, better a a = false
  trans : ∀ a b c, better a b = true → better b c = true → better a c = true

theorem better_lt (L : OrdLaws α) : Better (fun (v m : α) => lt v m) := ⟨L.irrefl, L.trans⟩
theorem better_gt (L : OrdLaws α) : Better (fun (v m : α) => lt m v) := ⟨L.irrefl, fun a b c h1 h2 => L.trans c b a h2 h1⟩

/-- the index loop and the value fold run together: either nothing was better than the start value (value and index
    unchanged), or the index returned is that of the *first* position holding the final value, which is better than
    the start value -/
theorem argLoop_spec (better : α → α → Bool) (B : Better better) : ∀ (vs : List α) (i : Nat) (cur : α) (best : Nat),
    (vs.foldl (fun m v => if better v m then v else m) cur = cur ∧ argLoop better vs i cur best = best) ∨
    (∃ k, argLoop better vs i cur best = i + k ∧ vs[k]? = some (vs.foldl (fun m v => if better v m then v else m) cur)
      ∧ better (vs.foldl (fun m v => if better v m then v else m) cur) cur = true
      ∧ ∀ j, j < k → vs[j]? ≠ some (vs.foldl (fun m v => if better v m then v else m) cur)) := by
  intro vs
  induction vs with
  | nil => intro i cur best; exact Or.inl ⟨rfl, rfl⟩
  | cons w ws ih =>
    intro i cur best
    simp only [List.foldl_cons, argLoop]
    by_cases hw : better w cur = true
    · simp only [hw, if_true]
      rcases ih (i + 1) w i with ⟨h1, h2⟩ | ⟨k, h1, h2, h3, h4⟩
      · refine Or.inr ⟨0, by rw [h2]; rfl, by rw [h1]; rfl, by rw [h1]; exact hw, fun j hj => absurd hj (Nat.not_lt_zero j)⟩
      · generalize ws.foldl (fun m v => if better v m then v else m) w = m at h2 h3 h4
        refine Or.inr ⟨k + 1, by rw [h1]; omega, by simpa using h2, B.trans m w cur h3 hw, ?_⟩
        intro j hj
        cases j with
        | zero =>
          intro hc
          simp only [List.getElem?_cons_zero, Option.some.injEq] at hc
          rw [hc, B.irrefl m] at h3; cases h3
        | succ j => simpa using h4 j (by omega)
    · have hw' : better w cur = false := by simpa using hw
      simp only [hw', Bool.false_eq_true, if_false]
      rcases ih (i + 1) cur best with ⟨h1, h2⟩ | ⟨k, h1, h2, h3, h4⟩
      · exact Or.inl ⟨h1, h2⟩
      · generalize ws.foldl (fun m v => if better v m then v else m) cur = m at h2 h3 h4
        refine Or.inr ⟨k + 1, by rw [h1]; omega, by simpa using h2, h3, ?_⟩
        intro j hj
        cases j with
        | zero =>
          intro hc
          simp only [List.getElem?_cons_zero, Option.some.injEq] at hc
          rw [hc, h3] at hw'; cases hw'
        | succ j => simpa using h4 j (by omega)

/-- **`ARGMIN` as coded**: when the value `MIN` returns is below `+inf`, `ARGMIN` is the first index at which the
    vector takes that value (documented: `min {t | x(t) = min(x)}`) -/
theorem argminL_first (L : OrdLaws α) (c : List α) (h : lt (minL c) inf = true) :
    ∃ k, argminL c = ofNat k ∧ c[k]? = some (minL c) ∧ ∀ j, j < k → c[j]? ≠ some (minL c) := by
  rcases argLoop_spec (fun (v m : α) => lt v m) (better_lt L) c 0 inf 0 with ⟨h1, _⟩ | ⟨k, h1, h2, _, h4⟩
  · have h1' : minL c = inf := h1
    rw [h1', L.irrefl] at h; cases h
  · exact ⟨k, by simp only [argminL, h1, Nat.zero_add], h2, h4⟩

/-- … and when nothing is below `+inf` (an empty or all-NaN vector, or `+inf` itself the least number) the loop never
    moves: `ARGMIN` is `0`, whatever observation 0 holds (finding `argextremum-equal-to-start-value` when it is a NaN) -/
theorem argminL_start (L : OrdLaws α) (c : List α) (h : lt (minL c) inf = false) : argminL c = ofNat 0 := by
  rcases argLoop_spec (fun (v m : α) => lt v m) (better_lt L) c 0 inf 0 with ⟨_, h2⟩ | ⟨k, _, _, h3, _⟩
  · simp only [argminL, h2]
  · have h3' : lt (minL c) inf = true := h3
    rw [h] at h3'; cases h3'

/-- **`ARGMAX` as coded**: the first index at which the vector takes the value `MAX` returns, when that is above `-inf` -/
theorem argmaxL_first (L : OrdLaws α) (c : List α) (h : lt (neg inf) (maxL c) = true) :
    ∃ k, argmaxL c = ofNat k ∧ c[k]? = some (maxL c) ∧ ∀ j, j < k → c[j]? ≠ some (maxL c) := by
  rcases argLoop_spec (fun (v m : α) => lt m v) (better_gt L) c 0 (neg inf) 0 with ⟨h1, _⟩ | ⟨k, h1, h2, _, h4⟩
  · have h1' : maxL c = neg inf := h1
    rw [h1', L.irrefl] at h; cases h
  · exact ⟨k, by simp only [argmaxL, h1, Nat.zero_add], h2, h4⟩

theorem argmaxL_start (L : OrdLaws α) (c : List α) (h : lt (neg inf) (maxL c) = false) : argmaxL c = ofNat 0 := by
  rcases argLoop_spec (fun (v m : α) => lt m v) (better_gt L) c 0 (neg inf) 0 with ⟨_, h2⟩ | ⟨k, _, _, h3, _⟩
  · simp only [argmaxL, h2]
  · have h3' : lt (neg inf) (maxL c) = true := h3
    rw [h] at h3'; cases h3'

/-! ### `D`, `I`, `D2` -/

/-- `D`: `y(0) = NaN` -/
theorem diff_zero (c : List α) : (diff c)[0]? = some nan := rfl

/-- `D`: `y(t) = x(t) - x(t-1)` for `t ≥ 1` -/
theorem diff_succ (c : List α) (i : Nat) (a b : α) (ha : c[i]? = some a) (hb : c[i + 1]? = some b) :
    (diff c)[i + 1]? = some (sub b a) := by
  simp only [diff, List.getElem?_cons_succ, List.getElem?_zipWith, List.getElem?_drop]
  rw [show 1 + i = i + 1 by omega, hb, ha]

theorem diff_length (c : List α) (h : c ≠ []) : (diff c).length = c.length := by
  cases c with
  | nil => exact absurd rfl h
  | cons x xs => simp [diff, List.length_zipWith]

theorem integAux_get (xs : List α) : ∀ (acc : α) (i : Nat) (x : α), xs[i]? = some x →
    (integAux acc xs)[i]? = some (add (match i with | 0 => acc | j + 1 => (integAux acc xs).getD j nan) x) := by
  induction xs with
  | nil => intro acc i x h; simp at h
  | cons y ys ih =>
    intro acc i x h
    cases i with
    | zero =>
      simp only [List.getElem?_cons_zero, Option.some.injEq] at h
      subst h; rfl
    | succ j =>
      simp only [List.getElem?_cons_succ] at h
      have := ih (add acc y) j x h
      simp only [integAux, List.getElem?_cons_succ, this]
      cases j with
      | zero => rfl
      | succ l => rfl

/-- `I`: `y(0) = 0` -/
theorem integ_zero (c : List α) : (integ c)[0]? = some zero := rfl

/-- `I`: `y(t) = y(t-1) + x(t)` for `t ≥ 1` -/
theorem integ_succ (c : List α) (i : Nat) (x : α) (hx : c[i + 1]? = some x) :
    (integ c)[i + 1]? = some (add ((integ c).getD i nan) x) := by
  have hx' : (c.drop 1)[i]? = some x := by rw [List.getElem?_drop, show 1 + i = i + 1 by omega]; exact hx
  have := integAux_get (c.drop 1) zero i x hx'
  simp only [integ, List.getElem?_cons_succ, this]
  cases i with
  | zero => rfl
  | succ j => rfl

theorem diff2Mid_get : ∀ (c : List α) (i : Nat) (a b d : α), c[i]? = some a → c[i + 1]? = some b → c[i + 2]? = some d →
    (diff2Mid c)[i]? = some (add (sub d (mul two b)) a)
  | [], i, a, _, _, h, _, _ => by simp at h
  | [_], i, _, b, _, _, h, _ => by simp at h
  | [_, _], i, _, _, d, _, _, h => by simp at h
  | x :: y :: z :: rest, 0, a, b, d, ha, hb, hd => by
    simp only [List.getElem?_cons_zero, List.getElem?_cons_succ, Option.some.injEq] at ha hb hd
    subst ha hb hd; rfl
  | x :: y :: z :: rest, i + 1, a, b, d, ha, hb, hd => by
    simp only [List.getElem?_cons_succ] at ha hb hd
    simp only [diff2Mid, List.getElem?_cons_succ]
    exact diff2Mid_get (y :: z :: rest) i a b d ha hb hd

theorem diff2Mid_length : ∀ (c : List α), (diff2Mid c).length = c.length - 2
  | [] => rfl
  | [_] => rfl
  | [_, _] => rfl
  | x :: y :: z :: rest => by
    simp only [diff2Mid, List.length_cons, diff2Mid_length (y :: z :: rest)]
    omega

/-- `D2`: `y(t) = x(t+1) - 2 x(t) + x(t-1)` for `1 ≤ t ≤ n-2` -/
theorem diff2_mid (n : Nat) (c : List α) (hn : 2 ≤ n) (i : Nat) (a b d : α)
    (ha : c[i]? = some a) (hb : c[i + 1]? = some b) (hd : c[i + 2]? = some d) :
    (diff2 n c)[i + 1]? = some (add (sub d (mul two b)) a) := by
  have h := diff2Mid_get c i a b d ha hb hd
  have hlt : i < (diff2Mid c).length := by
    rcases Nat.lt_or_ge i (diff2Mid c).length with h' | h'
    · exact h'
    · rw [List.getElem?_eq_none h'] at h; cases h
  simp only [diff2, show ¬ n ≤ 1 by omega, if_false, List.getElem?_cons_succ, List.getElem?_append_left hlt, h]

/-- `D2`: NaN at the first and at the last observation -/
theorem diff2_ends (n : Nat) (c : List α) (hn : 2 ≤ n) (hl : c.length = n) :
    (diff2 n c)[0]? = some nan ∧ (diff2 n c)[n - 1]? = some nan ∧ (diff2 n c).length = n := by
  have hlen := diff2Mid_length c
  refine ⟨by simp [diff2, show ¬ n ≤ 1 by omega], ?_, ?_⟩
  · simp only [diff2, show ¬ n ≤ 1 by omega, if_false]
    rw [show n - 1 = (n - 2) + 1 by omega, List.getElem?_cons_succ,
      List.getElem?_append_right (by rw [hlen, hl]; exact Nat.le_refl _)]
    simp [hlen, hl]
  · simp only [diff2, show ¬ n ≤ 1 by omega, if_false, List.length_cons, List.length_append, hlen, hl, List.length_nil]
    omega

end TV.Expr
