import TracklibVerif.Model.MapMatchZ
import TracklibVerif.Lemmas.MapMatchCompose
/-! Helper lemmas for C10, fourth part: map-matching on data WITH ALTITUDES (`Model/MapMatchZ`) is map-matching on the
planimetric parts. `flatE` / `flatS` / `flatO` / `flatNet` forget the third coordinate; every function of the 3D model commutes
with them (exceptions included), the matched points have `U = 0`, the flag state carries the observation's own position, the
network stores geometries and node coordinates with their altitudes as given. -/
namespace TV.MapMatch
open TV.Proj
variable {α : Type} [Field α] [LinearOrder α] [IsStrictOrderedRing α]

/-- the planimetric edge geometry (same `abs_curv` column) -/
def flatE (e : Edge3 α) : Edge α := ⟨e.geom.map xy, e.curv⟩
/-- a state without the altitude of its point -/
def flatS (s : State3 α) : State α := ⟨xy s.p, s.edge, s.d0, s.d1⟩
/-- an observation without its altitude -/
def flatO (o : Obs3 α) : Obs α := ⟨xy o.pos, o.t⟩

theorem dist2D3_eq (sqrt : α → α) (a c : P3 α) : dist2D3 sqrt a c = dist2D sqrt (xy a) (xy c) := rfl

theorem curvFrom3_eq (sqrt : α → α) (l : List (P3 α)) :
    ∀ (acc : α) (prev : P3 α), curvFrom3 sqrt acc prev l = curvFrom sqrt acc (xy prev) (l.map xy) := by
  induction l with
  | nil => intro acc prev; rfl
  | cons q rest ih =>
    intro acc prev
    simp only [curvFrom3, curvFrom, List.map_cons, dist2D3_eq, ih]

/-- `computeAbsCurv` on a geometry with altitudes is `computeAbsCurv` on its planimetric vertices -/
theorem absCurv3_eq (sqrt : α → α) (g : List (P3 α)) : absCurv3 sqrt g = absCurv sqrt (g.map xy) := by
  cases g with
  | nil => rfl
  | cons p rest => simp only [absCurv3, absCurv, List.map_cons, curvFrom3_eq]

theorem distToNode3_eq (sqrt : α → α) (e : Edge3 α) (c : P3 α) (i k : Nat) :
    distToNode3 sqrt e c i k = distToNode sqrt (flatE e) (xy c) i k := by
  unfold distToNode3 distToNode flatE
  simp only [List.getElem?_map, List.length_map]
  cases e.curv[i]? <;> cases e.curv[i + 1]? <;> simp only
  split
  · cases e.geom[i]? <;> simp [dist2D3_eq]
  · cases e.curv[e.geom.length - 1]? <;> cases e.geom[i + 1]? <;> simp [dist2D3_eq]

/-- `__projOnTrack` on 3D positions, exceptions included, through `TV.C20.projPolyligneXY_spec` -/
theorem projOnTrack3_eq (sqrt : α → α) (eps : α) (pts : List (P3 α)) (q : P3 α) :
    projOnTrack3 sqrt eps pts q =
      (match projOnTrack sqrt eps (pts.map xy) q.1 q.2.1 with
       | .error e => .error (.base e)
       | .ok r => .ok ((r.1.1, r.1.2, 0), r.2.1, r.2.2)) := by
  have hl : (getXs pts).length ≤ (getYs pts).length := by simp [getXs, getYs]
  have hzip : (getXs pts).zip (getYs pts) = pts.map xy := by
    simp [getXs, getYs, xy, List.zip_map']
  unfold projOnTrack3 projOnTrack
  rw [TV.C20.projPolyligneXY_spec false sqrt eps _ _ _ _ hl (Or.inl rfl), hzip]
  cases projPolyligne sqrt eps (pts.map xy) q.1 q.2.1 with
  | error e => rfl
  | ok r => rfl

theorem flatS_flag3 (pos : P3 α) : flatS (flag3 pos) = flag (xy pos) := rfl

/-- the candidate loop on 3D data is the candidate loop on the planimetric data (same exceptions, same states up to the
altitude of their points) -/
theorem candLoop3_flat (sqrt : α → α) (eps radius : α) (edges : List (Edge3 α)) (pos : P3 α) (E : List Nat) :
    ∀ (acc : List (State3 α)),
      (candLoop3 sqrt eps radius edges pos E acc).map (List.map flatS) =
        candLoop sqrt eps radius (edges.map flatE) (xy pos) E (acc.map flatS) := by
  induction E with
  | nil => intro acc; rfl
  | cons elem rest ih =>
    intro acc
    rw [candLoop3, candLoop]
    simp only [List.getElem?_map]
    cases he : edges[elem]? with
    | none => rfl
    | some eg =>
      simp only [Option.map_some]
      rw [projOnTrack3_eq]
      have hg : (flatE eg).geom = eg.geom.map xy := rfl
      have hxy : (xy pos).1 = pos.1 ∧ (xy pos).2 = pos.2.1 := ⟨rfl, rfl⟩
      rw [hg, hxy.1, hxy.2]
      cases hp : projOnTrack sqrt eps (eg.geom.map xy) pos.1 pos.2.1 with
      | error e => cases e <;> rfl
      | ok r =>
        obtain ⟨⟨px, py⟩, d, i⟩ := r
        simp only
        have hxy0 : xy ((px, py, (0 : α)) : P3 α) = (px, py) := rfl
        by_cases hlt : d < radius
        · simp only [hlt, ↓reduceIte, distToNode3_eq, hxy0]
          cases distToNode sqrt (flatE eg) (px, py) i 0 with
          | none => rfl
          | some a =>
            cases distToNode sqrt (flatE eg) (px, py) i 1 with
            | none => rfl
            | some b =>
              simp only
              rw [ih]
              simp [flatS, xy]
        · simp only [hlt, ↓reduceIte]
          exact ih acc

/-- shape of the states of the candidate loop: a matched point has altitude `0` and a non-negative edge number -/
theorem candLoop3_shape (sqrt : α → α) (eps radius : α) (edges : List (Edge3 α)) (pos : P3 α) (E : List Nat) :
    ∀ (acc res : List (State3 α)), (∀ s ∈ acc, s.p.2.2 = 0 ∧ 0 ≤ s.edge) →
      candLoop3 sqrt eps radius edges pos E acc = .ok res → ∀ s ∈ res, s.p.2.2 = 0 ∧ 0 ≤ s.edge := by
  induction E with
  | nil => intro acc res hacc h; simp only [candLoop3] at h; injection h with h; subst h; exact hacc
  | cons elem rest ih =>
    intro acc res hacc h
    rw [candLoop3] at h
    cases he : edges[elem]? with
    | none => rw [he] at h; cases h
    | some eg =>
      rw [he] at h
      simp only at h
      rw [projOnTrack3_eq] at h
      cases hp : projOnTrack sqrt eps (eg.geom.map xy) pos.1 pos.2.1 with
      | error e => rw [hp] at h; cases h
      | ok r =>
        rw [hp] at h
        simp only at h
        split at h
        · split at h
          · refine ih _ res ?_ h
            intro s hs
            rcases List.mem_append.mp hs with hm | hm
            · exact hacc s hm
            · simp only [List.mem_singleton] at hm
              subst hm
              exact ⟨rfl, Int.natCast_nonneg elem⟩
          · cases h
        · exact ih _ res hacc h

/-- `STATES[i]` on 3D data is `STATES[i]` on the planimetric data -/
theorem obsStates3_flat (sqrt : α → α) (eps radius : α) (edges : List (Edge3 α)) (pos : P3 α) (cand : Option (List Nat)) :
    (obsStates3 sqrt eps radius edges pos cand).map (List.map flatS) =
      obsStates sqrt eps radius (edges.map flatE) (xy pos) cand := by
  unfold obsStates3 obsStates
  cases cand with
  | none => rfl
  | some E =>
    simp only
    have h := candLoop3_flat sqrt eps radius edges pos E []
    simp only [List.map_nil] at h
    rw [← h]
    cases candLoop3 sqrt eps radius edges pos E [] with
    | error e => rfl
    | ok r => cases r <;> rfl

/-- `STATES[i]` on 3D data: the flag state with the observation's own 3D position, or states whose points have altitude 0 -/
theorem obsStates3_shape (sqrt : α → α) (eps radius : α) (edges : List (Edge3 α)) (pos : P3 α) (cand : Option (List Nat))
    (l : List (State3 α)) (h : obsStates3 sqrt eps radius edges pos cand = .ok l) :
    l = [flag3 pos] ∨ (l ≠ [] ∧ ∀ s ∈ l, s.p.2.2 = 0 ∧ 0 ≤ s.edge) := by
  unfold obsStates3 at h
  cases cand with
  | none => simp only at h; injection h with h; exact Or.inl h.symm
  | some E =>
    simp only at h
    cases hl : candLoop3 sqrt eps radius edges pos E [] with
    | error e => rw [hl] at h; cases h
    | ok r =>
      rw [hl] at h
      have sh := candLoop3_shape sqrt eps radius edges pos E [] r (fun s hm => by simp at hm) hl
      cases r with
      | nil => simp only at h; injection h with h; exact Or.inl h.symm
      | cons s ss => simp only at h; injection h with h; subst h; exact Or.inr ⟨by simp, sh⟩

/-- what the property says of a matched observation on data with altitudes: the assigned point has `U = 0` and, in the plane,
is `Matched` on the planimetric geometries: on a segment of the geometry of an existing edge, strictly within the radius of
the planimetric observed position, with the PLANIMETRIC along-edge distances to the two ends, adding up to the planimetric
length of the edge -/
def Matched3 (sqrt : α → α) (radius : α) (edges : List (Edge3 α)) (pos : P3 α) (s : State3 α) : Prop :=
  s.p.2.2 = 0 ∧ Matched sqrt radius (edges.map flatE) (xy pos) (flatS s)

/-- `STATES[i]` on edges with altitudes whose `abs_curv` columns are the computed ones: the flag state alone (the
observation's own 3D position), or a non-empty list of matched states -/
theorem obsStates3_matched {sqrt : α → α} (hs : SqrtSpec sqrt) (eps radius : α) (edges : List (Edge3 α))
    (hcurv : ∀ eg ∈ edges, eg.curv = absCurv3 sqrt eg.geom) (pos : P3 α)
    (cand : Option (List Nat)) (l : List (State3 α)) (h : obsStates3 sqrt eps radius edges pos cand = .ok l) :
    l = [flag3 pos] ∨ (l ≠ [] ∧ ∀ s ∈ l, Matched3 sqrt radius edges pos s) := by
  have hflat : obsStates sqrt eps radius (edges.map flatE) (xy pos) cand = .ok (l.map flatS) := by
    rw [← obsStates3_flat, h]; rfl
  have hcurv' : ∀ eg ∈ edges.map flatE, eg.curv = absCurv sqrt eg.geom := by
    intro eg heg
    obtain ⟨e3, he3, rfl⟩ := List.mem_map.mp heg
    show e3.curv = absCurv sqrt (e3.geom.map xy)
    rw [← absCurv3_eq]; exact hcurv e3 he3
  rcases obsStates3_shape sqrt eps radius edges pos cand l h with hfl | ⟨hne, hsh⟩
  · exact Or.inl hfl
  · right
    refine ⟨hne, ?_⟩
    intro s hsm
    refine ⟨(hsh s hsm).1, ?_⟩
    rcases obsStates_matched hs eps radius (edges.map flatE) hcurv' (xy pos) cand _ hflat with hf2 | ⟨_, hall⟩
    · -- the planimetric list is the flag alone: impossible, the edge number of `s` is non-negative
      have hmem : flatS s ∈ l.map flatS := List.mem_map.mpr ⟨s, hsm, rfl⟩
      rw [hf2] at hmem
      simp only [List.mem_singleton] at hmem
      have he : s.edge = -1 := by
        have := congrArg State.edge hmem
        simpa [flatS, flag] using this
      have := (hsh s hsm).2
      omega
    · exact hall _ (List.mem_map.mpr ⟨s, hsm, rfl⟩)

/-- the whole preparation loop commutes with forgetting the altitudes -/
theorem allStates3_flat (sqrt : α → α) (eps radius : α) (edges : List (Edge3 α)) :
    ∀ (track : List (Obs3 α)) (cands : List (Option (List Nat))),
      (allStates3 sqrt eps radius edges track cands).map (List.map (List.map flatS)) =
        allStates sqrt eps radius (edges.map flatE) (track.map flatO) cands := by
  intro track
  induction track with
  | nil => intro cands; rfl
  | cons o os ih =>
    intro cands
    rw [allStates3, List.map_cons, allStates]
    have h1 := obsStates3_flat sqrt eps radius edges o.pos (cands.head?.getD none)
    have ho : (flatO o).pos = xy o.pos := rfl
    rw [ho, ← h1]
    cases obsStates3 sqrt eps radius edges o.pos (cands.head?.getD none) with
    | error e => rfl
    | ok s =>
      simp only [Except.map]
      rw [← ih cands.tail]
      cases allStates3 sqrt eps radius edges os cands.tail with
      | error e => rfl
      | ok ss => rfl

theorem inferAll3_mem (ss : List (List (State3 α))) :
    ∀ (idx : List Nat) (inf : List (State3 α)), inferAll3 ss idx = .ok inf →
      inf.length = ss.length ∧ ∀ (k : Nat) (st : State3 α), inf[k]? = some st → ∃ l, ss[k]? = some l ∧ st ∈ l := by
  induction ss with
  | nil => intro idx inf h; simp only [inferAll3] at h; injection h with h; subst h; exact ⟨rfl, fun k st hk => by simp at hk⟩
  | cons s rest ih =>
    intro idx inf h
    rw [inferAll3] at h
    cases hs : s[idx.head?.getD 0]? with
    | none => rw [hs] at h; cases h
    | some st0 =>
      rw [hs] at h
      simp only at h
      cases hr : inferAll3 rest idx.tail with
      | error e => rw [hr] at h; cases h
      | ok r =>
        rw [hr] at h
        injection h with h; subst h
        obtain ⟨len, f⟩ := ih _ _ hr
        refine ⟨by simp [len], ?_⟩
        intro k st hk
        cases k with
        | zero =>
          simp only [List.getElem?_cons_zero, Option.some.injEq] at hk
          subst hk
          exact ⟨s, by simp, List.mem_of_getElem? hs⟩
        | succ k =>
          simp only [List.getElem?_cons_succ] at hk ⊢
          exact f k st hk

theorem newPositions3_id (mode : Nat) (hm : writesPositions mode = false) :
    ∀ (track : List (Obs3 α)) (inf : List (State3 α)), newPositions3 mode track inf = track := by
  intro track
  induction track with
  | nil => intro inf; cases inf <;> rfl
  | cons o os ih =>
    intro inf
    cases inf with
    | nil => rfl
    | cons s ss => simp only [newPositions3, hm, Bool.false_eq_true, ↓reduceIte, ih]

/-! ### planimetric length and 3D length -/

/-- the planimetric length of a geometry with altitudes (what `abs_curv` measures) -/
def polyLength3 (sqrt : α → α) (g : List (P3 α)) : α := polyLength sqrt (g.map xy)

theorem sqrt_mono {sqrt : α → α} (hs : SqrtSpec sqrt) (u v : α) (hu : 0 ≤ u) (huv : u ≤ v) : sqrt u ≤ sqrt v := by
  obtain ⟨a0, aa⟩ := hs u hu
  obtain ⟨b0, bb⟩ := hs v (le_trans hu huv)
  by_contra hlt
  have hlt : sqrt v < sqrt u := lt_of_not_ge hlt
  have : sqrt v * sqrt v < sqrt u * sqrt u := mul_self_lt_mul_self b0 hlt
  rw [aa, bb] at this
  exact absurd huv (not_le.mpr this)

theorem dist2D_le_dist3D {sqrt : α → α} (hs : SqrtSpec sqrt) (a c : P3 α) :
    dist2D sqrt (xy c) (xy a) ≤ dist3D sqrt a c := by
  unfold dist2D dist3D xy
  simp only
  have e : (a.1 - c.1) * (a.1 - c.1) + (a.2.1 - c.2.1) * (a.2.1 - c.2.1) =
      (c.1 - a.1) * (c.1 - a.1) + (c.2.1 - a.2.1) * (c.2.1 - a.2.1) := by ring
  rw [e]
  apply sqrt_mono hs
  · exact add_nonneg (mul_self_nonneg _) (mul_self_nonneg _)
  · have := mul_self_nonneg (c.2.2 - a.2.2); linarith

theorem dist2D_eq_dist3D (sqrt : α → α) (a c : P3 α) (h : a.2.2 = c.2.2) :
    dist3D sqrt a c = dist2D sqrt (xy c) (xy a) := by
  unfold dist2D dist3D xy
  simp only
  rw [h]
  congr 1
  ring

theorem polyLengthFrom_le_trackLengthFrom {sqrt : α → α} (hs : SqrtSpec sqrt) (l : List (P3 α)) :
    ∀ (a b : α) (prev : P3 α), a ≤ b → polyLengthFrom sqrt a (xy prev) (l.map xy) ≤ trackLengthFrom sqrt b prev l := by
  induction l with
  | nil => intro a b prev h; exact h
  | cons q rest ih =>
    intro a b prev h
    simp only [List.map_cons, polyLengthFrom, trackLengthFrom]
    exact ih _ _ q (add_le_add h (dist2D_le_dist3D hs prev q))

theorem polyLengthFrom_eq_trackLengthFrom (sqrt : α → α) (c : α) (l : List (P3 α)) :
    ∀ (a : α) (prev : P3 α), prev.2.2 = c → (∀ p ∈ l, p.2.2 = c) →
      trackLengthFrom sqrt a prev l = polyLengthFrom sqrt a (xy prev) (l.map xy) := by
  induction l with
  | nil => intro a prev _ _; rfl
  | cons q rest ih =>
    intro a prev hp hl
    simp only [List.map_cons, polyLengthFrom, trackLengthFrom]
    rw [dist2D_eq_dist3D sqrt prev q (by rw [hp, hl q (by simp)])]
    exact ih _ q (hl q (by simp)) (fun p hpm => hl p (List.mem_cons_of_mem _ hpm))

/-! ### network construction on data with altitudes

The statements and proofs of `Lemmas/MapMatchNet.lean` (network construction) replayed on the 3D structures (suffix `3`): what is
stored is what was handed over, ALTITUDES INCLUDED (this cannot be read off the planimetric image). -/

theorem addNode_frame3 (net : Net3 α) (n : Node3 α) :
    (addNode3 net n).edges = net.edges ∧ (addNode3 net n).idx = net.idx ∧ (addNode3 net n).index = net.index := by
  unfold addNode3; split <;> simp

/-- `addNode3` never changes a registered node: the first `Node3` registered under an id stays, with its coordinates -/
theorem addNode_keeps3 (net : Net3 α) (n : Node3 α) (i : Nat) (m : Node3 α) (h : lookupNode3 net i = some m) :
    lookupNode3 (addNode3 net n) i = some m := by
  unfold addNode3; split
  · exact h
  · unfold lookupNode3 at h ⊢
    simp only [List.find?_append, h, Option.some_or]

/-- … and registers an unknown id with the coordinates it is given -/
theorem addNode_new3 (net : Net3 α) (n : Node3 α) (h : lookupNode3 net n.id = none) :
    lookupNode3 (addNode3 net n) n.id = some n := by
  unfold lookupNode3 at h
  have hany : net.nodes.any (fun x => x.id == n.id) = false := by
    rw [List.any_eq_false]
    intro x hx hxe
    have := List.find?_eq_none.mp h x hx
    exact this hxe
  unfold addNode3 lookupNode3
  simp [hany, List.find?_append, h]

theorem lookup_setEdge_same3 (l : List (NEdge3 α)) (ne : NEdge3 α) : lookupEdge3 (setEdge3 l ne) ne.e.id = some ne := by
  unfold setEdge3 lookupEdge3
  split
  · rename_i hany
    induction l with
    | nil => simp at hany
    | cons x rest ih =>
      simp only [List.map_cons]
      by_cases hx : (x.e.id == ne.e.id) = true
      · simp [hx]
      · simp only [hx, Bool.false_eq_true, ↓reduceIte]
        rw [List.find?_cons]
        simp only [hx]
        apply ih
        simpa [hx] using hany
  · rename_i hany
    have hnone : l.find? (fun x => x.e.id == ne.e.id) = none := by
      rw [List.find?_eq_none]
      intro x hx hxe
      exact hany (List.any_eq_true.mpr ⟨x, hx, hxe⟩)
    simp [List.find?_append, hnone]

theorem find_replace_other3 (l : List (NEdge3 α)) (ne : NEdge3 α) (i : Nat) (hi : i ≠ ne.e.id) :
    List.find? (fun x => x.e.id == i) (l.map (fun x => if (x.e.id == ne.e.id) = true then ne else x)) =
      List.find? (fun x => x.e.id == i) l := by
  induction l with
  | nil => simp
  | cons x rest ih =>
    simp only [List.map_cons]
    by_cases hx : (x.e.id == ne.e.id) = true
    · have hxi : (x.e.id == i) = false := by
        have : x.e.id = ne.e.id := by simpa using hx
        simp [this]; exact fun h => hi h.symm
      have hni : (ne.e.id == i) = false := by simp; exact fun h => hi h.symm
      simp only [hx, ↓reduceIte, List.find?_cons, hni, hxi]
      exact ih
    · simp only [hx, Bool.false_eq_true, ↓reduceIte, List.find?_cons]
      split
      · rfl
      · exact ih

theorem lookup_setEdge_other3 (l : List (NEdge3 α)) (ne : NEdge3 α) (i : Nat) (hi : i ≠ ne.e.id) :
    lookupEdge3 (setEdge3 l ne) i = lookupEdge3 l i := by
  unfold setEdge3 lookupEdge3
  split
  · exact find_replace_other3 l ne i hi
  · have hni : (ne.e.id == i) = false := by simp; exact fun h => hi h.symm
    simp [List.find?_append, hni]

theorem addEdge_spec3 (fl : α → Int) (net net' : Net3 α) (e : EdgeIn3 α) (s t : Node3 α)
    (h : addEdge3 fl net e s t = .ok net') :
    net'.edges = setEdge3 net.edges ⟨e, s.id, t.id⟩ ∧ net'.idx = net.idx ++ [e.id] ∧
    net'.nodes = (addNode3 (addNode3 net s) t).nodes := by
  unfold addEdge3 at h
  obtain ⟨e1, i1, _⟩ := addNode_frame3 net s
  obtain ⟨e2, i2, _⟩ := addNode_frame3 (addNode3 net s) t
  simp only at h
  split at h
  · injection h with h; subst h; simp [e1, e2, i1, i2]
  · split at h
    · cases h
    · injection h with h; subst h; simp [e1, e2, i1, i2]

/-- one `Network.addEdge3`: the edge is stored3 under its id with the geometry and the `abs_curv` column AS GIVEN (nothing is
recomputed, no vertex is moved), every edge stored3 under another id is untouched, the nodes already registered keep their
coordinates -/
theorem addEdge_frame3 (fl : α → Int) (net net' : Net3 α) (e : EdgeIn3 α) (s t : Node3 α)
    (h : addEdge3 fl net e s t = .ok net') :
    lookupEdge3 net'.edges e.id = some ⟨e, s.id, t.id⟩ ∧
    (∀ i, i ≠ e.id → lookupEdge3 net'.edges i = lookupEdge3 net.edges i) ∧
    (∀ i m, lookupNode3 net i = some m → lookupNode3 net' i = some m) := by
  obtain ⟨he, _, hn⟩ := addEdge_spec3 fl net net' e s t h
  refine ⟨?_, ?_, ?_⟩
  · rw [he]; exact lookup_setEdge_same3 net.edges ⟨e, s.id, t.id⟩
  · intro i hi; rw [he]; exact lookup_setEdge_other3 net.edges ⟨e, s.id, t.id⟩ i hi
  · intro i m hm
    have := addNode_keeps3 (addNode3 net s) t i m (addNode_keeps3 net s i m hm)
    unfold lookupNode3 at this ⊢
    rw [hn]; exact this

/-- the stored3 form of an `addEdge3` argument triple -/
def stored3 (x : EdgeIn3 α × Node3 α × Node3 α) : NEdge3 α := ⟨x.1, x.2.1.id, x.2.2.id⟩

/-- a sequence of `addEdge3` calls with edge ids that are new and pairwise different appends the edges, in order -/
theorem addEdges_spec3 (fl : α → Int) (es : List (EdgeIn3 α × Node3 α × Node3 α)) :
    ∀ (net net' : Net3 α), addEdges3 fl net es = .ok net' →
      (net.edges.map (fun x => x.e.id) ++ es.map (fun x => x.1.id)).Nodup →
      net'.edges = net.edges ++ es.map stored3 ∧ net'.idx = net.idx ++ es.map (fun x => x.1.id) := by
  induction es with
  | nil => intro net net' h _; simp only [addEdges3] at h; injection h with h; subst h; simp
  | cons x rest ih =>
    intro net net' h hnd
    obtain ⟨e, s, t⟩ := x
    simp only [addEdges3] at h
    cases h1 : addEdge3 fl net e s t with
    | error er => rw [h1] at h; cases h
    | ok net1 =>
      rw [h1] at h
      simp only at h
      obtain ⟨he, hi, _⟩ := addEdge_spec3 fl net net1 e s t h1
      have hfresh : net.edges.any (fun x => x.e.id == e.id) = false := by
        rw [List.any_eq_false]
        intro x hx hxe
        have hxe' : x.e.id = e.id := by simpa using hxe
        simp only [List.map_cons] at hnd
        have := (List.nodup_append.mp hnd).2.2 (x.e.id) (List.mem_map.mpr ⟨x, hx, rfl⟩) e.id (by simp)
        exact this hxe'
      have he' : net1.edges = net.edges ++ [⟨e, s.id, t.id⟩] := by
        rw [he]; unfold setEdge3; simp [hfresh]
      obtain ⟨r1, r2⟩ := ih net1 net' h (by
        rw [he']
        simpa [List.map_append, List.append_assoc] using hnd)
      refine ⟨?_, ?_⟩
      · rw [r1, he']; simp [stored3]
      · rw [r2, hi]; simp

theorem attachIndex_frame3 (fl : α → Int) (net net' : Net3 α) (res : Option (α × α)) (margin : α)
    (h : attachIndex3 fl net res margin = .ok net') :
    net'.edges = net.edges ∧ net'.idx = net.idx ∧ net'.nodes = net.nodes := by
  unfold attachIndex3 at h
  split at h
  · cases h
  · injection h with h; subst h; simp

/-- in a dict-like edge list with pairwise different ids every stored3 edge is found under its id -/
theorem lookup_of_nodup3 (l : List (NEdge3 α)) (hnd : (l.map (fun x => x.e.id)).Nodup) :
    ∀ x ∈ l, lookupEdge3 l x.e.id = some x := by
  induction l with
  | nil => intro x hx; simp at hx
  | cons a rest ih =>
    intro x hx
    simp only [List.map_cons, List.nodup_cons] at hnd
    unfold lookupEdge3
    rcases List.mem_cons.mp hx with rfl | hx
    · simp
    · have hne : (a.e.id == x.e.id) = false := by
        simp only [beq_eq_false_iff_ne, ne_eq]
        intro heq
        exact hnd.1 (heq ▸ List.mem_map.mpr ⟨x, hx, rfl⟩)
      rw [List.find?_cons]; simp only [hne]
      exact ih hnd.2 x hx

/-- when `__idx_edges` lists the ids of `EDGES` in order and the ids are pairwise different, edge NUMBER `n` is the `n`-th
edge stored3 -/
theorem netEdges_of_nodup3 (net : Net3 α) (hidx : net.idx = net.edges.map (fun x => x.e.id))
    (hnd : (net.edges.map (fun x => x.e.id)).Nodup) :
    netEdges3 net = net.edges.map (fun ne => (⟨ne.e.geom, ne.e.curv⟩ : Edge3 α)) := by
  unfold netEdges3
  rw [hidx, List.filterMap_map]
  have hl := lookup_of_nodup3 net.edges hnd
  rw [← List.filterMap_eq_map]
  apply List.filterMap_congr
  intro x hx
  simp [Function.comp, hl x hx]

/-- the whole construction (`buildNet3`: `addEdge3` for every edge, the index attached before the last `late` ones) with
pairwise different edge ids: edge number `n` of the network carries the geometry and the `abs_curv` column of the `n`-th
edge handed to `addEdge3`, unchanged -/
theorem buildNet_edges3 (fl : α → Int) (es : List (EdgeIn3 α × Node3 α × Node3 α)) (late : Nat) (res : Option (α × α))
    (margin : α) (net : Net3 α) (hnd : (es.map (fun x => x.1.id)).Nodup) (h : buildNet3 fl es late res margin = .ok net) :
    netEdges3 net = es.map (fun x => (⟨x.1.geom, x.1.curv⟩ : Edge3 α)) := by
  unfold buildNet3 at h
  simp only at h
  cases h1 : addEdges3 fl Net3.empty (es.take (es.length - late)) with
  | error er => rw [h1] at h; cases h
  | ok net1 =>
    rw [h1] at h
    simp only at h
    cases h2 : attachIndex3 fl net1 res margin with
    | error er => rw [h2] at h; cases h
    | ok net2 =>
      rw [h2] at h
      simp only at h
      have hsplit : es.map (fun x => x.1.id) =
          (es.take (es.length - late)).map (fun x => x.1.id) ++ (es.drop (es.length - late)).map (fun x => x.1.id) := by
        rw [← List.map_append, List.take_append_drop]
      obtain ⟨a1, a2⟩ := addEdges_spec3 fl _ Net3.empty net1 h1 (by
        simp only [Net3.empty, List.map_nil, List.nil_append]
        rw [hsplit] at hnd
        exact (List.nodup_append.mp hnd).1)
      obtain ⟨b1, b2, _⟩ := attachIndex_frame3 fl net1 net2 res margin h2
      simp only [Net3.empty, List.nil_append] at a1 a2
      obtain ⟨c1, c2⟩ := addEdges_spec3 fl _ net2 net h (by
        rw [b1, a1, List.map_map]
        have : (fun x => x.e.id) ∘ (stored3 (α := α)) = fun x => x.1.id := by funext x; rfl
        rw [this, ← hsplit]; exact hnd)
      have hedges : net.edges = es.map stored3 := by
        rw [c1, b1, a1, ← List.map_append, List.take_append_drop]
      have hidx : net.idx = net.edges.map (fun x => x.e.id) := by
        rw [c2, b2, a2, hedges, ← List.map_append, List.take_append_drop, List.map_map]
        rfl
      rw [netEdges_of_nodup3 net hidx (by
        rw [hedges, List.map_map]
        have : (fun x => x.e.id) ∘ (stored3 (α := α)) = fun x => x.1.id := by funext x; rfl
        rw [this]; exact hnd), hedges, List.map_map]
      rfl

/-! ### the network with altitudes and its planimetric image -/

def flatNode (n : Node3 α) : Node α := ⟨n.id, xy n.coord⟩
def flatEI (e : EdgeIn3 α) : EdgeIn α := ⟨e.id, e.geom.map xy, e.curv, e.orientation, e.weight⟩
def flatNE (ne : NEdge3 α) : NEdge α := ⟨flatEI ne.e, ne.source, ne.target⟩
/-- the planimetric network: same ids, same `abs_curv` columns, same index, vertices and node coordinates without altitude -/
def flatNet (n : Net3 α) : Net α := ⟨n.nodes.map flatNode, n.edges.map flatNE, n.idx, n.index⟩

theorem lookupEdge3_flat (l : List (NEdge3 α)) (i : Nat) :
    lookupEdge (l.map flatNE) i = (lookupEdge3 l i).map flatNE := by
  unfold lookupEdge lookupEdge3
  induction l with
  | nil => rfl
  | cons x rest ih =>
    simp only [List.map_cons, List.find?_cons]
    have : (flatNE x).e.id = x.e.id := rfl
    rw [this]
    cases (x.e.id == i) with
    | true => rfl
    | false => exact ih

theorem edgeNo3_flat (net : Net3 α) (n : Nat) : edgeNo (flatNet net) n = (edgeNo3 net n).map flatNE := by
  unfold edgeNo edgeNo3 flatNet
  simp only
  cases net.idx[n]? with
  | none => rfl
  | some i => exact lookupEdge3_flat net.edges i

/-- the geometries `__mapOnNetwork` reads by edge number, without their altitudes, are those of the planimetric network -/
theorem netEdges3_flat (net : Net3 α) : netEdges (flatNet net) = (netEdges3 net).map flatE := by
  unfold netEdges netEdges3 flatNet
  simp only
  rw [List.map_filterMap]
  apply List.filterMap_congr
  intro i _
  rw [lookupEdge3_flat]
  cases lookupEdge3 net.edges i <;> rfl

/-- the spatial index registers the same features for the network with altitudes and for the planimetric one -/
theorem netFeatures3_flat (net : Net3 α) : netFeatures (flatNet net) = netFeatures3 net := by
  unfold netFeatures netFeatures3
  have hl : (flatNet net).edges.length = net.edges.length := by simp [flatNet]
  rw [hl]
  apply List.filterMap_congr
  intro n _
  rw [edgeNo3_flat]
  cases edgeNo3 net n <;> rfl

/-- the candidates of an observation do not depend on any altitude -/
theorem candidatesOf3_flat (fl : α → Int) (radius : α) (net : Net3 α) (pos : P3 α) :
    candidatesOf3 fl radius net pos = candidatesOf fl radius (flatNet net) (xy pos) := rfl

theorem obsStatesNet3_flat (sqrt : α → α) (fl : α → Int) (eps radius : α) (net : Net3 α) (pos : P3 α) :
    (obsStatesNet3 sqrt fl eps radius net pos).map (List.map flatS) =
      obsStatesNet sqrt fl eps radius (flatNet net) (xy pos) := by
  unfold obsStatesNet3 obsStatesNet
  rw [candidatesOf3_flat, netEdges3_flat]
  cases candidatesOf fl radius (flatNet net) (xy pos) with
  | error e => rfl
  | ok cand =>
    simp only
    rw [← obsStates3_flat]
    cases obsStates3 sqrt eps radius (netEdges3 net) pos cand <;> rfl

/-- `STATES` of a track with altitudes on a network with altitudes, the altitudes of the assigned points forgotten, is `STATES`
of the planimetric track on the planimetric network: no altitude influences a candidate, an assigned point, a distance or an
exception -/
theorem allStatesNet3_flat (sqrt : α → α) (fl : α → Int) (eps radius : α) (net : Net3 α) :
    ∀ (track : List (Obs3 α)),
      (allStatesNet3 sqrt fl eps radius net track).map (List.map (List.map flatS)) =
        allStatesNet sqrt fl eps radius (flatNet net) (track.map flatO) := by
  intro track
  induction track with
  | nil => rfl
  | cons o os ih =>
    rw [allStatesNet3, List.map_cons, allStatesNet]
    have ho : (flatO o).pos = xy o.pos := rfl
    rw [ho, ← obsStatesNet3_flat]
    cases obsStatesNet3 sqrt fl eps radius net o.pos with
    | error e => rfl
    | ok s =>
      simp only [Except.map]
      rw [← ih]
      cases allStatesNet3 sqrt fl eps radius net os <;> rfl

theorem addNode3_flat (net : Net3 α) (n : Node3 α) : flatNet (addNode3 net n) = addNode (flatNet net) (flatNode n) := by
  unfold addNode3 addNode flatNet
  have hany : (net.nodes.map flatNode).any (fun x => x.id == (flatNode n).id) = net.nodes.any (fun x => x.id == n.id) := by
    rw [List.any_map]; rfl
  simp only [hany]
  split <;> simp

theorem setEdge3_flat (l : List (NEdge3 α)) (ne : NEdge3 α) :
    (setEdge3 l ne).map flatNE = setEdge (l.map flatNE) (flatNE ne) := by
  unfold setEdge3 setEdge
  have hany : (l.map flatNE).any (fun x => x.e.id == (flatNE ne).e.id) = l.any (fun x => x.e.id == ne.e.id) := by
    rw [List.any_map]; rfl
  rw [hany]
  split
  · simp only [List.map_map]
    apply List.map_congr_left
    intro x _
    have : (flatNE x).e.id = x.e.id := rfl
    simp only [Function.comp, this]
    have : (flatNE ne).e.id = ne.e.id := rfl
    rw [this]
    split <;> rfl
  · simp

/-- `Network.addEdge` on data with altitudes, seen in the plane, is `Network.addEdge` on the planimetric data (same exceptions
of the index registration) -/
theorem addEdge3_flat (fl : α → Int) (net : Net3 α) (e : EdgeIn3 α) (s t : Node3 α) :
    (addEdge3 fl net e s t).map flatNet = addEdge fl (flatNet net) (flatEI e) (flatNode s) (flatNode t) := by
  unfold addEdge3 addEdge
  simp only
  rw [← addNode3_flat, ← addNode3_flat]
  generalize addNode3 (addNode3 net s) t = n1
  have hidx : (flatNet n1).index = n1.index := rfl
  have hedges : (flatNet n1).edges = n1.edges.map flatNE := rfl
  have hne : (⟨flatEI e, (flatNode s).id, (flatNode t).id⟩ : NEdge α) = flatNE ⟨e, s.id, t.id⟩ := rfl
  simp only [hidx, hedges, hne, ← setEdge3_flat, List.length_map]
  cases n1.index with
  | none => rfl
  | some ix =>
    simp only
    have hg : (flatEI e).geom = e.geom.map xy := rfl
    rw [hg]
    cases Grid.addFeature fl ix (e.geom.map xy) ((setEdge3 n1.edges ⟨e, s.id, t.id⟩).length - 1) <;> rfl

theorem addEdges3_flat (fl : α → Int) (es : List (EdgeIn3 α × Node3 α × Node3 α)) :
    ∀ (net : Net3 α), (addEdges3 fl net es).map flatNet =
      addEdges fl (flatNet net) (es.map (fun x => (flatEI x.1, flatNode x.2.1, flatNode x.2.2))) := by
  induction es with
  | nil => intro net; rfl
  | cons x rest ih =>
    intro net
    obtain ⟨e, s, t⟩ := x
    simp only [addEdges3, List.map_cons, addEdges]
    rw [← addEdge3_flat]
    cases addEdge3 fl net e s t with
    | error er => rfl
    | ok net' => exact ih net'

theorem attachIndex3_flat (fl : α → Int) (net : Net3 α) (res : Option (α × α)) (margin : α) :
    (attachIndex3 fl net res margin).map flatNet = attachIndex fl (flatNet net) res margin := by
  unfold attachIndex3 attachIndex
  rw [netFeatures3_flat]
  cases Grid.build fl (netFeatures3 net) res margin <;> rfl

/-- the construction of a network with altitudes, seen in the plane, is the construction of the planimetric network: same edge
numbers, same `abs_curv` columns, SAME SPATIAL INDEX (no altitude reaches the index) -/
theorem buildNet3_flat (fl : α → Int) (es : List (EdgeIn3 α × Node3 α × Node3 α)) (late : Nat) (res : Option (α × α))
    (margin : α) :
    (buildNet3 fl es late res margin).map flatNet =
      buildNet fl (es.map (fun x => (flatEI x.1, flatNode x.2.1, flatNode x.2.2))) late res margin := by
  unfold buildNet3 buildNet
  simp only [List.length_map, ← List.map_take, ← List.map_drop]
  have h0 : flatNet (Net3.empty : Net3 α) = Net.empty := rfl
  rw [← h0, ← addEdges3_flat]
  cases addEdges3 fl Net3.empty (es.take (es.length - late)) with
  | error er => rfl
  | ok net =>
    simp only [Except.map]
    rw [← attachIndex3_flat]
    cases attachIndex3 fl net res margin with
    | error er => rfl
    | ok net' => exact addEdges3_flat fl _ net'

/-! ### candidates from the network's own index, front end — on data with altitudes (the proofs of `Lemmas/MapMatchNet.lean`
replayed on the 3D structures, with `obsStates3_matched` in place of `obsStates_matched`) -/

/-- `STATES` prepared on a network (whatever its spatial index answers): one list per observation, in order, each the flag3
state alone or a non-empty list of matched states -/
theorem allStatesNet_matched3 {sqrt : α → α} (hs : SqrtSpec sqrt) (fl : α → Int) (eps radius : α) (net : Net3 α)
    (hcurv : ∀ eg ∈ netEdges3 net, eg.curv = absCurv3 sqrt eg.geom) :
    ∀ (track : List (Obs3 α)) (ss : List (List (State3 α))), allStatesNet3 sqrt fl eps radius net track = .ok ss →
      ss.length = track.length ∧
      ∀ (k : Nat) (o : Obs3 α) (l : List (State3 α)), track[k]? = some o → ss[k]? = some l →
        l = [flag3 o.pos] ∨ (l ≠ [] ∧ ∀ s ∈ l, Matched3 sqrt radius (netEdges3 net) o.pos s) := by
  intro track
  induction track with
  | nil =>
    intro ss h
    simp only [allStatesNet3] at h; injection h with h; subst h
    exact ⟨rfl, fun k o l hk => by simp at hk⟩
  | cons o os ih =>
    intro ss h
    rw [allStatesNet3] at h
    cases h1 : obsStatesNet3 sqrt fl eps radius net o.pos with
    | error e => rw [h1] at h; cases h
    | ok s0 =>
      rw [h1] at h
      simp only at h
      cases h2 : allStatesNet3 sqrt fl eps radius net os with
      | error e => rw [h2] at h; cases h
      | ok rest =>
        rw [h2] at h
        injection h with h; subst h
        obtain ⟨len, f⟩ := ih _ h2
        refine ⟨by simp [len], ?_⟩
        intro k o' l hk hl
        cases k with
        | zero =>
          simp only [List.getElem?_cons_zero, Option.some.injEq] at hk hl
          subst hk hl
          unfold obsStatesNet3 at h1
          cases hc : candidatesOf3 fl radius net o.pos with
          | error e => rw [hc] at h1; cases h1
          | ok cand =>
            rw [hc] at h1
            simp only at h1
            cases ho : obsStates3 sqrt eps radius (netEdges3 net) o.pos cand with
            | error e => rw [ho] at h1; cases h1
            | ok l' =>
              rw [ho] at h1
              injection h1 with h1; subst h1
              exact obsStates3_matched hs eps radius (netEdges3 net) hcurv o.pos cand _ ho
        | succ k =>
          simp only [List.getElem?_cons_succ] at hk hl
          exact f k o' l hk hl

/-- what `__mapOnNetwork` leaves on one track -/
theorem matchOne_spec3 {sqrt : α → α} (hs : SqrtSpec sqrt) (fl : α → Int) (eps : α) (net : Net3 α)
    (hcurv : ∀ eg ∈ netEdges3 net, eg.curv = absCurv3 sqrt eg.geom) (dec : Decoder3 α) (a : Args α) (t : TrackS3 α)
    (r : ResultN3 α) (h : matchOne3 sqrt fl eps net dec a t = .ok r) :
    r.track.obs = t.obs ∧ r.inference.length = t.obs.length ∧
    (∀ (k : Nat) (o : Obs3 α) (st : State3 α), t.obs[k]? = some o → r.inference[k]? = some st →
      (∃ l, r.states[k]? = some l ∧ st ∈ l) ∧
      (st = flag3 o.pos ∨ Matched3 sqrt a.searchRadius (netEdges3 net) o.pos st)) ∧
    r.track.names = addName (addName (addName t.names "obs_noise") "hmm_inference") "hmm_cost" ∧
    r.track.noise = (if t.names.contains "obs_noise" then t.noise else t.obs.map (fun _ => a.gpsNoise)) := by
  unfold matchOne3 at h
  split at h
  · cases h
  · simp only at h
    split at h
    · cases h
    · rename_i states hst
      split at h
      · cases h
      · rename_i inf hinf
        injection h with h; subst h
        have hobs : (if t.names.contains "obs_noise" = true then t
            else { t with names := t.names ++ ["obs_noise"], noise := t.obs.map (fun _ => a.gpsNoise) }).obs = t.obs := by
          split <;> rfl
        rw [hobs] at hst
        obtain ⟨len, f⟩ := allStatesNet_matched3 hs fl eps a.searchRadius net hcurv t.obs states hst
        obtain ⟨len2, g⟩ := inferAll3_mem states _ _ hinf
        refine ⟨?_, by rw [len2, len], ?_, ?_, ?_⟩
        · simp only [hobs]
          exact newPositions3_id 1 (by decide) t.obs inf
        · intro k o st hk hst'
          obtain ⟨l, hl, hm⟩ := g k st hst'
          refine ⟨⟨l, hl, hm⟩, ?_⟩
          rcases f k o l hk hl with hfl | ⟨_, hall⟩
          · rw [hfl] at hm; simp only [List.mem_singleton] at hm; exact Or.inl hm
          · exact Or.inr (hall st hm)
        · simp only
          by_cases hc : t.names.contains "obs_noise" = true
          · simp only [hc, ↓reduceIte]
            have : addName t.names "obs_noise" = t.names := by simp only [addName, hc, ↓reduceIte]
            rw [this]
          · simp only [hc, Bool.false_eq_true, ↓reduceIte]
            have : addName t.names "obs_noise" = t.names ++ ["obs_noise"] := by
              simp only [addName, hc, Bool.false_eq_true, ↓reduceIte]
            rw [this]
        · simp only
          split <;> rfl

/-- the loop of the front end: the result at position `j` is the result of `__mapOnNetwork` on the `j`-th track ALONE
(nothing is carried from one track to the next: `STATES` is rebuilt for each) -/
theorem matchLoop_spec3 (sqrt : α → α) (fl : α → Int) (eps : α) (net : Net3 α) (dec : Decoder3 α) (a : Args α) :
    ∀ (ts : List (TrackS3 α)) (j : Nat) (r : ResultN3 α), (matchLoop3 sqrt fl eps net dec a ts).1[j]? = some r →
      ∃ t, ts[j]? = some t ∧ matchOne3 sqrt fl eps net dec a t = .ok r := by
  intro ts
  induction ts with
  | nil => intro j r h; simp [matchLoop3] at h
  | cons t rest ih =>
    intro j r h
    rw [matchLoop3] at h
    cases h1 : matchOne3 sqrt fl eps net dec a t with
    | error e => rw [h1] at h; simp at h
    | ok r0 =>
      rw [h1] at h
      simp only at h
      cases j with
      | zero =>
        simp only [List.getElem?_cons_zero, Option.some.injEq] at h
        subst h
        exact ⟨t, by simp, h1⟩
      | succ j =>
        simp only [List.getElem?_cons_succ] at h ⊢
        exact ih j r h

/-- no exception: every track of the call has its result -/
theorem matchLoop_complete3 (sqrt : α → α) (fl : α → Int) (eps : α) (net : Net3 α) (dec : Decoder3 α) (a : Args α) :
    ∀ (ts : List (TrackS3 α)), (matchLoop3 sqrt fl eps net dec a ts).2 = none →
      (matchLoop3 sqrt fl eps net dec a ts).1.length = ts.length := by
  intro ts
  induction ts with
  | nil => intro _; simp [matchLoop3]
  | cons t rest ih =>
    intro h
    rw [matchLoop3] at h ⊢
    cases h1 : matchOne3 sqrt fl eps net dec a t with
    | error e => (try rw [h1] at h); simp at h
    | ok r0 =>
      (try rw [h1] at h)
      simp only at h ⊢
      simp [ih h]

end TV.MapMatch
