import TracklibVerif.Model.Filter
set_option linter.unusedSectionVars false
/-! Locality of `Filter.execute` (property C15): the value computed at index `i` is a function of the kernel
and of the samples at distance at most `D` of `i` only. Nothing but the structure of the loops is used — no
law of arithmetic — so the statements hold for every scalar type the model is instantiated at, `Float`
(IEEE doubles, the arithmetic of the Python) included: there the equality is bit for bit. -/
namespace TV.Filter

section localdefs
variable {α : Type}

/-- two signals of the same length that agree at every index at distance at most `D` of `i` -/
def AgreeNear (v v' : List (Option α)) (D i : Nat) : Prop :=
  v.length = v'.length ∧ ∀ m, i ≤ m + D → m ≤ i + D → v[m]? = v'[m]?
end localdefs

section locality
variable {α : Type} [Add α] [Mul α] [Div α] [OfNat α 0]

theorem sample_local (v v' : List (Option α)) (D i j : Nat) (hj : j ≤ 2 * D) (h : AgreeNear v v' D i) :
    sample v D i j = sample v' D i j := by
  unfold sample
  simp only []
  rw [h.1]
  by_cases h1 : (i : Int) - (j : Int) + (D : Int) < 0
  · simp [h1]
  · by_cases h2 : (i : Int) - (j : Int) + (D : Int) ≥ (v'.length : Int)
    · simp [h1, h2]
    · have hm := h.2 ((i : Int) - (j : Int) + (D : Int)).toNat (by omega) (by omega)
      simp only [h1, h2, if_false, hm]

theorem inner_local (v v' : List (Option α)) (D i : Nat) (h : AgreeNear v v' D i) :
    ∀ (ks : List α) (j : Nat) (s : α × α), j + ks.length ≤ 2 * D + 1 →
      inner v D i ks j s = inner v' D i ks j s := by
  intro ks
  induction ks with
  | nil => intro j s _; rfl
  | cons kj ks ih =>
    intro j s hlen
    obtain ⟨t, norm⟩ := s
    simp only [List.length_cons] at hlen
    unfold inner
    rw [sample_local v v' D i j (by omega) h]
    cases sample v' D i j with
    | none => exact ih (j + 1) _ (by omega)
    | some val => exact ih (j + 1) _ (by omega)

theorem anySample_local (v v' : List (Option α)) (D i : Nat) (h : AgreeNear v v' D i) :
    ∀ (ks : List α) (j : Nat), j + ks.length ≤ 2 * D + 1 →
      anySample v D i ks j = anySample v' D i ks j := by
  intro ks
  induction ks with
  | nil => intro j _; rfl
  | cons kj ks ih =>
    intro j hlen
    simp only [List.length_cons] at hlen
    unfold anySample
    rw [sample_local v v' D i j (by omega) h, ih (j + 1) (by omega)]

/-- `(temp[i], norm)` before the division is the same for two signals that agree around `i` -/
theorem cells_local (v v' : List (Option α)) (k : List α) (i : Nat) (h : AgreeNear v v' (k.length / 2) i) :
    (cells v k (k.length / 2))[i]? = (cells v' k (k.length / 2))[i]? := by
  unfold cells
  rw [List.getElem?_map, List.getElem?_map, h.1]
  cases hr : (List.range v'.length)[i]? with
  | none => rfl
  | some i' =>
    have : i' = i := by
      rw [List.getElem?_eq_some_iff] at hr
      obtain ⟨_, hr⟩ := hr
      simpa using hr.symm
    subst this
    simp only [Option.map_some]
    rw [inner_local v v' _ i' h k 0 (0, 0) (by omega)]

/-- the output of `filterWindowG` when it succeeds -/
theorem filterWindowG_ok [BEq α] (v : List (Option α)) (k : List α) (boundary np : Bool) (out : List (Option α))
    (h : filterWindowG v k boundary np = .ok out) :
    out = (if boundary then (cells v k (k.length / 2)).map (fun c => if c.2 == 0 then none else some (c.1 / c.2))
      else copyBoundary v ((cells v k (k.length / 2)).map (fun c => if c.2 == 0 then none else some (c.1 / c.2))) (k.length / 2)) := by
  unfold filterWindowG at h
  simp only [] at h
  split at h
  · cases h
  · split at h
    · cases h
    · cases boundary with
      | true => simp only [if_true] at h; cases h; rfl
      | false =>
        simp only [Bool.false_eq_true, if_false] at h
        split at h
        · cases h
        · cases h; rfl

/-- **Locality.** Two signals of the same length that agree at every index at distance at most `D` of `i`
get the same value at `i` (when both calls succeed), whatever they hold elsewhere. -/
theorem filterWindowG_local [BEq α] (v v' : List (Option α)) (k : List α) (boundary np : Bool) (i : Nat)
    (h : AgreeNear v v' (k.length / 2) i) (out out' : List (Option α))
    (ho : filterWindowG v k boundary np = .ok out) (ho' : filterWindowG v' k boundary np = .ok out') :
    out[i]? = out'[i]? := by
  rw [filterWindowG_ok v k boundary np out ho, filterWindowG_ok v' k boundary np out' ho']
  have hc := cells_local v v' k i h
  have ht : ((cells v k (k.length / 2)).map (fun c => if c.2 == 0 then none else some (c.1 / c.2)))[i]? =
      ((cells v' k (k.length / 2)).map (fun c => if c.2 == 0 then none else some (c.1 / c.2)))[i]? := by
    rw [List.getElem?_map, List.getElem?_map, hc]
  cases boundary with
  | true => simpa using ht
  | false =>
    simp only [Bool.false_eq_true, if_false]
    unfold copyBoundary
    rw [List.getElem?_map, List.getElem?_map, h.1]
    cases hr : (List.range v'.length)[i]? with
    | none => rfl
    | some i' =>
      have : i' = i := by
        rw [List.getElem?_eq_some_iff] at hr
        obtain ⟨_, hr⟩ := hr
        simpa using hr.symm
      subst this
      simp only [Option.map_some]
      rw [ht, h.2 i' (by omega) (by omega)]
end locality

end TV.Filter
