import TracklibVerif.Model.Split
import TracklibVerif.Model.SplitVal
import TracklibVerif.Model.SplitTrack
import TracklibVerif.Model.SplitNum
import TracklibVerif.Drv.Util
/-! Driver handler for C11. Commands:
  split <markers as 0/1 string>   → `<pieces> <ids>`: pieces as lists of observation indices, `;`-separated
                                    (an empty piece is `e`) ; no piece at all → `_` ; ids = the numbers
                                    `count.begin.end` of the pieces' uids, `;`-separated
  splitlim <limit> <markers> <points>  → the same for `split(track, name, limit)`; `limit` and the coordinates
                                    (`x,y,z;x,y,z;…`, one point per observation) are IEEE bit patterns: the
                                    model runs at `Float` with `Float.sqrt`
  splitidx <limit> <indices> <points>  → `split(track, [indices], limit)`: pieces, or `err:index`
  collsplit <markers|markers|…>   → `TrackCollection.split_segmentation`: pieces of every track in turn, the
                                    observations being numbered through the whole collection
  collseg <mode> <thresholds> <rows|rows|…>  → `TrackCollection.segmentation` then `split_segmentation`:
                                    `<markers|markers|…> <pieces>`, or `err:index`
  marker <mode and|or> <thresholds> <rows: per observation the tested values>
                                  → marker string (`_` for no observation), or `err:index`
  segsplit <mode> <thresholds> <rows>  → `<marker string> <pieces>` : `segmentation()` then `split()` on its marker
  segtrack <mode> <afs> <out> <thresholds> <size> <virtual columns> <feature table>
                                  → the feature table after `segmentation()`, or `err:af` / `err:index`.
                                    `afs` / `thresholds` are `s:<value>` (a bare value) or `l:<list>` (a list);
                                    a table is `name=v,v,…;name=v,…`
  segseq <size> <virtual columns> <feature table> (<mode> <afs> <out> <thresholds>)+
                                  → the same after several successive calls on the same track (first error aborts)
  markerv / segsplitv             → the same two on the operator-call model (`markersG` at `Val`):
                                    a value or threshold may also be an `ObsTime`, written `@y.m.d.h.mi.s.ms`;
                                    `err:attr` = the `AttributeError` of comparing an `ObsTime` with a number
  segseqv <x y z columns> <timestamps> <feature table> (<mode> <afs> <out> <thresholds>)+
                                  → `segseq` on the operator-call model (`segTrackG` at `Val`); the track is given by
                                    its coordinates, timestamps and feature table, the columns of the built-in names
                                    `t`, `timestamp`, `idx` being computed here (`FTrack.ofObs`)
  splitname <limit> <source> <x y z columns> <timestamps> <feature table> <points>
                                  → `<pieces> <ids>` of `split(track, source, limit)`, the marker being READ FROM THE
                                    TABLE BY NAME by the model (`splitTrackU` at `Val`, `== 1` = `Val.isOne`), or `err:af`
  segseqsplitv <x y z columns> <timestamps> <feature table> (<mode> <afs> <out> <thresholds>)+
                                  → `segseqv`, then `split(track, <out of the last call>)` on the resulting track:
                                    `<table> <pieces>`
  markerp / segsplitp             → the same two on numbers with their Python type (`markersG` at `PNum`): `I<n>` a Python
                                    int, `N<n>` a numpy.int64, `D<p/q>` a numpy.float64, anything else a Python float;
                                    an integer against a float with a numpy scalar in the pair is converted to a double
Values and thresholds are exact: a rational `p/q`, `inf`, `-inf`, and `nan` for a value.
Feature NAMES are arbitrary strings: every character other than an ASCII letter, digit, `_`, `#` crosses the boundary
as `%` followed by the four hexadecimal digits of its code point (`encName` / `decName`). -/
namespace TV.Drv.C11
open TV.Split TV.Drv

/-! ### feature names on the line protocol -/
def hexVal? (c : Char) : Option Nat :=
  if c.isDigit then some (c.toNat - 48) else if 'a' ≤ c ∧ c ≤ 'f' then some (c.toNat - 87) else none

def decChars : List Char → Option (List Char)
  | [] => some []
  | '%' :: a :: b :: c :: d :: rest =>
    match hexVal? a, hexVal? b, hexVal? c, hexVal? d, decChars rest with
    | some a, some b, some c, some d, some r => some (Char.ofNat (((a * 16 + b) * 16 + c) * 16 + d) :: r)
    | _, _, _, _, _ => none
  | '%' :: _ => none
  | ch :: rest => (decChars rest).map (ch :: ·)

def decName (s : String) : Option String := (decChars s.toList).map String.ofList

def hexDigit (n : Nat) : Char := if n < 10 then Char.ofNat (48 + n) else Char.ofNat (87 + n)

def encName (s : String) : String :=
  String.join (s.toList.map (fun c =>
    if c.isAlphanum || c == '_' || c == '#' then c.toString
    else
      let n := c.toNat
      String.ofList ['%', hexDigit (n / 4096 % 16), hexDigit (n / 256 % 16), hexDigit (n / 16 % 16), hexDigit (n % 16)]))

def showPieces (pieces : List (List Nat)) : String :=
  joinWith ";" (pieces.map (fun p => if p.isEmpty then "e" else ",".intercalate (p.map toString)))

def showIds (ids : List PId) : String :=
  joinWith ";" (ids.map (fun (c, b, e) => s!"{c}.{b}.{e}"))

def splitIdx0 (ms : List Bool) : List (List Nat) := split ((List.range ms.length).zip ms)

def showMarks (bs : List Bool) : String :=
  if bs.isEmpty then "_" else String.ofList (bs.map (fun b => if b then '1' else '0'))

def marks? (m : String) : Option (List Bool) :=
  if m == "_" then some []
  else if m.toList.all (fun c => c == '0' || c == '1') then some (m.toList.map (· == '1'))
  else none

def ext? (s : String) : Option Ext :=
  if s == "inf" then some .pinf else if s == "-inf" then some .ninf else (rat? s).map .fin
def val? (s : String) : Option (Option Ext) := if s == "nan" then some none else (ext? s).map some
def extList? (s : String) : Option (List Ext) := (splitTok s ',').mapM ext?
def showVal : Option Ext → String
  | none => "nan"
  | some .pinf => "inf"
  | some .ninf => "-inf"
  | some (.fin r) => showRat r

def rows? (rows : String) : Option (List (List (Option Ext))) :=
  (splitTok rows ';').mapM (fun r => (splitTok r ',').mapM val?)

/-- `s:<x>` → one value, `l:<list>` → a list -/
def arg? {γ : Type} (f : String → Option γ) (s : String) : Option (Arg γ) :=
  if s.startsWith "s:" then (f (s.drop 2).toString).map Arg.one
  else if s.startsWith "l:" then ((splitTok (s.drop 2).toString ',').mapM f).map Arg.many
  else none

def table? (s : String) : Option (List (String × Col Ext)) :=
  (splitTok s ';').mapM (fun e =>
    match e.splitOn "=" with
    | [nm, vs] => match decName nm with
      | some nm => ((splitTok vs ',').mapM val?).map (fun c => (nm, c))
      | none => none
    | _ => none)

def showTable (t : List (String × Col Ext)) : String :=
  joinWith ";" (t.map (fun p => encName p.1 ++ "=" ++ joinWith "," (p.2.map showVal)))

def points? (s : String) : Option (List (Float × Float × Float)) :=
  (splitTok s ';').mapM (fun p =>
    match (splitTok p ',').mapM float? with
    | some [x, y, z] => some (x, y, z)
    | _ => none)

/-- `Track.length()` of a piece of (index, point) observations -/
def pieceLength (p : List (Nat × Float × Float × Float)) : Float := trackLength Float.sqrt (p.map Prod.snd)

/-- successive `segmentation()` calls on one track; `none` = malformed request -/
def segSeq (t : FTrack Ext) : List String → Option (Except String (FTrack Ext))
  | [] => some (.ok t)
  | mode :: afs :: out :: ths :: rest =>
    match arg? decName afs, decName out, arg? ext? ths with
    | some a, some out, some th =>
      if mode == "and" || mode == "or" then
        match segTrack Ext.fmax (mode == "and") t a out th with
        | .ok t' => segSeq t' rest
        | .error e => some (.error e)
      else none
    | _, _, _ => none
  | _ => none

/-! ### values that may be timestamps -/
/-- a number with its Python type: `I<n>`, `N<n>`, `D<value>`, `<value>` -/
def pnum? (s : String) : Option PNum :=
  if s.startsWith "I" then ((s.drop 1).toString.toInt?).map (fun n => ⟨.pyInt, .fin (n : Rat)⟩)
  else if s.startsWith "N" then ((s.drop 1).toString.toInt?).map (fun n => ⟨.npInt, .fin (n : Rat)⟩)
  else if s.startsWith "D" then (ext? (s.drop 1).toString).map (fun v => ⟨.npFloat, v⟩)
  else (ext? s).map (fun v => ⟨.pyFloat, v⟩)
def pnumList? (s : String) : Option (List PNum) := (splitTok s ',').mapM pnum?
def rowsp? (rows : String) : Option (List (List (Option PNum))) :=
  (splitTok rows ';').mapM (fun r => (splitTok r ',').mapM (fun s => if s == "nan" then some none else (pnum? s).map some))

def stamp? (s : String) : Option TV.ObsTime.Stamp :=
  match (splitTok s '.').mapM String.toNat? with
  | some [y, mo, d, h, mi, sc, ms] => some ⟨⟨y, mo, d, h, mi, sc⟩, ms⟩
  | _ => none
def valv? (s : String) : Option Val :=
  if s.startsWith "@" then (stamp? (s.drop 1).toString).map Val.time else (ext? s).map Val.num
def cellv? (s : String) : Option (Option Val) := if s == "nan" then some none else (valv? s).map some
def valvList? (s : String) : Option (List Val) := (splitTok s ',').mapM valv?
def showCellV : Option Val → String
  | none => "nan"
  | some (.num x) => showVal (some x)
  | some (.time t) => s!"@{t.d.year}.{t.d.month}.{t.d.day}.{t.d.hour}.{t.d.min}.{t.d.sec}.{t.ms}"
def rowsv? (rows : String) : Option (List (List (Option Val))) :=
  (splitTok rows ';').mapM (fun r => (splitTok r ',').mapM cellv?)
def tablev? (s : String) : Option (List (String × Col Val)) :=
  (splitTok s ';').mapM (fun e =>
    match e.splitOn "=" with
    | [nm, vs] => match decName nm with
      | some nm => ((splitTok vs ',').mapM cellv?).map (fun c => (nm, c))
      | none => none
    | _ => none)
def showTableV (t : List (String × Col Val)) : String :=
  joinWith ";" (t.map (fun p => encName p.1 ++ "=" ++ joinWith "," (p.2.map showCellV)))

/-- exact value of a finite double -/
def floatExt (f : Float) : Option Val :=
  if f.isNaN then none
  else if f.isInf then some (.num (if f > 0 then .pinf else .ninf))
  else
    let b := f.toBits.toNat
    let neg := b >>> 63 == 1
    let e := (b >>> 52) % 2048
    let m := b % 2 ^ 52
    let mant : Nat := if e == 0 then m else m + 2 ^ 52
    let ex : Int := (if e == 0 then 1 else (e : Int)) - 1075
    let mag : Rat := if ex ≥ 0 then ((mant * 2 ^ ex.toNat : Nat) : Rat) else (mant : Rat) / ((2 ^ (-ex).toNat : Nat) : Rat)
    some (.num (.fin (if neg then -mag else mag)))

/-- `ObsTime.toAbsTime()`: the integer `seconds` of the loops (`toAbsSec`), then `seconds += self.ms / 1000.0` in doubles -/
def absTimeF (s : TV.ObsTime.Stamp) : Option Val :=
  floatExt (Float.ofNat (TV.ObsTime.toAbsSec s.d) + Float.ofNat s.ms / 1000.0)

def stampList? (s : String) : Option (List TV.ObsTime.Stamp) :=
  (splitTok s ',').mapM (fun x => if x.startsWith "@" then stamp? (x.drop 1).toString else none)

/-- successive `segmentation()` calls on one track, operator-call model; `none` = malformed request -/
def segSeqV (t : FTrack Val) : List String → Option (Except String (FTrack Val))
  | [] => some (.ok t)
  | mode :: afs :: out :: ths :: rest =>
    match arg? decName afs, decName out, arg? valv? ths with
    | some a, some out, some th =>
      if mode == "and" || mode == "or" then
        match segTrackG Val.isnan Val.le? Val.fmax (mode == "and") t a out th with
        | .ok t' => segSeqV t' rest
        | .error e => some (.error e)
      else none
    | _, _, _ => none
  | _ => none

/-- the output name of the last call of a sequence -/
def lastOut : List String → Option String
  | [_, _, out, _] => decName out
  | _ :: _ :: _ :: _ :: rest => lastOut rest
  | _ => none

/-- numbers the observations through the whole collection and splits every track -/
def collPieces (tracks : List (List Bool)) : List (List Nat) :=
  let offs := tracks.foldl (fun (acc : List Nat × Nat) t => (acc.1 ++ [acc.2], acc.2 + t.length)) ([], 0)
  let tagged := (tracks.zip offs.1).map (fun (t, o) => ((List.range t.length).map (· + o)).zip t)
  splitColl tagged

def handle (cmd : String) (args : List String) : String :=
  match cmd, args with
  | "split", [m] =>
    match marks? m with
    | some ms =>
      let ids := (splitU (fun _ => false) (fun _ => true) ((List.range ms.length).zip ms)).map Prod.fst
      s!"{showPieces (splitIdx0 ms)} {showIds ids}"
    | none => "bad-request"
  | "splitlim", [lim, m, pts] =>
    match float? lim, marks? m, points? pts with
    | some limit, some ms, some ps =>
      if ms.length != ps.length then "bad-request" else
      let obs := ((List.range ms.length).zip ps).zip ms
      let ids := (splitU (fun p => limitShort limit (pieceLength p)) (fun p => limitKeepTail limit (pieceLength p)) obs).map Prod.fst
      s!"{showPieces ((splitLimit pieceLength limit obs).map (List.map Prod.fst))} {showIds ids}"
    | _, _, _ => "bad-request"
  | "splitidx", [lim, idx, pts] =>
    match float? lim, intList? idx, points? pts with
    | some limit, some src, some ps =>
      match TV.Split.splitIdx (fun p => limitShort limit (pieceLength p)) ((List.range ps.length).zip ps) src with
      | some pieces => showPieces (pieces.map (List.map Prod.fst))
      | none => "err:index"
    | _, _, _ => "bad-request"
  | "collsplit", [ms] =>
    match (ms.splitOn "|").mapM marks? with
    | some tracks => showPieces (collPieces tracks)
    | none => "bad-request"
  | "collseg", [mode, ths, rowss] =>
    match extList? ths, (rowss.splitOn "|").mapM rows? with
    | some th, some tracks =>
      if mode == "and" || mode == "or" then
        match tracks.mapM (markers Ext.fmax (mode == "and") th) with
        | some ms => s!"{"|".intercalate (ms.map showMarks)} {showPieces (collPieces ms)}"
        | none => "err:index"
      else "bad-request"
    | _, _ => "bad-request"
  | "segseq", size :: virt :: feats :: calls =>
    match size.toNat?, table? virt, table? feats with
    | some n, some v, some f =>
      if calls.isEmpty then "bad-request" else
      match segSeq { size := n, virt := v, feats := f } calls with
      | some (.ok t) => showTable t.feats
      | some (.error e) => "err:" ++ e
      | none => "bad-request"
    | _, _, _ => "bad-request"
  | "segseqv", xyz :: stamps :: feats :: calls =>
    match tablev? xyz, stampList? stamps, tablev? feats with
    | some v, some st, some f =>
      if calls.isEmpty then "bad-request" else
      match segSeqV (FTrack.ofObs absTimeF v st f) calls with
      | some (.ok t) => showTableV t.feats
      | some (.error e) => "err:" ++ e
      | none => "bad-request"
    | _, _, _ => "bad-request"
  | "segseqsplitv", xyz :: stamps :: feats :: calls =>
    match tablev? xyz, stampList? stamps, tablev? feats, lastOut calls with
    | some v, some st, some f, some out =>
      match segSeqV (FTrack.ofObs absTimeF v st f) calls with
      | some (.ok t) =>
        match splitTrack Val.isOne t out with
        | .ok pieces => s!"{showTableV t.feats} {showPieces pieces}"
        | .error e => "err:" ++ e
      | some (.error e) => "err:" ++ e
      | none => "bad-request"
    | _, _, _, _ => "bad-request"
  | "splitname", [lim, source, xyz, stamps, feats, pts] =>
    match float? lim, decName source, tablev? xyz, stampList? stamps, tablev? feats, points? pts with
    | some limit, some src, some v, some st, some f, some ps =>
      if st.length != ps.length then "bad-request" else
      let len := fun (p : List Nat) => trackLength Float.sqrt (p.filterMap (fun i => ps[i]?))
      match splitTrackU Val.isOne (fun p => limitShort limit (len p)) (fun p => limitKeepTail limit (len p))
          (FTrack.ofObs absTimeF v st f) src with
      | .ok r => s!"{showPieces (r.map Prod.snd)} {showIds (r.map Prod.fst)}"
      | .error e => "err:" ++ e
    | _, _, _, _, _, _ => "bad-request"
  | "segtrack", [mode, afs, out, ths, size, virt, feats] =>
    match arg? decName afs, decName out, arg? ext? ths, size.toNat?, table? virt, table? feats with
    | some a, some out, some th, some n, some v, some f =>
      if mode == "and" || mode == "or" then
        match segTrack Ext.fmax (mode == "and") { size := n, virt := v, feats := f } a out th with
        | .ok t => showTable t.feats
        | .error e => "err:" ++ e
      else "bad-request"
    | _, _, _, _, _, _ => "bad-request"
  | c, [mode, ths, rows] =>
    if c == "markerv" || c == "segsplitv" then
      match valvList? ths, rowsv? rows with
      | some th, some rs =>
        if mode == "and" || mode == "or" then
          match markersG Val.isnan Val.le? Val.fmax (mode == "and") th rs with
          | .ok bs => if c == "markerv" then showMarks bs else s!"{showMarks bs} {showPieces (splitIdx0 bs)}"
          | .error e => "err:" ++ e
        else "bad-request"
      | _, _ => "bad-request"
    else
    if c == "markerp" || c == "segsplitp" then
      match pnumList? ths, rowsp? rows with
      | some th, some rs =>
        if mode == "and" || mode == "or" then
          match markersG PNum.isnan PNum.le? PNum.fmax (mode == "and") th rs with
          | .ok bs => if c == "markerp" then showMarks bs else s!"{showMarks bs} {showPieces (splitIdx0 bs)}"
          | .error e => "err:" ++ e
        else "bad-request"
      | _, _ => "bad-request"
    else
    if c != "marker" && c != "segsplit" then "bad-request" else
    match extList? ths, rows? rows with
    | some th, some rs =>
      if mode == "and" || mode == "or" then
        match markers Ext.fmax (mode == "and") th rs with
        | some bs => if c == "marker" then showMarks bs else s!"{showMarks bs} {showPieces (splitIdx0 bs)}"
        | none => "err:index"
      else "bad-request"
    | _, _ => "bad-request"
  | _, _ => "bad-request"
end TV.Drv.C11
