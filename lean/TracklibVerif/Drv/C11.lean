import TracklibVerif.Model.Split
import TracklibVerif.Drv.Util
/-! Driver handler for C11. Commands:
  split <markers as 0/1 string>   → pieces as lists of observation indices, `;`-separated
                                    (an empty piece is `e`) ; no piece at all → `_`
  marker <mode and|or> <thresholds ratlist> <rows: per observation the tested values, `nan` allowed>
                                  → marker string -/
namespace TV.Drv.C11
open TV.Split TV.Drv

def handle (cmd : String) (args : List String) : String :=
  match cmd, args with
  | "split", [m] =>
    let ms := if m == "_" then [] else m.toList.map (· == '1')
    let obs := (List.range ms.length).zip ms
    let pieces := split obs
    joinWith ";" (pieces.map (fun p => if p.isEmpty then "e" else ",".intercalate (p.map toString)))
  | "marker", [mode, ths, rows] =>
    match ratList? ths, (splitTok rows ';').mapM (fun r => (splitTok r ',').mapM
        (fun s => if s == "nan" then some none else (rat? s).map some)) with
    | some th, some rs =>
      if mode == "and" || mode == "or" then
        String.ofList ((rs.map (fun r => marker (mode == "and") th r)).map (fun b => if b then '1' else '0'))
      else "bad-request"
    | _, _ => "bad-request"
  | _, _ => "bad-request"
end TV.Drv.C11
