import TracklibVerif.Model.Split
import TracklibVerif.Drv.Util
/-! Driver handler for C11. Commands:
  split <markers as 0/1 string>   → pieces as lists of observation indices, `;`-separated
                                    (an empty piece is `e`) ; no piece at all → `_`
  marker <mode and|or> <thresholds ratlist> <rows: per observation the tested values, `nan` allowed>
                                  → marker string (`_` for no observation), or `err:index`
  segsplit <mode> <thresholds> <rows>  → `<marker string> <pieces>` : `segmentation()` then `split()` on its marker -/
namespace TV.Drv.C11
open TV.Split TV.Drv

def showPieces (pieces : List (List Nat)) : String :=
  joinWith ";" (pieces.map (fun p => if p.isEmpty then "e" else ",".intercalate (p.map toString)))

def splitIdx (ms : List Bool) : List (List Nat) := split ((List.range ms.length).zip ms)

def showMarks (bs : List Bool) : String :=
  if bs.isEmpty then "_" else String.ofList (bs.map (fun b => if b then '1' else '0'))

def rows? (rows : String) : Option (List (List (Option Rat))) :=
  (splitTok rows ';').mapM (fun r => (splitTok r ',').mapM
    (fun s => if s == "nan" then some none else (rat? s).map some))

def handle (cmd : String) (args : List String) : String :=
  match cmd, args with
  | "split", [m] =>
    if m == "_" then showPieces (splitIdx [])
    else if m.toList.all (fun c => c == '0' || c == '1') then showPieces (splitIdx (m.toList.map (· == '1')))
    else "bad-request"
  | c, [mode, ths, rows] =>
    if c != "marker" && c != "segsplit" then "bad-request" else
    match ratList? ths, rows? rows with
    | some th, some rs =>
      if mode == "and" || mode == "or" then
        match markers (mode == "and") th rs with
        | some bs => if c == "marker" then showMarks bs else s!"{showMarks bs} {showPieces (splitIdx bs)}"
        | none => "err:index"
      else "bad-request"
    | _, _ => "bad-request"
  | _, _ => "bad-request"
end TV.Drv.C11
