import TracklibVerif.Model.Graph
import TracklibVerif.Model.GraphPD
import TracklibVerif.Model.GraphSession
import TracklibVerif.Model.GraphAStar
import TracklibVerif.Model.GraphShared
import TracklibVerif.Drv.Util
/-! Driver handler for C06 (network shortest distances), weights in `Rat` (exact stream) or `Float`
(commands prefixed with `f`: weights, cut-offs and results are IEEE-754 bit patterns, the same model definitions instantiated at `Float`).
A graph is `<n> <edges>`: nodes `0..n-1`, edges `id,src,tgt,w,ori` separated by `;` (`_` = none).
`<cut>` is a rational or `none` (the default 1e300). `<order>` = node insertion order (a permutation of `0..n-1`).
  [f]pairs <n> <edges> <cut>           → n rows (`;`) of `shortest_distance(s,t,cut)` for t = 0..n-1, `none` = -1
  lists <n> <order> <edges> <cut>      → n rows of `shortest_distance(s,None,cut)` (labels in insertion order, `none` = 1e300)
  all   <n> <order> <edges> <cut>      → entries `s,v,d` (`;`) of `all_shortest_distances(cut)`
  prep  <n> <order> <edges> <cut1> <cut2|->  → n rows of `prepared_shortest_distance(s,t)` after `prepare(cut1)`
                                           [then `prepare(cut2)` on the same DISTANCES], `none` = 1e300
  pairsPD <n> <edges> <cut>            → as `pairs`, computed by the loop with the explicit priority_dict (`runForwardPD`)
  pq <init> <ops>                      → `priority_dict`: `<init>` = `k,p;k,p;…` (constructor argument), `<ops>` = `;`-separated
                                         `s,<key>,<priority>` (`pd[key] = priority`) or `p` (`pop_smallest()`);
                                         reply: per op, `,`-separated: `<res>@<_heap>` with `<res>` the popped key / `err` (IndexError),
                                         or `len(pd)` after a set, and `<_heap>` the heap list `p:k~p:k~…` after the op
  hq <init> <ops>                      → `heapq` on a list of `(priority, key)` tuples: `<init>` = `p:k;p:k;…` (any list), `<ops>` =
                                         `;`-separated `h` (`heapify`), `u,<p>,<k>` (`heappush`), `o` (`heappop`);
                                         reply: per op, `,`-separated `<res>@<list>`: `<res>` = popped `p:k` / `err` / `-`
  sess <n> <ops>                       → one `Network` object, node ids `< n`, `<ops>` = `;`-separated calls
                                         `n,<v>` addNode · `e,<id>,<src>,<tgt>,<w>,<ori>` addEdge · `r,<s>,<t|_>,<cut>,<0|1>` run_routing_forward
                                         · `d,<s>,<t>,<cut>,<0|1>` shortest_distance · `l,<s>,<cut>,<0|1>` list form · `a,<cut>,<0|1>`
                                         all_shortest_distances · `p,<cut>` prepare · `q,<s>,<t>` prepared_shortest_distance ·
                                         `h,<s>,<t>` has_prepared_shortest_distance · `s,<s>,<cut>` sub_network (TOPOLOGIC) · `v` save_prep + load_prep ·
                                         `u` (read the caller's output_dict; `<0|1>` = whether that dictionary is passed);
                                         reply per op (`;`): `ok` / `err` / `f:<poids,…>|<visite,…>` / `v:<d>` / `l:<d,…>` /
                                         `t:<s>.<v>.<d>,…` / `b:<0|1>` / `s:<node ids>|<edge ids>`
  [f]world <nets> <ops>                → several `Network` objects with their routing settings (`Model/GraphAStar.lean`). `<nets>` = `|`-separated
                                         `<n>;<E>,<N>,<U>;…` (bound on node ids, then the ENU coordinates of node 0 … n-1); `<ops>` = `;`-separated
                                         `<k>:<op>` with `<op>` = `c` (`Network()`: object `k` is created, `k` = number of objects so far) ·
                                         `m,<mode>` setRoutingMethod · `w,<weight>` setAStarWeight · `u` · any `sess` call; replies as for `sess`.
                                         In the exact stream every distance between two nodes of a network must be rational (else `bad-request`).
  fam <n> <ops>                        → several `Network` objects that share their `Node` objects (`Model/GraphShared.lean`: one store of routing
                                         flags, each search resets its own network's nodes only and runs the loop with the explicit priority_dict).
                                         `<ops>` = `;`-separated `<k>:<op>` with `<op>` = `c` (`Network()` on the common node pool) · `x,<s>,<cut>`
                                         (`sub_network(s, cut)` whose result becomes the next member) · `W,<edge id>,<w>` (`edge.weight = w` on that `Edge` object, `<k>` ignored)
                                         · `u` · any `sess` call; replies as for `sess`
                                         (`x` answers like `s`); a call on a member that does not exist answers `err`. -/
namespace TV.Drv.C06
open TV.Graph TV.Drv

section generic
variable {W : Type} (pw : String → Option W) (sw : W → String)

def edgeW? (n : Nat) (s : String) : Option (Edge W) :=
  match splitTok s ',' with
  | [i, a, b, w, o] => do
    let i ← i.toNat?
    let a ← a.toNat?
    let b ← b.toNat?
    let w ← pw w
    let o ← o.toInt?
    if a < n && b < n then some { id := i, src := a, tgt := b, w := w, ori := o } else none
  | _ => none

def nodup (l : List Nat) : Bool :=
  match l with
  | [] => true
  | x :: xs => !xs.contains x && nodup xs

def netW? (n edges : String) : Option (Net W) := do
  let n ← n.toNat?
  let es ← (splitTok edges ';').mapM (edgeW? pw n)
  if nodup (es.map (·.id)) then some { n := n, edges := es } else none

def cutW? (s : String) : Option (Option W) :=
  if s == "none" then some none else (pw s).map some

def order? (n : Nat) (s : String) : Option (List Nat) := do
  let o ← natList? s
  if o.length == n && nodup o && o.all (· < n) then some o else none

def showOptW (dflt : String) : Option W → String
  | none => dflt
  | some r => sw r

def rows (n : Nat) (f : Nat → List String) : String :=
  joinWith ";" ((List.range n).map (fun s => joinWith "," (f s)))

variable [LT W] [DecidableLT W] [Add W] [OfNat W 0]

def handleW (cmd : String) (args : List String) : String :=
  match cmd, args with
  | "pairs", [n, es, c] =>
    match netW? pw n es, cutW? pw c with
    | some net, some cut =>
      rows net.n (fun s => (List.range net.n).map (fun t => showOptW sw "none" (shortestDistance net s t cut)))
    | _, _ => "bad-request"
  | "pairsPD", [n, es, c] =>
    match netW? pw n es, cutW? pw c with
    | some net, some cut =>
      rows net.n (fun s => (List.range net.n).map (fun t => showOptW sw "none" ((runForwardPD net s (some t) cut).1.d t)))
    | _, _ => "bad-request"
  | "lists", [n, o, es, c] =>
    match netW? pw n es, cutW? pw c with
    | some net, some cut =>
      match order? net.n o with
      | some order => rows net.n (fun s => (shortestDistanceList net order s cut).map (showOptW sw "none"))
      | none => "bad-request"
    | _, _ => "bad-request"
  | "all", [n, o, es, c] =>
    match netW? pw n es, cutW? pw c with
    | some net, some cut =>
      match order? net.n o with
      | some order =>
        let tb := allShortestDistances net order cut Table.empty
        joinWith ";" ((List.range net.n).flatMap (fun s => (List.range net.n).filterMap (fun v =>
          (tb (s, v)).map (fun d => s!"{s},{v},{sw d}"))))
      | none => "bad-request"
    | _, _ => "bad-request"
  | "prep", [n, o, es, c1, c2] =>
    match netW? pw n es, cutW? pw c1 with
    | some net, some cut1 =>
      match order? net.n o with
      | some order =>
        let tb := prepare net order cut1 none
        let tb? := if c2 == "-" then some tb else (cutW? pw c2).map (fun cut2 => prepare net order cut2 (some tb))
        match tb? with
        | some tb => rows net.n (fun s => (List.range net.n).map (fun t =>
            showOptW sw "none" (preparedShortestDistance tb s t)))
        | none => "bad-request"
      | none => "bad-request"
    | _, _ => "bad-request"
  | _, _ => "bad-request"
end generic

/-- exact stream -/
def net? (n edges : String) : Option (Net Rat) := netW? rat? n edges
def cut? (s : String) : Option (Option Rat) := cutW? rat? s

/-- a float token must denote a number (NaN is not a weight) -/
def fl? (s : String) : Option Float := if s == "nan" then none else float? s

def kv? (s : String) : Option (Nat × Rat) :=
  match splitTok s ',' with
  | [k, p] => do let k ← k.toNat?; let p ← rat? p; some (k, p)
  | _ => none

def showHeap (h : List (Rat × Nat)) : String := joinWith "~" (h.map (fun t => s!"{showRat t.1}:{t.2}"))

def pqRun (pd : TV.PDict.PD Rat) : List String → Option (List String)
  | [] => some []
  | op :: rest =>
    match splitTok op ',' with
    | ["p"] =>
      match TV.PDict.popSmallest pd with
      | none =>
        let pd' := TV.PDict.afterFailedPop pd
        (pqRun pd' rest).map (s!"err@{showHeap pd'.heap}" :: ·)
      | some (k, pd') => (pqRun pd' rest).map (s!"{k}@{showHeap pd'.heap}" :: ·)
    | ["s", k, p] =>
      match k.toNat?, rat? p with
      | some k, some p =>
        let pd' := TV.PDict.setitem pd k p
        (pqRun pd' rest).map (s!"{TV.PDict.len pd'}@{showHeap pd'.heap}" :: ·)
      | _, _ => none
    | _ => none

def tup? (s : String) : Option (Rat × Nat) :=
  match splitTok s ':' with
  | [p, k] => do let p ← rat? p; let k ← k.toNat?; some (p, k)
  | _ => none

def hqRun (h : List (Rat × Nat)) : List String → Option (List String)
  | [] => some []
  | op :: rest =>
    match splitTok op ',' with
    | ["h"] =>
      let h' := TV.Heapq.heapify TV.PDict.tlt h
      (hqRun h' rest).map (s!"-@{showHeap h'}" :: ·)
    | ["o"] =>
      match TV.Heapq.heappop TV.PDict.tlt h with
      | none => (hqRun h rest).map (s!"err@{showHeap h}" :: ·)
      | some (m, h') => (hqRun h' rest).map (s!"{showRat m.1}:{m.2}@{showHeap h'}" :: ·)
    | ["u", p, k] =>
      match rat? p, k.toNat? with
      | some p, some k =>
        let h' := TV.Heapq.heappush TV.PDict.tlt h (p, k)
        (hqRun h' rest).map (s!"-@{showHeap h'}" :: ·)
      | _, _ => none
    | _ => none

/-! one `Network` object, a sequence of calls (`Model/GraphSession.lean`) -/

def showTable (n : Nat) (tb : Table Rat) : String :=
  joinWith "," ((List.range n).flatMap (fun s => (List.range n).filterMap (fun v =>
    (tb (s, v)).map (fun d => s!"{s}.{v}.{showRat d}"))))

def showOut (n : Nat) : Out Rat → String
  | .unit => "ok"
  | .err => "err"
  | .flags d vis => s!"f:{showList (showOpt showRat) d}|{showList showBool vis}"
  | .val d => s!"v:{showOpt showRat d}"
  | .vals ds => s!"l:{showList (showOpt showRat) ds}"
  | .table tb => s!"t:{showTable n tb}"
  | .bool b => s!"b:{showBool b}"
  | .subnet ns es => s!"s:{showList toString ns}|{showList toString es}"

def flag? (s : String) : Option Bool := if s == "1" then some true else if s == "0" then some false else none

def op? (s : String) : Option (Op Rat) :=
  match splitTok s ',' with
  | ["n", v] => v.toNat?.map .addNode
  | ["e", i, a, b, w, o] => do
    let i ← i.toNat?; let a ← a.toNat?; let b ← b.toNat?; let w ← rat? w; let o ← o.toInt?
    some (.addEdge { id := i, src := a, tgt := b, w := w, ori := o })
  | ["r", a, t, c, u] => do
    let a ← a.toNat?; let c ← cut? c; let u ← flag? u
    if t == "_" then some (.route a none c u) else (t.toNat?).map (fun t => .route a (some t) c u)
  | ["d", a, t, c, u] => do
    let a ← a.toNat?; let t ← t.toNat?; let c ← cut? c; let u ← flag? u
    some (.dist a t c u)
  | ["l", a, c, u] => do
    let a ← a.toNat?; let c ← cut? c; let u ← flag? u
    some (.distList a c u)
  | ["a", c, u] => do let c ← cut? c; let u ← flag? u; some (.all c u)
  | ["p", c] => (cut? c).map .prepare
  | ["q", a, t] => do let a ← a.toNat?; let t ← t.toNat?; some (.prepared a t)
  | ["h", a, t] => do let a ← a.toNat?; let t ← t.toNat?; some (.hasPrepared a t)
  | ["s", a, c] => do let a ← a.toNat?; let c ← cut? c; some (.sub a c)
  | ["v"] => some .saveLoad
  | _ => none

def sessRun (n : Nat) (σ : Sess Rat) : List String → Option (List String)
  | [] => some []
  | op :: rest =>
    if op == "u" then (sessRun n σ rest).map (s!"t:{showTable n σ.udict}" :: ·)
    else
      match op? op with
      | none => none
      | some o =>
        let r := exec σ o
        (sessRun n r.1 rest).map (showOut n r.2 :: ·)

/-! several `Network` objects on one pool of `Node` objects (`Model/GraphShared.lean`) -/

def famRun (n : Nat) (F : Fam Rat) : List String → Option (List String)
  | [] => some []
  | tokn :: rest =>
    match tokn.splitOn ":" with
    | [k, op] =>
      match k.toNat? with
      | none => none
      | some k =>
        if op == "c" then (famRun n (execFam F .create).1 rest).map ("ok" :: ·)
        else if op == "u" then
          (famRun n F rest).map (s!"t:{showTable n ((F.nets[k]?.map (·.udict)).getD Table.empty)}" :: ·)
        else
          match splitTok op ',' with
          | ["x", a, c] =>
            match a.toNat?, cut? c with
            | some a, some c =>
              let r := execFam F (.extract k a c)
              (famRun n r.1 rest).map (showOut n r.2 :: ·)
            | _, _ => none
          | ["W", i, w] =>
            match i.toNat?, rat? w with
            | some i, some w =>
              let r := execFam F (.setWeight i w)
              (famRun n r.1 rest).map (showOut n r.2 :: ·)
            | _, _ => none
          | _ =>
            match op? op with
            | none => none
            | some o =>
              let r := execFam F (.on k o)
              (famRun n r.1 rest).map (showOut n r.2 :: ·)
    | _ => none

/-! several `Network` objects, each with its routing settings (`Model/GraphAStar.lean`) -/
section world
variable {W : Type} (pw : String → Option W) (sw : W → String) (sqrt : W → W) (okPos : List (Pos W) → Bool)

def showTableW (n : Nat) (tb : Table W) : String :=
  joinWith "," ((List.range n).flatMap (fun s => (List.range n).filterMap (fun v =>
    (tb (s, v)).map (fun d => s!"{s}.{v}.{sw d}"))))

def showOutW (n : Nat) : Out W → String
  | .unit => "ok"
  | .err => "err"
  | .flags d vis => s!"f:{showList (showOpt sw) d}|{showList showBool vis}"
  | .val d => s!"v:{showOpt sw d}"
  | .vals ds => s!"l:{showList (showOpt sw) ds}"
  | .table tb => s!"t:{showTableW sw n tb}"
  | .bool b => s!"b:{showBool b}"
  | .subnet ns es => s!"s:{showList toString ns}|{showList toString es}"

def flagW? (s : String) : Option Bool := if s == "1" then some true else if s == "0" then some false else none

def opW? (s : String) : Option (Op W) :=
  match splitTok s ',' with
  | ["n", v] => v.toNat?.map .addNode
  | ["e", i, a, b, w, o] => do
    let i ← i.toNat?; let a ← a.toNat?; let b ← b.toNat?; let w ← pw w; let o ← o.toInt?
    some (.addEdge { id := i, src := a, tgt := b, w := w, ori := o })
  | ["r", a, t, c, u] => do
    let a ← a.toNat?; let c ← cutW? pw c; let u ← flagW? u
    if t == "_" then some (.route a none c u) else (t.toNat?).map (fun t => .route a (some t) c u)
  | ["d", a, t, c, u] => do
    let a ← a.toNat?; let t ← t.toNat?; let c ← cutW? pw c; let u ← flagW? u
    some (.dist a t c u)
  | ["l", a, c, u] => do
    let a ← a.toNat?; let c ← cutW? pw c; let u ← flagW? u
    some (.distList a c u)
  | ["a", c, u] => do let c ← cutW? pw c; let u ← flagW? u; some (.all c u)
  | ["p", c] => (cutW? pw c).map .prepare
  | ["q", a, t] => do let a ← a.toNat?; let t ← t.toNat?; some (.prepared a t)
  | ["h", a, t] => do let a ← a.toNat?; let t ← t.toNat?; some (.hasPrepared a t)
  | ["s", a, c] => do let a ← a.toNat?; let c ← cutW? pw c; some (.sub a c)
  | ["v"] => some .saveLoad
  | _ => none

def wop? (s : String) : Option (WOp W) :=
  match splitTok s ',' with
  | ["m", m] => m.toNat?.map .setMethod
  | ["w", w] => (pw w).map .setWeight
  | _ => (opW? pw s).map .call

def pos? (s : String) : Option (Pos W) :=
  match splitTok s ',' with
  | [a, b, c] => do let a ← pw a; let b ← pw b; let c ← pw c; some { e := a, n := b, u := c }
  | _ => none

/-- `<n>;<E>,<N>,<U>;…`: exactly `n` positions -/
def netSpec? (s : String) : Option (Nat × List (Pos W)) :=
  match splitTok s ';' with
  | n :: ps => do
    let n ← n.toNat?
    let ps ← ps.mapM (pos? pw)
    if ps.length == n && okPos ps then some (n, ps) else none
  | [] => none

variable [LT W] [DecidableLT W] [Add W] [Sub W] [Mul W] [OfNat W 0] [OfNat W 1]

def worldRun (specs : List (Nat × List (Pos W))) (w : World W) : List String → Option (List String)
  | [] => some []
  | tokn :: rest =>
    match tokn.splitOn ":" with
    | [k, op] =>
      match k.toNat?, specs[k.toNat?.getD 0]? with
      | some k, some (n, ps) =>
        if op == "c" then
          if k == w.length then
            match ps.head? with
            | none => if n == 0 then (worldRun specs (execWorld sqrt w (.create n (fun _ => ⟨0, 0, 0⟩))).1 rest).map ("ok" :: ·) else none
            | some p0 => (worldRun specs (execWorld sqrt w (.create n (fun v => ps[v]?.getD p0))).1 rest).map ("ok" :: ·)
          else none
        else if op == "u" then
          match w[k]? with
          | some o => (worldRun specs w rest).map (s!"t:{showTableW sw n o.sess.udict}" :: ·)
          | none => none
        else
          match wop? pw op with
          | none => none
          | some o =>
            if k < w.length then
              let r := execWorld sqrt w (.on k o)
              (worldRun specs r.1 rest).map (showOutW sw n r.2 :: ·)
            else none
      | _, _ => none
    | _ => none

def handleWorld (args : List String) : String :=
  match args with
  | [nets, ops] =>
    match ((if nets == "_" then [] else nets.splitOn "|").mapM (netSpec? pw okPos)) with
    | some specs =>
      match worldRun pw sw sqrt specs [] (splitTok ops ';') with
      | some out => joinWith ";" out
      | none => "bad-request"
    | none => "bad-request"
  | _ => "bad-request"
end world

/-- exact stream: every distance between two node positions must be rational -/
def okPosRat (ps : List (Pos Rat)) : Bool :=
  ps.all (fun a => ps.all (fun b =>
    let dE := b.e - a.e; let dN := b.n - a.n; let dU := b.u - a.u
    isSquareRat (dE * dE + dN * dN + dU * dU)))

/-- float stream: no NaN coordinate (`fl?` has refused them already) -/
def okPosFloat (_ : List (Pos Float)) : Bool := true

def handle (cmd : String) (args : List String) : String :=
  match cmd, args with
  | "pq", [init, ops] =>
    match (splitTok init ';').mapM kv? with
    | some items =>
      if nodup (items.map (·.1)) then
        match pqRun (TV.PDict.ofDict items) (splitTok ops ';') with
        | some out => joinWith "," out
        | none => "bad-request"
      else "bad-request"
    | none => "bad-request"
  | "hq", [init, ops] =>
    match (splitTok init ';').mapM tup? with
    | some items =>
      match hqRun items (splitTok ops ';') with
      | some out => joinWith "," out
      | none => "bad-request"
    | none => "bad-request"
  | "sess", [n, ops] =>
    match n.toNat? with
    | some n =>
      match sessRun n (Sess.new n) (splitTok ops ';') with
      | some out => joinWith ";" out
      | none => "bad-request"
    | none => "bad-request"
  | "fam", [n, ops] =>
    match n.toNat? with
    | some n =>
      match famRun n (Fam.new n) (splitTok ops ';') with
      | some out => joinWith ";" out
      | none => "bad-request"
    | none => "bad-request"
  | "world", _ => handleWorld rat? showRat sqrtRat okPosRat args
  | "fworld", _ => handleWorld fl? showFloat Float.sqrt okPosFloat args
  | _, _ =>
    if cmd.startsWith "f" then handleW fl? showFloat (cmd.drop 1).toString args
    else handleW rat? showRat cmd args
end TV.Drv.C06
